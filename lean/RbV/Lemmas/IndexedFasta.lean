import RbV.Model.IndexedFasta
/-! Lemmas behind the C12 theorems: `pos` arithmetic, one `read_line` step, the read loop. Core only. -/
namespace RbV.IdxFa
open RbV.Fastx

theorem pos_line (idx : Idx) (hlb : 0 < idx.lb) (line r : Nat) (hr : r < idx.lb) :
    pos idx (line * idx.lb + r) = idx.off + line * idx.lB + r := by
  unfold pos
  have h1 : (line * idx.lb + r) / idx.lb = line := by
    rw [Nat.add_comm, Nat.mul_comm, Nat.add_mul_div_left _ _ hlb, Nat.div_eq_of_lt hr]; omega
  have h2 : (line * idx.lb + r) % idx.lb = r := by
    rw [Nat.add_comm, Nat.mul_comm, Nat.add_mul_mod_self_left, Nat.mod_eq_of_lt hr]
  rw [h1, h2]

theorem pos_mono (idx : Idx) (hlb : 0 < idx.lb) (hlB : idx.lb ≤ idx.lB) {i j : Nat} (h : i ≤ j) :
    pos idx i ≤ pos idx j := by
  unfold pos
  have hd : i / idx.lb ≤ j / idx.lb := Nat.div_le_div_right h
  have hi := Nat.div_add_mod i idx.lb
  have hj := Nat.div_add_mod j idx.lb
  have hmi : i % idx.lb < idx.lb := Nat.mod_lt _ hlb
  have hmj : j % idx.lb < idx.lb := Nat.mod_lt _ hlb
  rcases Nat.lt_or_ge (i / idx.lb) (j / idx.lb) with hlt | hge
  · have : (i / idx.lb + 1) * idx.lB ≤ j / idx.lb * idx.lB := Nat.mul_le_mul_right _ hlt
    rw [Nat.add_mul] at this
    omega
  · have he : i / idx.lb = j / idx.lb := Nat.le_antisymm hd hge
    rw [he] at hi ⊢
    omega

theorem slice_length (f : Bytes) (idx : Idx) (a b : Nat) : (slice f idx a b).length = b - a := by
  simp [slice]

theorem slice_self (f : Bytes) (idx : Idx) (a : Nat) : slice f idx a a = [] := by
  simp [slice]

theorem slice_append (f : Bytes) (idx : Idx) {a b c : Nat} (hab : a ≤ b) (hbc : b ≤ c) :
    slice f idx a b ++ slice f idx b c = slice f idx a c := by
  unfold slice
  rw [← List.map_append]
  have : List.range' a (b - a) ++ List.range' b (c - b) = List.range' a (c - a) := by
    have h := @List.range'_append_1 a (b - a) (c - b)
    have e1 : a + (b - a) = b := by omega
    have e2 : b - a + (c - b) = c - a := by omega
    rw [e1, e2] at h; exact h
  rw [this]

/-- bytes taken from the stream at `base` are the slice of the bases whose positions start at `base` -/
theorem take_eq_slice (f rest : Bytes) (idx : Idx) (base cur n : Nat)
    (hrest : rest = f.drop base) (hn : n ≤ rest.length)
    (hpos : ∀ j, j < n → pos idx (cur + j) = base + j) :
    rest.take n = slice f idx cur (cur + n) := by
  subst hrest
  have hlen : (f.drop base).length = f.length - base := List.length_drop
  apply List.ext_getElem
  · simp [slice_length]; omega
  · intro j h1 h2
    have hj : j < n := by simp at h1; omega
    simp only [slice, List.getElem_take, List.getElem_drop, List.getElem_map, List.getElem_range']
    rw [Nat.one_mul, hpos j hj, List.getD_eq_getElem?_getD, List.getElem?_eq_getElem (by omega)]
    rfl

/-- the state invariant of the read loop: the stream is at line `line`, column `lo`, the next base is `cur` -/
structure Inv (f : Bytes) (idx : Idx) (s : St) (lo cur line : Nat) : Prop where
  rest_eq : s.rest = f.drop (idx.off + line * idx.lB + lo)
  lo_lt : lo < idx.lB
  cur_eq : cur = line * idx.lb + min lo idx.lb
  avail_le : s.avail ≤ s.rest.length

theorem readLine_eof (sched : Nat → Nat) (idx : Idx) (s : St) (lo bl : Nat)
    (hr : s.rest = []) (hav : s.avail ≤ s.rest.length) :
    readLine sched idx s lo bl = .error .eof := by
  have h0 : s.avail = 0 := by rw [hr] at hav; simpa using hav
  simp [readLine, fillBuf, h0, hr]

/-- one successful `read_line` call -/
theorem readLine_step (f : Bytes) (sched : Nat → Nat) (idx : Idx) (s : St) (lo cur line bl : Nat)
    (hlb : 0 < idx.lb) (hlB : idx.lb < idx.lB) (hs : ∀ k, 0 < sched k)
    (inv : Inv f idx s lo cur line) (hbl : 0 < bl) (hne : s.rest ≠ []) :
    ∃ s' lo' n line', readLine sched idx s lo bl = .ok (s', lo', s.rest.take n) ∧
      n ≤ bl ∧ n ≤ s.rest.length ∧ lo + n ≤ max lo idx.lb ∧
      Inv f idx s' lo' (cur + n) line' ∧ s'.rest.length < s.rest.length := by
  obtain ⟨hrest, hlo, hcur, hav⟩ := inv
  have hlen : 0 < s.rest.length := List.length_pos_iff.mpr hne
  -- the buffer after `fill_buf`
  let a := if s.avail = 0 then min (sched s.k) s.rest.length else s.avail
  have ha_pos : 0 < a := by
    show 0 < (if s.avail = 0 then min (sched s.k) s.rest.length else s.avail)
    have := hs s.k
    split <;> omega
  have ha_le : a ≤ s.rest.length := by
    show (if s.avail = 0 then min (sched s.k) s.rest.length else s.avail) ≤ s.rest.length
    split <;> omega
  have hfill_avail : (fillBuf sched s).avail = a := by
    unfold fillBuf; show _ = (if s.avail = 0 then min (sched s.k) s.rest.length else s.avail)
    split <;> simp_all
  have hfill_rest : (fillBuf sched s).rest = s.rest := by
    unfold fillBuf; split <;> rfl
  have hsucc : (line + 1) * idx.lB = line * idx.lB + idx.lB := by rw [Nat.add_mul]; omega
  have hsuccb : (line + 1) * idx.lb = line * idx.lb + idx.lb := by rw [Nat.add_mul]; omega
  have hdrop : ∀ t, (s.rest.drop t) = f.drop (idx.off + line * idx.lB + lo + t) := by
    intro t; rw [hrest, List.drop_drop]
  by_cases hcase : min a (idx.lb - min idx.lb lo) ≤ bl
  · -- the whole rest of the line that is buffered is taken, terminator bytes are skipped
    let tr := min a (idx.lB - lo)
    have htr_pos : 0 < tr := by show 0 < min a (idx.lB - lo); omega
    have htr_le : tr ≤ a := by show min a (idx.lB - lo) ≤ a; omega
    have hrl : readLine sched idx s lo bl =
        .ok (consume (fillBuf sched s) tr, (if lo + tr ≥ idx.lB then 0 else lo + tr),
          s.rest.take (min a (idx.lb - min idx.lb lo))) := by
      unfold readLine
      simp only [hfill_avail, hfill_rest]
      have : ¬ a = 0 := by omega
      simp only [this, if_false, hcase, if_true]
      have : ¬ tr = 0 := by omega
      show (if min a (idx.lB - lo) = 0 then _ else _) = _
      simp only [show ¬ min a (idx.lB - lo) = 0 from this, if_false]
      rfl
    by_cases hwrap : lo + tr ≥ idx.lB
    · refine ⟨_, _, _, line + 1, hrl, hcase, by omega, by omega, ⟨?_, ?_, ?_, ?_⟩, ?_⟩
      · simp only [consume, hfill_rest, if_pos hwrap]; rw [hdrop]
        have : lo + tr = idx.lB := by show lo + min a (idx.lB - lo) = idx.lB; have : tr = min a (idx.lB - lo) := rfl; omega
        congr 1; omega
      · simp only [if_pos hwrap]; omega
      · simp only [if_pos hwrap]
        have : tr = min a (idx.lB - lo) := rfl
        omega
      · simp only [consume, hfill_rest, hfill_avail, List.length_drop]; omega
      · simp only [consume, hfill_rest, List.length_drop]; omega
    · refine ⟨_, _, _, line, hrl, hcase, by omega, by omega, ⟨?_, ?_, ?_, ?_⟩, ?_⟩
      · simp only [consume, hfill_rest, if_neg hwrap]; rw [hdrop, Nat.add_assoc]
      · simp only [if_neg hwrap]; omega
      · simp only [if_neg hwrap]
        have : tr = min a (idx.lB - lo) := rfl
        omega
      · simp only [consume, hfill_rest, hfill_avail, List.length_drop]; omega
      · simp only [consume, hfill_rest, List.length_drop]; omega
  · -- more bases are buffered than wanted: exactly `bl` bases are taken
    have hrl : readLine sched idx s lo bl =
        .ok (consume (fillBuf sched s) bl, (if lo + bl ≥ idx.lB then 0 else lo + bl), s.rest.take bl) := by
      unfold readLine
      simp only [hfill_avail, hfill_rest]
      have : ¬ a = 0 := by omega
      simp only [this, if_false, hcase]
      have : ¬ bl = 0 := by omega
      simp only [this, if_false]
    have hnw : ¬ lo + bl ≥ idx.lB := by omega
    refine ⟨_, _, _, line, hrl, Nat.le_refl _, by omega, by omega, ⟨?_, ?_, ?_, ?_⟩, ?_⟩
    · simp only [consume, hfill_rest, if_neg hnw]; rw [hdrop, Nat.add_assoc]
    · simp only [if_neg hnw]; omega
    · simp only [if_neg hnw]; omega
    · simp only [consume, hfill_rest, hfill_avail, List.length_drop]; omega
    · simp only [consume, hfill_rest, List.length_drop]; omega

/-- position of the next base is not before the stream position -/
theorem Inv.base_le_pos {f : Bytes} {idx : Idx} {s : St} {lo cur line : Nat}
    (inv : Inv f idx s lo cur line) (hlb : 0 < idx.lb) (hlB : idx.lb < idx.lB) :
    idx.off + line * idx.lB + lo ≤ pos idx cur := by
  obtain ⟨_, hlo, hcur, _⟩ := inv
  by_cases h : lo < idx.lb
  · have : cur = line * idx.lb + lo := by omega
    rw [this, pos_line idx hlb line lo h]; omega
  · have : cur = (line + 1) * idx.lb + 0 := by rw [Nat.add_mul]; omega
    rw [this, pos_line idx hlb (line + 1) 0 hlb, Nat.add_mul]; omega

theorem readLoop_spec (f : Bytes) (sched : Nat → Nat) (idx : Idx) (cap stop : Nat)
    (hlb : 0 < idx.lb) (hlB : idx.lb < idx.lB) (hs : ∀ k, 0 < sched k) (hcap : 0 < cap) :
    ∀ fuel s lo cur line, Inv f idx s lo cur line → cur ≤ stop → s.rest.length < fuel →
      ((∀ i, cur ≤ i → i < stop → pos idx i < f.length) →
        readLoop sched idx cap fuel s lo (stop - cur) = (slice f idx cur stop, none)) ∧
      (cur < stop → f.length ≤ pos idx (stop - 1) →
        ∃ m, cur ≤ m ∧ m < stop ∧ (∀ i, cur ≤ i → i < m → pos idx i < f.length) ∧
          readLoop sched idx cap fuel s lo (stop - cur) = (slice f idx cur m, some .eof)) := by
  intro fuel
  induction fuel with
  | zero => intro s lo cur line _ _ h; omega
  | succ fuel ih =>
    intro s lo cur line inv hcs hfuel
    by_cases hdone : stop - cur = 0
    · have : cur = stop := by omega
      subst this
      refine ⟨fun _ => ?_, fun h => by omega⟩
      simp [readLoop, slice_self]
    · have hb : 0 < min cap (stop - cur) := by omega
      by_cases hne : s.rest = []
      · -- end of file
        have hrl := readLine_eof sched idx s lo (min cap (stop - cur)) hne inv.avail_le
        have hbase : f.length ≤ idx.off + line * idx.lB + lo := by
          have := inv.rest_eq; rw [hne] at this
          exact List.drop_eq_nil_iff.mp this.symm
        have hp := inv.base_le_pos hlb hlB
        refine ⟨fun hall => ?_, fun _ _ => ⟨cur, Nat.le_refl _, by omega, fun i h1 h2 => by omega, ?_⟩⟩
        · have := hall cur (Nat.le_refl _) (by omega); omega
        · simp [readLoop, hdone, hrl, slice_self]
      · obtain ⟨s', lo', n, line', hrl, hnb, hnr, hnl, inv', hshort⟩ :=
          readLine_step f sched idx s lo cur line (min cap (stop - cur)) hlb hlB hs inv hb hne
        have hkl : (s.rest.take n).length = n := by simp; omega
        have hunf : readLoop sched idx cap (fuel + 1) s lo (stop - cur) =
            (s.rest.take n ++ (readLoop sched idx cap fuel s' lo' (stop - (cur + n))).1,
             (readLoop sched idx cap fuel s' lo' (stop - (cur + n))).2) := by
          simp only [readLoop, hdone, if_false, hrl, hkl]
          have : stop - cur - n = stop - (cur + n) := by omega
          rw [this]
        have hpos : ∀ j, j < n → pos idx (cur + j) = idx.off + line * idx.lB + lo + j := by
          intro j hj
          have hlo : lo < idx.lb := by
            rcases Nat.lt_or_ge lo idx.lb with h | h
            · exact h
            · have : max lo idx.lb = lo := by omega
              omega
          have hc : cur + j = line * idx.lb + (lo + j) := by have := inv.cur_eq; omega
          rw [hc, pos_line idx hlb line (lo + j) (by omega)]; omega
        have hslice : s.rest.take n = slice f idx cur (cur + n) :=
          take_eq_slice f s.rest idx _ cur n inv.rest_eq hnr hpos
        have hcn : cur + n ≤ stop := by omega
        obtain ⟨ih1, ih2⟩ := ih s' lo' (cur + n) line' inv' hcn (by omega)
        refine ⟨fun hall => ?_, fun hlt htr => ?_⟩
        · rw [hunf, ih1 (fun i h1 h2 => hall i (by omega) h2), hslice]
          simp only [slice_append f idx (Nat.le_add_right cur n) hcn]
        · have hbase : idx.off + line * idx.lB + lo < f.length := by
            have h1 := inv.rest_eq
            have h2 : (f.drop (idx.off + line * idx.lB + lo)).length = f.length - (idx.off + line * idx.lB + lo) :=
              List.length_drop
            have h3 : 0 < s.rest.length := List.length_pos_iff.mpr hne
            rw [h1, h2] at h3; omega
          have hrl2 : s.rest.length = f.length - (idx.off + line * idx.lB + lo) := by
            rw [inv.rest_eq]; exact List.length_drop
          by_cases hreach : cur + n = stop
          · -- impossible: the last base would lie inside the file
            exfalso
            have hn : 0 < n := by omega
            have hp := hpos (n - 1) (by omega)
            have : cur + (n - 1) = stop - 1 := by omega
            rw [this] at hp
            omega
          · obtain ⟨m, hm1, hm2, hm3, hm⟩ := ih2 (by omega) htr
            refine ⟨m, by omega, hm2, ?_, ?_⟩
            · intro i hi1 hi2
              by_cases hi : i < cur + n
              · have := hpos (i - cur) (by omega)
                have e : cur + (i - cur) = i := by omega
                rw [e] at this; omega
              · exact hm3 i (by omega) hi2
            · rw [hunf, hm, hslice]
              simp only [slice_append f idx (Nat.le_add_right cur n) hm1]

/-- the state `seek_to` establishes -/
theorem seekTo_inv (f : Bytes) (idx : Idx) (start : Nat) (hlb : 0 < idx.lb) (hlB : idx.lb < idx.lB) :
    Inv f idx (seekTo f idx start).1 (seekTo f idx start).2 start (start / idx.lb) := by
  have hm : start % idx.lb < idx.lb := Nat.mod_lt _ hlb
  refine ⟨rfl, ?_, ?_, ?_⟩
  · simp only [seekTo]; omega
  · simp only [seekTo]
    have := Nat.div_add_mod start idx.lb
    rw [Nat.mul_comm] at this
    omega
  · simp [seekTo]

theorem seekTo_fuel (f : Bytes) (idx : Idx) (start : Nat) : (seekTo f idx start).1.rest.length < f.length + 1 := by
  simp only [seekTo, List.length_drop]; omega

/-- under the position hypothesis the slice is the requested part of the sequence -/
theorem slice_of_at (f : Bytes) (idx : Idx) (seq : Bytes) (a b : Nat) (hab : a ≤ b) (hb : b ≤ seq.length)
    (h : ∀ i, a ≤ i → (hi : i < b) → f[pos idx i]? = some (seq[i]'(by omega))) :
    slice f idx a b = (seq.drop a).take (b - a) := by
  apply List.ext_getElem
  · simp [slice_length]; omega
  · intro j h1 h2
    have hj : j < b - a := by simpa [slice_length] using h1
    simp only [slice, List.getElem_map, List.getElem_range', List.getElem_take, List.getElem_drop, Nat.one_mul]
    rw [List.getD_eq_getElem?_getD, h (a + j) (by omega) (by omega)]
    rfl

/-! ### soundness of the executable well-formedness check used by the driver -/

theorem wfLines_sound (lb lB : Nat) (hlb : 0 < lb) :
    ∀ fuel (rest seq : Bytes), wfLines lb lB fuel rest seq = true →
      ∀ i, (h : i < seq.length) → rest[i / lb * lB + i % lb]? = some seq[i] := by
  intro fuel
  induction fuel with
  | zero =>
    intro rest seq hw i h
    simp [wfLines] at hw
    subst hw; simp at h
  | succ fuel ih =>
    intro rest seq hw i h
    unfold wfLines at hw
    have hne : seq.isEmpty = false := by
      cases seq with
      | nil => simp at h
      | cons b s => rfl
    simp only [hne, Bool.false_eq_true, if_false] at hw
    have first : ∀ n, rest.take n = seq.take n → i < n → i < lb → rest[i / lb * lB + i % lb]? = some seq[i] := by
      intro n hn hin hil
      have h1 : i / lb = 0 := Nat.div_eq_of_lt hil
      have h2 : i % lb = i := Nat.mod_eq_of_lt hil
      rw [h1, h2, Nat.zero_mul, Nat.zero_add]
      have := congrArg (fun l => l[i]?) hn
      simp only [List.getElem?_take, if_pos hin] at this
      rw [this, List.getElem?_eq_getElem h]
    split at hw
    · rename_i hle
      have heq : rest.take seq.length = seq := by simpa using hw
      exact first seq.length (by rw [heq, List.take_of_length_le (Nat.le_refl _)]) h (by omega)
    · rename_i hgt
      simp only [Bool.and_eq_true, beq_iff_eq] at hw
      obtain ⟨h1, h2⟩ := hw
      rcases Nat.lt_or_ge i lb with hil | hil
      · exact first lb h1 hil hil
      · have hj : i - lb < (seq.drop lb).length := by simp only [List.length_drop]; omega
        have := ih (rest.drop lB) (seq.drop lb) h2 (i - lb) hj
        rw [List.getElem?_drop, List.getElem_drop] at this
        have e1 : i / lb = (i - lb) / lb + 1 := by
          have : i = (i - lb) + lb := by omega
          conv => lhs; rw [this]
          exact Nat.add_div_right _ hlb
        have e2 : i % lb = (i - lb) % lb := by
          have : i = (i - lb) + lb := by omega
          conv => lhs; rw [this]
          exact Nat.add_mod_right _ _
        have e3 : lb + (i - lb) = i := by omega
        rw [e1, e2, Nat.add_mul, Nat.one_mul]
        simp only [e3] at this
        rw [← this]
        congr 1
        omega

/-- the driver's check establishes the hypothesis of the C12 theorems -/
theorem wfCheck_sound' (file : Bytes) (idx : Idx) (seq : Bytes) (h : wfCheck file idx seq = true) :
    WellFormed file idx seq := by
  simp only [wfCheck, Bool.and_eq_true, beq_iff_eq, decide_eq_true_eq] at h
  obtain ⟨⟨⟨h1, h2⟩, h3⟩, h4⟩ := h
  refine ⟨h1, h2, h3, ?_⟩
  intro i hi
  have := wfLines_sound idx.lb idx.lB h2 _ _ _ h4 i hi
  rw [List.getElem?_drop] at this
  rw [← this]
  unfold pos
  congr 1
  omega

end RbV.IdxFa
