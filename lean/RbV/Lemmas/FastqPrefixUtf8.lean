import RbV.Lemmas.FastxStream
import RbV.Lemmas.Utf8Lines
import RbV.Lemmas.Fastx
/-!
# Truncated streams with non-ASCII text: a cut inside a multi-byte character  (C11)

A prefix of a valid UTF-8 file has valid lines except possibly the last one (`ABL`).  On such input the FASTQ reader
with the UTF-8 check yields the items of the plain list model up to the `read` that meets the bad line, and the
UTF-8 error instead of that last item — so every record it yields is a record of the plain model.
-/
namespace RbV.Fastx
open RbV.BufLines

/-- all lines but the last are valid UTF-8 -/
def ABL : List Bytes → Prop
  | [] => True
  | [_] => True
  | l :: l' :: r => validUtf8 l = true ∧ ABL (l' :: r)

theorem ABL.tail {l : Bytes} {r : List Bytes} (h : ABL (l :: r)) : ABL r := by
  cases r with
  | nil => trivial
  | cons l' r' => exact h.2

theorem ABL.head_valid {l : Bytes} {r : List Bytes} (h : ABL (l :: r)) (hr : r ≠ []) : validUtf8 l = true := by
  cases r with
  | nil => exact absurd rfl hr
  | cons l' r' => exact h.1

theorem ABL.suffix {pre s : List Bytes} (h : ABL (pre ++ s)) : ABL s := by
  induction pre with
  | nil => exact h
  | cons p pre ih => exact ih (ABL.tail h)

theorem ABL.of_allValid {ls : List Bytes} (h : ∀ l ∈ ls, validUtf8 l = true) : ABL ls := by
  induction ls with
  | nil => trivial
  | cons l r ih =>
    cases r with
    | nil => trivial
    | cons l' r' => exact ⟨h l (by simp), ih fun x hx => h x (List.mem_cons_of_mem _ hx)⟩

theorem ABL.cons {l : Bytes} {r : List Bytes} (hl : validUtf8 l = true) (h : ABL r) : ABL (l :: r) := by
  cases r with
  | nil => trivial
  | cons l' r' => exact ⟨hl, h⟩

/-! ## suffixes -/

theorem fqSeq_suffix (ls : List Bytes) : ∃ pre, ls = pre ++ (fqSeq ls).2.2 := by
  induction ls with
  | nil => exact ⟨[], rfl⟩
  | cons l ls ih =>
    unfold fqSeq
    split
    · exact ⟨[], rfl⟩
    · obtain ⟨pre, hp⟩ := ih
      exact ⟨l :: pre, by simp only [List.cons_append]; rw [← hp]⟩

theorem fqQual_suffix (n : Nat) (ls : List Bytes) : ∃ pre, ls = pre ++ (fqQual n ls).2 := by
  induction n generalizing ls with
  | zero => exact ⟨[], rfl⟩
  | succ n ih =>
    cases ls with
    | nil => simpa [fqQual] using ih []
    | cons l ls =>
      obtain ⟨pre, hp⟩ := ih ls
      exact ⟨l :: pre, by simp only [fqQual, List.cons_append]; rw [← hp]⟩

theorem tail_suffix (ls : List Bytes) : ∃ pre, ls = pre ++ ls.tail := by
  cases ls with
  | nil => exact ⟨[], rfl⟩
  | cons l r => exact ⟨[l], rfl⟩

theorem fqRead_suffix (l : Bytes) (ls : List Bytes) : ∃ pre, ls = pre ++ (fqRead l ls).2 := by
  have hq : ∃ pre, ls = pre ++ (fqQual (fqSeq ls).2.1 (fqSeq ls).2.2.tail).2 := by
    obtain ⟨p1, h1⟩ := fqSeq_suffix ls
    obtain ⟨p2, h2⟩ := tail_suffix (fqSeq ls).2.2
    obtain ⟨p3, h3⟩ := fqQual_suffix (fqSeq ls).2.1 (fqSeq ls).2.2.tail
    exact ⟨p1 ++ p2 ++ p3, by rw [List.append_assoc, List.append_assoc, ← h3, ← h2, ← h1]⟩
  unfold fqRead
  split
  · exact ⟨[], rfl⟩
  · simp only
    split <;> exact hq

/-! ## the `…U` functions on lines that are valid except possibly the last -/

variable {T : Txt}

/-- `T` agrees with the ASCII text functions on every line -/
def Agrees (T : Txt) (ls : List Bytes) : Prop := ∀ l ∈ ls, T.AgreesOn l

theorem Agrees.tail {l : Bytes} {ls : List Bytes} (h : Agrees T (l :: ls)) : Agrees T ls :=
  fun x hx => h x (List.mem_cons_of_mem _ hx)

theorem Agrees.suffix {pre s : List Bytes} (h : Agrees T (pre ++ s)) : Agrees T s :=
  fun x hx => h x (List.mem_append_right _ hx)

theorem fqSeqU_abl (ls : List Bytes) (hv : ABL ls) (ha : Agrees T ls) :
    fqSeqU T ls = .ok (fqSeq ls) ∨ (fqSeqU T ls = .error [] ∧ (fqSeq ls).2.2.tail = []) := by
  induction ls with
  | nil => left; rfl
  | cons l ls ih =>
    by_cases hl : validUtf8 l = true
    · unfold fqSeqU fqSeq
      simp only [hl, Bool.not_true, Bool.false_eq_true, if_false]
      split
      · left; rfl
      · rcases ih hv.tail ha.tail with h | ⟨h, h'⟩
        · left; rw [h, (ha l (by simp)).1]
        · right; rw [h]; exact ⟨rfl, h'⟩
    · have : ls = [] := by
        cases ls with
        | nil => rfl
        | cons l' r' => exact absurd hv.1 hl
      subst this
      right
      have hl' : validUtf8 l = false := by simpa using hl
      refine ⟨by simp [fqSeqU, hl'], ?_⟩
      unfold fqSeq
      split <;> simp [fqSeq]

theorem fqQual_nil (n : Nat) : (fqQual n []).2 = [] := by
  induction n with
  | zero => rfl
  | succ n ih => simpa [fqQual] using ih

theorem fqQualU_abl (n : Nat) (ls : List Bytes) (hv : ABL ls) (ha : Agrees T ls) :
    fqQualU T n ls = .ok (fqQual n ls) ∨ (fqQualU T n ls = .error [] ∧ (fqQual n ls).2 = []) := by
  induction n generalizing ls with
  | zero => left; rfl
  | succ n ih =>
    cases ls with
    | nil => simpa [fqQualU, fqQual] using ih [] hv ha
    | cons l ls =>
      by_cases hl : validUtf8 l = true
      · simp only [fqQualU, fqQual, hl, Bool.not_true, Bool.false_eq_true, if_false]
        rcases ih ls hv.tail ha.tail with h | ⟨h, h'⟩
        · left; rw [h, (ha l (by simp)).1]
        · right; rw [h]; exact ⟨rfl, h'⟩
      · have : ls = [] := by
          cases ls with
          | nil => rfl
          | cons l' r' => exact absurd hv.1 hl
        subst this
        right
        have hl' : validUtf8 l = false := by simpa using hl
        exact ⟨by simp [fqQualU, hl'], by simp [fqQual, fqQual_nil]⟩

/-- one `read`: either it is the `read` of the plain model, or it met the bad last line — then the `read` of the
plain model consumed everything as well -/
theorem fqReadU_abl (l : Bytes) (ls : List Bytes) (hv : ABL (l :: ls)) (ha : Agrees T (l :: ls)) :
    fqReadU T l ls = (.item (fqRead l ls).1, (fqRead l ls).2) ∨
      (fqReadU T l ls = (.utf8, []) ∧ (fqRead l ls).2 = []) := by
  by_cases hl : validUtf8 l = true
  · obtain ⟨p1, h1⟩ := fqSeq_suffix ls
    obtain ⟨p2, h2⟩ := tail_suffix (fqSeq ls).2.2
    have hvt : ABL (fqSeq ls).2.2.tail := by
      have : ABL (p1 ++ (p2 ++ (fqSeq ls).2.2.tail)) := by rw [← h2, ← h1]; exact hv.tail
      exact ABL.suffix (ABL.suffix this)
    have hat : Agrees T (fqSeq ls).2.2.tail := by
      have : Agrees T (p1 ++ (p2 ++ (fqSeq ls).2.2.tail)) := by rw [← h2, ← h1]; exact ha.tail
      exact Agrees.suffix (Agrees.suffix this)
    unfold fqReadU fqRead
    simp only [hl, Bool.not_true, Bool.false_eq_true, if_false]
    split
    · left; rfl
    · rcases fqSeqU_abl ls hv.tail ha.tail with h | ⟨h, h'⟩
      · rw [h]
        simp only
        rcases fqQualU_abl (fqSeq ls).2.1 (fqSeq ls).2.2.tail hvt hat with hq | ⟨hq, hq'⟩
        · rw [hq]
          simp only [(ha l (by simp)).2.2]
          left
          split <;> rfl
        · rw [hq]; right
          refine ⟨rfl, ?_⟩
          split <;> exact hq'
      · rw [h]; right
        refine ⟨rfl, ?_⟩
        rw [h']
        split <;> exact fqQual_nil _
  · have : ls = [] := by
      cases ls with
      | nil => rfl
      | cons l' r' => exact absurd hv.1 hl
    subst this
    right
    have hl' : validUtf8 l = false := by simpa using hl
    refine ⟨by simp [fqReadU, hl'], ?_⟩
    have := fqRead_length_le l []
    exact List.length_eq_zero_iff.mp (by simpa using this)

/-- **the reader with the UTF-8 check on lines that are valid except possibly the last**: the items of the plain list
model, or those items with the last one replaced by the UTF-8 error -/
theorem fqRecordsU_abl (ls : List Bytes) (hv : ABL ls) (ha : Agrees T ls) :
    fqRecordsU T ls = (fqRecords ls).map .item ∨
      ∃ pre last, fqRecords ls = pre ++ [last] ∧ fqRecordsU T ls = pre.map .item ++ [.utf8] := by
  fun_induction fqRecords ls with
  | case1 => left; simp [fqRecordsU]
  | case2 l ls ih =>
    rw [fqRecordsU_cons]
    rcases fqReadU_abl l ls hv ha with h | ⟨h, h'⟩
    · rw [h]
      obtain ⟨pre, hp⟩ := fqRead_suffix l ls
      have hv' : ABL (fqRead l ls).2 := by
        have : ABL (pre ++ (fqRead l ls).2) := by rw [← hp]; exact hv.tail
        exact ABL.suffix this
      have ha' : Agrees T (fqRead l ls).2 := by
        have : Agrees T (pre ++ (fqRead l ls).2) := by rw [← hp]; exact ha.tail
        exact Agrees.suffix this
      rcases ih hv' ha' with h2 | ⟨p, last, h2, h3⟩
      · left; simp [h2]
      · right
        exact ⟨(fqRead l ls).1 :: p, last, by simp [h2], by simp [h3]⟩
    · right
      refine ⟨[], (fqRead l ls).1, ?_, ?_⟩
      · rw [h']; simp [fqRecords]
      · rw [h]; simp [fqRecordsU]

/-- every item (record or format error) of the reader with the UTF-8 check is an item of the plain list model -/
theorem fqRecordsU_abl_mem (ls : List Bytes) (hv : ABL ls) (ha : Agrees T ls) (x : FqItem)
    (hx : SItem.item x ∈ fqRecordsU T ls) : x ∈ fqRecords ls := by
  rcases fqRecordsU_abl ls hv ha with h | ⟨pre, last, h1, h2⟩
  · rw [h] at hx
    obtain ⟨y, hy, hxy⟩ := List.mem_map.mp hx
    cases hxy
    exact hy
  · rw [h2] at hx
    rw [h1]
    rcases List.mem_append.mp hx with hx' | hx'
    · obtain ⟨y, hy, hxy⟩ := List.mem_map.mp hx'
      cases hxy
      exact List.mem_append_left _ hy
    · simp at hx'

/-! ## the lines of a prefix of a valid UTF-8 file -/

theorem firstLine_shape (f : Bytes) :
    (∃ pre, (firstLine f).1 = pre ++ [10] ∧ 10 ∉ pre) ∨ ((firstLine f).2 = [] ∧ 10 ∉ (firstLine f).1) := by
  induction f with
  | nil => right; simp [firstLine]
  | cons b r ih =>
    by_cases hb : b = 10
    · left; exact ⟨[], by simp [firstLine, hb]⟩
    · simp only [firstLine, hb, if_false]
      rcases ih with ⟨pre, h1, h2⟩ | ⟨h1, h2⟩
      · left
        refine ⟨b :: pre, by simp [h1], ?_⟩
        intro hm
        rcases List.mem_cons.mp hm with h | h
        · exact hb h.symm
        · exact h2 h
      · right
        refine ⟨h1, ?_⟩
        intro hm
        rcases List.mem_cons.mp hm with h | h
        · exact hb h.symm
        · exact h2 h

theorem firstLine_nolf (l : Bytes) (h : 10 ∉ l) : firstLine l = (l, []) := by
  induction l with
  | nil => rfl
  | cons b r ih =>
    have hb : b ≠ 10 := fun e => h (by simp [e])
    have hr : 10 ∉ r := fun e => h (List.mem_cons_of_mem _ e)
    simp [firstLine, hb, ih hr]

theorem splitLines_nolf_ite (l : Bytes) (h : 10 ∉ l) : splitLines l = if l = [] then [] else [l] := by
  by_cases hl : l = []
  · subst hl; rfl
  · rw [splitLines_eq_firstLine l hl, firstLine_nolf l h]
    simp [hl, splitLines]

theorem abl_single_or_nil (l : Bytes) : ABL (if l = [] then [] else [l]) := by
  split <;> trivial

theorem abl_splitLines_take_aux (m : Nat) : ∀ (f : Bytes), f.length ≤ m → validUtf8 f = true →
    ∀ n, ABL (splitLines (f.take n)) := by
  induction m with
  | zero =>
    intro f hf _ n
    have : f = [] := List.length_eq_zero_iff.mp (by omega)
    subst this
    simp [splitLines, ABL]
  | succ m ih =>
    intro f hf hv n
    by_cases hne : f = []
    · subst hne; simp [splitLines, ABL]
    · have happ := firstLine_append f
      have hfl := validUtf8_firstLine f hv
      have hshape := firstLine_shape f
      generalize firstLine f = ab at happ hfl hshape
      obtain ⟨a, b⟩ := ab
      simp only at happ hfl hshape
      subst happ
      rcases hshape with ⟨pre, h1, h2⟩ | ⟨h1, h2⟩
      · -- the first line ends with LF
        subst h1
        by_cases hn : n ≤ pre.length
        · have : ((pre ++ [10]) ++ b).take n = pre.take n := by
            rw [List.append_assoc, List.take_append_of_le_length hn]
          rw [this, splitLines_nolf_ite _ (fun hm => h2 (List.mem_of_mem_take hm))]
          exact abl_single_or_nil _
        · have hlen : b.length ≤ m := by
            simp only [List.length_append, List.length_cons, List.length_nil] at hf
            omega
          have : ((pre ++ [10]) ++ b).take n = pre ++ 10 :: b.take (n - pre.length - 1) := by
            have hk : n - pre.length = (n - pre.length - 1) + 1 := by omega
            rw [List.append_assoc, List.take_append, List.take_of_length_le (by omega), hk]
            rfl
          rw [this, splitLines_line _ _ h2]
          exact ABL.cons hfl.1 (ih _ hlen hfl.2 _)
      · -- a single line without terminator
        subst h1
        rw [List.append_nil]
        rw [splitLines_nolf_ite _ (fun hm => h2 (List.mem_of_mem_take hm))]
        exact abl_single_or_nil _

/-- **a prefix of a valid UTF-8 file has valid lines, except possibly the last** (the cut may fall inside a
multi-byte character) -/
theorem abl_splitLines_take (f : Bytes) (hv : validUtf8 f = true) (n : Nat) : ABL (splitLines (f.take n)) :=
  abl_splitLines_take_aux f.length f (Nat.le_refl _) hv n

end RbV.Fastx
