import RbV.Lemmas.ExpandGeneric
import RbV.Lemmas.KmerHash
import RbV.Lemmas.LcskppEvents
/-! C19 — `expand_kmer_matches` mirror model: both walks stay strictly between neighbours of a diagonal, the loops end by
their own condition, the result is strictly sorted and keeps the seeds.  Core Lean only. -/
namespace RbV.Lemmas.Expand
open RbV.KChain RbV.Model.Expand RbV.Model.Lcskpp RbV.QGram

def embL (a : M) : Int × Int := ((a.1 : Int), (a.2 : Int))
def keyL (z : M) : Int := (z.1 : Int)
def keyR (z : M) : Int := -(z.1 : Int)

/-! ### left walk -/

theorem leftLoop_spec (seq1 seq2 : List Nat) (allowed : Nat) (last : Int × Int) (D : Int) (hD : last.1 - last.2 = D)
    (h1 : -1 ≤ last.1) (h2 : -1 ≤ last.2) :
    ∀ (fuel : Nat) (curr : Int × Int) (nmm : Nat), curr.1 - curr.2 = D → 1 ≤ fuel → curr.1 - last.1 + 1 ≤ (fuel : Int) →
      ∃ blk, leftLoop seq1 seq2 allowed last fuel curr nmm = some blk ∧
        (∀ z ∈ blk, dg z = D ∧ last.1 < (z.1 : Int) ∧ (z.1 : Int) ≤ curr.1) ∧ blk.Pairwise (fun a b => a.1 > b.1) := by
  intro fuel
  induction fuel with
  | zero => intro curr nmm _ h; omega
  | succ fuel ih =>
    intro curr nmm hc _ hf
    unfold leftLoop
    by_cases hge : iGe last curr = true
    · rw [if_pos hge]; exact ⟨[], rfl, by simp, by simp⟩
    · rw [if_neg hge]
      simp only [iGe, Bool.or_eq_true, Bool.and_eq_true, decide_eq_true_eq, beq_iff_eq, ge_iff_le, gt_iff_lt] at hge
      have hlt : last.1 < curr.1 := by omega
      dsimp only
      generalize (nmm + (if seq1.getD curr.1.toNat 0 = seq2.getD curr.2.toNat 0 then 0 else 1)) = nmm'
      by_cases hbud : nmm' > allowed
      · rw [if_pos hbud]; exact ⟨[], rfl, by simp, by simp⟩
      · rw [if_neg hbud]
        obtain ⟨blk, hb, hz, hp⟩ := ih (curr.1 - 1, curr.2 - 1) nmm' (by simp only; omega) (by omega)
          (by simp only; omega)
        rw [hb]
        have e1 : ((curr.1.toNat : Nat) : Int) = curr.1 := Int.toNat_of_nonneg (by omega)
        have e2 : ((curr.2.toNat : Nat) : Int) = curr.2 := Int.toNat_of_nonneg (by omega)
        refine ⟨(curr.1.toNat, curr.2.toNat) :: blk, rfl, ?_, ?_⟩
        · intro z hz'
          rcases List.mem_cons.mp hz' with rfl | hz'
          · simp only [dg, e1, e2]; omega
          · obtain ⟨a, b, c⟩ := hz z hz'
            simp only at c
            exact ⟨a, b, by omega⟩
        · refine List.pairwise_cons.mpr ⟨?_, hp⟩
          intro z hz'
          obtain ⟨_, _, c⟩ := hz z hz'
          simp only at c
          have : ((curr.1.toNat : Nat) : Int) > (z.1 : Int) := by omega
          simp only; omega

theorem leftCore_spec (seq1 seq2 : List Nat) (allowed : Nat) (pre : List M) (map : IMap (Int × Int)) (e : M)
    (_hs : DiagSorted keyL (pre ++ [e])) (hI : MapInv keyL embL pre map) :
    ∃ blk, leftCore seq1 seq2 allowed map e = some (imInsert (dg e) (embL e) map, blk) ∧ BlockOk keyL pre e blk := by
  have hmap := hI (dg e)
  -- facts about `last`
  have hlast : ∃ last : Int × Int, (imGet (dg e) map).getD ((e.1 : Int) - ((min e.1 e.2 : Nat) : Int) - 1,
        (e.2 : Int) - ((min e.1 e.2 : Nat) : Int) - 1) = last ∧ last.1 - last.2 = dg e ∧ -1 ≤ last.1 ∧ -1 ≤ last.2 ∧
      (last.1 < (e.1 : Int)) ∧ ∀ a ∈ pre, dg a = dg e → keyL a ≤ last.1 := by
    cases hget : imGet (dg e) map with
    | none =>
      rw [hget] at hmap
      refine ⟨_, rfl, ?_, ?_, ?_, ?_, ?_⟩
      · simp only [Option.getD_none, dg]; omega
      · simp only [Option.getD_none]; omega
      · simp only [Option.getD_none]; omega
      · simp only [Option.getD_none]; omega
      · intro a ha hda; exact absurd hda (hmap a ha)
    | some v =>
      rw [hget] at hmap
      obtain ⟨a, ha, hv, hda, hmax⟩ := hmap
      subst hv
      have hs2 := List.pairwise_append.mp _hs
      have hlt := hs2.2.2 a ha e (by simp) hda
      refine ⟨_, rfl, ?_, ?_, ?_, ?_, ?_⟩
      · simp only [Option.getD_some, embL, dg] at hda ⊢; omega
      · simp only [Option.getD_some, embL]; omega
      · simp only [Option.getD_some, embL]; omega
      · simp only [Option.getD_some, embL, keyL] at hlt ⊢; exact hlt
      · intro a' ha' hda'
        simp only [Option.getD_some, embL]
        exact hmax a' ha' hda'
  obtain ⟨last, hl, hd, h1, h2, hlx, hmax⟩ := hlast
  obtain ⟨blk, hb, hz, hp⟩ := leftLoop_spec seq1 seq2 allowed last (dg e) hd h1 h2 (e.1 + 2) ((e.1 : Int) - 1, (e.2 : Int) - 1) 0
    (by simp only [dg]; omega) (by omega) (by simp only; omega)
  refine ⟨blk, ?_, ?_, ?_⟩
  · unfold leftCore
    simp only
    rw [show ((e.1 : Int) - (e.2 : Int)) = dg e from rfl, hl, hb]
    rfl
  · intro z hz'
    obtain ⟨a, b, c⟩ := hz z hz'
    simp only at c
    refine ⟨a, by simp only [keyL]; omega, ?_⟩
    intro a' ha' hda'
    have := hmax a' ha' hda'
    simp only [keyL] at this ⊢; omega
  · apply hp.imp
    intro a b hab e'
    subst e'; omega

/-! ### right walk -/

theorem rightLoop_spec (seq1 seq2 : List Nat) (k allowed : Nat) (next : M) (D : Int) (hD : dg next = D) :
    ∀ (fuel : Nat) (curr : M) (nmm : Nat), dg curr = D → 1 ≤ fuel → (next.1 : Int) - (curr.1 : Int) + 1 ≤ (fuel : Int) →
      ∃ blk, rightLoop seq1 seq2 k allowed next fuel curr nmm = some blk ∧
        (∀ z ∈ blk, dg z = D ∧ z.1 < next.1 ∧ curr.1 ≤ z.1) ∧ blk.Pairwise (fun a b => a.1 < b.1) := by
  intro fuel
  induction fuel with
  | zero => intro curr nmm _ h; omega
  | succ fuel ih =>
    intro curr nmm hc _ hf
    unfold rightLoop
    by_cases hge : mGe curr next = true
    · rw [if_pos hge]; exact ⟨[], rfl, by simp, by simp⟩
    · rw [if_neg hge]
      simp only [mGe, Bool.or_eq_true, Bool.and_eq_true, decide_eq_true_eq, beq_iff_eq, ge_iff_le, gt_iff_lt] at hge
      have hlt : curr.1 < next.1 := by simp only [dg] at hD hc; omega
      dsimp only
      generalize (nmm + (if seq1.getD (curr.1 + k - 1) 0 = seq2.getD (curr.2 + k - 1) 0 then 0 else 1)) = nmm'
      by_cases hbud : nmm' > allowed
      · rw [if_pos hbud]; exact ⟨[], rfl, by simp, by simp⟩
      · rw [if_neg hbud]
        obtain ⟨blk, hb, hz, hp⟩ := ih (curr.1 + 1, curr.2 + 1) nmm'
          (by simp only [dg] at hc ⊢; omega) (by omega) (by simp only; omega)
        rw [hb]
        refine ⟨curr :: blk, rfl, ?_, ?_⟩
        · intro z hz'
          rcases List.mem_cons.mp hz' with rfl | hz'
          · exact ⟨hc, hlt, Nat.le_refl _⟩
          · obtain ⟨a, b, c⟩ := hz z hz'
            simp only at c
            exact ⟨a, b, by omega⟩
        · refine List.pairwise_cons.mpr ⟨?_, hp⟩
          intro z hz'
          obtain ⟨_, _, c⟩ := hz z hz'
          simp only at c
          omega

theorem rightCore_spec (seq1 seq2 : List Nat) (k allowed : Nat) (pre : List M) (map : IMap M) (e : M)
    (hs : DiagSorted keyR (pre ++ [e])) (hI : MapInv keyR id pre map) :
    ∃ blk, rightCore seq1 seq2 k allowed map e = some (imInsert (dg e) (id e) map, blk) ∧ BlockOk keyR pre e blk := by
  have hmap := hI (dg e)
  have hnext : ∃ next : M, (imGet (dg e) map).getD (e.1 + (min (seq1.length - e.1) (seq2.length - e.2) - (k - 1)),
        e.2 + (min (seq1.length - e.1) (seq2.length - e.2) - (k - 1))) = next ∧ dg next = dg e ∧ e.1 ≤ next.1 ∧
      ∀ a ∈ pre, dg a = dg e → next.1 ≤ a.1 := by
    cases hget : imGet (dg e) map with
    | none =>
      rw [hget] at hmap
      refine ⟨_, rfl, ?_, ?_, ?_⟩
      · simp only [Option.getD_none, dg]; omega
      · simp only [Option.getD_none]; omega
      · intro a ha hda; exact absurd hda (hmap a ha)
    | some v =>
      rw [hget] at hmap
      obtain ⟨a, ha, hv, hda, hmax⟩ := hmap
      simp only [id] at hv
      subst hv
      have hs2 := List.pairwise_append.mp hs
      have hlt := hs2.2.2 v ha e (by simp) hda
      refine ⟨_, rfl, ?_, ?_, ?_⟩
      · simp only [Option.getD_some]; exact hda
      · simp only [Option.getD_some, keyR] at hlt ⊢; omega
      · intro a' ha' hda'
        have := hmax a' ha' hda'
        simp only [Option.getD_some, keyR] at this ⊢; omega
  obtain ⟨next, hn, hd, hge, hmin⟩ := hnext
  obtain ⟨blk, hb, hz, hp⟩ := rightLoop_spec seq1 seq2 k allowed next (dg e) hd (next.1 + 2 - e.1) (e.1 + 1, e.2 + 1) 0
    (by simp only [dg]; omega) (by omega) (by simp only; omega)
  refine ⟨blk, ?_, ?_, ?_⟩
  · unfold rightCore
    simp only
    rw [show ((e.1 : Int) - (e.2 : Int)) = dg e from rfl, hn, hb]
    rfl
  · intro z hz'
    obtain ⟨a, b, c⟩ := hz z hz'
    simp only at c
    refine ⟨a, by simp only [keyR]; omega, ?_⟩
    intro a' ha' hda'
    have := hmin a' ha' hda'
    simp only [keyR]; omega
  · apply hp.imp
    intro a b hab e'
    subst e'; omega

/-! ### the routine -/

theorem diagSortedL_of_lex {l : List M} (h : l.Pairwise lexLt) : DiagSorted keyL l := by
  apply h.imp
  intro a b hab hd
  simp only [lexLt] at hab
  simp only [dg] at hd
  simp only [keyL]; omega

theorem diagSortedR_of_lex {l : List M} (h : l.Pairwise lexLt) : DiagSorted keyR l.reverse := by
  unfold DiagSorted
  rw [List.pairwise_reverse]
  apply h.imp
  intro a b hab hd
  simp only [lexLt] at hab
  simp only [dg] at hd
  simp only [keyR]; omega

theorem expand_model_ok (seq1 seq2 : List Nat) (k : Nat) (ms : List M) (allowed : Nat) (hs : ms.Pairwise lexLt) :
    ∃ r, expandKmerMatches seq1 seq2 k ms allowed = .ok r ∧ r.Pairwise lexLt ∧ ∀ m ∈ ms, m ∈ r := by
  have hsorted : sortedStrict ms = true := (RbV.Lemmas.Lcskpp.sortedStrict_iff ms).mpr hs
  obtain ⟨map1, extra1, hf1, hn1⟩ := fold_nodup keyL embL (leftCore seq1 seq2 allowed)
    (leftCore_spec seq1 seq2 allowed) ms ms (diagSortedL_of_lex hs)
  have hE := RbV.Lemmas.KmerHash.mergeSort_strict (ms ++ extra1) hn1
  obtain ⟨map2, extra2, hf2, hn2⟩ := fold_nodup keyR id (rightCore seq1 seq2 k allowed)
    (rightCore_spec seq1 seq2 k allowed) ((ms ++ extra1).mergeSort Model.KmerHash.pairLe).reverse
    ((ms ++ extra1).mergeSort Model.KmerHash.pairLe) (diagSortedR_of_lex hE)
  have hn2' : (((ms ++ extra1).mergeSort Model.KmerHash.pairLe) ++ extra2).Nodup :=
    ((List.reverse_perm _).append_right extra2).nodup_iff.mp hn2
  refine ⟨_, ?_, RbV.Lemmas.KmerHash.mergeSort_strict _ hn2', ?_⟩
  · unfold expandKmerMatches
    simp only [hsorted, Bool.not_true, Bool.false_eq_true, if_false, hf1, hf2]
  · intro m hm
    rw [(List.mergeSort_perm _ _).mem_iff]
    apply List.mem_append_left
    rw [(List.mergeSort_perm _ _).mem_iff]
    exact List.mem_append_left _ hm

end RbV.Lemmas.Expand
