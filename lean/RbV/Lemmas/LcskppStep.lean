import RbV.Lemmas.LcskppSweep
/-! C19 — `lcskpp` mirror model: what one pass through the loop body does (start event: Fenwick query = best dominated
finished match; end event: diagonal lookup, publication), and that it keeps the sweep invariant.  Core Lean only. -/
namespace RbV.Lemmas.Lcskpp
open RbV.KChain RbV.Model.Lcskpp RbV.QGram RbV.Model.Fenwick RbV.Lemmas.Fenwick

/-! ### the loop body, computed -/

theorem stepEv_start (ms : List M) (k : Nat) (s : St) (p : Nat) (hp : p < ms.length) (hl : s.dp.length = 2 * ms.length) :
    stepEv ms k s (startEv ms p) =
      if 0 < (Model.Fenwick.get maxNN (0, 0) s.tree (mAt ms p).2).1 then
        { tree := s.tree
          dp := s.dp.set p (k + (Model.Fenwick.get maxNN (0, 0) s.tree (mAt ms p).2).1,
                            ((Model.Fenwick.get maxNN (0, 0) s.tree (mAt ms p).2).2 : Int))
          best := maxNI s.best (k + (Model.Fenwick.get maxNN (0, 0) s.tree (mAt ms p).2).1, (p : Int)) }
      else { tree := s.tree, dp := s.dp.set p (k, -1), best := s.best } := by
  have hmod : (p + ms.length) % ms.length = p := by rw [Nat.add_mod_right, Nat.mod_eq_of_lt hp]
  have hge : p + ms.length ≥ ms.length := by omega
  have hlt : p < s.dp.length := by omega
  unfold stepEv
  simp only [startEv, hmod, hge, if_true, List.set_set, getD_set _ _ _ _ _ hlt, gt_iff_lt]

/-- the diagonal-continuation lookup of an end event -/
def contLookup (ms : List M) (k p : Nat) : Option Nat :=
  if (mAt ms p).1 + k > k && (mAt ms p).2 + k > k then
    findFrom ((mAt ms p).1 + k - k - 1, (mAt ms p).2 + k - k - 1) 0 ms
  else none

theorem stepEv_end_some (ms : List M) (k : Nat) (s : St) (p c : Nat) (hp : p < ms.length)
    (hl : s.dp.length = 2 * ms.length) (h : contLookup ms k p = some c) :
    stepEv ms k s (endEv ms k p) =
      { tree := Model.Fenwick.set maxNN (0, 0) s.tree ((mAt ms p).2 + k)
                  ((maxNI (s.dp.getD p (0, 0)) ((s.dp.getD c (0, 0)).1 + 1, (c : Int))).1, p)
        dp := s.dp.set p (maxNI (s.dp.getD p (0, 0)) ((s.dp.getD c (0, 0)).1 + 1, (c : Int)))
        best := maxNI s.best ((maxNI (s.dp.getD p (0, 0)) ((s.dp.getD c (0, 0)).1 + 1, (c : Int))).1, (p : Int)) } := by
  have hmod : p % ms.length = p := Nat.mod_eq_of_lt hp
  have hge : ¬ (p ≥ ms.length) := by omega
  have hlt : p < s.dp.length := by omega
  unfold contLookup at h
  unfold stepEv
  dsimp only [endEv]
  simp only [hmod, hge, if_false]
  split at h
  · next hc =>
    split
    · simp only [h, getD_set _ _ _ _ _ hlt, if_true]
    · next hg => exact absurd hc hg
  · cases h

theorem stepEv_end_none (ms : List M) (k : Nat) (s : St) (p : Nat) (hp : p < ms.length)
    (h : contLookup ms k p = none) :
    stepEv ms k s (endEv ms k p) =
      { s with tree := Model.Fenwick.set maxNN (0, 0) s.tree ((mAt ms p).2 + k) ((s.dp.getD p (0, 0)).1, p) } := by
  have hmod : p % ms.length = p := Nat.mod_eq_of_lt hp
  have hge : ¬ (p ≥ ms.length) := by omega
  unfold contLookup at h
  unfold stepEv
  dsimp only [endEv]
  simp only [hmod, hge, if_false]
  split at h
  · next hc =>
    split
    · simp only [h]
    · rfl
  · next hc =>
    split
    · next hg => exact absurd hg hc
    · rfl

/-! ### start event: the query -/

/-- **the Fenwick query of a start event returns the best finished match that ends at or before the start in both
coordinates** (processing order + prefix-max semantics): its score is `A` — the maximum of the final scores over the
dominated matches — and, when positive, it names such a match, already finished -/
theorem query_spec {ms : List M} {k : Nat} {done : List Ev} {s : St} {p : Nat} (hk : 0 < k) (hs : ms.Pairwise lexLt)
    (hI : Inv ms k done s) (hp : p < ms.length)
    (hbefore : ∀ d ∈ done, evLe d (startEv ms p) = true)
    (hcomplete : ∀ e' ∈ sortedEvents ms k, evLe (startEv ms p) e' = false → e' ∈ done) :
    (Model.Fenwick.get maxNN (0, 0) s.tree (mAt ms p).2).1 = A ms k p ∧
    (0 < (Model.Fenwick.get maxNN (0, 0) s.tree (mAt ms p).2).1 →
      ∃ q, q < ms.length ∧ (Model.Fenwick.get maxNN (0, 0) s.tree (mAt ms p).2).2 = q ∧ endEv ms k q ∈ done ∧
        nonov k (mAt ms q) (mAt ms p) = true ∧ (Model.Fenwick.get maxNN (0, 0) s.tree (mAt ms p).2).1 = F ms k q) := by
  obtain ⟨ups, ht, hm⟩ := hI.tree
  have hy : (mAt ms p).2 < nFrom k 0 ms := by
    have := (nFrom_ge k ms 0 (mAt ms p) (mAt_mem hp)).2
    omega
  rw [ht, get_run_max _ ups _ hy]
  obtain ⟨hub, hat⟩ := agg_max_spec (fun q => decide (q ≤ (mAt ms p).2)) ups
  generalize agg maxNN (0, 0) (fun q => decide (q ≤ (mAt ms p).2)) ups = b at hub hat
  have hdom : ∀ q, q < ms.length → endEv ms k q ∈ done → (mAt ms q).2 + k ≤ (mAt ms p).2 →
      nonov k (mAt ms q) (mAt ms p) = true := by
    intro q _ hin hle
    have := hbefore _ hin
    rw [evLe_iff] at this
    simp only [startEv, endEv] at this
    simp only [nonov, Bool.and_eq_true, decide_eq_true_eq]
    omega
  have hproc : ∀ q, q < ms.length → nonov k (mAt ms q) (mAt ms p) = true → endEv ms k q ∈ done := by
    intro q hq hn
    apply hcomplete _ ((mem_sortedEvents ms k _).mpr ⟨q, hq, Or.inr rfl⟩)
    rw [Bool.eq_false_iff]; intro h
    rw [evLe_iff] at h
    simp only [startEv, endEv] at h
    simp only [nonov, Bool.and_eq_true, decide_eq_true_eq] at hn
    omega
  constructor
  · symm
    apply A_eq hs
    · intro r hr hn
      have hu : ((mAt ms r).2 + k, (F ms k r, r)) ∈ ups := (hm _).mpr ⟨r, hr, hproc r hr hn, rfl⟩
      have := hub _ hu (by
        simp only [nonov, Bool.and_eq_true, decide_eq_true_eq] at hn
        simp only [decide_eq_true_eq]; omega)
      unfold leNN at this; simp only at this; omega
    · rcases hat with h | ⟨u, hu, hP, hub'⟩
      · left; rw [h]
      · right
        obtain ⟨q, hq, hin, rfl⟩ := (hm u).mp hu
        simp only [decide_eq_true_eq] at hP
        exact ⟨q, hq, hdom q hq hin hP, by rw [← hub']⟩
  · intro hpos
    rcases hat with h | ⟨u, hu, hP, hub'⟩
    · rw [h] at hpos; simp at hpos
    · obtain ⟨q, hq, hin, rfl⟩ := (hm u).mp hu
      simp only [decide_eq_true_eq] at hP
      exact ⟨q, hq, by rw [← hub'], hin, hdom q hq hin hP, by rw [← hub']⟩

theorem cellAt_set (s : St) (p q : Nat) (c : Nat × Int) (t : List (Nat × Nat)) (b : Nat × Int) (hlt : p < s.dp.length) :
    cellAt { tree := t, dp := s.dp.set p c, best := b } q = if q = p then c else cellAt s q := by
  unfold cellAt; exact getD_set _ _ _ _ _ hlt

/-- a start event keeps the invariant -/
theorem inv_step_start {ms : List M} {k : Nat} {done : List Ev} {s : St} {p : Nat} (hk : 0 < k) (hs : ms.Pairwise lexLt)
    (hI : Inv ms k done s) (hp : p < ms.length) (hnot : startEv ms p ∉ done)
    (hbefore : ∀ d ∈ done, evLe d (startEv ms p) = true)
    (hcomplete : ∀ e' ∈ sortedEvents ms k, evLe (startEv ms p) e' = false → e' ∈ done) :
    Inv ms k (done ++ [startEv ms p]) (stepEv ms k s (startEv ms p)) := by
  have hend : endEv ms k p ∉ done := by
    intro hin
    have := hbefore _ hin
    rw [evLe_iff] at this
    simp only [startEv, endEv] at this; omega
  have hlt : p < s.dp.length := by rw [hI.len_dp]; omega
  obtain ⟨hq1, hq2⟩ := query_spec hk hs hI hp hbefore hcomplete
  rw [stepEv_start ms k s p hp hI.len_dp]
  generalize Model.Fenwick.get maxNN (0, 0) s.tree (mAt ms p).2 = b at hq1 hq2
  by_cases hpos : 0 < b.1
  · rw [if_pos hpos]
    obtain ⟨q, hq, hb2, hin, hn, hbF⟩ := hq2 hpos
    apply inv_start_close hI hp hnot hend
    · simp [List.length_set, hI.len_dp]
    · intro q' hne; rw [cellAt_set _ _ _ _ _ _ hlt, if_neg hne]
    · rw [cellAt_set _ _ _ _ _ _ hlt, if_pos rfl]; simp only; rw [hq1]
    · rw [cellAt_set _ _ _ _ _ _ hlt, if_pos rfl]
      right
      refine ⟨q, hq, by simp only; rw [hb2], hin, (link_iff k _ _).mp (by simp only [link, hn, Bool.true_or]), ?_⟩
      simp only; rw [step_of_nonov hn, hbF]
    · rfl
    · right; rw [cellAt_set _ _ _ _ _ _ hlt, if_pos rfl]
  · rw [if_neg hpos]
    apply inv_start_close hI hp hnot hend
    · simp [List.length_set, hI.len_dp]
    · intro q' hne; rw [cellAt_set _ _ _ _ _ _ hlt, if_neg hne]
    · rw [cellAt_set _ _ _ _ _ _ hlt, if_pos rfl]; simp only; omega
    · rw [cellAt_set _ _ _ _ _ _ hlt, if_pos rfl]; left; exact ⟨rfl, rfl⟩
    · rfl
    · left; rw [cellAt_set _ _ _ _ _ _ hlt, if_pos rfl]; exact ⟨rfl, rfl⟩

/-! ### end event: the diagonal lookup -/

theorem contLookup_some {ms : List M} {k p c : Nat} (h : contLookup ms k p = some c) :
    c < ms.length ∧ cont (mAt ms c) (mAt ms p) = true := by
  unfold contLookup at h
  split at h
  · next hc =>
    simp only [Bool.and_eq_true, decide_eq_true_eq] at hc
    obtain ⟨j, hj, hcj, hm⟩ := findFrom_some h
    have : c = j := by omega
    subst this
    refine ⟨hj, ?_⟩
    simp only [cont, hm, Bool.and_eq_true, beq_iff_eq]; omega
  · cases h

theorem contLookup_none {ms : List M} {k p : Nat} (h : contLookup ms k p = none) (r : Nat) (hr : r < ms.length) :
    cont (mAt ms r) (mAt ms p) = false := by
  rw [Bool.eq_false_iff]; intro hc
  simp only [cont, Bool.and_eq_true, beq_iff_eq] at hc
  unfold contLookup at h
  split at h
  · have := findFrom_none h
    apply this
    have e : ((mAt ms p).1 + k - k - 1, (mAt ms p).2 + k - k - 1) = mAt ms r := by
      apply Prod.ext <;> simp only <;> omega
    rw [e]; exact mAt_mem hr
  · next hcond =>
    apply hcond
    simp only [Bool.and_eq_true, decide_eq_true_eq]; omega

/-- an end event keeps the invariant -/
theorem inv_step_end {ms : List M} {k : Nat} {done : List Ev} {s : St} {p : Nat} (hk : 0 < k) (hs : ms.Pairwise lexLt)
    (hI : Inv ms k done s) (hp : p < ms.length) (hnot : endEv ms k p ∉ done)
    (hcomplete : ∀ e' ∈ sortedEvents ms k, evLe (endEv ms k p) e' = false → e' ∈ done) :
    Inv ms k (done ++ [endEv ms k p]) (stepEv ms k s (endEv ms k p)) := by
  have hst : startEv ms p ∈ done := by
    apply hcomplete _ ((mem_sortedEvents ms k _).mpr ⟨p, hp, Or.inl rfl⟩)
    rw [Bool.eq_false_iff]; intro h
    rw [evLe_iff] at h
    simp only [startEv, endEv] at h; omega
  have hlt : p < s.dp.length := by rw [hI.len_dp]; omega
  have hcell : (cellAt s p).1 = k + A ms k p := hI.started p hp hst hnot
  cases hlook : contLookup ms k p with
  | none =>
    rw [stepEv_end_none ms k s p hp hlook]
    have hBc : Bc ms k p = 0 := Bc_eq hs (by
      intro r hr hc; rw [contLookup_none hlook r hr] at hc; cases hc) (Or.inl rfl)
    have hF : F ms k p = (cellAt s p).1 := by rw [F_rec hk hs hp, hBc, hcell]; omega
    apply inv_end_close hI hp hst hnot
    · exact hI.len_dp
    · intro q _; rfl
    · exact hF.symm
    · exact hI.ptr p hp hst
    · show Model.Fenwick.set maxNN (0, 0) s.tree ((mAt ms p).2 + k) ((s.dp.getD p (0, 0)).1, p) = _
      rw [hF]; rfl
    · left; exact ⟨rfl, rfl⟩
    · exact Nat.le_refl _
  | some c =>
    rw [stepEv_end_some ms k s p c hp hI.len_dp hlook]
    obtain ⟨hc, hcont⟩ := contLookup_some hlook
    have hcend : endEv ms k c ∈ done := by
      apply hcomplete _ ((mem_sortedEvents ms k _).mpr ⟨c, hc, Or.inr rfl⟩)
      rw [Bool.eq_false_iff]; intro h
      rw [evLe_iff] at h
      simp only [endEv] at h
      simp only [cont, Bool.and_eq_true, beq_iff_eq] at hcont
      omega
    have hFc : (s.dp.getD c (0, 0)).1 = F ms k c := hI.ended c hc hcend
    have hBc : Bc ms k p = F ms k c + 1 := Bc_eq hs (by
      intro r hr hrc
      have : mAt ms r = mAt ms c := by
        simp only [cont, Bool.and_eq_true, beq_iff_eq] at hrc hcont
        apply Prod.ext <;> omega
      rw [mAt_inj hs hr hc this]; exact Nat.le_refl _) (Or.inr ⟨c, hc, hcont, rfl⟩)
    rw [hFc]
    have hold : s.dp.getD p (0, 0) = cellAt s p := rfl
    rw [hold]
    have hnew1 : (maxNI (cellAt s p) (F ms k c + 1, (c : Int))).1 = F ms k p := by
      rw [maxNI_fst, F_rec hk hs hp, hBc, hcell]
    apply inv_end_close hI hp hst hnot
    · simp [List.length_set, hI.len_dp]
    · intro q' hne; rw [cellAt_set _ _ _ _ _ _ hlt, if_neg hne]
    · rw [cellAt_set _ _ _ _ _ _ hlt, if_pos rfl]; exact hnew1
    · rw [cellAt_set _ _ _ _ _ _ hlt, if_pos rfl]
      rcases maxNI_cases (cellAt s p) (F ms k c + 1, (c : Int)) with h | h
      · rw [h]; exact hI.ptr p hp hst
      · rw [h]; right
        refine ⟨c, hc, rfl, hcend, ?_, ?_⟩
        · left
          simp only [cont, Bool.and_eq_true, beq_iff_eq] at hcont
          omega
        · simp only; rw [step_of_cont hk hcont]; omega
    · show Model.Fenwick.set maxNN (0, 0) s.tree ((mAt ms p).2 + k) ((maxNI (cellAt s p) (F ms k c + 1, (c : Int))).1, p) = _
      rw [hnew1]
    · right; rw [cellAt_set _ _ _ _ _ _ hlt, if_pos rfl]
    · rw [cellAt_set _ _ _ _ _ _ hlt, if_pos rfl, maxNI_fst]; omega

end RbV.Lemmas.Lcskpp
