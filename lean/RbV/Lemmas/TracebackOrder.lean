import RbV.Lemmas.TracebackState
import RbV.Lemmas.TracebackSound
import RbV.Lemmas.TracebackRing
/-!
The traceback rule with the tests in the order Subst > **Del > Ins** > Match (seeded C10-H1 / C10-H4), and a loop model
parametrised by the order (`df = true`: Del first): C10 does not determine which of several optimal paths is reported, so the
soundness theorems are needed for both orders.  Copies of `walkF_sound`, `iter_spec`, `loop_eq_walkF`, `tracebackRd_eq` for the
other order, on top of the order-independent lemmas `test_*`, `move_*` of `Lemmas/TracebackState.lean`.  Core Lean only.
-/
namespace RbV.Model.MyersTraceback
open RbV.EditDist RbV.Model.MyersSimple

/-! ### matrix level -/

def walkD (D : Nat → Nat → Nat) : Nat → Nat → Nat → Nat × List Op
  | 0, _, j => (j, [])
  | _, 0, j => (j, [])
  | fuel + 1, i + 1, j =>
    if j ≥ 1 ∧ D i (j - 1) + 1 = D (i + 1) j then
      ((walkD D fuel i (j - 1)).1, Op.sub :: (walkD D fuel i (j - 1)).2)
    else if j ≥ 1 ∧ D (i + 1) (j - 1) + 1 = D i (j - 1) then
      ((walkD D fuel (i + 1) (j - 1)).1, Op.del :: (walkD D fuel (i + 1) (j - 1)).2)
    else if D i j + 1 = D (i + 1) j then
      ((walkD D fuel i j).1, Op.ins :: (walkD D fuel i j).2)
    else
      ((walkD D fuel i (j - 1)).1, Op.mat :: (walkD D fuel i (j - 1)).2)

def ruleOpD (D : Nat → Nat → Nat) (i j : Nat) : Op :=
  if j ≥ 1 ∧ D i (j - 1) + 1 = D (i + 1) j then Op.sub
  else if j ≥ 1 ∧ D (i + 1) (j - 1) + 1 = D i (j - 1) then Op.del
  else if D i j + 1 = D (i + 1) j then Op.ins
  else Op.mat

def ruleNextD (D : Nat → Nat → Nat) (i j : Nat) : Nat × Nat :=
  match ruleOpD D i j with
  | Op.sub => (i, j - 1)
  | Op.ins => (i, j)
  | Op.del => (i + 1, j - 1)
  | Op.mat => (i, j - 1)

theorem walkD_step (D : Nat → Nat → Nat) (fuel i j : Nat) :
    walkD D (fuel + 1) (i + 1) j =
      ((walkD D fuel (ruleNextD D i j).1 (ruleNextD D i j).2).1,
        ruleOpD D i j :: (walkD D fuel (ruleNextD D i j).1 (ruleNextD D i j).2).2) := by
  unfold ruleNextD ruleOpD
  simp only [walkD]
  split
  · rfl
  · split
    · rfl
    · split <;> rfl

theorem walkD_start_le (D : Nat → Nat → Nat) : ∀ fuel i j, (walkD D fuel i j).1 ≤ j := by
  intro fuel
  induction fuel with
  | zero => intro i j; simp [walkD]
  | succ fuel ih =>
    intro i j
    cases i with
    | zero => simp [walkD]
    | succ i =>
      rw [walkD_step]
      have := ih (ruleNextD D i j).1 (ruleNextD D i j).2
      have h2 : (ruleNextD D i j).2 ≤ j := by
        unfold ruleNextD
        split <;> simp
      exact Nat.le_trans this h2

theorem walkD_sound (eqv : Nat → Nat → Bool) (p t : List Nat) (D : Nat → Nat → Nat) (hD : IsSellers eqv p t D) :
    ∀ (fuel i j : Nat), i ≤ p.length → j ≤ t.length → i + j ≤ fuel →
      (walkD D fuel i j).1 ≤ j ∧
      acost eqv (p.take i) ((t.take j).drop (walkD D fuel i j).1) (walkD D fuel i j).2.reverse = some (D i j) := by
  intro fuel
  induction fuel with
  | zero =>
    intro i j hi hj hf
    have : i = 0 := by omega
    have : j = 0 := by omega
    subst_vars
    simp [walkD, acost, hD.row0]
  | succ fuel ih =>
    intro i j hi hj hf
    cases i with
    | zero => simp [walkD, acost, hD.row0]
    | succ i =>
      have hip : i < p.length := by omega
      have htake : p.take (i + 1) = p.take i ++ [p[i]] := List.take_succ_eq_append_getElem hip
      simp only [walkD]
      by_cases h1 : j ≥ 1 ∧ D i (j - 1) + 1 = D (i + 1) j
      · -- Subst
        rw [if_pos h1]
        obtain ⟨hj1, hval⟩ := h1
        obtain ⟨j', rfl⟩ : ∃ j', j = j' + 1 := ⟨j - 1, by omega⟩
        simp only [Nat.add_sub_cancel] at hval ⊢
        have hjt : j' < t.length := by omega
        obtain ⟨r1, r2⟩ := ih i j' (by omega) (by omega) (by omega)
        have hrec := hD.recur i j' hip hjt
        have hne : eqv p[i] t[j'] = false := by
          cases he : eqv p[i] t[j']
          · rfl
          · simp only [unitW, he, if_true] at hrec; omega
        refine ⟨by omega, ?_⟩
        rw [htake, take_drop_succ t j' _ hjt r1, List.reverse_cons]
        have hlast : acost eqv [p[i]] [t[j']] [Op.sub] = some 1 := by simp [acost, hne]
        rw [acost_append eqv _ _ _ _ _ _ _ _ r2 hlast, ← hval]
        congr 1; omega
      · rw [if_neg h1]
        by_cases h3 : j ≥ 1 ∧ D (i + 1) (j - 1) + 1 = D i (j - 1)
        · -- Del (needs only that the Subst test failed)
          rw [if_pos h3]
          obtain ⟨hj1, hval⟩ := h3
          obtain ⟨j', rfl⟩ : ∃ j', j = j' + 1 := ⟨j - 1, by omega⟩
          have hjt : j' < t.length := by omega
          have hrec := hD.recur i j' hip hjt
          have hdiag := hD.diag i j' hip hjt
          simp only [Nat.add_sub_cancel] at h1 hval ⊢
          obtain ⟨r1, r2⟩ := ih (i + 1) j' (by omega) (by omega) (by omega)
          refine ⟨by omega, ?_⟩
          rw [take_drop_succ t j' _ hjt r1, List.reverse_cons]
          have hlast : acost eqv [] [t[j']] [Op.del] = some 1 := by simp [acost]
          have := acost_append eqv _ _ _ _ _ _ _ _ r2 hlast
          simp only [List.append_nil] at this
          rw [this]
          congr 1
          have h1' : D i j' + 1 ≠ D (i + 1) (j' + 1) := fun h => h1 ⟨by omega, h⟩
          have hu : unitW eqv p[i] t[j'] ≤ 1 := by unfold unitW; split <;> omega
          omega
        · rw [if_neg h3]
          by_cases h2 : D i j + 1 = D (i + 1) j
          · -- Ins
            rw [if_pos h2]
            obtain ⟨r1, r2⟩ := ih i j (by omega) hj (by omega)
            refine ⟨r1, ?_⟩
            rw [htake, List.reverse_cons]
            have hlast : acost eqv [p[i]] [] [Op.ins] = some 1 := by simp [acost]
            have := acost_append eqv _ _ _ _ _ _ _ _ r2 hlast
            simp only [List.append_nil] at this
            rw [this, ← h2]
            congr 1; omega
          · rw [if_neg h2]
            have hjpos : j ≥ 1 := by
              apply Nat.pos_of_ne_zero
              intro h0; subst h0
              have := hD.col0 (i + 1) (by omega)
              have := hD.col0 i (by omega)
              omega
            obtain ⟨j', rfl⟩ : ∃ j', j = j' + 1 := ⟨j - 1, by omega⟩
            have hjt : j' < t.length := by omega
            have hrec := hD.recur i j' hip hjt
            have hdiag := hD.diag i j' hip hjt
            have hvl := hD.vlow i j' hip (by omega)
            simp only [Nat.add_sub_cancel] at h1 h3 ⊢
            -- Match
            obtain ⟨r1, r2⟩ := ih i j' (by omega) (by omega) (by omega)
            have h1' : D i j' + 1 ≠ D (i + 1) (j' + 1) := fun h => h1 ⟨by omega, h⟩
            have h3' : D (i + 1) j' + 1 ≠ D i j' := fun h => h3 ⟨by omega, h⟩
            have heq : eqv p[i] t[j'] = true := by
              cases he : eqv p[i] t[j']
              · simp only [unitW, he, Bool.false_eq_true, if_false] at hrec; omega
              · rfl
            have hval : D (i + 1) (j' + 1) = D i j' := by
              simp only [unitW, heq, if_true] at hrec; omega
            refine ⟨by omega, ?_⟩
            rw [htake, take_drop_succ t j' _ hjt r1, List.reverse_cons]
            have hlast : acost eqv [p[i]] [t[j']] [Op.mat] = some 0 := by simp [acost, heq]
            rw [acost_append eqv _ _ _ _ _ _ _ _ r2 hlast, hval]
            simp

/-! ### the walk parametrised by the order (`df = true`: Del before Ins) -/

def walkG (df : Bool) (D : Nat → Nat → Nat) (fuel i j : Nat) : Nat × List Op :=
  if df then walkD D fuel i j else walkF D fuel i j
def ruleOpG (df : Bool) (D : Nat → Nat → Nat) (i j : Nat) : Op := if df then ruleOpD D i j else ruleOp D i j
def ruleNextG (df : Bool) (D : Nat → Nat → Nat) (i j : Nat) : Nat × Nat := if df then ruleNextD D i j else ruleNext D i j

theorem walkG_step (df : Bool) (D : Nat → Nat → Nat) (fuel i j : Nat) :
    walkG df D (fuel + 1) (i + 1) j =
      ((walkG df D fuel (ruleNextG df D i j).1 (ruleNextG df D i j).2).1,
        ruleOpG df D i j :: (walkG df D fuel (ruleNextG df D i j).1 (ruleNextG df D i j).2).2) := by
  cases df
  · simp only [walkG, ruleOpG, ruleNextG, Bool.false_eq_true, if_false]; exact walkF_step D fuel i j
  · simp only [walkG, ruleOpG, ruleNextG, if_true]; exact walkD_step D fuel i j

theorem walkG_start_le (df : Bool) (D : Nat → Nat → Nat) (fuel i j : Nat) : (walkG df D fuel i j).1 ≤ j := by
  cases df
  · simp only [walkG, Bool.false_eq_true, if_false]; exact walkF_start_le D fuel i j
  · simp only [walkG, if_true]; exact walkD_start_le D fuel i j

theorem walkG_sound (df : Bool) (eqv : Nat → Nat → Bool) (p t : List Nat) (D : Nat → Nat → Nat) (hD : IsSellers eqv p t D)
    (fuel i j : Nat) (hi : i ≤ p.length) (hj : j ≤ t.length) (hf : i + j ≤ fuel) :
    (walkG df D fuel i j).1 ≤ j ∧
    acost eqv (p.take i) ((t.take j).drop (walkG df D fuel i j).1) (walkG df D fuel i j).2.reverse = some (D i j) := by
  cases df
  · simp only [walkG, Bool.false_eq_true, if_false]; exact walkF_sound eqv p t D hD fuel i j hi hj hf
  · simp only [walkG, if_true]; exact walkD_sound eqv p t D hD fuel i j hi hj hf

theorem ruleNextG_snd (df : Bool) (D : Nat → Nat → Nat) (i j : Nat) :
    (ruleNextG df D i j).2 = if ruleOpG df D i j = Op.ins then j else j - 1 := by
  cases df
  · simp only [ruleNextG, ruleOpG, Bool.false_eq_true, if_false]; exact ruleNext_snd D i j
  · simp only [ruleNextG, ruleOpG, if_true]
    unfold ruleNextD
    cases ruleOpD D i j <;> simp

theorem ruleNextG_sum (df : Bool) (D : Nat → Nat → Nat) (i j : Nat) :
    (ruleNextG df D i j).1 + (ruleNextG df D i j).2 ≤ i + j := by
  have key : ∀ (o : Op) (hj : o = Op.del → j ≥ 1),
      (match o with | Op.sub => (i, j - 1) | Op.ins => (i, j) | Op.del => (i + 1, j - 1) | Op.mat => (i, j - 1)).1 +
      (match o with | Op.sub => (i, j - 1) | Op.ins => (i, j) | Op.del => (i + 1, j - 1) | Op.mat => (i, j - 1)).2 ≤ i + j := by
    intro o hj
    cases o <;> simp only
    · omega
    · omega
    · omega
    · have := hj rfl; omega
  cases df
  · simp only [ruleNextG, Bool.false_eq_true, if_false]
    unfold ruleNext
    apply key
    intro h
    unfold ruleOp at h
    split at h
    · cases h
    · split at h
      · cases h
      · split at h
        · rename_i c; exact c.1
        · cases h
  · simp only [ruleNextG, if_true]
    unfold ruleNextD
    apply key
    intro h
    unfold ruleOpD at h
    split at h
    · cases h
    · split at h
      · rename_i c; exact c.1
      · split at h <;> cases h

/-! ### handler level -/

/-- one pass through the loop body with the Del test before the Ins test -/
def Handler.iterD {w : Nat} (dmax : Nat) (rd : Nat → St w) (h : Handler w) : Op × Bool × Handler w :=
  if (h.left.dist + 1) % (dmax + 1) = h.state.dist then
    (Op.sub, true, ((h.moveUp false).moveUpLeft false).moveToLeft rd)
  else
    match h.moveLeftDownIfBetter with
    | (true, h') => (Op.del, true, h'.moveToLeft rd)
    | (false, h') =>
      if (h'.state.pv &&& h'.pos) != 0#w then (Op.ins, false, (h'.moveUp true).moveUpLeft true)
      else (Op.mat, true, ((h'.moveUp false).moveUpLeft false).moveToLeft rd)

def Handler.iterG {w : Nat} (df : Bool) (dmax : Nat) (rd : Nat → St w) (h : Handler w) : Op × Bool × Handler w :=
  if df then h.iterD dmax rd else h.iter dmax rd

def Handler.loopG {w : Nat} (df : Bool) (dmax : Nat) (rd : Nat → St w) : Nat → Handler w → Nat × List Op
  | 0, _ => (0, [])
  | fuel + 1, h =>
    if h.finished then (0, []) else
      let r := Handler.loopG df dmax rd fuel (h.iterG df dmax rd).2.2
      (r.1 + (if (h.iterG df dmax rd).2.1 then 1 else 0), (h.iterG df dmax rd).1 :: r.2)

def tracebackRdG {w : Nat} (df : Bool) (dmax m : Nat) (rd : Nat → St w) (fuel : Nat) : Nat × Nat × List Op :=
  let r := Handler.loopG df dmax rd fuel (Handler.start m rd)
  (r.1, (rd 0).dist, r.2)

section
variable {w : Nat} {m dmax q lo : Nat} {D : Nat → Nat → Nat} {S : Nat → St w} {rd : Nat → St w}

theorem ruleOpG_col0 (df : Bool) (st : Stored m dmax q lo D S rd) (i' : Nat) (hi : i' < m) : ruleOpG df D i' 0 = Op.ins := by
  cases df
  · simp only [ruleOpG, Bool.false_eq_true, if_false]; exact ruleOp_col0 st i' hi
  · simp only [ruleOpG, if_true]
    have a := st.col0 i' (by omega)
    have b := st.col0 (i' + 1) (by omega)
    unfold ruleOpD
    rw [if_neg (by omega), if_neg (by omega), if_pos (by omega)]

theorem iterD_spec (st : Stored m dmax q lo D S rd) {i' j : Nat} {h : Handler w} (inv : HInv m dmax q D S i' j h)
    (hlo : ruleOpD D i' j ≠ Op.ins → lo + 1 ≤ j) :
    (h.iterD dmax rd).1 = ruleOpD D i' j ∧
    (h.iterD dmax rd).2.1 = (ruleOpD D i' j != Op.ins) ∧
    HInvAny m dmax q D S (ruleNextD D i' j).1 (ruleNextD D i' j).2 (h.iterD dmax rd).2.2 := by
  have t1 := test_subst st inv
  have t2 := test_ins st inv
  have t3 := test_del st inv
  unfold Handler.iterD
  by_cases c1 : j ≥ 1 ∧ D i' (j - 1) + 1 = D (i' + 1) j
  · have hop : ruleOpD D i' j = Op.sub := by unfold ruleOpD; rw [if_pos c1]
    have hnx : ruleNextD D i' j = (i', j - 1) := by unfold ruleNextD; rw [hop]
    rw [if_pos (t1.mpr c1), hop, hnx]
    exact ⟨rfl, rfl, move_diag st inv (hlo (by rw [hop]; decide))⟩
  · rw [if_neg (fun hc => c1 (t1.mp hc))]
    by_cases c3 : j ≥ 1 ∧ D (i' + 1) (j - 1) + 1 = D i' (j - 1)
    · have hop : ruleOpD D i' j = Op.del := by unfold ruleOpD; rw [if_neg c1, if_pos c3]
      have hnx : ruleNextD D i' j = (i' + 1, j - 1) := by unfold ruleNextD; rw [hop]
      have t3' : ((h.left.mv &&& h.pos) != 0#w) = true := by rw [t3]; simp [c3]
      unfold Handler.moveLeftDownIfBetter
      rw [if_pos t3', hop, hnx]
      exact ⟨rfl, rfl, move_del st inv (hlo (by rw [hop]; decide)) c3.2⟩
    · have t3' : ¬ (((h.left.mv &&& h.pos) != 0#w) = true) := by rw [t3]; simp [c3]
      unfold Handler.moveLeftDownIfBetter
      rw [if_neg t3']
      simp only
      by_cases c2 : D i' j + 1 = D (i' + 1) j
      · have hop : ruleOpD D i' j = Op.ins := by unfold ruleOpD; rw [if_neg c1, if_neg c3, if_pos c2]
        have hnx : ruleNextD D i' j = (i', j) := by unfold ruleNextD; rw [hop]
        have t2' : ((h.state.pv &&& h.pos) != 0#w) = true := by rw [t2]; simp [c2]
        rw [if_pos t2', hop, hnx]
        exact ⟨rfl, rfl, move_ins st inv⟩
      · have hop : ruleOpD D i' j = Op.mat := by unfold ruleOpD; rw [if_neg c1, if_neg c3, if_neg c2]
        have hnx : ruleNextD D i' j = (i', j - 1) := by unfold ruleNextD; rw [hop]
        have t2' : ¬ (((h.state.pv &&& h.pos) != 0#w) = true) := by rw [t2]; simp [c2]
        rw [if_neg t2', hop, hnx]
        exact ⟨rfl, rfl, move_diag st inv (hlo (by rw [hop]; decide))⟩

theorem iterG_spec (df : Bool) (st : Stored m dmax q lo D S rd) {i' j : Nat} {h : Handler w}
    (inv : HInv m dmax q D S i' j h) (hlo : ruleOpG df D i' j ≠ Op.ins → lo + 1 ≤ j) :
    (h.iterG df dmax rd).1 = ruleOpG df D i' j ∧
    (h.iterG df dmax rd).2.1 = (ruleOpG df D i' j != Op.ins) ∧
    HInvAny m dmax q D S (ruleNextG df D i' j).1 (ruleNextG df D i' j).2 (h.iterG df dmax rd).2.2 := by
  cases df
  · simp only [Handler.iterG, ruleOpG, ruleNextG, Bool.false_eq_true, if_false] at hlo ⊢; exact iter_spec st inv hlo
  · simp only [Handler.iterG, ruleOpG, ruleNextG, if_true] at hlo ⊢; exact iterD_spec st inv hlo

theorem loopG_eq_walkG (df : Bool) (st : Stored m dmax q lo D S rd) :
    ∀ (fuel i j : Nat) (h : Handler w), HInvAny m dmax q D S i j h → lo ≤ (walkG df D fuel i j).1 →
      Handler.loopG df dmax rd fuel h = (j - (walkG df D fuel i j).1, (walkG df D fuel i j).2) := by
  intro fuel
  induction fuel with
  | zero => intro i j h _ _; cases df <;> simp [Handler.loopG, walkG, walkF, walkD]
  | succ fuel ih =>
    intro i j h inv hlo
    cases i with
    | zero =>
      simp only [HInvAny] at inv
      cases df <;> simp [Handler.loopG, Handler.finished, inv, walkG, walkF, walkD]
    | succ i' =>
      simp only [HInvAny] at inv
      have hi := inv.hi
      have hmw := st.hmw
      have hnf : h.finished = false := by
        simp only [Handler.finished, inv.pos]
        exact beq_false_of_ne (twoPow_ne_zero (by omega))
      rw [walkG_step] at hlo ⊢
      simp only at hlo
      have hle := walkG_start_le df D fuel (ruleNextG df D i' j).1 (ruleNextG df D i' j).2
      have hsnd := ruleNextG_snd df D i' j
      have hlo' : ruleOpG df D i' j ≠ Op.ins → lo + 1 ≤ j := by
        intro hne
        rw [if_neg hne] at hsnd
        cases j with
        | zero => exact absurd (ruleOpG_col0 df st i' hi) hne
        | succ j' => simp only [Nat.add_sub_cancel] at hsnd; omega
      obtain ⟨e1, e2, e3⟩ := iterG_spec df st inv hlo'
      have := ih _ _ _ e3 hlo
      simp only [Handler.loopG, hnf, Bool.false_eq_true, if_false, this, e1, e2]
      congr 1
      by_cases hop : ruleOpG df D i' j = Op.ins
      · rw [if_pos hop] at hsnd
        simp [hop, hsnd]
      · rw [if_neg hop] at hsnd
        have := hlo' hop
        have hb : (ruleOpG df D i' j != Op.ins) = true := by simp [hop]
        rw [hb, if_pos rfl]
        omega

theorem tracebackRdG_eq (df : Bool) (st : Stored m dmax q lo D S rd) (hq : 1 ≤ q) (fuel : Nat)
    (hlo : lo ≤ (walkG df D fuel m (q - 1)).1) :
    tracebackRdG df dmax m rd fuel =
      (q - 1 - (walkG df D fuel m (q - 1)).1, (S q).dist, (walkG df D fuel m (q - 1)).2) := by
  have hle := walkG_start_le df D fuel m (q - 1)
  have h := loopG_eq_walkG df st fuel m (q - 1) _ (start_inv st (by omega)) hlo
  unfold tracebackRdG
  rw [h, st.rd 0 (by omega)]
  simp

end

end RbV.Model.MyersTraceback
