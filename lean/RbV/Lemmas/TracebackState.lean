import RbV.Model.MyersTraceback
import RbV.Lemmas.MyersStep
import RbV.Lemmas.TracebackSound
/-!
The stored-state traceback of the single-word Myers matcher reads the true cells of the Sellers matrix (C10 [C]).
Core Lean only.

`Handler` (model of `ShortTracebackHandler`) keeps the distance of the cell under the cursor of the current column and of
the diagonal cell in the left column.  We show that these two numbers, which the code derives from single bits
(`adjust_dist`) and bit counts (`adjust_by_mask`) of the stored `pv`/`mv` words, are the matrix entries, that the three
tests of `_traceback_at` are therefore the tests of the matrix-level rule `walkF`, and hence that both produce the same
start and path.
-/
namespace RbV.Model.MyersTraceback
open RbV.EditDist
open RbV.Model.MyersSimple (St)

/-! ### single bits and masks -/

theorem twoPow_ne_zero {w r : Nat} (h : r < w) : BitVec.twoPow w r ≠ 0#w := by
  intro e
  have := congrArg (fun x => x.getLsbD r) e
  simp [h] at this

/-- `x & (1 << r) != 0` is the test of bit `r` -/
theorem test_twoPow {w : Nat} (x : BitVec w) (r : Nat) (h : r < w) :
    ((x &&& BitVec.twoPow w r) != 0#w) = x.getLsbD r := by
  rw [BitVec.and_twoPow]
  cases hx : x.getLsbD r <;> simp [twoPow_ne_zero h]

theorem twoPow_shr_succ {w : Nat} (r : Nat) (h : r + 1 < w) :
    BitVec.twoPow w (r + 1) >>> 1 = BitVec.twoPow w r := by
  apply BitVec.eq_of_getLsbD_eq
  intro i hi
  rw [BitVec.getLsbD_ushiftRight, BitVec.getLsbD_twoPow, BitVec.getLsbD_twoPow]
  have h1 : decide (r + 1 < w) = true := by simp [h]
  have h2 : decide (r < w) = true := by simp; omega
  rw [h1, h2]
  simp only [Bool.true_and]
  by_cases e : r = i
  · subst e; simp; omega
  · have : ¬ (r + 1 = 1 + i) := by omega
    simp [e, this]

theorem twoPow_shr_zero {w : Nat} : BitVec.twoPow w 0 >>> 1 = 0#w := by
  apply BitVec.eq_of_getLsbD_eq
  intro i hi
  rw [BitVec.getLsbD_ushiftRight, BitVec.getLsbD_twoPow]
  have : ¬ (0 = 1 + i) := by omega
  simp [this]

/-- `left_mask = (left_mask >> 1) | max_mask`: the range of set bits grows downwards by one -/
theorem leftMask_step {w m : Nat} (lm : BitVec w) (r : Nat) (hm1 : 1 ≤ m) (hmw : m ≤ w) (hr : r ≤ m)
    (h : ∀ b, lm.getLsbD b = decide (r ≤ b ∧ b < m)) :
    ∀ b, ((lm >>> 1) ||| BitVec.twoPow w (m - 1)).getLsbD b = decide (r - 1 ≤ b ∧ b < m) := by
  intro b
  rw [BitVec.getLsbD_or, BitVec.getLsbD_ushiftRight, h, BitVec.getLsbD_twoPow]
  have h1 : decide (m - 1 < w) = true := by simp; omega
  rw [h1, Bool.true_and]
  rw [Bool.eq_iff_iff]
  simp only [Bool.or_eq_true, decide_eq_true_eq]
  omega

/-! ### vertical encoding of a column (without the condition on row 0, so that the sentinel column is covered) -/

structure VEnc {w : Nat} (m : Nat) (C : Nat → Int) (pv mv : BitVec w) : Prop where
  diff : ∀ i, i < m → -1 ≤ C (i + 1) - C i ∧ C (i + 1) - C i ≤ 1
  pvb : ∀ i, i < m → (pv.getLsbD i = true ↔ C (i + 1) - C i = 1)
  mvb : ∀ i, i < m → (mv.getLsbD i = true ↔ C (i + 1) - C i = -1)

theorem VEnc.of_enc {w m : Nat} {C : Nat → Int} {pv mv : BitVec w} (e : RbV.Model.MyersSimple.Enc m C pv mv) :
    VEnc m C pv mv := ⟨e.diff, e.pvb, e.mvb⟩

/-- `adjust_dist(1 << r)` moves the distance from row `r + 1` to row `r` (and never subtracts from 0) -/
theorem adjustDist_spec {w m : Nat} (C : Nat → Int) (s : St w) (r : Nat) (hr : r < m) (hmw : m ≤ w)
    (enc : VEnc m C s.pv s.mv) (hd : (s.dist : Int) = C (r + 1)) (h0 : 0 ≤ C r) :
    (adjustDist s (BitVec.twoPow w r)).pv = s.pv ∧ (adjustDist s (BitVec.twoPow w r)).mv = s.mv ∧
    ((adjustDist s (BitVec.twoPow w r)).dist : Int) = C r := by
  have hp := enc.pvb r hr
  have hv := enc.mvb r hr
  have hdf := enc.diff r hr
  unfold adjustDist
  rw [test_twoPow _ r (by omega), test_twoPow _ r (by omega)]
  cases hpv : s.pv.getLsbD r <;> cases hmv : s.mv.getLsbD r <;> simp [hpv, hmv] at hp hv ⊢ <;> omega

theorem adjustDist_zero {w : Nat} (s : St w) : adjustDist s 0#w = s := by
  simp [adjustDist]

/-- the counting argument behind `adjust_by_mask` -/
theorem popc_go_range {w m : Nat} (C : Nat → Int) (pv mv mask : BitVec w) (r : Nat) (enc : VEnc m C pv mv)
    (hmask : ∀ b, mask.getLsbD b = decide (r ≤ b ∧ b < m)) :
    ∀ n, (popc.go (pv &&& mask) n : Int) - (popc.go (mv &&& mask) n : Int) = C (max r (min n m)) - C r := by
  intro n
  induction n with
  | zero =>
    have : max r (min 0 m) = r := by omega
    simp [popc.go]
  | succ n ih =>
    simp only [popc.go, BitVec.getLsbD_and, hmask]
    by_cases hin : r ≤ n ∧ n < m
    · have e1 : max r (min (n + 1) m) = n + 1 := by omega
      have e2 : max r (min n m) = n := by omega
      rw [e1]; rw [e2] at ih
      have hp := enc.pvb n hin.2
      have hv := enc.mvb n hin.2
      have hdf := enc.diff n hin.2
      have hd : decide (r ≤ n ∧ n < m) = true := by simp [hin]
      rw [hd]
      cases hpv : pv.getLsbD n <;> cases hmv : mv.getLsbD n <;> simp [hpv, hmv] at hp hv ⊢ <;> omega
    · have e1 : max r (min (n + 1) m) = max r (min n m) := by omega
      rw [e1]
      have hd : decide (r ≤ n ∧ n < m) = false := by simp; omega
      rw [hd]
      simp only [Bool.and_false, Bool.toNat_false, Nat.add_zero]
      exact ih

/-- `adjust_by_mask(mask)` with `mask` = bits `r..m-1` moves the distance from row `m` to row `r`; the subtraction
`dist + #mv − #pv` does not go below 0 -/
theorem adjustByMask_spec {w m : Nat} (C : Nat → Int) (s : St w) (mask : BitVec w) (r : Nat) (hr : r ≤ m) (hmw : m ≤ w)
    (enc : VEnc m C s.pv s.mv) (hmask : ∀ b, mask.getLsbD b = decide (r ≤ b ∧ b < m))
    (hd : (s.dist : Int) = C m) (h0 : 0 ≤ C r) :
    (adjustByMask s mask).pv = s.pv ∧ (adjustByMask s mask).mv = s.mv ∧
    popc (s.pv &&& mask) ≤ s.dist + popc (s.mv &&& mask) ∧
    ((adjustByMask s mask).dist : Int) = C r := by
  have h := popc_go_range C s.pv s.mv mask r enc hmask w
  have e : max r (min w m) = m := by omega
  rw [e] at h
  unfold adjustByMask popc
  refine ⟨rfl, rfl, ?_, ?_⟩
  · omega
  · simp only
    omega

/-! ### the stored columns and the handler invariant -/

/-- the column of values that belongs to sequence number `s`: the sentinel `State::max()` stands for a column
`dmax − m + i` to the left of the matrix, sequence number `j + 1` for matrix column `j` -/
def colOf (D : Nat → Nat → Nat) (dmax m : Nat) (s : Nat) (i : Nat) : Int :=
  if s = 0 then (dmax : Int) - m + i else (D i (s - 1) : Int)

/-- what the traceback from sequence number `q` (= matrix column `q − 1`) assumes about the stored states `S` and about
the iterator `rd` it reads them through; `lo` = smallest sequence number that can still be read (ring buffer) -/
structure Stored {w : Nat} (m dmax q lo : Nat) (D : Nat → Nat → Nat) (S : Nat → St w) (rd : Nat → St w) : Prop where
  hm1 : 1 ≤ m
  hmw : m ≤ w
  hdm : m < dmax
  col0 : ∀ i, i ≤ m → D i 0 = i
  bound : ∀ i j, i ≤ m → j < q → D i j ≤ m
  enc : ∀ s, s ≤ q → VEnc m (colOf D dmax m s) (S s).pv (S s).mv ∧ ((S s).dist : Int) = colOf D dmax m s m
  rd : ∀ k, k + lo ≤ q → rd k = S (q - k)

/-- the handler with the cursor at row `i' + 1` of matrix column `j`: the current state carries the value of that cell,
the left state the value of the diagonal cell (row `i'`, column `j − 1`; the sentinel column for `j = 0`) -/
structure HInv {w : Nat} (m dmax q : Nat) (D : Nat → Nat → Nat) (S : Nat → St w) (i' j : Nat) (h : Handler w) : Prop where
  hi : i' < m
  hj : j < q
  maxMask : h.maxMask = BitVec.twoPow w (m - 1)
  pos : h.pos = BitVec.twoPow w i'
  lmask : ∀ b, h.leftMask.getLsbD b = decide (i' ≤ b ∧ b < m)
  spv : h.state.pv = (S (j + 1)).pv
  smv : h.state.mv = (S (j + 1)).mv
  sdist : (h.state.dist : Int) = colOf D dmax m (j + 1) (i' + 1)
  lpv : h.left.pv = (S j).pv
  lmv : h.left.mv = (S j).mv
  ldist : (h.left.dist : Int) = colOf D dmax m j i'
  taken : h.taken = q - j + 1

def HInvAny {w : Nat} (m dmax q : Nat) (D : Nat → Nat → Nat) (S : Nat → St w) (i j : Nat) (h : Handler w) : Prop :=
  match i with
  | 0 => h.pos = 0#w
  | i' + 1 => HInv m dmax q D S i' j h

/-- the decision of the matrix-level rule at row `i + 1`, column `j` -/
def ruleOp (D : Nat → Nat → Nat) (i j : Nat) : Op :=
  if j ≥ 1 ∧ D i (j - 1) + 1 = D (i + 1) j then Op.sub
  else if D i j + 1 = D (i + 1) j then Op.ins
  else if j ≥ 1 ∧ D (i + 1) (j - 1) + 1 = D i (j - 1) then Op.del
  else Op.mat

def ruleNext (D : Nat → Nat → Nat) (i j : Nat) : Nat × Nat :=
  match ruleOp D i j with
  | Op.sub => (i, j - 1)
  | Op.ins => (i, j)
  | Op.del => (i + 1, j - 1)
  | Op.mat => (i, j - 1)

theorem walkF_step (D : Nat → Nat → Nat) (fuel i j : Nat) :
    walkF D (fuel + 1) (i + 1) j =
      ((walkF D fuel (ruleNext D i j).1 (ruleNext D i j).2).1,
        ruleOp D i j :: (walkF D fuel (ruleNext D i j).1 (ruleNext D i j).2).2) := by
  unfold ruleNext ruleOp
  simp only [walkF]
  split
  · rfl
  · split
    · rfl
    · split <;> rfl

theorem walkF_start_le (D : Nat → Nat → Nat) : ∀ fuel i j, (walkF D fuel i j).1 ≤ j := by
  intro fuel
  induction fuel with
  | zero => intro i j; simp [walkF]
  | succ fuel ih =>
    intro i j
    cases i with
    | zero => simp [walkF]
    | succ i =>
      rw [walkF_step]
      have := ih (ruleNext D i j).1 (ruleNext D i j).2
      have h2 : (ruleNext D i j).2 ≤ j := by
        unfold ruleNext
        split <;> simp
      exact Nat.le_trans this h2


/-! ### the three tests are the tests of the matrix rule -/

section
variable {w : Nat} {m dmax q lo : Nat} {D : Nat → Nat → Nat} {S : Nat → St w} {rd : Nat → St w}

theorem colOf_succ (D : Nat → Nat → Nat) (dmax m s i : Nat) : colOf D dmax m (s + 1) i = (D i s : Int) := by
  simp [colOf]

theorem colOf_nonneg (st : Stored m dmax q lo D S rd) (s i : Nat) (_hi : i ≤ m) : 0 ≤ colOf D dmax m s i := by
  unfold colOf
  have := st.hdm
  split <;> omega

/-- test 1: `left.dist.wrapping_add(1) == block.dist` ⇔ diagonal value + 1 = current value (never at column 0) -/
theorem test_subst (st : Stored m dmax q lo D S rd) {i' j : Nat} {h : Handler w} (inv : HInv m dmax q D S i' j h) :
    ((h.left.dist + 1) % (dmax + 1) = h.state.dist) ↔ (j ≥ 1 ∧ D i' (j - 1) + 1 = D (i' + 1) j) := by
  have hs := inv.sdist
  have hl := inv.ldist
  rw [colOf_succ] at hs
  have hdm := st.hdm
  have hi := inv.hi
  cases j with
  | zero =>
    simp only [colOf, if_true] at hl
    have hc := st.col0 (i' + 1) (by omega)
    have hlt : h.left.dist + 1 < dmax + 1 := by omega
    rw [Nat.mod_eq_of_lt hlt]
    omega
  | succ j' =>
    rw [colOf_succ] at hl
    have hb := st.bound i' j' (by omega) (by have := inv.hj; omega)
    have hlt : h.left.dist + 1 < dmax + 1 := by omega
    rw [Nat.mod_eq_of_lt hlt]
    simp only [Nat.add_sub_cancel]
    omega

/-- test 2: `block.pv & pos != 0` ⇔ upper value + 1 = current value -/
theorem test_ins (st : Stored m dmax q lo D S rd) {i' j : Nat} {h : Handler w} (inv : HInv m dmax q D S i' j h) :
    ((h.state.pv &&& h.pos) != 0#w) = decide (D i' j + 1 = D (i' + 1) j) := by
  have hi := inv.hi
  have hmw := st.hmw
  rw [inv.pos, test_twoPow _ i' (by omega), inv.spv]
  have e := ((st.enc (j + 1) (by have := inv.hj; omega)).1).pvb i' hi
  rw [colOf_succ, colOf_succ] at e
  rw [Bool.eq_iff_iff, e]
  simp only [decide_eq_true_eq]
  omega

/-- test 3 (`move_left_down_if_better`): `left.mv & pos != 0` ⇔ left value + 1 = diagonal value (never at column 0:
the sentinel has `mv = 0`) -/
theorem test_del (st : Stored m dmax q lo D S rd) {i' j : Nat} {h : Handler w} (inv : HInv m dmax q D S i' j h) :
    ((h.left.mv &&& h.pos) != 0#w) = decide (j ≥ 1 ∧ D (i' + 1) (j - 1) + 1 = D i' (j - 1)) := by
  have hi := inv.hi
  have hmw := st.hmw
  rw [inv.pos, test_twoPow _ i' (by omega), inv.lmv]
  have e := ((st.enc j (by have := inv.hj; omega)).1).mvb i' hi
  rw [Bool.eq_iff_iff, e]
  simp only [decide_eq_true_eq]
  cases j with
  | zero => simp only [colOf, if_true]; omega
  | succ j' => rw [colOf_succ, colOf_succ]; simp only [Nat.add_sub_cancel]; omega

/-! ### the moves keep the invariant -/

/-- `move_up(false); move_up_left(false); move_to_left()` — the diagonal move of Subst and Match -/
theorem move_diag (st : Stored m dmax q lo D S rd) {i' j : Nat} {h : Handler w} (inv : HInv m dmax q D S i' j h)
    (hlo : lo + 1 ≤ j) :
    HInvAny m dmax q D S i' (j - 1) (((h.moveUp false).moveUpLeft false).moveToLeft rd) := by
  have hi := inv.hi
  have hmw := st.hmw
  have hm1 := st.hm1
  have hjq := inv.hj
  cases i' with
  | zero =>
    simp only [HInvAny, Handler.moveToLeft, Handler.moveUpLeft, Handler.moveUp, inv.pos]
    exact twoPow_shr_zero
  | succ r =>
    obtain ⟨j', rfl⟩ : ∃ j', j = j' + 1 := ⟨j - 1, by omega⟩
    simp only [Nat.add_sub_cancel, HInvAny]
    have hmask := leftMask_step h.leftMask (r + 1) hm1 hmw (by omega) inv.lmask
    simp only [Nat.add_sub_cancel] at hmask
    have hrd : rd h.taken = S j' := by
      rw [inv.taken, st.rd _ (by omega)]
      congr 1; omega
    obtain ⟨encL, dL⟩ := st.enc j' (by omega)
    have hadj := adjustByMask_spec (colOf D dmax m j') (S j') ((h.leftMask >>> 1) ||| BitVec.twoPow w (m - 1)) r
      (by omega) hmw encL hmask dL (colOf_nonneg st j' r (by omega))
    refine ⟨by omega, by omega, ?_, ?_, ?_, ?_, ?_, ?_, ?_, ?_, ?_, ?_⟩
    · simp only [Handler.moveToLeft, Handler.moveUpLeft, Handler.moveUp, inv.maxMask]
    · simp only [Handler.moveToLeft, Handler.moveUpLeft, Handler.moveUp, inv.pos]
      exact twoPow_shr_succ r (by omega)
    · simp only [Handler.moveToLeft, Handler.moveUpLeft, Handler.moveUp, inv.maxMask]
      exact hmask
    · simp only [Handler.moveToLeft, Handler.moveUpLeft, Handler.moveUp]; exact inv.lpv
    · simp only [Handler.moveToLeft, Handler.moveUpLeft, Handler.moveUp]; exact inv.lmv
    · simp only [Handler.moveToLeft, Handler.moveUpLeft, Handler.moveUp]
      have := inv.ldist
      rw [colOf_succ] at this ⊢
      exact this
    · simp only [Handler.moveToLeft, Handler.moveUpLeft, Handler.moveUp, inv.maxMask, hrd]; exact hadj.1
    · simp only [Handler.moveToLeft, Handler.moveUpLeft, Handler.moveUp, inv.maxMask, hrd]; exact hadj.2.1
    · simp only [Handler.moveToLeft, Handler.moveUpLeft, Handler.moveUp, inv.maxMask, hrd]; exact hadj.2.2.2
    · simp only [Handler.moveToLeft, Handler.moveUpLeft, Handler.moveUp, inv.taken]; omega

/-- `move_up(true); move_up_left(true)` — the vertical move of Ins -/
theorem move_ins (st : Stored m dmax q lo D S rd) {i' j : Nat} {h : Handler w} (inv : HInv m dmax q D S i' j h) :
    HInvAny m dmax q D S i' j ((h.moveUp true).moveUpLeft true) := by
  have hi := inv.hi
  have hmw := st.hmw
  have hm1 := st.hm1
  have hjq := inv.hj
  cases i' with
  | zero =>
    simp only [HInvAny, Handler.moveUpLeft, Handler.moveUp, inv.pos]
    exact twoPow_shr_zero
  | succ r =>
    simp only [HInvAny]
    have hmask := leftMask_step h.leftMask (r + 1) hm1 hmw (by omega) inv.lmask
    simp only [Nat.add_sub_cancel] at hmask
    obtain ⟨encS, _⟩ := st.enc (j + 1) (by omega)
    obtain ⟨encL, _⟩ := st.enc j (by omega)
    have encS' : VEnc m (colOf D dmax m (j + 1)) h.state.pv h.state.mv := by rw [inv.spv, inv.smv]; exact encS
    have encL' : VEnc m (colOf D dmax m j) h.left.pv h.left.mv := by rw [inv.lpv, inv.lmv]; exact encL
    have a1 := adjustDist_spec (colOf D dmax m (j + 1)) h.state (r + 1) hi hmw encS' inv.sdist
      (colOf_nonneg st (j + 1) (r + 1) (by omega))
    have a2 := adjustDist_spec (colOf D dmax m j) h.left r (by omega) hmw encL' inv.ldist
      (colOf_nonneg st j r (by omega))
    have hpos : h.pos >>> 1 = BitVec.twoPow w r := by rw [inv.pos]; exact twoPow_shr_succ r (by omega)
    refine ⟨by omega, hjq, ?_, ?_, ?_, ?_, ?_, ?_, ?_, ?_, ?_, ?_⟩
    · simp only [Handler.moveUpLeft, Handler.moveUp, inv.maxMask]
    · simp only [Handler.moveUpLeft, Handler.moveUp]; exact hpos
    · simp only [Handler.moveUpLeft, Handler.moveUp, inv.maxMask]; exact hmask
    · simp only [Handler.moveUpLeft, Handler.moveUp, if_true, inv.pos]; rw [a1.1]; exact inv.spv
    · simp only [Handler.moveUpLeft, Handler.moveUp, if_true, inv.pos]; rw [a1.2.1]; exact inv.smv
    · simp only [Handler.moveUpLeft, Handler.moveUp, if_true, inv.pos]; exact a1.2.2
    · simp only [Handler.moveUpLeft, Handler.moveUp, if_true, hpos]; rw [a2.1]; exact inv.lpv
    · simp only [Handler.moveUpLeft, Handler.moveUp, if_true, hpos]; rw [a2.2.1]; exact inv.lmv
    · simp only [Handler.moveUpLeft, Handler.moveUp, if_true, hpos]; exact a2.2.2
    · simp only [Handler.moveUpLeft, Handler.moveUp]; exact inv.taken

/-- `move_left_down_if_better()` returned true (`left.dist -= 1`), then `move_to_left()` — the horizontal move of Del -/
theorem move_del (st : Stored m dmax q lo D S rd) {i' j : Nat} {h : Handler w} (inv : HInv m dmax q D S i' j h)
    (hlo : lo + 1 ≤ j) (hdel : D (i' + 1) (j - 1) + 1 = D i' (j - 1)) :
    HInvAny m dmax q D S (i' + 1) (j - 1)
      (Handler.moveToLeft rd { h with left := { h.left with dist := h.left.dist - 1 } }) := by
  have hi := inv.hi
  have hmw := st.hmw
  have hjq := inv.hj
  obtain ⟨j', rfl⟩ : ∃ j', j = j' + 1 := ⟨j - 1, by omega⟩
  simp only [Nat.add_sub_cancel, HInvAny] at hdel ⊢
  have hrd : rd h.taken = S j' := by
    rw [inv.taken, st.rd _ (by omega)]
    congr 1; omega
  obtain ⟨encL, dL⟩ := st.enc j' (by omega)
  have hadj := adjustByMask_spec (colOf D dmax m j') (S j') h.leftMask i' (by omega) hmw encL inv.lmask dL
    (colOf_nonneg st j' i' (by omega))
  refine ⟨hi, by omega, ?_, ?_, ?_, ?_, ?_, ?_, ?_, ?_, ?_, ?_⟩
  · simp only [Handler.moveToLeft]; exact inv.maxMask
  · simp only [Handler.moveToLeft]; exact inv.pos
  · simp only [Handler.moveToLeft]; exact inv.lmask
  · simp only [Handler.moveToLeft]; exact inv.lpv
  · simp only [Handler.moveToLeft]; exact inv.lmv
  · simp only [Handler.moveToLeft]
    have := inv.ldist
    rw [colOf_succ] at this ⊢
    omega
  · simp only [Handler.moveToLeft, hrd]; exact hadj.1
  · simp only [Handler.moveToLeft, hrd]; exact hadj.2.1
  · simp only [Handler.moveToLeft, hrd]; exact hadj.2.2.2
  · simp only [Handler.moveToLeft, inv.taken]; omega

/-- column 0 is 0, 1, 2, …: the rule says Ins there, so the walk never leaves the matrix to the left -/
theorem ruleOp_col0 (st : Stored m dmax q lo D S rd) (i' : Nat) (hi : i' < m) : ruleOp D i' 0 = Op.ins := by
  have a := st.col0 i' (by omega)
  have b := st.col0 (i' + 1) (by omega)
  unfold ruleOp
  rw [if_neg (by omega), if_pos (by omega)]

/-- **one pass through the loop body**: the operation is the one the matrix rule chooses, `h_offset` grows unless it is
Ins, and the handler again carries the true values at the next cursor position -/
theorem iter_spec (st : Stored m dmax q lo D S rd) {i' j : Nat} {h : Handler w} (inv : HInv m dmax q D S i' j h)
    (hlo : ruleOp D i' j ≠ Op.ins → lo + 1 ≤ j) :
    (h.iter dmax rd).1 = ruleOp D i' j ∧
    (h.iter dmax rd).2.1 = (ruleOp D i' j != Op.ins) ∧
    HInvAny m dmax q D S (ruleNext D i' j).1 (ruleNext D i' j).2 (h.iter dmax rd).2.2 := by
  have t1 := test_subst st inv
  have t2 := test_ins st inv
  have t3 := test_del st inv
  unfold Handler.iter
  by_cases c1 : j ≥ 1 ∧ D i' (j - 1) + 1 = D (i' + 1) j
  · have hop : ruleOp D i' j = Op.sub := by unfold ruleOp; rw [if_pos c1]
    have hnx : ruleNext D i' j = (i', j - 1) := by unfold ruleNext; rw [hop]
    rw [if_pos (t1.mpr c1), hop, hnx]
    exact ⟨rfl, rfl, move_diag st inv (hlo (by rw [hop]; decide))⟩
  · rw [if_neg (fun hc => c1 (t1.mp hc))]
    by_cases c2 : D i' j + 1 = D (i' + 1) j
    · have hop : ruleOp D i' j = Op.ins := by unfold ruleOp; rw [if_neg c1, if_pos c2]
      have hnx : ruleNext D i' j = (i', j) := by unfold ruleNext; rw [hop]
      have t2' : ((h.state.pv &&& h.pos) != 0#w) = true := by rw [t2]; simp [c2]
      rw [if_pos t2', hop, hnx]
      exact ⟨rfl, rfl, move_ins st inv⟩
    · have t2' : ¬ (((h.state.pv &&& h.pos) != 0#w) = true) := by rw [t2]; simp [c2]
      rw [if_neg t2']
      by_cases c3 : j ≥ 1 ∧ D (i' + 1) (j - 1) + 1 = D i' (j - 1)
      · have hop : ruleOp D i' j = Op.del := by unfold ruleOp; rw [if_neg c1, if_neg c2, if_pos c3]
        have hnx : ruleNext D i' j = (i' + 1, j - 1) := by unfold ruleNext; rw [hop]
        have t3' : ((h.left.mv &&& h.pos) != 0#w) = true := by rw [t3]; simp [c3]
        unfold Handler.moveLeftDownIfBetter
        rw [if_pos t3', hop, hnx]
        exact ⟨rfl, rfl, move_del st inv (hlo (by rw [hop]; decide)) c3.2⟩
      · have hop : ruleOp D i' j = Op.mat := by unfold ruleOp; rw [if_neg c1, if_neg c2, if_neg c3]
        have hnx : ruleNext D i' j = (i', j - 1) := by unfold ruleNext; rw [hop]
        have t3' : ¬ (((h.left.mv &&& h.pos) != 0#w) = true) := by rw [t3]; simp [c3]
        unfold Handler.moveLeftDownIfBetter
        rw [if_neg t3', hop, hnx]
        exact ⟨rfl, rfl, move_diag st inv (hlo (by rw [hop]; decide))⟩

end


/-! ### from `init_traceback` through the whole loop -/

section
variable {w : Nat} {m dmax q lo : Nat} {D : Nat → Nat → Nat} {S : Nat → St w} {rd : Nat → St w}

/-- `init_traceback` followed by `move_up_left(true)`: cursor at row `m` of column `q − 1`, left cursor at row `m − 1` -/
theorem start_inv (st : Stored m dmax q lo D S rd) (hq : lo + 1 ≤ q) :
    HInvAny m dmax q D S m (q - 1) (Handler.start m rd) := by
  have hm1 := st.hm1
  have hmw := st.hmw
  obtain ⟨m', rfl⟩ : ∃ m', m = m' + 1 := ⟨m - 1, by omega⟩
  obtain ⟨j, rfl⟩ : ∃ j, q = j + 1 := ⟨q - 1, by omega⟩
  simp only [Nat.add_sub_cancel, HInvAny]
  have r0 : rd 0 = S (j + 1) := st.rd 0 (by omega)
  have r1 : rd 1 = S j := by rw [st.rd 1 (by omega)]; simp
  have hz : ∀ b, (0#w).getLsbD b = decide (m' + 1 ≤ b ∧ b < m' + 1) := by
    intro b; simp
  have hmask := leftMask_step (0#w) (m' + 1) hm1 hmw (Nat.le_refl _) hz
  simp only [Nat.add_sub_cancel] at hmask
  obtain ⟨encS, dS⟩ := st.enc (j + 1) (by omega)
  obtain ⟨encL, dL⟩ := st.enc j (by omega)
  have a2 := adjustDist_spec (colOf D dmax (m' + 1) j) (S j) m' (by omega) hmw encL dL
    (colOf_nonneg st j m' (by omega))
  have htp : (1#w <<< m') = BitVec.twoPow w m' := (BitVec.twoPow_eq w m').symm
  refine ⟨by omega, by omega, ?_, ?_, ?_, ?_, ?_, ?_, ?_, ?_, ?_, ?_⟩
  · simp only [Handler.start, Handler.new, Handler.moveUpLeft, Nat.add_sub_cancel, htp]
  · simp only [Handler.start, Handler.new, Handler.moveUpLeft, Nat.add_sub_cancel, htp]
  · simp only [Handler.start, Handler.new, Handler.moveUpLeft, Nat.add_sub_cancel, htp]; exact hmask
  · simp only [Handler.start, Handler.new, Handler.moveUpLeft, r0]
  · simp only [Handler.start, Handler.new, Handler.moveUpLeft, r0]
  · simp only [Handler.start, Handler.new, Handler.moveUpLeft, r0]; exact dS
  · simp only [Handler.start, Handler.new, Handler.moveUpLeft, Nat.add_sub_cancel, htp, r1, if_true]; exact a2.1
  · simp only [Handler.start, Handler.new, Handler.moveUpLeft, Nat.add_sub_cancel, htp, r1, if_true]; exact a2.2.1
  · simp only [Handler.start, Handler.new, Handler.moveUpLeft, Nat.add_sub_cancel, htp, r1, if_true]; exact a2.2.2
  · simp only [Handler.start, Handler.new, Handler.moveUpLeft]; omega

theorem ruleNext_snd (D : Nat → Nat → Nat) (i j : Nat) :
    (ruleNext D i j).2 = if ruleOp D i j = Op.ins then j else j - 1 := by
  unfold ruleNext
  cases ruleOp D i j <;> simp

/-- **the loop is the matrix walk**: started with the true values at cursor `(i, j)`, the `while` loop of
`_traceback_at` pushes the operations of `walkF` and counts `j − start` left moves — provided no state older than
sequence number `lo` is needed, i.e. the walk ends at a column `≥ lo` -/
theorem loop_eq_walkF (st : Stored m dmax q lo D S rd) :
    ∀ (fuel i j : Nat) (h : Handler w), HInvAny m dmax q D S i j h → lo ≤ (walkF D fuel i j).1 →
      Handler.loop dmax rd fuel h = (j - (walkF D fuel i j).1, (walkF D fuel i j).2) := by
  intro fuel
  induction fuel with
  | zero => intro i j h _ _; simp [Handler.loop, walkF]
  | succ fuel ih =>
    intro i j h inv hlo
    cases i with
    | zero =>
      simp only [HInvAny] at inv
      simp [Handler.loop, Handler.finished, inv, walkF]
    | succ i' =>
      simp only [HInvAny] at inv
      have hi := inv.hi
      have hmw := st.hmw
      have hnf : h.finished = false := by
        simp only [Handler.finished, inv.pos]
        exact beq_false_of_ne (twoPow_ne_zero (by omega))
      rw [walkF_step] at hlo ⊢
      simp only at hlo
      have hle := walkF_start_le D fuel (ruleNext D i' j).1 (ruleNext D i' j).2
      have hsnd := ruleNext_snd D i' j
      have hlo' : ruleOp D i' j ≠ Op.ins → lo + 1 ≤ j := by
        intro hne
        rw [if_neg hne] at hsnd
        cases j with
        | zero => exact absurd (ruleOp_col0 st i' hi) hne
        | succ j' => simp only [Nat.add_sub_cancel] at hsnd; omega
      obtain ⟨e1, e2, e3⟩ := iter_spec st inv hlo'
      have := ih _ _ _ e3 hlo
      simp only [Handler.loop, hnf, Bool.false_eq_true, if_false, this, e1, e2]
      congr 1
      by_cases hop : ruleOp D i' j = Op.ins
      · rw [if_pos hop] at hsnd
        simp [hop, hsnd]
      · rw [if_neg hop] at hsnd
        have := hlo' hop
        have hb : (ruleOp D i' j != Op.ins) = true := by simp [hop]
        rw [hb, if_pos rfl]
        omega

/-- `_traceback_at` on the stored states = the matrix-level walk -/
theorem tracebackRd_eq (st : Stored m dmax q lo D S rd) (hq : 1 ≤ q) (fuel : Nat)
    (hlo : lo ≤ (walkF D fuel m (q - 1)).1) :
    tracebackRd dmax m rd fuel =
      (q - 1 - (walkF D fuel m (q - 1)).1, (S q).dist, (walkF D fuel m (q - 1)).2) := by
  have hle := walkF_start_le D fuel m (q - 1)
  have h := loop_eq_walkF st fuel m (q - 1) _ (start_inv st (by omega)) hlo
  unfold tracebackRd
  rw [h, st.rd 0 (by omega)]
  simp

/-- cursor of the matrix-level walk after `n` steps -/
def curAfter (D : Nat → Nat → Nat) (m j0 : Nat) : Nat → Nat × Nat
  | 0 => (m, j0)
  | n + 1 =>
    match (curAfter D m j0 n).1 with
    | 0 => curAfter D m j0 n
    | i' + 1 => ruleNext D i' (curAfter D m j0 n).2

/-- after any number of passes through the loop body the handler carries the true values at the cursor of the matrix
walk (all states readable: `lo = 0`) -/
theorem after_inv (st : Stored m dmax q 0 D S rd) (hq : 1 ≤ q) :
    ∀ n, HInvAny m dmax q D S (curAfter D m (q - 1) n).1 (curAfter D m (q - 1) n).2 (Handler.after dmax m rd n) := by
  intro n
  induction n with
  | zero => exact start_inv st (by omega)
  | succ n ih =>
    simp only [Handler.after, curAfter]
    cases hc : (curAfter D m (q - 1) n).1 with
    | zero =>
      rw [hc] at ih
      simp only [HInvAny] at ih ⊢
      simp only [Handler.finished, ih, beq_self_eq_true, if_true, hc]
    | succ i' =>
      rw [hc] at ih
      simp only [HInvAny] at ih ⊢
      have hi := ih.hi
      have hmw := st.hmw
      have hnf : (Handler.after dmax m rd n).finished = false := by
        simp only [Handler.finished, ih.pos]
        exact beq_false_of_ne (twoPow_ne_zero (by omega))
      have hlo' : ruleOp D i' (curAfter D m (q - 1) n).2 ≠ Op.ins → 0 + 1 ≤ (curAfter D m (q - 1) n).2 := by
        intro hne
        cases hj : (curAfter D m (q - 1) n).2 with
        | zero => rw [hj] at hne; exact absurd (ruleOp_col0 st i' hi) hne
        | succ j' => omega
      obtain ⟨_, _, e3⟩ := iter_spec st ih hlo'
      simp only [hnf, Bool.false_eq_true, if_false]
      exact e3

end

end RbV.Model.MyersTraceback
