import RbV.Lemmas.TracebackLongMoves
/-!
One pass through the loop body of `_traceback_at` with the block-based handler (C10, block-based handler, stage 2/3): the
three tests are the tests of the matrix rule and the handler again carries the true values at the next cursor position,
which again is a cell of value `≤ k`.  Core Lean only.
-/
namespace RbV.Model.MyersTracebackLong
open RbV.EditDist
open RbV.Model.MyersSimple (St)
open RbV.Model.MyersTraceback

section
variable {w nb m k q lo : Nat} {D : Nat → Nat → Nat} {S : Nat → Array (St w)} {rd : Nat → Array (St w)}

/-- `move_to_left` loads the new left block: block `BLx` of column `jn − 1` (sequence number `jn`), adjusted with the range
mask to the left cursor's row `ρ` — the diagonal neighbour of a cell of value `≤ k`, hence inside a computed block (or
in the guard column) -/
theorem load_left (st : StoredL nb m k q lo D S rd) {ρ jn BLx ax : Nat} {g : LHandler w}
    (hρ : ρ < m) (hjn : jn < q) (hk : D (ρ + 1) jn ≤ k) (lg : LGeo nb m ρ BLx ax g) :
    (adjustByMaskU ((S jn).getD BLx dflt) g.leftMask).pv = ((S jn).getD BLx dflt).pv ∧
    (adjustByMaskU ((S jn).getD BLx dflt) g.leftMask).mv = ((S jn).getD BLx dflt).mv ∧
    (1 ≤ jn → (adjustByMaskU ((S jn).getD BLx dflt) g.leftMask).dist = D ρ (jn - 1)) ∧
    (jn = 0 → (adjustByMaskU ((S jn).getD BLx dflt) g.leftMask).dist + (lenB w nb m BLx - ax) = umax) := by
  have hlw := st.geo.len_le BLx
  have hsm := st.small
  have ha := lg.ha
  have hrow := lg.hrowL
  cases jn with
  | zero =>
    rw [st.guard BLx lg.hBL]
    have sp := adjustByMaskU_spec (fun x => (umax : Int) - lenB w nb m BLx + x) (maxSt w umax) g.leftMask ax ha hlw
      (guard_enc umax _ hlw) lg.lmask (by show ((umax : Nat) : Int) = _; omega) (by show (0 : Int) ≤ _; omega)
      (by show umax + popc (0#w &&& g.leftMask) ≤ umax; rw [popc_zero_and]; omega)
    have e : ((adjustByMaskU (maxSt w umax) g.leftMask).dist : Int) = (umax : Int) - lenB w nb m BLx + ax := sp.2.2
    exact ⟨sp.1, sp.2.1, by intro h0; omega, by intro _; omega⟩
  | succ j1 =>
    obtain ⟨L, P, cf⟩ := st.cols j1 (by omega)
    have hd := st.diag ρ j1 hρ hjn
    obtain ⟨h1, h2⟩ := cf.exact ρ (by omega) (by omega)
    have hBL : BLx < L := by
      rcases lg.ha1 with h0 | h1'
      · have := cf.hL1; omega
      · rw [hrow] at h1
        exact (st.geo.lrow_in_iff BLx ax L lg.hBL h1' ha cf.hLn).mp h1
    have hspan := VEnc.span (cf.enc BLx hBL).1 (lenB w nb m BLx - ax) (by omega)
    have e : lenB w nb m BLx - (lenB w nb m BLx - ax) = ax := by omega
    rw [e, ← hrow, h2] at hspan
    have hdist := (cf.enc BLx hBL).2
    have hbd := st.bound ρ j1 (by omega) (by omega)
    have hpc := popc_le (((S (j1 + 1)).getD BLx dflt).mv &&& g.leftMask)
    have sp := adjustByMaskU_spec (fun x => P (BLx * w + x)) ((S (j1 + 1)).getD BLx dflt) g.leftMask ax ha hlw
      (cf.enc BLx hBL).1 lg.lmask hdist (by show (0 : Int) ≤ P (BLx * w + ax); rw [← hrow, h2]; omega) (by omega)
    have e2 : ((adjustByMaskU ((S (j1 + 1)).getD BLx dflt) g.leftMask).dist : Int) = P (BLx * w + ax) := sp.2.2
    rw [← hrow, h2] at e2
    refine ⟨sp.1, sp.2.1, ?_, by intro h0; omega⟩
    intro _
    simp only [Nat.add_sub_cancel]
    omega

/-- row index 0 is bit 0 of block 0 -/
theorem RGeo.zero {B b : Nat} {h : LHandler w} (g : Geo w nb m) (rg : RGeo nb m 0 B b h) : B = 0 ∧ b = 0 := by
  have hrow := rg.hrow
  have hw := g.hw
  cases B with
  | zero => omega
  | succ B0 =>
    have hsm : (B0 + 1) * w = B0 * w + w := Nat.succ_mul B0 w
    have := rg.hb
    constructor <;> omega

/-- from row 1 every kind of upward move ends the walk -/
theorem moveUp_finish {B b : Nat} {h : LHandler w} (g : Geo w nb m) (rg : RGeo nb m 0 B b h) (adj : Bool) :
    (h.moveUp adj).pos = 0#w ∧ (h.moveUp adj).blockPos = 0 := by
  obtain ⟨hB, hb⟩ := rg.zero g
  subst hB hb
  have c : ((h.pos != 1#w) || h.blockPos == 0) = true := by rw [rg.blockPos]; simp
  constructor
  · unfold LHandler.moveUp; rw [if_pos c]
    show h.pos >>> 1 = 0#w
    rw [rg.pos]; exact twoPow_shr_zero
  · unfold LHandler.moveUp; rw [if_pos c]; exact rg.blockPos

/-- `move_up(true); move_up_left(true)` — the vertical move of Ins -/
theorem moveL_ins (st : StoredL nb m k q lo D S rd) {i' j B b BL a : Nat} {h : LHandler w}
    (inv : LInvC nb m k q D S i' j B b BL a h) (hup : D i' j + 1 = D (i' + 1) j) :
    LInvAny nb m k q D S i' j ((h.moveUp true).moveUpLeft true) := by
  have hw := st.geo.hw
  have hsmall := st.small
  cases i' with
  | zero =>
    obtain ⟨f1, f2⟩ := moveUp_finish st.geo inv.rg true
    exact ⟨by rw [moveUpLeft_pos]; exact f1, by rw [moveUpLeft_blockPos]; exact f2⟩
  | succ r =>
    have hi := inv.hi
    have hj := inv.hj
    have hk := inv.hk
    obtain ⟨B', b', rg', hR⟩ := inv.rg.moveUp st.geo true
    have lg1 : LGeo nb m (r + 1) BL a (h.moveUp true) :=
      inv.lg.frame (moveUp_leftBlockPos h true) (moveUp_leftMaxMask h true) (moveUp_leftMask h true)
    obtain ⟨BL', a', lg', hL⟩ := lg1.moveUpLeft st.geo hi true
    have rg2 : RGeo nb m r B' b' ((h.moveUp true).moveUpLeft true) :=
      rg'.frame (moveUpLeft_blockPos _ true) (moveUpLeft_pos _ true)
    -- the column of the cursor
    obtain ⟨L, P, cf⟩ := st.cols j hj
    have hv : ∀ i, i < m → D (i + 1) j ≤ D i j + 1 ∧ D i j ≤ D (i + 1) j + 1 := fun i hi' => st.vert i j hi' hj
    have hrow := inv.rg.hrow
    obtain ⟨hBL, e1, e0⟩ := cf.exact_up st.geo hv B b inv.rg.hB inv.rg.hb (by rw [← hrow]; exact hk)
    rw [← hrow] at e1 e0
    have hblock : (h.moveUp true).block.pv = ((S (j + 1)).getD B' dflt).pv ∧
        (h.moveUp true).block.mv = ((S (j + 1)).getD B' dflt).mv ∧
        (h.moveUp true).block.dist = D (r + 1) j := by
      rcases hR with ⟨hb1, hBB, hbb, hblk⟩ | ⟨hb0, hBB, hbb, hblk⟩
      · rw [hblk, if_pos rfl]
        subst hBB
        have encB : VEnc (lenB w nb m B') (fun x => P (B' * w + x)) h.block.pv h.block.mv := by
          rw [inv.bpv, inv.bmv]; exact (cf.enc B' hBL).1
        have hd : (h.block.dist : Int) = P (B' * w + (b + 1)) := by
          have e : B' * w + (b + 1) = r + 1 + 1 := by omega
          rw [inv.bdist, e, e1]
        have h0 : (0 : Int) ≤ P (B' * w + b) := by rw [← hrow, e0]; omega
        have sp := adjustDist_spec (fun x => P (B' * w + x)) h.block b inv.rg.hb (st.geo.len_le B') encB hd h0
        have e2 : ((adjustDist h.block (BitVec.twoPow w b)).dist : Int) = P (B' * w + b) := sp.2.2
        rw [← hrow, e0] at e2
        exact ⟨by rw [sp.1, inv.bpv], by rw [sp.2.1, inv.bmv], by omega⟩
      · rw [hblk, if_pos rfl, inv.col]
        subst hb0 hBB
        have hB'n : B' < nb := by have := inv.rg.hB; omega
        have hlen : lenB w nb m B' = w := st.geo.len_inner B' (by have := inv.rg.hB; omega)
        have hsm : (B' + 1) * w = B' * w + w := Nat.succ_mul B' w
        have e : B' * w + lenB w nb m B' = r + 1 := by omega
        have hbe := cf.block_end st.geo B' hB'n (by rw [e]; omega)
        rw [e] at hbe
        exact ⟨rfl, rfl, hbe.2⟩
    -- the diagonal cell of the new cursor
    have hdiag : ∀ j1, j = j1 + 1 → D r j1 ≤ k := by
      intro j1 hj1
      subst hj1
      have := st.diag r j1 (by omega) hj
      omega
    obtain ⟨CL, encL, dL, hCLa, hCLx, hCL0⟩ := inv.left_enc st
    have hlwL := st.geo.len_le BL
    have hleft : ((h.moveUp true).moveUpLeft true).leftBlock.pv = ((S j).getD BL' dflt).pv ∧
        ((h.moveUp true).moveUpLeft true).leftBlock.mv = ((S j).getD BL' dflt).mv ∧
        (1 ≤ j → ((h.moveUp true).moveUpLeft true).leftBlock.dist = D r (j - 1)) ∧
        (j = 0 → ((h.moveUp true).moveUpLeft true).leftBlock.dist + (lenB w nb m BL' - a') = umax) := by
      rcases hL with ⟨ha1, hBB, haa, hblk⟩ | ⟨ha1, hBB, haa, hblk⟩
      · rw [hblk, if_pos rfl, moveUp_leftBlock, rg'.pos]
        subst hBB
        have hla := lg'.ha
        have hlb := rg'.hb
        have hlwB := st.geo.len_le B'
        have hbb : b' = a' := by
          rcases cursor_cases w B' b' BL' a' (by omega) (by omega) (by rw [← rg'.hrow, ← lg'.hrowL]) with
            ⟨_, e⟩ | ⟨_, _, e⟩
          · exact e.symm
          · have := inv.lg.ha; omega
        subst hbb
        have encL' : VEnc (lenB w nb m BL') CL h.leftBlock.pv h.leftBlock.mv := by
          rw [inv.lpv, inv.lmv]; exact encL
        have hrl := lg'.hrowL
        have h0 : (0 : Int) ≤ CL b' := by
          cases j with
          | zero => rw [hCL0 rfl]; omega
          | succ j1 =>
            have := hCLx (by omega) b' (by omega) (by rw [← hrl]; exact hdiag j1 rfl)
            rw [this]; omega
        have hd : (h.leftBlock.dist : Int) = CL (b' + 1) := by rw [haa]; exact hCLa
        have sp := adjustDist_spec CL h.leftBlock b' (by have := inv.lg.ha; omega) hlwL encL' hd h0
        refine ⟨by rw [sp.1, inv.lpv], by rw [sp.2.1, inv.lmv], ?_, ?_⟩
        · intro hj1
          obtain ⟨j1, rfl⟩ : ∃ j1, j = j1 + 1 := ⟨j - 1, by omega⟩
          have := hCLx (by omega) b' (by omega) (by rw [← hrl]; exact hdiag j1 rfl)
          rw [← hrl] at this
          have e2 := sp.2.2
          rw [this] at e2
          simp only [Nat.add_sub_cancel] at e2 ⊢
          omega
        · intro hj0
          have e2 := sp.2.2
          rw [hCL0 hj0] at e2
          omega
      · rw [hblk, if_pos rfl, moveUp_leftCol, inv.leftCol]
        subst hBB
        have hBn : BL' < nb := lg'.hBL
        have hlen : lenB w nb m BL' = w := by have := lg'.ha; have := st.geo.len_le BL'; omega
        have hrl := lg'.hrowL
        refine ⟨rfl, rfl, ?_, ?_⟩
        · intro hj1
          obtain ⟨j1, rfl⟩ : ∃ j1, j = j1 + 1 := ⟨j - 1, by omega⟩
          obtain ⟨L1, P1, cf1⟩ := st.cols j1 (by omega)
          have e : BL' * w + lenB w nb m BL' = r := by omega
          have hbe := cf1.block_end st.geo BL' hBn (by rw [e]; exact hdiag j1 rfl)
          rw [e] at hbe
          simp only [Nat.add_sub_cancel]
          exact hbe.2
        · intro hj0
          subst hj0
          rw [st.guard BL' hBn]
          show umax + (lenB w nb m BL' - a') = umax
          omega
    simp only [LInvAny]
    refine ⟨B', b', BL', a', ⟨by omega, hj, by omega, rg2, lg', ?_, ?_, ?_, ?_, ?_, hleft.1, hleft.2.1, hleft.2.2.1,
      hleft.2.2.2, ?_⟩⟩
    · rw [moveUpLeft_col, moveUp_col]; exact inv.col
    · rw [moveUpLeft_leftCol, moveUp_leftCol]; exact inv.leftCol
    · rw [moveUpLeft_block]; exact hblock.1
    · rw [moveUpLeft_block]; exact hblock.2.1
    · rw [moveUpLeft_block]; exact hblock.2.2
    · rw [moveUpLeft_taken, moveUp_taken]; exact inv.taken

/-- `move_up(false); move_up_left(false); move_to_left()` — the diagonal move of Subst and Match -/
theorem moveL_diag (st : StoredL nb m k q lo D S rd) {i' j B b BL a : Nat} {h : LHandler w}
    (inv : LInvC nb m k q D S i' j B b BL a h) (hlo : lo + 1 ≤ j) :
    LInvAny nb m k q D S i' (j - 1) (((h.moveUp false).moveUpLeft false).moveToLeft rd) := by
  cases i' with
  | zero =>
    obtain ⟨f1, f2⟩ := moveUp_finish st.geo inv.rg false
    refine ⟨?_, ?_⟩
    · show ((h.moveUp false).moveUpLeft false).pos = 0#w
      rw [moveUpLeft_pos]; exact f1
    · show ((h.moveUp false).moveUpLeft false).blockPos = 0
      rw [moveUpLeft_blockPos]; exact f2
  | succ r =>
    obtain ⟨j0, rfl⟩ : ∃ j0, j = j0 + 1 := ⟨j - 1, by omega⟩
    have hi := inv.hi
    have hj := inv.hj
    have hdk := inv.diag_le st (by omega)
    simp only [Nat.add_sub_cancel] at hdk
    simp only [Nat.add_sub_cancel, LInvAny]
    obtain ⟨B', b', rg', hR⟩ := inv.rg.moveUp st.geo false
    have lg1 : LGeo nb m (r + 1) BL a (h.moveUp false) :=
      inv.lg.frame (moveUp_leftBlockPos h false) (moveUp_leftMaxMask h false) (moveUp_leftMask h false)
    obtain ⟨BL', a', lg', hL⟩ := lg1.moveUpLeft st.geo hi false
    have rg3 : RGeo nb m r B' b' (((h.moveUp false).moveUpLeft false).moveToLeft rd) :=
      (rg'.frame (moveUpLeft_blockPos _ false) (moveUpLeft_pos _ false)).frame rfl rfl
    have lg3 : LGeo nb m r BL' a' (((h.moveUp false).moveUpLeft false).moveToLeft rd) := lg'.frame rfl rfl rfl
    have hBB : B' = BL := by
      have ha1 := inv.lg.ha1
      rcases inv.cases st with ⟨e1, e2⟩ | ⟨e1, e2, e3⟩ <;> rcases hR with ⟨hb1, hB1, _, _⟩ | ⟨hb0, hB1, _, _⟩ <;> omega
    have htk : ((h.moveUp false).moveUpLeft false).taken = h.taken := by rw [moveUpLeft_taken, moveUp_taken]
    have hrd : rd ((h.moveUp false).moveUpLeft false).taken = S j0 := by
      rw [htk, inv.taken, st.rd _ (by omega)]; congr 1; omega
    have hlb : ((h.moveUp false).moveUpLeft false).leftBlock = h.leftBlock := by
      rw [moveUpLeft_false_leftBlock, moveUp_leftBlock]
    have hlc : ((h.moveUp false).moveUpLeft false).leftCol = S (j0 + 1) := by
      rw [moveUpLeft_leftCol, moveUp_leftCol]; exact inv.leftCol
    have hload := load_left st (ρ := r) (jn := j0) (by omega) (by omega) hdk lg'
    refine ⟨B', b', BL', a', ⟨by omega, by omega, hdk, rg3, lg3, ?_, ?_, ?_, ?_, ?_, ?_, ?_, ?_, ?_, ?_⟩⟩
    · exact hlc
    · exact hrd
    · show ((h.moveUp false).moveUpLeft false).leftBlock.pv = _
      rw [hlb, hBB]; exact inv.lpv
    · show ((h.moveUp false).moveUpLeft false).leftBlock.mv = _
      rw [hlb, hBB]; exact inv.lmv
    · show ((h.moveUp false).moveUpLeft false).leftBlock.dist = _
      rw [hlb]
      have := inv.ldist (by omega)
      simp only [Nat.add_sub_cancel] at this
      exact this
    · show (adjustByMaskU ((rd ((h.moveUp false).moveUpLeft false).taken).getD
        ((h.moveUp false).moveUpLeft false).leftBlockPos dflt) ((h.moveUp false).moveUpLeft false).leftMask).pv = _
      rw [hrd, lg'.leftBlockPos]; exact hload.1
    · show (adjustByMaskU ((rd ((h.moveUp false).moveUpLeft false).taken).getD
        ((h.moveUp false).moveUpLeft false).leftBlockPos dflt) ((h.moveUp false).moveUpLeft false).leftMask).mv = _
      rw [hrd, lg'.leftBlockPos]; exact hload.2.1
    · show 1 ≤ j0 → (adjustByMaskU ((rd ((h.moveUp false).moveUpLeft false).taken).getD
        ((h.moveUp false).moveUpLeft false).leftBlockPos dflt) ((h.moveUp false).moveUpLeft false).leftMask).dist = _
      rw [hrd, lg'.leftBlockPos]; exact hload.2.2.1
    · show j0 = 0 → (adjustByMaskU ((rd ((h.moveUp false).moveUpLeft false).taken).getD
        ((h.moveUp false).moveUpLeft false).leftBlockPos dflt) ((h.moveUp false).moveUpLeft false).leftMask).dist + _ = _
      rw [hrd, lg'.leftBlockPos]; exact hload.2.2.2
    · show ((h.moveUp false).moveUpLeft false).taken + 1 = _
      rw [htk, inv.taken]; omega

/-- `move_left_down_if_better()` returned true, then `move_to_left()` — the horizontal move of Del -/
theorem moveL_del (st : StoredL nb m k q lo D S rd) {i' j B b BL a : Nat} {h : LHandler w}
    (inv : LInvC nb m k q D S i' j B b BL a h) (hlo : lo + 1 ≤ j)
    (hdel : D (i' + 1) (j - 1) + 1 = D i' (j - 1)) (blk : St w)
    (hpv : blk.pv = ((S j).getD B dflt).pv) (hmv : blk.mv = ((S j).getD B dflt).mv)
    (hdist : blk.dist = h.leftBlock.dist - 1) :
    LInvAny nb m k q D S (i' + 1) (j - 1) (LHandler.moveToLeft rd { h with leftBlock := blk }) := by
  obtain ⟨j0, rfl⟩ : ∃ j0, j = j0 + 1 := ⟨j - 1, by omega⟩
  have hi := inv.hi
  have hj := inv.hj
  have hdk := inv.diag_le st (by omega)
  simp only [Nat.add_sub_cancel] at hdk hdel
  simp only [Nat.add_sub_cancel, LInvAny]
  have rg3 : RGeo nb m i' B b (LHandler.moveToLeft rd { h with leftBlock := blk }) := inv.rg.frame rfl rfl
  have lg3 : LGeo nb m i' BL a (LHandler.moveToLeft rd { h with leftBlock := blk }) := inv.lg.frame rfl rfl rfl
  have hrd : rd h.taken = S j0 := by
    rw [inv.taken, st.rd _ (by omega)]; congr 1; omega
  have hk' : D (i' + 1) j0 ≤ k := by omega
  have hload := load_left st (ρ := i') (jn := j0) hi (by omega) hk' inv.lg
  have hld := inv.ldist (by omega)
  simp only [Nat.add_sub_cancel] at hld
  refine ⟨B, b, BL, a, ⟨hi, by omega, hk', rg3, lg3, ?_, ?_, ?_, ?_, ?_, ?_, ?_, ?_, ?_, ?_⟩⟩
  · exact inv.leftCol
  · exact hrd
  · exact hpv
  · exact hmv
  · show blk.dist = _
    rw [hdist, hld]; omega
  · show (adjustByMaskU ((rd h.taken).getD h.leftBlockPos dflt) h.leftMask).pv = _
    rw [hrd, inv.lg.leftBlockPos]; exact hload.1
  · show (adjustByMaskU ((rd h.taken).getD h.leftBlockPos dflt) h.leftMask).mv = _
    rw [hrd, inv.lg.leftBlockPos]; exact hload.2.1
  · show 1 ≤ j0 → (adjustByMaskU ((rd h.taken).getD h.leftBlockPos dflt) h.leftMask).dist = _
    rw [hrd, inv.lg.leftBlockPos]; exact hload.2.2.1
  · show j0 = 0 → (adjustByMaskU ((rd h.taken).getD h.leftBlockPos dflt) h.leftMask).dist + _ = _
    rw [hrd, inv.lg.leftBlockPos]; exact hload.2.2.2
  · show h.taken + 1 = _
    rw [inv.taken]; omega

/-- column 0 is 0, 1, 2, …: the rule says Ins there -/
theorem ruleOp_col0L (st : StoredL nb m k q lo D S rd) (i' : Nat) (hi : i' < m) : ruleOp D i' 0 = Op.ins := by
  have a := st.col0 i' (by omega)
  have b := st.col0 (i' + 1) (by omega)
  unfold ruleOp
  rw [if_neg (by omega), if_pos (by omega)]

/-- **one pass through the loop body** with the block-based handler: the operation is the one the matrix rule chooses,
`h_offset` grows unless it is Ins, and the handler again carries the true values at the next cursor position, again a cell
of value `≤ k` -/
theorem iterL_spec (st : StoredL nb m k q lo D S rd) {i' j B b BL a : Nat} {h : LHandler w}
    (inv : LInvC nb m k q D S i' j B b BL a h) (hlo : ruleOp D i' j ≠ Op.ins → lo + 1 ≤ j) :
    (h.iter rd).1 = ruleOp D i' j ∧
    (h.iter rd).2.1 = (ruleOp D i' j != Op.ins) ∧
    LInvAny nb m k q D S (ruleNext D i' j).1 (ruleNext D i' j).2 (h.iter rd).2.2 := by
  have t1 := testL_subst st inv
  have t2 := testL_ins st inv
  obtain ⟨t3, t3f, t3t⟩ := mldib_spec st inv
  unfold LHandler.iter
  by_cases c1 : j ≥ 1 ∧ D i' (j - 1) + 1 = D (i' + 1) j
  · have hop : ruleOp D i' j = Op.sub := by unfold ruleOp; rw [if_pos c1]
    have hnx : ruleNext D i' j = (i', j - 1) := by unfold ruleNext; rw [hop]
    rw [if_pos (t1.mpr c1), hop, hnx]
    exact ⟨rfl, rfl, moveL_diag st inv (hlo (by rw [hop]; decide))⟩
  · rw [if_neg (fun hc => c1 (t1.mp hc))]
    by_cases c2 : D i' j + 1 = D (i' + 1) j
    · have hop : ruleOp D i' j = Op.ins := by unfold ruleOp; rw [if_neg c1, if_pos c2]
      have hnx : ruleNext D i' j = (i', j) := by unfold ruleNext; rw [hop]
      have t2' : ((h.block.pv &&& h.pos) != 0#w) = true := by rw [t2]; simp [c2]
      rw [if_pos t2', hop, hnx]
      exact ⟨rfl, rfl, moveL_ins st inv c2⟩
    · have t2' : ¬ (((h.block.pv &&& h.pos) != 0#w) = true) := by rw [t2]; simp [c2]
      rw [if_neg t2']
      by_cases c3 : j ≥ 1 ∧ D (i' + 1) (j - 1) + 1 = D i' (j - 1)
      · have hop : ruleOp D i' j = Op.del := by unfold ruleOp; rw [if_neg c1, if_neg c2, if_pos c3]
        have hnx : ruleNext D i' j = (i' + 1, j - 1) := by unfold ruleNext; rw [hop]
        have hflag : h.moveLeftDownIfBetter.1 = true := by rw [t3]; simp [c3]
        obtain ⟨blk, e, hpv, hmv, hdist⟩ := t3t hflag
        have hm : h.moveLeftDownIfBetter = (true, { h with leftBlock := blk }) := Prod.ext hflag e
        rw [hm, hop, hnx]
        exact ⟨rfl, rfl, moveL_del st inv (hlo (by rw [hop]; decide)) c3.2 blk hpv hmv hdist⟩
      · have hop : ruleOp D i' j = Op.mat := by unfold ruleOp; rw [if_neg c1, if_neg c2, if_neg c3]
        have hnx : ruleNext D i' j = (i', j - 1) := by unfold ruleNext; rw [hop]
        have hflag : h.moveLeftDownIfBetter.1 = false := by rw [t3]; simp [c3]
        have hm : h.moveLeftDownIfBetter = (false, h) := Prod.ext hflag (t3f hflag)
        rw [hm, hop, hnx]
        exact ⟨rfl, rfl, moveL_diag st inv (hlo (by rw [hop]; decide))⟩

end

end RbV.Model.MyersTracebackLong
