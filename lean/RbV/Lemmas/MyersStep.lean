import RbV.Model.MyersSimple
import RbV.Lemmas.UkkonenEq
/-!
The bit-vector step of Myers' algorithm (`Myers::_step`) computes the next Sellers column (C09 [C]).
Core Lean only (`BitVec` lemmas of core: `getLsbD_add`, `carry_succ`; no `bv_decide`).
-/
namespace RbV.Model.MyersSimple
open RbV.EditDist

/-! ### the addition trick: `xh` bit `i` = `eq` bit `i` or the carry, and the carry is `mh` of the row below -/

theorem xh_bit {w : Nat} (eq pv : BitVec w) (i : Nat) (hi : i < w) :
    ((((eq &&& pv) + pv) ^^^ pv) ||| eq).getLsbD i =
      (eq.getLsbD i || BitVec.carry i (eq &&& pv) pv false) := by
  rw [BitVec.getLsbD_or, BitVec.getLsbD_xor, BitVec.getLsbD_add hi, BitVec.getLsbD_and]
  cases eq.getLsbD i <;> cases pv.getLsbD i <;> cases BitVec.carry i (eq &&& pv) pv false <;> rfl

theorem carry_step {w : Nat} (eq pv : BitVec w) (i : Nat) :
    BitVec.carry (i + 1) (eq &&& pv) pv false =
      (pv.getLsbD i && (eq.getLsbD i || BitVec.carry i (eq &&& pv) pv false)) := by
  rw [BitVec.carry_succ, BitVec.getLsbD_and]
  cases eq.getLsbD i <;> cases pv.getLsbD i <;> cases BitVec.carry i (eq &&& pv) pv false <;> rfl

/-- `xh` and `mh = pv & xh` as a recursion over the rows: no arithmetic left -/
theorem xh_rec {w : Nat} (eq pv : BitVec w) (i : Nat) (hi : i < w) :
    (xhOf eq pv).getLsbD i =
      (eq.getLsbD i || (match i with
        | 0 => false
        | j + 1 => (pv.getLsbD j && (xhOf eq pv).getLsbD j))) := by
  unfold xhOf
  rw [xh_bit eq pv i hi]
  cases i with
  | zero => simp [BitVec.carry_zero]
  | succ j =>
    simp only
    rw [carry_step, xh_bit eq pv j (by omega)]

/-! ### columns and their encoding -/

/-- the next Sellers column (search mode: row 0 stays 0) from the column `C` and the match bits `e` -/
def nextC (C : Nat → Int) (e : Nat → Bool) : Nat → Int
  | 0 => 0
  | i + 1 => min (min (C (i + 1) + 1) (nextC C e i + 1)) (C i + (if e i then 0 else 1))

/-- `pv`/`mv` hold the vertical differences of the column `C` (rows `0..m`) -/
structure Enc {w : Nat} (m : Nat) (C : Nat → Int) (pv mv : BitVec w) : Prop where
  zero : C 0 = 0
  diff : ∀ i, i < m → -1 ≤ C (i + 1) - C i ∧ C (i + 1) - C i ≤ 1
  pvb : ∀ i, i < m → (pv.getLsbD i = true ↔ C (i + 1) - C i = 1)
  mvb : ∀ i, i < m → (mv.getLsbD i = true ↔ C (i + 1) - C i = -1)

/-- horizontal differences row by row: range, and the bits of `mh = pv & xh`, `ph = mv | !(xh | pv)` (before the
shift) -/
theorem horiz {w : Nat} (m : Nat) (hm : m ≤ w) (C : Nat → Int) (eq pv mv : BitVec w) (enc : Enc m C pv mv) :
    ∀ i, i < m →
      -1 ≤ nextC C eq.getLsbD (i + 1) - C (i + 1) ∧ nextC C eq.getLsbD (i + 1) - C (i + 1) ≤ 1 ∧
      ((pv.getLsbD i && (xhOf eq pv).getLsbD i) = true ↔ nextC C eq.getLsbD (i + 1) - C (i + 1) = -1) ∧
      ((mv.getLsbD i || !((xhOf eq pv).getLsbD i || pv.getLsbD i)) = true ↔
        nextC C eq.getLsbD (i + 1) - C (i + 1) = 1) := by
  intro i
  induction i with
  | zero =>
    intro hi
    have hd := enc.diff 0 hi
    have hp := enc.pvb 0 hi
    have hv := enc.mvb 0 hi
    have hz := enc.zero
    rw [xh_rec eq pv 0 (by omega)]
    simp only [nextC, Bool.or_false, Nat.zero_add] at hd hp hv ⊢
    cases he : eq.getLsbD 0 <;> cases hpv : pv.getLsbD 0 <;> cases hmv : mv.getLsbD 0 <;>
      simp [hpv, hmv] at hp hv ⊢ <;> omega
  | succ i ih =>
    intro hi
    obtain ⟨h1, h2, h3, _⟩ := ih (by omega)
    have hd := enc.diff (i + 1) hi
    have hp := enc.pvb (i + 1) hi
    have hv := enc.mvb (i + 1) hi
    rw [xh_rec eq pv (i + 1) (by omega)]
    simp only
    have hn : nextC C eq.getLsbD (i + 1 + 1) =
        min (min (C (i + 1 + 1) + 1) (nextC C eq.getLsbD (i + 1) + 1))
          (C (i + 1) + (if eq.getLsbD (i + 1) then 0 else 1)) := rfl
    rw [hn]
    cases he : eq.getLsbD (i + 1) <;> cases hpv : pv.getLsbD (i + 1) <;> cases hmv : mv.getLsbD (i + 1) <;>
      cases hc : (pv.getLsbD i && (xhOf eq pv).getLsbD i) <;>
      simp [hpv, hmv, hc] at hp hv h3 ⊢ <;> omega

/-- the same facts for the shifted words `ph << 1`, `mh << 1`: bit `i` describes the horizontal difference of row `i` -/
theorem horiz_shift {w : Nat} (m : Nat) (hm : m ≤ w) (C : Nat → Int) (eq pv mv : BitVec w) (enc : Enc m C pv mv) :
    ∀ i, i < m →
      -1 ≤ nextC C eq.getLsbD i - C i ∧ nextC C eq.getLsbD i - C i ≤ 1 ∧
      (((pv &&& xhOf eq pv) <<< 1).getLsbD i = true ↔ nextC C eq.getLsbD i - C i = -1) ∧
      (((mv ||| ~~~(xhOf eq pv ||| pv)) <<< 1).getLsbD i = true ↔ nextC C eq.getLsbD i - C i = 1) := by
  intro i hi
  rw [BitVec.getLsbD_shiftLeft, BitVec.getLsbD_shiftLeft]
  cases i with
  | zero =>
    have hz := enc.zero
    simp [nextC, hz]
  | succ j =>
    obtain ⟨h1, h2, h3, h4⟩ := horiz m hm C eq pv mv enc j (by omega)
    have hw : decide (j + 1 < w) = true := by simp; omega
    have hw' : decide (j < w) = true := by simp; omega
    have h1' : decide (j + 1 < 1) = false := by simp
    simp only [hw, h1', Nat.add_sub_cancel, Bool.not_false, Bool.and_true, Bool.true_and,
      BitVec.getLsbD_and, BitVec.getLsbD_or, BitVec.getLsbD_not, hw']
    exact ⟨h1, h2, h3, h4⟩

/-- **Myers' step lemma** (single word): if `pv`/`mv` encode the Sellers column `C` and `dist = C m`, then after
`_step` they encode the next column and `dist` is its last entry -/
theorem step_enc {w : Nat} (m : Nat) (hm1 : 1 ≤ m) (hm : m ≤ w) (C : Nat → Int) (eq : BitVec w) (s : St w)
    (enc : Enc m C s.pv s.mv) (hd : (s.dist : Int) = C m) (hnn : 0 ≤ nextC C eq.getLsbD m) :
    Enc m (nextC C eq.getLsbD) (step m eq s).pv (step m eq s).mv ∧
    ((step m eq s).dist : Int) = nextC C eq.getLsbD m := by
  have newbits : ∀ i, i < m →
      (-1 ≤ nextC C eq.getLsbD (i + 1) - nextC C eq.getLsbD i ∧ nextC C eq.getLsbD (i + 1) - nextC C eq.getLsbD i ≤ 1) ∧
      ((step m eq s).pv.getLsbD i = true ↔ nextC C eq.getLsbD (i + 1) - nextC C eq.getLsbD i = 1) ∧
      ((step m eq s).mv.getLsbD i = true ↔ nextC C eq.getLsbD (i + 1) - nextC C eq.getLsbD i = -1) := by
    intro i hi
    obtain ⟨a1, a2, a3, a4⟩ := horiz_shift m hm C eq s.pv s.mv enc i hi
    obtain ⟨b1, b2, _, _⟩ := horiz m hm C eq s.pv s.mv enc i hi
    have hdf := enc.diff i hi
    have hp := enc.pvb i hi
    have hv := enc.mvb i hi
    have hw : decide (i < w) = true := by simp; omega
    have hn : nextC C eq.getLsbD (i + 1) =
        min (min (C (i + 1) + 1) (nextC C eq.getLsbD i + 1)) (C i + (if eq.getLsbD i then 0 else 1)) := rfl
    simp only [step, BitVec.getLsbD_or, BitVec.getLsbD_and, BitVec.getLsbD_not, hw, Bool.true_and]
    rw [hn] at b1 b2 ⊢
    cases he : eq.getLsbD i <;> cases hpv : s.pv.getLsbD i <;> cases hmv : s.mv.getLsbD i <;>
      cases hMH : ((s.pv &&& xhOf eq s.pv) <<< 1).getLsbD i <;>
      cases hPH : ((s.mv ||| ~~~(xhOf eq s.pv ||| s.pv)) <<< 1).getLsbD i <;>
      simp [he, hpv, hmv, hMH, hPH] at hp hv a3 a4 b1 b2 ⊢ <;> omega
  refine ⟨⟨rfl, fun i hi => (newbits i hi).1, fun i hi => (newbits i hi).2.1, fun i hi => (newbits i hi).2.2⟩, ?_⟩
  obtain ⟨c1, c2, c3, c4⟩ := horiz m hm C eq s.pv s.mv enc (m - 1) (by omega)
  have em : m - 1 + 1 = m := by omega
  rw [em] at c1 c2 c3 c4
  have hw : decide (m - 1 < w) = true := by simp; omega
  simp only [step, BitVec.getLsbD_or, BitVec.getLsbD_and, BitVec.getLsbD_not, hw, Bool.true_and]
  cases hb1 : s.pv.getLsbD (m - 1) <;> cases hb2 : (xhOf eq s.pv).getLsbD (m - 1) <;>
    cases hb3 : s.mv.getLsbD (m - 1) <;>
    simp [hb1, hb2, hb3] at c3 c4 ⊢ <;> omega

/-! ### from the step lemma to the whole search -/

open RbV.Model.Ukkonen (cell cell_zero cell_nil cell_succ expFrom expFrom_eq_hitsFrom)

theorem ofBoolListLE'_bit (w : Nat) : ∀ (l : List Bool) (i : Nat), i < w →
    (peq.BitVec.ofBoolListLE' w l).getLsbD i = l[i]?.getD false := by
  intro l
  induction l with
  | nil => intro i _; simp [peq.BitVec.ofBoolListLE']
  | cons b bs ih =>
    intro i hi
    simp only [peq.BitVec.ofBoolListLE', BitVec.getLsbD_or, BitVec.getLsbD_shiftLeft]
    cases i with
    | zero =>
      cases b <;> simp
      all_goals omega
    | succ j =>
      have := ih j (by omega)
      have hw : decide (j + 1 < w) = true := by simp; omega
      cases b <;> simp [hw, this]

theorem peq_bit (w : Nat) (eqv : Nat → Nat → Bool) (p : List Nat) (a i : Nat) (hi : i < p.length) (hw : p.length ≤ w) :
    (peq w eqv p a).getLsbD i = eqv p[i] a := by
  unfold peq
  rw [ofBoolListLE'_bit w _ i (by omega)]
  simp [hi]

theorem Enc.congr {w : Nat} {m : Nat} {C C' : Nat → Int} {pv mv : BitVec w}
    (h : ∀ i, i ≤ m → C i = C' i) (enc : Enc m C pv mv) : Enc m C' pv mv := by
  refine ⟨by rw [← h 0 (by omega)]; exact enc.zero, ?_, ?_, ?_⟩
  · intro i hi; rw [← h (i + 1) (by omega), ← h i (by omega)]; exact enc.diff i hi
  · intro i hi; rw [← h (i + 1) (by omega), ← h i (by omega)]; exact enc.pvb i hi
  · intro i hi; rw [← h (i + 1) (by omega), ← h i (by omega)]; exact enc.mvb i hi

/-- the column recursion on the true cells -/
theorem nextC_cell (eqv : Nat → Nat → Bool) (p u : List Nat) (c : Nat) (e : Nat → Bool)
    (he : ∀ i, (hi : i < p.length) → e i = eqv p[i] c) :
    ∀ i, i ≤ p.length →
      nextC (fun i => (cell (unitW eqv) p u i : Int)) e i = (cell (unitW eqv) p (u ++ [c]) i : Int) := by
  intro i
  induction i with
  | zero => intro _; simp [nextC, cell_zero]
  | succ i ih =>
    intro hi
    have hlt : i < p.length := by omega
    simp only [nextC]
    rw [ih (by omega), cell_succ (unitW eqv) p u c i hlt, he i hlt]
    unfold unitW
    cases eqv p[i] c <;> simp <;> omega

/-- the state after the text prefix `u` -/
structure Inv {w : Nat} (eqv : Nat → Nat → Bool) (p u : List Nat) (s : St w) : Prop where
  enc : Enc p.length (fun i => (cell (unitW eqv) p u i : Int)) s.pv s.mv
  dist : s.dist = cell (unitW eqv) p u p.length

theorem inv_init (w : Nat) (eqv : Nat → Nat → Bool) (p : List Nat) (hw : p.length ≤ w) :
    Inv eqv p [] (init w p.length) := by
  refine ⟨⟨by simp [cell_zero], ?_, ?_, ?_⟩, by simp [init, cell_nil]⟩
  · intro i hi
    simp only [cell_nil (unitW eqv) p i (by omega), cell_nil (unitW eqv) p (i + 1) (by omega)]
    omega
  · intro i hi
    simp only [cell_nil (unitW eqv) p i (by omega), cell_nil (unitW eqv) p (i + 1) (by omega), init]
    have : i < w := by omega
    simp [this]; omega
  · intro i hi
    simp only [cell_nil (unitW eqv) p i (by omega), cell_nil (unitW eqv) p (i + 1) (by omega), init]
    simp; omega

theorem inv_step {w : Nat} (eqv : Nat → Nat → Bool) (p u : List Nat) (c : Nat) (s : St w)
    (hm1 : 1 ≤ p.length) (hw : p.length ≤ w) (inv : Inv eqv p u s) :
    Inv eqv p (u ++ [c]) (step p.length (peq w eqv p c) s) := by
  have hcell := nextC_cell eqv p u c (peq w eqv p c).getLsbD (fun i hi => peq_bit w eqv p c i hi hw)
  have hd : (s.dist : Int) = (fun i => (cell (unitW eqv) p u i : Int)) p.length := by simp [inv.dist]
  have hnn : 0 ≤ nextC (fun i => (cell (unitW eqv) p u i : Int)) (peq w eqv p c).getLsbD p.length := by
    rw [hcell p.length (Nat.le_refl _)]; omega
  obtain ⟨e1, e2⟩ := step_enc p.length hm1 hw _ (peq w eqv p c) s inv.enc hd hnn
  refine ⟨Enc.congr hcell e1, ?_⟩
  rw [hcell p.length (Nat.le_refl _)] at e2
  exact Int.ofNat_inj.mp e2

theorem run_eq_expFrom {w : Nat} (eqv : Nat → Nat → Bool) (p : List Nat) (k : Nat)
    (hm1 : 1 ≤ p.length) (hw : p.length ≤ w) :
    ∀ (t u : List Nat) (s : St w), Inv eqv p u s →
      run eqv p k s u.length t = expFrom (unitW eqv) p k u t := by
  intro t
  induction t with
  | nil => intro u s _; simp [run, expFrom]
  | cons c t ih =>
    intro u s inv
    have inv' := inv_step eqv p u c s hm1 hw inv
    have ih' := ih (u ++ [c]) _ inv'
    simp only [List.length_append, List.length_cons, List.length_nil] at ih'
    simp only [run, expFrom, inv'.dist, ih']

/-- **Myers, single word**: for a pattern of 1 … w symbols the mirror model of `Myers<T>::find_all_end` (bit-vector
step `_step` on `w`-bit words) reports exactly the pairs (end, d), d ≤ k, of the Sellers column — for every symbol
equivalence (ambiguity/wildcard tables), text and k -/
theorem findAllEnd_eq_hits (w : Nat) (eqv : Nat → Nat → Bool) (p t : List Nat) (k : Nat)
    (hm1 : 1 ≤ p.length) (hw : p.length ≤ w) :
    findAllEnd w eqv p t k = hits (unitW eqv) p t k := by
  unfold findAllEnd hits
  have := run_eq_expFrom eqv p k hm1 hw t [] (init w p.length) (inv_init w eqv p hw)
  simp only [List.length_nil] at this
  rw [this, expFrom_eq_hitsFrom]
  simp

end RbV.Model.MyersSimple
