import RbV.Lemmas.SaisBasic
/-
Texts accepted by `Sais::construct` (`Valid`: non-empty, the last symbol is the unique minimum, dense alphabet),
L/S types as computed by `PosTypes::new` (local rules only), and the buckets: `init_bucket_start` /
`init_bucket_end` are the prefix sums of the symbol counts (C03 (c)).
-/
namespace RbV.Sais
open RbV

/-- symbol at position `p` -/
def sym (t : List Nat) (p : Nat) : Nat := t.getD p 0

/-- number of symbols below `c` = start of bucket `c` -/
def cntLt (t : List Nat) (c : Nat) : Nat := t.countP (fun x => decide (x < c))

/-- 1 + largest symbol (0 for the empty text) = number of buckets -/
def maxSucc (l : List Nat) : Nat := l.foldl (fun acc x => max acc (x + 1)) 0

/-- what `Sais::construct` expects of its text -/
structure Valid (t : List Nat) : Prop where
  pos : 0 < t.length
  lastMin : ∀ i, i + 1 < t.length → sym t (t.length - 1) < sym t i
  dense : ∀ c x, x ∈ t → c ≤ x → c ∈ t

/-! ### maxSucc, counts -/

theorem maxSucc_append (l : List Nat) (a : Nat) : maxSucc (l ++ [a]) = max (maxSucc l) (a + 1) := by
  simp [maxSucc, List.foldl_append]

theorem foldl_maxSucc_ge (l : List Nat) (b : Nat) : b ≤ l.foldl (fun acc x => max acc (x + 1)) b := by
  induction l generalizing b with
  | nil => simp
  | cons a l ih => simp only [List.foldl_cons]; have := ih (max b (a + 1)); omega

theorem foldl_maxSucc_mem (l : List Nat) (b : Nat) (x : Nat) (hx : x ∈ l) :
    x < l.foldl (fun acc x => max acc (x + 1)) b := by
  induction l generalizing b with
  | nil => simp at hx
  | cons a l ih =>
    simp only [List.foldl_cons]
    rcases List.mem_cons.mp hx with rfl | h
    · have := foldl_maxSucc_ge l (max b (x + 1)); omega
    · exact ih _ h

theorem lt_maxSucc_of_mem (l : List Nat) (x : Nat) (hx : x ∈ l) : x < maxSucc l := foldl_maxSucc_mem l 0 x hx

theorem foldl_maxSucc_witness (l : List Nat) (b : Nat) :
    l.foldl (fun acc x => max acc (x + 1)) b = b ∨ ∃ x ∈ l, l.foldl (fun acc x => max acc (x + 1)) b = x + 1 := by
  induction l generalizing b with
  | nil => left; rfl
  | cons a l ih =>
    simp only [List.foldl_cons]
    rcases ih (max b (a + 1)) with h | ⟨x, hx, h⟩
    · rw [h]
      by_cases hb : a + 1 ≤ b
      · left; omega
      · right; exact ⟨a, by simp, by omega⟩
    · right; exact ⟨x, by simp [hx], h⟩

theorem maxSucc_witness (l : List Nat) (hne : l ≠ []) : ∃ x ∈ l, maxSucc l = x + 1 := by
  rcases foldl_maxSucc_witness l 0 with h | h
  · cases l with
    | nil => exact absurd rfl hne
    | cons a l =>
      have := lt_maxSucc_of_mem (a :: l) a (by simp)
      unfold maxSucc at this; omega
  · exact h

theorem count_eq_zero_of_ge (l : List Nat) (c : Nat) (h : maxSucc l ≤ c) : l.count c = 0 := by
  apply List.count_eq_zero_of_not_mem
  intro hm
  have := lt_maxSucc_of_mem l c hm
  omega

theorem cntLt_succ (t : List Nat) (c : Nat) : cntLt t (c + 1) = cntLt t c + t.count c := by
  unfold cntLt
  induction t with
  | nil => simp
  | cons a l ih =>
    simp only [List.countP_cons, List.count_cons, ih]
    by_cases h1 : a < c
    · have : a < c + 1 := by omega
      have h3 : ¬ (a = c) := by omega
      simp [h1, this, h3]; omega
    · by_cases h2 : a = c
      · subst h2; simp; omega
      · have : ¬ (a < c + 1) := by omega
        simp [h1, this, h2]

theorem cntLt_zero (t : List Nat) : cntLt t 0 = 0 := by
  unfold cntLt; simp

theorem cntLt_mono (t : List Nat) (a b : Nat) (h : a ≤ b) : cntLt t a ≤ cntLt t b := by
  induction b with
  | zero => have : a = 0 := by omega
            subst this; exact Nat.le_refl _
  | succ b ih =>
    by_cases hab : a = b + 1
    · subst hab; exact Nat.le_refl _
    · have := ih (by omega)
      rw [cntLt_succ]; omega

theorem cntLt_maxSucc (t : List Nat) (c : Nat) (h : maxSucc t ≤ c) : cntLt t c = t.length := by
  unfold cntLt
  rw [List.countP_eq_length]
  intro x hx
  have := lt_maxSucc_of_mem t x hx
  simp; omega

/-! ### the `VecMap` of bucket sizes -/

/-- entry of the `VecMap` for key `c` -/
def cOpt (l : List Nat) (c : Nat) : Option Nat := if l.count c = 0 then none else some (l.count c)

/-- `m` is the `VecMap` of the counts of `l` -/
def Rep (m : List (Option Nat)) (l : List Nat) : Prop :=
  m.length = maxSucc l ∧ ∀ c, c < m.length → m[c]? = some (cOpt l c)

theorem rep_step (m : List (Option Nat)) (l : List Nat) (a : Nat) (h : Rep m l) : Rep (vmIncr m a) (l ++ [a]) := by
  obtain ⟨hlen, hent⟩ := h
  -- the padded map
  have hpad : ∀ m' : List (Option Nat),
      m' = (if a < m.length then m else m ++ List.replicate (a + 1 - m.length) none) →
      m'.length = max (maxSucc l) (a + 1) ∧ ∀ c, c < m'.length → m'[c]? = some (cOpt l c) := by
    intro m' hm'
    by_cases ha : a < m.length
    · rw [if_pos ha] at hm'; subst hm'
      exact ⟨by omega, hent⟩
    · rw [if_neg ha] at hm'; subst hm'
      refine ⟨by simp; omega, ?_⟩
      intro c hc
      by_cases hcm : c < m.length
      · rw [List.getElem?_append_left hcm]; exact hent c hcm
      · rw [List.getElem?_append_right (by omega)]
        simp only [List.length_append, List.length_replicate] at hc
        rw [List.getElem?_replicate, if_pos (by omega)]
        unfold cOpt
        rw [count_eq_zero_of_ge l c (by omega)]; simp
  unfold vmIncr
  obtain ⟨hl', he'⟩ := hpad _ rfl
  generalize (if a < m.length then m else m ++ List.replicate (a + 1 - m.length) none) = m' at hl' he' ⊢
  have ha' : a < m'.length := by omega
  have hga : m'.getD a none = cOpt l a := by
    rw [List.getD_eq_getElem?_getD, he' a ha']; rfl
  have key : ∀ v : Nat, v = l.count a + 1 → Rep (m'.set a (some v)) (l ++ [a]) := by
    intro v hv
    refine ⟨by rw [List.length_set, maxSucc_append]; exact hl', ?_⟩
    intro c hc
    rw [List.length_set] at hc
    rw [List.getElem?_set]
    by_cases hac : a = c
    · subst hac
      rw [if_pos rfl, if_pos ha']
      unfold cOpt
      simp [List.count_append, hv]
    · rw [if_neg hac, he' c hc]
      unfold cOpt
      have : (l ++ [a]).count c = l.count c := by
        rw [List.count_append]; simp [hac]
      rw [this]
  dsimp only
  rw [hga]
  unfold cOpt
  by_cases h0 : l.count a = 0
  · rw [if_pos h0]; exact key 1 (by omega)
  · rw [if_neg h0]; exact key _ rfl

theorem rep_foldl (t : List Nat) (m : List (Option Nat)) (l : List Nat) (h : Rep m l) :
    Rep (t.foldl vmIncr m) (l ++ t) := by
  induction t generalizing m l with
  | nil => simpa using h
  | cons a t ih =>
    simp only [List.foldl_cons]
    have := ih (vmIncr m a) (l ++ [a]) (rep_step m l a h)
    simpa using this

theorem rep_bucketSizes (t : List Nat) : Rep (bucketSizes t) t := by
  have := rep_foldl t [] [] ⟨rfl, by simp⟩
  simpa [bucketSizes] using this

theorem bucketSizes_eq (t : List Nat) : bucketSizes t = (List.range (maxSucc t)).map (cOpt t) := by
  obtain ⟨hl, he⟩ := rep_bucketSizes t
  apply List.ext_getElem?
  intro i
  by_cases hi : i < (bucketSizes t).length
  · rw [he i hi, List.getElem?_map, List.getElem?_range (by omega)]; rfl
  · rw [List.getElem?_eq_none (by omega), List.getElem?_eq_none (by simp; omega)]

theorem filterMap_eq_map_of_some {α β : Type} (f : α → Option β) (g : α → β) (l : List α)
    (h : ∀ c ∈ l, f c = some (g c)) : l.filterMap f = l.map g := by
  induction l with
  | nil => rfl
  | cons a l ih =>
    rw [List.filterMap_cons, h a (by simp), List.map_cons, ih (fun c hc => h c (by simp [hc]))]

/-- for a dense text every key is present: `values()` = the counts of `0..K` -/
theorem bucketSizes_values (t : List Nat) (hd : ∀ c x, x ∈ t → c ≤ x → c ∈ t) :
    (bucketSizes t).filterMap id = (List.range (maxSucc t)).map (fun c => t.count c) := by
  rw [bucketSizes_eq, List.filterMap_map]
  by_cases hne : t = []
  · subst hne; simp [maxSucc]
  · obtain ⟨x, hx, hm⟩ := maxSucc_witness t hne
    apply filterMap_eq_map_of_some
    intro c hc
    rw [List.mem_range] at hc
    have hcm : c ∈ t := hd c x hx (by omega)
    have : t.count c ≠ 0 := by
      intro h0
      exact (List.count_eq_zero.mp h0) hcm
    simp [cOpt, this]

theorem prefixSums_counts (t : List Nat) (a k : Nat) :
    prefixSums ((List.range' a k).map (fun c => t.count c)) (cntLt t a) = (List.range' a k).map (cntLt t) := by
  induction k generalizing a with
  | zero => simp [prefixSums]
  | succ k ih =>
    rw [List.range'_succ]
    simp only [List.map_cons, prefixSums]
    rw [← cntLt_succ, ih (a + 1)]

/-- **`init_bucket_start`** (C03 (c)): for a dense text, `bucket_start[c]` = number of symbols below `c` -/
theorem initBucketStart_eq (t : List Nat) (hd : ∀ c x, x ∈ t → c ≤ x → c ∈ t) :
    initBucketStart t = (List.range (maxSucc t)).map (cntLt t) := by
  unfold initBucketStart
  rw [bucketSizes_values t hd]
  have := prefixSums_counts t 0 (maxSucc t)
  rw [cntLt_zero] at this
  simpa [List.range_eq_range'] using this

/-- **`init_bucket_end`** (C03 (c)): `bucket_end[c]` = (number of symbols ≤ `c`) − 1 -/
theorem initBucketEnd_eq (t : List Nat) (hne : t ≠ []) (hd : ∀ c x, x ∈ t → c ≤ x → c ∈ t) :
    initBucketEnd (initBucketStart t) t.length = (List.range (maxSucc t)).map (fun c => cntLt t (c + 1) - 1) := by
  rw [initBucketStart_eq t hd]
  unfold initBucketEnd
  obtain ⟨x, hx, hm⟩ := maxSucc_witness t hne
  apply List.ext_getElem?
  intro i
  have hK : cntLt t (maxSucc t) = t.length := cntLt_maxSucc t _ (Nat.le_refl _)
  by_cases hi : i + 1 < maxSucc t
  · rw [List.getElem?_append_left (by simp; omega)]
    simp only [List.getElem?_map, List.getElem?_drop]
    rw [List.getElem?_range (by omega), List.getElem?_range (by omega)]
    simp [Nat.add_comm]
  · by_cases hi2 : i + 1 = maxSucc t
    · rw [List.getElem?_append_right (by simp; omega)]
      have : i - ((List.range (maxSucc t)).map (cntLt t) |>.drop 1 |>.map (· - 1)).length = 0 := by simp; omega
      rw [this]
      simp only [List.getElem?_map]
      rw [List.getElem?_range (by omega)]
      simp [hi2, hK]
    · rw [List.getElem?_eq_none (by simp; omega), List.getElem?_eq_none (by simp; omega)]

end RbV.Sais
