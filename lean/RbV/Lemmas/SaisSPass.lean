import RbV.Lemmas.SaisInduceSpec
/-
The S pass of induced sorting (`sStep`, scanned right to left by `forDown`): loop invariant `SInv` with a ghost
function `w` (`w c` = number of S-type positions already written into bucket `c`), the "scan-ahead" lemma (the entry
read next is always final), and the final theorem `sPass_spec`.
-/
namespace RbV.Sais
open RbV

/-! ### symbol 0 (the final sentinel) -/

theorem Lset_zero {t : List Nat} (hv : Valid t) : Lset t 0 = [] := by
  rw [List.eq_nil_iff_forall_not_mem]
  intro p hp
  rw [mem_Lset] at hp
  obtain ⟨hp1, hp2, hp3⟩ := hp
  have h1 := lt_of_isL hv p hp1 hp3
  have h2 := hv.lastMin p h1
  omega

theorem mem_Sset_zero {t : List Nat} (hv : Valid t) (p : Nat) : p ∈ Sset t 0 ↔ p = t.length - 1 := by
  rw [mem_Sset]
  constructor
  · rintro ⟨h1, h2, _⟩
    apply Classical.byContradiction
    intro hne
    have := hv.lastMin p (by omega)
    omega
  · intro h
    subst h
    exact ⟨by have := hv.pos; omega, sym_last_zero hv, isS_last t hv.pos⟩

theorem length_Sset_zero {t : List Nat} (hv : Valid t) : (Sset t 0).length = 1 := by
  have h1 : (Sset t 0).length ≤ [t.length - 1].length :=
    nodup_subset_length_le _ _ (nodup_Sset t 0) (fun x hx => by rw [mem_Sset_zero hv] at hx; simp [hx])
  have h2 : 0 < (Sset t 0).length := List.length_pos_of_mem ((mem_Sset_zero hv _).mpr rfl)
  simp only [List.length_cons, List.length_nil] at h1
  omega

theorem cntLt_one {t : List Nat} (hv : Valid t) : cntLt t 1 = 1 := by
  have := cntLt_succ_split t 0
  rw [cntLt_zero, Lset_zero hv, length_Sset_zero hv] at this
  simpa using this

/-- a position that is not the last one has a non-zero symbol -/
theorem sym_ne_zero {t : List Nat} (hv : Valid t) (p : Nat) (hp : p + 1 < t.length) : sym t p ≠ 0 := by
  have := sym_ne_last hv p hp
  rw [sym_last_zero hv] at this
  exact this

/-- a position with a non-zero symbol has a successor -/
theorem succ_lt_of_sym_ne_zero {t : List Nat} (hv : Valid t) (p : Nat) (hp : p < t.length) (h : sym t p ≠ 0) :
    p + 1 < t.length := by
  apply Classical.byContradiction
  intro hc
  have : p = t.length - 1 := by omega
  rw [this, sym_last_zero hv] at h
  exact h rfl

/-! ### pigeonhole with absolute indices -/

theorem seg_count_le (f : Nat → Nat) (a k : Nat) (M : List Nat) (hnd : M.Nodup)
    (hall : ∀ x, x ∈ M → ∃ j, a ≤ j ∧ j < a + k ∧ f j = x) : M.length ≤ k := by
  have h := nodup_subset_length_le M (slice f a k) hnd (fun x hx => by
    obtain ⟨j, hj1, hj2, hj3⟩ := hall x hx
    rw [mem_slice]
    refine ⟨j - a, by omega, ?_⟩
    have e : a + (j - a) = j := by omega
    rw [e]; exact hj3)
  simpa [slice] using h

theorem seg_surj (f : Nat → Nat) (a k : Nat) (M : List Nat)
    (hin : ∀ j, a ≤ j → j < a + k → f j ∈ M)
    (hinj : ∀ i j, a ≤ i → i < j → j < a + k → f i ≠ f j) (hk : M.length ≤ k) :
    ∀ x, x ∈ M → ∃ j, a ≤ j ∧ j < a + k ∧ f j = x := by
  intro x hx
  obtain ⟨i, hi, he⟩ := inj_surj f a k M (fun i hi => hin (a + i) (by omega) (by omega))
    (fun i j hij hj => hinj (a + i) (a + j) (by omega) (by omega) (by omega)) hk x hx
  exact ⟨a + i, by omega, by omega, he⟩

/-! ### the invariant -/

/-- index `i` is final: it lies in an L-area or in the already written part of an S-area -/
def SValid (t : List Nat) (w : Nat → Nat) (i : Nat) : Prop :=
  ∃ c, c < maxSucc t ∧ inBkt t c i ∧ (i < cntLt t c + (Lset t c).length ∨ cntLt t (c + 1) ≤ i + w c)

/-- invariant of the S pass before the iteration with scan index `r - 1` -/
structure SInv (t : List Nat) (R : Nat → Nat → Prop) (r : Nat) (pos be : List Nat) (w : Nat → Nat) : Prop where
  lenP : pos.length = t.length
  lenB : be.length = maxSucc t
  w0 : w 0 = 1
  wle : ∀ c, c < maxSucc t → w c ≤ (Sset t c).length
  bev : ∀ c, c < maxSucc t → w c < (Sset t c).length → be.getD c 0 = cntLt t (c + 1) - 1 - w c
  larea : ∀ c, c < maxSucc t → ∀ i, cntLt t c ≤ i → i < cntLt t c + (Lset t c).length → pos.getD i 0 ∈ Lset t c
  sarea : ∀ c, c < maxSucc t → ∀ i, i < cntLt t (c + 1) → cntLt t (c + 1) ≤ i + w c → pos.getD i 0 ∈ Sset t c
  inj : ∀ i j, i < j → SValid t w i → SValid t w j → pos.getD i 0 ≠ pos.getD j 0
  sorted : ∀ i j, i < j → SValid t w i → SValid t w j → R (pos.getD i 0) (pos.getD j 0)
  fin : ∀ i, r ≤ i → i < t.length → SValid t w i
  prog : ∀ x, x + 1 < t.length → isS (tyOf t) x = true → ∀ i, r ≤ i → i < t.length → pos.getD i 0 = x + 1 →
    ∃ j, SValid t w j ∧ pos.getD j 0 = x
  hist : ∀ c, c < maxSucc t → ∀ j, j < cntLt t (c + 1) → cntLt t (c + 1) ≤ j + w c → pos.getD j 0 + 1 < t.length →
    ∃ i, r ≤ i ∧ i < t.length ∧ pos.getD i 0 = pos.getD j 0 + 1

section inv
variable {t : List Nat} {R : Nat → Nat → Prop} {r k : Nat} {pos be : List Nat} {w : Nat → Nat}

theorem SValid.lt (h : SValid t w i) : i < t.length := by
  obtain ⟨c, _, hb, _⟩ := h
  exact inBkt_lt_length t c i hb

theorem valid_cases (inv : SInv t R r pos be w) {i : Nat} (h : SValid t w i) :
    ∃ c, c < maxSucc t ∧ inBkt t c i ∧
      ((i < cntLt t c + (Lset t c).length ∧ pos.getD i 0 ∈ Lset t c) ∨
       (cntLt t (c + 1) ≤ i + w c ∧ pos.getD i 0 ∈ Sset t c)) := by
  obtain ⟨c, hc, hb, h | h⟩ := h
  · exact ⟨c, hc, hb, Or.inl ⟨h, inv.larea c hc i hb.1 h⟩⟩
  · exact ⟨c, hc, hb, Or.inr ⟨h, inv.sarea c hc i hb.2 h⟩⟩

/-- a final entry is a position whose symbol is the bucket of its index -/
theorem valid_sym (inv : SInv t R r pos be w) {i c : Nat} (h : SValid t w i) (hb : inBkt t c i) :
    pos.getD i 0 < t.length ∧ sym t (pos.getD i 0) = c := by
  obtain ⟨d, hd, hb', h⟩ := valid_cases inv h
  have : d = c := bkt_unique t d c i hb' hb
  subst this
  rcases h with ⟨_, h⟩ | ⟨_, h⟩
  · rw [mem_Lset] at h; exact ⟨h.1, h.2.1⟩
  · rw [mem_Sset] at h; exact ⟨h.1, h.2.1⟩

/-- a final entry that is S-type sits in the written part of the S-area of its bucket -/
theorem valid_S_pos (inv : SInv t R r pos be w) {j x c : Nat} (h : SValid t w j) (hx : pos.getD j 0 = x)
    (hc : sym t x = c) (hS : isS (tyOf t) x = true) :
    c < maxSucc t ∧ j < cntLt t (c + 1) ∧ cntLt t (c + 1) ≤ j + w c := by
  obtain ⟨d, hd, hb, h⟩ := valid_cases inv h
  rw [hx] at h
  rcases h with ⟨_, h⟩ | ⟨h1, h⟩
  · rw [mem_Lset] at h
    rw [h.2.2] at hS; cases hS
  · rw [mem_Sset] at h
    have : d = c := by rw [← h.2.1, hc]
    subst this
    exact ⟨hd, hb.2, h1⟩

theorem sarea_inBkt (inv : SInv t R r pos be w) {c i : Nat} (hc : c < maxSucc t) (h1 : i < cntLt t (c + 1))
    (h2 : cntLt t (c + 1) ≤ i + w c) : inBkt t c i ∧ cntLt t c + (Lset t c).length ≤ i := by
  have := inv.wle c hc
  have := cntLt_succ_split t c
  unfold inBkt
  omega

theorem written_valid (inv : SInv t R r pos be w) {c i : Nat} (hc : c < maxSucc t) (h1 : i < cntLt t (c + 1))
    (h2 : cntLt t (c + 1) ≤ i + w c) : SValid t w i :=
  ⟨c, hc, (sarea_inBkt inv hc h1 h2).1, Or.inr h2⟩

/-- a bucket that lies completely right of the scan position holds every position with its symbol -/
theorem full_bucket (inv : SInv t R r pos be w) (d : Nat) (hd : d < maxSucc t) (hr : r ≤ cntLt t d)
    (y : Nat) (hy : y < t.length) (hs : sym t y = d) :
    ∃ i, cntLt t d ≤ i ∧ i < cntLt t (d + 1) ∧ pos.getD i 0 = y := by
  have hsplit := cntLt_succ_split t d
  have hle := cntLt_le_length t (d + 1)
  have hfin : ∀ j, cntLt t d ≤ j → j < cntLt t d + ((Lset t d).length + (Sset t d).length) → SValid t w j :=
    fun j h1 h2 => inv.fin j (by omega) (by omega)
  have hin : ∀ j, cntLt t d ≤ j → j < cntLt t d + ((Lset t d).length + (Sset t d).length) →
      pos.getD j 0 ∈ Lset t d ++ Sset t d := by
    intro j h1 h2
    obtain ⟨c, hc, hb, h⟩ := valid_cases inv (hfin j h1 h2)
    have : c = d := bkt_unique t c d _ hb ⟨by omega, by omega⟩
    subst this
    rw [List.mem_append]
    rcases h with h | h
    · exact Or.inl h.2
    · exact Or.inr h.2
  have hy' : y ∈ Lset t d ++ Sset t d := by
    rw [List.mem_append, mem_Lset, mem_Sset]
    cases hS : isS (tyOf t) y
    · exact Or.inl ⟨hy, hs, rfl⟩
    · exact Or.inr ⟨hy, hs, rfl⟩
  obtain ⟨i, hi1, hi2, hi3⟩ := seg_surj (fun i => pos.getD i 0) (cntLt t d) ((Lset t d).length + (Sset t d).length)
    (Lset t d ++ Sset t d) hin
    (fun i j hi hij hj => inv.inj i j hij (hfin i hi (by omega)) (hfin j (by omega) hj))
    (by rw [List.length_append]; exact Nat.le_refl _) y hy'
  exact ⟨i, hi1, by omega, hi3⟩

/-- if all written S-entries of bucket `c` lie right of the scan position, then every S-type position with symbol
`c` is written (induction along the text) -/
theorem all_written (hv : Valid t) (inv : SInv t R r pos be w) (c : Nat) (_hc : c < maxSucc t) (c0 : c ≠ 0)
    (hr : r + w c ≤ cntLt t (c + 1)) :
    ∀ m x, t.length - x ≤ m → x ∈ Sset t c →
      ∃ j, j < cntLt t (c + 1) ∧ cntLt t (c + 1) ≤ j + w c ∧ pos.getD j 0 = x := by
  intro m
  induction m with
  | zero =>
    intro x hm hx
    rw [mem_Sset] at hx
    omega
  | succ m ih =>
    intro x hm hx
    rw [mem_Sset] at hx
    obtain ⟨hx1, hx2, hx3⟩ := hx
    have hx4 : x + 1 < t.length := succ_lt_of_sym_ne_zero hv x hx1 (by rw [hx2]; exact c0)
    have hle := sym_le_of_isS x hx4 hx3
    have hfin : ∀ i, r ≤ i → i < t.length → pos.getD i 0 = x + 1 →
        ∃ j, j < cntLt t (c + 1) ∧ cntLt t (c + 1) ≤ j + w c ∧ pos.getD j 0 = x := by
      intro i hi1 hi2 hi3
      obtain ⟨j, hj, hjx⟩ := inv.prog x hx4 hx3 i hi1 hi2 hi3
      have := valid_S_pos inv hj hjx hx2 hx3
      exact ⟨j, this.2.1, this.2.2, hjx⟩
    by_cases heq : sym t (x + 1) = c
    · have hS1 : isS (tyOf t) (x + 1) = true := by
        rw [← isS_of_eq x hx4 (by omega)]; exact hx3
      obtain ⟨j', h1, h2, h3⟩ := ih (x + 1) (by omega) ((mem_Sset t c (x + 1)).mpr ⟨hx4, heq, hS1⟩)
      have := cntLt_le_length t (c + 1)
      exact hfin j' (by omega) (by omega) h3
    · have hdK : sym t (x + 1) < maxSucc t := sym_lt_maxSucc (x + 1) hx4
      have hmono := cntLt_mono t (c + 1) (sym t (x + 1)) (by omega)
      obtain ⟨i, hi1, hi2, hi3⟩ := full_bucket inv (sym t (x + 1)) hdK (by omega) (x + 1) hx4 rfl
      have := cntLt_le_length t (sym t (x + 1) + 1)
      exact hfin i (by omega) (by omega) hi3

/-- **scan-ahead**: the entry read by the next iteration is final -/
theorem scan_ahead (hv : Valid t) (inv : SInv t R (k + 1) pos be w) (hk : k < t.length) : SValid t w k := by
  obtain ⟨c, hc, hb⟩ := exists_bkt t k hk
  apply Classical.byContradiction
  intro hnv
  have h1 : ¬ (k < cntLt t c + (Lset t c).length) := fun h => hnv ⟨c, hc, hb, Or.inl h⟩
  have h2 : ¬ (cntLt t (c + 1) ≤ k + w c) := fun h => hnv ⟨c, hc, hb, Or.inr h⟩
  have hsplit := cntLt_succ_split t c
  have hb' := hb
  unfold inBkt at hb'
  have c0 : c ≠ 0 := by
    intro h0
    subst h0
    have := inv.w0
    have h11 : cntLt t (0 + 1) = 1 := cntLt_one hv
    omega
  have all := all_written hv inv c hc c0 (by omega) t.length
  have := seg_count_le (fun i => pos.getD i 0) (cntLt t (c + 1) - w c) (w c) (Sset t c) (nodup_Sset t c)
    (fun x hx => by
      obtain ⟨j, hj1, hj2, hj3⟩ := all x (by omega) hx
      exact ⟨j, by omega, by omega, hj3⟩)
  omega

/-- an iteration that does not write keeps the invariant -/
theorem inv_skip (hv : Valid t) (inv : SInv t R (k + 1) pos be w) (hk : k < t.length)
    (hno : ∀ x, x + 1 < t.length → isS (tyOf t) x = true → pos.getD k 0 ≠ x + 1) : SInv t R k pos be w :=
  { inv with
    fin := by
      intro i hi hin
      by_cases hik : i = k
      · subst hik; exact scan_ahead hv inv hk
      · exact inv.fin i (by omega) hin
    prog := by
      intro x hx hs i hi hin hp
      by_cases hik : i = k
      · subst hik; exact absurd hp (hno x hx hs)
      · exact inv.prog x hx hs i (by omega) hin hp
    hist := by
      intro c hc j h1 h2 h3
      obtain ⟨i, hi1, hi2, hi3⟩ := inv.hist c hc j h1 h2 h3
      exact ⟨i, by omega, hi2, hi3⟩ }

/-! ### the writing iteration -/

/-- the ghost counter after a write into bucket `c` -/
def updW (w : Nat → Nat) (c : Nat) : Nat → Nat := fun d => if d = c then w c + 1 else w d

theorem updW_eq (w : Nat → Nat) (c : Nat) : updW w c c = w c + 1 := by simp [updW]

theorem updW_ne (w : Nat → Nat) {c d : Nat} (h : d ≠ c) : updW w c d = w d := by simp [updW, h]

/-- the situation of an iteration that writes `x` (S-type, symbol `c`) to slot `e`, having read `x + 1` at `k` -/
structure WCtx (t : List Nat) (R : Nat → Nat → Prop) (k : Nat) (pos be : List Nat) (w : Nat → Nat) (x c e : Nat) :
    Prop where
  inv : SInv t R (k + 1) pos be w
  hk : k < t.length
  vk : SValid t w k
  hpk : pos.getD k 0 = x + 1
  hxn : x + 1 < t.length
  hS : isS (tyOf t) x = true
  hc : sym t x = c
  cK : c < maxSucc t
  c0 : c ≠ 0
  nw : ∀ j, j < cntLt t (c + 1) → cntLt t (c + 1) ≤ j + w c → pos.getD j 0 ≠ x
  he : e + w c + 1 = cntLt t (c + 1)
  heL : cntLt t c + (Lset t c).length ≤ e
  hek : e < k
  wlt : w c < (Sset t c).length

section write
variable {x c e : Nat}

theorem WCtx.inBkt_e (C : WCtx t R k pos be w x c e) : inBkt t c e := by
  have := C.he
  have := C.heL
  unfold inBkt; omega

theorem WCtx.e_lt (C : WCtx t R k pos be w x c e) : e < pos.length := by
  rw [C.inv.lenP]; exact inBkt_lt_length t c e C.inBkt_e

theorem WCtx.get_e (C : WCtx t R k pos be w x c e) : (pos.set e x).getD e 0 = x :=
  getD_set_eq pos e x 0 C.e_lt

theorem get_ne (pos : List Nat) {e i : Nat} (x : Nat) (h : i ≠ e) : (pos.set e x).getD i 0 = pos.getD i 0 :=
  getD_set_ne pos e i x 0 (Ne.symm h)

theorem WCtx.not_valid_e (C : WCtx t R k pos be w x c e) : ¬ SValid t w e := by
  rintro ⟨d, hd, hb, h⟩
  have : d = c := bkt_unique t d c e hb C.inBkt_e
  subst this
  have := C.he
  have := C.heL
  omega

theorem WCtx.valid_mono (C : WCtx t R k pos be w x c e) {i : Nat} (h : SValid t w i) : SValid t (updW w c) i := by
  obtain ⟨d, hd, hb, h⟩ := h
  refine ⟨d, hd, hb, h.imp id (fun h => ?_)⟩
  by_cases hdc : d = c
  · subst hdc; rw [updW_eq]; omega
  · rw [updW_ne w hdc]; exact h

theorem WCtx.valid_e (C : WCtx t R k pos be w x c e) : SValid t (updW w c) e :=
  ⟨c, C.cK, C.inBkt_e, Or.inr (by rw [updW_eq]; have := C.he; omega)⟩

theorem WCtx.valid_new (C : WCtx t R k pos be w x c e) {i : Nat} (h : SValid t (updW w c) i) :
    i = e ∨ SValid t w i := by
  obtain ⟨d, hd, hb, h | h⟩ := h
  · exact Or.inr ⟨d, hd, hb, Or.inl h⟩
  · by_cases hdc : d = c
    · subst hdc
      rw [updW_eq] at h
      by_cases hie : i = e
      · exact Or.inl hie
      · have := C.he
        exact Or.inr ⟨d, hd, hb, Or.inr (by omega)⟩
    · rw [updW_ne w hdc] at h
      exact Or.inr ⟨d, hd, hb, Or.inr h⟩

/-- a written S-slot after the step is the new slot or an old written S-slot -/
theorem WCtx.swritten_new (C : WCtx t R k pos be w x c e) {d j : Nat} (hd : d < maxSucc t)
    (h1 : j < cntLt t (d + 1)) (h2 : cntLt t (d + 1) ≤ j + updW w c d) :
    (j = e ∧ d = c) ∨ (j ≠ e ∧ cntLt t (d + 1) ≤ j + w d) := by
  by_cases hdc : d = c
  · subst hdc
    rw [updW_eq] at h2
    have := C.he
    by_cases hje : j = e
    · exact Or.inl ⟨hje, rfl⟩
    · exact Or.inr ⟨hje, by omega⟩
  · rw [updW_ne w hdc] at h2
    refine Or.inr ⟨?_, h2⟩
    intro hje
    subst hje
    exact hdc (bkt_unique t d c j (sarea_inBkt C.inv hd h1 h2).1 C.inBkt_e)

theorem WCtx.x_lt (C : WCtx t R k pos be w x c e) : x < t.length := by have := C.hxn; omega

/-- the new entry against a final entry left of it -/
theorem WCtx.rel_before (C : WCtx t R k pos be w x c e) (hR : IndRel t R) {j : Nat} (hj : SValid t w j)
    (hlt : j < e) : pos.getD j 0 ≠ x ∧ R (pos.getD j 0) x := by
  obtain ⟨d, hd, hb, h⟩ := valid_cases C.inv hj
  obtain ⟨hl, hs⟩ := valid_sym C.inv hj hb
  have hdc : d ≤ c := bkt_le_of_lt t d c j e hb C.inBkt_e hlt
  have hxc := C.hc
  by_cases hdc' : d = c
  · subst hdc'
    rcases h with ⟨_, h2⟩ | ⟨h1, _⟩
    · rw [mem_Lset] at h2
      refine ⟨?_, hR.ofLS _ x hl C.x_lt (by rw [hs, hxc]) h2.2.2 C.hS⟩
      intro heq
      rw [heq, C.hS] at h2
      exact absurd h2.2.2 (by simp)
    · have := C.he
      omega
  · refine ⟨?_, hR.ofSym _ x hl C.x_lt (by omega)⟩
    intro heq
    rw [heq] at hs
    omega

/-- the new entry against a final entry right of it -/
theorem WCtx.rel_after (hv : Valid t) (C : WCtx t R k pos be w x c e) (hR : IndRel t R) (hstep : StepS t R)
    {j : Nat} (hj : SValid t w j) (hlt : e < j) : x ≠ pos.getD j 0 ∧ R x (pos.getD j 0) := by
  obtain ⟨d, hd, hb, h⟩ := valid_cases C.inv hj
  obtain ⟨hl, hs⟩ := valid_sym C.inv hj hb
  have hdc : c ≤ d := bkt_le_of_lt t c d e j C.inBkt_e hb hlt
  have hxc := C.hc
  by_cases hdc' : d = c
  · subst hdc'
    have := C.heL
    rcases h with ⟨h1, _⟩ | ⟨h1, h2⟩
    · omega
    · rw [mem_Sset] at h2
      refine ⟨(C.nw j hb.2 h1).symm, ?_⟩
      have hy1 : pos.getD j 0 + 1 < t.length := succ_lt_of_sym_ne_zero hv _ hl (by rw [hs]; exact C.c0)
      obtain ⟨i, hi1, hi2, hi3⟩ := C.inv.hist d hd j hb.2 h1 hy1
      have hr := C.inv.sorted k i (by omega) C.vk (C.inv.fin i hi1 hi2)
      rw [C.hpk, hi3] at hr
      exact hstep x _ C.hxn hy1 (by rw [hs, hxc]) C.hS h2.2.2 hr
  · refine ⟨?_, hR.ofSym x _ C.x_lt hl (by omega)⟩
    intro heq
    rw [← heq] at hs
    omega

/-- distinctness and order of the final entries after the write -/
theorem WCtx.new_rel (hv : Valid t) (C : WCtx t R k pos be w x c e) (hR : IndRel t R) (hstep : StepS t R)
    {i j : Nat} (hij : i < j) (hi : SValid t (updW w c) i) (hj : SValid t (updW w c) j) :
    (pos.set e x).getD i 0 ≠ (pos.set e x).getD j 0 ∧ R ((pos.set e x).getD i 0) ((pos.set e x).getD j 0) := by
  rcases C.valid_new hi with hie | hi'
  · subst hie
    rcases C.valid_new hj with hje | hj'
    · omega
    · rw [C.get_e, get_ne pos x (by omega : j ≠ i)]
      exact C.rel_after hv hR hstep hj' hij
  · have hie : i ≠ e := fun h => C.not_valid_e (h ▸ hi')
    rcases C.valid_new hj with hje | hj'
    · subst hje
      rw [C.get_e, get_ne pos x hie]
      exact C.rel_before hR hi' hij
    · have hje : j ≠ e := fun h => C.not_valid_e (h ▸ hj')
      rw [get_ne pos x hie, get_ne pos x hje]
      exact ⟨C.inv.inj i j hij hi' hj', C.inv.sorted i j hij hi' hj'⟩

/-- the invariant after the write -/
theorem WCtx.step (hv : Valid t) (C : WCtx t R k pos be w x c e) (hR : IndRel t R) (hstep : StepS t R) :
    SInv t R k (pos.set e x) (be.set c (e - 1)) (updW w c) where
  lenP := by rw [List.length_set]; exact C.inv.lenP
  lenB := by rw [List.length_set]; exact C.inv.lenB
  w0 := by rw [updW_ne w (Ne.symm C.c0)]; exact C.inv.w0
  wle := by
    intro d hd
    by_cases hdc : d = c
    · subst hdc; rw [updW_eq]; have := C.wlt; omega
    · rw [updW_ne w hdc]; exact C.inv.wle d hd
  bev := by
    intro d hd hlt
    by_cases hdc : d = c
    · subst hdc
      rw [updW_eq] at hlt ⊢
      rw [getD_set_eq be d _ 0 (by rw [C.inv.lenB]; exact hd)]
      have := C.he
      omega
    · rw [updW_ne w hdc] at hlt ⊢
      rw [getD_set_ne be c d _ 0 (Ne.symm hdc)]
      exact C.inv.bev d hd hlt
  larea := by
    intro d hd i h1 h2
    have hie : i ≠ e := by
      intro hie
      subst hie
      have hsplit := cntLt_succ_split t d
      have : d = c := bkt_unique t d c i ⟨h1, by omega⟩ C.inBkt_e
      subst this
      have := C.heL
      omega
    rw [get_ne pos x hie]
    exact C.inv.larea d hd i h1 h2
  sarea := by
    intro d hd i h1 h2
    rcases C.swritten_new hd h1 h2 with ⟨hie, hdc⟩ | ⟨hie, h3⟩
    · subst hie; subst hdc
      rw [C.get_e, mem_Sset]
      exact ⟨C.x_lt, C.hc, C.hS⟩
    · rw [get_ne pos x hie]
      exact C.inv.sarea d hd i h1 h3
  inj := fun i j hij hi hj => (C.new_rel hv hR hstep hij hi hj).1
  sorted := fun i j hij hi hj => (C.new_rel hv hR hstep hij hi hj).2
  fin := by
    intro i hi hin
    by_cases hik : i = k
    · subst hik; exact C.valid_mono C.vk
    · exact C.valid_mono (C.inv.fin i (by omega) hin)
  prog := by
    intro y hy hs i hi hin hp
    have hek := C.hek
    rw [get_ne pos x (by omega : i ≠ e)] at hp
    by_cases hik : i = k
    · subst hik
      have : y = x := by have := C.hpk; omega
      subst this
      exact ⟨e, C.valid_e, C.get_e⟩
    · obtain ⟨j, hj, hjy⟩ := C.inv.prog y hy hs i (by omega) hin hp
      have hje : j ≠ e := fun h => C.not_valid_e (h ▸ hj)
      exact ⟨j, C.valid_mono hj, by rw [get_ne pos x hje]; exact hjy⟩
  hist := by
    intro d hd j h1 h2 h3
    have hek := C.hek
    rcases C.swritten_new hd h1 h2 with ⟨hje, hdc⟩ | ⟨hje, h4⟩
    · subst hje
      rw [C.get_e]
      exact ⟨k, Nat.le_refl _, C.hk, by rw [get_ne pos x (by omega : k ≠ j)]; exact C.hpk⟩
    · rw [get_ne pos x hje] at h3 ⊢
      obtain ⟨i, hi1, hi2, hi3⟩ := C.inv.hist d hd j h1 h4 h3
      exact ⟨i, by omega, hi2, by rw [get_ne pos x (by omega : i ≠ e)]; exact hi3⟩

end write

/-! ### establishing the situation of a write -/

/-- the S-type predecessor of the entry read at `k` has not been written yet -/
theorem not_written (inv : SInv t R (k + 1) pos be w) (vk : SValid t w k) {x c : Nat} (hpk : pos.getD k 0 = x + 1)
    (hxn : x + 1 < t.length) (hc : c < maxSucc t) :
    ∀ j, j < cntLt t (c + 1) → cntLt t (c + 1) ≤ j + w c → pos.getD j 0 ≠ x := by
  intro j h1 h2 heq
  obtain ⟨i, hi1, hi2, hi3⟩ := inv.hist c hc j h1 h2 (by rw [heq]; exact hxn)
  have := inv.inj k i (by omega) vk (inv.fin i hi1 hi2)
  rw [hpk, hi3, heq] at this
  exact this rfl

/-- an unwritten S-type position with symbol `c`: the S-area of bucket `c` is not full -/
theorem w_lt_of_unwritten (inv : SInv t R r pos be w) {x c : Nat} (hc : c < maxSucc t) (hx : x ∈ Sset t c)
    (nw : ∀ j, j < cntLt t (c + 1) → cntLt t (c + 1) ≤ j + w c → pos.getD j 0 ≠ x) : w c < (Sset t c).length := by
  apply Classical.byContradiction
  intro hn
  have hle := inv.wle c hc
  have hsplit := cntLt_succ_split t c
  obtain ⟨j, hj1, hj2, hj3⟩ := seg_surj (fun i => pos.getD i 0) (cntLt t (c + 1) - w c) (w c) (Sset t c)
    (fun j h1 h2 => inv.sarea c hc j (by omega) (by omega))
    (fun i j hi hij hj => inv.inj i j hij (written_valid inv hc (by omega) (by omega))
      (written_valid inv hc (by omega) (by omega)))
    (by omega) x hx
  exact nw j (by omega) (by omega) hj3

/-- the slot written lies left of the scan position -/
theorem write_slot_lt (inv : SInv t R (k + 1) pos be w) (hk : k < t.length) (vk : SValid t w k) {x c e : Nat}
    (hpk : pos.getD k 0 = x + 1) (hxn : x + 1 < t.length) (hS : isS (tyOf t) x = true) (hc : sym t x = c)
    (he : e + w c + 1 = cntLt t (c + 1)) : e < k := by
  obtain ⟨d, hd, hb⟩ := exists_bkt t k hk
  obtain ⟨_, hs⟩ := valid_sym inv vk hb
  rw [hpk] at hs
  have hle := sym_le_of_isS x hxn hS
  by_cases hdc : d = c
  · subst hdc
    have hS1 : isS (tyOf t) (x + 1) = true := by
      rw [← isS_of_eq x hxn (by omega)]; exact hS
    have := valid_S_pos inv vk hpk hs hS1
    omega
  · have := cntLt_mono t (c + 1) d (by omega)
    unfold inBkt at hb
    omega

theorem mk_WCtx (hv : Valid t) (inv : SInv t R (k + 1) pos be w) (hk : k < t.length) (x : Nat)
    (hpk : pos.getD k 0 = x + 1) (hS : isS (tyOf t) x = true) :
    WCtx t R k pos be w x (sym t x) (be.getD (sym t x) 0) ∧ 1 ≤ be.getD (sym t x) 0 := by
  have vk := scan_ahead hv inv hk
  obtain ⟨d, hd, hb⟩ := exists_bkt t k hk
  have hxn : x + 1 < t.length := by
    have := (valid_sym inv vk hb).1
    omega
  have hxl : x < t.length := by omega
  have c0 := sym_ne_zero hv x hxn
  have cK : sym t x < maxSucc t := sym_lt_maxSucc x hxl
  have hx : x ∈ Sset t (sym t x) := (mem_Sset t _ x).mpr ⟨hxl, rfl, hS⟩
  have nw := not_written inv vk hpk hxn cK
  have wlt := w_lt_of_unwritten inv cK hx nw
  have hbe := inv.bev _ cK wlt
  have hsplit := cntLt_succ_split t (sym t x)
  have h1 := cntLt_one hv
  have hmono := cntLt_mono t 1 (sym t x) (by omega)
  have he : be.getD (sym t x) 0 + w (sym t x) + 1 = cntLt t (sym t x + 1) := by omega
  exact ⟨{ inv := inv, hk := hk, vk := vk, hpk := hpk, hxn := hxn, hS := hS, hc := rfl, cK := cK, c0 := c0, nw := nw,
           he := he, heL := by omega, hek := write_slot_lt inv hk vk hpk hxn hS rfl he, wlt := wlt }, by omega⟩

/-! ### one iteration -/

theorem sStep_skip0 (t : List Nat) (ty : List Bool) (k : Nat) (pos be : List Nat) (h : pos.getD k 0 = 0) :
    sStep t ty k (pos, be) = (pos, be) := by
  unfold sStep
  dsimp only
  rw [if_pos h]

theorem sStep_skipL (t : List Nat) (ty : List Bool) (k : Nat) (pos be : List Nat) (h : pos.getD k 0 ≠ 0)
    (hL : isS ty (pos.getD k 0 - 1) = false) : sStep t ty k (pos, be) = (pos, be) := by
  unfold sStep
  dsimp only
  rw [if_neg h, if_neg (by rw [hL]; exact Bool.false_ne_true)]

theorem sStep_write (t : List Nat) (ty : List Bool) (k : Nat) (pos be : List Nat) (h : pos.getD k 0 ≠ 0)
    (hS : isS ty (pos.getD k 0 - 1) = true) :
    sStep t ty k (pos, be) =
      (pos.set (be.getD (t.getD (pos.getD k 0 - 1) 0) 0) (pos.getD k 0 - 1),
       be.set (t.getD (pos.getD k 0 - 1) 0) (wrapSub1 (be.getD (t.getD (pos.getD k 0 - 1) 0) 0))) := by
  unfold sStep
  dsimp only
  rw [if_neg h, if_pos hS]

theorem sStep_inv (hv : Valid t) (hR : IndRel t R) (hstep : StepS t R) (k : Nat) (st : List Nat × List Nat)
    (hk : k < t.length) (h : ∃ w, SInv t R (k + 1) st.1 st.2 w) :
    ∃ w, SInv t R k (sStep t (tyOf t) k st).1 (sStep t (tyOf t) k st).2 w := by
  obtain ⟨pos, be⟩ := st
  obtain ⟨w, inv⟩ := h
  dsimp only at inv
  by_cases hp : pos.getD k 0 = 0
  · rw [sStep_skip0 t _ k pos be hp]
    dsimp only
    exact ⟨w, inv_skip hv inv hk (fun x _ _ => by omega)⟩
  · cases hS : isS (tyOf t) (pos.getD k 0 - 1)
    · rw [sStep_skipL t _ k pos be hp hS]
      dsimp only
      refine ⟨w, inv_skip hv inv hk (fun x _ hx heq => ?_)⟩
      rw [heq, Nat.add_sub_cancel, hx] at hS
      cases hS
    · rw [sStep_write t _ k pos be hp hS]
      dsimp only
      have hpk : pos.getD k 0 = (pos.getD k 0 - 1) + 1 := by omega
      obtain ⟨C, he1⟩ := mk_WCtx hv inv hk (pos.getD k 0 - 1) hpk hS
      have hw : wrapSub1 (be.getD (sym t (pos.getD k 0 - 1)) 0) = be.getD (sym t (pos.getD k 0 - 1)) 0 - 1 := by
        unfold wrapSub1
        rw [if_neg (by omega)]
      have := C.step hv hR hstep
      rw [← hw] at this
      exact ⟨_, this⟩

/-! ### the initial state -/

/-- the ghost counter at the start: only slot 0 (holding `n - 1`) counts as written -/
def wInit : Nat → Nat := fun c => if c = 0 then 1 else 0

theorem wInit_zero : wInit 0 = 1 := rfl

theorem wInit_ne {c : Nat} (h : c ≠ 0) : wInit c = 0 := by simp [wInit, h]

theorem valid_init (hv : Valid t) {i : Nat} (h : SValid t wInit i) : i = 0 ∨ inLArea t i := by
  obtain ⟨c, hc, hb, h | h⟩ := h
  · exact Or.inr ⟨c, hc, hb.1, h⟩
  · unfold inBkt at hb
    by_cases h0 : c = 0
    · subst h0
      have h1 : cntLt t (0 + 1) = 1 := cntLt_one hv
      omega
    · rw [wInit_ne h0] at h
      omega

theorem init_rel (hv : Valid t) (hR : IndRel t R) {posL : List Nat} (hL : LInit t R posL) {i j : Nat} (hij : i < j)
    (hi : SValid t wInit i) (hj : SValid t wInit j) :
    posL.getD i 0 ≠ posL.getD j 0 ∧ R (posL.getD i 0) (posL.getD j 0) := by
  rcases valid_init hv hj with h | hj'
  · omega
  · rcases valid_init hv hi with h | hi'
    · subst h
      rw [hL.zero]
      obtain ⟨c, hc, h1, h2⟩ := hj'
      have hm := hL.larea c hc j h1 h2
      rw [mem_Lset] at hm
      have c0 : c ≠ 0 := by
        intro h0
        subst h0
        rw [Lset_zero hv, cntLt_zero] at h2
        simp at h2
      have hl0 := sym_last_zero hv
      have hpos := hv.pos
      refine ⟨?_, hR.ofSym _ _ (by omega) hm.1 (by omega)⟩
      intro heq
      rw [← heq] at hm
      omega
    · exact ⟨hL.inj i j hij hi' hj', hL.sorted i j hij hi' hj'⟩

theorem getD_bEnd0 (hv : Valid t) (c : Nat) (hc : c < maxSucc t) : (bEnd0 t).getD c 0 = cntLt t (c + 1) - 1 := by
  have hne : t ≠ [] := by
    intro h
    have := hv.pos
    rw [h] at this
    simp at this
  unfold bEnd0
  rw [initBucketEnd_eq t hne hv.dense]
  simp [List.getD_eq_getElem?_getD, hc]

theorem init_inv (hv : Valid t) (hR : IndRel t R) {posL : List Nat} (hL : LInit t R posL) :
    SInv t R t.length posL (bEnd0 t) wInit where
  lenP := hL.len
  lenB := by
    have hne : t ≠ [] := by
      intro h
      have := hv.pos
      rw [h] at this
      simp at this
    unfold bEnd0
    rw [initBucketEnd_eq t hne hv.dense]
    simp
  w0 := rfl
  wle := by
    intro c hc
    by_cases h0 : c = 0
    · subst h0; rw [wInit_zero, length_Sset_zero hv]; exact Nat.le_refl _
    · rw [wInit_ne h0]; exact Nat.zero_le _
  bev := by
    intro c hc hlt
    by_cases h0 : c = 0
    · subst h0
      rw [wInit_zero, length_Sset_zero hv] at hlt
      omega
    · rw [wInit_ne h0, getD_bEnd0 hv c hc]
      omega
  larea := hL.larea
  sarea := by
    intro c hc i h1 h2
    by_cases h0 : c = 0
    · subst h0
      have h11 : cntLt t (0 + 1) = 1 := cntLt_one hv
      have : i = 0 := by omega
      subst this
      rw [hL.zero, mem_Sset_zero hv]
    · rw [wInit_ne h0] at h2
      omega
  inj := fun i j hij hi hj => (init_rel hv hR hL hij hi hj).1
  sorted := fun i j hij hi hj => (init_rel hv hR hL hij hi hj).2
  fin := by
    intro i h1 h2
    omega
  prog := by
    intro x _ _ i h1 h2
    omega
  hist := by
    intro c hc j h1 h2 h3
    by_cases h0 : c = 0
    · subst h0
      have h11 : cntLt t (0 + 1) = 1 := cntLt_one hv
      have : j = 0 := by omega
      subst this
      rw [hL.zero] at h3
      have := hv.pos
      omega
    · rw [wInit_ne h0] at h2
      omega

end inv

/-- the S pass of induced sorting: starting from an array whose L-areas hold the L-type positions (`R`-sorted) and whose
slot 0 holds `n-1`, the right-to-left scan writes every other S-type position exactly once into the S-area of its
bucket; no stale/undefined entry is ever read; the result is `R`-sorted and contains every position once. -/
theorem sPass_spec (t : List Nat) (hv : Valid t) (R : Nat → Nat → Prop) (hR : IndRel t R) (hstep : StepS t R)
    (posL : List Nat) (hL : LInit t R posL) :
    SDone t R (forDown t.length (sStep t (tyOf t)) (posL, bEnd0 t)).1 := by
  have h := forDown_inv t.length (sStep t (tyOf t)) (posL, bEnd0 t)
    (fun r st => ∃ w, SInv t R r st.1 st.2 w) ⟨wInit, init_inv hv hR hL⟩
    (fun k st hk hP => sStep_inv hv hR hstep k st hk hP)
  obtain ⟨w, inv⟩ := h
  have hval : ∀ i, i < t.length → SValid t w i := fun i hi => inv.fin i (Nat.zero_le _) hi
  refine ⟨inv.lenP, ?_, ?_, ?_⟩
  · intro i hi
    obtain ⟨c, _, hb⟩ := exists_bkt t i hi
    exact (valid_sym inv (hval i hi) hb).1
  · intro i j hij hj
    exact inv.inj i j hij (hval i (by omega)) (hval j hj)
  · intro i j hij hj
    exact inv.sorted i j hij (hval i (by omega)) (hval j hj)

end RbV.Sais
