import RbV.Model.PoaI32
import RbV.Lemmas.PoaTrace
/-!
`poa_i32_no_overflow` (`Thm/C16.lean`), lemmas: inside `PoaEnv` the cells of the unbounded mirrors of `Poa::custom` and
`Poa::global_banded` stay in `[MIN_SCORE − B, j·B]` (column `j ≤ n`; row 0: `[MIN_SCORE, 0]`; `max_in_column`,
`max_in_row` in `[0, n·B]`), hence every checked operation of `Model/PoaI32.lean` succeeds with the unbounded result.
Core Lean only.
-/
namespace RbV.Poa.Model.I32P
open RbV.NW RbV.Poa RbV.Poa.Model RbV.I32

theorem foldlC_eq {α β : Type} (fC : β → α → Option β) (f : β → α → β) (P : β → Prop) :
    ∀ (l : List α) (b : β), P b → (∀ a ∈ l, ∀ b, P b → fC b a = some (f b a) ∧ P (f b a)) →
      foldlC fC b l = some (l.foldl f b) ∧ P (l.foldl f b) := by
  intro l
  induction l with
  | nil => intro b hb _; exact ⟨rfl, hb⟩
  | cons a as ih =>
    intro b hb h
    obtain ⟨h1, h2⟩ := h a List.mem_cons_self b hb
    simp only [foldlC, h1, List.foldl_cons]
    exact ih _ h2 (fun a' ha' => h a' (List.mem_cons_of_mem _ ha'))

theorem mapC_eq {α β : Type} (fC : α → Option β) (f : α → β) : ∀ (l : List α), (∀ a ∈ l, fC a = some (f a)) →
    mapC fC l = some (l.map f) := by
  intro l
  induction l with
  | nil => intro _; rfl
  | cons a as ih =>
    intro h
    simp only [mapC, h a List.mem_cons_self, ih (fun a' ha' => h a' (List.mem_cons_of_mem _ ha')), List.map_cons]

theorem cmax_score (a b : Cell) : (cmax a b).score = max a.score b.score := by
  unfold cmax; split <;> omega

theorem minScore_poa_i32 : -2147483648 ≤ minScore + minScore ∧ minScore < 0 := by decide

/-- numeric side conditions shared by the step lemmas -/
structure PNum (sc : Sc) (B : Int) (n : Nat) : Prop where
  B1 : 1 ≤ B
  gap : -B ≤ sc.gap ∧ sc.gap ≤ 0
  twoB : 2 * B ≤ 2147483648 + minScore
  nB : (n : Int) * B ≤ 2147483647

theorem col_le {B : Int} {n j : Nat} (hB : 0 ≤ B) (hj : j ≤ n) : (j : Int) * B ≤ (n : Int) * B :=
  Int.mul_le_mul_of_nonneg_right (by omega) hB

/-- a cell of column `j` (`j ≤ n`) is in range -/
def InR (B : Int) (n j : Nat) (c : Cell) : Prop :=
  j ≤ n ∧ minScore - B ≤ c.score ∧ c.score ≤ (j : Int) * B

/-- the cells of columns `j0, j0 + 1, …` are in range -/
def CellsOK (B : Int) (n : Nat) : Nat → List Cell → Prop
  | _, [] => True
  | j, c :: cs => InR B n j c ∧ CellsOK B n (j + 1) cs

def RowOK (B : Int) (n : Nat) (r : BRow) : Prop := CellsOK B n r.start r.cells

/-- row 0: `[MIN_SCORE, 0]` in every column -/
def Row0OK (r0 : BRow) : Prop := ∀ j, minScore ≤ (r0.get j).score ∧ (r0.get j).score ≤ 0

theorem cellsOK_getD {B : Int} {n : Nat} : ∀ (cells : List Cell) (j0 k : Nat), CellsOK B n j0 cells → k < cells.length →
    InR B n (j0 + k) (cells.getD k mcell) := by
  intro cells
  induction cells with
  | nil => intro j0 k _ hk; simp at hk
  | cons c cs ih =>
    intro j0 k h hk
    cases k with
    | zero => simpa using h.1
    | succ k =>
      have := ih (j0 + 1) k h.2 (by simpa using hk)
      have e : j0 + 1 + k = j0 + (k + 1) := by omega
      rw [e] at this
      simpa using this

theorem natCast_mul_nonneg (j : Nat) {B : Int} (hB : 0 ≤ B) : 0 ≤ (j : Int) * B := Int.mul_nonneg (by omega) hB

/-- `Traceback::get` on a row in range gives a score in `[MIN_SCORE − B, j·B]` (no `j ≤ n` claim: out-of-band answers) -/
theorem get_ok {B : Int} {n : Nat} (hB : 0 ≤ B) (r : BRow) (h : RowOK B n r) (j : Nat) :
    minScore - B ≤ (r.get j).score ∧ (r.get j).score ≤ (j : Int) * B := by
  have hms := minScore_poa_i32
  have hj := natCast_mul_nonneg j hB
  unfold BRow.get
  split
  · rename_i hc
    simp only [Bool.and_eq_true, decide_eq_true_eq, Bool.not_eq_true', List.isEmpty_eq_false_iff] at hc
    by_cases hk : j - r.start < r.cells.length
    · have := cellsOK_getD r.cells r.start (j - r.start) h hk
      have e : r.start + (j - r.start) = j := by omega
      rw [e] at this
      exact this.2
    · rw [List.getD_eq_getElem?_getD, List.getElem?_eq_none (by omega)]
      simp only [Option.getD_none, mcell]
      omega
  · split
    · simp only []; omega
    · split
      · simp only []; omega
      · simp only [mcell]; omega

theorem emptyRow_ok (B : Int) (n : Nat) : RowOK B n (emptyRow n) := by simp [RowOK, emptyRow, CellsOK]

theorem pred_mul (j : Nat) (B : Int) (hj : 1 ≤ j) : ((j - 1 : Nat) : Int) * B = (j : Int) * B - B := by
  have e : ((j - 1 : Nat) : Int) = (j : Int) - 1 := by omega
  rw [e, Int.sub_mul, Int.one_mul]

section
variable {sc : Sc} {B : Int} {n : Nat}

/-- one predecessor (`predC`) -/
theorem predC_eq (N : PNum sc B n) (v r b j : Nat) (hj1 : 1 ≤ j) (hjn : j ≤ n)
    (hw : -B ≤ sc.w r b ∧ sc.w r b ≤ B) (acc : Cell) (pp : Nat × BRow) (hp : RowOK B n pp.2)
    (hacc : minScore ≤ acc.score ∧ acc.score ≤ (j : Int) * B) :
    predC sc v r b j acc pp = some (cmax acc (cmax ⟨(pp.2.get (j - 1)).score + sc.w r b, .m (some (pp.1, v))⟩
        ⟨(pp.2.get j).score + sc.gap, .d (some (pp.1, v + 1))⟩)) ∧
      (minScore ≤ (cmax acc (cmax ⟨(pp.2.get (j - 1)).score + sc.w r b, .m (some (pp.1, v))⟩
        ⟨(pp.2.get j).score + sc.gap, .d (some (pp.1, v + 1))⟩)).score ∧
       (cmax acc (cmax ⟨(pp.2.get (j - 1)).score + sc.w r b, .m (some (pp.1, v))⟩
        ⟨(pp.2.get j).score + sc.gap, .d (some (pp.1, v + 1))⟩)).score ≤ (j : Int) * B) := by
  obtain ⟨hB1, hgap, h2B, hnB⟩ := N
  have hms := minScore_poa_i32
  have hjB := col_le (B := B) (by omega) hjn
  have g1 := get_ok (n := n) (by omega) pp.2 hp (j - 1)
  have g2 := get_ok (n := n) (by omega) pp.2 hp j
  rw [pred_mul j B hj1] at g1
  unfold predC
  rw [add_ok ⟨by omega, by omega⟩]; simp only []
  rw [add_ok ⟨by omega, by omega⟩]; simp only []
  refine ⟨trivial, ?_⟩
  simp only [cmax_score]
  omega

/-- `max_cell` of a column (`candC` = `cCand`, and `bCand` for `init = mcell`) -/
theorem candC_eq (N : PNum sc B n) (init : Cell) (hinit : minScore ≤ init.score ∧ init.score ≤ 0) (query : List Nat)
    (r0 : BRow) (hr0 : Row0OK r0) (v r : Nat) (preds : List (Nat × BRow)) (hpreds : ∀ pp ∈ preds, RowOK B n pp.2)
    (j : Nat) (hj1 : 1 ≤ j) (hjn : j ≤ n)
    (hw : -B ≤ sc.w r (query.getD (j - 1) 0) ∧ sc.w r (query.getD (j - 1) 0) ≤ B) :
    candC sc init query r0 v r preds j = some (cCand sc init query r0 v r preds j) ∧
      InR B n j (cCand sc init query r0 v r preds j) := by
  have hB1 := N.B1
  have h2B := N.twoB
  have hnB := N.nB
  have hms := minScore_poa_i32
  have hjB := col_le (B := B) (by omega) hjn
  have hBj : B ≤ (j : Int) * B := by
    have := Int.mul_le_mul_of_nonneg_right (show (1 : Int) ≤ (j : Int) by omega) (show 0 ≤ B by omega)
    omega
  unfold candC cCand
  cases preds with
  | nil =>
    simp only []
    have g := hr0 (j - 1)
    rw [add_ok ⟨by omega, by omega⟩]
    exact ⟨rfl, hjn, by simp only []; omega, by simp only []; omega⟩
  | cons p ps =>
    simp only []
    have := foldlC_eq (predC sc v r (query.getD (j - 1) 0) j)
      (fun acc (pp : Nat × BRow) => cmax acc (cmax ⟨(pp.2.get (j - 1)).score + sc.w r (query.getD (j - 1) 0), .m (some (pp.1, v))⟩
        ⟨(pp.2.get j).score + sc.gap, .d (some (pp.1, v + 1))⟩))
      (fun acc => minScore ≤ acc.score ∧ acc.score ≤ (j : Int) * B) (p :: ps) init ⟨hinit.1, by omega⟩
      (fun pp hpp acc hacc => predC_eq N v r _ j hj1 hjn hw acc pp (hpreds pp hpp) hacc)
    exact ⟨this.1, hjn, by omega, this.2.2⟩

/-- `insScanC` = `insScan`, and the scanned cells are in range -/
theorem insScanC_eq (N : PNum sc B n) (iOp : POp) : ∀ (cands : List Cell) (j0 : Nat) (left : Cell),
    (minScore - B ≤ left.score ∧ left.score ≤ (j0 : Int) * B) →
    CellsOK B n (j0 + 1) cands →
    insScanC sc.gap iOp left cands = some (insScan sc.gap iOp left cands) ∧
      CellsOK B n (j0 + 1) (insScan sc.gap iOp left cands) := by
  obtain ⟨hB1, hgap, h2B, hnB⟩ := N
  have hms := minScore_poa_i32
  intro cands
  induction cands with
  | nil => intro j0 left _ _; exact ⟨rfl, trivial⟩
  | cons c cs ih =>
    intro j0 left hl hc
    obtain ⟨⟨hcn, hc1, hc2⟩, hcs⟩ := hc
    have hjB := col_le (B := B) (n := n) (j := j0) (by omega) (by omega)
    have e : ((j0 + 1 : Nat) : Int) * B = (j0 : Int) * B + B := by
      push_cast; rw [Int.add_mul, Int.one_mul]
    simp only [insScanC, insScan]
    rw [add_ok ⟨by omega, by omega⟩]; simp only []
    have hcell : minScore - B ≤ (cmax c ⟨left.score + sc.gap, iOp⟩).score ∧
        (cmax c ⟨left.score + sc.gap, iOp⟩).score ≤ ((j0 + 1 : Nat) : Int) * B := by
      rw [cmax_score]; simp only []; omega
    obtain ⟨h1, h2⟩ := ih (j0 + 1) _ hcell hcs
    rw [h1]
    exact ⟨rfl, ⟨hcn, hcell⟩, h2⟩

theorem cellsOK_map_range' (f : Nat → Cell) : ∀ (k j0 : Nat), (∀ j, j0 ≤ j → j < j0 + k → InR B n j (f j)) →
    CellsOK B n j0 ((List.range' j0 k).map f) := by
  intro k
  induction k with
  | zero => intro j0 _; simp [List.range', CellsOK]
  | succ k ih =>
    intro j0 h
    simp only [List.range', List.map_cons, CellsOK]
    exact ⟨h j0 (Nat.le_refl _) (by omega), ih (j0 + 1) (fun j h1 h2 => h j (by omega) (by omega))⟩

theorem natCast_mul_gap (N : PNum sc B n) (k : Nat) : -((k : Int) * B) ≤ (k : Int) * sc.gap ∧ (k : Int) * sc.gap ≤ 0 := by
  obtain ⟨hB1, hgap, _, _⟩ := N
  have h1 : (k : Int) * (-B) ≤ (k : Int) * sc.gap := Int.mul_le_mul_of_nonneg_left hgap.1 (by omega)
  have h2 : (k : Int) * sc.gap ≤ (k : Int) * 0 := Int.mul_le_mul_of_nonneg_left hgap.2 (by omega)
  rw [Int.mul_neg] at h1
  rw [Int.mul_zero] at h2
  exact ⟨h1, h2⟩

/-- `initialize_scores` -/
theorem bRow0C_eq (N : PNum sc B n) (yp : Int) (hyp : minScore ≤ yp ∧ yp ≤ 0) :
    bRow0C sc.gap yp n = some (bRow0 sc.gap yp n) := by
  have hB1 := N.B1
  have hnB := N.nB
  unfold bRow0C bRow0
  have h0 : mul sc.gap (ofUsize 0) = some (sc.gap * ((0 : Nat) : Int)) := by
    rw [ofUsize_ok (by omega)]
    exact mul_ok (by rw [Int.natCast_zero, Int.mul_zero]; decide)
  rw [h0]; simp only []
  rw [mapC_eq _ (fun (j : Nat) => cmax ⟨(j : Int) * sc.gap, .i none⟩ ⟨yp, .y 0 j⟩)]
  intro j hj
  rw [List.mem_range'_1] at hj
  have hjB := col_le (B := B) (n := n) (j := j) (by omega) (by omega)
  have hjj : (j : Int) * 1 ≤ (j : Int) * B := Int.mul_le_mul_of_nonneg_left hB1 (by omega)
  have hg := natCast_mul_gap N j
  have hc : sc.gap * (j : Int) = (j : Int) * sc.gap := Int.mul_comm _ _
  have hm : mul sc.gap (j : Int) = some (sc.gap * (j : Int)) := mul_ok (by unfold InRange; omega)
  simp only [ofUsize_ok (show (j : Int) ≤ 2147483647 by omega), hm, hc]

theorem getD_mem_or_default (l : List Cell) (k : Nat) (d : Cell) : l.getD k d ∈ l ∨ l.getD k d = d := by
  by_cases hk : k < l.length
  · left; rw [List.getD_eq_getElem?_getD, List.getElem?_eq_getElem hk]; exact List.getElem_mem hk
  · right; rw [List.getD_eq_getElem?_getD, List.getElem?_eq_none (by omega)]; rfl

/-- `Traceback::get` on a row all of whose cells lie in `[lo, hi] ∋ MIN_SCORE` -/
theorem get_bounds_of_all (r : BRow) (lo hi : Int) (hall : ∀ c ∈ r.cells, lo ≤ c.score ∧ c.score ≤ hi)
    (hm : lo ≤ minScore ∧ minScore ≤ hi) (j : Nat) : lo ≤ (r.get j).score ∧ (r.get j).score ≤ hi := by
  unfold BRow.get
  split
  · rcases getD_mem_or_default r.cells (j - r.start) mcell with h | h
    · exact hall _ h
    · rw [h]; exact hm
  · split
    · exact hm
    · split
      · exact hm
      · exact hm

theorem bRow0_ok (N : PNum sc B n) (yp : Int) (hyp : minScore ≤ yp ∧ yp ≤ 0) : Row0OK (bRow0 sc.gap yp n) := by
  have hms := minScore_poa_i32
  refine get_bounds_of_all _ minScore 0 ?_ ⟨by omega, by omega⟩
  intro c hc
  simp only [bRow0, List.mem_cons, List.mem_map] at hc
  rcases hc with rfl | ⟨j, _, rfl⟩
  · simp only []; omega
  · have hg := natCast_mul_gap N j
    rw [cmax_score]; simp only []; omega

/-- first cell of a row that starts at the edge -/
theorem edgeCellC_eq (N : PNum sc B n) (xp : Int) (hxp : minScore ≤ xp ∧ xp ≤ 0) (v m : Nat) (hv : v < m)
    (hmB : (m : Int) * B ≤ 2147483647) :
    edgeCellC sc xp v = some (cmax ⟨((v : Int) + 1) * sc.gap, .d none⟩ ⟨xp, .x 0⟩) ∧
      (minScore ≤ (cmax ⟨((v : Int) + 1) * sc.gap, .d none⟩ ⟨xp, .x 0⟩ : Cell).score ∧
        (cmax ⟨((v : Int) + 1) * sc.gap, .d none⟩ ⟨xp, .x 0⟩ : Cell).score ≤ 0) := by
  have hB1 := N.B1
  have hg := natCast_mul_gap N (v + 1)
  have hvB : ((v + 1 : Nat) : Int) * B ≤ (m : Int) * B := Int.mul_le_mul_of_nonneg_right (by omega) (by omega)
  have hvv : ((v + 1 : Nat) : Int) * 1 ≤ ((v + 1 : Nat) : Int) * B := Int.mul_le_mul_of_nonneg_left hB1 (by omega)
  have e : ((v + 1 : Nat) : Int) = (v : Int) + 1 := by push_cast; rfl
  have hc : sc.gap * ((v + 1 : Nat) : Int) = ((v : Int) + 1) * sc.gap := by rw [e]; exact Int.mul_comm _ _
  have hcast : ((v + 1 : Nat) : Int) ≤ 2147483647 := by omega
  rw [e] at hg hvB hvv
  have hm : mul sc.gap ((v + 1 : Nat) : Int) = some (sc.gap * ((v + 1 : Nat) : Int)) :=
    mul_ok (by unfold InRange; rw [hc]; omega)
  simp only [edgeCellC, ofUsize_ok hcast, hm, hc]
  exact ⟨trivial, by rw [cmax_score]; simp only []; omega, by rw [cmax_score]; simp only []; omega⟩

theorem initCell_ok (xp : Int) (hxp : minScore ≤ xp ∧ xp ≤ 0) :
    minScore ≤ (cmax mcell ⟨xp, .x 0⟩).score ∧ (cmax mcell ⟨xp, .x 0⟩).score ≤ 0 := by
  have hms := minScore_poa_i32
  rw [cmax_score]; simp only [mcell]; omega

/-- the row of a node in `custom` -/
theorem cNodeRowC_eq (N : PNum sc B n) (xp : Int) (hxp : minScore ≤ xp ∧ xp ≤ 0) (query : List Nat) (hq : query.length = n)
    (r0 : BRow) (hr0 : Row0OK r0) (v r m : Nat) (hv : v < m) (hmB : (m : Int) * B ≤ 2147483647)
    (preds : List (Nat × BRow)) (hpreds : ∀ pp ∈ preds, RowOK B n pp.2)
    (hw : ∀ q ∈ query, -B ≤ sc.w r q ∧ sc.w r q ≤ B) :
    cNodeRowC sc xp query r0 v r preds = some (cNodeRow sc xp query r0 v r preds) ∧
      RowOK B n (cNodeRow sc xp query r0 v r preds) := by
  have hB1 := N.B1
  have hms := minScore_poa_i32
  obtain ⟨he, hc0⟩ := edgeCellC_eq N xp hxp v m hv hmB
  have hcand : ∀ j ∈ List.range' 1 query.length,
      candC sc (cmax mcell ⟨xp, .x 0⟩) query r0 v r preds j = some (cCand sc (cmax mcell ⟨xp, .x 0⟩) query r0 v r preds j) ∧
        InR B n j (cCand sc (cmax mcell ⟨xp, .x 0⟩) query r0 v r preds j) := by
    intro j hj
    rw [List.mem_range'_1] at hj
    refine candC_eq N _ (initCell_ok xp hxp) query r0 hr0 v r preds hpreds j hj.1 (by omega) (hw _ ?_)
    rw [List.getD_eq_getElem?_getD, List.getElem?_eq_getElem (by omega)]
    exact List.getElem_mem _
  have hcok : CellsOK B n (0 + 1) ((List.range' 1 query.length).map (cCand sc (cmax mcell ⟨xp, .x 0⟩) query r0 v r preds)) :=
    cellsOK_map_range' _ _ _ (fun j h1 h2 => (hcand j (by rw [List.mem_range'_1]; omega)).2)
  obtain ⟨hi1, hi2⟩ := insScanC_eq N (.i (some v)) _ 0 (cmax ⟨((v : Int) + 1) * sc.gap, .d none⟩ ⟨xp, .x 0⟩)
    ⟨by omega, by simp only [Int.natCast_zero, Int.zero_mul]; omega⟩ hcok
  unfold cNodeRowC cNodeRow
  rw [he]; simp only []
  rw [mapC_eq _ _ _ (fun j hj => (hcand j hj).1)]; simp only []
  rw [hi1]
  refine ⟨rfl, ?_⟩
  simp only [RowOK, CellsOK]
  exact ⟨⟨by omega, by omega, by simp only [Int.natCast_zero, Int.zero_mul]; omega⟩, hi2⟩

theorem cellsOK_all : ∀ (cs : List Cell) (j0 : Nat), 0 ≤ B → CellsOK B n j0 cs →
    ∀ c ∈ cs, minScore - B ≤ c.score ∧ c.score ≤ (n : Int) * B := by
  intro cs
  induction cs with
  | nil => intro _ _ _ c hc; simp at hc
  | cons c0 cs ih =>
    intro j0 hB h c hc
    rcases List.mem_cons.mp hc with rfl | hc'
    · obtain ⟨hj, h1, h2⟩ := h.1
      exact ⟨h1, Int.le_trans h2 (col_le hB hj)⟩
    · exact ih (j0 + 1) hB h.2 c hc'

/-- `max_in_column` entries stay in `[0, U]` -/
theorem colUpdate_ok (U : Int) (i : Nat) : ∀ (mcs : List (Int × Nat)) (cs : List Cell),
    (∀ mc ∈ mcs, 0 ≤ mc.1 ∧ mc.1 ≤ U) → (∀ c ∈ cs, c.score ≤ U) →
    ∀ mc ∈ colUpdate i mcs cs, 0 ≤ mc.1 ∧ mc.1 ≤ U := by
  intro mcs
  induction mcs with
  | nil => intro cs _ _ mc hmc; simp [colUpdate] at hmc
  | cons m0 ms ih =>
    intro cs hm hc mc hmc
    cases cs with
    | nil => simp only [colUpdate] at hmc; exact hm mc hmc
    | cons c cs =>
      simp only [colUpdate, List.mem_cons] at hmc
      rcases hmc with rfl | hmc
      · have h0 := hm m0 List.mem_cons_self
        have hc0 := hc c List.mem_cons_self
        split
        · simp only []; omega
        · exact h0
      · exact ih cs (fun x hx => hm x (List.mem_cons_of_mem _ hx)) (fun x hx => hc x (List.mem_cons_of_mem _ hx)) mc hmc

/-- invariant of the loop over the nodes in `custom` -/
structure CI (B : Int) (n : Nat) (st : CState) : Prop where
  rows : ∀ p, RowOK B n (st.rows.getD p (emptyRow n))
  mc : ∀ mc ∈ st.maxcol, 0 ≤ mc.1 ∧ mc.1 ≤ (n : Int) * B

theorem cStepC_eq (N : PNum sc B n) (xp : Int) (hxp : minScore ≤ xp ∧ xp ≤ 0) (labels : List Nat) (es : WEdges)
    (query : List Nat) (hq : query.length = n) (r0 : BRow) (hr0 : Row0OK r0)
    (hmB : (labels.length : Int) * B ≤ 2147483647)
    (hw : ∀ r ∈ labels, ∀ q ∈ query, -B ≤ sc.w r q ∧ sc.w r q ≤ B)
    (st : CState) (hst : CI B n st) (v : Nat) (hv : v < labels.length) :
    cStepC sc xp labels es query r0 st v = some (cStep sc xp labels es query r0 st v) ∧
      CI B n (cStep sc xp labels es query r0 st v) := by
  have hB1 := N.B1
  have hlab : labels.getD v 0 ∈ labels := by
    rw [List.getD_eq_getElem?_getD, List.getElem?_eq_getElem hv]; exact List.getElem_mem hv
  obtain ⟨h1, h2⟩ := cNodeRowC_eq N xp hxp query hq r0 hr0 v (labels.getD v 0) labels.length hv hmB
    ((inN es v).map fun p => (p, st.rows.getD p (emptyRow query.length)))
    (by
      intro pp hpp
      rw [List.mem_map] at hpp
      obtain ⟨p, _, rfl⟩ := hpp
      rw [hq]; exact hst.rows p)
    (hw _ hlab)
  unfold cStepC cStep
  simp only [h1]
  refine ⟨rfl, ?_, ?_⟩
  · intro p
    simp only []
    rw [getD_setIfInBounds]
    split
    · exact h2
    · exact hst.rows p
  · simp only []
    cases hmc : st.maxcol with
    | nil => intro mc hmc'; simp at hmc'
    | cons m0 rest =>
      intro mc hmc'
      simp only [List.mem_cons] at hmc'
      have hall := hst.mc
      rw [hmc] at hall
      rcases hmc' with rfl | hmc'
      · exact hall _ List.mem_cons_self
      · refine colUpdate_ok _ (v + 1) rest _ (fun x hx => hall x (List.mem_cons_of_mem _ hx)) ?_ mc hmc'
        intro c hc
        have hrow : CellsOK B n 0 (cNodeRow sc xp query r0 v (labels.getD v 0)
            ((inN es v).map fun p => (p, st.rows.getD p (emptyRow query.length)))).cells := h2
        have := cellsOK_all _ 0 (by omega) hrow c (List.mem_of_mem_tail hc)
        exact this.2

/-- X suffix clipping -/
theorem xSuffixC_eq (xs U : Int) (hxs : minScore ≤ xs ∧ xs ≤ 0) (hU : U ≤ 2147483647) (lastI : Nat) :
    ∀ (mcs : List (Int × Nat)) (cs : List Cell) (col : Nat) (mir : Int × Nat),
    (∀ mc ∈ mcs, 0 ≤ mc.1 ∧ mc.1 ≤ U) → (∀ c ∈ cs, c.score ≤ U) → (0 ≤ mir.1 ∧ mir.1 ≤ U) →
    xSuffixC xs lastI col mcs cs mir = some (xSuffix xs lastI col mcs cs mir) ∧
      (0 ≤ (xSuffix xs lastI col mcs cs mir).2.1 ∧ (xSuffix xs lastI col mcs cs mir).2.1 ≤ U) := by
  have hms := minScore_poa_i32
  intro mcs
  induction mcs with
  | nil => intro cs col mir _ _ hm; simp only [xSuffixC, xSuffix]; exact ⟨trivial, hm⟩
  | cons mc mcs ih =>
    intro cs col mir hmc hcs hm
    cases cs with
    | nil => simp only [xSuffixC, xSuffix]; exact ⟨trivial, hm⟩
    | cons c cs =>
      have h0 := hmc mc List.mem_cons_self
      have hc0 := hcs c List.mem_cons_self
      simp only [xSuffixC, xSuffix]
      by_cases hl : mc.2 = lastI
      · simp only [hl, if_true]
        obtain ⟨e1, e2⟩ := ih cs (col + 1) mir (fun x hx => hmc x (List.mem_cons_of_mem _ hx))
          (fun x hx => hcs x (List.mem_cons_of_mem _ hx)) hm
        rw [e1]
        exact ⟨rfl, e2⟩
      · simp only [hl, if_false]
        rw [add_ok ⟨by omega, by omega⟩]; simp only []
        have hmir1 : 0 ≤ (if mir.1 < (cmax c ⟨mc.1 + xs, .x mc.2⟩).score then ((cmax c ⟨mc.1 + xs, .x mc.2⟩).score, col) else mir).1 ∧
            (if mir.1 < (cmax c ⟨mc.1 + xs, .x mc.2⟩).score then ((cmax c ⟨mc.1 + xs, .x mc.2⟩).score, col) else mir).1 ≤ U := by
          have := cmax_score c ⟨mc.1 + xs, .x mc.2⟩
          simp only [] at this
          split
          · simp only []; omega
          · exact hm
        obtain ⟨e1, e2⟩ := ih cs (col + 1) _ (fun x hx => hmc x (List.mem_cons_of_mem _ hx))
          (fun x hx => hcs x (List.mem_cons_of_mem _ hx)) hmir1
        rw [e1]
        exact ⟨rfl, e2⟩

end

theorem poaEnv_num {sc : Sc} {xp xs yp ys : Int} {labels query : List Nat} {B : Int}
    (E : PoaEnv sc xp xs yp ys labels query B) : PNum sc B query.length :=
  ⟨E.B1, E.gap, E.twoB, E.nB⟩

theorem getD_replicate_emptyRow (m n p : Nat) : (Array.replicate m (emptyRow n)).getD p (emptyRow n) = emptyRow n := by
  simp only [Array.getD_eq_getD_getElem?, Array.getElem?_replicate]
  split <;> rfl

/-- **`Poa::custom` with `i32` scores: no overflow inside the envelope, the table is the unbounded mirror's** -/
theorem customTableC_eq {sc : Sc} {xp xs yp ys : Int} {labels query : List Nat} {B : Int}
    (E : PoaEnv sc xp xs yp ys labels query B) (es : WEdges)
    (hord : ∀ v ∈ topo labels.length es, v < labels.length) :
    customTableC sc xp xs yp ys labels es query = some (customTable sc xp xs yp ys labels es query) := by
  have N := poaEnv_num E
  have hB1 := E.B1
  have hms := minScore_poa_i32
  have hr0 := bRow0_ok N yp E.yp
  have hw : ∀ r ∈ labels, ∀ q ∈ query, -B ≤ sc.w r q ∧ sc.w r q ≤ B := fun r hr q hq => ⟨E.wlo r hr q hq, E.whi r hr q hq⟩
  have hnB0 : 0 ≤ (query.length : Int) * B := natCast_mul_nonneg _ (by omega)
  obtain ⟨hf1, hf2⟩ := foldlC_eq (cStepC sc xp labels es query (bRow0 sc.gap yp query.length))
    (cStep sc xp labels es query (bRow0 sc.gap yp query.length)) (CI B query.length)
    (topo labels.length es)
    { rows := Array.replicate labels.length (emptyRow query.length), maxcol := List.replicate (query.length + 1) ((0 : Int), 0) }
    ⟨fun p => by rw [getD_replicate_emptyRow]; exact emptyRow_ok B _,
     fun mc hmc => by rw [List.mem_replicate] at hmc; rw [hmc.2]; exact ⟨Int.le_refl 0, hnB0⟩⟩
    (fun v hv st hst => cStepC_eq N xp E.xp labels es query rfl _ hr0 E.mB hw st hst v (hord v hv))
  unfold customTableC customTable
  simp only [bRow0C_eq N yp E.yp, hf1]
  generalize (topo labels.length es).foldl (cStep sc xp labels es query (bRow0 sc.gap yp query.length))
    { rows := Array.replicate labels.length (emptyRow query.length), maxcol := List.replicate (query.length + 1) ((0 : Int), 0) } = st at hf2 ⊢
  have hcells : ∀ c ∈ (List.range (query.length + 1)).map
      (st.rows.getD ((topo labels.length es).getLastD 0) (emptyRow query.length)).get, c.score ≤ (query.length : Int) * B := by
    intro c hc
    rw [List.mem_map] at hc
    obtain ⟨j, hj, rfl⟩ := hc
    rw [List.mem_range] at hj
    have := get_ok (n := query.length) (by omega) _ (hf2.rows ((topo labels.length es).getLastD 0)) j
    exact Int.le_trans this.2 (col_le (by omega) (by omega))
  obtain ⟨hx1, hx2⟩ := xSuffixC_eq xs ((query.length : Int) * B) E.xs E.nB ((topo labels.length es).getLastD 0 + 1)
    st.maxcol _ 0 (0, 0) hf2.mc hcells ⟨Int.le_refl 0, hnB0⟩
  simp only [hx1]
  have hnB := E.nB
  have hys := E.ys
  rw [add_ok ⟨by omega, by omega⟩]

/-! ### `global_banded` -/

section
variable {sc : Sc} {B : Int} {n : Nat}

theorem bCand_eq_cCand (query : List Nat) (r0 : BRow) (v r : Nat) (preds : List (Nat × BRow)) (j : Nat) :
    bCand sc query r0 v r preds j = cCand sc mcell query r0 v r preds j := rfl

/-- the row of a node in `global_banded` (`start ≤ n`) -/
theorem bNodeRowC_eq (N : PNum sc B n) (xp : Int) (hxp : minScore ≤ xp ∧ xp ≤ 0) (query : List Nat) (hq : query.length = n)
    (r0 : BRow) (hr0 : Row0OK r0) (v r m : Nat) (hv : v < m) (hmB : (m : Int) * B ≤ 2147483647)
    (preds : List (Nat × BRow)) (hpreds : ∀ pp ∈ preds, RowOK B n pp.2)
    (hw : ∀ q ∈ query, -B ≤ sc.w r q ∧ sc.w r q ≤ B) (start end_ : Nat) (hs : start ≤ n) :
    bNodeRowC sc xp query r0 v r preds start end_ = some (bNodeRow sc xp query r0 v r preds start end_) ∧
      RowOK B n (bNodeRow sc xp query r0 v r preds start end_) := by
  have hB1 := N.B1
  have hms := minScore_poa_i32
  obtain ⟨he, hc0⟩ := edgeCellC_eq N xp hxp v m hv hmB
  have hsB := natCast_mul_nonneg start (show 0 ≤ B by omega)
  -- the first cell
  have hc0' : (if start = 0 then edgeCellC sc xp v else some mcell) =
      some (if start = 0 then cmax ⟨((v : Int) + 1) * sc.gap, .d none⟩ ⟨xp, .x 0⟩ else mcell) := by
    split
    · exact he
    · rfl
  have hc0b : minScore ≤ (if start = 0 then cmax ⟨((v : Int) + 1) * sc.gap, .d none⟩ ⟨xp, .x 0⟩ else mcell : Cell).score ∧
      (if start = 0 then cmax ⟨((v : Int) + 1) * sc.gap, .d none⟩ ⟨xp, .x 0⟩ else mcell : Cell).score ≤ 0 := by
    split
    · exact hc0
    · simp only [mcell]; omega
  have hcand : ∀ j ∈ List.range' (start + 1) (min query.length end_ - start),
      candC sc mcell query r0 v r preds j = some (bCand sc query r0 v r preds j) ∧ InR B n j (bCand sc query r0 v r preds j) := by
    intro j hj
    rw [List.mem_range'_1] at hj
    rw [bCand_eq_cCand]
    refine candC_eq N mcell ⟨by simp only [mcell]; omega, by simp only [mcell]; omega⟩ query r0 hr0 v r preds hpreds j
      (by omega) (by omega) (hw _ ?_)
    rw [List.getD_eq_getElem?_getD, List.getElem?_eq_getElem (by omega)]
    exact List.getElem_mem _
  have hcok : CellsOK B n (start + 1) ((List.range' (start + 1) (min query.length end_ - start)).map (bCand sc query r0 v r preds)) :=
    cellsOK_map_range' _ _ _ (fun j h1 h2 => (hcand j (by rw [List.mem_range'_1]; omega)).2)
  obtain ⟨hi1, hi2⟩ := insScanC_eq N (.i (some v)) _ start
    (if start = 0 then cmax ⟨((v : Int) + 1) * sc.gap, .d none⟩ ⟨xp, .x 0⟩ else mcell) ⟨by omega, by omega⟩ hcok
  unfold bNodeRowC bNodeRow
  rw [hc0']; simp only []
  rw [mapC_eq _ _ _ (fun j hj => (hcand j hj).1)]; simp only []
  rw [hi1]
  refine ⟨rfl, ?_⟩
  simp only [RowOK, CellsOK]
  exact ⟨⟨hs, by omega, by omega⟩, hi2⟩

theorem bUpdate_le : ∀ (cells : List Cell) (j0 : Nat) (st : Nat × Int), CellsOK B n j0 cells → st.1 ≤ n →
    (bUpdate cells j0 st).1 ≤ n := by
  intro cells
  induction cells with
  | nil => intro j0 st _ h; simpa [bUpdate] using h
  | cons c cs ih =>
    intro j0 st hc hst
    unfold bUpdate
    rw [List.zipIdx_cons, List.foldl_cons]
    have := ih (j0 + 1) (if c.score > st.2 then (j0, c.score) else st) hc.2 (by
      split
      · exact hc.1.1
      · exact hst)
    unfold bUpdate at this
    exact this

/-- invariant of the loop over the nodes in `global_banded` -/
structure BI (B : Int) (n : Nat) (st : BState) : Prop where
  rows : ∀ p, RowOK B n (st.rows.getD p (emptyRow n))
  msj : st.msj ≤ n

theorem bStepC_eq (N : PNum sc B n) (xp : Int) (hxp : minScore ≤ xp ∧ xp ≤ 0) (labels : List Nat) (es : WEdges)
    (query : List Nat) (hq : query.length = n) (bw : Nat) (r0 : BRow) (hr0 : Row0OK r0)
    (hmB : (labels.length : Int) * B ≤ 2147483647)
    (hw : ∀ r ∈ labels, ∀ q ∈ query, -B ≤ sc.w r q ∧ sc.w r q ≤ B)
    (st : BState) (hst : BI B n st) (v : Nat) (hv : v < labels.length) :
    bStepC sc xp labels es query bw r0 st v = some (bStep sc xp labels es query bw r0 st v) ∧
      BI B n (bStep sc xp labels es query bw r0 st v) := by
  have hB1 := N.B1
  have hlab : labels.getD v 0 ∈ labels := by
    rw [List.getD_eq_getElem?_getD, List.getElem?_eq_getElem hv]; exact List.getElem_mem hv
  have hmsj := hst.msj
  have hstart : (if bw > st.msj then 0 else st.msj - bw) ≤ n := by split <;> omega
  obtain ⟨h1, h2⟩ := bNodeRowC_eq N xp hxp query hq r0 hr0 v (labels.getD v 0) labels.length hv hmB
    ((inN es v).map fun p => (p, st.rows.getD p (emptyRow query.length)))
    (by
      intro pp hpp
      rw [List.mem_map] at hpp
      obtain ⟨p, _, rfl⟩ := hpp
      rw [hq]; exact hst.rows p)
    (hw _ hlab) (if bw > st.msj then 0 else st.msj - bw) (st.msj + bw) hstart
  unfold bStepC bStep
  simp only [h1]
  refine ⟨trivial, ?_, ?_⟩
  · intro p
    simp only []
    rw [getD_setIfInBounds]
    split
    · exact h2
    · exact hst.rows p
  · simp only []
    have hrow : CellsOK B n (if bw > st.msj then 0 else st.msj - bw)
        (bNodeRow sc xp query r0 v (labels.getD v 0) ((inN es v).map fun p => (p, st.rows.getD p (emptyRow query.length)))
          (if bw > st.msj then 0 else st.msj - bw) (st.msj + bw)).cells := h2
    refine bUpdate_le (B := B) _ _ _ ?_ hmsj
    generalize (bNodeRow sc xp query r0 v (labels.getD v 0) ((inN es v).map fun p => (p, st.rows.getD p (emptyRow query.length)))
          (if bw > st.msj then 0 else st.msj - bw) (st.msj + bw)).cells = cells at hrow
    cases cells with
    | nil => trivial
    | cons c cs => exact hrow.2

end

/-- **`Poa::global_banded` with `i32` scores: no overflow inside the envelope, the rows are the unbounded mirror's** -/
theorem bandedRowsC_eq {sc : Sc} {xp xs yp ys : Int} {labels query : List Nat} {B : Int}
    (E : PoaEnv sc xp xs yp ys labels query B) (es : WEdges) (bw : Nat)
    (hord : ∀ v ∈ topo labels.length es, v < labels.length) :
    bandedRowsC sc xp yp labels es query bw =
      some (bRow0 sc.gap yp query.length, bandedRows sc xp yp labels es query bw) := by
  have N := poaEnv_num E
  have hr0 := bRow0_ok N yp E.yp
  have hw : ∀ r ∈ labels, ∀ q ∈ query, -B ≤ sc.w r q ∧ sc.w r q ≤ B := fun r hr q hq => ⟨E.wlo r hr q hq, E.whi r hr q hq⟩
  obtain ⟨hf1, _⟩ := foldlC_eq (bStepC sc xp labels es query bw (bRow0 sc.gap yp query.length))
    (bStep sc xp labels es query bw (bRow0 sc.gap yp query.length)) (BI B query.length)
    (topo labels.length es)
    { rows := Array.replicate labels.length (emptyRow query.length), msj := 0, msr := minScore }
    ⟨fun p => by rw [getD_replicate_emptyRow]; exact emptyRow_ok B _, Nat.zero_le _⟩
    (fun v hv st hst => bStepC_eq N xp E.xp labels es query rfl bw _ hr0 E.mB hw st hst v (hord v hv))
  unfold bandedRowsC bandedRows
  simp only [bRow0C_eq N yp E.yp, hf1]

end RbV.Poa.Model.I32P
