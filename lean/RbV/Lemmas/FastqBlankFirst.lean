import RbV.Model.Fastq
import RbV.Lemmas.Fastx
import RbV.Lemmas.UniWs
/-!
# The domain of the FASTQ header split: "the first white-space byte of the trimmed header is a blank"  (C11, source tie)

`blankFirst (trimEnd l.tail)` is what the property's domain (ids without white space) fixes about a header line `l`; it is all
the source-text theorems use of the pattern of `splitn(2, <pattern>)` in `fastq::Reader::read` (`Thm/GenSrcFastq.lean`).  Here:
every line of the file the writer produces for valid records, **and of every prefix of it**, has that shape (`goodLine`) —
descriptions may contain any white space but LF after the first blank.  Core Lean only.
-/
namespace RbV.Fastx

/-- the first white-space byte, if any, is a blank -/
def blankFirst : Bytes → Bool
  | [] => true
  | b :: r => if isWs b then b == 32 else blankFirst r

/-- a line in the domain of the FASTQ header split -/
def goodLine (l : Bytes) : Prop := blankFirst (trimEnd l.tail) = true

theorem blankFirst_nows (a : Bytes) (h : ∀ b ∈ a, isWs b = false) : blankFirst a = true := by
  induction a with
  | nil => rfl
  | cons b r ih =>
    have hb := h b (by simp)
    simp only [blankFirst, hb, Bool.false_eq_true, if_false]
    exact ih fun x hx => h x (by simp [hx])

theorem blankFirst_blank (a d : Bytes) (h : ∀ b ∈ a, isWs b = false) : blankFirst (a ++ 32 :: d) = true := by
  induction a with
  | nil => simp [blankFirst, isWs]
  | cons b r ih =>
    have hb := h b (by simp)
    simp only [List.cons_append, blankFirst, hb, Bool.false_eq_true, if_false]
    exact ih fun x hx => h x (by simp [hx])

/-- a prefix of an all-white-space string is all white space -/
theorem all_ws_prefix {p s : Bytes} (hp : p <+: s) (h : s.all isWs = true) : p.all isWs = true := by
  obtain ⟨t, rfl⟩ := hp
  simp only [List.all_append, Bool.and_eq_true] at h
  exact h.1

/-- the shape survives cutting: a prefix of a string whose trimmed form has a blank as first white space has one, too -/
theorem blankFirst_trimEnd_prefix : ∀ (s p : Bytes), p <+: s → blankFirst (trimEnd s) = true → blankFirst (trimEnd p) = true := by
  intro s
  induction s with
  | nil =>
    intro p hp _
    have : p = [] := List.prefix_nil.mp hp
    subst this; rfl
  | cons b r ih =>
    intro p hp hs
    cases p with
    | nil => rfl
    | cons c p' =>
      obtain ⟨rfl, hp'⟩ := List.cons_prefix_cons.mp hp
      by_cases hw : isWs c = true
      · by_cases ht : trimEnd p' = []
        · simp [trimEnd, ht, hw, blankFirst]
        · have htr : trimEnd r ≠ [] := by
            intro h0
            exact ht ((trimEnd_eq_nil_iff _).mpr (all_ws_prefix hp' ((trimEnd_eq_nil_iff _).mp h0)))
          have e1 : trimEnd (c :: r) = c :: trimEnd r := by
            simp only [trimEnd]
            cases h : trimEnd r with
            | nil => exact absurd h htr
            | cons => simp
          have e2 : trimEnd (c :: p') = c :: trimEnd p' := by
            simp only [trimEnd]
            cases h : trimEnd p' with
            | nil => exact absurd h ht
            | cons => simp
          rw [e1] at hs
          rw [e2]
          simpa [blankFirst, hw] using hs
      · have hw' : isWs c = false := by simpa using hw
        have e1 : trimEnd (c :: r) = c :: trimEnd r := by simp [trimEnd, hw']
        have e2 : trimEnd (c :: p') = c :: trimEnd p' := by simp [trimEnd, hw']
        rw [e1] at hs
        rw [e2]
        simp only [blankFirst, hw', Bool.false_eq_true, if_false] at hs ⊢
        exact ih p' hp' hs

theorem goodLine_prefix {l l' : Bytes} (hp : l <+: l') (h : goodLine l') : goodLine l := by
  unfold goodLine at *
  apply blankFirst_trimEnd_prefix l'.tail l.tail _ h
  cases l with
  | nil => exact List.nil_prefix
  | cons b t =>
    cases l' with
    | nil => simp at hp
    | cons c t' => exact (List.cons_prefix_cons.mp hp).2

/-! ## lines of a prefix are prefixes of the lines -/

/-- line by line: a prefix -/
def PrefLines : List Bytes → List Bytes → Prop
  | [], _ => True
  | _ :: _, [] => False
  | a :: as, b :: bs => a <+: b ∧ PrefLines as bs

theorem PrefLines.mem {xs ys : List Bytes} (h : PrefLines xs ys) : ∀ l ∈ xs, ∃ l' ∈ ys, l <+: l' := by
  induction xs generalizing ys with
  | nil => intro l hl; cases hl
  | cons a as ih =>
    cases ys with
    | nil => exact absurd h (by simp [PrefLines])
    | cons b bs =>
      obtain ⟨h1, h2⟩ := h
      intro l hl
      rcases List.mem_cons.mp hl with rfl | hl
      · exact ⟨b, by simp, h1⟩
      · obtain ⟨l', hl', hp⟩ := ih h2 l hl
        exact ⟨l', by simp [hl'], hp⟩

theorem prefLines_take : ∀ (f : Bytes) (n : Nat), PrefLines (splitLines (f.take n)) (splitLines f) := by
  intro f
  induction f with
  | nil => intro n; simp [splitLines, PrefLines]
  | cons b r ih =>
    intro n
    cases n with
    | zero => simp [splitLines, PrefLines]
    | succ n =>
      have := ih n
      simp only [List.take_succ_cons, splitLines]
      by_cases hb : b = 10
      · simp only [hb, if_true]
        exact ⟨List.prefix_refl _, this⟩
      · simp only [hb, if_false]
        cases hx : splitLines (r.take n) with
        | nil =>
          cases hy : splitLines r with
          | nil => exact ⟨List.prefix_refl _, trivial⟩
          | cons m0 ms => exact ⟨by simp [List.cons_prefix_cons], trivial⟩
        | cons l0 ls =>
          rw [hx] at this
          cases hy : splitLines r with
          | nil => rw [hy] at this; exact absurd this (by simp [PrefLines])
          | cons m0 ms =>
            rw [hy] at this
            exact ⟨List.cons_prefix_cons.mpr ⟨rfl, this.1⟩, this.2⟩

/-- every line of a cut file is a prefix of a line of the file -/
theorem splitLines_take_prefix (f : Bytes) (n : Nat) : ∀ l ∈ splitLines (f.take n), ∃ l' ∈ splitLines f, l <+: l' :=
  (prefLines_take f n).mem

/-! ## the lines the FASTQ writer produces -/

theorem goodLine_piece (x : Bytes) (hx : ∀ b ∈ x, isWs b = false) : goodLine (x ++ [10]) := by
  unfold goodLine
  cases x with
  | nil => simp [trimEnd, isWs, blankFirst]
  | cons b t =>
    have ht : ∀ y ∈ t, isWs y = false := fun y hy => hx y (by simp [hy])
    simp only [List.cons_append, List.tail_cons]
    rw [trimEnd_piece t [10] ht (Or.inl rfl)]
    exact blankFirst_nows t ht

theorem goodLine_header (c : Nat) (id : Bytes) (desc : Option Bytes) (hid : ∀ b ∈ id, isWs b = false)
    (hd : ∀ d, desc = some d → d ≠ [] ∧ 10 ∉ d ∧ NoTrailWs d) : goodLine (c :: hdrText id desc ++ [10]) := by
  unfold goodLine
  simp only [List.cons_append, List.tail_cons]
  rw [trimEnd_append_ws _ [10] (hdrText_noTrail id desc hid hd) (by simp [isWs])]
  cases desc with
  | none => simpa [hdrText] using blankFirst_nows id hid
  | some d => simpa [hdrText] using blankFirst_blank id d hid

/-- **every line of the file the FASTQ writer produces for valid records is in the domain of the header split** -/
theorem goodLine_writeFastq (recs : List FqRec) (hv : ∀ r ∈ recs, ValidFq r) :
    ∀ l ∈ splitLines (writeFastq recs), goodLine l := by
  induction recs with
  | nil => intro l hl; simp [writeFastq, splitLines] at hl
  | cons r rs ih =>
    have v := hv r (by simp)
    have hw : writeFastq (r :: rs) = layoutFastqRec r (writerLayout r) ++ writeFastq rs := by
      rw [writeFastq_eq_layout, writeFastq_eq_layout]; simp [layoutFastq]
    rw [hw, splitLines_fqRec r (writerLayout r) (writeFastq rs) v (writerLayout_ok r v)]
    intro l hl
    simp only [writerLayout, List.map_cons, List.map_nil, List.cons_append, List.nil_append, List.mem_cons, List.append_nil] at hl
    rcases hl with rfl | rfl | rfl | rfl | hl
    · exact goodLine_header 64 r.id r.desc v.id_nows v.desc_ok
    · exact goodLine_piece r.seq v.seq_ok
    · simp [goodLine, trimEnd, isWs, blankFirst]
    · exact goodLine_piece r.qual v.qual_ok
    · exact ih (fun x hx => hv x (by simp [hx])) l hl

/-- … and so is every line of every prefix of that file -/
theorem goodLine_writeFastq_take (recs : List FqRec) (hv : ∀ r ∈ recs, ValidFq r) (n : Nat) :
    ∀ l ∈ splitLines ((writeFastq recs).take n), goodLine l := by
  intro l hl
  obtain ⟨l', hl', hp⟩ := splitLines_take_prefix _ n l hl
  exact goodLine_prefix hp (goodLine_writeFastq recs hv l' hl')

end RbV.Fastx
