import RbV.Model.RankSelect
import RbV.Spec.RankSelect
import RbV.Lemmas.RankSelect
/-!
C17 [A]/[B] — the mirror model of `RankSelect` (`RbV/Model/RankSelect.lean`) equals the reference functions of
`RbV/Spec/RankSelect.lean`: superblock table, `rank_1`/`rank_0`, `select_1`/`select_0`.  Core Lean only.
-/
namespace RbV.Lemmas.RankSelectModel
open RbV.Model.RankSelect RbV.Spec.RankSelect RbV.Lemmas.RankSelect

/-! ### counting in prefixes -/

/-- number of `t`-bits among the first `m` bits -/
def cnt (t : Bool) (bits : List Bool) (m : Nat) : Nat := (bits.take m).count t

theorem cnt_add (t : Bool) (bits : List Bool) (m d : Nat) :
    cnt t bits (m + d) = cnt t bits m + ((bits.drop m).take d).count t := by
  unfold cnt; rw [List.take_add, List.count_append]

theorem cnt_le (t : Bool) (bits : List Bool) (m : Nat) : cnt t bits m ≤ m := by
  unfold cnt
  have h1 := List.count_le_length (a := t) (l := bits.take m)
  have h2 := List.length_take (i := m) (l := bits)
  omega

theorem cnt_mono (t : Bool) (bits : List Bool) {m m' : Nat} (h : m ≤ m') : cnt t bits m ≤ cnt t bits m' := by
  obtain ⟨d, rfl⟩ := Nat.exists_eq_add_of_le h
  rw [cnt_add]; omega

theorem count_true_add_false (l : List Bool) : l.count true + l.count false = l.length := by
  induction l with
  | nil => rfl
  | cons x xs ih => cases x <;> simp <;> omega

theorem cnt_true_add_false (bits : List Bool) (m : Nat) (h : m ≤ bits.length) :
    cnt true bits m + cnt false bits m = m := by
  unfold cnt
  rw [count_true_add_false, List.length_take]; omega

theorem cnt_ge_length (t : Bool) (bits : List Bool) (m : Nat) (h : bits.length ≤ m) :
    cnt t bits m = bits.count t := by
  unfold cnt; rw [List.take_of_length_le h]

theorem cnt_succ (t : Bool) (bits : List Bool) (m : Nat) (x : Bool) (h : bits[m]? = some x) :
    cnt t bits (m + 1) = cnt t bits m + (if x = t then 1 else 0) := by
  rw [cnt_add]
  have : (bits.drop m).take 1 = [x] := by
    apply List.ext_getElem?
    intro i
    rw [List.getElem?_take]
    cases i with
    | zero => simp [h]
    | succ i => simp
  rw [this]
  by_cases hx : x = t <;> simp [hx]

theorem rank_eq_cnt (t : Bool) (bits : List Bool) (i : Nat) : rank t bits i = cnt t bits (i + 1) := rfl

/-! ### blocks -/

theorem cnt_block (t : Bool) (bits : List Bool) (B : Nat) :
    cnt t bits (8 * (B + 1)) = cnt t bits (8 * B) + (getBlock bits B).count t := by
  have : 8 * (B + 1) = 8 * B + 8 := by omega
  rw [this, cnt_add]; rfl

theorem getBlock_length_le (bits : List Bool) (B : Nat) : (getBlock bits B).length ≤ 8 := by
  unfold getBlock; rw [List.length_take]; omega

theorem getBlock_length_full (bits : List Bool) (B : Nat) (h : 8 * (B + 1) ≤ bits.length) :
    (getBlock bits B).length = 8 := by
  unfold getBlock; rw [List.length_take, List.length_drop]; omega

theorem getBlock_getD (bits : List Bool) (B i : Nat) (hi : i < 8) :
    (getBlock bits B).getD i false = (bits[8 * B + i]?).getD false := by
  unfold getBlock
  rw [List.getD_eq_getElem?_getD, List.getElem?_take, if_pos hi, List.getElem?_drop]

/-- the per-block count used by `superblocks` / `select_x` -/
def blkCount (t : Bool) (blk : List Bool) : Nat := if t then countOnes blk else countZeros blk

theorem blkCount_ge (t : Bool) (bits : List Bool) (B : Nat) :
    (getBlock bits B).count t ≤ blkCount t (getBlock bits B) := by
  have h1 := count_true_add_false (getBlock bits B)
  have h2 := getBlock_length_le bits B
  cases t <;> simp only [blkCount, countOnes, countZeros] <;> simp <;> omega

theorem blkCount_full (t : Bool) (bits : List Bool) (B : Nat) (h : 8 * (B + 1) ≤ bits.length) :
    blkCount t (getBlock bits B) = (getBlock bits B).count t := by
  have h1 := count_true_add_false (getBlock bits B)
  have h2 := getBlock_length_full bits B h
  cases t <;> simp only [blkCount, countOnes, countZeros] <;> simp <;> omega

/-! ### the superblock table -/

/-- the running rank of `superblocks` after `B` blocks (for `t = false` the zero padding is counted) -/
def runRank (t : Bool) (bits : List Bool) (B : Nat) : Nat :=
  if t then cnt true bits (8 * B) else 8 * B - cnt true bits (8 * B)

theorem runRank_succ (t : Bool) (bits : List Bool) (B : Nat) :
    runRank t bits (B + 1) = runRank t bits B + blkCount t (getBlock bits B) := by
  have h1 := cnt_block true bits B
  have h2 := cnt_le true bits (8 * B)
  have h3 := getBlock_length_le bits B
  have h4 := List.count_le_length (a := true) (l := getBlock bits B)
  cases t <;> simp only [runRank, blkCount, countOnes, countZeros] <;> simp <;> omega

theorem runRank_eq_cnt (t : Bool) (bits : List Bool) (B : Nat) (h : 8 * B ≤ bits.length) :
    runRank t bits B = cnt t bits (8 * B) := by
  have := cnt_true_add_false bits (8 * B) h
  cases t <;> simp [runRank] <;> omega

/-- invariant of the `superblocks` loop after `B` blocks; `q = s / 8` blocks per superblock -/
structure SbInv (t : Bool) (bits : List Bool) (q : Nat) (B : Nat) (st : SbState) : Prop where
  hi : st.i = 8 * B
  hrank : st.rank = runRank t bits B
  hlen1 : B ≤ st.out.length * q
  hlen2 : st.out.length * q < B + q
  hval : ∀ m, m < st.out.length → (st.out.getD m (.first 0)).val = runRank t bits (m * q)

theorem getD_append_lt {α} (l l' : List α) (m : Nat) (d : α) (h : m < l.length) :
    (l ++ l').getD m d = l.getD m d := by
  simp [List.getD_eq_getElem?_getD, List.getElem?_append_left h]

theorem getD_append_len {α} (l : List α) (x d : α) : (l ++ [x]).getD l.length d = x := by
  simp [List.getD_eq_getElem?_getD]

theorem sbInv_step (t : Bool) (bits : List Bool) (q : Nat) (hq : 0 < q) (B : Nat) (st : SbState)
    (h : SbInv t bits q B st) : SbInv t bits q (B + 1) (sbStep t (8 * q) (getBlock bits) st B) := by
  obtain ⟨hi, hrank, hlen1, hlen2, hval⟩ := h
  have hmod : st.i % (8 * q) = 8 * (B % q) := by rw [hi, Nat.mul_mod_mul_left]
  have hbc : (if t then countOnes (getBlock bits B) else countZeros (getBlock bits B))
      = blkCount t (getBlock bits B) := rfl
  by_cases h0 : B % q = 0
  · -- a new entry is pushed
    have hB : B = st.out.length * q := by
      have hd := Nat.div_add_mod B q
      rw [h0, Nat.add_zero, Nat.mul_comm] at hd
      have h1 : B / q ≤ st.out.length := by
        apply Nat.le_of_mul_le_mul_right (c := q) _ hq; omega
      have h2 : st.out.length < B / q + 1 := by
        apply Nat.lt_of_mul_lt_mul_right (a := q); rw [Nat.succ_mul]; omega
      have : st.out.length = B / q := by omega
      rw [this]; exact hd.symm
    have hc : st.i % (8 * q) = 0 := by omega
    unfold sbStep
    simp only [hc, if_true, hbc]
    refine ⟨by simp only [hi]; omega, by simp only [hrank, runRank_succ], ?_, ?_, ?_⟩
    · simp only [List.length_append, List.length_singleton, Nat.succ_mul]; omega
    · simp only [List.length_append, List.length_singleton, Nat.succ_mul]; omega
    · intro m hm
      simp only [List.length_append, List.length_singleton] at hm
      by_cases hm' : m < st.out.length
      · rw [getD_append_lt _ _ _ _ hm']; exact hval m hm'
      · have : m = st.out.length := by omega
        subst this
        rw [getD_append_len, ← hB]
        split <;> simp [SbRank.val, hrank]
  · have hc : ¬ st.i % (8 * q) = 0 := by omega
    unfold sbStep
    simp only [hc, if_false, hbc]
    have : B ≠ st.out.length * q := by
      intro he; rw [he, Nat.mul_mod_left] at h0; exact h0 rfl
    refine ⟨by simp only [hi]; omega, by simp only [hrank, runRank_succ], ?_, ?_, hval⟩
    · show B + 1 ≤ st.out.length * q
      omega
    · show st.out.length * q < B + 1 + q
      omega

theorem sbInv_fold (t : Bool) (bits : List Bool) (q : Nat) (hq : 0 < q) (B : Nat) :
    SbInv t bits q B ((List.range B).foldl (sbStep t (8 * q) (getBlock bits)) {}) := by
  induction B with
  | zero =>
    refine ⟨rfl, ?_, by simp, by simpa using hq, by intro m hm; simp at hm⟩
    cases t <;> simp [runRank, cnt]
  | succ B ih =>
    rw [List.range_succ, List.foldl_append]
    exact sbInv_step t bits q hq B _ ih

theorem s_eq (k : Nat) : k * 32 = 8 * (4 * k) := by omega

theorem superblocks_inv (t : Bool) (bits : List Bool) (k : Nat) (hk : 1 ≤ k) :
    let sbs := superblocks t bits.length (k * 32) (getBlock bits)
    (bits.length + 7) / 8 ≤ sbs.length * (4 * k) ∧ sbs.length * (4 * k) < (bits.length + 7) / 8 + 4 * k ∧
    ∀ m, m < sbs.length → (sbs.getD m (.first 0)).val = runRank t bits (m * (4 * k)) := by
  have h := sbInv_fold t bits (4 * k) (by omega) ((bits.length + 7) / 8)
  simp only [superblocks, s_eq]
  exact ⟨h.hlen1, h.hlen2, h.hval⟩

theorem superblocks_length (t : Bool) (bits : List Bool) (k : Nat) (hk : 1 ≤ k) :
    (superblocks t bits.length (k * 32) (getBlock bits)).length = (bits.length + k * 32 - 1) / (k * 32) := by
  obtain ⟨h1, h2, -⟩ := superblocks_inv t bits k hk
  generalize (superblocks t bits.length (k * 32) (getBlock bits)).length = c at *
  symm
  have hs : 0 < k * 32 := by omega
  rw [Nat.div_eq_iff hs]
  have e1 : c * (k * 32) = 8 * (c * (4 * k)) := by
    rw [s_eq, Nat.mul_left_comm]
  rw [e1]
  omega

theorem lt_superblocks_length (t : Bool) (bits : List Bool) (k : Nat) (hk : 1 ≤ k) (m : Nat) :
    m < (superblocks t bits.length (k * 32) (getBlock bits)).length ↔ m * (k * 32) < bits.length := by
  rw [superblocks_length t bits k hk]
  have hs : 0 < k * 32 := by omega
  rw [← Nat.succ_le_iff, Nat.le_div_iff_mul_le hs, Nat.succ_mul]
  omega

theorem superblocks_val' (t : Bool) (bits : List Bool) (k : Nat) (hk : 1 ≤ k) (m : Nat)
    (hm : m * (k * 32) < bits.length) :
    ((superblocks t bits.length (k * 32) (getBlock bits)).getD m (.first 0)).val = cnt t bits (m * (k * 32)) := by
  obtain ⟨-, -, h3⟩ := superblocks_inv t bits k hk
  have e1 : m * (k * 32) = 8 * (m * (4 * k)) := by
    rw [s_eq, Nat.mul_left_comm]
  rw [h3 m ((lt_superblocks_length t bits k hk m).mpr hm), runRank_eq_cnt, e1]
  omega

theorem superblocks_val (t : Bool) (bits : List Bool) (k : Nat) (hk : 1 ≤ k) (m : Nat)
    (hm : m * (k * 32) < bits.length) :
    ((superblocks t bits.length (k * 32) (getBlock bits)).getD m (.first 0)).val
      = (bits.take (m * (k * 32))).count t :=
  superblocks_val' t bits k hk m hm

/-! ### rank -/

theorem foldl_countOnes (bits : List Bool) (lo len r0 : Nat) :
    (List.range' lo len).foldl (fun r blk => r + countOnes (getBlock bits blk)) r0 + cnt true bits (8 * lo)
      = r0 + cnt true bits (8 * (lo + len)) := by
  induction len generalizing lo r0 with
  | zero => simp
  | succ len ih =>
    rw [List.range'_succ, List.foldl_cons]
    have h1 := ih (lo + 1) (r0 + countOnes (getBlock bits lo))
    have h2 := cnt_block true bits lo
    have e : lo + (len + 1) = lo + 1 + len := by omega
    rw [e]
    simp only [countOnes] at *
    omega

theorem div_s_mul (k i : Nat) : i / (k * 32) * (k * 32) / 8 = i / (k * 32) * (4 * k) := by
  rw [s_eq, Nat.mul_left_comm, Nat.mul_div_cancel_left _ (by omega : 0 < 8)]

theorem rank1_correct (bits : List Bool) (k : Nat) (hk : 1 ≤ k) (i : Nat) :
    rank1 bits.length (k * 32) (getBlock bits) (superblocks true bits.length (k * 32) (getBlock bits)) i
      = rankRef true bits i := by
  unfold rank1 rankRef
  by_cases hi : i < bits.length
  · have hge : ¬ i ≥ bits.length := by omega
    simp only [hge, hi, if_true, if_false, Option.some.injEq]
    have hs : 0 < k * 32 := by omega
    have hsb : i / (k * 32) * (k * 32) ≤ i := Nat.div_mul_le_self _ _
    rw [superblocks_val' true bits k hk (i / (k * 32)) (by omega), div_s_mul]
    have e1 : i / (k * 32) * (k * 32) = 8 * (i / (k * 32) * (4 * k)) := by
      rw [s_eq, Nat.mul_left_comm]
    rw [e1] at hsb ⊢
    generalize i / (k * 32) * (4 * k) = lo at *
    have hf := foldl_countOnes bits lo (i / 8 - lo)
      (cnt true bits (8 * lo) + countOnes (List.take (i % 8 + 1) (getBlock bits (i / 8))))
    have e2 : lo + (i / 8 - lo) = i / 8 := by omega
    rw [e2] at hf
    have hb : (getBlock bits (i / 8)).take (i % 8 + 1) = (bits.drop (8 * (i / 8))).take (i % 8 + 1) := by
      unfold getBlock; rw [List.take_take]; congr 1; omega
    have h3 := cnt_add true bits (8 * (i / 8)) (i % 8 + 1)
    rw [← hb] at h3
    have e3 : 8 * (i / 8) + (i % 8 + 1) = i + 1 := by omega
    rw [e3] at h3
    rw [rank_eq_cnt]
    simp only [countOnes] at *
    omega
  · have hge : i ≥ bits.length := by omega
    simp [hge, hi]

theorem rank0_correct (bits : List Bool) (k : Nat) (hk : 1 ≤ k) (i : Nat) :
    rank0 bits.length (k * 32) (getBlock bits) (superblocks true bits.length (k * 32) (getBlock bits)) i
      = rankRef false bits i := by
  unfold rank0
  rw [rank1_correct bits k hk i]
  unfold rankRef
  by_cases hi : i < bits.length
  · simp only [hi, if_true, Option.map_some, Option.some.injEq]
    have := cnt_true_add_false bits (i + 1) (by omega)
    simp only [rank_eq_cnt]; omega
  · simp [hi]

/-! ### select -/

theorem cnt_le_count (t : Bool) (bits : List Bool) (m : Nat) : cnt t bits m ≤ bits.count t := by
  by_cases h : m ≤ bits.length
  · have := cnt_mono t bits h
    rwa [cnt_ge_length t bits bits.length (Nat.le_refl _)] at this
  · rw [cnt_ge_length t bits m (by omega)]; exact Nat.le_refl _

theorem lt_first (e : SbRank) (j : Nat) : e.lt (.first j) = true ↔ e.val < j := by
  cases e <;> simp [SbRank.lt, SbRank.val] <;> exact decide_eq_true_iff

theorem lt_first_false (e : SbRank) (j : Nat) : e.lt (.first j) = false ↔ j ≤ e.val := by
  rw [← Bool.not_eq_true, lt_first]; omega

theorem takeWhile_length_eq {α} (f : α → Bool) (d : α) (l : List α) (c : Nat) (hc : c ≤ l.length)
    (h1 : ∀ m, m < c → f (l.getD m d) = true) (h2 : c < l.length → f (l.getD c d) = false) :
    (l.takeWhile f).length = c := by
  induction l generalizing c with
  | nil => simp at hc; simp [hc]
  | cons x xs ih =>
    cases c with
    | zero =>
      have := h2 (by simp)
      simp only [List.getD_cons_zero] at this
      simp [this]
    | succ c =>
      have hx := h1 0 (by omega)
      simp only [List.getD_cons_zero] at hx
      simp only [List.takeWhile_cons, hx, if_true, List.length_cons, Nat.add_right_cancel_iff]
      apply ih c (by simpa using hc)
      · intro m hm; have := h1 (m + 1) (by omega); simpa using this
      · intro h; have := h2 (by simpa using h); simpa using this

theorem length_takeWhile_le {α} (f : α → Bool) (l : List α) : (l.takeWhile f).length ≤ l.length := by
  induction l with
  | nil => simp
  | cons x xs ih =>
    rw [List.takeWhile_cons]
    split <;> simp <;> omega

theorem getBlock_getD_eq (bits : List Bool) (B i : Nat) (x : Bool) (hi : i < 8) (h : bits[8 * B + i]? = some x) :
    (getBlock bits B).getD i false = x := by
  rw [getBlock_getD bits B i hi, h]; rfl

theorem scan_found (bits : List Bool) (b : Bool) (j B p' : Nat) (hp8 : p' < 8)
    (hbit : bits[8 * B + p']? = some b) (hj : cnt b bits (8 * B + p' + 1) = j) :
    ∀ fuel i rank, i ≤ p' → p' < i + fuel → rank = cnt b bits (8 * B + i) →
      scanBits (getBlock bits B) b j fuel i rank = .found p' := by
  have hlen : 8 * B + p' < bits.length := (List.getElem?_eq_some_iff.mp hbit).1
  have hjp := cnt_succ b bits (8 * B + p') b hbit
  simp only [if_true] at hjp
  intro fuel
  induction fuel with
  | zero => intro i rank h1 h2; omega
  | succ fuel ih =>
    intro i rank h1 h2 hr
    have hx : bits[8 * B + i]? = some (bits[8 * B + i]'(by omega)) := List.getElem?_eq_getElem _
    generalize bits[8 * B + i]'(by omega) = x at hx
    have hg := getBlock_getD_eq bits B i x (by omega) hx
    have hs := cnt_succ b bits (8 * B + i) x hx
    simp only [scanBits, hg]
    by_cases hip : i = p'
    · subst hip
      have : rank + (if x = b then 1 else 0) = j := by omega
      simp [this]
    · have hm := cnt_mono b bits (show 8 * B + i + 1 ≤ 8 * B + p' by omega)
      have : ¬ rank + (if x = b then 1 else 0) = j := by omega
      simp only [this, if_false]
      exact ih (i + 1) _ (by omega) (by omega) (by rw [hr]; exact hs.symm)

theorem scan_notFound (bits : List Bool) (b : Bool) (j B : Nat) (hlt : bits.count b < j) :
    ∀ fuel i rank, i + fuel ≤ 8 → 8 * B + i + fuel ≤ bits.length → rank = cnt b bits (8 * B + i) →
      ∃ r, scanBits (getBlock bits B) b j fuel i rank = .notFound r := by
  intro fuel
  induction fuel with
  | zero => intro i rank _ _ _; exact ⟨rank, rfl⟩
  | succ fuel ih =>
    intro i rank h1 h2 hr
    have hx : bits[8 * B + i]? = some (bits[8 * B + i]'(by omega)) := List.getElem?_eq_getElem _
    generalize bits[8 * B + i]'(by omega) = x at hx
    have hg := getBlock_getD_eq bits B i x (by omega) hx
    have hs := cnt_succ b bits (8 * B + i) x hx
    have hc := cnt_le_count b bits (8 * B + i + 1)
    simp only [scanBits, hg]
    have : ¬ rank + (if x = b then 1 else 0) = j := by omega
    simp only [this, if_false]
    exact ih (i + 1) _ (by omega) (by omega) (by rw [hr]; exact hs.symm)

theorem selectBlocks_cons (n : Nat) (gb : Nat → List Bool) (b : Bool) (j block : Nat) (rest : List Nat) (rank : Nat) :
    selectBlocks n gb b j (block :: rest) rank =
      if rank + blkCount b (gb block) ≥ j then
        match scanBits (gb block) b j (min 8 (n - block * 8)) 0 rank with
        | .found pos => some (block * 8 + pos)
        | .notFound rank' => selectBlocks n gb b j rest (rank' + blkCount b (gb block))
      else selectBlocks n gb b j rest (rank + blkCount b (gb block)) := by
  rw [selectBlocks]; rfl

theorem selectBlocks_found (bits : List Bool) (b : Bool) (j p : Nat) (hbit : bits[p]? = some b)
    (hj : cnt b bits (p + 1) = j) :
    ∀ len lo, 8 * lo ≤ p → p < 8 * (lo + len) →
      selectBlocks bits.length (getBlock bits) b j (List.range' lo len) (cnt b bits (8 * lo)) = some p := by
  have hlen : p < bits.length := (List.getElem?_eq_some_iff.mp hbit).1
  have hjp := cnt_succ b bits p b hbit
  simp only [if_true] at hjp
  intro len
  induction len with
  | zero => intro lo h1 h2; omega
  | succ len ih =>
    intro lo h1 h2
    rw [List.range'_succ, selectBlocks_cons]
    have hblk := cnt_block b bits lo
    by_cases hin : p < 8 * (lo + 1)
    · have hge := blkCount_ge b bits lo
      have hm := cnt_mono b bits (show p + 1 ≤ 8 * (lo + 1) by omega)
      have hc : cnt b bits (8 * lo) + blkCount b (getBlock bits lo) ≥ j := by omega
      have e : 8 * lo + (p - 8 * lo) = p := by omega
      have hs := scan_found bits b j lo (p - 8 * lo) (by omega) (by rw [e]; exact hbit) (by rw [e]; exact hj)
        (min 8 (bits.length - lo * 8)) 0 (cnt b bits (8 * lo)) (by omega) (by omega) rfl
      simp only [hc, if_true, hs, Option.some.injEq]
      omega
    · have hfull := blkCount_full b bits lo (by omega)
      have hm := cnt_mono b bits (show 8 * (lo + 1) ≤ p by omega)
      have hc : ¬ cnt b bits (8 * lo) + blkCount b (getBlock bits lo) ≥ j := by omega
      simp only [hc, if_false]
      rw [hfull, ← hblk]
      exact ih (lo + 1) (by omega) (by omega)

theorem selectBlocks_nil (n : Nat) (gb : Nat → List Bool) (b : Bool) (j rank : Nat) :
    selectBlocks n gb b j [] rank = none := by
  rw [selectBlocks]

theorem selectBlocks_none (bits : List Bool) (b : Bool) (j : Nat) (hlt : bits.count b < j) :
    ∀ len lo, lo + len ≤ (bits.length + 7) / 8 →
      selectBlocks bits.length (getBlock bits) b j (List.range' lo len) (cnt b bits (8 * lo)) = none := by
  intro len
  induction len with
  | zero => intro lo _; simp [selectBlocks_nil]
  | succ len ih =>
    intro lo h1
    rw [List.range'_succ, selectBlocks_cons]
    have hblk := cnt_block b bits lo
    by_cases hfull : 8 * (lo + 1) ≤ bits.length
    · have hf := blkCount_full b bits lo hfull
      have hc := cnt_le_count b bits (8 * (lo + 1))
      have hc : ¬ cnt b bits (8 * lo) + blkCount b (getBlock bits lo) ≥ j := by omega
      simp only [hc, if_false]
      rw [hf, ← hblk]
      exact ih (lo + 1) (by omega)
    · have hl : len = 0 := by omega
      subst hl
      simp only [List.range'_zero, selectBlocks_nil]
      obtain ⟨r, hr⟩ := scan_notFound bits b j lo hlt (min 8 (bits.length - lo * 8)) 0 (cnt b bits (8 * lo))
        (by omega) (by omega) rfl
      rw [hr]
      split <;> rfl

/-- `selectRef` finds exactly the position of the `j`-th `b`-bit (same statement as `RbV.Thm.C17.select_oracle_iff`) -/
theorem selectRef_some_iff (b : Bool) (bits : List Bool) (j p : Nat) :
    selectRef b bits j = some p ↔ IsSelect b bits j p := by
  unfold selectRef IsSelect
  by_cases hj : j = 0
  · subst hj
    simp only [if_true]
    constructor
    · intro h; cases h
    · rintro ⟨h1, h2⟩
      have := rank_pos_of_getElem? b bits p h1
      omega
  · simp only [hj, if_false, positions_getElem?]
    constructor
    · rintro ⟨q, rfl, h1, h2⟩
      simp only [Nat.zero_add]
      exact ⟨h1, by omega⟩
    · rintro ⟨h1, h2⟩
      exact ⟨p, by omega, h1, by omega⟩

/-- same statement as `RbV.Thm.C17.select_none_iff` -/
theorem selectRef_none_iff (b : Bool) (bits : List Bool) (j : Nat) :
    selectRef b bits j = none ↔ j = 0 ∨ bits.count b < j := by
  unfold selectRef
  by_cases hj : j = 0
  · simp [hj]
  · simp only [hj, if_false, false_or, List.getElem?_eq_none_iff, positions_length]
    omega

theorem mul_s_div (k sb : Nat) : sb * (k * 32) / 8 = sb * (4 * k) := by
  rw [s_eq, Nat.mul_left_comm, Nat.mul_div_cancel_left _ (by omega : 0 < 8)]

theorem mul_s_eq (k sb : Nat) : sb * (k * 32) = 8 * (sb * (4 * k)) := by
  rw [s_eq, Nat.mul_left_comm]

theorem select_correct (b : Bool) (bits : List Bool) (k : Nat) (hk : 1 ≤ k) (hn : bits ≠ []) (j : Nat) :
    selectX bits.length (k * 32) (getBlock bits) (superblocks b bits.length (k * 32) (getBlock bits)) b j
      = selectRef b bits j := by
  by_cases hj0 : j = 0
  · subst hj0; simp [selectX, selectRef]
  have hs : 0 < k * 32 := by omega
  have hnpos : 0 < bits.length := List.length_pos_iff.mpr hn
  unfold selectX
  simp only [hj0, if_false]
  have hL := lt_superblocks_length b bits k hk
  have hV := superblocks_val' b bits k hk
  generalize superblocks b bits.length (k * 32) (getBlock bits) = sbs at hL hV ⊢
  cases hsel : selectRef b bits j with
  | none =>
    have hcount : bits.count b < j := by
      have := (selectRef_none_iff b bits j).mp hsel; omega
    have hsb : searchIdx sbs (.first j) - 1 < sbs.length := by
      have h0 : 0 < sbs.length := (hL 0).mpr (by omega)
      have : searchIdx sbs (.first j) ≤ sbs.length := length_takeWhile_le _ _
      omega
    generalize searchIdx sbs (.first j) - 1 = sb at *
    have hsbn := (hL sb).mp hsb
    rw [hV sb hsbn, mul_s_div, mul_s_eq]
    apply selectBlocks_none bits b j hcount
    have := mul_s_eq k sb
    omega
  | some p =>
    obtain ⟨hbit, hrk⟩ := (selectRef_some_iff b bits j p).mp hsel
    have hlen : p < bits.length := (List.getElem?_eq_some_iff.mp hbit).1
    rw [rank_eq_cnt] at hrk
    have hjp := cnt_succ b bits p b hbit
    simp only [if_true] at hjp
    have hd1 : p / (k * 32) * (k * 32) ≤ p := Nat.div_mul_le_self _ _
    have hd2 : p < p / (k * 32) * (k * 32) + k * 32 := Nat.lt_div_mul_add hs
    have hsi : searchIdx sbs (.first j) = p / (k * 32) + 1 := by
      apply takeWhile_length_eq _ (.first 0)
      · exact (hL _).mpr (by omega)
      · intro m hm
        have hms : m * (k * 32) ≤ p / (k * 32) * (k * 32) := Nat.mul_le_mul_right _ (by omega)
        rw [lt_first, hV m (by omega)]
        have := cnt_mono b bits (show m * (k * 32) ≤ p by omega)
        omega
      · intro hlt
        have := (hL _).mp hlt
        rw [lt_first_false, hV _ this]
        have := cnt_mono b bits (show p + 1 ≤ (p / (k * 32) + 1) * (k * 32) by rw [Nat.succ_mul]; omega)
        omega
    rw [hsi, Nat.add_sub_cancel, hV _ (by omega), mul_s_div]
    rw [mul_s_eq] at hd1 hd2 ⊢
    apply selectBlocks_found bits b j p hbit hrk
    · omega
    · omega

end RbV.Lemmas.RankSelectModel
