import RbV.Lemmas.C15
/-!
C15: real-number model of `src/utils/fastexp.rs` — the bit trick is exact, only the polynomial approximates.

`fastexp(x)` for `x > MIN_VAL`: `x' = x · (1/ln 2)`, `bits = x' as i64` (truncation towards zero = `⌈x'⌉` for
`x ≤ 0`), `y = x' − bits ∈ (−1, 0]`, result `2^bits · P(y)` where `2^bits` is assembled exactly from the exponent
field (`f64::from_bits((bits + 1023) << 52)`) and `P` is a degree-4 polynomial approximating `2^y`.
Here `2^t` is written `exp (t · log 2)`.  Not modelled: `ONEBYLOG2` is a 10-digit literal (relative 2·10⁻¹⁰ in
`x'`), f64 rounding, and the cut-off `MIN_VAL`.
-/
namespace RbV.C15
open Real

/-- the polynomial of `fastexp.rs`, evaluated in the order of the source -/
def fastexpPoly (c1 c2 c3 c4 : ℝ) (y : ℝ) : ℝ := ((y * c4 + c3) * y + c2) * ((y + c1) * y) + 1

noncomputable def fastexpModel (P : ℝ → ℝ) (x : ℝ) : ℝ :=
  exp ((⌈x / log 2⌉ : ℝ) * log 2) * P (x / log 2 - ⌈x / log 2⌉)

theorem fastexpModel_approx (P : ℝ → ℝ) (δ : ℝ)
    (hP : ∀ y : ℝ, -1 < y → y ≤ 0 → |P y - exp (y * log 2)| ≤ δ * exp (y * log 2)) :
    ApproxExp (fastexpModel P) δ := by
  intro x _
  have hl2 : log 2 ≠ 0 := (log_pos (by norm_num)).ne'
  set x' := x / log 2 with hx'
  have hy1 : -1 < x' - ⌈x'⌉ := by have := Int.ceil_lt_add_one x'; linarith
  have hy0 : x' - ⌈x'⌉ ≤ 0 := by have := Int.le_ceil x'; linarith
  have hx : x = (⌈x'⌉ : ℝ) * log 2 + (x' - ⌈x'⌉) * log 2 := by
    rw [hx']; field_simp; ring
  have hexp : exp x = exp ((⌈x'⌉ : ℝ) * log 2) * exp ((x' - ⌈x'⌉) * log 2) := by
    rw [← exp_add, ← hx]
  unfold fastexpModel
  rw [hexp, ← mul_sub, abs_mul, abs_of_pos (exp_pos _)]
  calc exp ((⌈x'⌉ : ℝ) * log 2) * |P (x' - ⌈x'⌉) - exp ((x' - ⌈x'⌉) * log 2)|
      ≤ exp ((⌈x'⌉ : ℝ) * log 2) * (δ * exp ((x' - ⌈x'⌉) * log 2)) :=
        mul_le_mul_of_nonneg_left (hP _ hy1 hy0) (exp_pos _).le
    _ = δ * (exp ((⌈x'⌉ : ℝ) * log 2) * exp ((x' - ⌈x'⌉) * log 2)) := by ring

end RbV.C15
