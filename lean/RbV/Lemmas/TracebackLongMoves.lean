import RbV.Lemmas.TracebackLongInv
/-!
The moves of the block-based traceback handler keep its invariant (C10, block-based handler, stage 2): `move_up` /
`move_up_left` with their block switching are the single-word moves on the concatenated bit vector, `move_to_left`
loads the left block with `adjust_by_mask` from a computed block (or the guard column), `move_left_down_if_better`
never reads a stale slot.  Core Lean only.
-/
namespace RbV.Model.MyersTracebackLong
open RbV.EditDist
open RbV.Model.MyersSimple (St)
open RbV.Model.MyersTraceback

/-! ### which fields a move leaves alone -/

section frame
variable {w : Nat} (h : LHandler w) (adj : Bool)

theorem moveUp_col : (h.moveUp adj).col = h.col := by unfold LHandler.moveUp; split <;> rfl
theorem moveUp_leftCol : (h.moveUp adj).leftCol = h.leftCol := by unfold LHandler.moveUp; split <;> rfl
theorem moveUp_leftBlock : (h.moveUp adj).leftBlock = h.leftBlock := by unfold LHandler.moveUp; split <;> rfl
theorem moveUp_leftMask : (h.moveUp adj).leftMask = h.leftMask := by unfold LHandler.moveUp; split <;> rfl
theorem moveUp_leftMaxMask : (h.moveUp adj).leftMaxMask = h.leftMaxMask := by unfold LHandler.moveUp; split <;> rfl
theorem moveUp_leftBlockPos : (h.moveUp adj).leftBlockPos = h.leftBlockPos := by unfold LHandler.moveUp; split <;> rfl
theorem moveUp_taken : (h.moveUp adj).taken = h.taken := by unfold LHandler.moveUp; split <;> rfl
theorem moveUp_false_block : (h.moveUp false).block = h.block := by
  unfold LHandler.moveUp; split <;> simp

theorem moveUpLeft_col : (h.moveUpLeft adj).col = h.col := by unfold LHandler.moveUpLeft; split <;> rfl
theorem moveUpLeft_leftCol : (h.moveUpLeft adj).leftCol = h.leftCol := by unfold LHandler.moveUpLeft; split <;> rfl
theorem moveUpLeft_block : (h.moveUpLeft adj).block = h.block := by unfold LHandler.moveUpLeft; split <;> rfl
theorem moveUpLeft_pos : (h.moveUpLeft adj).pos = h.pos := by unfold LHandler.moveUpLeft; split <;> rfl
theorem moveUpLeft_blockPos : (h.moveUpLeft adj).blockPos = h.blockPos := by unfold LHandler.moveUpLeft; split <;> rfl
theorem moveUpLeft_taken : (h.moveUpLeft adj).taken = h.taken := by unfold LHandler.moveUpLeft; split <;> rfl
theorem moveUpLeft_false_leftBlock : (h.moveUpLeft false).leftBlock = h.leftBlock := by
  unfold LHandler.moveUpLeft; split <;> simp

end frame

theorem RGeo.frame {w nb m i' B b : Nat} {h h' : LHandler w} (rg : RGeo nb m i' B b h)
    (e1 : h'.blockPos = h.blockPos) (e2 : h'.pos = h.pos) : RGeo nb m i' B b h' :=
  ⟨rg.hB, rg.hb, rg.hrow, by rw [e1]; exact rg.blockPos, by rw [e2]; exact rg.pos⟩

theorem LGeo.frame {w nb m i' BL a : Nat} {h h' : LHandler w} (lg : LGeo nb m i' BL a h)
    (e1 : h'.leftBlockPos = h.leftBlockPos) (e2 : h'.leftMaxMask = h.leftMaxMask) (e3 : h'.leftMask = h.leftMask) :
    LGeo nb m i' BL a h' :=
  ⟨lg.hBL, lg.ha, lg.ha1, lg.hrowL, by rw [e1]; exact lg.leftBlockPos, by rw [e2]; exact lg.lmax,
    by rw [e3]; exact lg.lmask⟩

/-! ### `move_up`, `move_up_left`: block addressing -/

/-- `move_up`: from row index `r + 1` to `r`, inside the block or to the last bit of the block above -/
theorem RGeo.moveUp {w nb m r B b : Nat} {h : LHandler w} (g : Geo w nb m) (rg : RGeo nb m (r + 1) B b h) (adj : Bool) :
    ∃ B' b', RGeo nb m r B' b' (h.moveUp adj) ∧
      ((1 ≤ b ∧ B' = B ∧ b' + 1 = b ∧
          (h.moveUp adj).block = (if adj then adjustDist h.block (BitVec.twoPow w b) else h.block)) ∨
       (b = 0 ∧ B = B' + 1 ∧ b' + 1 = w ∧
          (h.moveUp adj).block = (if adj then h.col.getD B' dflt else h.block))) := by
  have hlw := g.len_le B
  have hb := rg.hb
  have hrow := rg.hrow
  cases b with
  | succ b0 =>
    have c : ((h.pos != 1#w) || h.blockPos == 0) = true := by
      rw [rg.pos, rg.blockPos, pos_test (by omega)]; simp
    refine ⟨B, b0, ⟨rg.hB, by omega, by omega, ?_, ?_⟩, Or.inl ⟨by omega, rfl, rfl, ?_⟩⟩
    · unfold LHandler.moveUp; rw [if_pos c]; exact rg.blockPos
    · unfold LHandler.moveUp; rw [if_pos c]
      show h.pos >>> 1 = _
      rw [rg.pos]; exact twoPow_shr_succ b0 (by omega)
    · unfold LHandler.moveUp; rw [if_pos c, rg.pos]
  | zero =>
    obtain ⟨B0, rfl⟩ : ∃ B0, B = B0 + 1 := by
      cases B with
      | zero => simp at hrow
      | succ B0 => exact ⟨B0, rfl⟩
    have c : ¬ (((h.pos != 1#w) || h.blockPos == 0) = true) := by
      rw [rg.pos, rg.blockPos, pos_test (by omega)]; simp
    have hsm : (B0 + 1) * w = B0 * w + w := Nat.succ_mul B0 w
    have hlen : lenB w nb m B0 = w := g.len_inner B0 (by have := rg.hB; omega)
    have hw := g.hw
    refine ⟨B0, w - 1, ⟨by have := rg.hB; omega, by omega, by omega, ?_, ?_⟩, Or.inr ⟨rfl, rfl, by omega, ?_⟩⟩
    · unfold LHandler.moveUp; rw [if_neg c]
      show h.blockPos - 1 = B0
      rw [rg.blockPos]; rfl
    · unfold LHandler.moveUp; rw [if_neg c]
      exact (BitVec.twoPow_eq w (w - 1)).symm
    · unfold LHandler.moveUp; rw [if_neg c, rg.blockPos]; rfl

/-- `move_up_left`: the left cursor from global row `r + 1` to `r`: the range mask grows by one bit, or the cursor
switches to the lower boundary of the block above (empty mask) -/
theorem LGeo.moveUpLeft {w nb m r BL a : Nat} {h : LHandler w} (g : Geo w nb m) (hi : r + 1 < m)
    (lg : LGeo nb m (r + 1) BL a h) (adj : Bool) :
    ∃ BL' a', LGeo nb m r BL' a' (h.moveUpLeft adj) ∧
      ((1 ≤ a ∧ BL' = BL ∧ a' + 1 = a ∧
          (h.moveUpLeft adj).leftBlock = (if adj then adjustDist h.leftBlock h.pos else h.leftBlock)) ∨
       (a = 1 ∧ BL = BL' + 1 ∧ a' = w ∧
          (h.moveUpLeft adj).leftBlock = (if adj then h.leftCol.getD BL' dflt else h.leftBlock))) := by
  have hlw := g.len_le BL
  have hl1 := g.len_pos BL
  have hw := g.hw
  have ha := lg.ha
  have hrow := lg.hrowL
  have hend := g.block_end_le BL lg.hBL
  have hbit : ((h.leftMask &&& BitVec.ofNat w 0b10) == 0#w || h.leftBlockPos == 0) =
      decide (¬ (a ≤ 1 ∧ 1 < lenB w nb m BL) ∨ BL = 0) := by
    rw [bit1_test hw, lg.lmask, lg.leftBlockPos, Bool.eq_iff_iff]
    simp only [Bool.or_eq_true, Bool.not_eq_true', decide_eq_false_iff_not, beq_iff_eq, decide_eq_true_eq]
  have ha_pos : 1 ≤ a := by
    rcases lg.ha1 with h0 | h1
    · subst h0; omega
    · exact h1
  by_cases hsw : a = 1 ∧ BL ≠ 0
  · -- switch to the block above
    obtain ⟨BL0, rfl⟩ : ∃ BL0, BL = BL0 + 1 := ⟨BL - 1, by omega⟩
    have hsm : (BL0 + 1) * w = BL0 * w + w := Nat.succ_mul BL0 w
    have hlen2 : 1 < lenB w nb m (BL0 + 1) := by
      unfold lenB at hend ⊢
      split
      · rename_i hlast
        rw [if_pos hlast] at hend
        have : nb - 1 = BL0 + 1 := by omega
        rw [this] at hend ⊢
        omega
      · omega
    have c : ¬ (((h.leftMask &&& BitVec.ofNat w 0b10) == 0#w || h.leftBlockPos == 0) = true) := by
      rw [hbit]; simp; omega
    have hlen0 : lenB w nb m BL0 = w := g.len_inner BL0 (by have := lg.hBL; omega)
    refine ⟨BL0, w, ⟨by have := lg.hBL; omega, by omega, Or.inr (by omega), by omega, ?_, ?_, ?_⟩,
      Or.inr ⟨hsw.1, rfl, rfl, ?_⟩⟩
    · unfold LHandler.moveUpLeft; rw [if_neg c]
      show h.leftBlockPos - 1 = BL0
      rw [lg.leftBlockPos]; rfl
    · unfold LHandler.moveUpLeft; rw [if_neg c, hlen0]
      exact (BitVec.twoPow_eq w (w - 1)).symm
    · unfold LHandler.moveUpLeft; rw [if_neg c, hlen0]
      exact mask_zero w
    · unfold LHandler.moveUpLeft; rw [if_neg c, lg.leftBlockPos]; rfl
  · have c : ((h.leftMask &&& BitVec.ofNat w 0b10) == 0#w || h.leftBlockPos == 0) = true := by
      rw [hbit]; simp; omega
    have hmask := leftMask_step h.leftMask a hl1 hlw ha lg.lmask
    refine ⟨BL, a - 1, ⟨lg.hBL, by omega, by omega, by omega, ?_, ?_, ?_⟩, Or.inl ⟨ha_pos, rfl, by omega, ?_⟩⟩
    · unfold LHandler.moveUpLeft; rw [if_pos c]; exact lg.leftBlockPos
    · unfold LHandler.moveUpLeft; rw [if_pos c]; exact lg.lmax
    · unfold LHandler.moveUpLeft; rw [if_pos c]
      show ∀ x, ((h.leftMask >>> 1) ||| h.leftMaxMask).getLsbD x = _
      rw [lg.lmax]; exact hmask
    · unfold LHandler.moveUpLeft; rw [if_pos c]

end RbV.Model.MyersTracebackLong
