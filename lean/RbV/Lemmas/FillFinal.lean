import RbV.Lemmas.FillSound
import RbV.Lemmas.FillComplete
/-!
End of the refinement proof of `Model/PairwiseFill.lean`: the two loops over the last column on the completeness side
(`score_complete`: the reported score dominates every alignment of every sub-range pair, all four clip penalties
charged), and the combination with the soundness side (`score_jw`) under the `Sane` hypothesis
(`fill_score_eq_opt_aux`).
-/
namespace RbV.Model.PairwiseFill
open RbV.Align

theorem mono_chain (f : Nat → Int) (m : Nat) (h : ∀ i, i + 1 ≤ m → f i ≤ f (i + 1)) :
    ∀ k, k ≤ m → ∀ i, i ≤ k → f i ≤ f k := by
  intro k
  induction k with
  | zero => intro _ i hi; have : i = 0 := by omega
            subst this; exact Int.le_refl _
  | succ k ih =>
    intro hk i hi
    by_cases e : i = k + 1
    · subst e; exact Int.le_refl _
    · have := ih (by omega) i (by omega)
      have := h k hk
      omega

section
variable {sc : Sc} {cl : Clip} {x y : List Nat}

/-- in row `m` the cell is the register -/
theorem cell_xm_eq_s' (j i : Nat) (hi : i = x.length) :
    (cell sc cl x y j i).xm = (cell sc cl x y j i).s := by
  cases j with
  | zero =>
    cases i with
    | zero => rw [cell_zero_zero]; simp [row00, ← hi]
    | succ k => rw [cell_zero_succ _ _ _ _ k (by omega), step0_eq]; simp [hi]
  | succ j =>
    cases i with
    | zero => rw [cell_succ_zero, rowJ0_eq]; simp [← hi]
    | succ k => rw [cell_succ_succ _ _ _ _ j k (by omega), stepJ_eq]; simp [hi]

theorem cell_xm_eq_s (j : Nat) : (cell sc cl x y j x.length).xm = (cell sc cl x y j x.length).s :=
  cell_xm_eq_s' j x.length rfl

/-! ### first post-loop -/

theorem post1Step_facts (hxs : cl.xs ≤ 0) (col : List Row) (i : Nat) (p0 : PSt) :
    let p := post1Step cl x col i p0
    p0.xm ≤ p.xm ∧ p.s + cl.xs ≤ p.xm ∧ (col.getD i default).sn ≤ p.s ∧
      (i < x.length → (col.getD i default).s ≤ p.s) ∧ (i = x.length → p0.xm ≤ p.s ∧ p.s ≤ p.xm) := by
  rw [post1Step_eq]
  dsimp only
  by_cases hm : i = x.length
  · simp only [if_pos hm]
    refine ⟨by omega, by omega, by omega, by omega, fun _ => ⟨by omega, by omega⟩⟩
  · simp only [if_neg hm]
    refine ⟨by omega, by omega, by omega, fun _ => by omega, fun h => absurd h hm⟩

theorem p1_inv (hxs : cl.xs ≤ 0) : ∀ i, i ≤ x.length →
    let P := fun i => (post1 cl x (colAt sc cl x y y.length)).getD i default
    let X0 := (cell sc cl x y y.length x.length).xm
    X0 ≤ (P i).xm ∧ (P i).s + cl.xs ≤ (P i).xm ∧ (cell sc cl x y y.length i).sn ≤ (P i).s ∧
      (i < x.length → (cell sc cl x y y.length i).s ≤ (P i).s) ∧
      (i = x.length → X0 ≤ (P i).s ∧ (P i).s ≤ (P i).xm) ∧ (∀ k, i = k + 1 → (P k).xm ≤ (P i).xm) := by
  intro i
  induction i with
  | zero =>
    intro _
    dsimp only
    rw [post1_getD_zero]
    have := post1Step_facts (x := x) hxs (colAt sc cl x y y.length) 0 (p1init x (colAt sc cl x y y.length))
    dsimp only at this
    obtain ⟨h1, h2, h3, h4, h5⟩ := this
    exact ⟨h1, h2, h3, h4, h5, fun k hk => by omega⟩
  | succ i ih =>
    intro hi
    obtain ⟨g1, _⟩ := ih (by omega)
    dsimp only at g1 ⊢
    rw [post1_getD_succ _ _ _ i hi]
    have := post1Step_facts (x := x) hxs (colAt sc cl x y y.length) (i + 1)
      ((post1 cl x (colAt sc cl x y y.length)).getD i default)
    dsimp only at this
    obtain ⟨h1, h2, h3, h4, h5⟩ := this
    refine ⟨by omega, h2, h3, h4, fun e => ⟨by have := (h5 e).1; omega, (h5 e).2⟩, fun k hk => ?_⟩
    have : k = i := by omega
    subst this; exact h1

/-- after the first post-loop the register dominates every row of the last column, with its own value or with what
`Sn` tracked, `xclip_suffix` charged below row `m` -/
theorem p1_final (hxs : cl.xs ≤ 0) (i : Nat) (hi : i ≤ x.length) :
    max (cell sc cl x y y.length i).s (cell sc cl x y y.length i).sn + (if i < x.length then cl.xs else 0) ≤
      ((post1 cl x (colAt sc cl x y y.length)).getD x.length default).xm := by
  have hinv := p1_inv (sc := sc) (cl := cl) (x := x) (y := y) hxs
  dsimp only at hinv
  have hmono := mono_chain (fun i => ((post1 cl x (colAt sc cl x y y.length)).getD i default).xm) x.length
    (fun k hk => (hinv (k + 1) hk).2.2.2.2.2 k rfl) x.length (Nat.le_refl _) i hi
  obtain ⟨h1, h2, h3, h4, h5, _⟩ := hinv i hi
  by_cases hm : i = x.length
  · subst hm
    have := cell_xm_eq_s (sc := sc) (cl := cl) (x := x) (y := y) y.length
    have := h5 rfl
    simp only [Nat.lt_irrefl, if_false]
    omega
  · have := h4 (by omega)
    simp only [show i < x.length by omega, if_true]
    omega

/-! ### second post-loop: the register only grows -/

theorem post2Step_xm (s1 : List PSt) (i : Nat) (p : PSt) : p.xm ≤ (post2Step sc cl x s1 i p).xm := by
  unfold post2Step
  dsimp only
  by_cases hm : i = x.length
  · simp only [if_pos hm, upd_eq_max]
    split <;> dsimp only <;> omega
  · simp only [if_neg hm, upd_eq_max]
    split <;> dsimp only <;> omega

theorem p2_final : ((post1 cl x (colAt sc cl x y y.length)).getD x.length default).xm ≤ (fill sc cl x y).score := by
  rw [fill_score]
  have hmono := mono_chain
    (fun i => ((post2 sc cl x (post1 cl x (colAt sc cl x y y.length))).getD i default).xm) x.length
    (fun k hk => by
      rw [post2_getD_succ _ _ _ _ k hk]
      exact post2Step_xm _ _ _) x.length (Nat.le_refl _) 0 (Nat.zero_le _)
  rw [post2_getD_zero] at hmono
  exact hmono

/-- **completeness**: the reported score dominates the value of every alignment of every pair of sub-ranges -/
theorem score_complete (hge : sc.ge ≤ 0) (hxs : cl.xs ≤ 0) (xs xe ys ye : Nat) (ops : List Op) (c : Int)
    (h1 : xs ≤ xe) (h2 : xe ≤ x.length) (h3 : ys ≤ ye) (h4 : ye ≤ y.length)
    (hsc : score sc .none (slice x xs xe) (slice y ys ye) ops = some c) :
    c + clipPen cl x.length y.length xs xe ys ye ≤ (fill sc cl x y).score := by
  have hcc := cc_all (sc := sc) (cl := cl) (x := x) (y := y) hge hxs y.length (Nat.le_refl _) xe h2
  have hp1 := p1_final (sc := sc) (cl := cl) (x := x) (y := y) hxs xe h2
  have hp2 := p2_final (sc := sc) (cl := cl) (x := x) (y := y)
  have hcell : c + pre cl xs ys + (if ye < y.length then cl.ys else 0) ≤
      max (cell sc cl x y y.length xe).s (cell sc cl x y y.length xe).sn := by
    by_cases hy : ye = y.length
    · subst hy
      have := hcc.S xs ys ops c h1 h3 hsc nofun nofun
      simp only [Nat.lt_irrefl, if_false]
      omega
    · have := hcc.Sn xs ys ye ops c h1 h3 h4 (by omega) hsc
      simp only [show ye < y.length by omega, if_true]
      omega
  have e : clipPen cl x.length y.length xs xe ys ye =
      pre cl xs ys + (if xe < x.length then cl.xs else 0) + (if ye < y.length then cl.ys else 0) := by
    simp only [clipPen, pre]; omega
  omega

/-- a witness at the corner is a lower bound of the reported score -/
theorem wit_le_score (hge : sc.ge ≤ 0) (hxs : cl.xs ≤ 0) {L : St} {v : Int}
    (h : Wit sc cl x y L x.length y.length v) : v ≤ (fill sc cl x y).score := by
  obtain ⟨a, c, ⟨h1, h2, h3, h4, _⟩, ⟨c', hc', rfl⟩, hv⟩ := wit_corner h
  have := score_complete hge hxs a.xs a.xe a.ys a.ye a.ops c' h1 h2 h3 h4 hc'
  omega

/-- the global alignment "insert all of `x`, delete all of `y`" -/
theorem wit_gaps (hgo : sc.go ≤ 0) :
    Wit sc cl x y .none x.length y.length (2 * sc.go + sc.ge * ((x.length : Int) + y.length)) := by
  have h0 : Wit sc cl x y .none 0 0 0 := wit_mono (wit_pre (Nat.zero_le _) (Nat.zero_le _)) (by simp [pre])
  have hx : ∀ m', m' ≤ x.length → Wit sc cl x y .none m' 0 (sc.go + sc.ge * (m' : Int)) := by
    intro m' hm'
    cases m' with
    | zero => exact wit_mono h0 (by simp; omega)
    | succ k =>
      have := wit_ins_chain hgo h0 k (by omega)
      simp only [Nat.zero_add] at this
      exact wit_none (wit_mono this (by push_cast; omega))
  have hy : ∀ n', n' ≤ y.length →
      Wit sc cl x y .none x.length n' (2 * sc.go + sc.ge * ((x.length : Int) + n')) := by
    intro n' hn'
    cases n' with
    | zero => exact wit_mono (hx x.length (Nat.le_refl _)) (by simp; omega)
    | succ k =>
      have := wit_del_chain hgo (hx x.length (Nat.le_refl _)) k (by omega)
      simp only [Nat.zero_add] at this
      refine wit_none (wit_mono this ?_)
      push_cast
      rw [Int.mul_add sc.ge (x.length : Int) ((k : Int) + 1)]
      omega
  exact hy y.length (Nat.le_refl _)

/-- **the refinement theorem** (auxiliary form with the side conditions bundled in `Hyp`) -/
theorem fill_score_eq_opt_aux {W : Int} (H : Hyp sc cl x y W)
    (hs : minScore + ((x.length : Int) + y.length) * W < 2 * sc.go + sc.ge * ((x.length : Int) + y.length)) :
    (fill sc cl x y).score = opt sc cl x y := by
  have hopt := opt_optimal sc cl x y
  -- `opt ≤ score`: the optimum is attained by an alignment, which the fill dominates
  have hge : opt sc cl x y ≤ (fill sc cl x y).score := by
    obtain ⟨⟨a, ⟨h1, h2, h3, h4, _⟩, ⟨c, hc, he⟩⟩, _⟩ := hopt
    have := score_complete H.ge H.xs a.xs a.xe a.ys a.ye a.ops c h1 h2 h3 h4 hc
    omega
  -- `score ≤ opt`: the score is not junk, hence the value of an alignment
  have hle : (fill sc cl x y).score ≤ opt sc cl x y := by
    rcases score_jw H with hj | hw
    · exfalso
      have := wit_le_score H.ge H.xs (wit_gaps (cl := cl) (x := x) (y := y) H.go)
      simp only [jb] at hj
      push_cast at hj
      omega
    · obtain ⟨a, c, ha, hac, hv⟩ := wit_corner hw
      have := hopt.2 a c ha hac
      omega
  omega

end

end RbV.Model.PairwiseFill
