import RbV.Ref.SA
import RbV.Model.LFMulti
import RbV.Model.LFSortedCheck
/-!
# From C03's suffix-array property to C05's sortedness hypothesis

`IsSA t sa` (C03: `sa` is sorted under *some* consistent order of the sentinel occurrences, the final sentinel least)
implies `LF.Sorted t sa a` (C05: the hypotheses of the LF-mapping argument) for every symbol `a` that is not the
sentinel, on every non-empty text whose sentinel is its smallest symbol.  The latter hypothesis is needed because the
order of C03 puts a sentinel occurrence below every other symbol whatever its numeric value, whereas
`LF.Sorted.mono` compares the raw symbols.

* `isSA_lfSorted`        `IsSA t sa → LF.Sorted t sa a`
* `lfSorted_sortedAllB`  converse of `LF.sortedAllB_sound`: the Boolean test accepts every array that is `LF.Sorted`
                         for all non-sentinel symbols
* `checkSA_sortedAllB`   C03's acceptance function implies C05's
-/
namespace RbV.SortedBridge
open RbV RbV.LF

/-! ### small facts -/

theorem lexLt_cons_le {x y : Nat} {xs ys : List Nat} (h : lexLt (x :: xs) (y :: ys)) : x ≤ y := by
  simp only [lexLt] at h
  rcases h with h | ⟨h, _⟩
  · exact Nat.le_of_lt h
  · exact Nat.le_of_eq h

theorem lexLt_cons_same {x : Nat} {xs ys : List Nat} (h : lexLt (x :: xs) (x :: ys)) : lexLt xs ys := by
  simp only [lexLt] at h
  rcases h with h | ⟨_, h⟩
  · exact absurd h (Nat.lt_irrefl x)
  · exact h

theorem getD_eq_getElem (l : List Nat) (i : Nat) (h : i < l.length) : l.getD i 0 = l[i] := by
  simp [List.getD_eq_getElem?_getD, List.getElem?_eq_getElem h]

/-- `Pairwise` on the array, read through `getD` -/
theorem pairwise_getD {ks sa : List Nat} (hpw : sa.Pairwise (sufLt ks)) (i j : Nat) (hij : i < j)
    (hj : j < sa.length) : sufLt ks (sa.getD i 0) (sa.getD j 0) := by
  have hi : i < sa.length := by omega
  have := List.pairwise_iff_getElem.mp hpw i j hi hj hij
  rw [getD_eq_getElem sa i hi, getD_eq_getElem sa j hj]
  exact this

/-- the suffix of the key text at a valid position starts with that position's key -/
theorem drop_keyText (t : List Nat) (B : Nat) (rk : Nat → Nat) (p : Nat) (h : p < t.length) :
    (keyText t B rk).drop p = keyAt t B rk p :: (keyText t B rk).drop (p + 1) := by
  have hl : p < (keyText t B rk).length := by rw [length_keyText]; exact h
  rw [List.drop_eq_getElem_cons hl]
  congr 1
  rw [← getD_eq_getElem _ p hl]
  exact getD_keyText t B rk p h

theorem isSentPos_iff (t : List Nat) (p : Nat) (h : p < t.length) :
    IsSentPos t p ↔ t.getD p 0 = sentinelOf t := by
  unfold IsSentPos
  rw [List.getD_eq_getElem?_getD, List.getElem?_eq_getElem h]; simp

/-! ### 1. `IsSA` gives `LF.Sorted` -/

/-- **every suffix array in the sense of C03 is LF-sorted** for every non-sentinel symbol, on a non-empty text whose
sentinel is its smallest symbol -/
theorem isSA_lfSorted (t sa : List Nat) (hne : t ≠ []) (h : IsSA t sa)
    (hmin : ∀ p, p < t.length → sentinelOf t ≤ t.getD p 0)
    (a : Nat) (ha : t.getD (t.length - 1) 0 ≠ a) : LF.Sorted t sa a := by
  obtain ⟨B, rk, ho, hp, hpw⟩ := h
  rw [length_keyText] at hp
  have hse := LFMulti.sentinelOf_eq t hne
  refine ⟨hp, ?_, ?_, ha⟩
  · -- rows are ordered by first symbol
    intro i j hij hj
    have hi : i < sa.length := by omega
    have hpi := sa_lt hp i hi
    have hpj := sa_lt hp j hj
    have hlt := pairwise_getD hpw i j hij hj
    unfold sufLt at hlt
    rw [drop_keyText t B rk _ hpi, drop_keyText t B rk _ hpj] at hlt
    have hle := lexLt_cons_le hlt
    unfold keyAt at hle
    by_cases hsi : IsSentPos t (sa.getD i 0)
    · have e1 := (isSentPos_iff t _ hpi).mp hsi
      rw [e1]; exact hmin _ hpj
    · by_cases hsj : IsSentPos t (sa.getD j 0)
      · have := ho.bound _ hsj
        rw [if_neg hsi, if_pos hsj] at hle
        omega
      · rw [if_neg hsi, if_neg hsj] at hle
        omega
  · -- two rows starting with `a` are ordered like the rows of the following positions
    intro i j i' j' hij hj hi' hj' h1 h2 e1 e2
    have hi : i < sa.length := by omega
    have hpi := sa_lt hp i hi
    have hpj := sa_lt hp j hj
    have hlt := pairwise_getD hpw i j hij hj
    unfold sufLt at hlt
    rw [drop_keyText t B rk _ hpi, drop_keyText t B rk _ hpj] at hlt
    have hnsi : ¬ IsSentPos t (sa.getD i 0) := by
      intro hs
      have := (isSentPos_iff t _ hpi).mp hs
      rw [h1, hse] at this
      exact ha this.symm
    have hnsj : ¬ IsSentPos t (sa.getD j 0) := by
      intro hs
      have := (isSentPos_iff t _ hpj).mp hs
      rw [h2, hse] at this
      exact ha this.symm
    have k1 : keyAt t B rk (sa.getD i 0) = B + a := by unfold keyAt; rw [if_neg hnsi, h1]
    have k2 : keyAt t B rk (sa.getD j 0) = B + a := by unfold keyAt; rw [if_neg hnsj, h2]
    rw [k1, k2] at hlt
    have hnext := lexLt_cons_same hlt
    rcases Nat.lt_trichotomy i' j' with hlt' | heq | hgt
    · exact hlt'
    · exfalso
      subst heq
      have : sa.getD i 0 = sa.getD j 0 := by omega
      have := sa_inj hp i j hi hj this
      omega
    · exfalso
      have hrev := pairwise_getD hpw j' i' hgt hi'
      unfold sufLt at hrev
      rw [e1, e2] at hrev
      exact lexLt_asymm hnext hrev

/-! ### 2. `LF.Sorted` for all non-sentinel symbols gives the Boolean test -/

/-- the row that `nextRow` finds holds the following text position -/
theorem nextRow_spec {t sa : List Nat} (hp : sa.Perm (List.range t.length)) (i : Nat)
    (hlt : sa.getD i 0 + 1 < t.length) :
    nextRow sa i < sa.length ∧ sa.getD (nextRow sa i) 0 = sa.getD i 0 + 1 := by
  have hmem : sa.getD i 0 + 1 ∈ sa := hp.mem_iff.mpr (List.mem_range.mpr hlt)
  have hl : nextRow sa i < sa.length := List.idxOf_lt_length_iff.mpr hmem
  refine ⟨hl, ?_⟩
  rw [getD_eq_getElem sa _ hl]
  exact List.getElem_idxOf hl

/-- **completeness of `sortedAllB`** (converse of `LF.sortedAllB_sound`) -/
theorem lfSorted_sortedAllB (t sa : List Nat) (_hne : t ≠ [])
    (h : ∀ a, t.getD (t.length - 1) 0 ≠ a → LF.Sorted t sa a) : LF.sortedAllB t sa = true := by
  have h0 := h (t.getD (t.length - 1) 0 + 1) (by omega)
  have hp := h0.perm
  simp only [sortedAllB, Bool.and_eq_true, List.all_eq_true, List.mem_range]
  refine ⟨List.isPerm_iff.mpr hp, ?_⟩
  intro m hm
  have hm0 : m < sa.length := by omega
  have hm1 : m + 1 < sa.length := by omega
  simp only [adjOk, Bool.and_eq_true, Bool.or_eq_true, decide_eq_true_eq, bne_iff_ne, beq_iff_eq, firstSym]
  refine ⟨decide_eq_true (h0.mono m (m + 1) (by omega) hm1), ?_⟩
  by_cases hne' : t.getD (sa.getD m 0) 0 = t.getD (sa.getD (m + 1) 0) 0
  · by_cases hl : t.getD (sa.getD m 0) 0 = t.getD (t.length - 1) 0
    · exact Or.inl (Or.inr hl)
    · right
      have hs := h (t.getD (sa.getD m 0) 0) (Ne.symm hl)
      have hpm := sa_lt hp m hm0
      have hpm1 := sa_lt hp (m + 1) hm1
      have hl1 : t.getD (sa.getD (m + 1) 0) 0 ≠ t.getD (t.length - 1) 0 := by rw [← hne']; exact hl
      have n1 : sa.getD m 0 + 1 < t.length := by
        have : sa.getD m 0 ≠ t.length - 1 := fun e => hl (by rw [e])
        omega
      have n2 : sa.getD (m + 1) 0 + 1 < t.length := by
        have : sa.getD (m + 1) 0 ≠ t.length - 1 := fun e => hl1 (by rw [e])
        omega
      obtain ⟨r1, e1⟩ := nextRow_spec hp m n1
      obtain ⟨r2, e2⟩ := nextRow_spec hp (m + 1) n2
      exact hs.step m (m + 1) _ _ (by omega) hm1 r1 r2 rfl hne'.symm e1 e2
  · exact Or.inl (Or.inl hne')

/-! ### 3. C03's checker implies C05's -/

theorem checkSA_ne_nil (t sa : List Nat) (hc : checkSA t sa = true) : t ≠ [] := by
  unfold checkSA at hc
  simp only [Bool.and_eq_true, beq_iff_eq, Bool.not_eq_true', List.isEmpty_eq_false_iff] at hc
  exact hc.1.2

/-- **every array accepted by C03's `checkSA` passes C05's `sortedAllB`**, on texts whose sentinel is the smallest
symbol -/
theorem checkSA_sortedAllB (t sa : List Nat) (hc : checkSA t sa = true)
    (hmin : ∀ p, p < t.length → sentinelOf t ≤ t.getD p 0) : LF.sortedAllB t sa = true := by
  have hne := checkSA_ne_nil t sa hc
  exact lfSorted_sortedAllB t sa hne
    (fun a ha => isSA_lfSorted t sa hne (checkSA_isSA t sa hc) hmin a ha)

/-! ### 4. non-vacuity -/

-- "A$A$" as bytes: accepted by `checkSA`, sentinel `36` is the smallest symbol, hence `sortedAllB`
example : checkSA [65, 36, 65, 36] [3, 1, 2, 0] = true := by decide
example : ∀ p, p < [65, 36, 65, 36].length → sentinelOf [65, 36, 65, 36] ≤ [65, 36, 65, 36].getD p 0 := by decide
example : LF.sortedAllB [65, 36, 65, 36] [3, 1, 2, 0] = true :=
  checkSA_sortedAllB _ _ (by decide) (by decide)
-- … and directly
example : LF.sortedAllB [65, 36, 65, 36] [3, 1, 2, 0] = true := by decide
-- GATTACA$ ($=0 A=1 C=2 G=3 T=4)
example : LF.sortedAllB [3, 1, 4, 4, 1, 2, 1, 0] [7, 6, 4, 1, 5, 0, 3, 2] = true :=
  checkSA_sortedAllB _ _ (by decide) (by decide)
-- `hmin` cannot be dropped: `B$A$` with a sentinel `67` larger than the letters is a suffix array for C03
-- (rows: final `$`, `$A$`, `A$`, `B$A$`), but its first symbols 67,67,65,66 are not non-decreasing
example : checkSA [66, 67, 65, 67] [3, 1, 2, 0] = true := by decide
example : LF.sortedAllB [66, 67, 65, 67] [3, 1, 2, 0] = false := by decide

end RbV.SortedBridge
