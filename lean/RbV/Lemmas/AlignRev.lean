import RbV.Ref.Gotoh
/-!
Reversal symmetry of the affine-gap score (core Lean only).

`Aligner::custom` fills its matrix over *prefixes* (forward), the specification `best` recurses over *suffixes*.
The bridge between the two is that the score of an operation list is invariant under reversing both sequences
and the list: a maximal run of k insertions costs `go + k·ge` whichever end it is read from.  This is the first
of the three steps of the refinement theorem `custom_score_eq_opt` (see `RbV/Thm/C01.lean`).
-/
namespace RbV.Align

def kind : Op → St
  | .ins => .ins
  | .del => .del
  | _ => .none

/-- kind of the last column after `ops`, starting from `st` -/
def lastSt (st : St) : List Op → St
  | [] => st
  | o :: r => lastSt (kind o) r

theorem lastSt_append_singleton (st : St) (l : List Op) (o : Op) : lastSt st (l ++ [o]) = kind o := by
  induction l generalizing st with
  | nil => simp [lastSt]
  | cons a l ih => simp [lastSt, ih]

/-- scores compose along a split of the two sequences -/
theorem score_append (sc : Sc) : ∀ (ops1 : List Op) (st : St) (x1 y1 : List Nat) (v1 : Int),
    score sc st x1 y1 ops1 = some v1 → ∀ (x2 y2 : List Nat) (ops2 : List Op),
    score sc st (x1 ++ x2) (y1 ++ y2) (ops1 ++ ops2) =
      (score sc (lastSt st ops1) x2 y2 ops2).map (· + v1) := by
  intro ops1
  induction ops1 with
  | nil =>
    intro st x1 y1 v1 h x2 y2 ops2
    cases x1 <;> cases y1 <;> simp [score] at h
    subst h
    simp [lastSt]
  | cons o r ih =>
    intro st x1 y1 v1 h x2 y2 ops2
    cases o with
    | mat =>
      cases x1 with
      | nil => simp [score] at h
      | cons a x1 =>
        cases y1 with
        | nil => simp [score] at h
        | cons b y1 =>
          simp only [score] at h
          split at h
          · rename_i hab
            subst hab
            cases h' : score sc .none x1 y1 r with
            | none => simp [h'] at h
            | some u =>
              simp [h'] at h
              have := ih .none x1 y1 u h' x2 y2 ops2
              simp only [List.cons_append, score, if_true, this, lastSt, kind, Option.map_map]
              congr 1; funext t; simp only [Function.comp]; omega
          · simp at h
    | sub =>
      cases x1 with
      | nil => simp [score] at h
      | cons a x1 =>
        cases y1 with
        | nil => simp [score] at h
        | cons b y1 =>
          simp only [score] at h
          split at h
          · rename_i hab
            cases h' : score sc .none x1 y1 r with
            | none => simp [h'] at h
            | some u =>
              simp [h'] at h
              have := ih .none x1 y1 u h' x2 y2 ops2
              simp only [List.cons_append, score, if_pos hab, this, lastSt, kind, Option.map_map]
              congr 1; funext t; simp only [Function.comp]; omega
          · simp at h
    | ins =>
      cases x1 with
      | nil => cases y1 <;> simp [score] at h
      | cons a x1 =>
        simp only [score] at h
        cases h' : score sc .ins x1 y1 r with
        | none => simp [h'] at h
        | some u =>
          simp [h'] at h
          have := ih .ins x1 y1 u h' x2 y2 ops2
          simp only [List.cons_append, score, this, lastSt, kind, Option.map_map]
          congr 1; funext t; simp only [Function.comp]; omega
    | del =>
      cases y1 with
      | nil => cases x1 <;> simp [score] at h
      | cons b y1 =>
        have h2 : score sc st x1 (b :: y1) (.del :: r) = (score sc .del x1 y1 r).map (· + gapD sc st) := by
          cases x1 <;> simp [score]
        rw [h2] at h
        cases h' : score sc .del x1 y1 r with
        | none => simp [h'] at h
        | some u =>
          simp [h'] at h
          have := ih .del x1 y1 u h' x2 y2 ops2
          have h3 : score sc st (x1 ++ x2) (b :: (y1 ++ y2)) (.del :: (r ++ ops2)) =
              (score sc .del (x1 ++ x2) (y1 ++ y2) (r ++ ops2)).map (· + gapD sc st) := by
            cases (x1 ++ x2) <;> simp [score]
          simp only [List.cons_append, h3, this, lastSt, kind, Option.map_map]
          congr 1; funext t; simp only [Function.comp]; omega

/-- what a previous-column state saves on the first operation -/
def adj (sc : Sc) (st : St) : List Op → Int
  | .ins :: _ => if st = .ins then sc.go else 0
  | .del :: _ => if st = .del then sc.go else 0
  | _ => 0

theorem score_none_of_state (sc : Sc) (st : St) (x y : List Nat) (ops : List Op) (v : Int)
    (h : score sc st x y ops = some v) : score sc .none x y ops = some (v + adj sc st ops) := by
  cases ops with
  | nil =>
    cases x <;> cases y <;> simp [score] at h ⊢
    subst h; simp [adj]
  | cons o r =>
    cases o with
    | mat =>
      cases x with
      | nil => simp [score] at h
      | cons a x =>
        cases y with
        | nil => simp [score] at h
        | cons b y => simp only [score] at h ⊢; simp [adj, h]
    | sub =>
      cases x with
      | nil => simp [score] at h
      | cons a x =>
        cases y with
        | nil => simp [score] at h
        | cons b y => simp only [score] at h ⊢; simp [adj, h]
    | ins =>
      cases x with
      | nil => cases y <;> simp [score] at h
      | cons a x =>
        simp only [score] at h ⊢
        cases h' : score sc .ins x y r with
        | none => simp [h'] at h
        | some u =>
          simp [h'] at h ⊢
          cases st <;> simp [adj, gapI] at h ⊢ <;> omega
    | del =>
      cases y with
      | nil => cases x <;> simp [score] at h
      | cons b y =>
        have h2 : ∀ s, score sc s x (b :: y) (.del :: r) = (score sc .del x y r).map (· + gapD sc s) := by
          intro s; cases x <;> simp [score]
        rw [h2] at h ⊢
        cases h' : score sc .del x y r with
        | none => simp [h'] at h
        | some u =>
          simp [h'] at h ⊢
          cases st <;> simp [adj, gapD] at h ⊢ <;> omega

theorem lastSt_reverse (r : List Op) :
    lastSt .none r.reverse = match r with | [] => St.none | o :: _ => kind o := by
  cases r with
  | nil => simp [lastSt]
  | cons o r => simp [lastSt_append_singleton]

/-- **Reversal symmetry of the score**: reading both sequences and the operations backwards gives the same
score (and the same validity). -/
theorem score_reverse (sc : Sc) : ∀ (ops : List Op) (x y : List Nat) (v : Int),
    score sc .none x y ops = some v → score sc .none x.reverse y.reverse ops.reverse = some v := by
  intro ops
  induction ops with
  | nil =>
    intro x y v h
    cases x <;> cases y <;> simp [score] at h ⊢
    exact h
  | cons o r ih =>
    intro x y v h
    cases o with
    | mat =>
      cases x with
      | nil => simp [score] at h
      | cons a x =>
        cases y with
        | nil => simp [score] at h
        | cons b y =>
          simp only [score] at h
          split at h
          · rename_i hab
            try subst hab
            cases h' : score sc .none x y r with
            | none => simp [h'] at h
            | some u =>
              simp [h'] at h
              have hr := ih x y u h'
              have := score_append sc r.reverse .none x.reverse y.reverse u hr [a] [a] [.mat]
              rw [List.reverse_cons, List.reverse_cons, List.reverse_cons, this]
              simp [score]; omega
          · simp at h
    | sub =>
      cases x with
      | nil => simp [score] at h
      | cons a x =>
        cases y with
        | nil => simp [score] at h
        | cons b y =>
          simp only [score] at h
          split at h
          · rename_i hab
            cases h' : score sc .none x y r with
            | none => simp [h'] at h
            | some u =>
              simp [h'] at h
              have hr := ih x y u h'
              have := score_append sc r.reverse .none x.reverse y.reverse u hr [a] [b] [.sub]
              rw [List.reverse_cons, List.reverse_cons, List.reverse_cons, this]
              simp [score, hab]; omega
          · simp at h
    | ins =>
      cases x with
      | nil => cases y <;> simp [score] at h
      | cons a x =>
        simp only [score] at h
        cases h' : score sc .ins x y r with
        | none => simp [h'] at h
        | some u =>
          simp [h'] at h
          have hn := score_none_of_state sc .ins x y r u h'
          have hr := ih x y _ hn
          have := score_append sc r.reverse .none x.reverse y.reverse _ hr [a] [] [.ins]
          simp only [List.append_nil] at this
          simp only [List.reverse_cons, this, score, Option.map_some, lastSt_reverse]
          cases r with
          | nil => simp [adj, gapI] at h ⊢; omega
          | cons o' r' => cases o' <;> simp [adj, gapI, kind] at h ⊢ <;> omega
    | del =>
      cases y with
      | nil => cases x <;> simp [score] at h
      | cons b y =>
        have h2 : score sc .none x (b :: y) (.del :: r) = (score sc .del x y r).map (· + gapD sc .none) := by
          cases x <;> simp [score]
        rw [h2] at h
        cases h' : score sc .del x y r with
        | none => simp [h'] at h
        | some u =>
          simp [h'] at h
          have hn := score_none_of_state sc .del x y r u h'
          have hr := ih x y _ hn
          have := score_append sc r.reverse .none x.reverse y.reverse _ hr [] [b] [.del]
          simp only [List.append_nil] at this
          simp only [List.reverse_cons, this, score, Option.map_some, lastSt_reverse]
          cases r with
          | nil => simp [adj, gapD] at h ⊢; omega
          | cons o' r' => cases o' <;> simp [adj, gapD, kind] at h ⊢ <;> omega

/-- … hence the optimum over operation lists is the same read forwards or backwards -/
theorem best_reverse (sc : Sc) (x y : List Nat) :
    best sc .none x.reverse y.reverse = best sc .none x y := by
  have key : ∀ x y : List Nat, best sc .none x y ≤ best sc .none x.reverse y.reverse := by
    intro x y
    obtain ⟨ops, h⟩ := best_attained sc .none x y
    exact best_upper sc ops.reverse .none _ _ _ (score_reverse sc ops x y _ h)
  have h1 := key x y
  have h2 := key x.reverse y.reverse
  simp only [List.reverse_reverse] at h2
  omega

end RbV.Align
