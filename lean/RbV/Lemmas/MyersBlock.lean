import RbV.Model.MyersLong
import RbV.Lemmas.MyersStep
/-!
`advance_block` of the block-based Myers matcher computes the next Sellers column on the rows of its block, given the
horizontal difference `hin` at the block's upper edge, and hands the difference at its lower edge on as `hout`
(C09 [C]).  Core Lean only.
-/
namespace RbV.Model.MyersLong
open RbV.EditDist RbV.Model.MyersSimple

/-- next column restricted to a block: local row 0 has the new value `b0` -/
def nextCB (D : Nat → Int) (e : Nat → Bool) (b0 : Int) : Nat → Int
  | 0 => b0
  | i + 1 => min (min (D (i + 1) + 1) (nextCB D e b0 i + 1)) (D i + (if e i then 0 else 1))

/-- `pv`/`mv` hold the vertical differences of the local column `D` (rows `0..n`) -/
structure EncB {w : Nat} (n : Nat) (D : Nat → Int) (pv mv : BitVec w) : Prop where
  diff : ∀ i, i < n → -1 ≤ D (i + 1) - D i ∧ D (i + 1) - D i ≤ 1
  pvb : ∀ i, i < n → (pv.getLsbD i = true ↔ D (i + 1) - D i = 1)
  mvb : ∀ i, i < n → (mv.getLsbD i = true ↔ D (i + 1) - D i = -1)

/-- `eq` with bit 0 forced when the incoming horizontal difference is −1 -/
def eqIn {w : Nat} (eq : BitVec w) (hin : Int) : BitVec w := if hin < 0 then eq ||| 1#w else eq

theorem eqIn_zero {w : Nat} (eq : BitVec w) (hin : Int) (hw : 0 < w) :
    (eqIn eq hin).getLsbD 0 = (eq.getLsbD 0 || decide (hin < 0)) := by
  unfold eqIn
  by_cases h : hin < 0
  · simp [h, BitVec.getLsbD_or, BitVec.getLsbD_one, hw]
  · simp [h]

theorem eqIn_succ {w : Nat} (eq : BitVec w) (hin : Int) (i : Nat) :
    (eqIn eq hin).getLsbD (i + 1) = eq.getLsbD (i + 1) := by
  unfold eqIn
  by_cases h : hin < 0
  · simp [h, BitVec.getLsbD_or, BitVec.getLsbD_one]
  · simp [h]

theorem horizB {w : Nat} (n : Nat) (hn : n ≤ w) (D : Nat → Int) (eq pv mv : BitVec w) (b0 hin : Int)
    (hh : -1 ≤ hin ∧ hin ≤ 1) (hb : b0 - D 0 = hin) (enc : EncB n D pv mv) :
    ∀ i, i < n →
      -1 ≤ nextCB D eq.getLsbD b0 (i + 1) - D (i + 1) ∧ nextCB D eq.getLsbD b0 (i + 1) - D (i + 1) ≤ 1 ∧
      ((pv.getLsbD i && (xhOf (eqIn eq hin) pv).getLsbD i) = true ↔ nextCB D eq.getLsbD b0 (i + 1) - D (i + 1) = -1) ∧
      ((mv.getLsbD i || !((xhOf (eqIn eq hin) pv).getLsbD i || pv.getLsbD i)) = true ↔
        nextCB D eq.getLsbD b0 (i + 1) - D (i + 1) = 1) := by
  intro i
  induction i with
  | zero =>
    intro hi
    have hd := enc.diff 0 hi
    have hp := enc.pvb 0 hi
    have hv := enc.mvb 0 hi
    rw [xh_rec (eqIn eq hin) pv 0 (by omega), eqIn_zero eq hin (by omega)]
    simp only [nextCB, Bool.or_false, Nat.zero_add] at hd hp hv ⊢
    cases he : eq.getLsbD 0 <;> cases hpv : pv.getLsbD 0 <;> cases hmv : mv.getLsbD 0 <;>
      by_cases hneg : hin < 0 <;>
      simp [hpv, hmv, hneg] at hp hv ⊢ <;> omega
  | succ i ih =>
    intro hi
    obtain ⟨h1, h2, h3, _⟩ := ih (by omega)
    have hd := enc.diff (i + 1) hi
    have hp := enc.pvb (i + 1) hi
    have hv := enc.mvb (i + 1) hi
    rw [xh_rec (eqIn eq hin) pv (i + 1) (by omega), eqIn_succ]
    simp only
    have hn' : nextCB D eq.getLsbD b0 (i + 1 + 1) =
        min (min (D (i + 1 + 1) + 1) (nextCB D eq.getLsbD b0 (i + 1) + 1))
          (D (i + 1) + (if eq.getLsbD (i + 1) then 0 else 1)) := rfl
    rw [hn']
    cases he : eq.getLsbD (i + 1) <;> cases hpv : pv.getLsbD (i + 1) <;> cases hmv : mv.getLsbD (i + 1) <;>
      cases hc : (pv.getLsbD i && (xhOf (eqIn eq hin) pv).getLsbD i) <;>
      simp [hpv, hmv, hc] at hp hv h3 ⊢ <;> omega

theorem inbit_zero {w : Nat} (c : Prop) [Decidable c] (hw : 0 < w) :
    (if c then 1#w else 0#w).getLsbD 0 = decide c := by
  by_cases h : c <;> simp [h, hw]

theorem inbit_succ {w : Nat} (c : Prop) [Decidable c] (i : Nat) :
    (if c then 1#w else 0#w).getLsbD (i + 1) = false := by
  by_cases h : c <;> simp [h]

/-- the shifted words with the carried-in bit: bit `i` describes the horizontal difference of local row `i` -/
theorem horiz_shiftB {w : Nat} (n : Nat) (hn : n ≤ w) (D : Nat → Int) (eq pv mv : BitVec w) (b0 hin : Int)
    (hh : -1 ≤ hin ∧ hin ≤ 1) (hb : b0 - D 0 = hin) (enc : EncB n D pv mv) :
    ∀ i, i < n →
      -1 ≤ nextCB D eq.getLsbD b0 i - D i ∧ nextCB D eq.getLsbD b0 i - D i ≤ 1 ∧
      ((((pv &&& xhOf (eqIn eq hin) pv) <<< 1).getLsbD i || (if hin < 0 then 1#w else 0#w).getLsbD i) = true ↔
        nextCB D eq.getLsbD b0 i - D i = -1) ∧
      ((((mv ||| ~~~(xhOf (eqIn eq hin) pv ||| pv)) <<< 1).getLsbD i || (if hin > 0 then 1#w else 0#w).getLsbD i) = true ↔
        nextCB D eq.getLsbD b0 i - D i = 1) := by
  intro i hi
  rw [BitVec.getLsbD_shiftLeft, BitVec.getLsbD_shiftLeft]
  cases i with
  | zero =>
    rw [inbit_zero _ (by omega), inbit_zero _ (by omega)]
    simp only [nextCB]
    simp
    omega
  | succ j =>
    obtain ⟨h1, h2, h3, h4⟩ := horizB n hn D eq pv mv b0 hin hh hb enc j (by omega)
    have hw : decide (j + 1 < w) = true := by simp; omega
    have hw' : decide (j < w) = true := by simp; omega
    have h1' : decide (j + 1 < 1) = false := by simp
    rw [inbit_succ, inbit_succ]
    simp only [hw, h1', Nat.add_sub_cancel, Bool.not_false, Bool.and_true, Bool.true_and, Bool.or_false,
      BitVec.getLsbD_and, BitVec.getLsbD_or, BitVec.getLsbD_not, hw']
    exact ⟨h1, h2, h3, h4⟩

/-- **block step lemma**: if the block encodes the local column `D` (rows `0..n`, `n = bnd+1 ≤ w`), `dist = D n` and
`hin` is the horizontal difference at local row 0, then after `advance_block` the block encodes the next column, `dist`
is its last entry and `hout` the horizontal difference at the last row -/
theorem advanceBlock_enc {w : Nat} (bnd : Nat) (hn : bnd + 1 ≤ w) (D : Nat → Int) (eq : BitVec w) (s : St w)
    (b0 hin : Int) (hh : -1 ≤ hin ∧ hin ≤ 1) (hb : b0 - D 0 = hin)
    (enc : EncB (bnd + 1) D s.pv s.mv) (hd : (s.dist : Int) = D (bnd + 1))
    (hnn : 0 ≤ nextCB D eq.getLsbD b0 (bnd + 1)) :
    EncB (bnd + 1) (nextCB D eq.getLsbD b0) (advanceBlock bnd eq hin s).1.pv (advanceBlock bnd eq hin s).1.mv ∧
    ((advanceBlock bnd eq hin s).1.dist : Int) = nextCB D eq.getLsbD b0 (bnd + 1) ∧
    (advanceBlock bnd eq hin s).2 = nextCB D eq.getLsbD b0 (bnd + 1) - D (bnd + 1) := by
  have heq : (if hin < 0 then eq ||| 1#w else eq) = eqIn eq hin := rfl
  have newbits : ∀ i, i < bnd + 1 →
      (-1 ≤ nextCB D eq.getLsbD b0 (i + 1) - nextCB D eq.getLsbD b0 i ∧
        nextCB D eq.getLsbD b0 (i + 1) - nextCB D eq.getLsbD b0 i ≤ 1) ∧
      ((advanceBlock bnd eq hin s).1.pv.getLsbD i = true ↔
        nextCB D eq.getLsbD b0 (i + 1) - nextCB D eq.getLsbD b0 i = 1) ∧
      ((advanceBlock bnd eq hin s).1.mv.getLsbD i = true ↔
        nextCB D eq.getLsbD b0 (i + 1) - nextCB D eq.getLsbD b0 i = -1) := by
    intro i hi
    obtain ⟨a1, a2, a3, a4⟩ := horiz_shiftB (bnd + 1) hn D eq s.pv s.mv b0 hin hh hb enc i hi
    obtain ⟨b1, b2, _, _⟩ := horizB (bnd + 1) hn D eq s.pv s.mv b0 hin hh hb enc i hi
    have hdf := enc.diff i hi
    have hp := enc.pvb i hi
    have hv := enc.mvb i hi
    have hw : decide (i < w) = true := by simp; omega
    have hn' : nextCB D eq.getLsbD b0 (i + 1) =
        min (min (D (i + 1) + 1) (nextCB D eq.getLsbD b0 i + 1)) (D i + (if eq.getLsbD i then 0 else 1)) := rfl
    simp only [advanceBlock, heq, BitVec.getLsbD_or, BitVec.getLsbD_and, BitVec.getLsbD_not, hw, Bool.true_and]
    rw [hn'] at b1 b2 ⊢
    generalize hMH : (((s.pv &&& xhOf (eqIn eq hin) s.pv) <<< 1).getLsbD i ||
      (if hin < 0 then 1#w else 0#w).getLsbD i) = MH at a3 ⊢
    generalize hPH : (((s.mv ||| ~~~(xhOf (eqIn eq hin) s.pv ||| s.pv)) <<< 1).getLsbD i ||
      (if hin > 0 then 1#w else 0#w).getLsbD i) = PH at a4 ⊢
    cases he : eq.getLsbD i <;> cases hpv : s.pv.getLsbD i <;> cases hmv : s.mv.getLsbD i <;>
      cases MH <;> cases PH <;>
      simp [he, hpv, hmv] at hp hv a3 a4 b1 b2 ⊢ <;> omega
  refine ⟨⟨fun i hi => (newbits i hi).1, fun i hi => (newbits i hi).2.1, fun i hi => (newbits i hi).2.2⟩, ?_⟩
  obtain ⟨c1, c2, c3, c4⟩ := horizB (bnd + 1) hn D eq s.pv s.mv b0 hin hh hb enc bnd (by omega)
  have hw : decide (bnd < w) = true := by simp; omega
  simp only [advanceBlock, heq, BitVec.getLsbD_or, BitVec.getLsbD_and, BitVec.getLsbD_not, hw, Bool.true_and]
  cases hb1 : s.pv.getLsbD bnd <;> cases hb2 : (xhOf (eqIn eq hin) s.pv).getLsbD bnd <;>
    cases hb3 : s.mv.getLsbD bnd <;>
    simp [hb1, hb2, hb3] at c3 c4 ⊢ <;> omega

end RbV.Model.MyersLong
