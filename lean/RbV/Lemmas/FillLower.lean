import RbV.Lemmas.FillSound
/-!
No `S` cell and no `I` cell (row ≥ 1) of `Model/PairwiseFill.lean` holds junk: each dominates the closed-form score of
"delete `y[0..j]`, insert `x[0..i]`", which under `Sane` lies above `MIN_SCORE`.  Needed by the traceback proof: the
code left in a cell is never the untouched default, and a gap is never "extended" out of a sentinel.
-/
namespace RbV.Model.PairwiseFill
open RbV.Align

section
variable (sc : Sc)

/-- score of deleting `j` symbols, then inserting `i` symbols -/
def Lw (i j : Nat) : Int :=
  (if j = 0 then 0 else sc.go + sc.ge * (j : Int)) + (if i = 0 then 0 else sc.go + sc.ge * (i : Int))

theorem ge_mul_anti (hge : sc.ge ≤ 0) {k k' : Nat} (h : k ≤ k') : sc.ge * (k' : Int) ≤ sc.ge * (k : Int) :=
  Int.mul_le_mul_of_nonpos_left hge (Int.ofNat_le.mpr h)

variable {sc}
variable {cl : Clip} {x y : List Nat}

theorem iv0_ge (i : Nat) (h1 : 1 ≤ i) : sc.go + sc.ge * (i : Int) ≤ iv0 sc cl i := by
  unfold iv0
  split
  · rename_i h; subst h; simp
  · omega

theorem dv0_ge (j : Nat) (h1 : 1 ≤ j) : sc.go + sc.ge * (j : Int) ≤ dv0 sc cl j := by
  unfold dv0
  split
  · rename_i h; subst h; simp
  · omega

theorem Lw_row_succ (i j : Nat) (h1 : 1 ≤ i) : Lw sc (i + 1) j = Lw sc i j + sc.ge := by
  unfold Lw
  obtain ⟨k, rfl⟩ : ∃ k, i = k + 1 := ⟨i - 1, by omega⟩
  have e := mul_succ_int sc.ge k
  simp only [show k + 1 ≠ 0 by omega, show k + 1 + 1 ≠ 0 by omega, if_false]
  push_cast
  omega

theorem Lw_row_one (j : Nat) : Lw sc 1 j = Lw sc 0 j + sc.go + sc.ge := by
  unfold Lw
  simp
  omega

theorem bestS_ge_bestI (j : Nat) (prev : List Row) (i : Nat) (r : Row) :
    bestI sc r ≤ bestS sc cl x y j prev i r := by
  unfold bestS; omega

/-- `S[j][i]` and (`i ≥ 1`) `I[j][i]` dominate the closed form -/
theorem cell_lower (hxs : cl.xs ≤ 0) : ∀ j, j ≤ y.length → ∀ i, i ≤ x.length →
    Lw sc i j ≤ (cell sc cl x y j i).s ∧ (1 ≤ i → Lw sc i j ≤ (cell sc cl x y j i).i) := by
  intro j
  induction j with
  | zero =>
    intro _ i
    cases i with
    | zero => intro _; rw [cell_zero_zero]; simp [row00, Lw]
    | succ i =>
      intro hi
      rw [cell_zero_succ _ _ _ _ _ hi, step0_eq]
      dsimp only
      have := iv0_ge (sc := sc) (cl := cl) (i + 1) (by omega)
      have e : Lw sc (i + 1) 0 = sc.go + sc.ge * ((i + 1 : Nat) : Int) := by simp [Lw]
      exact ⟨by omega, fun _ => by omega⟩
  | succ j ihj =>
    intro hj i
    induction i with
    | zero =>
      intro _
      rw [cell_succ_zero, rowJ0_eq]
      dsimp only
      have := dv0_ge (sc := sc) (cl := cl) (j + 1) (by omega)
      have e : Lw sc 0 (j + 1) = sc.go + sc.ge * ((j + 1 : Nat) : Int) := by simp [Lw]
      refine ⟨?_, fun h => by omega⟩
      split <;> omega
    | succ i ih =>
      intro hi
      obtain ⟨h1, h2⟩ := ih (by omega)
      rw [cell_succ_succ _ _ _ _ _ _ hi, stepJ_eq]
      dsimp only
      have hb := bestS_ge_bestI (sc := sc) (cl := cl) (x := x) (y := y) (j + 1) (colAt sc cl x y j) (i + 1)
        (cell sc cl x y (j + 1) i)
      have hI : Lw sc (i + 1) (j + 1) ≤ bestI sc (cell sc cl x y (j + 1) i) := by
        unfold bestI
        rcases Nat.eq_zero_or_pos i with rfl | hpos
        · have := Lw_row_one (sc := sc) (j + 1)
          simp only [Nat.zero_add] at *
          omega
        · have := Lw_row_succ (sc := sc) i (j + 1) hpos
          have := h2 hpos
          omega
      refine ⟨?_, fun _ => hI⟩
      split <;> omega

variable {W : Int}

/-- the closed form lies above the junk range -/
theorem Lw_gt_min (H : Hyp sc cl x y W)
    (hs : minScore + ((x.length : Int) + y.length) * W < 2 * sc.go + sc.ge * ((x.length : Int) + y.length))
    (i j : Nat) (hi : i ≤ x.length) (hj : j ≤ y.length) : minScore - sc.go < Lw sc i j ∨ (minScore < Lw sc i j ∧ 1 ≤ i ∧ 1 ≤ j) := by
  have hW : 0 ≤ ((x.length : Int) + y.length) * W := Int.mul_nonneg (by omega) H.W0
  have e : sc.ge * ((x.length : Int) + y.length) = sc.ge * (x.length : Int) + sc.ge * (y.length : Int) := Int.mul_add _ _ _
  have h1 := ge_mul_anti sc H.ge hi
  have h2 := ge_mul_anti sc H.ge hj
  have h3 := ge_mul_anti sc H.ge (Nat.zero_le i)
  have h4 := ge_mul_anti sc H.ge (Nat.zero_le j)
  simp only [Int.natCast_zero, Int.mul_zero] at h3 h4
  have := H.go
  unfold Lw
  by_cases hi0 : i = 0
  · left; subst hi0; simp only [if_true]; split <;> omega
  · by_cases hj0 : j = 0
    · left; subst hj0; simp only [if_true, hi0, if_false]; omega
    · right; simp only [hi0, hj0, if_false]; exact ⟨by omega, by omega, by omega⟩

theorem cell_s_gt_min (H : Hyp sc cl x y W)
    (hs : minScore + ((x.length : Int) + y.length) * W < 2 * sc.go + sc.ge * ((x.length : Int) + y.length))
    (i j : Nat) (hi : i ≤ x.length) (hj : j ≤ y.length) : minScore < (cell sc cl x y j i).s := by
  have := (cell_lower (sc := sc) (cl := cl) (x := x) (y := y) H.xs j hj i hi).1
  have hgo := H.go
  rcases Lw_gt_min H hs i j hi hj with h | h <;> omega

theorem cell_i_gt_min (H : Hyp sc cl x y W)
    (hs : minScore + ((x.length : Int) + y.length) * W < 2 * sc.go + sc.ge * ((x.length : Int) + y.length))
    (i j : Nat) (hi : i ≤ x.length) (hj : j ≤ y.length) (h1 : 1 ≤ i) : minScore < (cell sc cl x y j i).i := by
  have := (cell_lower (sc := sc) (cl := cl) (x := x) (y := y) H.xs j hj i hi).2 h1
  have hgo := H.go
  rcases Lw_gt_min H hs i j hi hj with h | h <;> omega

/-- in row 0 and in column 0 even `S + gap_open` stays above the sentinel (so `MIN_SCORE + gap_extend` never wins the
`I[·][0]` / `D[0][·]` comparison) -/
theorem cell_s_go_row0 (H : Hyp sc cl x y W)
    (hs : minScore + ((x.length : Int) + y.length) * W < 2 * sc.go + sc.ge * ((x.length : Int) + y.length))
    (j : Nat) (hj : j ≤ y.length) : minScore < (cell sc cl x y j 0).s + sc.go := by
  have := (cell_lower (sc := sc) (cl := cl) (x := x) (y := y) H.xs j hj 0 (Nat.zero_le _)).1
  rcases Lw_gt_min H hs 0 j (Nat.zero_le _) hj with h | h <;> omega

theorem cell_s_go_col0 (H : Hyp sc cl x y W)
    (hs : minScore + ((x.length : Int) + y.length) * W < 2 * sc.go + sc.ge * ((x.length : Int) + y.length))
    (i : Nat) (hi : i ≤ x.length) : minScore < (cell sc cl x y 0 i).s + sc.go := by
  have := (cell_lower (sc := sc) (cl := cl) (x := x) (y := y) H.xs 0 (Nat.zero_le _) i hi).1
  rcases Lw_gt_min H hs i 0 hi (Nat.zero_le _) with h | h <;> omega

end

end RbV.Model.PairwiseFill
