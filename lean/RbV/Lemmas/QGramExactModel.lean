import RbV.Model.QGramExact
import RbV.Lemmas.QGramExact
/-! The model of `exact_matches` reports exactly the records of `exactMatchesRef` (for every `max_count`). Core only. -/
namespace RbV.QGram
open RbV

/-! ### association lists -/

def AKeys {β : Type} (T : List (Int × β)) : List Int := T.map (·.1)

theorem assocGet_none_iff {β : Type} (d : Int) (T : List (Int × β)) : assocGet d T = none ↔ d ∉ AKeys T := by
  induction T with
  | nil => simp [assocGet, AKeys]
  | cons e T ih =>
    simp only [assocGet, AKeys, List.map_cons, List.mem_cons, not_or]
    split
    · rename_i h; simp [h]
    · rename_i h
      rw [ih]; unfold AKeys
      constructor
      · intro h'; exact ⟨fun hh => h hh.symm, h'⟩
      · intro h'; exact h'.2

theorem assocGet_append {β : Type} (d : Int) (T : List (Int × β)) (e : Int × β) :
    assocGet d (T ++ [e]) = match assocGet d T with
      | some r => some r
      | none => if e.1 = d then some e.2 else none := by
  induction T with
  | nil => simp [assocGet]
  | cons a T ih =>
    simp only [List.cons_append, assocGet]
    split
    · rfl
    · exact ih

theorem assocGet_set {β : Type} (d d0 : Int) (v : β) (T : List (Int × β)) :
    assocGet d (assocSet d0 v T) = if d = d0 then (assocGet d T).map (fun _ => v) else assocGet d T := by
  unfold assocSet
  induction T with
  | nil => simp [assocGet]
  | cons a T ih =>
    simp only [List.map_cons, assocGet]
    by_cases h1 : a.1 = d0
    · simp only [h1, if_true]
      by_cases h2 : d0 = d
      · simp [h2]
      · have h2' : ¬ d = d0 := fun hh => h2 hh.symm
        simp only [h2, if_false, h2']
        rw [ih]; simp [h2']
    · simp only [h1, if_false]
      by_cases h2 : a.1 = d
      · have : ¬ d = d0 := by intro hh; rw [hh] at h2; exact h1 h2
        simp [h2, this]
      · simp only [h2, if_false]; exact ih

theorem akeys_set {β : Type} (d : Int) (v : β) (T : List (Int × β)) : AKeys (assocSet d v T) = AKeys T := by
  unfold AKeys assocSet
  rw [List.map_map]
  apply List.map_congr_left
  intro e _
  simp only [Function.comp]
  split <;> rfl

theorem mem_iff_assocGet {β : Type} {T : List (Int × β)} (hk : (AKeys T).Pairwise (· ≠ ·)) (d : Int) (r : β) :
    (d, r) ∈ T ↔ assocGet d T = some r := by
  induction T with
  | nil => simp [assocGet]
  | cons e T ih =>
    unfold AKeys at hk
    rw [List.map_cons, List.pairwise_cons] at hk
    simp only [List.mem_cons, assocGet]
    by_cases h1 : e.1 = d
    · simp only [h1, if_true, Option.some.injEq]
      constructor
      · rintro (h | h)
        · rw [← h]
        · exfalso
          have := hk.1 d (List.mem_map.mpr ⟨(d, r), h, rfl⟩)
          exact this h1
      · intro h; left; rw [← h, ← h1]
    · simp only [h1, if_false]
      rw [← ih hk.2]
      constructor
      · rintro (h | h)
        · rw [← h] at h1; exact absurd rfl h1
        · exact h
      · intro h; right; exact h

/-! ### hits are strictly sorted -/

theorem hits_lex_sorted (mc q : Nat) (pat text : List Nat) : (hits mc q pat text).Pairwise lexLt := by
  unfold hits
  rw [List.pairwise_flatMap]
  constructor
  · intro i _
    rw [List.pairwise_map]
    exact (qgramPositions_sorted _ _ _).imp (fun h => Or.inr ⟨rfl, h⟩)
  · have : (List.range (pat.length + 1 - q)).Pairwise (· < ·) := List.pairwise_lt_range
    apply this.imp
    intro a b hab p hp q' hq'
    rcases List.mem_map.mp hp with ⟨_, _, rfl⟩
    rcases List.mem_map.mp hq' with ⟨_, _, rfl⟩
    exact Or.inl hab

/-- on one diagonal, `lexLt` is `<` on the pattern position -/
theorem lexLt_same_diag {a b : Nat × Nat} (h : lexLt a b) (hd : diag a = diag b) : a.1 < b.1 := by
  unfold lexLt at h; unfold diag at hd
  rcases h with h | ⟨h1, h2⟩
  · exact h
  · omega

theorem lexLt_fst_le {a b : Nat × Nat} (h : lexLt a b) : a.1 ≤ b.1 := by
  unfold lexLt at h; omega

/-! ### runs -/

def recOf (q a p n : Nat) : ExactRec := (a, a + n + q, p, p + n + q)

/-- no hit directly before (a, p) on its diagonal -/
def LeftMax (H : List (Nat × Nat)) (a p : Nat) : Prop := ¬ (0 < a ∧ 0 < p ∧ (a - 1, p - 1) ∈ H)

/-- `n + 1` consecutive hits from (a, p), maximal on both sides -/
def IsRun (H : List (Nat × Nat)) (a p n : Nat) : Prop :=
  (∀ j, j ≤ n → (a + j, p + j) ∈ H) ∧ LeftMax H a p ∧ (a + n + 1, p + n + 1) ∉ H

theorem runLen_spec' (mc q : Nat) (pat text : List Nat) (hq : 0 < q) :
    ∀ fuel i p, pat.length < i + fuel →
      (∀ j, j < runLen mc q pat text fuel i p → isHit mc q pat text (i + j) (p + j) = true) ∧
      ¬ isHit mc q pat text (i + runLen mc q pat text fuel i p) (p + runLen mc q pat text fuel i p) = true := by
  intro fuel
  induction fuel with
  | zero =>
    intro i p h
    simp only [runLen, Nat.add_zero]
    refine ⟨fun j hj => by omega, fun hh => ?_⟩
    unfold isHit at hh
    simp only [Bool.and_eq_true, decide_eq_true_eq] at hh
    omega
  | succ fuel ih =>
    intro i p h
    simp only [runLen]
    by_cases hh : isHit mc q pat text i p = true
    · simp only [hh, if_true]
      obtain ⟨h1, h2⟩ := ih (i + 1) (p + 1) (by omega)
      constructor
      · intro j hj
        cases j with
        | zero => exact hh
        | succ j =>
          have := h1 j (by omega)
          have e1 : i + 1 + j = i + (j + 1) := by omega
          have e2 : p + 1 + j = p + (j + 1) := by omega
          rwa [e1, e2] at this
      · have e1 : i + (runLen mc q pat text fuel (i + 1) (p + 1) + 1) = i + 1 + runLen mc q pat text fuel (i + 1) (p + 1) := by omega
        have e2 : p + (runLen mc q pat text fuel (i + 1) (p + 1) + 1) = p + 1 + runLen mc q pat text fuel (i + 1) (p + 1) := by omega
        rw [e1, e2]; exact h2
    · have hh' : isHit mc q pat text i p = false := by simpa using hh
      simp only [hh', Bool.false_eq_true, if_false, Nat.add_zero]
      exact ⟨fun j hj => by omega, fun hx => by simp at hx⟩

/-- the reference reports exactly the records of the runs of the hit list -/
theorem exactMatchesRef_iff_run (mc q : Nat) (pat text : List Nat) (hq : 0 < q) (r : ExactRec) :
    r ∈ exactMatchesRef mc q pat text ↔ ∃ a p n, r = recOf q a p n ∧ IsRun (hits mc q pat text) a p n := by
  unfold exactMatchesRef
  simp only [List.mem_filterMap]
  constructor
  · rintro ⟨⟨i, p⟩, hmem, hres⟩
    have hhit : isHit mc q pat text i p = true := (mem_hits_iff mc q i p).mp hmem
    simp only at hres
    split at hres
    · cases hres
    · rename_i hleft
      simp only [Option.some.injEq] at hres
      obtain ⟨hrun, hstop⟩ := runLen_spec' mc q pat text hq (pat.length + 1) i p (by omega)
      have hn : 0 < runLen mc q pat text (pat.length + 1) i p := by
        simp only [runLen, hhit, if_true]; omega
      obtain ⟨n, hn'⟩ : ∃ n, runLen mc q pat text (pat.length + 1) i p = n + 1 :=
        ⟨runLen mc q pat text (pat.length + 1) i p - 1, by omega⟩
      rw [hn'] at hrun hstop hres
      refine ⟨i, p, n, ?_, ?_, ?_, ?_⟩
      · rw [← hres]; unfold recOf
        have e1 : i + (n + 1) - 1 + q = i + n + q := by omega
        have e2 : p + (n + 1) - 1 + q = p + n + q := by omega
        rw [e1, e2]
      · intro j hj; exact (mem_hits_iff mc q _ _).mpr (hrun j (by omega))
      · rintro ⟨h1, h2, h3⟩
        apply hleft
        simp only [Bool.and_eq_true, decide_eq_true_eq]
        exact ⟨⟨h1, h2⟩, (mem_hits_iff mc q _ _).mp h3⟩
      · intro hin
        apply hstop
        have := (mem_hits_iff mc q _ _).mp hin
        have e1 : i + n + 1 = i + (n + 1) := by omega
        have e2 : p + n + 1 = p + (n + 1) := by omega
        rwa [e1, e2] at this
  · rintro ⟨a, p, n, rfl, hrun, hleft, hstop⟩
    have h0 : (a, p) ∈ hits mc q pat text := by simpa using hrun 0 (by omega)
    refine ⟨(a, p), h0, ?_⟩
    simp only
    have hnl : ¬ ((decide (a > 0) && decide (p > 0) && isHit mc q pat text (a - 1) (p - 1)) = true) := by
      simp only [Bool.and_eq_true, decide_eq_true_eq]
      rintro ⟨⟨h1, h2⟩, h3⟩
      exact hleft ⟨h1, h2, (mem_hits_iff mc q _ _).mpr h3⟩
    rw [if_neg hnl]
    obtain ⟨hr, hs⟩ := runLen_spec' mc q pat text hq (pat.length + 1) a p (by omega)
    have hlen : runLen mc q pat text (pat.length + 1) a p = n + 1 := by
      rcases Nat.lt_trichotomy (runLen mc q pat text (pat.length + 1) a p) (n + 1) with h | h | h
      · exfalso; apply hs
        exact (mem_hits_iff mc q _ _).mp (hrun _ (by omega))
      · exact h
      · exfalso; apply hstop
        have := (mem_hits_iff mc q _ _).mpr (hr (n + 1) h)
        have e1 : a + (n + 1) = a + n + 1 := by omega
        have e2 : p + (n + 1) = p + n + 1 := by omega
        rwa [e1, e2] at this
    simp only [hlen, recOf, Option.some.injEq, Prod.mk.injEq]
    exact ⟨trivial, by omega, trivial, by omega⟩

/-- two runs that share a hit are the same run -/
theorem run_unique {H : List (Nat × Nat)} {a p n a' p' n' j : Nat} (h1 : IsRun H a p n) (h2 : IsRun H a' p' n')
    (hj : j ≤ n') (ha : a = a' + j) (hp : p = p' + j) : a = a' ∧ p = p' ∧ n = n' := by
  have hj0 : j = 0 := by
    rcases Nat.eq_zero_or_pos j with h | h
    · exact h
    · exfalso
      apply h1.2.1
      refine ⟨by omega, by omega, ?_⟩
      have := h2.1 (j - 1) (by omega)
      have e1 : a - 1 = a' + (j - 1) := by omega
      have e2 : p - 1 = p' + (j - 1) := by omega
      rw [e1, e2]; exact this
  subst hj0
  simp only [Nat.add_zero] at ha hp
  subst ha hp
  refine ⟨rfl, rfl, ?_⟩
  rcases Nat.lt_trichotomy n n' with h | h | h
  · exfalso; apply h1.2.2
    have := h2.1 (n + 1) (by omega)
    have e1 : a + (n + 1) = a + n + 1 := by omega
    have e2 : p + (n + 1) = p + n + 1 := by omega
    rwa [e1, e2] at this
  · exact h
  · exfalso; apply h2.2.2
    have := h1.1 (n' + 1) (by omega)
    have e1 : a + (n' + 1) = a + n' + 1 := by omega
    have e2 : p + (n' + 1) = p + n' + 1 := by omega
    rwa [e1, e2] at this


/-! ### the loop invariant -/

theorem recOf_inj {q a p n a' p' n' : Nat} (h : recOf q a p n = recOf q a' p' n') : a = a' ∧ p = p' ∧ n = n' := by
  simp only [recOf, Prod.mk.injEq] at h
  omega

/-- state invariant after the hits `H1` (a prefix of `H`) have been visited -/
def ExInv (q : Nat) (H H1 : List (Nat × Nat)) (st : List (Int × ExactRec) × List ExactRec) : Prop :=
  (AKeys st.1).Pairwise (· ≠ ·) ∧
  (∀ d, assocGet d st.1 = none ↔ ∀ h ∈ H1, diag h ≠ d) ∧
  (∀ d r, assocGet d st.1 = some r → ∃ a p n, r = recOf q a p n ∧ diag (a, p) = d ∧
      (∀ j, j ≤ n → (a + j, p + j) ∈ H1) ∧ LeftMax H a p ∧ (∀ h ∈ H1, diag h = d → h.1 ≤ a + n)) ∧
  (∀ r ∈ st.2, ∃ a p n, r = recOf q a p n ∧ IsRun H a p n) ∧
  (∀ h ∈ H1, ∃ a p n j, j ≤ n ∧ h = (a + j, p + j) ∧
      (recOf q a p n ∈ st.2 ∨ assocGet (diag h) st.1 = some (recOf q a p n)))

theorem mem_prefix_of_lt {H H1 H2 : List (Nat × Nat)} {h x : Nat × Nat} (hs : H = H1 ++ h :: H2)
    (hsorted : H.Pairwise lexLt) (hx : x ∈ H) (hlt : x.1 < h.1) : x ∈ H1 := by
  rw [hs] at hx hsorted
  rcases List.mem_append.mp hx with h1 | h1
  · exact h1
  · exfalso
    rcases List.mem_cons.mp h1 with h2 | h2
    · rw [h2] at hlt; omega
    · have := (List.pairwise_cons.mp (List.pairwise_append.mp hsorted).2.1).1 x h2
      have := lexLt_fst_le this
      omega

/-- the part of the invariant that only depends on how the table was updated at key `diag h` -/
theorem exInv_update (q : Nat) (H H1 H2 : List (Nat × Nat)) (h : Nat × Nat) (hs : H = H1 ++ h :: H2)
    (st : List (Int × ExactRec) × List ExactRec) (hinv : ExInv q H H1 st)
    (T' : List (Int × ExactRec)) (out' : List ExactRec) (a0 p0 n0 : Nat)
    (hkeys : (AKeys T').Pairwise (· ≠ ·))
    (hget : ∀ d', assocGet d' T' = if d' = diag h then some (recOf q a0 p0 n0) else assocGet d' st.1)
    (hnew : diag (a0, p0) = diag h ∧ (∀ j, j ≤ n0 → (a0 + j, p0 + j) ∈ H1 ++ [h]) ∧ LeftMax H a0 p0 ∧
      (∀ x ∈ H1 ++ [h], diag x = diag h → x.1 ≤ a0 + n0) ∧ h = (a0 + n0, p0 + n0))
    (hout : ∀ r ∈ out', r ∈ st.2 ∨ ∃ a p n, r = recOf q a p n ∧ IsRun H a p n)
    (hkeep : ∀ r ∈ st.2, r ∈ out')
    (hcov : ∀ a p n, assocGet (diag h) st.1 = some (recOf q a p n) →
        recOf q a p n ∈ out' ∨ (a = a0 ∧ p = p0 ∧ n ≤ n0)) :
    ExInv q H (H1 ++ [h]) (T', out') := by
  obtain ⟨_, h2, h3, h4, h5⟩ := hinv
  refine ⟨hkeys, ?_, ?_, ?_, ?_⟩
  · intro d'
    rw [hget d']
    by_cases hd : d' = diag h
    · simp only [hd, if_true]
      constructor
      · intro hh; cases hh
      · intro hh; exact absurd rfl (hh h (by simp))
    · simp only [hd, if_false]
      rw [h2 d']
      constructor
      · intro hh x hx
        rcases List.mem_append.mp hx with h' | h'
        · exact hh x h'
        · simp at h'; rw [h']; exact fun e => hd e.symm
      · intro hh x hx; exact hh x (by simp [hx])
  · intro d' r hr
    rw [hget d'] at hr
    by_cases hd : d' = diag h
    · simp only [hd, if_true, Option.some.injEq] at hr
      subst hd
      exact ⟨a0, p0, n0, hr.symm, hnew.1, hnew.2.1, hnew.2.2.1, hnew.2.2.2.1⟩
    · simp only [hd, if_false] at hr
      obtain ⟨a, p, n, e1, e2, e3, e4, e5⟩ := h3 d' r hr
      refine ⟨a, p, n, e1, e2, fun j hj => by simp [e3 j hj], e4, ?_⟩
      intro x hx hdx
      rcases List.mem_append.mp hx with h' | h'
      · exact e5 x h' hdx
      · simp at h'; rw [h'] at hdx; exact absurd hdx.symm hd
  · intro r hr
    rcases hout r hr with h' | h'
    · exact h4 r h'
    · exact h'
  · intro x hx
    rcases List.mem_append.mp hx with h' | h'
    · obtain ⟨a, p, n, j, hj, hxe, hc⟩ := h5 x h'
      rcases hc with hc | hc
      · exact ⟨a, p, n, j, hj, hxe, Or.inl (hkeep _ hc)⟩
      · by_cases hd : diag x = diag h
        · rw [hd] at hc
          rcases hcov a p n hc with h'' | ⟨ea, ep, en⟩
          · exact ⟨a, p, n, j, hj, hxe, Or.inl h''⟩
          · subst ea ep
            refine ⟨a, p, n0, j, by omega, hxe, Or.inr ?_⟩
            rw [hget, if_pos hd]
        · refine ⟨a, p, n, j, hj, hxe, Or.inr ?_⟩
          rw [hget, if_neg hd]; exact hc
    · simp at h'
      subst h'
      refine ⟨a0, p0, n0, n0, Nat.le_refl _, hnew.2.2.2.2, Or.inr ?_⟩
      rw [hget, if_pos rfl]


theorem exInv_step (q : Nat) (H H1 H2 : List (Nat × Nat)) (h : Nat × Nat) (hs : H = H1 ++ h :: H2)
    (hsorted : H.Pairwise lexLt) (st : List (Int × ExactRec) × List ExactRec) (hinv : ExInv q H H1 st) :
    ExInv q H (H1 ++ [h]) (exactStep q st h) := by
  have hinv' := hinv
  obtain ⟨k1, k2, k3, _, _⟩ := hinv
  have hbefore : ∀ x ∈ H1, lexLt x h := by
    rw [hs] at hsorted
    exact fun x hx => (List.pairwise_append.mp hsorted).2.2 x hx h (by simp)
  have hsub : ∀ x ∈ H1, x ∈ H := by intro x hx; rw [hs]; simp [hx]
  have hhH : h ∈ H := by rw [hs]; simp
  unfold exactStep
  cases hget0 : assocGet (diag h) st.1 with
  | none =>
    simp only
    have hno : ∀ x ∈ H1, diag x ≠ diag h := (k2 _).mp hget0
    apply exInv_update q H H1 H2 h hs st hinv' _ _ h.1 h.2 0
    · -- keys
      show (AKeys (st.1 ++ [(diag h, (h.1, h.1 + q, h.2, h.2 + q))])).Pairwise (· ≠ ·)
      unfold AKeys
      rw [List.map_append, List.pairwise_append]
      refine ⟨k1, by simp, ?_⟩
      intro a ha b hb
      simp at hb; subst hb
      have := (assocGet_none_iff (diag h) st.1).mp hget0
      intro hab; subst hab; exact this ha
    · intro d'
      rw [assocGet_append]
      by_cases hd : d' = diag h
      · subst hd; rw [hget0]; simp [recOf]
      · have hd' : ¬ diag h = d' := fun e => hd e.symm
        simp only [hd, if_false]
        cases assocGet d' st.1 <;> simp [hd']
    · refine ⟨rfl, ?_, ?_, ?_, by simp⟩
      · intro j hj
        have : j = 0 := by omega
        subst this; simp
      · rintro ⟨h1, h2, h3⟩
        have hm := mem_prefix_of_lt hs hsorted h3 (by simp; omega)
        apply hno _ hm
        unfold diag; simp only; omega
      · intro x hx hdx
        rcases List.mem_append.mp hx with h' | h'
        · exact absurd hdx (hno x h')
        · simp at h'; subst h'; omega
    · intro r hr; left; exact hr
    · intro r hr; exact hr
    · intro a p n hc; rw [hget0] at hc; cases hc
  | some m =>
    obtain ⟨a, p', n, rfl, hd, hhits, hleft, hlast⟩ := k3 _ m hget0
    have hlastH1 : (a + n, p' + n) ∈ H1 := hhits n (Nat.le_refl _)
    have hdlast : diag (a + n, p' + n) = diag h := by
      rw [← hd]; unfold diag; simp only; omega
    have hlt : a + n < h.1 := lexLt_same_diag (hbefore _ hlastH1) hdlast
    have hdiag : (h.2 : Int) - (h.1 : Int) = (p' : Int) - (a : Int) := by
      have := hd; unfold diag at this; simp only at this; omega
    simp only [recOf]
    by_cases hcont : a + n + 1 = h.1
    · have hc : (a + n + q - q + 1 != h.1) = false := by
        have e : a + n + q - q = a + n := by omega
        rw [e]; simp [hcont]
      simp only [hc, Bool.false_eq_true, if_false]
      have hh2 : h.2 = p' + n + 1 := by omega
      apply exInv_update q H H1 H2 h hs st hinv' _ _ a p' (n + 1)
      · rw [akeys_set]; exact k1
      · intro d'
        rw [assocGet_set]
        by_cases hd' : d' = diag h
        · subst hd'
          have hrec : (a, h.1 + q, p', h.2 + q) = recOf q a p' (n + 1) := by
            unfold recOf
            have e1 : h.1 + q = a + (n + 1) + q := by omega
            have e2 : h.2 + q = p' + (n + 1) + q := by omega
            rw [e1, e2]
          simp only [if_true, hget0, Option.map_some]
          exact congrArg some hrec
        · simp only [hd', if_false]
      · refine ⟨hd, ?_, hleft, ?_, ?_⟩
        · intro j hj
          by_cases hjn : j ≤ n
          · simp [hhits j hjn]
          · have : j = n + 1 := by omega
            subst this
            have : h = (a + (n + 1), p' + (n + 1)) := by
              apply Prod.ext <;> simp only <;> omega
            rw [← this]; simp
        · intro x hx hdx
          rcases List.mem_append.mp hx with h' | h'
          · have := hlast x h' hdx; omega
          · simp at h'; subst h'; omega
        · apply Prod.ext <;> simp only <;> omega
      · intro r hr; left; exact hr
      · intro r hr; exact hr
      · intro a1 p1 n1 hc1
        rw [hget0] at hc1
        simp only [Option.some.injEq] at hc1
        have := recOf_inj (q := q) (a := a) (p := p') (n := n) (a' := a1) (p' := p1) (n' := n1) hc1
        right; omega
    · have hc : (a + n + q - q + 1 != h.1) = true := by
        have e : a + n + q - q = a + n := by omega
        rw [e]; simp [hcont]
      simp only [hc, if_true]
      apply exInv_update q H H1 H2 h hs st hinv' _ _ h.1 h.2 0
      · rw [akeys_set]; exact k1
      · intro d'
        rw [assocGet_set]
        by_cases hd' : d' = diag h
        · subst hd'
          simp [hget0, recOf]
        · simp only [hd', if_false]
      · refine ⟨rfl, ?_, ?_, ?_, by simp⟩
        · intro j hj
          have : j = 0 := by omega
          subst this; simp
        · rintro ⟨h1, h2, h3⟩
          have hm := mem_prefix_of_lt hs hsorted h3 (by simp; omega)
          have := hlast _ hm (by unfold diag; simp only; omega)
          simp only at this
          omega
        · intro x hx hdx
          rcases List.mem_append.mp hx with h' | h'
          · have := hlast x h' hdx; omega
          · simp at h'; subst h'; omega
      · intro r hr
        rcases List.mem_append.mp hr with h' | h'
        · left; exact h'
        · right
          simp at h'
          refine ⟨a, p', n, h', fun j hj => hsub _ (hhits j hj), hleft, ?_⟩
          intro hin
          have hm := mem_prefix_of_lt hs hsorted hin (by simp; omega)
          have := hlast _ hm (by rw [← hd]; unfold diag; simp only; omega)
          simp only at this
          omega
      · intro r hr; simp [hr]
      · intro a1 p1 n1 hc1
        rw [hget0] at hc1
        simp only [Option.some.injEq] at hc1
        left
        rw [← hc1]; simp [recOf]

theorem exInv_foldl (q : Nat) (H : List (Nat × Nat)) (hsorted : H.Pairwise lexLt) :
    ∀ (H2 H1 : List (Nat × Nat)) (st : List (Int × ExactRec) × List ExactRec), H = H1 ++ H2 → ExInv q H H1 st →
      ExInv q H H (H2.foldl (exactStep q) st) := by
  intro H2
  induction H2 with
  | nil => intro H1 st hs hinv; simp at hs; subst hs; simpa using hinv
  | cons h H2 ih =>
    intro H1 st hs hinv
    simp only [List.foldl_cons]
    exact ih (H1 ++ [h]) (exactStep q st h) (by rw [hs]; simp) (exInv_step q H H1 H2 h hs hsorted st hinv)

theorem exInv_init (q : Nat) (H : List (Nat × Nat)) : ExInv q H [] ([], []) := by
  refine ⟨by simp [AKeys], ?_, ?_, ?_, ?_⟩
  · intro d; simp [assocGet]
  · intro d r hr; simp [assocGet] at hr
  · intro r hr; cases hr
  · intro h hh; cases hh

/-- **the model of `exact_matches` and the reference report the same records** -/
theorem exactMatchesModel_mem_iff (mc q : Nat) (pat text : List Nat) (hq : 0 < q) (r : ExactRec) :
    r ∈ exactMatchesModel mc q pat text ↔ r ∈ exactMatchesRef mc q pat text := by
  have hsorted := hits_lex_sorted mc q pat text
  obtain ⟨k1, k2, k3, k4, k5⟩ := exInv_foldl q (hits mc q pat text) hsorted (hits mc q pat text) [] ([], []) (by simp)
    (exInv_init q _)
  rw [exactMatchesRef_iff_run mc q pat text hq]
  unfold exactMatchesModel
  simp only [List.mem_append, List.mem_map]
  -- open records are runs once every hit has been visited
  have hopen : ∀ d r, assocGet d ((hits mc q pat text).foldl (exactStep q) ([], [])).1 = some r →
      ∃ a p n, r = recOf q a p n ∧ IsRun (hits mc q pat text) a p n := by
    intro d r hr
    obtain ⟨a, p, n, e1, e2, e3, e4, e5⟩ := k3 d r hr
    refine ⟨a, p, n, e1, e3, e4, ?_⟩
    intro hin
    have := e5 _ hin (by rw [← e2]; unfold diag; simp only; omega)
    simp only at this
    omega
  constructor
  · rintro (h | ⟨⟨d, r'⟩, hmem, rfl⟩)
    · exact k4 r h
    · exact hopen d r' ((mem_iff_assocGet k1 d r').mp hmem)
  · rintro ⟨a, p, n, rfl, hrun⟩
    have h0 : (a, p) ∈ hits mc q pat text := by simpa using hrun.1 0 (by omega)
    obtain ⟨a', p', n', j, hj, hxe, hc⟩ := k5 _ h0
    simp only [Prod.mk.injEq] at hxe
    have hrun' : IsRun (hits mc q pat text) a' p' n' := by
      rcases hc with hc | hc
      · obtain ⟨a2, p2, n2, e, hr2⟩ := k4 _ hc
        obtain ⟨rfl, rfl, rfl⟩ := recOf_inj e
        exact hr2
      · obtain ⟨a2, p2, n2, e, hr2⟩ := hopen _ _ hc
        obtain ⟨rfl, rfl, rfl⟩ := recOf_inj e
        exact hr2
    obtain ⟨rfl, rfl, rfl⟩ := run_unique hrun hrun' hj hxe.1 hxe.2
    rcases hc with hc | hc
    · left; exact hc
    · right
      exact ⟨(_, recOf q a p n), (mem_iff_assocGet k1 _ _).mpr hc, rfl⟩

end RbV.QGram
