import RbV.Model.Sdpkpp
import RbV.Lemmas.LcskppEvents
/-! C19 — `sdpkpp` mirror model: the maximum of `PrevPtr` records is a commutative monoid operation, so C18's Fenwick
theorem applies; a query returns the default or one of the selected updates.  Core Lean only. -/
namespace RbV.Lemmas.Sdpkpp
open RbV.KChain RbV.Model.Lcskpp RbV.Model.Sdpkpp RbV.Lemmas.Fenwick

theorem ppLe_iff (a b : PrevPtr) : ppLe a b = true ↔
    a.plane < b.plane ∨ (a.plane = b.plane ∧ (a.score < b.score ∨ (a.score = b.score ∧ (a.d < b.d ∨ (a.d = b.d ∧
      (a.id < b.id ∨ (a.id = b.id ∧ (a.x < b.x ∨ (a.x = b.x ∧ a.y ≤ b.y))))))))) := by
  simp only [ppLe, Bool.or_eq_true, Bool.and_eq_true, decide_eq_true_eq, beq_iff_eq]

theorem ppLe_total (a b : PrevPtr) : ppLe a b = true ∨ ppLe b a = true := by
  rw [ppLe_iff, ppLe_iff]; omega

theorem ppLe_trans {a b c : PrevPtr} (h1 : ppLe a b = true) (h2 : ppLe b c = true) : ppLe a c = true := by
  rw [ppLe_iff] at *; omega

theorem ppLe_antisymm {a b : PrevPtr} (h1 : ppLe a b = true) (h2 : ppLe b a = true) : a = b := by
  rw [ppLe_iff] at *
  cases a; cases b
  simp only [PrevPtr.mk.injEq] at *
  omega

theorem maxPP_of_le {a b : PrevPtr} (h : ppLe a b = true) : maxPP a b = b := by unfold maxPP; rw [if_pos h]
theorem maxPP_of_not_le {a b : PrevPtr} (h : ¬ ppLe a b = true) : maxPP a b = a := by unfold maxPP; rw [if_neg h]

theorem maxPP_comm (a b : PrevPtr) : maxPP a b = maxPP b a := by
  by_cases h1 : ppLe a b = true <;> by_cases h2 : ppLe b a = true
  · rw [maxPP_of_le h1, maxPP_of_le h2]; exact (ppLe_antisymm h1 h2).symm
  · rw [maxPP_of_le h1, maxPP_of_not_le h2]
  · rw [maxPP_of_not_le h1, maxPP_of_le h2]
  · rcases ppLe_total a b with h | h
    · exact absurd h h1
    · exact absurd h h2

theorem maxPP_assoc (a b c : PrevPtr) : maxPP (maxPP a b) c = maxPP a (maxPP b c) := by
  by_cases h1 : ppLe a b = true <;> by_cases h2 : ppLe b c = true
  · rw [maxPP_of_le h1, maxPP_of_le h2, maxPP_of_le (ppLe_trans h1 h2)]
  · rw [maxPP_of_le h1, maxPP_of_not_le h2, maxPP_of_le h1]
  · rw [maxPP_of_not_le h1, maxPP_of_le h2]
  · rw [maxPP_of_not_le h1, maxPP_of_not_le h2, maxPP_of_not_le h1]
    apply maxPP_of_not_le
    intro h3
    have hcb : ppLe c b = true := by
      rcases ppLe_total b c with h | h
      · exact absurd h h2
      · exact h
    exact h1 (ppLe_trans h3 hcb)

theorem maxPP_id (a : PrevPtr) : maxPP dfltPP a = a := by
  apply maxPP_of_le
  rw [ppLe_iff]; simp only [dfltPP]; omega

theorem maxPP_cases (a b : PrevPtr) : maxPP a b = a ∨ maxPP a b = b := by
  unfold maxPP; split <;> simp

/-- a query result is the default record or one of the selected updates -/
theorem agg_maxPP_mem (P : Nat → Bool) (ups : List (Nat × PrevPtr)) :
    agg maxPP dfltPP P ups = dfltPP ∨ ∃ u ∈ ups, P u.1 = true ∧ u.2 = agg maxPP dfltPP P ups := by
  induction ups with
  | nil => left; rfl
  | cons w ws ih =>
    by_cases hw : P w.1 = true
    · simp only [agg, hw, if_true]
      rcases maxPP_cases w.2 (agg maxPP dfltPP P ws) with h | h
      · right; exact ⟨w, by simp, hw, h.symm⟩
      · rw [h]
        rcases ih with h' | ⟨u, hu, hP, hv⟩
        · left; exact h'
        · right; exact ⟨u, List.mem_cons_of_mem _ hu, hP, hv⟩
    · have hw' : P w.1 = false := by simpa using hw
      simp only [agg, hw', Bool.false_eq_true, if_false]
      rcases ih with h' | ⟨u, hu, hP, hv⟩
      · left; exact h'
      · right; exact ⟨u, List.mem_cons_of_mem _ hu, hP, hv⟩

theorem get_run_maxPP (n : Nat) (ups : List (Nat × PrevPtr)) (i : Nat) (hi : i < n) :
    Model.Fenwick.get maxPP dfltPP (run maxPP dfltPP n ups) i = agg maxPP dfltPP (fun q => decide (q ≤ i)) ups :=
  get_run maxPP dfltPP maxPP_assoc maxPP_comm maxPP_id n ups i hi

theorem run_snocPP (n : Nat) (ups : List (Nat × PrevPtr)) (u : Nat × PrevPtr) :
    run maxPP dfltPP n (ups ++ [u]) = Model.Fenwick.set maxPP dfltPP (run maxPP dfltPP n ups) u.1 u.2 := by
  simp [run, List.foldl_append]

end RbV.Lemmas.Sdpkpp
