import RbV.Model.BufLines
/-!
# `read_line` over a `BufReader` with any capacity and any admissible read schedule = line splitting  (C11)

`readLines c sched (init file) = splitLines file` and the per-call statement `readLine_spec`.
-/
namespace RbV.BufLines
open RbV.Fastx

/-! ## `firstLine` and `splitLines` -/

theorem splitLines_eq_firstLine (f : Bytes) (h : f ≠ []) :
    splitLines f = (firstLine f).1 :: splitLines (firstLine f).2 := by
  induction f with
  | nil => exact absurd rfl h
  | cons b r ih =>
    by_cases hb : b = 10
    · simp [splitLines, firstLine, hb]
    · cases r with
      | nil => simp [splitLines, firstLine, hb]
      | cons b' r' =>
        have := ih (by simp)
        simp only [splitLines, firstLine, hb, if_false] at this ⊢
        rw [this]

theorem firstLine_fst_eq_nil (f : Bytes) : (firstLine f).1 = [] ↔ f = [] := by
  cases f with
  | nil => simp [firstLine]
  | cons b r => by_cases hb : b = 10 <;> simp [firstLine, hb]

theorem firstLine_append (f : Bytes) : (firstLine f).1 ++ (firstLine f).2 = f := by
  induction f with
  | nil => rfl
  | cons b r ih => by_cases hb : b = 10 <;> simp [firstLine, hb, ih]

/-- the buffer holds the line end at index `i` -/
theorem firstLine_memchr_some (l r : Bytes) (i : Nat) (h : memchr 10 l = some i) :
    firstLine (l ++ r) = (l.take (i + 1), l.drop (i + 1) ++ r) := by
  induction l generalizing i with
  | nil => simp [memchr] at h
  | cons b t ih =>
    by_cases hb : b = 10
    · simp only [memchr, hb, if_true, Option.some.injEq] at h
      subst h
      simp [firstLine, hb]
    · simp only [memchr, hb, if_false, Option.map_eq_some_iff] at h
      obtain ⟨j, hj, rfl⟩ := h
      simp [firstLine, hb, ih j hj]

/-- the buffer holds no line end: the whole buffer belongs to the line, which goes on -/
theorem firstLine_memchr_none (l r : Bytes) (h : memchr 10 l = none) :
    firstLine (l ++ r) = (l ++ (firstLine r).1, (firstLine r).2) := by
  induction l with
  | nil => simp
  | cons b t ih =>
    by_cases hb : b = 10
    · simp [memchr, hb] at h
    · simp only [memchr, hb, if_false, Option.map_eq_none_iff] at h
      simp [firstLine, hb, ih h]

/-! ## `fill_buf` -/

/-- with a capacity ≥ 1 and an admissible schedule an empty `fill_buf` means end of input -/
theorem fillBuf_empty (c : Nat) (sched : Nat → Nat) (hc : 1 ≤ c) (hs : Admissible sched) (s : St)
    (h : (fillBuf c sched s).buf = []) : s.pending = [] := by
  unfold fillBuf at h
  split at h
  · rename_i hb
    have hb' : s.buf = [] := by simpa using hb
    have h0 : (s.src.take (min (sched s.k) c)).length = 0 := by
      simp only [] at h
      rw [h]; rfl
    have := hs s.k
    simp only [List.length_take] at h0
    have : s.src.length = 0 := by omega
    simp [St.pending, hb', List.length_eq_zero_iff.mp this]
  · rename_i hb
    simp [h] at hb

/-! ## one `read_until` -/

theorem readUntil_spec (c : Nat) (sched : Nat → Nat) (hc : 1 ≤ c) (hs : Admissible sched) (s : St) (out : Bytes) :
    (readUntil c sched s out).1 = out ++ (firstLine s.pending).1 ∧
    (readUntil c sched s out).2.pending = (firstLine s.pending).2 := by
  fun_induction readUntil c sched s out with
  | case1 s out s1 i hm =>
    have hp : s1.pending = s.pending := fillBuf_pending c sched s
    rw [← hp]
    have := firstLine_memchr_some s1.buf s1.src i hm
    simp only [St.pending] at this ⊢
    rw [this]
    simp [consume]
  | case2 s out s1 hm he =>
    have he' : s1.buf = [] := by simpa using he
    have := fillBuf_empty c sched hc hs s he'
    have hp : s1.pending = s.pending := fillBuf_pending c sched s
    rw [hp, this]
    simp [firstLine]
  | case3 s out s1 hm hne ih =>
    have hp : s1.pending = s.pending := fillBuf_pending c sched s
    rw [← hp]
    have := firstLine_memchr_none s1.buf s1.src hm
    simp only [St.pending] at this ih ⊢
    rw [this]
    simpa [consume] using ih

/-- **one `read_line` call**: whatever the capacity and the schedule, it hands out the first line of the bytes not
yet delivered and leaves the rest pending -/
theorem readLine_spec (c : Nat) (sched : Nat → Nat) (hc : 1 ≤ c) (hs : Admissible sched) (s : St) :
    (readLine c sched s).1 = (firstLine s.pending).1 ∧ (readLine c sched s).2.pending = (firstLine s.pending).2 := by
  simpa [readLine] using readUntil_spec c sched hc hs s []

/-- at end of input `read_line` hands out the empty string, for ever (only the `read` counter moves) -/
theorem readLine_eof (c : Nat) (sched : Nat → Nat) (s : St) (h : s.pending = []) :
    readLine c sched s = ([], { s with k := s.k + 1 }) := by
  have hb : s.buf = [] := by
    have := congrArg List.length h
    simp only [St.pending, List.length_append, List.length_nil] at this
    exact List.length_eq_zero_iff.mp (by omega)
  have hsrc : s.src = [] := by simpa [St.pending, hb] using h
  have hf : fillBuf c sched s = { s with k := s.k + 1 } := by
    cases s with
    | mk b sr k =>
      simp only at hb hsrc
      subst hb hsrc
      simp [fillBuf]
  unfold readLine readUntil
  simp only [hf, hb, memchr]
  simp

/-! ## all lines -/

theorem readLines_eq (c : Nat) (sched : Nat → Nat) (hc : 1 ≤ c) (hs : Admissible sched) (s : St) :
    readLines c sched s = splitLines s.pending := by
  fun_induction readLines c sched s with
  | case1 s he =>
    have he' : (readLine c sched s).1 = [] := by simpa using he
    rw [(readLine_spec c sched hc hs s).1, firstLine_fst_eq_nil] at he'
    rw [he']; rfl
  | case2 s hne ih =>
    have hne' : (readLine c sched s).1 ≠ [] := by simpa using hne
    have hsp := readLine_spec c sched hc hs s
    rw [hsp.1] at hne'
    have hp : s.pending ≠ [] := fun h => hne' ((firstLine_fst_eq_nil _).mpr h)
    rw [ih, hsp.1, hsp.2, ← splitLines_eq_firstLine _ hp]

/-- after all lines were read nothing is pending -/
theorem readLinesSt_pending (c : Nat) (sched : Nat → Nat) (hc : 1 ≤ c) (hs : Admissible sched) (s : St) :
    (readLinesSt c sched s).pending = [] := by
  fun_induction readLinesSt c sched s with
  | case1 s he =>
    have he' : (readLine c sched s).1 = [] := by simpa using he
    have hsp := readLine_spec c sched hc hs s
    rw [hsp.1, firstLine_fst_eq_nil] at he'
    rw [hsp.2, he']; rfl
  | case2 s hne ih => exact ih

theorem cyclic_admissible (l : List Nat) : Admissible (cyclic l) := fun k => by
  unfold cyclic; omega

theorem chainSched_admissible (sched : Nat → Nat) (hs : Admissible sched) : Admissible (chainSched sched) := fun k => by
  unfold chainSched; split
  · exact Nat.le_refl 1
  · exact hs k

end RbV.BufLines
