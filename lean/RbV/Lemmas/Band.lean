import RbV.Model.Band
/-! Lemmas about the `Band` mirror (`RbV/Model/Band.lean`): every operation keeps the shape (`rows`, `cols`, one range
per column, range bounds ≤ `rows`) and only *grows* ranges; what `add_kmer` / `add_entry` put into the band. -/
namespace RbV.Model.Band
open RbV.Align

theorem forCols_length (a b : Nat) (f : Nat → Nat × Nat → Nat × Nat) (rs : Ranges) :
    (forCols a b f rs).length = rs.length := by simp [forCols]

theorem forCols_get? (a b : Nat) (f : Nat → Nat × Nat → Nat × Nat) (rs : Ranges) (j : Nat) :
    (forCols a b f rs)[j]? = rs[j]?.map (fun r => if a ≤ j ∧ j < b then f j r else r) := by
  simp [forCols, List.getElem?_mapIdx]

/-- same columns, every range of `rs'` contains the one of `rs` -/
def Grow (rs rs' : Ranges) : Prop :=
  rs'.length = rs.length ∧ ∀ (j : Nat) (p : Nat × Nat), rs[j]? = some p → ∃ p' : Nat × Nat, rs'[j]? = some p' ∧ p'.1 ≤ p.1 ∧ p.2 ≤ p'.2

theorem Grow.refl (rs : Ranges) : Grow rs rs := ⟨rfl, fun _ p h => ⟨p, h, Nat.le_refl _, Nat.le_refl _⟩⟩

theorem Grow.trans {a b c : Ranges} (h1 : Grow a b) (h2 : Grow b c) : Grow a c := by
  refine ⟨h2.1.trans h1.1, fun j p hp => ?_⟩
  obtain ⟨p', hp', l1, l2⟩ := h1.2 j p hp
  obtain ⟨p'', hp'', l3, l4⟩ := h2.2 j p' hp'
  exact ⟨p'', hp'', Nat.le_trans l3 l1, Nat.le_trans l2 l4⟩

/-- all range bounds are at most `rows` -/
def Bdd (rows : Nat) (rs : Ranges) : Prop := ∀ (j : Nat) (p : Nat × Nat), rs[j]? = some p → p.1 ≤ rows ∧ p.2 ≤ rows

theorem forCols_grow (a b : Nat) (f : Nat → Nat × Nat → Nat × Nat) (rs : Ranges)
    (hf : ∀ j p, (f j p).1 ≤ p.1 ∧ p.2 ≤ (f j p).2) : Grow rs (forCols a b f rs) := by
  refine ⟨forCols_length .., fun j p hp => ?_⟩
  rw [forCols_get?, hp]
  by_cases h : a ≤ j ∧ j < b
  · exact ⟨f j p, by simp [h], (hf j p).1, (hf j p).2⟩
  · exact ⟨p, by simp [h], Nat.le_refl _, Nat.le_refl _⟩

theorem forCols_bdd (rows a b : Nat) (f : Nat → Nat × Nat → Nat × Nat) (rs : Ranges) (h : Bdd rows rs)
    (hf : ∀ j p, p.1 ≤ rows ∧ p.2 ≤ rows → (f j p).1 ≤ rows ∧ (f j p).2 ≤ rows) : Bdd rows (forCols a b f rs) := by
  intro j p hp
  rw [forCols_get?] at hp
  cases hq : rs[j]? with
  | none => simp [hq] at hp
  | some q =>
    simp only [hq, Option.map_some, Option.some.injEq] at hp
    subst hp
    by_cases hc : a ≤ j ∧ j < b
    · simp only [hc, and_self, if_true]; exact hf j q (h j q hq)
    · simp only [hc, if_false]; exact h j q hq

/-- the shape every band of an aligner for `|x| = m`, `|y| = n` has -/
structure WF (m n : Nat) (b : Band) : Prop where
  rows : b.rows = m + 1
  cols : b.cols = n + 1
  len : b.ranges.length = n + 1
  bdd : Bdd (m + 1) b.ranges

/-- `b'` has the shape of `b` and contains it -/
structure BGrow (b b' : Band) : Prop where
  rows : b'.rows = b.rows
  cols : b'.cols = b.cols
  grow : Grow b.ranges b'.ranges

theorem BGrow.refl (b : Band) : BGrow b b := ⟨rfl, rfl, Grow.refl _⟩
theorem BGrow.trans {a b c : Band} (h1 : BGrow a b) (h2 : BGrow b c) : BGrow a c :=
  ⟨h2.rows.trans h1.rows, h2.cols.trans h1.cols, h1.grow.trans h2.grow⟩

theorem new_wf (m n : Nat) : WF m n (new m n) := by
  refine ⟨rfl, rfl, by simp [new], ?_⟩
  intro j p hp
  simp only [new, List.getElem?_replicate] at hp
  split at hp
  · simp only [Option.some.injEq] at hp; subst hp; simp
  · simp at hp

/-! ### `add_entry` -/

theorem addEntry_grow (b : Band) (r c w : Nat) : BGrow b (addEntry b r c w) :=
  ⟨rfl, rfl, forCols_grow _ _ _ _ (fun _ _ => ⟨Nat.min_le_left _ _, Nat.le_max_left _ _⟩)⟩

theorem addEntry_wf {m n : Nat} {b : Band} (h : WF m n b) (r c w : Nat) : WF m n (addEntry b r c w) := by
  refine ⟨h.rows, h.cols, (forCols_length ..).trans h.len, ?_⟩
  apply forCols_bdd _ _ _ _ _ h.bdd
  intro j p hp
  have := h.rows
  simp only
  omega

/-! ### `add_kmer` -/

theorem addKmer_grow (b : Band) (r c k w : Nat) : BGrow b (addKmer b r c k w) := by
  unfold addKmer
  split
  · exact BGrow.refl b
  · refine ⟨rfl, rfl, ?_⟩
    refine Grow.trans (Grow.trans (Grow.trans (forCols_grow _ _ _ _ ?_) (forCols_grow _ _ _ _ ?_))
      (forCols_grow _ _ _ _ ?_)) (forCols_grow _ _ _ _ ?_) <;>
    · intro j p; simp only; omega

theorem addKmer_wf {m n : Nat} {b : Band} (h : WF m n b) (r c k w : Nat) : WF m n (addKmer b r c k w) := by
  unfold addKmer
  split
  · exact h
  · refine ⟨h.rows, h.cols, ?_, ?_⟩
    · simp only [forCols_length]; exact h.len
    · have hr := h.rows
      refine forCols_bdd _ _ _ _ _ (forCols_bdd _ _ _ _ _ (forCols_bdd _ _ _ _ _ (forCols_bdd _ _ _ _ _ h.bdd ?_) ?_) ?_) ?_ <;>
      · intro j p hp; simp only; omega

/-! ### `add_gap` -/

theorem foldl_inv {α β : Type} (P : β → Prop) (f : β → α → β) (l : List α) (b : β) (hb : P b)
    (hf : ∀ b a, P b → P (f b a)) : P (l.foldl f b) := by
  induction l generalizing b with
  | nil => exact hb
  | cons a l ih => exact ih _ (hf _ _ hb)

theorem addGap_grow (b : Band) (s e : Nat × Nat) (w : Nat) : BGrow b (addGap b s e w) := by
  unfold addGap
  simp only
  split
  · exact foldl_inv (BGrow b) _ _ _ (BGrow.refl b) (fun b' a hb' => hb'.trans (addEntry_grow ..))
  · exact foldl_inv (BGrow b) _ _ _ (BGrow.refl b) (fun b' a hb' => hb'.trans (addEntry_grow ..))

theorem addGap_wf {m n : Nat} {b : Band} (h : WF m n b) (s e : Nat × Nat) (w : Nat) : WF m n (addGap b s e w) := by
  unfold addGap
  simp only
  split
  · exact foldl_inv (WF m n) _ _ _ h (fun b' a hb' => addEntry_wf hb' ..)
  · exact foldl_inv (WF m n) _ _ _ h (fun b' a hb' => addEntry_wf hb' ..)

/-! ### `set_boundaries` -/

theorem boundStart_wf {m n : Nat} {b : Band} (h : WF m n b) (st : Nat × Nat) (k w : Nat) (cl : Clip) :
    WF m n (boundStart b st k w cl) := by
  unfold boundStart
  simp only
  repeat' first
    | assumption
    | apply addGap_wf
    | apply addKmer_wf
    | split

theorem boundEnd_wf {m n : Nat} {b : Band} (h : WF m n b) (en : Nat × Nat) (k w : Nat) (cl : Clip) :
    WF m n (boundEnd b en k w cl) := by
  unfold boundEnd
  simp only
  repeat' first
    | assumption
    | apply addGap_wf
    | apply addKmer_wf
    | split

theorem setBoundaries_wf {m n : Nat} {b : Band} (h : WF m n b) (st en : Nat × Nat) (k w : Nat) (cl : Clip) :
    WF m n (setBoundaries b st en k w cl) := boundEnd_wf (boundStart_wf h ..) ..

theorem boundStart_grow (b : Band) (st : Nat × Nat) (k w : Nat) (cl : Clip) : BGrow b (boundStart b st k w cl) := by
  unfold boundStart
  simp only
  repeat' first
    | exact BGrow.refl _
    | exact addGap_grow ..
    | exact addKmer_grow ..
    | exact BGrow.trans (addKmer_grow ..) (addGap_grow ..)
    | split

theorem boundEnd_grow (b : Band) (en : Nat × Nat) (k w : Nat) (cl : Clip) : BGrow b (boundEnd b en k w cl) := by
  unfold boundEnd
  simp only
  repeat' first
    | exact BGrow.refl _
    | exact addGap_grow ..
    | exact addKmer_grow ..
    | exact BGrow.trans (addKmer_grow ..) (addGap_grow ..)
    | split

theorem setBoundaries_grow (b : Band) (st en : Nat × Nat) (k w : Nat) (cl : Clip) :
    BGrow b (setBoundaries b st en k w cl) := (boundStart_grow ..).trans (boundEnd_grow ..)

/-! ### membership -/

theorem mem_iff (b : Band) (i j : Nat) :
    Mem b i j ↔ ∃ p, b.ranges[j]? = some p ∧ p.1 ≤ i ∧ i < p.2 := by
  unfold Mem
  rw [List.getD_eq_getElem?_getD]
  cases h : b.ranges[j]? with
  | none => simp
  | some p => simp

theorem Mem.mono {b b' : Band} (h : BGrow b b') {i j : Nat} (hm : Mem b i j) : Mem b' i j := by
  rw [mem_iff] at hm ⊢
  obtain ⟨p, hp, l1, l2⟩ := hm
  obtain ⟨p', hp', l3, l4⟩ := h.grow.2 j p hp
  exact ⟨p', hp', by omega, by omega⟩

theorem addEntry_mem {m n : Nat} {b : Band} (h : WF m n b) (r c w : Nat) (hr : r ≤ m) (hc : c ≤ n) :
    Mem (addEntry b r c w) r c := by
  rw [mem_iff]
  have hlen := h.len
  have hc' : c < b.ranges.length := by omega
  simp only [addEntry, forCols_get?, List.getElem?_eq_getElem hc', Option.map_some]
  refine ⟨_, rfl, ?_⟩
  have hcols := h.cols
  have hrows := h.rows
  have : (c - w ≤ c ∧ c < min (c + w + 1) b.cols) := by omega
  simp only [this, and_self, if_true]
  omega

/-- `add_kmer((r, c), k, w)` puts the `k` diagonal cells `(r + t, c + t)`, `t < k`, of the k-mer into the band -/
theorem addKmer_mem {m n : Nat} {b : Band} (h : WF m n b) (r c k w t : Nat) (hr : r + k ≤ m) (hc : c + k ≤ n)
    (ht : t < k) : Mem (addKmer b r c k w) (r + t) (c + t) := by
  rw [mem_iff]
  have hlen := h.len
  have hcols := h.cols
  have hrows := h.rows
  have hk : k ≠ 0 := by omega
  have hc' : c + t < b.ranges.length := by omega
  simp only [addKmer, hk, if_false, forCols_get?, List.getElem?_eq_getElem hc', Option.map_some]
  refine ⟨_, rfl, ?_⟩
  generalize b.ranges[c + t] = p
  obtain ⟨ps, pe⟩ := p
  simp only
  repeat' split
  all_goals (simp only; omega)

/-! ### `create_from_match_path` -/

theorem fullMatrix_new (m n : Nat) : fullMatrix (new m n) = ⟨m + 1, n + 1, List.replicate (n + 1) (0, m + 1)⟩ := rfl

theorem foldl_replicate_add (k c acc : Nat) :
    (List.replicate k (0, c)).foldl (fun acc (p : Nat × Nat) => acc + (p.2 - p.1)) acc = acc + k * c := by
  induction k generalizing acc with
  | zero => simp
  | succ k ih => rw [List.replicate_succ, List.foldl_cons, ih]; simp only [Nat.sub_zero, Nat.succ_mul]; omega

theorem numCells_full (m n : Nat) : numCells (fullMatrix (new m n)) = (m + 1) * (n + 1) := by
  rw [fullMatrix_new, numCells]
  simp only
  rw [foldl_replicate_add, Nat.zero_add, Nat.mul_comm]

theorem pathStep_wf {m n : Nat} (k w : Nat) (ms : List (Nat × Nat)) (st : Band × Option (Nat × Nat)) (idx : Nat)
    (h : WF m n st.1) : WF m n (pathStep k w ms st idx).1 := by
  unfold pathStep
  simp only
  split
  · split
    · exact addEntry_wf h ..
    · exact addKmer_wf (addGap_wf h ..) ..
  · exact addKmer_wf h ..

theorem pathStep_grow (k w : Nat) (ms : List (Nat × Nat)) (st : Band × Option (Nat × Nat)) (idx : Nat) :
    BGrow st.1 (pathStep k w ms st idx).1 := by
  unfold pathStep
  simp only
  split
  · split
    · exact addEntry_grow ..
    · exact (addGap_grow ..).trans (addKmer_grow ..)
  · exact addKmer_grow ..

theorem createFromMatchPath_wf (m n k w : Nat) (cl : Clip) (path : List Nat) (ms : List (Nat × Nat)) :
    WF m n (createFromMatchPath m n k w cl path ms) := by
  unfold createFromMatchPath
  simp only
  split
  · refine ⟨rfl, rfl, by simp [fullMatrix, new], ?_⟩
    intro j p hp
    simp only [fullMatrix, new, List.getElem?_replicate] at hp
    split at hp
    · simp only [Option.some.injEq] at hp; subst hp; simp
    · simp at hp
  · exact foldl_inv (fun st : Band × Option (Nat × Nat) => WF m n st.1) _ _ (_, none)
      (setBoundaries_wf (new_wf m n) ..) (fun st idx h => pathStep_wf k w ms st idx h)

/-- the k-mer `ms[idx]` lies inside the sequences -/
def InSeq (m n k : Nat) (ms : List (Nat × Nat)) (idx : Nat) : Prop :=
  (ms.getD idx (0, 0)).1 + k ≤ m ∧ (ms.getD idx (0, 0)).2 + k ≤ n

/-- the `k` diagonal cells of the k-mer `ms[idx]` are in the band -/
def Covers (b : Band) (k : Nat) (ms : List (Nat × Nat)) (idx : Nat) : Prop :=
  ∀ t, t < k → Mem b ((ms.getD idx (0, 0)).1 + t) ((ms.getD idx (0, 0)).2 + t)

/-- invariant of `for &idx in path`: shape, every processed k-mer covered, `prev` is a processed k-mer -/
structure PInv (m n k : Nat) (ms : List (Nat × Nat)) (S : Nat → Prop) (st : Band × Option (Nat × Nat)) : Prop where
  wf : WF m n st.1
  cov : ∀ idx, S idx → Covers st.1 k ms idx
  prev : ∀ p, st.2 = some p → ∃ idx, S idx ∧ ms.getD idx (0, 0) = p

theorem pathStep_inv {m n k w : Nat} {ms : List (Nat × Nat)} {S : Nat → Prop} {st : Band × Option (Nat × Nat)}
    (h : PInv m n k ms S st) (idx : Nat) (hin : InSeq m n k ms idx) :
    PInv m n k ms (fun i => S i ∨ i = idx) (pathStep k w ms st idx) := by
  have hg := pathStep_grow k w ms st idx
  refine ⟨pathStep_wf k w ms st idx h.wf, ?_, ?_⟩
  · intro i hi t ht
    rcases hi with hi | hi
    · exact (h.cov i hi t ht).mono hg
    · subst hi
      obtain ⟨hr, hc⟩ := hin
      unfold pathStep
      simp only
      split
      · rename_i p hp
        split
        · rename_i hcont
          -- continues: the last cell is added by `add_entry`, the others belong to the previous k-mer
          by_cases hl : t + 1 = k
          · have : Mem (addEntry st.1 (p.1 + k) (p.2 + k) w) (p.1 + k) (p.2 + k) :=
              addEntry_mem h.wf _ _ _ (by omega) (by omega)
            have e1 : (ms.getD i (0, 0)).1 + t = p.1 + k := by omega
            have e2 : (ms.getD i (0, 0)).2 + t = p.2 + k := by omega
            rw [e1, e2]; exact this
          · obtain ⟨i', hi', hp'⟩ := h.prev p hp
            have := h.cov i' hi' (t + 1) (by omega)
            rw [hp'] at this
            have e1 : (ms.getD i (0, 0)).1 + t = p.1 + (t + 1) := by omega
            have e2 : (ms.getD i (0, 0)).2 + t = p.2 + (t + 1) := by omega
            rw [e1, e2]; exact this.mono (addEntry_grow ..)
        · exact addKmer_mem (addGap_wf h.wf ..) _ _ _ _ _ hr hc ht
      · exact addKmer_mem h.wf _ _ _ _ _ hr hc ht
  · intro p hp
    refine ⟨idx, Or.inr rfl, ?_⟩
    unfold pathStep at hp
    simp only at hp
    split at hp
    · split at hp <;> · simp only [Option.some.injEq] at hp; exact hp
    · simp only [Option.some.injEq] at hp; exact hp

theorem foldl_pathStep_inv {m n k w : Nat} {ms : List (Nat × Nat)} (path : List Nat) (S : Nat → Prop)
    (st : Band × Option (Nat × Nat)) (h : PInv m n k ms S st) (hin : ∀ idx ∈ path, InSeq m n k ms idx) :
    PInv m n k ms (fun i => S i ∨ i ∈ path) (path.foldl (pathStep k w ms) st) := by
  induction path generalizing S st with
  | nil => simpa using h
  | cons a l ih =>
    rw [List.foldl_cons]
    have := ih (fun i => S i ∨ i = a) (pathStep k w ms st a) (pathStep_inv (w := w) h a (hin a (by simp)))
      (fun idx hi => hin idx (by simp [hi]))
    refine ⟨this.wf, fun idx hi => this.cov idx ?_, fun p hp => ?_⟩
    · rcases hi with hi | hi
      · exact Or.inl (Or.inl hi)
      · rcases List.mem_cons.mp hi with hi | hi
        · exact Or.inl (Or.inr hi)
        · exact Or.inr hi
    · obtain ⟨i, hi, he⟩ := this.prev p hp
      refine ⟨i, ?_, he⟩
      rcases hi with (hi | hi) | hi
      · exact Or.inl hi
      · exact Or.inr (by simp [hi])
      · exact Or.inr (by simp [hi])

theorem createFromMatchPath_covers (m n k w : Nat) (cl : Clip) (path : List Nat) (ms : List (Nat × Nat))
    (hne : ms ≠ []) (hin : ∀ idx ∈ path, InSeq m n k ms idx) (idx : Nat) (hidx : idx ∈ path) :
    Covers (createFromMatchPath m n k w cl path ms) k ms idx := by
  unfold createFromMatchPath
  have he : ms.isEmpty = false := by cases ms <;> simp_all
  simp only [he, Bool.false_eq_true, if_false]
  have h0 : PInv m n k ms (fun _ => False)
      (setBoundaries (new m n) (ms.getD (path.headD 0) (0, 0)) (ms.getD (path.getLastD 0) (0, 0)) k w cl, none) :=
    ⟨setBoundaries_wf (new_wf m n) .., fun _ h => h.elim, fun p hp => by simp at hp⟩
  exact (foldl_pathStep_inv path _ _ h0 hin).cov idx (Or.inr hidx)

end RbV.Model.Band
