import RbV.Lemmas.Utf8Lines
import RbV.Lemmas.UniWs
import RbV.Lemmas.Fastx
/-!
# The writer's output for text records is plain text  (C11)

`validUtf8 (a ++ b) = validUtf8 b` for valid `a`; records with valid-UTF-8 id / description (without non-ASCII white
space) and ASCII sequence / qualities are written as valid UTF-8 without non-ASCII white space.
-/
namespace RbV.Fastx

theorem validUtf8_append (a b : Bytes) (ha : validUtf8 a = true) : validUtf8 (a ++ b) = validUtf8 b := by
  fun_induction validUtf8 a with
  | case1 => rfl
  | case2 b0 r hb ih =>
    simp only [List.cons_append]; (conv => lhs; unfold validUtf8)
    simp only [hb, if_true]; exact ih ha
  | case3 => cases ha
  | case4 b0 hb0 b1 r hr ih =>
    simp only [Bool.and_eq_true] at ha
    simp only [List.cons_append]; (conv => lhs; unfold validUtf8)
    simp only [hb0, if_false, hr, if_true, ha.1, Bool.true_and]; exact ih ha.2
  | case5 => cases ha
  | case6 b1 b2 r _ _ ih =>
    simp only [Bool.and_eq_true] at ha
    obtain ⟨⟨h1, h2⟩, h3⟩ := ha
    simp only [List.cons_append]; (conv => lhs; unfold validUtf8)
    simp [h1, h2, ih h3]
  | case7 b0 hb0 b1 hr b2 r hne hr2 ih =>
    simp only [Bool.and_eq_true] at ha
    obtain ⟨⟨h1, h2⟩, h3⟩ := ha
    simp only [List.cons_append]; (conv => lhs; unfold validUtf8)
    simp only [hb0, if_false, hr, hne, hr2, if_true, h1, h2, Bool.true_and, Bool.false_eq_true]; exact ih h3
  | case8 b1 b2 r _ _ _ _ ih =>
    simp only [Bool.and_eq_true] at ha
    obtain ⟨⟨h1, h2⟩, h3⟩ := ha
    simp only [List.cons_append]; (conv => lhs; unfold validUtf8)
    simp [h1, h2, ih h3]
  | case9 => cases ha
  | case10 b1 b2 b3 r _ _ _ _ _ ih =>
    simp only [Bool.and_eq_true] at ha
    obtain ⟨⟨⟨h1, h2⟩, h3⟩, h4⟩ := ha
    simp only [List.cons_append]; (conv => lhs; unfold validUtf8)
    simp [h1, h2, h3, ih h4]
  | case11 b0 hb0 b1 hr b2 hne hr2 hne2 b3 r hne3 hr3 ih =>
    simp only [Bool.and_eq_true] at ha
    obtain ⟨⟨⟨h1, h2⟩, h3⟩, h4⟩ := ha
    simp only [List.cons_append]; (conv => lhs; unfold validUtf8)
    simp only [hb0, if_false, hr, hne, hr2, hne2, hne3, hr3, if_true, h1, h2, h3, Bool.true_and, Bool.false_eq_true]
    exact ih h4
  | case12 b1 b2 b3 r _ _ _ _ _ _ _ ih =>
    simp only [Bool.and_eq_true] at ha
    obtain ⟨⟨⟨h1, h2⟩, h3⟩, h4⟩ := ha
    simp only [List.cons_append]; (conv => lhs; unfold validUtf8)
    simp [h1, h2, h3, ih h4]
  | case13 => cases ha

theorem PlainText.append {a b : Bytes} (ha : PlainText a) (hb : PlainText b) : PlainText (a ++ b) :=
  ⟨by rw [validUtf8_append a b ha.1]; exact hb.1, fun x hx => by
    rcases List.mem_append.mp hx with h | h
    · exact ha.2 x h
    · exact hb.2 x h⟩

theorem PlainText.ascii {f : Bytes} (h : ∀ b ∈ f, b < 128) : PlainText f :=
  ⟨validUtf8_ascii f h, fun b hb => by
    have := h b hb
    simp only [isUwsLead, Bool.or_eq_false_iff, beq_eq_false_iff_ne]
    omega⟩

theorem PlainText.nil : PlainText [] := PlainText.ascii (by simp)

theorem PlainText.cons_ascii {b : Nat} {f : Bytes} (hb : b < 128) (hf : PlainText f) : PlainText (b :: f) := by
  have : PlainText ([b] ++ f) := PlainText.append (PlainText.ascii (by simp [hb])) hf
  simpa using this

theorem PlainText.flatMap {α : Type} (l : List α) (g : α → Bytes) (h : ∀ x ∈ l, PlainText (g x)) :
    PlainText (l.flatMap g) := by
  induction l with
  | nil => exact PlainText.nil
  | cons x l ih =>
    simp only [List.flatMap_cons]
    exact PlainText.append (h x (by simp)) (ih fun y hy => h y (List.mem_cons_of_mem _ hy))

theorem plainText_header (c : Nat) (hc : c < 128) (id m : Bytes) (hid : PlainText id) (hm : PlainText m) :
    PlainText (c :: id ++ m ++ [10]) := by
  have := PlainText.cons_ascii hc (PlainText.append (PlainText.append hid hm) (PlainText.ascii (f := [10]) (by simp)))
  simpa using this

theorem plainText_desc (d : Bytes) (hd : PlainText d) : PlainText (32 :: d) := PlainText.cons_ascii (by decide) hd

theorem mem_chunks (w : Nat) (hw : 1 ≤ w) (l : Bytes) : ∀ c ∈ chunks w l, ∀ b ∈ c, b ∈ l := by
  intro c hc b hb
  have := chunks_flatten w hw l
  rw [← this]
  exact List.mem_flatten.mpr ⟨c, hc, hb⟩

theorem plainText_writeFasta (wrap : Option Nat) (hw : ∀ w, wrap = some w → 1 ≤ w) (recs : List FaRec)
    (ht : ∀ r ∈ recs, TextFa r) : PlainText (writeFasta wrap recs) := by
  unfold writeFasta
  apply PlainText.flatMap
  intro r hr
  have t := ht r hr
  obtain ⟨id, desc, seq⟩ := r
  have hhead : PlainText (faHeaderBytes id desc) := by
    cases desc with
    | none => exact plainText_header 62 (by decide) id [] t.id_ok PlainText.nil
    | some d => exact plainText_header 62 (by decide) id (32 :: d) t.id_ok (plainText_desc d (t.desc_ok d rfl))
  unfold writeFastaRec
  apply PlainText.append hhead
  cases wrap with
  | none =>
    exact PlainText.ascii fun b hb => by
      rcases List.mem_append.mp hb with h | h
      · exact t.seq_ascii b h
      · simp only [List.mem_singleton] at h; omega
  | some w =>
    apply PlainText.flatMap
    intro c hc
    exact PlainText.ascii fun b hb => by
      rcases List.mem_append.mp hb with h | h
      · exact t.seq_ascii b (mem_chunks w (hw w rfl) seq c hc b h)
      · simp only [List.mem_singleton] at h; omega

theorem plainText_writeFastq (recs : List FqRec) (ht : ∀ r ∈ recs, TextFq r) : PlainText (writeFastq recs) := by
  unfold writeFastq
  apply PlainText.flatMap
  intro r hr
  have t := ht r hr
  obtain ⟨id, desc, seq, qual⟩ := r
  have h2 : PlainText (seq ++ [10, 43, 10] ++ qual ++ [10]) := PlainText.ascii fun b hb => by
    simp only [List.mem_append, List.mem_cons, List.not_mem_nil, or_false] at hb
    rcases hb with ((h | h) | h) | h
    · exact t.seq_ascii b h
    · omega
    · exact t.qual_ascii b h
    · omega
  cases desc with
  | none =>
    have := PlainText.append (plainText_header 64 (by decide) id [] t.id_ok PlainText.nil) h2
    simpa [writeFastqRec, List.append_assoc] using this
  | some d =>
    have := PlainText.append
      (plainText_header 64 (by decide) id (32 :: d) t.id_ok (plainText_desc d (t.desc_ok d rfl))) h2
    simpa [writeFastqRec, List.append_assoc] using this

end RbV.Fastx
