import RbV.Model.Expand
/-! C19 — `expand_kmer_matches`: a sweep that, for every element of a list sorted along each diagonal, pushes positions
strictly between the previous element of that diagonal and the element itself never pushes a position twice, nor one that
is in the list.  Core Lean only. -/
namespace RbV.Lemmas.Expand
open RbV.KChain RbV.Model.Expand

/-- diagonal of a position -/
def dg (z : M) : Int := (z.1 : Int) - (z.2 : Int)

section generic
variable (key : M → Int)

/-- elements of one diagonal come in ascending key order -/
def DiagSorted (l : List M) : Prop := l.Pairwise (fun a b => dg a = dg b → key a < key b)

/-- the positions pushed for `e` lie on its diagonal, before `e` and after every earlier element of the diagonal -/
def BlockOk (pre : List M) (e : M) (blk : List M) : Prop :=
  (∀ z ∈ blk, dg z = dg e ∧ key z < key e ∧ ∀ a ∈ pre, dg a = dg e → key a < key z) ∧ blk.Nodup

def BlocksOk : List M → List M → List (List M) → Prop
  | _, [], [] => True
  | pre, e :: r, b :: bs => BlockOk key pre e b ∧ BlocksOk (pre ++ [e]) r bs
  | _, _, _ => False

theorem diagSorted_nodup {l : List M} (h : DiagSorted key l) : l.Nodup := by
  apply h.imp
  intro a b hab e
  subst e
  have := hab rfl
  omega

theorem blocks_nodup : ∀ (rest pre : List M) (bs : List (List M)), DiagSorted key (pre ++ rest) → BlocksOk key pre rest bs →
    bs.flatten.Nodup ∧ (∀ z ∈ bs.flatten, z ∉ pre ++ rest) ∧
    (∀ z ∈ bs.flatten, ∃ e ∈ rest, dg z = dg e ∧ key z < key e ∧ ∀ a ∈ pre, dg a = dg e → key a < key z) := by
  intro rest
  induction rest with
  | nil =>
    intro pre bs _ hb
    cases bs with
    | nil => simp
    | cons b bs => simp [BlocksOk] at hb
  | cons e r ih =>
    intro pre bs hs hb
    cases bs with
    | nil => simp [BlocksOk] at hb
    | cons b bs' =>
      simp only [BlocksOk] at hb
      obtain ⟨⟨hbz, hbn⟩, hrest⟩ := hb
      have hs' : DiagSorted key ((pre ++ [e]) ++ r) := by simpa using hs
      obtain ⟨ih1, ih2, ih3⟩ := ih (pre ++ [e]) bs' hs' hrest
      have hs2 := List.pairwise_append.mp hs
      have her : ∀ c ∈ r, dg e = dg c → key e < key c := (List.pairwise_cons.mp hs2.2.1).1
      refine ⟨?_, ?_, ?_⟩
      · simp only [List.flatten_cons]
        rw [List.nodup_append]
        refine ⟨hbn, ih1, ?_⟩
        intro z hz w hw hzw
        subst hzw
        obtain ⟨h1, h2, _⟩ := hbz z hz
        obtain ⟨e', _, h4, _, h6⟩ := ih3 z hw
        have := h6 e (by simp) (by omega)
        omega
      · intro z hz
        simp only [List.flatten_cons] at hz
        rcases List.mem_append.mp hz with hz | hz
        · obtain ⟨h1, h2, h3⟩ := hbz z hz
          intro hmem
          rcases List.mem_append.mp hmem with hm | hm
          · have := h3 z hm h1; omega
          · rcases List.mem_cons.mp hm with rfl | hm
            · omega
            · have := her z hm h1.symm; omega
        · have := ih2 z hz
          simpa using this
      · intro z hz
        simp only [List.flatten_cons] at hz
        rcases List.mem_append.mp hz with hz | hz
        · obtain ⟨h1, h2, h3⟩ := hbz z hz
          exact ⟨e, by simp, h1, h2, h3⟩
        · obtain ⟨e', he', h4, h5, h6⟩ := ih3 z hz
          exact ⟨e', List.mem_cons_of_mem _ he', h4, h5, fun a ha => h6 a (List.mem_append_left _ ha)⟩

/-! ### the maps -/

theorem imGet_insert {β : Type} (d d' : Int) (v : β) (m : IMap β) :
    imGet d' (imInsert d v m) = if d = d' then some v else imGet d' m := by
  induction m with
  | nil => simp [imInsert, imGet]
  | cons e r ih =>
    obtain ⟨d0, v0⟩ := e
    by_cases h1 : d0 = d
    · subst h1
      by_cases h2 : d0 = d' <;> simp [imInsert, imGet, h2]
    · by_cases h2 : d0 = d'
      · subst h2
        have h3 : ¬ d = d0 := fun e => h1 e.symm
        simp [imInsert, imGet, h1, h3]
      · simp only [imInsert, imGet, h1, h2, if_false]
        exact ih

variable {β : Type} (emb : M → β)

/-- the map holds, per diagonal, (the embedding of) an element of the prefix that is last in key order -/
def MapInv (pre : List M) (map : IMap β) : Prop :=
  ∀ d, match imGet d map with
    | none => ∀ a ∈ pre, dg a ≠ d
    | some v => ∃ a ∈ pre, v = emb a ∧ dg a = d ∧ ∀ a' ∈ pre, dg a' = d → key a' ≤ key a

theorem mapInv_nil : MapInv key emb [] ([] : IMap β) := by
  intro d; simp [imGet]

theorem mapInv_insert {pre : List M} {e : M} {map : IMap β} (hs : DiagSorted key (pre ++ [e]))
    (hI : MapInv key emb pre map) : MapInv key emb (pre ++ [e]) (imInsert (dg e) (emb e) map) := by
  intro d
  rw [imGet_insert]
  have hs2 := List.pairwise_append.mp hs
  by_cases hd : dg e = d
  · rw [if_pos hd]
    refine ⟨e, by simp, rfl, hd, ?_⟩
    intro a' ha' hda
    rcases List.mem_append.mp ha' with h | h
    · have := hs2.2.2 a' h e (by simp) (by omega); omega
    · simp at h; subst h; omega
  · rw [if_neg hd]
    have := hI d
    split
    · next hnone =>
      rw [hnone] at this
      intro a ha
      rcases List.mem_append.mp ha with h | h
      · exact this a h
      · simp at h; subst h; exact hd
    · next v hsome =>
      rw [hsome] at this
      obtain ⟨a, ha, hv, hda, hmax⟩ := this
      refine ⟨a, List.mem_append_left _ ha, hv, hda, ?_⟩
      intro a' ha' hda'
      rcases List.mem_append.mp ha' with h | h
      · exact hmax a' h hda'
      · simp at h; subst h; exact absurd hda' hd

/-- a sweep whose rounds push admissible blocks: the vector grows by the flattened blocks -/
theorem fold_blocks (core : IMap β → M → Option (IMap β × List M))
    (hcore : ∀ pre map e, DiagSorted key (pre ++ [e]) → MapInv key emb pre map →
      ∃ blk, core map e = some (imInsert (dg e) (emb e) map, blk) ∧ BlockOk key pre e blk) :
    ∀ (rest pre : List M) (map : IMap β) (vec : List M), DiagSorted key (pre ++ rest) → MapInv key emb pre map →
      ∃ map' bs, rest.foldl (pushStep core) (some (map, vec)) = some (map', vec ++ bs.flatten) ∧ BlocksOk key pre rest bs := by
  intro rest
  induction rest with
  | nil => intro pre map vec _ _; exact ⟨map, [], by simp, trivial⟩
  | cons e r ih =>
    intro pre map vec hs hI
    have hs1 : DiagSorted key (pre ++ [e]) := by
      have : DiagSorted key ((pre ++ [e]) ++ r) := by simpa using hs
      exact (List.pairwise_append.mp this).1
    obtain ⟨blk, hc, hb⟩ := hcore pre map e hs1 hI
    have hs' : DiagSorted key ((pre ++ [e]) ++ r) := by simpa using hs
    obtain ⟨map', bs, hf, hbs⟩ := ih (pre ++ [e]) _ (vec ++ blk) hs' (mapInv_insert key emb hs1 hI)
    refine ⟨map', blk :: bs, ?_, ⟨hb, hbs⟩⟩
    simp only [List.foldl_cons, pushStep, hc]
    rw [hf]; simp

/-- … and together with the swept list it is duplicate-free -/
theorem fold_nodup (core : IMap β → M → Option (IMap β × List M))
    (hcore : ∀ pre map e, DiagSorted key (pre ++ [e]) → MapInv key emb pre map →
      ∃ blk, core map e = some (imInsert (dg e) (emb e) map, blk) ∧ BlockOk key pre e blk)
    (l vec : List M) (hs : DiagSorted key l) :
    ∃ map' extra, l.foldl (pushStep core) (some ([], vec)) = some (map', vec ++ extra) ∧ (l ++ extra).Nodup := by
  obtain ⟨map', bs, hf, hbs⟩ := fold_blocks key emb core hcore l [] [] vec (by simpa using hs) (mapInv_nil key emb)
  obtain ⟨h1, h2, _⟩ := blocks_nodup key l [] bs (by simpa using hs) hbs
  refine ⟨map', bs.flatten, hf, ?_⟩
  rw [List.nodup_append]
  refine ⟨diagSorted_nodup key hs, h1, ?_⟩
  intro a ha b hb hab
  subst hab
  exact h2 a hb (by simpa using ha)

end generic
end RbV.Lemmas.Expand
