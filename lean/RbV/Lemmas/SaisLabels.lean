import RbV.Lemmas.SaisLabelsDef
/-
Properties of the label sequence `labels eq qs` of the naming loop: labels start at 0, grow by at most one per step,
are dense, and (on a key-sorted scan with `eq` deciding key equality) are order-isomorphic to the keys.
-/
namespace RbV.Sais
open RbV

/-! ### generic helpers -/

theorem getD_eq_getElem_nat (l : List Nat) (i : Nat) (h : i < l.length) : l.getD i 0 = l[i] := by
  simp [List.getD_eq_getElem?_getD, List.getElem?_eq_getElem h]

theorem getLastD_eq_getD_pred (l : List Nat) (h : l ≠ []) : l.getLastD 0 = l.getD (l.length - 1) 0 := by
  cases l with
  | nil => exact absurd rfl h
  | cons x r =>
    rw [getD_eq_getElem_nat _ _ (by simp)]
    simp [List.getLast?_eq_getElem?]

/-- a sequence that changes by `0` or `+1` per step is monotone with slope at most one -/
theorem step_mono (f : Nat → Nat) (n : Nat) (hstep : ∀ a, a + 1 < n → f a ≤ f (a + 1) ∧ f (a + 1) ≤ f a + 1)
    (a b : Nat) (hab : a ≤ b) (hb : b < n) : f a ≤ f b ∧ f b ≤ f a + (b - a) := by
  induction b with
  | zero =>
    have : a = 0 := by omega
    subst this
    exact ⟨Nat.le_refl _, by omega⟩
  | succ b ih =>
    by_cases h : a = b + 1
    · subst h
      exact ⟨Nat.le_refl _, by omega⟩
    · have h1 := ih (by omega) (by omega)
      have h2 := hstep b hb
      exact ⟨by omega, by omega⟩

/-- discrete intermediate value -/
theorem step_dense (f : Nat → Nat) (n : Nat) (h0 : f 0 = 0)
    (hstep : ∀ a, a + 1 < n → f a ≤ f (a + 1) ∧ f (a + 1) ≤ f a + 1)
    (b : Nat) (hb : b < n) (v : Nat) (hv : v ≤ f b) : ∃ a, a ≤ b ∧ f a = v := by
  induction b with
  | zero => exact ⟨0, Nat.le_refl _, by omega⟩
  | succ b ih =>
    have h2 := hstep b hb
    by_cases h : v ≤ f b
    · obtain ⟨a, ha, hfa⟩ := ih (by omega) h
      exact ⟨a, by omega, hfa⟩
    · exact ⟨b + 1, Nat.le_refl _, by omega⟩

/-! ### `labelsGo` -/

/-- the label given to the first scanned position -/
def firstLab (eq : Nat → Nat → Bool) (prev : Option Nat) (lab q : Nat) : Nat :=
  match prev with
  | none => lab
  | some p => if !eq p q then lab + 1 else lab

theorem labelsGo_cons (eq : Nat → Nat → Bool) (prev : Option Nat) (lab q : Nat) (r : List Nat) :
    labelsGo eq prev lab (q :: r) = firstLab eq prev lab q :: labelsGo eq (some q) (firstLab eq prev lab q) r := by
  cases prev <;> rfl

theorem length_labelsGo (eq : Nat → Nat → Bool) (prev : Option Nat) (lab : Nat) (qs : List Nat) :
    (labelsGo eq prev lab qs).length = qs.length := by
  induction qs generalizing prev lab with
  | nil => cases prev <;> rfl
  | cons q r ih => rw [labelsGo_cons, List.length_cons, List.length_cons, ih]

theorem labelsGo_step (eq : Nat → Nat → Bool) (prev : Option Nat) (lab : Nat) (qs : List Nat) (a : Nat)
    (ha : a + 1 < qs.length) :
    (labelsGo eq prev lab qs).getD (a + 1) 0 =
      (labelsGo eq prev lab qs).getD a 0 + (if eq (qs.getD a 0) (qs.getD (a + 1) 0) then 0 else 1) := by
  induction qs generalizing prev lab a with
  | nil => simp at ha
  | cons q r ih =>
    rw [labelsGo_cons]
    cases a with
    | zero =>
      cases r with
      | nil => simp at ha
      | cons q' r' =>
        rw [labelsGo_cons]
        simp only [List.getD_cons_succ, List.getD_cons_zero, firstLab]
        cases eq q q' <;> simp
    | succ a =>
      simp only [List.getD_cons_succ]
      exact ih (some q) _ a (by simpa using ha)

/-! ### `labels` -/

theorem length_labels (eq : Nat → Nat → Bool) (qs : List Nat) : (labels eq qs).length = qs.length :=
  length_labelsGo eq none 0 qs

theorem labels_head (eq : Nat → Nat → Bool) (q : Nat) (r : List Nat) : (labels eq (q :: r)).getD 0 0 = 0 := by
  simp [labels, labelsGo_cons, firstLab]

theorem labels_step (eq : Nat → Nat → Bool) (qs : List Nat) (a : Nat) (ha : a + 1 < qs.length) :
    (labels eq qs).getD (a + 1) 0 =
      (labels eq qs).getD a 0 + (if eq (qs.getD a 0) (qs.getD (a + 1) 0) then 0 else 1) :=
  labelsGo_step eq none 0 qs a ha

theorem labels_step_bounds (eq : Nat → Nat → Bool) (qs : List Nat) (a : Nat) (ha : a + 1 < qs.length) :
    (labels eq qs).getD a 0 ≤ (labels eq qs).getD (a + 1) 0 ∧
      (labels eq qs).getD (a + 1) 0 ≤ (labels eq qs).getD a 0 + 1 := by
  rw [labels_step eq qs a ha]
  split <;> omega

theorem labels_zero (eq : Nat → Nat → Bool) (qs : List Nat) : (labels eq qs).getD 0 0 = 0 := by
  cases qs with
  | nil => rfl
  | cons q r => exact labels_head eq q r

/-- labels never decrease along the scan and grow by at most one per step -/
theorem labels_mono (eq : Nat → Nat → Bool) (qs : List Nat) (a b : Nat) (hab : a ≤ b) (hb : b < qs.length) :
    (labels eq qs).getD a 0 ≤ (labels eq qs).getD b 0 ∧ (labels eq qs).getD b 0 ≤ (labels eq qs).getD a 0 + (b - a) :=
  step_mono (fun i => (labels eq qs).getD i 0) qs.length (labels_step_bounds eq qs) a b hab hb

theorem labels_getLastD (eq : Nat → Nat → Bool) (qs : List Nat) (hne : qs ≠ []) :
    (labels eq qs).getLastD 0 = (labels eq qs).getD (qs.length - 1) 0 := by
  have hne' : labels eq qs ≠ [] := by
    intro h
    have := length_labels eq qs
    rw [h] at this
    exact hne (List.eq_nil_of_length_eq_zero this.symm)
  rw [getLastD_eq_getD_pred _ hne', length_labels]

theorem labels_le_last (eq : Nat → Nat → Bool) (qs : List Nat) (a : Nat) (ha : a < qs.length) :
    (labels eq qs).getD a 0 ≤ (labels eq qs).getLastD 0 := by
  have hne : qs ≠ [] := by
    intro h; rw [h] at ha; simp at ha
  rw [labels_getLastD eq qs hne]
  exact (labels_mono eq qs a (qs.length - 1) (by omega) (by omega)).1

/-- every value up to the last label is used -/
theorem labels_dense (eq : Nat → Nat → Bool) (qs : List Nat) (v : Nat) (hne : qs ≠ [])
    (hv : v ≤ (labels eq qs).getLastD 0) : ∃ a, a < qs.length ∧ (labels eq qs).getD a 0 = v := by
  have hpos : 0 < qs.length := List.length_pos_iff.mpr hne
  rw [labels_getLastD eq qs hne] at hv
  obtain ⟨a, ha, hfa⟩ := step_dense (fun i => (labels eq qs).getD i 0) qs.length (labels_zero eq qs)
    (labels_step_bounds eq qs) (qs.length - 1) (by omega) v hv
  exact ⟨a, by omega, hfa⟩

/-! ### labels against keys -/

/-- the ordered case of `labels_spec` -/
theorem labels_spec_le (K : Nat → List Nat) (eq : Nat → Nat → Bool) (qs : List Nat) (hnd : qs.Nodup)
    (heq : ∀ p q, p ∈ qs → q ∈ qs → p ≠ q → (eq p q = true ↔ K p = K q))
    (hs : qs.Pairwise (fun p q => ¬ lexLt (K q) (K p))) (a b : Nat) (hab : a ≤ b) (hb : b < qs.length) :
    ((labels eq qs).getD a 0 = (labels eq qs).getD b 0 ↔ K (qs.getD a 0) = K (qs.getD b 0)) := by
  have hO : ∀ i j, i < j → j < qs.length → ¬ lexLt (K (qs.getD j 0)) (K (qs.getD i 0)) := by
    intro i j hij hj
    rw [getD_eq_getElem_nat qs i (by omega), getD_eq_getElem_nat qs j hj]
    exact List.pairwise_iff_getElem.mp hs i j (by omega) hj hij
  have hN : ∀ i j, i < j → j < qs.length → qs.getD i 0 ≠ qs.getD j 0 := by
    intro i j hij hj
    rw [getD_eq_getElem_nat qs i (by omega), getD_eq_getElem_nat qs j hj]
    exact List.pairwise_iff_getElem.mp hnd i j (by omega) hj hij
  have hM : ∀ i, i < qs.length → qs.getD i 0 ∈ qs := by
    intro i hi
    rw [getD_eq_getElem_nat qs i hi]
    exact List.getElem_mem hi
  induction b with
  | zero =>
    have : a = 0 := by omega
    subst this
    exact ⟨fun _ => rfl, fun _ => rfl⟩
  | succ b ih =>
    by_cases h : a = b + 1
    · subst h
      exact ⟨fun _ => rfl, fun _ => rfl⟩
    · have hab' : a ≤ b := by omega
      have ih' := ih hab' (by omega)
      have hm := labels_mono eq qs a b hab' (by omega)
      have hst := labels_step eq qs b hb
      have hE := heq _ _ (hM b (by omega)) (hM (b + 1) hb) (hN b (b + 1) (by omega) hb)
      constructor
      · intro hL
        have h1 : (labels eq qs).getD a 0 = (labels eq qs).getD b 0 := by
          rw [hst] at hL; omega
        have h2 : eq (qs.getD b 0) (qs.getD (b + 1) 0) = true := by
          cases hc : eq (qs.getD b 0) (qs.getD (b + 1) 0) with
          | true => rfl
          | false =>
            rw [hst, hc] at hL
            have h1 : (if false = true then 0 else 1 : Nat) = 1 := rfl
            rw [h1] at hL; omega
        rw [ih'.mp h1]
        exact hE.mp h2
      · intro hK
        have hKab : K (qs.getD a 0) = K (qs.getD b 0) := by
          by_cases hab2 : a = b
          · rw [hab2]
          · apply Classical.byContradiction
            intro hne
            rcases lexLt_total _ _ hne with hlt | hlt
            · rw [hK] at hlt
              exact hO b (b + 1) (by omega) hb hlt
            · exact hO a b (by omega) (by omega) hlt
        have h2 : eq (qs.getD b 0) (qs.getD (b + 1) 0) = true := hE.mpr (by rw [← hKab, hK])
        rw [hst, h2, ih'.mpr hKab]
        simp

/-- on a key-sorted list with `eq` deciding key equality, labels compare like keys -/
theorem labels_spec (K : Nat → List Nat) (eq : Nat → Nat → Bool) (qs : List Nat) (hnd : qs.Nodup)
    (heq : ∀ p q, p ∈ qs → q ∈ qs → p ≠ q → (eq p q = true ↔ K p = K q))
    (hs : qs.Pairwise (fun p q => ¬ lexLt (K q) (K p))) (a b : Nat) (ha : a < qs.length) (hb : b < qs.length) :
    ((labels eq qs).getD a 0 < (labels eq qs).getD b 0 ↔ lexLt (K (qs.getD a 0)) (K (qs.getD b 0))) ∧
    ((labels eq qs).getD a 0 = (labels eq qs).getD b 0 ↔ K (qs.getD a 0) = K (qs.getD b 0)) := by
  have hO : ∀ i j, i < j → j < qs.length → ¬ lexLt (K (qs.getD j 0)) (K (qs.getD i 0)) := by
    intro i j hij hj
    rw [getD_eq_getElem_nat qs i (by omega), getD_eq_getElem_nat qs j hj]
    exact List.pairwise_iff_getElem.mp hs i j (by omega) hj hij
  rcases Nat.lt_trichotomy a b with hab | hab | hab
  · have hE := labels_spec_le K eq qs hnd heq hs a b (by omega) hb
    have hm := labels_mono eq qs a b (by omega) hb
    refine ⟨⟨fun hlt => ?_, fun hlt => ?_⟩, hE⟩
    · have hne : K (qs.getD a 0) ≠ K (qs.getD b 0) := fun h => by
        have := hE.mpr h; omega
      rcases lexLt_total _ _ hne with h | h
      · exact h
      · exact absurd h (hO a b hab hb)
    · have hne : (labels eq qs).getD a 0 ≠ (labels eq qs).getD b 0 := fun h => by
        have := hE.mp h
        rw [this] at hlt
        exact lexLt_irrefl _ hlt
      omega
  · subst hab
    exact ⟨⟨fun h => absurd h (Nat.lt_irrefl _), fun h => absurd h (lexLt_irrefl _)⟩, ⟨fun _ => rfl, fun _ => rfl⟩⟩
  · have hE := labels_spec_le K eq qs hnd heq hs b a (by omega) ha
    have hm := labels_mono eq qs b a (by omega) ha
    refine ⟨⟨fun hlt => ?_, fun hlt => ?_⟩, ⟨fun h => (hE.mp h.symm).symm, fun h => (hE.mpr h.symm).symm⟩⟩
    · omega
    · exact absurd hlt (hO b a hab ha)

/-- if there are as many labels as positions, the keys are strictly increasing -/
theorem labels_all_distinct (K : Nat → List Nat) (eq : Nat → Nat → Bool) (qs : List Nat) (hnd : qs.Nodup)
    (heq : ∀ p q, p ∈ qs → q ∈ qs → p ≠ q → (eq p q = true ↔ K p = K q))
    (hs : qs.Pairwise (fun p q => ¬ lexLt (K q) (K p)))
    (hfull : qs.length ≤ (labels eq qs).getLastD 0 + 1) : qs.Pairwise (fun p q => lexLt (K p) (K q)) := by
  rw [List.pairwise_iff_getElem]
  intro i j hi hj hij
  have hne : qs ≠ [] := by
    intro h; rw [h] at hi; simp at hi
  rw [labels_getLastD eq qs hne] at hfull
  have h0 := labels_zero eq qs
  have h1 := labels_mono eq qs 0 i (by omega) hi
  have h2 := labels_mono eq qs j (qs.length - 1) (by omega) (by omega)
  have hsp := (labels_spec K eq qs hnd heq hs i j hi hj).1
  rw [getD_eq_getElem_nat qs i hi, getD_eq_getElem_nat qs j hj] at hsp
  exact hsp.mp (by omega)

end RbV.Sais
