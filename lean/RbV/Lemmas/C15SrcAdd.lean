import RbV.Lemmas.C15Src
/-!
C15: the obligations on the translated `ln_add_exp` are stated **up to the tolerance the property leaves**: the source
must return the model's value `max + ln_1p(E(min − max))`, or — when the operands are more than `−dropGap = 37` apart in
log space — the larger operand (an early exit changes the linear-space result by less than `dropTol = 10⁻¹⁵` of the
larger operand, far inside the 0.5 % of the property and below `f64` resolution).  Everything downstream (error bounds
of `ln_add_exp`, of the cumulative sum, of the grid integration) is derived from `AddNear`, never from exact equality.
-/
namespace RbV.C15
open Real

/-- log-space distance beyond which dropping the smaller summand is accepted -/
def dropGap : ℝ := -37
/-- linear-space tolerance (relative to the larger operand) granted to an early exit -/
noncomputable def dropTol : ℝ := 1 / 10 ^ 15

theorem exp_dropGap_le : exp dropGap ≤ dropTol := by
  have h1 : (1.125 : ℝ) ≤ exp (1 / 8) := by have := add_one_le_exp (1 / 8 : ℝ); linarith
  have h2 : exp 1 = exp (1 / 8) ^ 8 := by rw [← exp_nat_mul]; norm_num
  have h2' : (2.565 : ℝ) ≤ exp 1 := by
    rw [h2]
    calc (2.565 : ℝ) ≤ (1.125 : ℝ) ^ 8 := by norm_num
      _ ≤ exp (1 / 8) ^ 8 := pow_le_pow_left₀ (by norm_num) h1 8
  have h2'' : exp 37 = exp 1 ^ 37 := by rw [← exp_nat_mul]; norm_num
  have h3 : (10 : ℝ) ^ 15 ≤ exp 37 := by
    rw [h2'']
    calc (10 : ℝ) ^ 15 ≤ (2.565 : ℝ) ^ 37 := by norm_num
      _ ≤ exp 1 ^ 37 := pow_le_pow_left₀ (by norm_num) h2' 37
  unfold dropGap dropTol
  rw [exp_neg, one_div]
  exact inv_anti₀ (by positivity) h3

theorem dropTol_nonneg : 0 ≤ dropTol := by unfold dropTol; positivity

/-- `r` is an admissible result of `a ⊕ b`: the model's value, or the larger operand when they are far apart -/
def AddNear (E : ℝ → ℝ) (a b r : LP) : Prop :=
  r = lnAddExp E a b ∨ ∃ x y : ℝ, a = some x ∧ b = some y ∧ min x y - max x y < dropGap ∧ r = some (max x y)

theorem addNear_model (E : ℝ → ℝ) (a b : LP) : AddNear E a b (lnAddExp E a b) := Or.inl rfl

theorem AddNear.error {E δ} (h : ApproxExp E δ) (hδ : δ < 1) {a b r : LP} (hn : AddNear E a b r) :
    |lin r - (lin a + lin b)| ≤ δ * min (lin a) (lin b) + dropTol * max (lin a) (lin b) := by
  have hτ := dropTol_nonneg
  rcases hn with rfl | ⟨x, y, rfl, rfl, hgap, rfl⟩
  · have := lnAddExp_error h hδ a b
    have h2 : 0 ≤ dropTol * max (lin a) (lin b) := mul_nonneg hτ (le_trans (lin_nonneg a) (le_max_left _ _))
    linarith
  · have hδ0 := h.delta_nonneg
    simp only [lin]
    have hsum := exp_max_add_exp_min x y
    have h1 : exp (max x y) - (exp x + exp y) = -exp (min x y) := by linarith
    rw [h1, abs_neg, abs_of_pos (exp_pos _)]
    have h2 : exp (min x y) = exp (min x y - max x y) * exp (max x y) := by rw [← exp_add]; ring_nf
    have h3 : exp (min x y - max x y) ≤ dropTol := le_trans (exp_le_exp.mpr hgap.le) exp_dropGap_le
    have h4 : max (exp x) (exp y) = exp (max x y) := by
      rcases le_total x y with hxy | hxy
      · rw [max_eq_right hxy, max_eq_right (exp_le_exp.mpr hxy)]
      · rw [max_eq_left hxy, max_eq_left (exp_le_exp.mpr hxy)]
    rw [h4, h2]
    have h5 : 0 ≤ δ * min (exp x) (exp y) := mul_nonneg hδ0 (le_min (exp_pos _).le (exp_pos _).le)
    have h6 := mul_le_mul_of_nonneg_right h3 (exp_pos (max x y)).le
    linarith

/-- an admissible result is `ln 0` only when both operands are -/
theorem AddNear.none_iff {E} {a b r : LP} (hn : AddNear E a b r) : r = none ↔ a = none ∧ b = none := by
  rcases hn with rfl | ⟨x, y, rfl, rfl, _, rfl⟩
  · cases a <;> cases b <;> simp [lnAddExp]
  · simp

/-! ### leaves of `ln_1m_exp` -/

theorem decR_zero : decR ⟨0, 0⟩ = 0 := by rw [decR_eq]; simp

/-- below `−1/2` an approximate exponential with `δ ≤ 1/2` stays below 1 (so that `ln_1p(−E x)` is finite) -/
theorem approx_lt_one {E δ} (h : ApproxExp E δ) (hδ : δ ≤ 1 / 2) {x : ℝ} (hx : x ≤ -(1 / 2)) : E x < 1 := by
  have hup := h.upper (by linarith : x ≤ 0)
  have h1 : exp x ≤ exp (-(1 / 2)) := exp_le_exp.mpr hx
  have h2 : exp (-(1 / 2)) * exp (1 / 2) = 1 := by rw [← exp_add]; norm_num
  have h3 : (1 / 2 : ℝ) + 1 < exp (1 / 2) := add_one_lt_exp (by norm_num)
  have h4 : exp (-(1 / 2)) < 2 / 3 := by
    have := mul_lt_mul_of_pos_left h3 (exp_pos (-(1 / 2)))
    rw [h2] at this; linarith
  have h5 : (1 + δ) * exp x ≤ (3 / 2) * exp x := mul_le_mul_of_nonneg_right (by linarith) (exp_pos x).le
  nlinarith [exp_pos x]

/-- leaf `ln_1p(−G p)` of `ln_1m_exp`, for any `G` within `δ` of `exp` at `x` and below 1 there -/
theorem leaf_ln1p {δ : ℝ} (G : ℝ → ℝ) {x : ℝ} (hG : |G x - exp x| ≤ δ * exp x) (hlt : G x < 1) :
    ∃ r : LP, (Rs.Res.ok (XR.ln1p (XR.fin (-G x))) : Rs.Res XR) = Rs.Res.ok (emb r) ∧ |lin r - (1 - exp x)| ≤ δ * exp x := by
  have hpos : (-1 : ℝ) < -G x := by linarith
  refine ⟨some (log (1 + -G x)), by rw [ln1p_fin hpos]; rfl, ?_⟩
  simp only [lin]
  rw [exp_log (by linarith)]
  have : 1 + -G x - (1 - exp x) = -(G x - exp x) := by ring
  rw [this, abs_neg]; exact hG

/-- leaf `ln(−exp_m1 p)` of `ln_1m_exp` -/
theorem leaf_expm1 {δ : ℝ} (hδ0 : 0 ≤ δ) {x : ℝ} (hx : x ≤ 0) :
    ∃ r : LP, (Rs.Res.ok (XR.ln (XR.fin (-(exp x - 1)))) : Rs.Res XR) = Rs.Res.ok (emb r) ∧ |lin r - (1 - exp x)| ≤ δ * exp x := by
  rcases eq_or_lt_of_le hx with h0 | hlt
  · subst h0
    refine ⟨none, by simp, ?_⟩
    simp [lin, hδ0]
  · have hpos : 0 < -(exp x - 1) := by have := exp_lt_exp.mpr hlt; rw [exp_zero] at this; linarith
    refine ⟨some (log (-(exp x - 1))), by rw [ln_fin_pos hpos]; rfl, ?_⟩
    simp only [lin]
    rw [exp_log hpos]
    have : -(exp x - 1) - (1 - exp x) = 0 := by ring
    rw [this, abs_zero]; exact mul_nonneg hδ0 (exp_pos x).le

@[simp] theorem exp_ninf : XR.exp XR.ninf = XR.fin 0 := rfl
@[simp] theorem expm1_ninf : XR.expm1 XR.ninf = XR.fin (-1) := rfl

theorem add_fin_emb (x : ℝ) (r : LP) : XR.add (XR.fin x) (emb r) = emb (addLP x r) := by
  cases r <;> rfl

/-! ### cumulative sums over any admissible addition -/

/-- `rs` is a run of the scan from state `s` over `ps` in which every step is an admissible addition -/
def ScanNear (E : ℝ → ℝ) : LP → List LP → List LP → Prop
  | _, [], rs => rs = []
  | s, p :: ps, rs => ∃ r rs', rs = r :: rs' ∧ AddNear E s p r ∧ ScanNear E r ps rs'

theorem ScanNear.length {E} : ∀ {ps : List LP} {s : LP} {rs : List LP}, ScanNear E s ps rs → rs.length = ps.length
  | [], _, _, h => by simp only [ScanNear] at h; simp [h]
  | _ :: _, _, _, h => by
    obtain ⟨r, rs', rfl, _, h'⟩ := h
    simp [ScanNear.length h']

/-- the exact-model scan is an admissible run -/
theorem scanNear_model (E : ℝ → ℝ) : ∀ (ps : List LP) (s : LP), ScanNear E s ps (lnCumsumFrom E s ps)
  | [], _ => rfl
  | _ :: ps, _ => ⟨_, _, rfl, addNear_model .., scanNear_model E ps _⟩

theorem ScanNear.error {E δ} (h : ApproxExp E δ) (hδ : δ < 1) : ∀ (ps : List LP) (s : LP) (rs : List LP) (T : ℝ) (j : ℕ),
    0 ≤ T → |lin s - T| ≤ (δ + 2 * j * dropTol) * T → ScanNear E s ps rs → ∀ (k : ℕ) (r : LP), rs[k]? = some r →
    δ + 2 * (j + k + 1 : ℕ) * dropTol ≤ 1 →
    |lin r - (T + ((ps.take (k + 1)).map lin).sum)| ≤ (δ + 2 * (j + k + 1 : ℕ) * dropTol) * (T + ((ps.take (k + 1)).map lin).sum) := by
  have hδ0 := h.delta_nonneg
  have hτ := dropTol_nonneg
  intro ps
  induction ps with
  | nil => intro s rs T j _ _ hs k r hr; simp only [ScanNear] at hs; subst hs; simp at hr
  | cons p ps ih =>
    intro s rs T j hT hs hscan k r hr hk
    obtain ⟨r0, rs', rfl, hadd, hrest⟩ := hscan
    have hp := lin_nonneg p
    have hs0 := lin_nonneg s
    have hεj : δ + 2 * (j : ℝ) * dropTol ≤ 1 := by
      have : (j : ℝ) ≤ ((j + k + 1 : ℕ) : ℝ) := by push_cast; linarith [(Nat.cast_nonneg k : (0 : ℝ) ≤ k)]
      nlinarith
    have hεj0 : 0 ≤ δ + 2 * (j : ℝ) * dropTol := by positivity
    -- one step
    have hstep : |lin r0 - (T + lin p)| ≤ (δ + 2 * ((j + 1 : ℕ) : ℝ) * dropTol) * (T + lin p) := by
      have h1 := hadd.error h hδ
      have h2 : δ * min (lin s) (lin p) ≤ δ * lin p := mul_le_mul_of_nonneg_left (min_le_right _ _) hδ0
      have h3 : max (lin s) (lin p) ≤ lin s + lin p := max_le (by linarith) (by linarith)
      have h4 : lin s ≤ (1 + (δ + 2 * (j : ℝ) * dropTol)) * T := by have := (abs_le.mp hs).2; linarith
      have h5 : lin s ≤ 2 * T := by nlinarith
      have h6 : dropTol * max (lin s) (lin p) ≤ dropTol * (2 * T + lin p) :=
        mul_le_mul_of_nonneg_left (by linarith) hτ
      have e : lin r0 - (T + lin p) = (lin r0 - (lin s + lin p)) + (lin s - T) := by ring
      rw [e]
      calc _ ≤ |lin r0 - (lin s + lin p)| + |lin s - T| := abs_add_le _ _
        _ ≤ (δ * lin p + dropTol * (2 * T + lin p)) + (δ + 2 * (j : ℝ) * dropTol) * T := by linarith
        _ ≤ (δ + 2 * ((j + 1 : ℕ) : ℝ) * dropTol) * (T + lin p) := by
            push_cast
            nlinarith [mul_nonneg hτ hp, mul_nonneg hδ0 hT, mul_nonneg hτ hT, mul_nonneg (mul_nonneg (Nat.cast_nonneg j : (0:ℝ) ≤ j) hτ) hp]
    cases k with
    | zero =>
      simp only [List.getElem?_cons_zero, Option.some.injEq] at hr
      subst hr
      simpa using hstep
    | succ k =>
      simp only [List.getElem?_cons_succ] at hr
      have hk' : δ + 2 * ((j + 1 + k + 1 : ℕ) : ℝ) * dropTol ≤ 1 := by
        have : (j + 1 + k + 1 : ℕ) = (j + (k + 1) + 1 : ℕ) := by omega
        rw [this]; exact hk
      have := ih r0 rs' (T + lin p) (j + 1) (by linarith) hstep hrest k r hr hk'
      have e : (j + 1 + k + 1 : ℕ) = (j + (k + 1) + 1 : ℕ) := by omega
      rw [e] at this
      simpa [List.take_succ_cons, add_assoc] using this

end RbV.C15
