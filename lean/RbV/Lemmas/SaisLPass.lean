import RbV.Lemmas.SaisInduceSpec
/-
The L pass of induced sorting (`for r in 0..n` of `calc_pos`): loop invariant `LInv`, its preservation by `lStep`
(skip case, write case clause by clause), and the resulting `LDone` (`lPass_spec`).
-/
namespace RbV.Sais
open RbV

/-! ### unfolding `lStep`, the initial `bucket_start` -/

theorem lStep_skip (t : List Nat) (ty : List Bool) (n r : Nat) (pos bs : List Nat)
    (h : pos.getD r 0 = n ∨ pos.getD r 0 = 0 ∨ isS ty (pos.getD r 0 - 1) = true) :
    lStep t ty n r (pos, bs) = (pos, bs) := by
  unfold lStep
  dsimp only
  generalize pos.getD r 0 = p at h ⊢
  rcases h with h | h | h
  · simp [h]
  · simp [h]
  · simp [isL_eq_not, h]

theorem lStep_write (t : List Nat) (ty : List Bool) (n r : Nat) (pos bs : List Nat)
    (h1 : pos.getD r 0 ≠ n) (h2 : pos.getD r 0 ≠ 0) (h3 : isS ty (pos.getD r 0 - 1) = false) :
    lStep t ty n r (pos, bs) =
      (pos.set (bs.getD (sym t (pos.getD r 0 - 1)) 0) (pos.getD r 0 - 1),
        bs.set (sym t (pos.getD r 0 - 1)) (bs.getD (sym t (pos.getD r 0 - 1)) 0 + 1)) := by
  unfold lStep sym
  dsimp only
  generalize pos.getD r 0 = p at h1 h2 h3 ⊢
  simp [isL_eq_not, h1, h2, h3]

theorem initBucketStart_getD {t : List Nat} (hv : Valid t) (c : Nat) (hc : c < maxSucc t) :
    (initBucketStart t).getD c 0 = cntLt t c := by
  rw [initBucketStart_eq t hv.dense, List.getD_eq_getElem?_getD, List.getElem?_map, List.getElem?_range hc]
  rfl

theorem initBucketStart_length {t : List Nat} (hv : Valid t) : (initBucketStart t).length = maxSucc t := by
  rw [initBucketStart_eq t hv.dense]; simp

/-- the L-area of a bucket lies inside the bucket, the bucket inside the array -/
theorem larea_le (t : List Nat) (c : Nat) :
    cntLt t c + (Lset t c).length ≤ cntLt t (c + 1) ∧ cntLt t (c + 1) ≤ t.length := by
  have := cntLt_succ_split t c
  have := cntLt_le_length t (c + 1)
  omega

/-! ### the loop invariant -/

/-- invariant of the L pass before iteration `r` (state `(pos, bs)`, start array `pos0`) -/
structure LInv (t : List Nat) (R : Nat → Nat → Prop) (pos0 : List Nat) (r : Nat) (pos bs : List Nat) : Prop where
  lenP : pos.length = t.length
  lenB : bs.length = maxSucc t
  bsLo : ∀ c, c < maxSucc t → cntLt t c ≤ bs.getD c 0
  bsHi : ∀ c, c < maxSucc t → bs.getD c 0 ≤ cntLt t c + (Lset t c).length
  /-- the filled part of an L-area: L-type positions of the bucket, each written when its successor was scanned -/
  hist : ∀ c, c < maxSucc t → ∀ i, cntLt t c ≤ i → i < bs.getD c 0 →
    pos.getD i 0 ∈ Lset t c ∧ ∃ r', r' < r ∧ pos.getD r' 0 = pos.getD i 0 + 1
  /-- everything else is as in `pos0` -/
  keep : ∀ c, c < maxSucc t → ∀ i, bs.getD c 0 ≤ i → i < cntLt t (c + 1) → pos.getD i 0 = pos0.getD i 0
  inj : ∀ i j, i < j → j < t.length → pos.getD i 0 ≠ t.length → pos.getD j 0 ≠ t.length →
    pos.getD i 0 ≠ pos.getD j 0
  sorted : ∀ i j, i < j → j < t.length → pos.getD i 0 ≠ t.length → pos.getD j 0 ≠ t.length →
    R (pos.getD i 0) (pos.getD j 0)
  /-- the L-type predecessor of a scanned entry has been written -/
  prog : ∀ x, x < t.length → isS (tyOf t) x = false → ∀ i, i < r → pos.getD i 0 = x + 1 →
    ∃ j, j < t.length ∧ pos.getD j 0 = x

section inv
variable {t : List Nat} {R : Nat → Nat → Prop} {pos0 pos bs : List Nat} {k x c b : Nat}

theorem LInv.init (hv : Valid t) (hp : Placed t R pos0) : LInv t R pos0 0 pos0 (initBucketStart t) where
  lenP := hp.len
  lenB := initBucketStart_length hv
  bsLo := fun c hc => by rw [initBucketStart_getD hv c hc]; exact Nat.le_refl _
  bsHi := fun c hc => by rw [initBucketStart_getD hv c hc]; omega
  hist := fun c hc i h1 h2 => by rw [initBucketStart_getD hv c hc] at h2; omega
  keep := fun _ _ _ _ _ => rfl
  inj := hp.inj
  sorted := hp.sorted
  prog := fun _ _ _ i hi => by omega

/-- a defined entry sits in its own bucket: an L-type one in the filled part of the L-area (with its history), an
S-type one in the S-area -/
theorem LInv.classify (hp : Placed t R pos0) (h : LInv t R pos0 k pos bs) (i : Nat) (hi : i < t.length)
    (hne : pos.getD i 0 ≠ t.length) :
    pos.getD i 0 < t.length ∧ inBkt t (sym t (pos.getD i 0)) i ∧
    (isS (tyOf t) (pos.getD i 0) = false →
      i < bs.getD (sym t (pos.getD i 0)) 0 ∧ ∃ r', r' < k ∧ pos.getD r' 0 = pos.getD i 0 + 1) ∧
    (isS (tyOf t) (pos.getD i 0) = true →
      cntLt t (sym t (pos.getD i 0)) + (Lset t (sym t (pos.getD i 0))).length ≤ i ∧
        pos.getD i 0 = pos0.getD i 0 ∧ isLms (tyOf t) (pos.getD i 0) = true) := by
  obtain ⟨d, hd, hb⟩ := exists_bkt t i hi
  by_cases hlt : i < bs.getD d 0
  · obtain ⟨hm, hr⟩ := h.hist d hd i hb.1 hlt
    rw [mem_Lset] at hm
    obtain ⟨h1, h2, h3⟩ := hm
    refine ⟨h1, by rw [h2]; exact hb, fun _ => ⟨by rw [h2]; exact hlt, hr⟩, fun hs => ?_⟩
    rw [h3] at hs; cases hs
  · have hk := h.keep d hd i (by omega) hb.2
    have hne0 : pos0.getD i 0 ≠ t.length := by rw [← hk]; exact hne
    obtain ⟨hl, hbk, ha⟩ := hp.area i hi hne0
    rw [← hk] at hl hbk ha
    have hlms := (isLms_iff _ _).mp hl
    refine ⟨lt_of_isLms _ hl, hbk, fun hs => ?_, fun _ => ⟨ha, hk, hl⟩⟩
    rw [hlms.2.1] at hs; cases hs

/-- the skip cases of `lStep` -/
theorem LInv.skip (hv : Valid t) (h : LInv t R pos0 k pos bs)
    (hskip : pos.getD k 0 = t.length ∨ pos.getD k 0 = 0 ∨ isS (tyOf t) (pos.getD k 0 - 1) = true) :
    LInv t R pos0 (k + 1) pos bs where
  lenP := h.lenP
  lenB := h.lenB
  bsLo := h.bsLo
  bsHi := h.bsHi
  hist := fun c hc i h1 h2 => by
    obtain ⟨hm, r', hr', he⟩ := h.hist c hc i h1 h2
    exact ⟨hm, r', by omega, he⟩
  keep := h.keep
  inj := h.inj
  sorted := h.sorted
  prog := fun x' hx' hL' i hi he => by
    by_cases hik : i = k
    · exfalso
      rw [hik] at he
      have := lt_of_isL hv x' hx' hL'
      rcases hskip with h1 | h1 | h1
      · omega
      · omega
      · rw [he, Nat.add_sub_cancel, hL'] at h1; cases h1
    · exact h.prog x' hx' hL' i (by omega) he

/-! ### the write case -/

/-- in the write case (`pos[k] = x + 1`, `x` L-type) `x` is not yet present -/
theorem LInv.absent (hv : Valid t) (hp : Placed t R pos0) (h : LInv t R pos0 k pos bs) (hk : k < t.length)
    (hx : x < t.length) (hpk : pos.getD k 0 = x + 1) (hL : isS (tyOf t) x = false) :
    ∀ j, j < t.length → pos.getD j 0 ≠ x := by
  intro j hj hjx
  have hx1 := lt_of_isL hv x hx hL
  have hne : pos.getD j 0 ≠ t.length := by omega
  obtain ⟨_, _, hLc, _⟩ := h.classify hp j hj hne
  rw [hjx] at hLc
  obtain ⟨_, r', hr', hr'e⟩ := hLc hL
  have := h.inj r' k hr' hk (by omega) (by omega)
  omega

/-- … so the filled part of the L-area of its bucket is not yet full -/
theorem LInv.room (hv : Valid t) (hp : Placed t R pos0) (h : LInv t R pos0 k pos bs) (hk : k < t.length)
    (hx : x < t.length) (hpk : pos.getD k 0 = x + 1) (hL : isS (tyOf t) x = false) :
    bs.getD (sym t x) 0 < cntLt t (sym t x) + (Lset t (sym t x)).length := by
  have hc : sym t x < maxSucc t := sym_lt_maxSucc x hx
  have habs := h.absent hv hp hk hx hpk hL
  have hlo := h.bsLo _ hc
  have hhi := h.bsHi _ hc
  have hle := larea_le t (sym t x)
  have hnd : (x :: slice (fun i => pos.getD i 0) (cntLt t (sym t x)) (bs.getD (sym t x) 0 - cntLt t (sym t x))).Nodup := by
    rw [List.nodup_cons]
    constructor
    · intro hm
      obtain ⟨i, hi, he⟩ := (mem_slice _ _ _ _).mp hm
      exact habs (cntLt t (sym t x) + i) (by omega) he
    · apply nodup_slice
      intro i j hij hj
      have hi1 := ((mem_Lset _ _ _).mp (h.hist _ hc (cntLt t (sym t x) + i) (by omega) (by omega)).1).1
      have hj1 := ((mem_Lset _ _ _).mp (h.hist _ hc (cntLt t (sym t x) + j) (by omega) (by omega)).1).1
      exact h.inj _ _ (by omega) (by omega) (by omega) (by omega)
  have hlen := nodup_subset_length_le _ (Lset t (sym t x)) hnd (by
    intro y hy
    rcases List.mem_cons.mp hy with rfl | hy
    · exact (mem_Lset _ _ _).mpr ⟨hx, rfl, hL⟩
    · obtain ⟨i, hi, he⟩ := (mem_slice _ _ _ _).mp hy
      rw [← he]
      exact (h.hist _ hc (cntLt t (sym t x) + i) (by omega) (by omega)).1)
  simp only [List.length_cons, slice, List.length_map, List.length_range] at hlen
  omega

/-- everything known in the write case -/
structure WF (t : List Nat) (R : Nat → Nat → Prop) (pos0 : List Nat) (k : Nat) (pos bs : List Nat) (x c b : Nat) :
    Prop where
  inv : LInv t R pos0 k pos bs
  hk : k < t.length
  hx : x < t.length
  hx1 : x + 1 < t.length
  hpk : pos.getD k 0 = x + 1
  hL : isS (tyOf t) x = false
  hcx : sym t x = c
  hc : c < maxSucc t
  hbb : bs.getD c 0 = b
  absent : ∀ j, j < t.length → pos.getD j 0 ≠ x
  blo : cntLt t c ≤ b
  room : b < cntLt t c + (Lset t c).length
  bhi : b < cntLt t (c + 1)
  bn : b < t.length
  free : pos.getD b 0 = t.length
  kb : k < b

theorem WF.mk' (hv : Valid t) (hp : Placed t R pos0) (h : LInv t R pos0 k pos bs) (hk : k < t.length)
    (hx : x < t.length) (hpk : pos.getD k 0 = x + 1) (hL : isS (tyOf t) x = false) :
    WF t R pos0 k pos bs x (sym t x) (bs.getD (sym t x) 0) := by
  have hx1 := lt_of_isL hv x hx hL
  have hc : sym t x < maxSucc t := sym_lt_maxSucc x hx
  have habs := h.absent hv hp hk hx hpk hL
  have hroom := h.room hv hp hk hx hpk hL
  have hlo := h.bsLo _ hc
  have hle := larea_le t (sym t x)
  have hbn : bs.getD (sym t x) 0 < t.length := by omega
  have hfree : pos.getD (bs.getD (sym t x) 0) 0 = t.length := by
    rw [h.keep _ hc _ (Nat.le_refl _) (by omega)]
    apply Classical.byContradiction
    intro hne
    obtain ⟨_, hbk, ha⟩ := hp.area _ hbn hne
    have := bkt_unique t _ _ _ hbk ⟨hlo, by omega⟩
    rw [this] at ha
    omega
  have hkb : k < bs.getD (sym t x) 0 := by
    obtain ⟨_, hbk, hLc, _⟩ := h.classify hp k hk (by omega)
    rw [hpk] at hbk hLc
    have hge := sym_ge_of_isL x hx1 hL
    by_cases hlt : sym t (x + 1) < sym t x
    · have := bkt_lt_of_sym_lt t _ _ k _ hbk ⟨hlo, by omega⟩ hlt
      exact this
    · have he : sym t x = sym t (x + 1) := by omega
      have hL1 : isS (tyOf t) (x + 1) = false := by rw [← isS_of_eq x hx1 he]; exact hL
      have := (hLc hL1).1
      rw [← he] at this
      exact this
  exact ⟨h, hk, hx, hx1, hpk, hL, rfl, hc, rfl, habs, hlo, hroom, by omega, hbn, hfree, hkb⟩

theorem WF.posEq (w : WF t R pos0 k pos bs x c b) : (pos.set b x).getD b 0 = x :=
  getD_set_eq _ _ _ _ (by rw [w.inv.lenP]; exact w.bn)

theorem WF.posNe (_w : WF t R pos0 k pos bs x c b) (i : Nat) (h : i ≠ b) : (pos.set b x).getD i 0 = pos.getD i 0 :=
  getD_set_ne _ _ _ _ _ (fun e => h e.symm)

theorem WF.bsEq (w : WF t R pos0 k pos bs x c b) : (bs.set c (b + 1)).getD c 0 = b + 1 :=
  getD_set_eq _ _ _ _ (by rw [w.inv.lenB]; exact w.hc)

theorem WF.bsNe (_w : WF t R pos0 k pos bs x c b) (d : Nat) (h : d ≠ c) :
    (bs.set c (b + 1)).getD d 0 = bs.getD d 0 :=
  getD_set_ne _ _ _ _ _ (fun e => h e.symm)

/-- an index of another bucket is not the written slot -/
theorem WF.other (w : WF t R pos0 k pos bs x c b) (d i : Nat) (hd : d ≠ c) (h1 : cntLt t d ≤ i)
    (h2 : i < cntLt t (d + 1)) : i ≠ b := by
  intro e
  rw [e] at h1 h2
  exact hd (bkt_unique t d c b ⟨h1, h2⟩ ⟨w.blo, w.bhi⟩)

theorem WF.bsLo' (w : WF t R pos0 k pos bs x c b) : ∀ d, d < maxSucc t → cntLt t d ≤ (bs.set c (b + 1)).getD d 0 := by
  intro d hd
  by_cases hdc : d = c
  · rw [hdc, w.bsEq]; have := w.blo; omega
  · rw [w.bsNe d hdc]; exact w.inv.bsLo d hd

theorem WF.bsHi' (w : WF t R pos0 k pos bs x c b) :
    ∀ d, d < maxSucc t → (bs.set c (b + 1)).getD d 0 ≤ cntLt t d + (Lset t d).length := by
  intro d hd
  by_cases hdc : d = c
  · rw [hdc, w.bsEq]; have := w.room; omega
  · rw [w.bsNe d hdc]; exact w.inv.bsHi d hd

theorem WF.hist' (w : WF t R pos0 k pos bs x c b) :
    ∀ d, d < maxSucc t → ∀ i, cntLt t d ≤ i → i < (bs.set c (b + 1)).getD d 0 →
      (pos.set b x).getD i 0 ∈ Lset t d ∧
        ∃ r', r' < k + 1 ∧ (pos.set b x).getD r' 0 = (pos.set b x).getD i 0 + 1 := by
  intro d hd i h1 h2
  have hkb := w.kb
  by_cases hdc : d = c
  · rw [hdc, w.bsEq] at h2
    rw [hdc] at h1 ⊢
    by_cases hib : i = b
    · rw [hib, w.posEq]
      refine ⟨(mem_Lset _ _ _).mpr ⟨w.hx, w.hcx, w.hL⟩, k, by omega, ?_⟩
      rw [w.posNe k (by omega)]; exact w.hpk
    · rw [w.posNe i hib]
      obtain ⟨hm, r', hr', he⟩ := w.inv.hist c w.hc i h1 (by rw [w.hbb]; omega)
      refine ⟨hm, r', by omega, ?_⟩
      rw [w.posNe r' (by omega)]; exact he
  · rw [w.bsNe d hdc] at h2
    have hhi := w.inv.bsHi d hd
    have hle := larea_le t d
    rw [w.posNe i (w.other d i hdc h1 (by omega))]
    obtain ⟨hm, r', hr', he⟩ := w.inv.hist d hd i h1 h2
    refine ⟨hm, r', by omega, ?_⟩
    rw [w.posNe r' (by omega)]; exact he

theorem WF.keep' (w : WF t R pos0 k pos bs x c b) :
    ∀ d, d < maxSucc t → ∀ i, (bs.set c (b + 1)).getD d 0 ≤ i → i < cntLt t (d + 1) →
      (pos.set b x).getD i 0 = pos0.getD i 0 := by
  intro d hd i h1 h2
  by_cases hdc : d = c
  · rw [hdc, w.bsEq] at h1
    rw [hdc] at h2
    rw [w.posNe i (by omega)]
    exact w.inv.keep c w.hc i (by rw [w.hbb]; omega) h2
  · rw [w.bsNe d hdc] at h1
    have hlo := w.inv.bsLo d hd
    rw [w.posNe i (w.other d i hdc (by omega) h2)]
    exact w.inv.keep d hd i h1 h2

/-- the new entry against an old entry to its right -/
theorem WF.pairR (hR : IndRel t R) (hp : Placed t R pos0) (w : WF t R pos0 k pos bs x c b) (j : Nat)
    (hbj : b < j) (hj : j < t.length) (hj' : pos.getD j 0 ≠ t.length) :
    x ≠ pos.getD j 0 ∧ R x (pos.getD j 0) := by
  obtain ⟨hy, hbk, hyL, _⟩ := w.inv.classify hp j hj hj'
  refine ⟨fun e => w.absent j hj e.symm, ?_⟩
  generalize pos.getD j 0 = y at hy hbk hyL
  have hle : c ≤ sym t y := bkt_le_of_lt t c (sym t y) b j ⟨w.blo, w.bhi⟩ hbk hbj
  by_cases hlt : c < sym t y
  · exact hR.ofSym x y w.hx hy (by rw [w.hcx]; exact hlt)
  · have he : sym t y = c := by omega
    cases hs : isS (tyOf t) y with
    | true => exact hR.ofLS x y w.hx hy (by rw [w.hcx, he]) w.hL hs
    | false =>
      have := (hyL hs).1
      rw [he, w.hbb] at this
      omega

/-- an old entry to the left of the new entry -/
theorem WF.pairL (hv : Valid t) (hR : IndRel t R) (hstep : StepL t R) (hp : Placed t R pos0)
    (w : WF t R pos0 k pos bs x c b) (i : Nat)
    (hib : i < b) (hi' : pos.getD i 0 ≠ t.length) :
    pos.getD i 0 ≠ x ∧ R (pos.getD i 0) x := by
  have hi : i < t.length := by have := w.bn; omega
  obtain ⟨hy, hbk, hyL, hyS⟩ := w.inv.classify hp i hi hi'
  refine ⟨w.absent i hi, ?_⟩
  generalize pos.getD i 0 = y at hy hbk hyL hyS
  have hle : sym t y ≤ c := bkt_le_of_lt t (sym t y) c i b hbk ⟨w.blo, w.bhi⟩ hib
  by_cases hlt : sym t y < c
  · exact hR.ofSym y x hy w.hx (by rw [w.hcx]; exact hlt)
  · have he : sym t y = c := by omega
    cases hs : isS (tyOf t) y with
    | true =>
      have := (hyS hs).1
      rw [he] at this
      have := w.room
      omega
    | false =>
      obtain ⟨_, r', hr', hr'e⟩ := hyL hs
      have hy1 := lt_of_isL hv y hy hs
      have hk := w.hk
      have hpk := w.hpk
      have hx1 := w.hx1
      have hrel := w.inv.sorted r' k hr' hk (by omega) (by omega)
      rw [hr'e, hpk] at hrel
      exact hstep y x hy w.hx (by rw [w.hcx, he]) hs w.hL hrel

theorem WF.pair (hv : Valid t) (hR : IndRel t R) (hstep : StepL t R) (hp : Placed t R pos0)
    (w : WF t R pos0 k pos bs x c b) (i j : Nat) (hij : i < j) (hj : j < t.length)
    (hi' : (pos.set b x).getD i 0 ≠ t.length) (hj' : (pos.set b x).getD j 0 ≠ t.length) :
    (pos.set b x).getD i 0 ≠ (pos.set b x).getD j 0 ∧ R ((pos.set b x).getD i 0) ((pos.set b x).getD j 0) := by
  by_cases hib : i = b
  · rw [w.posNe j (by omega)] at hj' ⊢
    rw [hib, w.posEq]
    exact w.pairR hR hp j (by omega) hj hj'
  · rw [w.posNe i hib] at hi' ⊢
    by_cases hjb : j = b
    · rw [hjb, w.posEq]
      exact w.pairL hv hR hstep hp i (by omega) hi'
    · rw [w.posNe j hjb] at hj' ⊢
      exact ⟨w.inv.inj i j hij hj hi' hj', w.inv.sorted i j hij hj hi' hj'⟩

theorem WF.prog' (w : WF t R pos0 k pos bs x c b) :
    ∀ x', x' < t.length → isS (tyOf t) x' = false → ∀ i, i < k + 1 → (pos.set b x).getD i 0 = x' + 1 →
      ∃ j, j < t.length ∧ (pos.set b x).getD j 0 = x' := by
  intro x' hx' hL' i hi he
  have hkb := w.kb
  rw [w.posNe i (by omega)] at he
  by_cases hik : i = k
  · rw [hik, w.hpk] at he
    have : x' = x := by omega
    rw [this]
    exact ⟨b, w.bn, w.posEq⟩
  · obtain ⟨j, hj, hje⟩ := w.inv.prog x' hx' hL' i (by omega) he
    refine ⟨j, hj, ?_⟩
    have hjb : j ≠ b := by
      intro e
      rw [e, w.free] at hje
      omega
    rw [w.posNe j hjb]; exact hje

theorem WF.next (hv : Valid t) (hR : IndRel t R) (hstep : StepL t R) (hp : Placed t R pos0)
    (w : WF t R pos0 k pos bs x c b) : LInv t R pos0 (k + 1) (pos.set b x) (bs.set c (b + 1)) where
  lenP := by rw [List.length_set]; exact w.inv.lenP
  lenB := by rw [List.length_set]; exact w.inv.lenB
  bsLo := w.bsLo'
  bsHi := w.bsHi'
  hist := w.hist'
  keep := w.keep'
  inj := fun i j hij hj hi' hj' => (w.pair hv hR hstep hp i j hij hj hi' hj').1
  sorted := fun i j hij hj hi' hj' => (w.pair hv hR hstep hp i j hij hj hi' hj').2
  prog := w.prog'

/-! ### one iteration, the loop, the result -/

theorem lStep_inv (hv : Valid t) (hR : IndRel t R) (hstep : StepL t R) (hp : Placed t R pos0)
    (s : List Nat × List Nat) (hk : k < t.length) (h : LInv t R pos0 k s.1 s.2) :
    LInv t R pos0 (k + 1) (lStep t (tyOf t) t.length k s).1 (lStep t (tyOf t) t.length k s).2 := by
  obtain ⟨pos, bs⟩ := s
  simp only at h
  by_cases h1 : pos.getD k 0 = t.length
  · rw [lStep_skip _ _ _ _ _ _ (Or.inl h1)]; exact h.skip hv (Or.inl h1)
  by_cases h2 : pos.getD k 0 = 0
  · rw [lStep_skip _ _ _ _ _ _ (Or.inr (Or.inl h2))]; exact h.skip hv (Or.inr (Or.inl h2))
  cases h3 : isS (tyOf t) (pos.getD k 0 - 1) with
  | true => rw [lStep_skip _ _ _ _ _ _ (Or.inr (Or.inr h3))]; exact h.skip hv (Or.inr (Or.inr h3))
  | false =>
    rw [lStep_write _ _ _ _ _ _ h1 h2 h3]
    have hlt := (h.classify hp k hk h1).1
    have w := WF.mk' (x := pos.getD k 0 - 1) hv hp h hk (by omega) (by omega) h3
    exact w.next hv hR hstep hp

/-- after the loop every L-type position is present -/
theorem LInv.present (hv : Valid t) (hp : Placed t R pos0) (h : LInv t R pos0 t.length pos bs) :
    ∀ m x, t.length - x ≤ m → x < t.length → isS (tyOf t) x = false → ∃ j, j < t.length ∧ pos.getD j 0 = x := by
  intro m
  induction m with
  | zero => intro x h1 h2; omega
  | succ m ih =>
    intro x hm hx hL
    have hx1 := lt_of_isL hv x hx hL
    cases hs : isS (tyOf t) (x + 1) with
    | false =>
      obtain ⟨i, hi, he⟩ := ih (x + 1) (by omega) hx1 hs
      exact h.prog x hx hL i hi he
    | true =>
      have hlms : isLms (tyOf t) (x + 1) = true := by
        rw [isLms_iff]; exact ⟨by omega, hs, by rw [Nat.add_sub_cancel]; exact hL⟩
      obtain ⟨i, hi, he⟩ := hp.all (x + 1) hlms
      obtain ⟨_, hbk, ha⟩ := hp.area i hi (by omega)
      rw [he] at hbk ha
      have hc : sym t (x + 1) < maxSucc t := sym_lt_maxSucc _ hx1
      have hhi := h.bsHi _ hc
      have hk := h.keep _ hc i (by omega) hbk.2
      exact h.prog x hx hL i hi (by rw [hk]; exact he)

/-- after the loop every L-area is full -/
theorem LInv.full (hv : Valid t) (hp : Placed t R pos0) (h : LInv t R pos0 t.length pos bs) (d : Nat)
    (hd : d < maxSucc t) : bs.getD d 0 = cntLt t d + (Lset t d).length := by
  have hlo := h.bsLo d hd
  have hhi := h.bsHi d hd
  have hlen := nodup_subset_length_le (Lset t d) (slice (fun i => pos.getD i 0) (cntLt t d) (bs.getD d 0 - cntLt t d))
    (nodup_Lset t d) (by
      intro y hy
      obtain ⟨hy1, hy2, hy3⟩ := (mem_Lset _ _ _).mp hy
      obtain ⟨j, hj, he⟩ := h.present hv hp _ y (Nat.le_refl _) hy1 hy3
      obtain ⟨_, hbk, hLc, _⟩ := h.classify hp j hj (by omega)
      rw [he] at hbk hLc
      have := (hLc hy3).1
      rw [hy2] at this hbk
      rw [mem_slice]
      exact ⟨j - cntLt t d, by have := hbk.1; omega, by
        show pos.getD (cntLt t d + (j - cntLt t d)) 0 = y
        rw [show cntLt t d + (j - cntLt t d) = j by have := hbk.1; omega]; exact he⟩)
  simp only [slice, List.length_map, List.length_range] at hlen
  omega

theorem LInv.done (hv : Valid t) (hp : Placed t R pos0) (h : LInv t R pos0 t.length pos bs) : LDone t R pos0 pos where
  len := h.lenP
  larea := fun d hd i h1 h2 => (h.hist d hd i h1 (by rw [h.full hv hp d hd]; exact h2)).1
  sarea := fun d hd i h1 h2 => h.keep d hd i (by rw [h.full hv hp d hd]; exact h1) h2
  inj := h.inj
  sorted := h.sorted

end inv

/-- the L pass of induced sorting: starting from the placed LMS positions it writes every L-type position exactly
once into the L-area of its bucket, keeps the S-areas, and keeps the defined entries `R`-sorted. -/
theorem lPass_spec (t : List Nat) (hv : Valid t) (R : Nat → Nat → Prop) (hR : IndRel t R) (hstep : StepL t R)
    (pos0 : List Nat) (hp : Placed t R pos0) :
    LDone t R pos0 (forUp t.length (lStep t (tyOf t) t.length) (pos0, initBucketStart t)).1 := by
  have h := forUp_inv t.length (lStep t (tyOf t) t.length) (pos0, initBucketStart t)
    (fun r s => LInv t R pos0 r s.1 s.2) (LInv.init hv hp)
    (fun k s hk hs => lStep_inv hv hR hstep hp s hk hs)
  exact h.done hv hp

end RbV.Sais
