import RbV.Lemmas.TracebackLongGeom
/-!
The invariant of the block-based traceback handler (`long.rs: LongTracebackHandler`) along the walk of a hit, and its
three tests (C10, block-based handler, stage 2).  Core Lean only.

`ColFacts`: what the search leaves in the slots of one column (C09's band invariant seen block by block): the first
`L` blocks encode a pseudo-column `P ≥` true column that is exact wherever the true value is `≤ k`, all rows below these
blocks are `> k`, block `L` (if there is one) is the sentinel `dist = usize::MAX, pv = mv = 0`; slots further down are
unconstrained (stale).  `StoredL`: all columns a traceback from sequence number `q` can reach.  `LInvC`: the handler with
its cursor at a cell of value `≤ k`.
-/
namespace RbV.Model.MyersTracebackLong
open RbV.EditDist
open RbV.Model.MyersSimple (St)
open RbV.Model.MyersTraceback

/-- one stored column of the block-based search; `Dj` = the true Sellers column -/
structure ColFacts {w : Nat} (nb m k : Nat) (Dj : Nat → Nat) (col : Array (St w)) (L : Nat) (P : Nat → Int) : Prop where
  hL1 : 1 ≤ L
  hLn : L ≤ nb
  enc : ∀ B, B < L → VEnc (lenB w nb m B) (fun i => P (B * w + i)) (col.getD B dflt).pv (col.getD B dflt).mv ∧
    ((col.getD B dflt).dist : Int) = P (B * w + lenB w nb m B)
  sent : L < nb → col.getD L dflt = ⟨0#w, 0#w, umax⟩
  ge : ∀ r, r ≤ rowsL w nb m L → (Dj r : Int) ≤ P r
  ex : ∀ r, r ≤ rowsL w nb m L → Dj r ≤ k → P r = (Dj r : Int)
  out : ∀ r, rowsL w nb m L < r → r ≤ m → k < Dj r

/-- the stored columns and the iterator, for a traceback that starts at sequence number `q` (matrix column `q − 1`);
`lo` = smallest sequence number that can still be read -/
structure StoredL {w : Nat} (nb m k q lo : Nat) (D : Nat → Nat → Nat) (S : Nat → Array (St w))
    (rd : Nat → Array (St w)) : Prop where
  geo : Geo w nb m
  small : m + 2 * w + 2 ≤ umax
  col0 : ∀ i, i ≤ m → D i 0 = i
  bound : ∀ i j, i ≤ m → j < q → D i j ≤ m
  diag : ∀ i j, i < m → j + 1 < q → D i j ≤ D (i + 1) (j + 1)
  vert : ∀ i j, i < m → j < q → D (i + 1) j ≤ D i j + 1 ∧ D i j ≤ D (i + 1) j + 1
  size : ∀ s, s ≤ q → (S s).size = nb
  guard : ∀ B, B < nb → (S 0).getD B dflt = maxSt w umax
  cols : ∀ j, j < q → ∃ L P, ColFacts nb m k (fun r => D r j) (S (j + 1)) L P
  rd : ∀ n, n + lo ≤ q → rd n = S (q - n)

/-! ### exactness of the cells the walk looks at -/

section
variable {w nb m k : Nat} {Dj : Nat → Nat} {col : Array (St w)} {L : Nat} {P : Nat → Int}

/-- a cell of value `≤ k` lies in a computed block and is stored exactly -/
theorem ColFacts.exact (cf : ColFacts nb m k Dj col L P) (r : Nat) (hr : r ≤ m) (hk : Dj r ≤ k) :
    r ≤ rowsL w nb m L ∧ P r = (Dj r : Int) := by
  have h1 : r ≤ rowsL w nb m L := by
    apply Nat.le_of_not_lt
    intro h
    have := cf.out r h hr
    omega
  exact ⟨h1, cf.ex r h1 hk⟩

/-- … and so is the cell above it -/
theorem ColFacts.exact_up (cf : ColFacts nb m k Dj col L P) (g : Geo w nb m)
    (hv : ∀ i, i < m → Dj (i + 1) ≤ Dj i + 1 ∧ Dj i ≤ Dj (i + 1) + 1)
    (B b : Nat) (hB : B < nb) (hb : b < lenB w nb m B) (hk : Dj (B * w + b + 1) ≤ k) :
    B < L ∧ P (B * w + b + 1) = (Dj (B * w + b + 1) : Int) ∧ P (B * w + b) = (Dj (B * w + b) : Int) := by
  have hend := g.block_end_le B hB
  obtain ⟨h1, h2⟩ := cf.exact (B * w + b + 1) (by omega) hk
  have hBL : B < L := (g.row_in_iff B b L hB hb cf.hLn).mp h1
  refine ⟨hBL, h2, ?_⟩
  have hd := (cf.enc B hBL).1.diff b hb
  have e : B * w + (b + 1) = B * w + b + 1 := rfl
  rw [e, h2] at hd
  have hge := cf.ge (B * w + b) (by omega)
  have hvv := hv (B * w + b) (by omega)
  by_cases hkk : Dj (B * w + b) ≤ k
  · exact cf.ex _ (by omega) hkk
  · omega

/-- the `mv` bit below an exact cell of value `≤ k` tells the truth -/
theorem ColFacts.down (cf : ColFacts nb m k Dj col L P) (g : Geo w nb m)
    (hv : ∀ i, i < m → Dj (i + 1) ≤ Dj i + 1 ∧ Dj i ≤ Dj (i + 1) + 1)
    (B b : Nat) (hB : B < nb) (hb : b < lenB w nb m B) (hBL : B < L) (hk : Dj (B * w + b) ≤ k) :
    ((col.getD B dflt).mv.getLsbD b = true ↔ Dj (B * w + b + 1) + 1 = Dj (B * w + b)) := by
  have hend := g.block_end_le B hB
  have h1 : B * w + b + 1 ≤ rowsL w nb m L := (g.row_in_iff B b L hB hb cf.hLn).mpr hBL
  have hd := (cf.enc B hBL).1.diff b hb
  have hm := (cf.enc B hBL).1.mvb b hb
  have e : B * w + (b + 1) = B * w + b + 1 := rfl
  rw [e] at hd hm
  rw [hm]
  have hx := cf.ex (B * w + b) (by omega) hk
  have hge := cf.ge (B * w + b + 1) h1
  have hvv := hv (B * w + b) (by omega)
  rw [hx]
  constructor
  · intro h; omega
  · intro h
    have := cf.ex (B * w + b + 1) h1 (by omega)
    omega

end

/-! ### the handler invariant -/

/-- right cursor: row index `i'` = bit `b` of block `B` -/
structure RGeo {w : Nat} (nb m : Nat) (i' B b : Nat) (h : LHandler w) : Prop where
  hB : B < nb
  hb : b < lenB w nb m B
  hrow : i' = B * w + b
  blockPos : h.blockPos = B
  pos : h.pos = BitVec.twoPow w b

/-- left (diagonal) cursor: global row `i'` = local row `a` of block `BL`; the range mask covers local rows `a..len−1` -/
structure LGeo {w : Nat} (nb m : Nat) (i' BL a : Nat) (h : LHandler w) : Prop where
  hBL : BL < nb
  ha : a ≤ lenB w nb m BL
  ha1 : BL = 0 ∨ 1 ≤ a
  hrowL : i' = BL * w + a
  leftBlockPos : h.leftBlockPos = BL
  lmax : h.leftMaxMask = BitVec.twoPow w (lenB w nb m BL - 1)
  lmask : ∀ x, h.leftMask.getLsbD x = decide (a ≤ x ∧ x < lenB w nb m BL)

/-- the handler with its cursor at row `i' + 1` of matrix column `j` (a cell of value `≤ k`): right cursor = bit `b` of
block `B`, left (diagonal) cursor = local row `a` of block `BL` in the left column -/
structure LInvC {w : Nat} (nb m k q : Nat) (D : Nat → Nat → Nat) (S : Nat → Array (St w)) (i' j B b BL a : Nat)
    (h : LHandler w) : Prop where
  hi : i' < m
  hj : j < q
  hk : D (i' + 1) j ≤ k
  rg : RGeo nb m i' B b h
  lg : LGeo nb m i' BL a h
  col : h.col = S (j + 1)
  leftCol : h.leftCol = S j
  bpv : h.block.pv = ((S (j + 1)).getD B dflt).pv
  bmv : h.block.mv = ((S (j + 1)).getD B dflt).mv
  bdist : h.block.dist = D (i' + 1) j
  lpv : h.leftBlock.pv = ((S j).getD BL dflt).pv
  lmv : h.leftBlock.mv = ((S j).getD BL dflt).mv
  ldist : 1 ≤ j → h.leftBlock.dist = D i' (j - 1)
  ldist0 : j = 0 → h.leftBlock.dist + (lenB w nb m BL - a) = umax
  taken : h.taken = q - j + 1

def LInv {w : Nat} (nb m k q : Nat) (D : Nat → Nat → Nat) (S : Nat → Array (St w)) (i' j : Nat) (h : LHandler w) : Prop :=
  ∃ B b BL a, LInvC nb m k q D S i' j B b BL a h

/-- cursor at row `i` of column `j`; row 0 = finished -/
def LInvAny {w : Nat} (nb m k q : Nat) (D : Nat → Nat → Nat) (S : Nat → Array (St w)) (i j : Nat) (h : LHandler w) : Prop :=
  match i with
  | 0 => h.pos = 0#w ∧ h.blockPos = 0
  | i' + 1 => LInv nb m k q D S i' j h

section
variable {w nb m k q lo : Nat} {D : Nat → Nat → Nat} {S : Nat → Array (St w)} {rd : Nat → Array (St w)}
  {i' j B b BL a : Nat} {h : LHandler w}

theorem LInvC.cases (st : StoredL nb m k q lo D S rd) (inv : LInvC nb m k q D S i' j B b BL a h) :
    (BL = B ∧ a = b) ∨ (b = 0 ∧ B = BL + 1 ∧ a = w) := by
  have h1 := st.geo.len_le B
  have h2 := st.geo.len_le BL
  exact cursor_cases w B b BL a (by have := inv.rg.hb; omega) (by have := inv.lg.ha; omega)
    (by rw [← inv.rg.hrow, ← inv.lg.hrowL])

/-- the diagonal cell of the cursor has a value `≤ k` -/
theorem LInvC.diag_le (st : StoredL nb m k q lo D S rd) (inv : LInvC nb m k q D S i' j B b BL a h) (hj1 : 1 ≤ j) :
    D i' (j - 1) ≤ k := by
  obtain ⟨j', rfl⟩ : ∃ j', j = j' + 1 := ⟨j - 1, by omega⟩
  have := st.diag i' j' inv.hi inv.hj
  have := inv.hk
  simp only [Nat.add_sub_cancel]
  omega

/-- test 1: `left.dist.wrapping_add(1) == block.dist` ⇔ diagonal value + 1 = current value (never at column 0) -/
theorem testL_subst (st : StoredL nb m k q lo D S rd) (inv : LInvC nb m k q D S i' j B b BL a h) :
    ((h.leftBlock.dist + 1) % (umax + 1) = h.block.dist) ↔ (j ≥ 1 ∧ D i' (j - 1) + 1 = D (i' + 1) j) := by
  have hs := inv.bdist
  have hsm := st.small
  have hi := inv.hi
  have hbd := st.bound (i' + 1) j (by omega) inv.hj
  cases j with
  | zero =>
    have hl := inv.ldist0 rfl
    have hlen := st.geo.len_le BL
    have hc := st.col0 (i' + 1) (by omega)
    by_cases hz : lenB w nb m BL - a = 0
    · have : h.leftBlock.dist + 1 = umax + 1 := by omega
      rw [this, Nat.mod_self]
      omega
    · rw [Nat.mod_eq_of_lt (by omega)]
      omega
  | succ j' =>
    have hl := inv.ldist (by omega)
    simp only [Nat.add_sub_cancel] at hl ⊢
    have hb := st.bound i' j' (by omega) (by have := inv.hj; omega)
    rw [Nat.mod_eq_of_lt (by omega)]
    omega

/-- test 2: `block.pv & pos != 0` ⇔ upper value + 1 = current value -/
theorem testL_ins (st : StoredL nb m k q lo D S rd) (inv : LInvC nb m k q D S i' j B b BL a h) :
    ((h.block.pv &&& h.pos) != 0#w) = decide (D i' j + 1 = D (i' + 1) j) := by
  obtain ⟨L, P, cf⟩ := st.cols j inv.hj
  have hlw := st.geo.len_le B
  have hb := inv.rg.hb
  have hk := inv.hk
  have hrow := inv.rg.hrow
  subst hrow
  obtain ⟨hBL, e1, e0⟩ := cf.exact_up st.geo (fun i hi => st.vert i j hi inv.hj) B b inv.rg.hB hb hk
  rw [inv.rg.pos, test_twoPow _ b (by omega), inv.bpv]
  have hp := (cf.enc B hBL).1.pvb b hb
  have e : B * w + (b + 1) = B * w + b + 1 := rfl
  rw [e, e1, e0] at hp
  rw [Bool.eq_iff_iff, hp]
  simp only [decide_eq_true_eq]
  omega

/-- a stored block whose last row has a value `≤ k` is a computed block and its `dist` is that value -/
theorem ColFacts.block_end {w nb m k : Nat} {Dj : Nat → Nat} {col : Array (St w)} {L : Nat} {P : Nat → Int}
    (cf : ColFacts nb m k Dj col L P) (g : Geo w nb m) (Bx : Nat) (hB : Bx < nb)
    (hk : Dj (Bx * w + lenB w nb m Bx) ≤ k) :
    Bx < L ∧ (col.getD Bx dflt).dist = Dj (Bx * w + lenB w nb m Bx) := by
  obtain ⟨h1, h2⟩ := cf.exact _ (g.block_end_le Bx hB) hk
  have hlt : Bx < L := (g.lrow_in_iff Bx _ L hB (g.len_pos Bx) (Nat.le_refl _) cf.hLn).mp h1
  refine ⟨hlt, ?_⟩
  have := (cf.enc Bx hlt).2
  omega

/-- the block under the left cursor is a computed block (or a block of the guard column): the local column `CL` it
encodes, with the handler's `left_block.dist` at local row `a` -/
theorem LInvC.left_enc (st : StoredL nb m k q lo D S rd) (inv : LInvC nb m k q D S i' j B b BL a h) :
    ∃ CL : Nat → Int,
      VEnc (lenB w nb m BL) CL ((S j).getD BL dflt).pv ((S j).getD BL dflt).mv ∧
      (((S j).getD BL dflt).dist : Int) = CL (lenB w nb m BL) ∧
      (h.leftBlock.dist : Int) = CL a ∧
      (1 ≤ j → ∀ x, x ≤ lenB w nb m BL → D (BL * w + x) (j - 1) ≤ k → CL x = (D (BL * w + x) (j - 1) : Int)) ∧
      (j = 0 → ∀ x, CL x = (umax : Int) - lenB w nb m BL + x) := by
  have hlw := st.geo.len_le BL
  have hend := st.geo.block_end_le BL inv.lg.hBL
  cases j with
  | zero =>
    refine ⟨fun x => (umax : Int) - lenB w nb m BL + x, ?_, ?_, ?_, by intro h0; omega, fun _ _ => rfl⟩
    · rw [st.guard BL inv.lg.hBL]; exact guard_enc umax _ hlw
    · rw [st.guard BL inv.lg.hBL]; simp only [maxSt]; omega
    · show (h.leftBlock.dist : Int) = (umax : Int) - lenB w nb m BL + a
      have := inv.ldist0 rfl
      have := inv.lg.ha
      omega
  | succ j' =>
    obtain ⟨L, P, cf⟩ := st.cols j' (by have := inv.hj; omega)
    have hdk := inv.diag_le st (by omega)
    simp only [Nat.add_sub_cancel] at hdk ⊢
    have hrowL := inv.lg.hrowL
    obtain ⟨h1, h2⟩ := cf.exact i' (by have := inv.hi; omega) hdk
    have hBL : BL < L := by
      rcases inv.lg.ha1 with h0 | h1'
      · have := cf.hL1; omega
      · rw [hrowL] at h1
        exact (st.geo.lrow_in_iff BL a L inv.lg.hBL h1' inv.lg.ha cf.hLn).mp h1
    refine ⟨fun x => P (BL * w + x), (cf.enc BL hBL).1, (cf.enc BL hBL).2, ?_, ?_, by intro h0; omega⟩
    · have := inv.ldist (by omega)
      simp only [Nat.add_sub_cancel] at this
      show (h.leftBlock.dist : Int) = P (BL * w + a)
      rw [this, ← hrowL, h2]
    · intro _ x hx hk
      exact (cf.exact (BL * w + x) (by omega) hk).2

theorem arr_get?_of_lt {α : Type} (arr : Array α) (i : Nat) (d : α) (hlt : i < arr.size) :
    arr[i]? = some (arr.getD i d) := by
  simp [Array.getD, hlt]

/-- test 3, `move_left_down_if_better`: true ⇔ left value + 1 = diagonal value (never at column 0, never into the sentinel
block); when true, the left block becomes the block under the right cursor's row in the left column with the left value -/
theorem mldib_spec (st : StoredL nb m k q lo D S rd) (inv : LInvC nb m k q D S i' j B b BL a h) :
    h.moveLeftDownIfBetter.1 = decide (j ≥ 1 ∧ D (i' + 1) (j - 1) + 1 = D i' (j - 1)) ∧
    (h.moveLeftDownIfBetter.1 = false → h.moveLeftDownIfBetter.2 = h) ∧
    (h.moveLeftDownIfBetter.1 = true → ∃ blk, h.moveLeftDownIfBetter.2 = { h with leftBlock := blk } ∧
      blk.pv = ((S j).getD B dflt).pv ∧ blk.mv = ((S j).getD B dflt).mv ∧ blk.dist = h.leftBlock.dist - 1) := by
  have hlwB := st.geo.len_le B
  have hlwBL := st.geo.len_le BL
  have hw := st.geo.hw
  have hb := inv.rg.hb
  have hrow := inv.rg.hrow
  have hi := inv.hi
  -- the truth of the test bit, for the block `B` of the left column and bit `b`
  have key : B = BL + 1 ∨ B = BL → B < nb →
      (((S j).getD B dflt).mv.getLsbD b = true ↔ (j ≥ 1 ∧ D (i' + 1) (j - 1) + 1 = D i' (j - 1))) := by
    intro hBB hBn
    cases j with
    | zero =>
      rw [st.guard B hBn]
      simp [maxSt]
    | succ j' =>
      obtain ⟨L, P, cf⟩ := st.cols j' (by have := inv.hj; omega)
      have hdk := inv.diag_le st (by omega)
      simp only [Nat.add_sub_cancel] at hdk ⊢
      obtain ⟨h1, h2⟩ := cf.exact i' (by omega) hdk
      have hv : ∀ i, i < m → D (i + 1) j' ≤ D i j' + 1 ∧ D i j' ≤ D (i + 1) j' + 1 :=
        fun i hi' => st.vert i j' hi' (by have := inv.hj; omega)
      by_cases hBL : B < L
      · have := cf.down st.geo hv B b hBn hb hBL (by rw [← hrow]; exact hdk)
        rw [← hrow] at this
        rw [this]
        constructor
        · intro h'; exact ⟨by omega, h'⟩
        · intro h'; exact h'.2
      · -- the block is the sentinel
        have hBeq : B = L := by
          rcases inv.cases st with ⟨e1, e2⟩ | ⟨e1, e2, e3⟩
          · -- same block: the diagonal row is inside the computed blocks, so `B < L`
            exfalso
            apply hBL
            rcases inv.lg.ha1 with h0 | h1'
            · have := cf.hL1; omega
            · have hrl := inv.lg.hrowL
              rw [hrl] at h1
              have := (st.geo.lrow_in_iff BL a L inv.lg.hBL h1' inv.lg.ha cf.hLn).mp h1
              omega
          · have hrl := inv.lg.hrowL
            rw [hrl] at h1
            have := (st.geo.lrow_in_iff BL a L inv.lg.hBL (by omega) inv.lg.ha cf.hLn).mp h1
            omega
        have hs := cf.sent (by omega)
        rw [hBeq, hs]
        have hrows : rowsL w nb m L < i' + 1 := by
          apply Nat.lt_of_not_le
          intro hle
          rw [hrow] at hle
          have := (st.geo.row_in_iff B b L hBn hb cf.hLn).mp hle
          omega
        have := cf.out (i' + 1) hrows (by omega)
        simp only [BitVec.getLsbD_zero, Bool.false_eq_true, false_iff]
        omega
  unfold LHandler.moveLeftDownIfBetter
  rcases inv.cases st with ⟨e1, e2⟩ | ⟨e1, e2, e3⟩
  · -- left cursor inside the block of the right cursor
    subst e1 e2
    have hm : (h.leftMask != 0#w) = true := by
      rw [mask_ne_zero h.leftMask a _ hlwBL inv.lg.lmask]; simp; exact hb
    have ht : ((h.leftBlock.mv &&& h.pos) != 0#w) = ((S j).getD BL dflt).mv.getLsbD a := by
      rw [inv.rg.pos, test_twoPow _ a (by omega), inv.lmv]
    have hkey := key (Or.inr rfl) inv.rg.hB
    rw [if_pos hm, ht]
    cases hbit : ((S j).getD BL dflt).mv.getLsbD a
    · rw [hbit] at hkey
      rw [if_neg Bool.false_ne_true]
      refine ⟨?_, fun _ => rfl, fun hc => absurd hc Bool.false_ne_true⟩
      show false = _
      rw [eq_comm, decide_eq_false_iff_not]
      exact fun hc => Bool.false_ne_true (hkey.mpr hc)
    · rw [hbit] at hkey
      rw [if_pos rfl]
      refine ⟨?_, fun hc => absurd hc.symm Bool.false_ne_true, fun _ => ⟨_, rfl, inv.lpv, inv.lmv, rfl⟩⟩
      show true = _
      rw [eq_comm, decide_eq_true_iff]
      exact hkey.mp rfl
  · -- left cursor at the lower boundary of the block above
    subst e1 e2
    have hlen : lenB w nb m BL = w := st.geo.len_inner BL (by have := inv.rg.hB; omega)
    have hm : (h.leftMask != 0#w) = false := by
      rw [mask_ne_zero h.leftMask a _ hlwBL inv.lg.lmask]; simp; omega
    have hget : h.leftCol[h.leftBlockPos + 1]? = some ((S j).getD (BL + 1) dflt) := by
      rw [inv.leftCol, inv.lg.leftBlockPos]
      apply arr_get?_of_lt
      rw [st.size j (by have := inv.hj; omega)]
      exact inv.rg.hB
    have hkey := key (Or.inl rfl) inv.rg.hB
    rw [hm, if_neg Bool.false_ne_true, hget]
    dsimp only
    rw [bit0_test (by omega)]
    cases hbit : ((S j).getD (BL + 1) dflt).mv.getLsbD 0
    · rw [hbit] at hkey
      rw [if_neg Bool.false_ne_true]
      refine ⟨?_, fun _ => rfl, fun hc => absurd hc Bool.false_ne_true⟩
      show false = _
      rw [eq_comm, decide_eq_false_iff_not]
      exact fun hc => Bool.false_ne_true (hkey.mpr hc)
    · rw [hbit] at hkey
      rw [if_pos rfl]
      refine ⟨?_, fun hc => absurd hc.symm Bool.false_ne_true, fun _ => ⟨_, rfl, rfl, rfl, rfl⟩⟩
      show true = _
      rw [eq_comm, decide_eq_true_iff]
      exact hkey.mp rfl

end

end RbV.Model.MyersTracebackLong
