import RbV.Lemmas.SaisFirst
import RbV.Lemmas.SaisRedOrder
import RbV.Lemmas.SaisTransform
import RbV.Ref.SAComplete
/-
SA-IS as a whole (C03 (f), (g)): `sort_lms_suffixes` leaves the LMS positions sorted by their suffixes (naming, and
recursion on the reduced text where two LMS substrings are equal), hence `Sais::construct` returns the sorted suffix
permutation of every text it accepts; `suffix_array_int` and `suffix_array` follow.
-/
namespace RbV.Sais
open RbV

/-- `lms_pos` on entry of the second `calc_pos`: all LMS positions, sorted by their suffixes -/
def LmsSorted (t : List Nat) (lms : List Nat) : Prop := LmsList t lms ∧ lms.Pairwise (sufR t)

theorem pairwise_of_length_le_one {α : Type} (R : α → α → Prop) (l : List α) (h : l.length ≤ 1) : l.Pairwise R := by
  match l, h with
  | [], _ => exact List.Pairwise.nil
  | [a], _ => exact List.pairwise_singleton R a

/-- `calc_lms_pos` unfolded: the three outcomes of `sort_lms_suffixes` -/
theorem calcLmsPos_lmsPos (rec : List Nat → St → St) (t : List Nat) (ty : List Bool) (s : St) :
    (calcLmsPos rec t ty s).lmsPos =
      (let c := forUp t.length (collectStep ty) ([], s.redPos, 0)
       let sB : St := calcPos t ty { s with lmsPos := c.1, redPos := c.2.1 }
       if c.1.length > 1 then
         if (naming t ty c.1.length sB).label + 1 < c.1.length then
           (rec (naming t ty c.1.length sB).red sB).pos.map (fun p => c.1.getD p 0)
         else sB.pos.filter (isLms ty)
       else c.1) := by
  unfold calcLmsPos sortLmsSuffixes
  simp only []
  rw [apply_ite St.lmsPos, apply_ite St.lmsPos]
  rfl

theorem map_getD_range (l : List Nat) : (List.range l.length).map (fun p => l.getD p 0) = l := by
  apply List.ext_getElem?
  intro i
  by_cases hi : i < l.length
  · rw [List.getElem?_map, List.getElem?_range hi, List.getElem?_eq_getElem hi]
    simp [List.getD_eq_getElem?_getD, hi]
  · rw [List.getElem?_eq_none (by simp; omega), List.getElem?_eq_none (by omega)]

/-- **C03 (f)**: after `calc_lms_pos`, `lms_pos` holds every LMS position once, sorted by suffix — given that the
recursive call sorts shorter texts. -/
theorem calcLmsPos_sorted (f : Nat)
    (ih : ∀ t' s', Valid t' → t'.length ≤ f → t'.length ≤ s'.redPos.length → SuffixSorted t' (construct f t' s').pos)
    (t : List Nat) (hv : Valid t) (hn : t.length ≤ f + 1) (s : St) (hs : t.length ≤ s.redPos.length) :
    LmsSorted t (calcLmsPos (construct f) t (tyOf t) s).lmsPos := by
  rw [calcLmsPos_lmsPos]
  have hc := collect_spec (tyOf t) s.redPos t.length hs
  simp only [] at hc ⊢
  generalize forUp t.length (collectStep (tyOf t)) ([], s.redPos, 0) = c at hc ⊢
  obtain ⟨c1, c2, c3⟩ := c
  obtain ⟨h1, _, h3, h4, _⟩ := hc
  simp only [] at h1 h3 h4 ⊢
  subst h1
  have hred : RedPosOk t c2 := fun q hq => h4 q (lt_of_isLms q hq) hq
  have hmlt := length_lmsBelow_lt (tyOf t) t.length hv.pos
  by_cases hm : (lmsBelow (tyOf t) t.length).length > 1
  · rw [if_pos hm]
    have h2 : 2 ≤ t.length := by omega
    -- the state before the naming loop
    have hpos : (calcPos t (tyOf t) { s with lmsPos := lmsBelow (tyOf t) t.length, redPos := c2 }).pos = pos1 t := rfl
    have hrp : (calcPos t (tyOf t) { s with lmsPos := lmsBelow (tyOf t) t.length, redPos := c2 }).redPos = c2 := rfl
    generalize calcPos t (tyOf t) { s with lmsPos := lmsBelow (tyOf t) t.length, redPos := c2 } = sB at hpos hrp ⊢
    obtain ⟨hlab, hredv⟩ := naming_eq t (tyOf t) (lmsBelow (tyOf t) t.length).length sB
    rw [hpos] at hlab hredv
    rw [hrp] at hredv
    have hredv' : (naming t (tyOf t) (lmsBelow (tyOf t) t.length).length sB).red = red1 t c2 := hredv
    have hlab' : (naming t (tyOf t) (lmsBelow (tyOf t) t.length).length sB).label = (labs1 t).getLastD 0 := hlab
    rw [hredv', hlab']
    by_cases hrec : (labs1 t).getLastD 0 + 1 < (lmsBelow (tyOf t) t.length).length
    · rw [if_pos hrec]
      -- recursion on the reduced text
      have hvr := valid_red1 t hv h2 c2 hred hm
      have hlr := length_red1 t c2
      have hsr := ih (red1 t c2) sB hvr (by omega) (by rw [hrp, h3]; omega)
      generalize (construct f (red1 t c2) sB).pos = sa at hsr
      obtain ⟨hperm, hpw⟩ := hsr
      rw [hlr] at hperm
      have hpm := hperm.map (fun p => (lmsBelow (tyOf t) t.length).getD p 0)
      rw [map_getD_range] at hpm
      refine ⟨⟨hpm.nodup_iff.mpr (nodup_lmsBelow _ _), ?_⟩, ?_⟩
      · intro p
        rw [hpm.mem_iff, mem_lmsBelow]
        exact ⟨fun h => h.2, fun h => ⟨lt_of_isLms p h, h⟩⟩
      · rw [List.pairwise_map]
        refine hpw.imp_of_mem ?_
        intro a b ha hb hab
        have ha' : a < (red1 t c2).length := by rw [hlr]; exact List.mem_range.mp (hperm.mem_iff.mp ha)
        have hb' : b < (red1 t c2).length := by rw [hlr]; exact List.mem_range.mp (hperm.mem_iff.mp hb)
        exact (lms_suffix_order t hv h2 (red1 t c2) hlr (red1_ord t hv h2 c2 hred) a b ha' hb').mp hab
    · rw [if_neg hrec, hpos]
      -- all LMS substrings are different
      refine ⟨⟨qs1_nodup t hv h2, mem_qs1 t hv h2⟩, ?_⟩
      have hfull : (qs1 t).length ≤ (labs1 t).getLastD 0 + 1 := by rw [length_qs1 t hv h2]; omega
      have := labels_all_distinct (key t) _ (qs1 t) (qs1_nodup t hv h2) (qs1_eq t hv h2) (qs1_sorted t hv h2) hfull
      refine this.imp_of_mem ?_
      intro p q hp hq hpq
      exact sufR_of_key_lt t hv p q ((mem_qs1 t hv h2 p).mp hp) ((mem_qs1 t hv h2 q).mp hq) hpq
  · rw [if_neg hm]
    exact ⟨lmsList_lmsBelow t, pairwise_of_length_le_one _ _ (by omega)⟩

theorem suffixSorted_of_sdone {t pos : List Nat} (h : SDone t (sufR t) pos) : SuffixSorted t pos :=
  ⟨sdone_perm h, pairwise_of_sdone h⟩

/-- **`Sais::construct` sorts** (C03 (g), integer texts): for every text it accepts (non-empty, last symbol the unique
minimum, dense alphabet) and enough recursion fuel, `pos` is the sorted suffix permutation. -/
theorem construct_sorted : ∀ (f : Nat) (t : List Nat) (s : St), Valid t → t.length ≤ f → t.length ≤ s.redPos.length →
    SuffixSorted t (construct f t s).pos := by
  intro f
  induction f with
  | zero => intro t s hv hf; have := hv.pos; omega
  | succ f ih =>
    intro t s hv hf hs
    have hl := calcLmsPos_sorted f ih t hv hf s hs
    have hpos : (construct (f + 1) t s).pos =
        (calcPosRun t (tyOf t) (calcLmsPos (construct f) t (tyOf t) s).lmsPos).pos := rfl
    rw [hpos]
    generalize (calcLmsPos (construct f) t (tyOf t) s).lmsPos = lms at hl
    obtain ⟨hll, hsorted⟩ := hl
    by_cases h2 : 2 ≤ t.length
    · apply suffixSorted_of_sdone
      exact induced_sort t hv h2 (sufR t) (sufR t) (indRel_suf t hv) (stepL_suf t) (indRel_suf t hv) (stepS_suf t)
        (fun _ _ _ _ _ _ h => h) lms hll (List.Pairwise.imp (S := fun p q => sym t p = sym t q → sufR t p q) (fun h _ => h) hsorted)
    · have hp := calcPos_perm t hv lms hll
      refine ⟨hp, pairwise_of_length_le_one _ _ ?_⟩
      have := hp.length_eq
      rw [List.length_range] at this
      have := hv.pos
      omega

/-- **C03 (e)**: induced sorting from correctly sorted LMS suffixes gives the sorted suffix permutation -/
theorem induced_sort_suffix (t : List Nat) (hv : Valid t) (lms : List Nat) (hl : LmsSorted t lms) :
    SuffixSorted t (calcPosRun t (tyOf t) lms).pos := by
  obtain ⟨hll, hsorted⟩ := hl
  by_cases h2 : 2 ≤ t.length
  · apply suffixSorted_of_sdone
    exact induced_sort t hv h2 (sufR t) (sufR t) (indRel_suf t hv) (stepL_suf t) (indRel_suf t hv) (stepS_suf t)
      (fun _ _ _ _ _ _ h => h) lms hll
      (List.Pairwise.imp (S := fun p q => sym t p = sym t q → sufR t p q) (fun h _ => h) hsorted)
  · have hp := calcPos_perm t hv lms hll
    refine ⟨hp, pairwise_of_length_le_one _ _ ?_⟩
    have := hp.length_eq
    rw [List.length_range] at this
    have := hv.pos
    omega

/-- Boolean test for `Valid` (for examples) -/
def validB (t : List Nat) : Bool :=
  decide (0 < t.length) &&
  (List.range (t.length - 1)).all (fun i => decide (sym t (t.length - 1) < sym t i)) &&
  (List.range (maxSucc t)).all (fun c => t.contains c)

theorem valid_of_validB (t : List Nat) (h : validB t = true) : Valid t := by
  unfold validB at h
  simp only [Bool.and_eq_true, decide_eq_true_eq, List.all_eq_true, List.mem_range] at h
  obtain ⟨⟨h1, h2⟩, h3⟩ := h
  refine ⟨h1, fun i hi => h2 i (by omega), ?_⟩
  intro c x hx hcx
  have := lt_maxSucc_of_mem t x hx
  have := h3 c (by omega)
  simpa using this

theorem suffixArrayInt_sorted (t : List Nat) (hv : Valid t) : SuffixSorted t (suffixArrayInt t) :=
  construct_sorted t.length t (St.new t.length) hv (Nat.le_refl _) (by simp [St.new])

theorem suffixArray_isSA (t : List Nat) (hne : t ≠ []) (hmin : ∀ p, p < t.length → sentinelOf t ≤ t.getD p 0) :
    IsSA t (suffixArray t) := by
  unfold suffixArray
  simp only []
  rw [transformText_eq]
  apply Transform.transform_sorted_isSA t _ hne hmin
  apply construct_sorted _ _ _ (valid_transformText t hne hmin) (Nat.le_refl _)
  simp [St.new, Transform.length_transformText]

end RbV.Sais
