import RbV.Model.Fenwick
import RbV.Spec.Containers
/-
C18 — correctness of the Fenwick-tree mirror model (`RbV.Model.Fenwick`) against the specification
`RbV.Spec.Fenwick` (`prefixSum`, `prefixMax`).

One generic theorem (`get_run`) for an associative, commutative operation with identity `dflt`;
`sum_correct` and `max_correct` are corollaries.

Invariant (`Inv`): slot `j` (`1 ≤ j ≤ n`) of the tree holds the aggregate of the updates whose 1-based
position `q + 1` lies in `(j - lowbit j, j]`.
Core Lean only.
-/
namespace RbV.Lemmas.Fenwick
open RbV.Model.Fenwick RbV.Spec.Fenwick

/-! ## `lowbit` arithmetic -/

theorem lowbit_zero : lowbit 0 = 0 := by
  rw [lowbit]; simp

theorem lowbit_odd (i : Nat) (h : i % 2 = 1) : lowbit i = 1 := by
  rw [lowbit]
  have : i ≠ 0 := by omega
  simp [this, h]

theorem lowbit_even (i : Nat) (h0 : 0 < i) (h : i % 2 = 0) : lowbit i = 2 * lowbit (i / 2) := by
  rw [lowbit]
  have h1 : i ≠ 0 := by omega
  have h2 : ¬ (i % 2 = 1) := by omega
  simp [h1, h2]

/-- `0 < lowbit i ≤ i` for `i > 0` -/
theorem lowbit_pos_le : ∀ i : Nat, 0 < i → 0 < lowbit i ∧ lowbit i ≤ i := by
  intro i
  induction i using Nat.strongRecOn with
  | _ i ih =>
    intro hi
    by_cases hodd : i % 2 = 1
    · rw [lowbit_odd i hodd]; omega
    · have hev : i % 2 = 0 := by omega
      rw [lowbit_even i hi hev]
      have := ih (i / 2) (by omega) (by omega)
      omega

theorem lowbit_pos (i : Nat) (h : 0 < i) : 0 < lowbit i := (lowbit_pos_le i h).1
theorem lowbit_le (i : Nat) : lowbit i ≤ i := by
  by_cases h : 0 < i
  · exact (lowbit_pos_le i h).2
  · have : i = 0 := by omega
    subst this; rw [lowbit_zero]; omega

/-- the upward step at least doubles the lowest bit -/
theorem lowbit_add_lowbit : ∀ i : Nat, 0 < i → 2 * lowbit i ≤ lowbit (i + lowbit i) := by
  intro i
  induction i using Nat.strongRecOn with
  | _ i ih =>
    intro hi
    by_cases hodd : i % 2 = 1
    · rw [lowbit_odd i hodd]
      rw [lowbit_even (i + 1) (by omega) (by omega)]
      have := lowbit_pos ((i + 1) / 2) (by omega)
      omega
    · have hev : i % 2 = 0 := by omega
      have hl := lowbit_even i hi hev
      have hp := lowbit_pos (i / 2) (by omega)
      have h2 : (i + lowbit i) % 2 = 0 := by omega
      rw [lowbit_even (i + lowbit i) (by omega) h2]
      have h3 : (i + lowbit i) / 2 = i / 2 + lowbit (i / 2) := by omega
      rw [h3, hl]
      have := ih (i / 2) (by omega) (by omega)
      omega

/-- the ranges `(j - lowbit j, j]` are laminar: an index strictly inside the range of `j` has its upward
successor still `≤ j` -/
theorem lowbit_laminar : ∀ j i : Nat, j - lowbit j < i → i < j → i + lowbit i ≤ j := by
  intro j
  induction j using Nat.strongRecOn with
  | _ j ih =>
    intro i h1 h2
    by_cases hodd : j % 2 = 1
    · rw [lowbit_odd j hodd] at h1; omega
    · have hev : j % 2 = 0 := by omega
      have hl := lowbit_even j (by omega) hev
      by_cases hiodd : i % 2 = 1
      · rw [lowbit_odd i hiodd]; omega
      · have hiev : i % 2 = 0 := by omega
        have hi0 : 0 < i := by
          have := lowbit_le j
          omega
        have hil := lowbit_even i hi0 hiev
        have hlj := lowbit_le (j / 2)
        have := ih (j / 2) (by omega) (i / 2) (by omega) (by omega)
        omega

/-! ## aggregates of an update history -/

section Generic
variable {α : Type} (op : α → α → α) (dflt : α)

/-- fold of `op` over the values of the updates whose index satisfies `P` -/
def agg (P : Nat → Bool) : List (Nat × α) → α
  | [] => dflt
  | u :: us => if P u.1 then op u.2 (agg P us) else agg P us

/-- position `q` (0-based; 1-based `q + 1`) is covered by tree slot `j` -/
def cov (j q : Nat) : Bool := decide (j - lowbit j < q + 1 ∧ q + 1 ≤ j)

variable (hassoc : ∀ a b c : α, op (op a b) c = op a (op b c))
variable (hcomm : ∀ a b : α, op a b = op b a)
variable (hid : ∀ a : α, op dflt a = a)

include hid hcomm in
theorem op_dflt_right (a : α) : op a dflt = a := by rw [hcomm, hid]

theorem agg_congr (P Q : Nat → Bool) (h : ∀ q, P q = Q q) (ups : List (Nat × α)) :
    agg op dflt P ups = agg op dflt Q ups := by
  have : P = Q := funext h
  rw [this]

theorem agg_false (P : Nat → Bool) (h : ∀ q, P q = false) (ups : List (Nat × α)) :
    agg op dflt P ups = dflt := by
  induction ups with
  | nil => rfl
  | cons u us ih => simp [agg, h, ih]

include hassoc hcomm hid in
theorem agg_split (R P Q : Nat → Bool) (hR : ∀ q, R q = (P q || Q q))
    (hdisj : ∀ q, ¬ (P q = true ∧ Q q = true)) (ups : List (Nat × α)) :
    agg op dflt R ups = op (agg op dflt P ups) (agg op dflt Q ups) := by
  induction ups with
  | nil => simp [agg, hid]
  | cons u us ih =>
    have h1 := hR u.1
    have h2 := hdisj u.1
    cases hP : P u.1 <;> cases hQ : Q u.1 <;> simp [hP, hQ] at h1 h2
    · simp [agg, h1, hP, hQ, ih]
    · simp only [agg, h1, hP, hQ, ih, if_true]
      rw [← hassoc, hcomm u.2, hassoc]
      simp
    · simp only [agg, h1, hP, hQ, ih, if_true]
      rw [hassoc]
      simp

include hassoc hcomm in
theorem agg_snoc (P : Nat → Bool) (ups : List (Nat × α)) (u : Nat × α) :
    agg op dflt P (ups ++ [u]) =
      if P u.1 then op (agg op dflt P ups) u.2 else agg op dflt P ups := by
  induction ups with
  | nil =>
    cases hP : P u.1 <;> simp [agg, hP]
    exact hcomm _ _
  | cons w ws ih =>
    cases hP : P u.1 <;> cases hW : P w.1 <;> simp [agg, hP, hW, ih, hassoc]

/-! ## the invariant -/

/-- tree slot `j` holds the aggregate of the updates covered by `j` -/
def Inv (n : Nat) (tree : List α) (ups : List (Nat × α)) : Prop :=
  tree.length = n + 1 ∧
  ∀ j, 1 ≤ j → j ≤ n → tree.getD j dflt = agg op dflt (cov j) ups

theorem inv_new (n : Nat) : Inv op dflt n (new dflt n) [] := by
  refine ⟨by simp [new], ?_⟩
  intro j _ hj
  have hj' : j < n + 1 := by omega
  simp [new, agg, List.getD_eq_getElem?_getD, hj']

/-! ## `get` -/

include hassoc hcomm hid in
theorem getLoop_spec (n : Nat) (tree : List α) (ups : List (Nat × α)) (hinv : Inv op dflt n tree ups) :
    ∀ (fuel idx : Nat) (sum : α), idx ≤ n → idx ≤ fuel →
      getLoop op dflt tree fuel idx sum = op sum (agg op dflt (fun q => decide (q + 1 ≤ idx)) ups) := by
  intro fuel
  induction fuel with
  | zero =>
    intro idx sum _ h0
    have : idx = 0 := by omega
    subst this
    rw [getLoop, agg_false op dflt _ (by intro q; simp), op_dflt_right op dflt hcomm hid]
  | succ fuel ih =>
    intro idx sum hn hf
    rw [getLoop]
    by_cases hpos : idx > 0
    · simp only [hpos, if_true]
      have hlp := lowbit_pos idx hpos
      have hll := lowbit_le idx
      rw [ih (idx - lowbit idx) _ (by omega) (by omega), hinv.2 idx (by omega) hn, hassoc]
      congr 1
      symm
      apply agg_split op dflt hassoc hcomm hid
      · intro q
        simp only [cov]
        rw [Bool.eq_iff_iff]
        simp only [Bool.or_eq_true, decide_eq_true_eq]
        omega
      · intro q
        simp only [cov, decide_eq_true_eq]
        omega
    · have : idx = 0 := by omega
      subst this
      simp only [if_neg hpos]
      rw [agg_false op dflt _ (by intro q; simp), op_dflt_right op dflt hcomm hid]

include hassoc hcomm hid in
theorem get_spec (n : Nat) (tree : List α) (ups : List (Nat × α)) (hinv : Inv op dflt n tree ups)
    (i : Nat) (hi : i < n) :
    get op dflt tree i = agg op dflt (fun q => decide (q ≤ i)) ups := by
  rw [Model.Fenwick.get, getLoop_spec op dflt hassoc hcomm hid n tree ups hinv (i + 1) (i + 1) dflt (by omega)
    (by omega), hid]
  apply agg_congr
  intro q
  rw [Bool.eq_iff_iff]
  simp only [decide_eq_true_eq]
  omega

/-! ## `set` -/

theorem getD_set (l : List α) (i j : Nat) (v d : α) (hi : i < l.length) :
    (l.set i v).getD j d = if j = i then v else l.getD j d := by
  simp only [List.getD_eq_getElem?_getD, List.getElem?_set]
  by_cases h : i = j
  · subst h; simp [hi]
  · have h' : ¬ j = i := fun e => h e.symm
    simp [h, h']

theorem setLoop_spec (n q : Nat) (val : α) :
    ∀ (fuel idx : Nat) (tree : List α), 0 < idx → tree.length = n + 1 → n + 1 ≤ fuel + idx →
      (idx ≤ n → cov idx q = true) →
      (setLoop op dflt val fuel idx tree).length = n + 1 ∧
      ∀ j, 1 ≤ j → j ≤ n →
        (setLoop op dflt val fuel idx tree).getD j dflt =
          if idx ≤ j ∧ cov j q = true then op (tree.getD j dflt) val else tree.getD j dflt := by
  intro fuel
  induction fuel with
  | zero =>
    intro idx tree _ hlen hf _
    rw [setLoop]
    refine ⟨hlen, ?_⟩
    intro j _ hj
    have : ¬ idx ≤ j := by omega
    simp [this]
  | succ fuel ih =>
    intro idx tree hpos hlen hf hcov
    rw [setLoop]
    by_cases hlt : idx < tree.length
    · simp only [hlt, if_true]
      have hlp := lowbit_pos idx hpos
      have hdbl := lowbit_add_lowbit idx hpos
      have hc := hcov (by omega)
      simp only [cov, decide_eq_true_eq] at hc
      have := ih (idx + lowbit idx) (tree.set idx (op (tree.getD idx dflt) val)) (by omega)
        (by simp [hlen]) (by omega)
        (by
          intro _
          simp only [cov, decide_eq_true_eq]
          omega)
      refine ⟨this.1, ?_⟩
      intro j hj1 hjn
      rw [this.2 j hj1 hjn, getD_set _ _ _ _ _ hlt]
      by_cases hji : j = idx
      · subst hji
        have h1 : ¬ (j + lowbit j ≤ j) := by omega
        have h2 : cov j q = true := by simp only [cov, decide_eq_true_eq]; omega
        simp [h1, h2]
      · simp only [hji, if_false]
        by_cases hcj : cov j q = true
        · have hcj' := hcj
          simp only [cov, decide_eq_true_eq] at hcj'
          by_cases hle : idx ≤ j
          · have := lowbit_laminar j idx (by omega) (by omega)
            simp [hcj, hle, this]
          · have : ¬ (idx + lowbit idx ≤ j) := by omega
            simp [hle, this]
        · simp [hcj]
    · simp only [hlt, if_false]
      refine ⟨hlen, ?_⟩
      intro j _ hj
      have : ¬ idx ≤ j := by omega
      simp [this]

include hassoc hcomm in
theorem inv_set (n : Nat) (tree : List α) (ups : List (Nat × α)) (hinv : Inv op dflt n tree ups)
    (u : Nat × α) : Inv op dflt n (set op dflt tree u.1 u.2) (ups ++ [u]) := by
  have hp := lowbit_pos (u.1 + 1) (by omega)
  have hl := hinv.1
  have := setLoop_spec op dflt n u.1 u.2 tree.length (u.1 + 1) tree (by omega) hinv.1 (by omega)
    (by
      intro _
      simp only [cov, decide_eq_true_eq]
      omega)
  refine ⟨this.1, ?_⟩
  intro j hj1 hjn
  rw [Model.Fenwick.set, this.2 j hj1 hjn, agg_snoc op dflt hassoc hcomm, hinv.2 j hj1 hjn]
  by_cases hc : cov j u.1 = true
  · have hc' := hc
    simp only [cov, decide_eq_true_eq] at hc'
    have : u.1 + 1 ≤ j := by omega
    simp [hc, this]
  · simp [hc]

/-- the tree after a history of updates -/
def run (n : Nat) (ups : List (Nat × α)) : List α :=
  ups.foldl (fun t u => set op dflt t u.1 u.2) (new dflt n)

include hassoc hcomm in
theorem inv_foldl (n : Nat) (ups' : List (Nat × α)) :
    ∀ (tree : List α) (ups : List (Nat × α)), Inv op dflt n tree ups →
      Inv op dflt n (ups'.foldl (fun t u => set op dflt t u.1 u.2) tree) (ups ++ ups') := by
  induction ups' with
  | nil => intro tree ups h; simpa using h
  | cons u us ih =>
    intro tree ups h
    have := ih _ _ (inv_set op dflt hassoc hcomm n tree ups h u)
    simpa using this

include hassoc hcomm in
theorem inv_run (n : Nat) (ups : List (Nat × α)) : Inv op dflt n (run op dflt n ups) ups := by
  have := inv_foldl op dflt hassoc hcomm n ups _ _ (inv_new op dflt n)
  simpa [run] using this

include hassoc hcomm hid in
/-- generic correctness: a query at `i` returns the aggregate of all updates with index `≤ i` -/
theorem get_run (n : Nat) (ups : List (Nat × α)) (i : Nat) (hi : i < n) :
    get op dflt (run op dflt n ups) i = agg op dflt (fun q => decide (q ≤ i)) ups :=
  get_spec op dflt hassoc hcomm hid n _ ups (inv_run op dflt hassoc hcomm n ups) i hi

end Generic

/-! ## the two instances -/

/-- the tree after a history of updates -/
def runSum (n : Nat) (ups : List (Nat × Int)) : List Int :=
  ups.foldl (fun t u => set (· + ·) 0 t u.1 u.2) (new (0 : Int) n)
def runMax (n : Nat) (ups : List (Nat × Nat)) : List Nat :=
  ups.foldl (fun t u => set max 0 t u.1 u.2) (new (0 : Nat) n)

theorem agg_sum (ups : List (Nat × Int)) (i : Nat) :
    agg (· + ·) (0 : Int) (fun q => decide (q ≤ i)) ups = prefixSum ups i := by
  unfold prefixSum
  induction ups with
  | nil => simp [agg]
  | cons u us ih =>
    by_cases h : u.1 ≤ i
    · simp [agg, h, ih]
    · simp [agg, h, ih]

theorem foldl_max (xs : List Nat) : ∀ a : Nat, xs.foldl max a = max a (xs.foldl max 0) := by
  induction xs with
  | nil => intro a; simp
  | cons x xs ih =>
    intro a
    simp only [List.foldl_cons]
    rw [ih (max a x), ih (max 0 x)]
    omega

theorem agg_max (ups : List (Nat × Nat)) (i : Nat) :
    agg max (0 : Nat) (fun q => decide (q ≤ i)) ups = prefixMax ups i := by
  unfold prefixMax
  induction ups with
  | nil => simp [agg]
  | cons u us ih =>
    by_cases h : u.1 ≤ i
    · simp only [agg, h, decide_true, if_true, List.filter_cons, List.map_cons, List.foldl_cons, ih]
      rw [foldl_max _ (max 0 u.2)]
      omega
    · simp [agg, h, ih]

set_option linter.unusedVariables false in
theorem sum_correct (n : Nat) (ups : List (Nat × Int)) (hups : ∀ u ∈ ups, u.1 < n) (i : Nat)
    (hi : i < n) : get (· + ·) 0 (runSum n ups) i = prefixSum ups i := by
  have := get_run (· + ·) (0 : Int) (by intro a b c; omega) (by intro a b; omega)
    (by intro a; omega) n ups i hi
  rw [← agg_sum]
  exact this

set_option linter.unusedVariables false in
theorem max_correct (n : Nat) (ups : List (Nat × Nat)) (hups : ∀ u ∈ ups, u.1 < n) (i : Nat)
    (hi : i < n) : get max 0 (runMax n ups) i = prefixMax ups i := by
  have := get_run max (0 : Nat) (by intro a b c; omega) (by intro a b; omega)
    (by intro a; omega) n ups i hi
  rw [← agg_max]
  exact this

end RbV.Lemmas.Fenwick
