import RbV.Model.Wavelet
import RbV.Spec.RankSelect
/-
C18 — correctness of the mirror model of `WaveletMatrix::rank` (three bit-sliced levels).

The proof generalises over the number of levels: `rankLoop_correct` says that after processing the `todo` levels
built from an arrangement `cur`, the interval `[spos, epos)` of `cur` has shrunk to the number of its elements that
agree with `c` on the bits `< todo`.  One level step is the stable-partition fact `filter_slice`.
Core Lean only.
-/
namespace RbV.Lemmas.Wavelet
open RbV.Model.Wavelet RbV.Spec.RankSelect

/-! ### list facts -/

theorem count_map_eq_countP {α : Type} (q : α → Bool) (b : Bool) (l : List α) :
    (l.map q).count b = l.countP (fun v => q v == b) := by
  induction l with
  | nil => rfl
  | cons x xs ih => simp [List.count_cons, List.countP_cons, ih]

/-- stable partition: the `q`-elements of `l[a..b)` sit, in order, in the interval
`[countP q l[0..a), countP q l[0..b))` of `l.filter q` -/
theorem filter_slice {α : Type} (q : α → Bool) (l : List α) (a b : Nat) (hab : a ≤ b) :
    ((l.filter q).drop ((l.take a).countP q)).take ((l.take b).countP q - (l.take a).countP q)
      = ((l.drop a).take (b - a)).filter q := by
  have hb : l.take b = l.take a ++ (l.drop a).take (b - a) := by
    have : b = a + (b - a) := by omega
    conv => lhs; rw [this]
    exact List.take_add
  have hl : l.filter q = (l.take a).filter q ++ (((l.drop a).take (b - a)).filter q
      ++ ((l.drop a).drop (b - a)).filter q) := by
    rw [← List.filter_append, ← List.filter_append, List.take_append_drop, List.take_append_drop]
  rw [hb, List.countP_append, hl]
  simp only [List.countP_eq_length_filter]
  rw [List.drop_left, Nat.add_sub_cancel_left, List.take_left]

theorem countP_take_mono {α : Type} (q : α → Bool) (l : List α) (a b : Nat) (hab : a ≤ b) :
    (l.take a).countP q ≤ (l.take b).countP q := by
  have hb : l.take b = l.take a ++ (l.drop a).take (b - a) := by
    have : b = a + (b - a) := by omega
    conv => lhs; rw [this]
    exact List.take_add
  rw [hb, List.countP_append]
  omega

theorem countP_take_le {α : Type} (q : α → Bool) (l : List α) (a : Nat) :
    (l.take a).countP q ≤ (l.filter q).length := by
  rw [← List.countP_eq_length_filter]
  conv => rhs; rw [← List.take_append_drop a l]
  rw [List.countP_append]
  omega

/-! ### one level -/

/-- `prank` against the declarative rank of the level's bit vector `cur.map q` counts the entries of
`cur[0..x)` whose bit is `b` -/
theorem prank_eq (q : Nat → Bool) (cur : List Nat) (b : Bool) (x : Nat) (hx : x ≤ cur.length) :
    prank (fun b i => rankRef b (cur.map q) i) x b = (cur.take x).countP (fun v => q v == b) := by
  unfold prank
  split
  · next h => subst h; simp
  · next h =>
    have h1 : x - 1 < (cur.map q).length := by
      simp only [List.length_map]; omega
    have h2 : x - 1 + 1 = x := by omega
    simp only [rankRef, h1, if_true, Option.getD_some, RbV.Spec.RankSelect.rank]
    rw [h2, ← List.map_take, count_map_eq_countP]

theorem length_buildLevels (code : Nat → Nat) (todo : Nat) (cur : List Nat) :
    (buildLevels code todo cur).length = todo := by
  induction todo generalizing cur with
  | zero => rfl
  | succ t ih => simp [buildLevels, ih]

/-! ### all levels -/

/-- `x` and `c` have the same code bits at positions `< t` -/
def agree (code : Nat → Nat) (c : Nat) : Nat → Nat → Bool
  | 0, _ => true
  | t + 1, x => (bitOf code t x == bitOf code t c) && agree code c t x

theorem rankLoop_correct (code : Nat → Nat) (c : Nat) (todo : Nat) :
    ∀ (cur : List Nat) (rk : Nat → Bool → Nat → Option Nat) (level spos epos : Nat),
      (∀ j b i, rk (level + j) b i = rkSpec (buildLevels code todo cur) j b i) →
      spos ≤ epos → epos ≤ cur.length →
      rankLoop code rk c (buildLevels code todo cur) level spos epos
        = (((cur.drop spos).take (epos - spos)).filter (agree code c todo)).length := by
  induction todo with
  | zero =>
    intro cur rk level spos epos _ hse hel
    have : agree code c 0 = fun _ => true := by funext x; rfl
    simp only [buildLevels, rankLoop, this]
    rw [List.filter_eq_self.2 (fun _ _ => rfl), List.length_take, List.length_drop]
    omega
  | succ t ih =>
    intro cur rk level spos epos hrk hse hel
    have hrk0 : rk level = fun b i => rankRef b (cur.map (bitOf code t)) i := by
      funext b i
      have := hrk 0 b i
      simpa [rkSpec, buildLevels] using this
    have hrk' : ∀ j b i, rk (level + 1 + j) b i
        = rkSpec (buildLevels code t
            (cur.filter (fun v => !bitOf code t v) ++ cur.filter (fun v => bitOf code t v))) j b i := by
      intro j b i
      have := hrk (1 + j) b i
      rw [← Nat.add_assoc] at this
      rw [this]
      simp [rkSpec, buildLevels, Nat.add_comm 1 j]
    have hsl : spos ≤ cur.length := Nat.le_trans hse hel
    have hlen : cur.length = (cur.filter (fun v => !bitOf code t v)).length
        + (cur.filter (fun v => bitOf code t v)).length := by
      have := List.length_eq_countP_add_countP (fun v => bitOf code t v) (l := cur)
      simp only [List.countP_eq_length_filter] at this
      rw [this, Nat.add_comm]
      congr 2
      apply List.filter_congr
      intro x _
      cases bitOf code t x <;> rfl
    simp only [buildLevels, rankLoop, length_buildLevels, hrk0]
    rw [prank_eq _ _ _ _ hsl, prank_eq _ _ _ _ hel, prank_eq _ _ _ _ hsl, prank_eq _ _ _ _ hel]
    by_cases hb : bitOf code t c = true
    · simp only [hb, if_true]
      have hq : (fun v => bitOf code t v == true) = (fun v => bitOf code t v) := by
        funext v; cases bitOf code t v <;> rfl
      simp only [hq]
      have hm := countP_take_mono (fun v => bitOf code t v) cur spos epos hse
      have hl := countP_take_le (fun v => bitOf code t v) cur epos
      rw [ih _ rk (level + 1) _ _ hrk' (by omega) (by rw [List.length_append]; omega)]
      have hd : ((cur.filter (fun v => !bitOf code t v) ++ cur.filter (fun v => bitOf code t v)).drop
            ((cur.take spos).countP (fun v => bitOf code t v)
              + (cur.filter (fun v => !bitOf code t v)).length)).take
              ((cur.take epos).countP (fun v => bitOf code t v)
                  + (cur.filter (fun v => !bitOf code t v)).length
                - ((cur.take spos).countP (fun v => bitOf code t v)
                  + (cur.filter (fun v => !bitOf code t v)).length))
          = ((cur.filter (fun v => bitOf code t v)).drop
            ((cur.take spos).countP (fun v => bitOf code t v))).take
              ((cur.take epos).countP (fun v => bitOf code t v)
                - (cur.take spos).countP (fun v => bitOf code t v)) := by
        rw [Nat.add_comm ((cur.take spos).countP _) (List.length _), List.drop_length_add_append]
        congr 1
        omega
      rw [hd, filter_slice _ _ _ _ hse, List.filter_filter]
      congr 1
      apply List.filter_congr
      intro x _
      simp only [agree, hb]
      cases bitOf code t x <;> simp
    · have hb' : bitOf code t c = false := by
        cases h : bitOf code t c
        · rfl
        · exact absurd h hb
      simp only [hb', Bool.false_eq_true, if_false]
      have hq : (fun v => bitOf code t v == false) = (fun v => !bitOf code t v) := by
        funext v; cases bitOf code t v <;> rfl
      simp only [hq]
      have hm := countP_take_mono (fun v => !bitOf code t v) cur spos epos hse
      have hl := countP_take_le (fun v => !bitOf code t v) cur epos
      rw [ih _ rk (level + 1) _ _ hrk' hm (by rw [List.length_append]; omega)]
      have hd : ((cur.filter (fun v => !bitOf code t v) ++ cur.filter (fun v => bitOf code t v)).drop
            ((cur.take spos).countP (fun v => !bitOf code t v))).take
              ((cur.take epos).countP (fun v => !bitOf code t v)
                - (cur.take spos).countP (fun v => !bitOf code t v))
          = ((cur.filter (fun v => !bitOf code t v)).drop
            ((cur.take spos).countP (fun v => !bitOf code t v))).take
              ((cur.take epos).countP (fun v => !bitOf code t v)
                - (cur.take spos).countP (fun v => !bitOf code t v)) := by
        have hs := countP_take_le (fun v => !bitOf code t v) cur spos
        rw [List.drop_append_of_le_length hs, List.take_append_of_le_length]
        rw [List.length_drop]
        omega
      rw [hd, filter_slice _ _ _ _ hse, List.filter_filter]
      congr 1
      apply List.filter_congr
      intro x _
      simp only [agree, hb']
      cases bitOf code t x <;> simp

/-! ### three levels -/

theorem bits3_eq : ∀ a < 8, ∀ b < 8,
    ((((a >>> 2) &&& 1) == 1) == (((b >>> 2) &&& 1) == 1)
      && ((((a >>> 1) &&& 1) == 1) == (((b >>> 1) &&& 1) == 1)
      && ((((a >>> 0) &&& 1) == 1) == (((b >>> 0) &&& 1) == 1) && true))) = (a == b) := by
  decide

theorem agree3 (code : Nat → Nat) (c x : Nat) (hc : code c < 8) (hx : code x < 8) :
    agree code c 3 x = (code x == code c) := by
  simp only [agree, bitOf]
  exact bits3_eq (code x) hx (code c) hc

/-- main theorem: with codes below 8 (three levels), `rank c p` counts the symbols of `text[0..=p]` that have the
same code as `c` -/
theorem rank_correct (code : Nat → Nat) (text : List Nat) (c p : Nat)
    (hp : p < text.length) (hc : code c < 8) (ht : ∀ x ∈ text, code x < 8) :
    rank code (rkSpec (build code text)) (build code text) c p
      = ((text.take (p + 1)).filter (fun x => code x == code c)).length := by
  unfold RbV.Model.Wavelet.rank build
  rw [rankLoop_correct code c 3 text _ 0 0 (p + 1) (by intro j b i; rw [Nat.zero_add]) (by omega) (by omega)]
  simp only [List.drop_zero, Nat.sub_zero]
  congr 1
  apply List.filter_congr
  intro x hx
  exact agree3 code c x hc (ht x (List.mem_of_mem_take hx))

/-- corollary: when the code is injective on the symbols that occur, this is the number of occurrences of `c` -/
theorem rank_eq_occ (code : Nat → Nat) (text : List Nat) (c p : Nat)
    (hp : p < text.length) (hc : code c < 8) (ht : ∀ x ∈ text, code x < 8)
    (hinj : ∀ x ∈ text, code x = code c → x = c) :
    rank code (rkSpec (build code text)) (build code text) c p = occ text c p := by
  rw [rank_correct code text c p hp hc ht, occ, List.count_eq_countP, List.countP_eq_length_filter]
  congr 1
  apply List.filter_congr
  intro x hx
  have hxt := List.mem_of_mem_take hx
  show (code x == code c) = (x == c)
  by_cases h : x = c
  · subst h; simp
  · have h2 : ¬ code x = code c := fun e => h (hinj x hxt e)
    rw [beq_eq_false_iff_ne.2 h2, beq_eq_false_iff_ne.2 h]

end RbV.Lemmas.Wavelet
