import RbV.Lemmas.FillWit
/-!
Completeness side of the refinement proof of `Model/PairwiseFill.lean`: no alignment is missed.

`LB L i j v`: `v` is at least the value (prefix clip penalties included) of *every* alignment of a sub-range
`x[xs..i]` with a sub-range `y[ys..j]` (for the layers `I` / `D`: of those ending with an insertion / deletion).
`LBn i j v`: the same for the alignments that end in row `i` and in a column `ye ≤ j`, `ye < n`, with the y-suffix clip
charged (what `Sn[i]` has to dominate after column `j`).

`cc_all`: every cell of every column satisfies its bound (induction over `j`, inside a column over `i`, the last
operation of the alignment split off with the `score_snoc_*_inv` lemmas); `score_complete`: the reported score
dominates every alignment of every sub-range pair with all four clip penalties.  Only `gap_extend ≤ 0` and
`xclip_suffix ≤ 0` are used; `MIN_SCORE` may be any integer here.

As `docs/notes/C01.md` records for the equivalent mutants m2/m12, completeness needs neither the x-suffix tracker of the
inner columns, nor the "delete y[0..j]" half of `xclip_score`, nor `yclip_score`, nor the second post-loop: the same
alignments are found along another path (clip y first, then x, in the last column).
-/
namespace RbV.Model.PairwiseFill
open RbV.Align

section
variable (sc : Sc) (cl : Clip) (x y : List Nat)

def LB (L : St) (i j : Nat) (v : Int) : Prop :=
  ∀ xs ys ops c, xs ≤ i → ys ≤ j → score sc .none (slice x xs i) (slice y ys j) ops = some c →
    (L = .ins → lastSt .none ops = .ins) → (L = .del → lastSt .none ops = .del) → c + pre cl xs ys ≤ v

def LBn (i j : Nat) (v : Int) : Prop :=
  ∀ xs ys ye ops c, xs ≤ i → ys ≤ ye → ye ≤ j → ye < y.length →
    score sc .none (slice x xs i) (slice y ys ye) ops = some c → c + pre cl xs ys + cl.ys ≤ v

variable {sc cl x y}

/-- the last operation of an alignment of `x[xs..i]` with `y[ys..j]` -/
theorem last_op_cases {xs ys i j : Nat} {ops : List Op} {c : Int} (hi : i ≤ x.length) (hj : j ≤ y.length)
    (hsc : score sc .none (slice x xs i) (slice y ys j) ops = some c) :
    (ops = [] ∧ i ≤ xs ∧ j ≤ ys ∧ c = 0) ∨
    (∃ ops' i' c', ops = ops' ++ [.ins] ∧ i = i' + 1 ∧ xs ≤ i' ∧
      score sc .none (slice x xs i') (slice y ys j) ops' = some c' ∧ c = c' + gapI sc (lastSt .none ops')) ∨
    (∃ ops' j' c', ops = ops' ++ [.del] ∧ j = j' + 1 ∧ ys ≤ j' ∧
      score sc .none (slice x xs i) (slice y ys j') ops' = some c' ∧ c = c' + gapD sc (lastSt .none ops')) ∨
    (∃ ops' i' j' c', lastSt .none ops = .none ∧ i = i' + 1 ∧ j = j' + 1 ∧ xs ≤ i' ∧ ys ≤ j' ∧
      score sc .none (slice x xs i') (slice y ys j') ops' = some c' ∧
      c = c' + sc.w (x.getD i' 0) (y.getD j' 0)) := by
  rcases ops.eq_nil_or_concat with rfl | ⟨ops', o, rfl⟩
  · left
    obtain ⟨h1, h2, h3⟩ := score_nil_inv sc _ _ c hsc
    exact ⟨rfl, (slice_eq_nil_iff x xs i hi).mp h1, (slice_eq_nil_iff y ys j hj).mp h2, h3⟩
  · right
    rw [List.concat_eq_append] at hsc ⊢
    cases o with
    | ins =>
      left
      obtain ⟨X', a, c', hX, hc', hc⟩ := score_snoc_ins_inv sc _ _ ops' c hsc
      obtain ⟨i', rfl, h1, rfl, _⟩ := slice_eq_snoc x xs i hi X' a hX
      exact ⟨ops', i', c', rfl, rfl, h1, hc', hc⟩
    | del =>
      right; left
      obtain ⟨Y', b, c', hY, hc', hc⟩ := score_snoc_del_inv sc _ _ ops' c hsc
      obtain ⟨j', rfl, h1, rfl, _⟩ := slice_eq_snoc y ys j hj Y' b hY
      exact ⟨ops', j', c', rfl, rfl, h1, hc', hc⟩
    | mat =>
      right; right
      obtain ⟨X', a, Y', b, c', hX, hY, hc', hc⟩ := score_snoc_mat_inv sc _ _ ops' c hsc
      obtain ⟨i', rfl, h1, rfl, rfl⟩ := slice_eq_snoc x xs i hi X' a hX
      obtain ⟨j', rfl, h2, rfl, rfl⟩ := slice_eq_snoc y ys j hj Y' b hY
      exact ⟨ops', i', j', c', by rw [lastSt_append_singleton]; rfl, rfl, rfl, h1, h2, hc', hc⟩
    | sub =>
      right; right
      obtain ⟨X', a, Y', b, c', hX, hY, hc', hc⟩ := score_snoc_sub_inv sc _ _ ops' c hsc
      obtain ⟨i', rfl, h1, rfl, rfl⟩ := slice_eq_snoc x xs i hi X' a hX
      obtain ⟨j', rfl, h2, rfl, rfl⟩ := slice_eq_snoc y ys j hj Y' b hY
      exact ⟨ops', i', j', c', by rw [lastSt_append_singleton]; rfl, rfl, rfl, h1, h2, hc', hc⟩

theorem lb_mono {L : St} {i j : Nat} {v v' : Int} (h : LB sc cl x y L i j v) (hv : v ≤ v') :
    LB sc cl x y L i j v' := by
  intro xs ys ops c h1 h2 h3 h4 h5
  have := h xs ys ops c h1 h2 h3 h4 h5
  omega

/-- `I` layer: extend the gap of an alignment ending with an insertion, or open one after anything else
(`hS`: what `v` dominates among the alignments to `(i, j)` that do not end with an insertion) -/
theorem lb_ins_step {i j : Nat} {rI v : Int} (hi : i + 1 ≤ x.length) (hj : j ≤ y.length)
    (hI : LB sc cl x y .ins i j rI) (h1 : rI + sc.ge ≤ v)
    (hS : ∀ xs ys ops c, xs ≤ i → ys ≤ j → score sc .none (slice x xs i) (slice y ys j) ops = some c →
      lastSt .none ops ≠ .ins → c + pre cl xs ys + sc.go + sc.ge ≤ v) :
    LB sc cl x y .ins (i + 1) j v := by
  intro xs ys ops c hxs hys hsc hL _
  have hl := hL rfl
  rcases last_op_cases hi hj hsc with ⟨rfl, _⟩ | ⟨ops', i', c', rfl, hi', h1', hc', hc⟩ |
      ⟨ops', j', c', rfl, _⟩ | ⟨ops', i', j', c', hn, _⟩
  · simp [lastSt] at hl
  · have e : i' = i := by omega
    subst e
    by_cases hlast : lastSt .none ops' = .ins
    · have := hI xs ys ops' c' h1' hys hc' (fun _ => hlast) nofun
      rw [hlast] at hc; simp only [gapI] at hc
      omega
    · have := hS xs ys ops' c' h1' hys hc' hlast
      have hg : gapI sc (lastSt .none ops') = sc.go + sc.ge := by
        cases h : lastSt .none ops' <;> simp_all [gapI]
      omega
  · rw [lastSt_append_singleton] at hl; simp [kind] at hl
  · rw [hn] at hl; cases hl

theorem lb_del_step {i j : Nat} {rD v : Int} (hi : i ≤ x.length) (hj : j + 1 ≤ y.length)
    (hD : LB sc cl x y .del i j rD) (h1 : rD + sc.ge ≤ v)
    (hS : ∀ xs ys ops c, xs ≤ i → ys ≤ j → score sc .none (slice x xs i) (slice y ys j) ops = some c →
      lastSt .none ops ≠ .del → c + pre cl xs ys + sc.go + sc.ge ≤ v) :
    LB sc cl x y .del i (j + 1) v := by
  intro xs ys ops c hxs hys hsc _ hL
  have hl := hL rfl
  rcases last_op_cases hi hj hsc with ⟨rfl, _⟩ | ⟨ops', i', c', rfl, _⟩ |
      ⟨ops', j', c', rfl, hj', h1', hc', hc⟩ | ⟨ops', i', j', c', hn, _⟩
  · simp [lastSt] at hl
  · rw [lastSt_append_singleton] at hl; simp [kind] at hl
  · have e : j' = j := by omega
    subst e
    by_cases hlast : lastSt .none ops' = .del
    · have := hD xs ys ops' c' hxs h1' hc' nofun (fun _ => hlast)
      rw [hlast] at hc; simp only [gapD] at hc
      omega
    · have := hS xs ys ops' c' hxs h1' hc' hlast
      have hg : gapD sc (lastSt .none ops') = sc.go + sc.ge := by
        cases h : lastSt .none ops' <;> simp_all [gapD]
      omega
  · rw [hn] at hl; cases hl

/-- the premise `hS` of `lb_ins_step` / `lb_del_step` from a bound on the `S` cell -/
theorem lb_none_hS {i j : Nat} {rS v : Int} (hS : LB sc cl x y .none i j rS) (h : rS + sc.go + sc.ge ≤ v) (st : St) :
    ∀ xs ys ops c, xs ≤ i → ys ≤ j → score sc .none (slice x xs i) (slice y ys j) ops = some c →
      lastSt .none ops ≠ st → c + pre cl xs ys + sc.go + sc.ge ≤ v := by
  intro xs ys ops c h1 h2 h3 _
  have := hS xs ys ops c h1 h2 h3 nofun nofun
  omega

/-- `S` layer: the empty alignment, a diagonal step, or the `I` / `D` layer of the same cell -/
theorem lb_none_step {i j : Nat} {vI vD pS v : Int} (hi : i + 1 ≤ x.length) (hj : j + 1 ≤ y.length)
    (hI : LB sc cl x y .ins (i + 1) (j + 1) vI) (hD : LB sc cl x y .del (i + 1) (j + 1) vD)
    (hS : LB sc cl x y .none i j pS) (h1 : vI ≤ v) (h2 : vD ≤ v)
    (h3 : pS + sc.w (x.getD i 0) (y.getD j 0) ≤ v) (h4 : cl.xp + cl.yp ≤ v) :
    LB sc cl x y .none (i + 1) (j + 1) v := by
  intro xs ys ops c hxs hys hsc _ _
  rcases last_op_cases hi hj hsc with ⟨rfl, h5, h6, rfl⟩ | ⟨ops', i', c', rfl, _⟩ |
      ⟨ops', j', c', rfl, _⟩ | ⟨ops', i', j', c', hn, hi', hj', h5, h6, hc', hc⟩
  · have : pre cl xs ys = cl.xp + cl.yp := by
      simp only [pre, show 0 < xs by omega, show 0 < ys by omega, if_true]
    omega
  · have := hI xs ys _ c hxs hys hsc (fun _ => lastSt_append_singleton _ _ _) nofun
    omega
  · have := hD xs ys _ c hxs hys hsc nofun (fun _ => lastSt_append_singleton _ _ _)
    omega
  · have e1 : i' = i := by omega
    have e2 : j' = j := by omega
    subst e1; subst e2
    have := hS xs ys ops' c' h5 h6 hc' nofun nofun
    omega

/-- column 0: only insertions -/
theorem lb_none_col0 {i : Nat} {vI v : Int} (hi : i + 1 ≤ x.length)
    (hI : LB sc cl x y .ins (i + 1) 0 vI) (h1 : vI ≤ v) (h4 : cl.xp ≤ v) :
    LB sc cl x y .none (i + 1) 0 v := by
  intro xs ys ops c hxs hys hsc _ _
  rcases last_op_cases hi (Nat.zero_le _) hsc with ⟨rfl, h5, h6, rfl⟩ | ⟨ops', i', c', rfl, _⟩ |
      ⟨ops', j', c', rfl, hj', _⟩ | ⟨ops', i', j', c', hn, hi', hj', _⟩
  · have : pre cl xs ys = cl.xp := by
      simp only [pre, show 0 < xs by omega, show ¬ 0 < ys by omega, if_true, if_false]; omega
    omega
  · have := hI xs ys _ c hxs hys hsc (fun _ => lastSt_append_singleton _ _ _) nofun
    omega
  · omega
  · omega

/-- row 0: only deletions -/
theorem lb_none_row0 {j : Nat} {vD v : Int} (hj : j + 1 ≤ y.length)
    (hD : LB sc cl x y .del 0 (j + 1) vD) (h1 : vD ≤ v) (h4 : cl.yp ≤ v) :
    LB sc cl x y .none 0 (j + 1) v := by
  intro xs ys ops c hxs hys hsc _ _
  rcases last_op_cases (Nat.zero_le _) hj hsc with ⟨rfl, h5, h6, rfl⟩ | ⟨ops', i', c', rfl, hi', _⟩ |
      ⟨ops', j', c', rfl, _⟩ | ⟨ops', i', j', c', hn, hi', hj', _⟩
  · have : pre cl xs ys = cl.yp := by
      simp only [pre, show ¬ 0 < xs by omega, show 0 < ys by omega, if_true, if_false]; omega
    omega
  · omega
  · have := hD xs ys _ c hxs hys hsc nofun (fun _ => lastSt_append_singleton _ _ _)
    omega
  · omega

/-- nothing ends with an insertion in row 0 … -/
theorem lb_ins_row0 (j : Nat) (hj : j ≤ y.length) (v : Int) : LB sc cl x y .ins 0 j v := by
  intro xs ys ops c hxs hys hsc hL _
  have hl := hL rfl
  rcases last_op_cases (Nat.zero_le _) hj hsc with ⟨rfl, _⟩ | ⟨ops', i', c', rfl, hi', _⟩ |
      ⟨ops', j', c', rfl, _⟩ | ⟨ops', i', j', c', hn, hi', _⟩
  · simp [lastSt] at hl
  · omega
  · rw [lastSt_append_singleton] at hl; simp [kind] at hl
  · omega

/-- … or with a deletion in column 0 -/
theorem lb_del_col0 (i : Nat) (hi : i ≤ x.length) (v : Int) : LB sc cl x y .del i 0 v := by
  intro xs ys ops c hxs hys hsc _ hL
  have hl := hL rfl
  rcases last_op_cases hi (Nat.zero_le _) hsc with ⟨rfl, _⟩ | ⟨ops', i', c', rfl, _⟩ |
      ⟨ops', j', c', rfl, hj', _⟩ | ⟨ops', i', j', c', hn, hi', hj', _⟩
  · simp [lastSt] at hl
  · rw [lastSt_append_singleton] at hl; simp [kind] at hl
  · omega
  · omega

theorem lb_none_00 : LB sc cl x y .none 0 0 0 := by
  intro xs ys ops c hxs hys hsc _ _
  rcases last_op_cases (Nat.zero_le _) (Nat.zero_le _) hsc with ⟨rfl, h5, h6, rfl⟩ | ⟨ops', i', c', rfl, hi', _⟩ |
      ⟨ops', j', c', rfl, hj', _⟩ | ⟨ops', i', j', c', hn, hi', _⟩
  · have : pre cl xs ys = 0 := by
      simp only [pre, show ¬ 0 < xs by omega, show ¬ 0 < ys by omega, if_false]; omega
    omega
  · omega
  · omega
  · omega

/-- in column 0 an alignment that does not end with an insertion is empty -/
theorem col0_not_ins {i : Nat} (hi : i ≤ x.length) {v : Int}
    (h : (if 0 < i then cl.xp else 0) + sc.go + sc.ge ≤ v) :
    ∀ xs ys ops c, xs ≤ i → ys ≤ 0 → score sc .none (slice x xs i) (slice y ys 0) ops = some c →
      lastSt .none ops ≠ .ins → c + pre cl xs ys + sc.go + sc.ge ≤ v := by
  intro xs ys ops c hxs hys hsc hl
  rcases last_op_cases hi (Nat.zero_le _) hsc with ⟨rfl, h5, h6, rfl⟩ | ⟨ops', i', c', rfl, _⟩ |
      ⟨ops', j', c', rfl, hj', _⟩ | ⟨ops', i', j', c', hn, hi', hj', _⟩
  · have e : xs = i := by omega
    subst e
    have : pre cl xs ys = (if 0 < xs then cl.xp else 0) := by
      simp only [pre, show ¬ 0 < ys by omega, if_false]; omega
    omega
  · exact absurd (lastSt_append_singleton _ _ _) hl
  · omega
  · omega

/-- in row 0 an alignment that does not end with a deletion is empty -/
theorem row0_not_del {j : Nat} (hj : j ≤ y.length) {v : Int}
    (h : (if 0 < j then cl.yp else 0) + sc.go + sc.ge ≤ v) :
    ∀ xs ys ops c, xs ≤ 0 → ys ≤ j → score sc .none (slice x xs 0) (slice y ys j) ops = some c →
      lastSt .none ops ≠ .del → c + pre cl xs ys + sc.go + sc.ge ≤ v := by
  intro xs ys ops c hxs hys hsc hl
  rcases last_op_cases (Nat.zero_le _) hj hsc with ⟨rfl, h5, h6, rfl⟩ | ⟨ops', i', c', rfl, hi', _⟩ |
      ⟨ops', j', c', rfl, _⟩ | ⟨ops', i', j', c', hn, hi', hj', _⟩
  · have e : ys = j := by omega
    subst e
    have : pre cl xs ys = (if 0 < ys then cl.yp else 0) := by
      simp only [pre, show ¬ 0 < xs by omega, if_false]; omega
    omega
  · omega
  · exact absurd (lastSt_append_singleton _ _ _) hl
  · omega

/-! ### the closed forms of column 0 / row 0 -/

theorem iv0_one : iv0 sc cl 1 = sc.go + sc.ge := by simp [iv0]

theorem iv0_step (hge : sc.ge ≤ 0) (i : Nat) : iv0 sc cl (i + 1) + sc.ge ≤ iv0 sc cl (i + 1 + 1) := by
  cases i with
  | zero =>
    unfold iv0
    rw [if_pos rfl, if_neg (by omega)]
    push_cast; omega
  | succ k =>
    unfold iv0
    rw [if_neg (by omega), if_neg (by omega)]
    have e := mul_succ_int sc.ge (k + 1)
    push_cast at e ⊢
    omega

theorem iv0_clip (i : Nat) : cl.xp + sc.go + sc.ge ≤ iv0 sc cl (i + 1 + 1) := by
  unfold iv0
  rw [if_neg (by omega)]
  omega

theorem dv0_one : dv0 sc cl 1 = sc.go + sc.ge := by simp [dv0]

theorem dv0_step (hge : sc.ge ≤ 0) (j : Nat) : dv0 sc cl (j + 1) + sc.ge ≤ dv0 sc cl (j + 1 + 1) := by
  cases j with
  | zero =>
    unfold dv0
    rw [if_pos rfl, if_neg (by omega)]
    push_cast; omega
  | succ k =>
    unfold dv0
    rw [if_neg (by omega), if_neg (by omega)]
    have e := mul_succ_int sc.ge (k + 1)
    push_cast at e ⊢
    omega

theorem dv0_clip (j : Nat) : cl.yp + sc.go + sc.ge ≤ dv0 sc cl (j + 1 + 1) := by
  unfold dv0
  rw [if_neg (by omega)]
  omega

theorem lb_iv0 (hge : sc.ge ≤ 0) : ∀ i, i + 1 ≤ x.length → LB sc cl x y .ins (i + 1) 0 (iv0 sc cl (i + 1)) := by
  intro i
  induction i with
  | zero =>
    intro hi
    refine lb_ins_step hi (Nat.zero_le _) (lb_ins_row0 0 (Nat.zero_le _) (iv0 sc cl 1 - sc.ge)) ?_
      (col0_not_ins (Nat.zero_le _) ?_)
    · simp only [Nat.zero_add]; omega
    · simp [iv0]
  | succ i ih =>
    intro hi
    refine lb_ins_step hi (Nat.zero_le _) (ih (by omega)) (iv0_step hge i) (col0_not_ins (by omega) ?_)
    rw [if_pos (by omega)]
    exact iv0_clip i

theorem lb_dv0 (hge : sc.ge ≤ 0) : ∀ j, j + 1 ≤ y.length → LB sc cl x y .del 0 (j + 1) (dv0 sc cl (j + 1)) := by
  intro j
  induction j with
  | zero =>
    intro hj
    refine lb_del_step (Nat.zero_le _) hj (lb_del_col0 0 (Nat.zero_le _) (dv0 sc cl 1 - sc.ge)) ?_
      (row0_not_del (Nat.zero_le _) ?_)
    · simp only [Nat.zero_add]; omega
    · simp [dv0]
  | succ j ih =>
    intro hj
    refine lb_del_step (Nat.zero_le _) hj (ih (by omega)) (dv0_step hge j) (row0_not_del (by omega) ?_)
    rw [if_pos (by omega)]
    exact dv0_clip j

/-! ### the cell invariant -/

variable (sc cl x y)

structure CC (j i : Nat) (r : Row) : Prop where
  S : LB sc cl x y .none i j r.s
  I : LB sc cl x y .ins i j r.i
  D : LB sc cl x y .del i j r.d
  Sn : LBn sc cl x y i j r.sn

variable {sc cl x y}

/-- `Sn[i]` after column `j + 1`: what it dominated after column `j`, and `S[j+1][i] + yclip_suffix` -/
theorem lbn_step {i j : Nat} {pSn vS v : Int} (hp : LBn sc cl x y i j pSn) (hS : LB sc cl x y .none i (j + 1) vS)
    (h1 : pSn ≤ v) (h2 : j + 1 < y.length → vS + cl.ys ≤ v) : LBn sc cl x y i (j + 1) v := by
  intro xs ys ye ops c hxs hys hye hyn hsc
  by_cases e : ye = j + 1
  · subst e
    have := hS xs ys ops c hxs hys hsc nofun nofun
    have := h2 hyn
    omega
  · have := hp xs ys ye ops c hxs hys (by omega) hyn hsc
    omega

theorem lbn_zero {i : Nat} {vS v : Int} (hS : LB sc cl x y .none i 0 vS) (h2 : vS + cl.ys ≤ v) :
    LBn sc cl x y i 0 v := by
  intro xs ys ye ops c hxs hys hye hyn hsc
  have e : ye = 0 := by omega
  subst e
  have := hS xs ys ops c hxs hys hsc nofun nofun
  omega

theorem cc_row00 : CC sc cl x y 0 0 (row00 cl x y) := by
  refine ⟨lb_none_00, lb_ins_row0 0 (Nat.zero_le _) _, lb_del_col0 0 (Nat.zero_le _) _, ?_⟩
  exact lbn_zero (lb_none_00 (sc := sc) (cl := cl) (x := x) (y := y)) (by simp [row00])

theorem cc_step0 (hge : sc.ge ≤ 0) (i : Nat) (hi : i + 1 ≤ x.length) (r : Row) :
    CC sc cl x y 0 (i + 1) (step0 sc cl x y (i + 1) r) := by
  rw [step0_eq]
  have hI := lb_iv0 (cl := cl) (y := y) hge i hi
  have hS : LB sc cl x y .none (i + 1) 0
      (max cl.xp (max (iv0 sc cl (i + 1)) (if i + 1 = x.length then r.xm else minScore))) :=
    lb_none_col0 hi hI (by omega) (by omega)
  exact ⟨hS, hI, lb_del_col0 (i + 1) hi _, lbn_zero hS (by dsimp only; omega)⟩

theorem cc_rowJ0 (hge : sc.ge ≤ 0) (j : Nat) (hj : j + 1 ≤ y.length) (p0 : Row)
    (hp : CC sc cl x y j 0 p0) : CC sc cl x y (j + 1) 0 (rowJ0 sc cl x y (j + 1) p0) := by
  rw [rowJ0_eq]
  have hD := lb_dv0 (cl := cl) (x := x) hge j hj
  have hS0 : LB sc cl x y .none 0 (j + 1) (max (dv0 sc cl (j + 1)) cl.yp) :=
    lb_none_row0 hj hD (by omega) (by omega)
  have hS : LB sc cl x y .none 0 (j + 1)
      (if j + 1 = y.length ∧ p0.sn > max (dv0 sc cl (j + 1)) cl.yp then p0.sn else max (dv0 sc cl (j + 1)) cl.yp) :=
    lb_mono hS0 (by split <;> omega)
  refine ⟨hS, lb_ins_row0 (j + 1) hj _, hD, ?_⟩
  refine lbn_step hp.Sn hS0 ?_ ?_
  · dsimp only; split <;> omega
  · intro hlt
    dsimp only
    rw [if_neg (by omega)]
    omega

theorem cc_stepJ (hxs : cl.xs ≤ 0) (j i : Nat) (hj : j + 1 ≤ y.length) (hi : i + 1 ≤ x.length)
    (prev : List Row) (r : Row)
    (hp1 : CC sc cl x y j i (prev.getD i default)) (hp : CC sc cl x y j (i + 1) (prev.getD (i + 1) default))
    (hr : CC sc cl x y (j + 1) i r) :
    CC sc cl x y (j + 1) (i + 1) (stepJ sc cl x y (j + 1) prev (i + 1) r) := by
  rw [stepJ_eq]
  have hI : LB sc cl x y .ins (i + 1) (j + 1) (bestI sc r) :=
    lb_ins_step hi (by omega) hr.I (by unfold bestI; omega) (lb_none_hS hr.S (by unfold bestI; omega) .ins)
  have hD : LB sc cl x y .del (i + 1) (j + 1) (bestD sc (prev.getD (i + 1) default)) :=
    lb_del_step hi hj hp.D (by unfold bestD; omega) (lb_none_hS hp.S (by unfold bestD; omega) .del)
  have hb5 : LB sc cl x y .none (i + 1) (j + 1) (bestS sc cl x y (j + 1) prev (i + 1) r) := by
    refine lb_none_step hi hj hI hD hp1.S ?_ ?_ ?_ ?_
    · unfold bestS; omega
    · unfold bestS; omega
    · unfold bestS; simp only [Nat.add_sub_cancel]; omega
    · unfold bestS; omega
  have hS : LB sc cl x y .none (i + 1) (j + 1)
      (if i + 1 = x.length then
        max (bestS sc cl x y (j + 1) prev (i + 1) r + cl.xs)
          (if i + 1 = x.length then bestS sc cl x y (j + 1) prev (i + 1) r else r.xm)
       else bestS sc cl x y (j + 1) prev (i + 1) r) :=
    lb_mono hb5 (by split <;> omega)
  exact ⟨hS, hI, hD, lbn_step hp.Sn hS (by dsimp only; omega) (by intro _; dsimp only; omega)⟩

/-- **column invariant, completeness side** -/
theorem cc_all (hge : sc.ge ≤ 0) (hxs : cl.xs ≤ 0) : ∀ j, j ≤ y.length → ∀ i, i ≤ x.length →
    CC sc cl x y j i (cell sc cl x y j i) := by
  intro j
  induction j with
  | zero =>
    intro _ i
    cases i with
    | zero => intro _; rw [cell_zero_zero]; exact cc_row00
    | succ i => intro hi; rw [cell_zero_succ _ _ _ _ _ hi]; exact cc_step0 hge i hi _
  | succ j ihj =>
    intro hj i
    induction i with
    | zero => intro _; rw [cell_succ_zero]; exact cc_rowJ0 hge j hj _ (ihj (by omega) 0 (Nat.zero_le _))
    | succ i ih =>
      intro hi
      rw [cell_succ_succ _ _ _ _ _ _ hi]
      exact cc_stepJ hxs j i hj hi _ _ (ihj (by omega) i (by omega)) (ihj (by omega) (i + 1) hi) (ih (by omega))

end

end RbV.Model.PairwiseFill
