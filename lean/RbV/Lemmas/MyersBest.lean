import RbV.Ref.EditDist
import RbV.Basic.RsSemGenlong
/-!
`distance` / `find_best_end` of the Myers matchers from the list `find_all_end(text, MAX)` yields (C09): when no column value
exceeds the threshold, `hitsFrom` lists every end position, its first minimum (`Iterator::min_by_key`: first on ties) is the
reference `firstMin`, and the running minimum of `distance` is its value.  Core Lean only.
-/
namespace RbV.EditDist

/-- the update of `min_by_key`'s fold -/
def updBest (best y : Nat × Nat) : Nat × Nat := if y.2 < best.2 then y else best

/-- the update of `distance`: `if d < dist { dist = d }` -/
def updDist (dist : Nat) (y : Nat × Nat) : Nat := if y.2 < dist then y.2 else dist

theorem foldl_updBest (k : Nat) : ∀ (row : List Nat) (j : Nat) (best : Nat × Nat), (∀ d ∈ row, d ≤ k) →
    (hitsFrom k j row).foldl updBest best =
      match firstMin j row with
      | none => best
      | some y => if best.2 ≤ y.2 then best else y := by
  intro row
  induction row with
  | nil => intro j best _; simp [hitsFrom, firstMin]
  | cons d r ih =>
    intro j best h
    have hd : d ≤ k := h d (by simp)
    have ih' := ih (j + 1) (updBest best (j, d)) (fun x hx => h x (by simp [hx]))
    simp only [hitsFrom, hd, if_true, List.foldl_cons, ih', firstMin]
    cases hf : firstMin (j + 1) r with
    | none =>
      simp only [updBest]
      by_cases h1 : d < best.2
      · simp [h1]; omega
      · simp [h1]
    | some y =>
      obtain ⟨j', d'⟩ := y
      simp only [updBest]
      by_cases h1 : d < best.2 <;> by_cases h2 : d ≤ d' <;> by_cases h3 : best.2 ≤ d' <;>
        simp [h1, h2, h3] <;> omega

theorem foldl_updDist (l : List (Nat × Nat)) : ∀ (best : Nat × Nat), l.foldl updDist best.2 = (l.foldl updBest best).2 := by
  induction l with
  | nil => intro best; rfl
  | cons y l ih =>
    intro best
    simp only [List.foldl_cons]
    have : updDist best.2 y = (updBest best y).2 := by
      simp only [updDist, updBest]; split <;> rfl
    rw [this, ih]

/-- `find_best_end`: the first minimum of everything `find_all_end` lists = the reference `firstMin` -/
theorem minByKeySnd_hitsFrom (k : Nat) (row : List Nat) (j : Nat) (h : ∀ d ∈ row, d ≤ k) :
    RbV.Rs.minByKeySnd (hitsFrom k j row) = firstMin j row := by
  cases row with
  | nil => simp [hitsFrom, firstMin, RbV.Rs.minByKeySnd]
  | cons d r =>
    have hd : d ≤ k := h d (by simp)
    have := foldl_updBest k r (j + 1) (j, d) (fun x hx => h x (by simp [hx]))
    simp only [hitsFrom, hd, if_true, RbV.Rs.minByKeySnd, firstMin]
    have hfun : (fun (best y : Nat × Nat) => if y.2 < best.2 then y else best) = updBest := rfl
    rw [hfun, this]
    cases firstMin (j + 1) r with
    | none => rfl
    | some y => obtain ⟨j', d'⟩ := y; simp only; split <;> rfl

/-- `distance`: the running minimum over everything `find_all_end` lists = the value of `firstMin` -/
theorem foldl_updDist_hitsFrom (k : Nat) (row : List Nat) (j d0 : Nat) (h : ∀ d ∈ row, d ≤ k) (h0 : ∀ d ∈ row, d ≤ d0) :
    (hitsFrom k j row).foldl updDist d0 = ((firstMin j row).map (·.2)).getD d0 := by
  have h1 := foldl_updDist (hitsFrom k j row) (0, d0)
  simp only at h1
  rw [h1, foldl_updBest k row j (0, d0) h]
  cases hf : firstMin j row with
  | none => rfl
  | some y =>
    simp only [Option.map_some, Option.getD_some]
    have hy : y.2 ≤ d0 := by
      obtain ⟨j', d'⟩ := y
      obtain ⟨_, h2, _, _⟩ := firstMin_spec row j j' d' hf
      exact h0 d' (List.mem_of_getElem? h2)
    by_cases hc : d0 ≤ y.2
    · simp [hc]; omega
    · simp [hc]

end RbV.EditDist
