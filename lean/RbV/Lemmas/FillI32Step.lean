import RbV.Model.PairwiseFillI32
import RbV.Lemmas.FillCells
/-!
`custom_i32_no_overflow` (`Thm/C01.lean`), step lemmas: inside the numeric envelope `Num` every loop body of the
checked-`i32` mirror `Model/PairwiseFillI32.lean` succeeds and returns what the unbounded body returns (`*_eq`), and the
unbounded bodies keep the value ranges `RB` / `PB` on which that rests (`*_RB`, `*_PB`).  Core Lean only.

Ranges (`u` = `i·B` for row `i`): `MIN_SCORE ≤ S, Sn, S[curr][m] ≤ u`, `MIN_SCORE − 2B ≤ I, D ≤ u`; every intermediate sum
lies in `[2·MIN_SCORE, u + B]` or in `[MIN_SCORE − G − B, …]` or `[MIN_SCORE − 3B, …]` with `G = max(m, n)·B ≥ −gap_extend·k`.
-/
namespace RbV.Model.PairwiseFill
open RbV.Align RbV.I32

structure Num (sc : Sc) (cl : Clip) (B G : Int) : Prop where
  B1 : 1 ≤ B
  go : -B ≤ sc.go ∧ sc.go ≤ 0
  ge : -B ≤ sc.ge ∧ sc.ge ≤ 0
  xp : minScore ≤ cl.xp ∧ cl.xp ≤ 0
  xs : minScore ≤ cl.xs ∧ cl.xs ≤ 0
  yp : minScore ≤ cl.yp ∧ cl.yp ≤ 0
  ys : minScore ≤ cl.ys ∧ cl.ys ≤ 0
  G0 : 0 ≤ G
  room : G + B ≤ 2147483648 + minScore

structure Idx (sc : Sc) (B G : Int) (k : Nat) : Prop where
  BG : B ≤ G
  lo : -G ≤ sc.ge * (k : Int)
  hi : sc.ge * (k : Int) ≤ 0
  cast : ofUsize k = (k : Int)

theorem minScore_i32 : -2147483648 ≤ minScore + minScore ∧ minScore < 0 := by decide

structure RB (B u : Int) (r : Row) : Prop where
  s : minScore ≤ r.s ∧ r.s ≤ u
  i : minScore - 2 * B ≤ r.i ∧ r.i ≤ u
  d : minScore - 2 * B ≤ r.d ∧ r.d ≤ u
  sn : minScore ≤ r.sn ∧ r.sn ≤ u
  xm : minScore ≤ r.xm ∧ r.xm ≤ u

variable {sc : Sc} {cl : Clip} {x y : List Nat} {B G : Int}

/-- closes range goals over nested `if`s -/
macro "bnd" : tactic =>
  `(tactic| first | omega | (split <;> first | omega | (split <;> first | omega | (split <;> first | omega | (split <;> omega)))))

theorem upd_bounds {lo hi cand cur : Int} (h1 : lo ≤ cur) (h2 : cur ≤ hi) (h3 : cand ≤ hi) :
    lo ≤ upd cand cur ∧ upd cand cur ≤ hi := by
  unfold upd; split <;> omega

theorem stepJC_eq (N : Num sc cl B G) {i j : Nat} (Ii : Idx sc B G i) (Ij : Idx sc B G j) (prev : List Row) (r : Row)
    {u : Int} (hu0 : 0 ≤ u) (huG : u + B ≤ G)
    (hr : RB B u r) (hp1 : RB B u (prev.getD (i - 1) default)) (hp : RB B (u + B) (prev.getD i default))
    (hw : -B ≤ sc.w (x.getD (i - 1) 0) (y.getD (j - 1) 0) ∧ sc.w (x.getD (i - 1) 0) (y.getD (j - 1) 0) ≤ B)
    (h3 : 3 * B ≤ 2147483648 + minScore ∨ (r.i = minScore ∧ (prev.getD i default).d = minScore)) :
    stepJC sc cl x y j prev (cl.xp + max cl.yp (sc.go + sc.ge * (j : Int))) i r = some (stepJ sc cl x y j prev i r) := by
  obtain ⟨hB1, hgo, hge, hxp, hxs, hyp, hys, hG0, hroom⟩ := N
  obtain ⟨hBG, hilo, hihi, hicast⟩ := Ii
  obtain ⟨_, hjlo, hjhi, _⟩ := Ij
  obtain ⟨hrs, hri, hrd, hrsn, hrxm⟩ := hr
  obtain ⟨hp1s, _, _, _, _⟩ := hp1
  obtain ⟨hps, hpi, hpd, hpsn, hpxm⟩ := hp
  have hms := minScore_i32
  have hmul : mul sc.ge (i : Int) = some (sc.ge * (i : Int)) := mul_ok (by unfold InRange; omega)
  simp only [stepJC, stepJ, openC, hicast, hmul]
  generalize (prev.getD (i - 1) default).s = a1 at *
  generalize sc.w (x.getD (i - 1) 0) (y.getD (j - 1) 0) = w at *
  generalize (prev.getD i default).s = ps at *
  generalize (prev.getD i default).d = pd at *
  generalize (prev.getD i default).sn = psn at *
  generalize sc.ge * (i : Int) = gi at *
  generalize sc.ge * (j : Int) = gj at *
  have R : ∀ {a b : Int}, -2147483648 ≤ a + b → a + b ≤ 2147483647 → add a b = some (a + b) :=
    fun h1 h2 => add_ok ⟨h1, h2⟩
  rw [R (by omega) (by omega)]; simp only []   -- m_score
  rw [R (by omega) (by omega)]; simp only []   -- i_score
  rw [R (a := r.s) (by omega) (by omega)]; simp only []
  rw [R (by omega) (by omega)]; simp only []   -- s_score
  rw [R (by omega) (by omega)]; simp only []   -- d_score
  rw [R (a := ps) (by omega) (by omega)]; simp only []
  rw [R (by omega) (by omega)]; simp only []   -- s_score2
  rw [R (by omega) (by omega)]; simp only []   -- y0
  rw [R (by omega) (by omega)]; simp only []   -- yclip_score
  have hb0 : minScore ≤ (if i = x.length then r.xm else minScore) ∧ (if i = x.length then r.xm else minScore) ≤ u + B := by
    split <;> omega
  generalize (if i = x.length then r.xm else minScore) = b0 at *
  have hb1 := upd_bounds (cand := a1 + w) hb0.1 hb0.2 (by omega)
  generalize upd (a1 + w) b0 = b1 at *
  have hbi : minScore - 2 * B ≤ (if r.i + sc.ge > r.s + sc.go + sc.ge then r.i + sc.ge else r.s + sc.go + sc.ge) ∧
      (if r.i + sc.ge > r.s + sc.go + sc.ge then r.i + sc.ge else r.s + sc.go + sc.ge) ≤ u + B := by split <;> omega
  generalize (if r.i + sc.ge > r.s + sc.go + sc.ge then r.i + sc.ge else r.s + sc.go + sc.ge) = bi at *
  have hb2 := upd_bounds (cand := bi) hb1.1 hb1.2 (by omega)
  generalize upd bi b1 = b2 at *
  have hbd : minScore - 2 * B ≤ (if pd + sc.ge > ps + sc.go + sc.ge then pd + sc.ge else ps + sc.go + sc.ge) ∧
      (if pd + sc.ge > ps + sc.go + sc.ge then pd + sc.ge else ps + sc.go + sc.ge) ≤ u + B := by split <;> omega
  generalize (if pd + sc.ge > ps + sc.go + sc.ge then pd + sc.ge else ps + sc.go + sc.ge) = bd at *
  have hb3 := upd_bounds (cand := bd) hb2.1 hb2.2 (by omega)
  generalize upd bd b2 = b3 at *
  have hb4 := upd_bounds (cand := cl.xp + max cl.yp (sc.go + gj)) hb3.1 hb3.2 (by omega)
  generalize upd (cl.xp + max cl.yp (sc.go + gj)) b3 = b4 at *
  have hb5 := upd_bounds (cand := cl.yp + sc.go + gi) hb4.1 hb4.2 (by omega)
  generalize upd (cl.yp + sc.go + gi) b4 = b5 at *
  rw [R (by omega) (by omega)]; simp only []   -- cx
  have hxm1 : minScore ≤ (if i = x.length then b5 else r.xm) ∧ (if i = x.length then b5 else r.xm) ≤ u + B := by
    split <;> omega
  generalize (if i = x.length then b5 else r.xm) = xm1 at *
  have hxm2 := upd_bounds (cand := b5 + cl.xs) hxm1.1 hxm1.2 (by omega)
  generalize upd (b5 + cl.xs) xm1 = xm2 at *
  have hs : minScore ≤ (if i = x.length then xm2 else b5) ∧ (if i = x.length then xm2 else b5) ≤ u + B := by
    split <;> omega
  generalize (if i = x.length then xm2 else b5) = s at *
  rw [R (by omega) (by omega)]

/-- the unbounded value `I[0][i]` / `D[j][0]` and its code -/
def edgeV (sc : Sc) (c : Int) (k : Nat) : Int :=
  if k = 1 then sc.go + sc.ge else if sc.go + sc.ge * (k : Int) > c + sc.go + sc.ge then sc.go + sc.ge * (k : Int) else c + sc.go + sc.ge
def edgeT (sc : Sc) (c : Int) (g cc : Tb) (k : Nat) : Tb :=
  if k = 1 then .start else if sc.go + sc.ge * (k : Int) > c + sc.go + sc.ge then g else cc

theorem edgeC_eq (N : Num sc cl B G) {k : Nat} (I : Idx sc B G k) {c : Int} (hc : minScore ≤ c ∧ c ≤ 0) (g cc : Tb) :
    edgeC sc c g cc k = some (edgeV sc c k, edgeT sc c g cc k) := by
  obtain ⟨hB1, hgo, hge, hxp, hxs, hyp, hys, hG0, hroom⟩ := N
  obtain ⟨hBG, hilo, hihi, hicast⟩ := I
  have hms := minScore_i32
  have R : ∀ {a b : Int}, -2147483648 ≤ a + b → a + b ≤ 2147483647 → add a b = some (a + b) :=
    fun h1 h2 => add_ok ⟨h1, h2⟩
  have hmul : mul sc.ge (k : Int) = some (sc.ge * (k : Int)) := mul_ok (by unfold InRange; omega)
  unfold edgeC edgeV edgeT
  by_cases h1 : k = 1
  · simp only [h1, if_true]
    rw [R (by omega) (by omega)]
  · simp only [h1, if_false, hicast, hmul]
    rw [R (by omega) (by omega)]; simp only []
    rw [R (by omega) (by omega)]; simp only []
    rw [R (by omega) (by omega)]; simp only []
    split <;> rfl

theorem edgeV_bounds (N : Num sc cl B G) {k : Nat} (I : Idx sc B G k) {c : Int} (hc : minScore ≤ c ∧ c ≤ 0) :
    minScore - 2 * B ≤ edgeV sc c k ∧ edgeV sc c k ≤ 0 := by
  obtain ⟨hB1, hgo, hge, hxp, hxs, hyp, hys, hG0, hroom⟩ := N
  obtain ⟨hBG, hilo, hihi, hicast⟩ := I
  have hms := minScore_i32
  unfold edgeV
  split
  · omega
  · split <;> omega

theorem step0C_eq (N : Num sc cl B G) {i : Nat} (Ii : Idx sc B G i) (r : Row) {u : Int} (hu0 : 0 ≤ u) (huG : u ≤ G)
    (hr : RB B u r) : step0C sc cl x y i r = some (step0 sc cl x y i r) := by
  have he := edgeC_eq N Ii N.xp .ins .xpre
  have hev := edgeV_bounds N Ii N.xp
  obtain ⟨hB1, hgo, hge, hxp, hxs, hyp, hys, hG0, hroom⟩ := N
  obtain ⟨hBG, hilo, hihi, hicast⟩ := Ii
  obtain ⟨hrs, hri, hrd, hrsn, hrxm⟩ := hr
  have hms := minScore_i32
  have R : ∀ {a b : Int}, -2147483648 ≤ a + b → a + b ≤ 2147483647 → add a b = some (a + b) :=
    fun h1 h2 => add_ok ⟨h1, h2⟩
  simp only [step0C, he]
  have e1 : edgeV sc cl.xp i = (if i = 1 then sc.go + sc.ge else if sc.go + sc.ge * (i : Int) > cl.xp + sc.go + sc.ge
      then sc.go + sc.ge * (i : Int) else cl.xp + sc.go + sc.ge) := rfl
  have e2 : edgeT sc cl.xp .ins .xpre i = (if i = 1 then Tb.start else if sc.go + sc.ge * (i : Int) > cl.xp + sc.go + sc.ge
      then Tb.ins else Tb.xpre) := rfl
  simp only [step0, ← e1, ← e2]
  generalize edgeV sc cl.xp i = iv at *
  have hb0 : minScore ≤ (if i = x.length then r.xm else minScore) ∧ (if i = x.length then r.xm else minScore) ≤ u := by
    split <;> omega
  generalize (if i = x.length then r.xm else minScore) = b0 at *
  have hs1 := upd_bounds (cand := iv) hb0.1 hb0.2 (by omega)
  generalize upd iv b0 = s1 at *
  have hs2 := upd_bounds (cand := cl.xp) hs1.1 hs1.2 (by omega)
  generalize upd cl.xp s1 = s2 at *
  by_cases him : i = x.length
  · simp only [him, if_true, ne_eq, not_true_eq_false, false_and, if_false]
    rw [R (by omega) (by omega)]
  · simp only [him, if_false, ne_eq, not_false_eq_true, true_and]
    rw [R (by omega) (by omega)]; simp only []
    rw [R (by omega) (by omega)]

theorem rowJ0C_eq (N : Num sc cl B G) {j : Nat} (Ij : Idx sc B G j) (p0 : Row) (hp : RB B 0 p0) :
    rowJ0C sc cl x y j p0 = some (rowJ0 sc cl x y j p0) := by
  have he := edgeC_eq N Ij N.yp .del .ypre
  have hev := edgeV_bounds N Ij N.yp
  obtain ⟨hB1, hgo, hge, hxp, hxs, hyp, hys, hG0, hroom⟩ := N
  obtain ⟨hps, hpi, hpd, hpsn, hpxm⟩ := hp
  have hms := minScore_i32
  have R : ∀ {a b : Int}, -2147483648 ≤ a + b → a + b ≤ 2147483647 → add a b = some (a + b) :=
    fun h1 h2 => add_ok ⟨h1, h2⟩
  simp only [rowJ0C, he]
  have e1 : edgeV sc cl.yp j = (if j = 1 then sc.go + sc.ge else if sc.go + sc.ge * (j : Int) > cl.yp + sc.go + sc.ge
      then sc.go + sc.ge * (j : Int) else cl.yp + sc.go + sc.ge) := rfl
  have e2 : edgeT sc cl.yp .del .ypre j = (if j = 1 then Tb.start else if sc.go + sc.ge * (j : Int) > cl.yp + sc.go + sc.ge
      then Tb.del else Tb.ypre) := rfl
  simp only [rowJ0, ← e1, ← e2]
  generalize edgeV sc cl.yp j = d0 at *
  have hs0 : minScore ≤ (if d0 > cl.yp then d0 else cl.yp) ∧ (if d0 > cl.yp then d0 else cl.yp) ≤ 0 := by
    split <;> omega
  generalize (if d0 > cl.yp then d0 else cl.yp) = s0 at *
  by_cases hc : j = y.length ∧ p0.sn > s0
  · simp only [hc, if_true, and_self]
  · simp only [hc, if_false]
    rw [R (by omega) (by omega)]

theorem xclipC_eq (N : Num sc cl B G) {j : Nat} (Ij : Idx sc B G j) :
    xclipC sc cl j = some (cl.xp + max cl.yp (sc.go + sc.ge * (j : Int))) := by
  obtain ⟨hB1, hgo, hge, hxp, hxs, hyp, hys, hG0, hroom⟩ := N
  obtain ⟨hBG, hilo, hihi, hicast⟩ := Ij
  have hms := minScore_i32
  have R : ∀ {a b : Int}, -2147483648 ≤ a + b → a + b ≤ 2147483647 → add a b = some (a + b) :=
    fun h1 h2 => add_ok ⟨h1, h2⟩
  have hmul : mul sc.ge (j : Int) = some (sc.ge * (j : Int)) := mul_ok (by unfold InRange; omega)
  simp only [xclipC, hicast, hmul]
  rw [R (by omega) (by omega)]; simp only []
  rw [R (by omega) (by omega)]


/-! ### the unbounded bodies keep the ranges -/

theorem RB.mono {r : Row} {u u' : Int} (h : RB B u r) (hu : u ≤ u') : RB B u' r := by
  obtain ⟨h1, h2, h3, h4, h5⟩ := h
  exact ⟨⟨h1.1, by omega⟩, ⟨h2.1, by omega⟩, ⟨h3.1, by omega⟩, ⟨h4.1, by omega⟩, ⟨h5.1, by omega⟩⟩

theorem row00_RB (N : Num sc cl B G) : RB B 0 (row00 cl x y) := by
  obtain ⟨hB1, hgo, hge, hxp, hxs, hyp, hys, hG0, hroom⟩ := N
  have hms := minScore_i32
  refine ⟨?_, ?_, ?_, ?_, ?_⟩ <;> simp only [row00]
  · omega
  · omega
  · omega
  · omega
  · split <;> omega

theorem iv0_eq_edgeV (i : Nat) : iv0 sc cl i = edgeV sc cl.xp i := by
  unfold iv0 edgeV; split
  · rfl
  · split <;> omega

theorem dv0_eq_edgeV (j : Nat) : dv0 sc cl j = edgeV sc cl.yp j := by
  unfold dv0 edgeV; split
  · rfl
  · split <;> omega

theorem step0_RB (N : Num sc cl B G) {i : Nat} (Ii : Idx sc B G i) (r : Row) {u : Int} (hu0 : 0 ≤ u)
    (hr : RB B u r) : RB B u (step0 sc cl x y i r) := by
  have hev := edgeV_bounds N Ii N.xp
  obtain ⟨hB1, hgo, hge, hxp, hxs, hyp, hys, hG0, hroom⟩ := N
  obtain ⟨hrs, hri, hrd, hrsn, hrxm⟩ := hr
  have hms := minScore_i32
  rw [step0_eq, iv0_eq_edgeV]
  generalize edgeV sc cl.xp i = iv at *
  have hb0 : minScore ≤ (if i = x.length then r.xm else minScore) ∧ (if i = x.length then r.xm else minScore) ≤ u := by
    split <;> omega
  generalize (if i = x.length then r.xm else minScore) = b0 at *
  refine ⟨?_, ?_, ?_, ?_, ?_⟩ <;> dsimp only
  · omega
  · omega
  · omega
  · omega
  · split <;> omega

theorem rowJ0_RB (N : Num sc cl B G) {j : Nat} (Ij : Idx sc B G j) (p0 : Row) (hp : RB B 0 p0) :
    RB B 0 (rowJ0 sc cl x y j p0) := by
  have hev := edgeV_bounds N Ij N.yp
  obtain ⟨hB1, hgo, hge, hxp, hxs, hyp, hys, hG0, hroom⟩ := N
  obtain ⟨hps, hpi, hpd, hpsn, hpxm⟩ := hp
  have hms := minScore_i32
  rw [rowJ0_eq, dv0_eq_edgeV]
  generalize edgeV sc cl.yp j = d0 at *
  refine ⟨?_, ?_, ?_, ?_, ?_⟩ <;> dsimp only
  · split <;> omega
  · omega
  · omega
  · split <;> omega
  · split
    · split <;> omega
    · omega

theorem stepJ_RB (N : Num sc cl B G) {i j : Nat} (Ii : Idx sc B G i) (Ij : Idx sc B G j) (prev : List Row) (r : Row)
    {u : Int} (hu0 : 0 ≤ u)
    (hr : RB B u r) (hp1 : RB B u (prev.getD (i - 1) default)) (hp : RB B (u + B) (prev.getD i default))
    (hw : sc.w (x.getD (i - 1) 0) (y.getD (j - 1) 0) ≤ B) :
    RB B (u + B) (stepJ sc cl x y j prev i r) := by
  obtain ⟨hB1, hgo, hge, hxp, hxs, hyp, hys, hG0, hroom⟩ := N
  obtain ⟨hBG, hilo, hihi, hicast⟩ := Ii
  obtain ⟨_, hjlo, hjhi, _⟩ := Ij
  obtain ⟨hrs, hri, hrd, hrsn, hrxm⟩ := hr
  obtain ⟨hp1s, _, _, _, _⟩ := hp1
  obtain ⟨hps, hpi, hpd, hpsn, hpxm⟩ := hp
  have hms := minScore_i32
  rw [stepJ_eq]
  have hbI : minScore - 2 * B ≤ bestI sc r ∧ bestI sc r ≤ u := by unfold bestI; omega
  have hbD : minScore - 2 * B ≤ bestD sc (prev.getD i default) ∧ bestD sc (prev.getD i default) ≤ u + B := by
    unfold bestD; omega
  have hb0 : minScore ≤ (if i = x.length then r.xm else minScore) ∧ (if i = x.length then r.xm else minScore) ≤ u := by
    split <;> omega
  have hbS : minScore ≤ bestS sc cl x y j prev i r ∧ bestS sc cl x y j prev i r ≤ u + B := by
    unfold bestS
    generalize bestI sc r = bi at *
    generalize bestD sc (prev.getD i default) = bd at *
    generalize (if i = x.length then r.xm else minScore) = b0 at *
    generalize sc.ge * (i : Int) = gi at *
    generalize sc.ge * (j : Int) = gj at *
    omega
  generalize bestI sc r = bi at *
  generalize bestD sc (prev.getD i default) = bd at *
  generalize bestS sc cl x y j prev i r = b5 at *
  have hxm1 : minScore ≤ (if i = x.length then b5 else r.xm) ∧ (if i = x.length then b5 else r.xm) ≤ u + B := by
    split <;> omega
  generalize (if i = x.length then b5 else r.xm) = xm1 at *
  refine ⟨?_, ?_, ?_, ?_, ?_⟩ <;> dsimp only
  · split <;> omega
  · omega
  · omega
  · have : minScore ≤ (if i = x.length then max (b5 + cl.xs) xm1 else b5) ∧
        (if i = x.length then max (b5 + cl.xs) xm1 else b5) ≤ u + B := by split <;> omega
    omega
  · omega

/-! ### the loops over the last column -/

/-- ranges of the state of the post-loops -/
structure PB (U : Int) (p : PSt) : Prop where
  s : minScore ≤ p.s ∧ p.s ≤ U
  xm : minScore ≤ p.xm ∧ p.xm ≤ U

theorem post1StepC_eq (N : Num sc cl B G) (col : List Row) (i : Nat) (p : PSt) {U : Int} (hU : U ≤ G)
    (hp : minScore ≤ p.xm ∧ p.xm ≤ U) (hr : RB B U (col.getD i default)) :
    post1StepC cl x col i p = some (post1Step cl x col i p) ∧ PB U (post1Step cl x col i p) := by
  obtain ⟨hB1, hgo, hge, hxp, hxs, hyp, hys, hG0, hroom⟩ := N
  obtain ⟨hrs, hri, hrd, hrsn, hrxm⟩ := hr
  have hms := minScore_i32
  have R : ∀ {a b : Int}, -2147483648 ≤ a + b → a + b ≤ 2147483647 → add a b = some (a + b) :=
    fun h1 h2 => add_ok ⟨h1, h2⟩
  have hcur : minScore ≤ (if i = x.length then p.xm else (col.getD i default).s) ∧
      (if i = x.length then p.xm else (col.getD i default).s) ≤ U := by split <;> omega
  constructor
  · simp only [post1StepC, post1Step]
    generalize (if i = x.length then p.xm else (col.getD i default).s) = cur at *
    have hs1 := upd_bounds (cand := (col.getD i default).sn) hcur.1 hcur.2 (by omega)
    generalize upd (col.getD i default).sn cur = s1 at *
    rw [R (by omega) (by omega)]
  · rw [post1Step_eq]
    generalize (if i = x.length then p.xm else (col.getD i default).s) = cur at *
    refine ⟨?_, ?_⟩ <;> dsimp only
    · bnd
    · bnd

theorem post2StepC_eq (N : Num sc cl B G) (hBG : B ≤ G) (s1 : List PSt) (i : Nat) (p : PSt) {U : Int} (hU : U ≤ G)
    (hp : PB U p) (hq : minScore ≤ (s1.getD i default).s ∧ (s1.getD i default).s ≤ U) :
    post2StepC sc cl x s1 i p = some (post2Step sc cl x s1 i p) ∧ PB U (post2Step sc cl x s1 i p) := by
  obtain ⟨hB1, hgo, hge, hxp, hxs, hyp, hys, hG0, hroom⟩ := N
  obtain ⟨hps, hpxm⟩ := hp
  have hms := minScore_i32
  have R : ∀ {a b : Int}, -2147483648 ≤ a + b → a + b ≤ 2147483647 → add a b = some (a + b) :=
    fun h1 h2 => add_ok ⟨h1, h2⟩
  have hcur : minScore ≤ (if i = x.length then p.xm else (s1.getD i default).s) ∧
      (if i = x.length then p.xm else (s1.getD i default).s) ≤ U := by split <;> omega
  simp only [post2StepC, post2Step, openC]
  rw [R (a := p.s) (by omega) (by omega)]; simp only []
  rw [R (by omega) (by omega)]; simp only []
  generalize (if i = x.length then p.xm else (s1.getD i default).s) = cur at *
  by_cases hc : p.s + sc.go + sc.ge > cur
  · simp only [hc, if_true]
    rw [R (by omega) (by omega)]
    refine ⟨rfl, ?_, ?_⟩ <;> dsimp only <;> simp only [upd]
    · bnd
    · bnd
  · simp only [hc, if_false]
    exact ⟨trivial, ⟨by dsimp only; omega, by dsimp only; omega⟩⟩

end RbV.Model.PairwiseFill
