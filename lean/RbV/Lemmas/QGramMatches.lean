import RbV.Model.QGramMatches
import RbV.Lemmas.QGram
/-! The model of `matches` reports exactly the records of `matchesRef`. Core Lean only. -/
namespace RbV.QGram
open RbV

/-! ### min / max of ascending lists -/

theorem foldl_min_eq {l : List Nat} {a : Nat} (h : ∀ x ∈ l, a ≤ x) : l.foldl min a = a := by
  induction l with
  | nil => rfl
  | cons b l ih =>
    simp only [List.foldl_cons]
    have : min a b = a := Nat.min_eq_left (h b (by simp))
    rw [this]; exact ih (fun x hx => h x (by simp [hx]))

theorem foldl_max_eq_getLast (l : List Nat) (a : Nat) (h : (a :: l).Pairwise (· ≤ ·)) :
    l.foldl max a = (a :: l).getLast (by simp) := by
  induction l generalizing a with
  | nil => rfl
  | cons b l ih =>
    rw [List.pairwise_cons] at h
    simp only [List.foldl_cons]
    have : max a b = b := Nat.max_eq_right (h.1 b (by simp))
    rw [this, ih b h.2]
    simp [List.getLast_cons]

/-! ### summary of one diagonal -/

def onDiag (d : Int) (H : List (Nat × Nat)) : List (Nat × Nat) := H.filter (fun h => diag h = d)

/-- first hit, last hit and number of hits of diagonal `d`, in list order -/
def summary (q : Nat) (H : List (Nat × Nat)) (d : Int) : Option MatchRec :=
  match onDiag d H with
  | [] => none
  | h0 :: rest =>
    let hl := (h0 :: rest).getLast (by simp)
    some (h0.1, hl.1 + q, h0.2, hl.2 + q, (h0 :: rest).length)

theorem onDiag_append (d : Int) (H : List (Nat × Nat)) (h : Nat × Nat) :
    onDiag d (H ++ [h]) = onDiag d H ++ (if diag h = d then [h] else []) := by
  unfold onDiag
  rw [List.filter_append]
  congr 1
  simp only [List.filter]
  split <;> rename_i hh <;> simp at hh <;> simp [hh]

theorem summary_snoc (q : Nat) (H : List (Nat × Nat)) (h : Nat × Nat) (d : Int) :
    summary q (H ++ [h]) d =
      if diag h = d then
        (match summary q H d with
         | none => some (fresh q h)
         | some r => some (bump q h r))
      else summary q H d := by
  unfold summary
  rw [onDiag_append]
  by_cases hd : diag h = d
  · simp only [hd, if_true]
    cases hH : onDiag d H with
    | nil => simp [fresh]
    | cons h0 rest =>
      simp only [List.cons_append, bump]
      congr 1
      simp [List.getLast_cons]
  · simp only [hd, if_false, List.append_nil]

/-! ### the fold -/

def Keys (T : List (Int × MatchRec)) : List Int := T.map (·.1)

theorem lookupD_none_iff (d : Int) (T : List (Int × MatchRec)) : lookupD d T = none ↔ d ∉ Keys T := by
  induction T with
  | nil => simp [lookupD, Keys]
  | cons e T ih =>
    simp only [lookupD, Keys, List.map_cons, List.mem_cons, not_or]
    split
    · rename_i h; simp [h]
    · rename_i h
      rw [ih]; unfold Keys
      constructor
      · intro h'; exact ⟨fun hh => h hh.symm, h'⟩
      · intro h'; exact h'.2

theorem lookupD_append (d : Int) (T : List (Int × MatchRec)) (e : Int × MatchRec) :
    lookupD d (T ++ [e]) = match lookupD d T with
      | some r => some r
      | none => if e.1 = d then some e.2 else none := by
  induction T with
  | nil => simp [lookupD]
  | cons a T ih =>
    simp only [List.cons_append, lookupD]
    split
    · rfl
    · exact ih

theorem lookupD_map (d d0 : Int) (f : MatchRec → MatchRec) (T : List (Int × MatchRec)) :
    lookupD d (T.map fun e => if e.1 = d0 then (e.1, f e.2) else e) =
      if d = d0 then (lookupD d T).map f else lookupD d T := by
  induction T with
  | nil => simp [lookupD]
  | cons a T ih =>
    simp only [List.map_cons, lookupD]
    by_cases h1 : a.1 = d0
    · simp only [h1, if_true]
      by_cases h2 : d0 = d
      · simp [h2]
      · have h2' : ¬ d = d0 := fun hh => h2 hh.symm
        simp only [h2, if_false, h2']
        rw [ih]; simp [h2']
    · simp only [h1, if_false]
      by_cases h2 : a.1 = d
      · have : ¬ d = d0 := by intro hh; rw [hh] at h2; exact h1 h2
        simp [h2, this]
      · simp only [h2, if_false]; exact ih

/-- the table represents the hits seen so far -/
def Represents (q : Nat) (T : List (Int × MatchRec)) (H : List (Nat × Nat)) : Prop :=
  (∀ d, lookupD d T = summary q H d) ∧ (Keys T).Pairwise (· ≠ ·)

theorem represents_step (q : Nat) (T : List (Int × MatchRec)) (H : List (Nat × Nat)) (h : Nat × Nat)
    (hr : Represents q T H) : Represents q (matchesStep q T h) (H ++ [h]) := by
  obtain ⟨hl, hk⟩ := hr
  unfold matchesStep
  cases hlook : lookupD (diag h) T with
  | none =>
    simp only
    constructor
    · intro d
      rw [lookupD_append, summary_snoc, hl d]
      by_cases hd : diag h = d
      · subst hd
        rw [← hl, hlook]
      · simp only [hd, if_false]
        cases summary q H d <;> simp
    · unfold Keys
      rw [List.map_append, List.pairwise_append]
      refine ⟨hk, by simp, ?_⟩
      intro a ha b hb
      simp at hb
      subst hb
      have := (lookupD_none_iff (diag h) T).mp hlook
      intro hab; subst hab; exact this ha
  | some r0 =>
    simp only
    constructor
    · intro d
      rw [lookupD_map, summary_snoc, ← hl d]
      by_cases hd : diag h = d
      · subst hd
        simp only [if_true, hlook, Option.map_some]
      · have : ¬ d = diag h := fun hh => hd hh.symm
        simp only [this, hd, if_false]
    · have : Keys (T.map fun e => if e.1 = diag h then (e.1, bump q h e.2) else e) = Keys T := by
        unfold Keys
        rw [List.map_map]
        apply List.map_congr_left
        intro e _
        simp only [Function.comp]
        split <;> rfl
      rw [this]; exact hk

theorem represents_foldl (q : Nat) (H : List (Nat × Nat)) :
    ∀ (T : List (Int × MatchRec)) (H0 : List (Nat × Nat)), Represents q T H0 →
      Represents q (H.foldl (matchesStep q) T) (H0 ++ H) := by
  induction H with
  | nil => intro T H0 h; simpa using h
  | cons h H ih =>
    intro T H0 hr
    simp only [List.foldl_cons]
    have := ih (matchesStep q T h) (H0 ++ [h]) (represents_step q T H0 h hr)
    simpa using this

theorem represents_nil (q : Nat) : Represents q [] [] := by
  constructor
  · intro d; simp [lookupD, summary, onDiag]
  · simp [Keys]

theorem mem_iff_lookupD {T : List (Int × MatchRec)} (hk : (Keys T).Pairwise (· ≠ ·)) (d : Int) (r : MatchRec) :
    (d, r) ∈ T ↔ lookupD d T = some r := by
  induction T with
  | nil => simp [lookupD]
  | cons e T ih =>
    unfold Keys at hk
    rw [List.map_cons, List.pairwise_cons] at hk
    simp only [List.mem_cons, lookupD]
    by_cases h1 : e.1 = d
    · simp only [h1, if_true, Option.some.injEq]
      constructor
      · rintro (h | h)
        · rw [← h]
        · exfalso
          have := hk.1 d (List.mem_map.mpr ⟨(d, r), h, rfl⟩)
          exact this h1
      · intro h; left; rw [← h, ← h1]
    · simp only [h1, if_false]
      rw [← ih hk.2]
      constructor
      · rintro (h | h)
        · rw [← h] at h1; exact absurd rfl h1
        · exact h
      · intro h; right; exact h

/-! ### hits are visited in ascending pattern position -/

theorem hits_sorted (mc q : Nat) (pat text : List Nat) :
    (hits mc q pat text).Pairwise (fun a b => a.1 ≤ b.1) := by
  unfold hits
  rw [List.pairwise_flatMap]
  constructor
  · intro i _
    rw [List.pairwise_map]
    exact List.Pairwise.imp (fun _ => Nat.le_refl _) (List.pairwise_of_forall (l := qgramPositions mc (window q pat i) text) (R := fun _ _ => True) (fun _ _ => trivial))
  · have : (List.range (pat.length + 1 - q)).Pairwise (· < ·) := List.pairwise_lt_range
    apply this.imp
    intro a b hab p hp q' hq'
    rcases List.mem_map.mp hp with ⟨_, _, rfl⟩
    rcases List.mem_map.mp hq' with ⟨_, _, rfl⟩
    exact Nat.le_of_lt hab

/-- on one diagonal of a list sorted by pattern position, the first hit has the least and the last hit the greatest
pattern and text positions -/
theorem summary_eq_diagRec (q : Nat) (H : List (Nat × Nat)) (hs : H.Pairwise (fun a b => a.1 ≤ b.1)) (d : Int)
    (hne : onDiag d H ≠ []) : summary q H d = some (diagRec q H d) := by
  unfold summary diagRec
  have hsd : (onDiag d H).Pairwise (fun a b => a.1 ≤ b.1) := List.Pairwise.sublist List.filter_sublist hs
  have hdiag : ∀ h ∈ onDiag d H, diag h = d := by
    intro h hh
    have := (List.mem_filter.mp hh).2
    simpa using this
  have hsd2 : (onDiag d H).Pairwise (fun a b => a.2 ≤ b.2) := by
    have : (onDiag d H).Pairwise (fun a b => a.1 ≤ b.1 ∧ diag a = d ∧ diag b = d) := by
      rw [List.pairwise_iff_forall_sublist] at hsd ⊢
      intro a b hab
      have ha : a ∈ onDiag d H := hab.subset (by simp)
      have hb : b ∈ onDiag d H := hab.subset (by simp)
      exact ⟨hsd hab, hdiag a ha, hdiag b hb⟩
    apply this.imp
    rintro a b ⟨h1, h2, h3⟩
    unfold diag at h2 h3
    omega
  change (match onDiag d H with
    | [] => none
    | h0 :: rest => some (h0.1, ((h0 :: rest).getLast (by simp)).1 + q, h0.2, ((h0 :: rest).getLast (by simp)).2 + q, (h0 :: rest).length)) = _
  unfold onDiag at hne hsd hsd2 ⊢
  cases hH : H.filter (fun h => diag h = d) with
  | nil => exact absurd hH hne
  | cons h0 rest =>
    rw [hH] at hsd hsd2
    simp only [List.map_cons, minList, maxList, List.length_cons]
    have p1 : ((h0 :: rest).map (·.1)).Pairwise (· ≤ ·) := by rw [List.pairwise_map]; exact hsd
    have p2 : ((h0 :: rest).map (·.2)).Pairwise (· ≤ ·) := by rw [List.pairwise_map]; exact hsd2
    simp only [List.map_cons] at p1 p2
    rw [foldl_min_eq (fun x hx => (List.pairwise_cons.mp p1).1 x hx),
      foldl_min_eq (fun x hx => (List.pairwise_cons.mp p2).1 x hx),
      foldl_max_eq_getLast _ _ p1, foldl_max_eq_getLast _ _ p2]
    have g1 : (h0.1 :: rest.map (·.1)).getLast (by simp) = ((h0 :: rest).getLast (by simp)).1 := by
      have := List.getLast_map (f := (·.1)) (l := h0 :: rest) (by simp)
      simpa using this
    have g2 : (h0.2 :: rest.map (·.2)).getLast (by simp) = ((h0 :: rest).getLast (by simp)).2 := by
      have := List.getLast_map (f := (·.2)) (l := h0 :: rest) (by simp)
      simpa using this
    rw [g1, g2]

theorem mem_dedupInt (a : Int) (l : List Int) : a ∈ dedupInt l ↔ a ∈ l := by
  induction l with
  | nil => simp [dedupInt]
  | cons b l ih =>
    simp only [dedupInt, List.mem_cons, List.mem_filter, ih]
    constructor
    · rintro (h | ⟨h, _⟩)
      · left; exact h
      · right; exact h
    · rintro (h | h)
      · left; exact h
      · by_cases hab : a = b
        · left; exact hab
        · right; exact ⟨h, by simpa using hab⟩

/-- **the model of `matches` and the reference report the same records** -/
theorem matchesModel_mem_iff (mc q minc : Nat) (pat text : List Nat) (r : MatchRec) :
    r ∈ matchesModel mc q minc pat text ↔ r ∈ matchesRef mc q minc pat text := by
  unfold matchesModel matchesRef
  simp only
  have hrep := represents_foldl q (hits mc q pat text) [] [] (represents_nil q)
  simp only [List.nil_append] at hrep
  obtain ⟨hl, hk⟩ := hrep
  have hs := hits_sorted mc q pat text
  simp only [List.mem_filter, List.mem_map]
  constructor
  · rintro ⟨⟨⟨d, r'⟩, hmem, rfl⟩, hc⟩
    have h1 := (mem_iff_lookupD hk d r').mp hmem
    rw [hl d] at h1
    have hne : onDiag d (hits mc q pat text) ≠ [] := by
      intro h0; unfold summary at h1; rw [h0] at h1; cases h1
    rw [summary_eq_diagRec q _ hs d hne] at h1
    simp only [Option.some.injEq] at h1
    refine ⟨⟨d, ?_, h1⟩, hc⟩
    rw [mem_dedupInt]
    obtain ⟨h, hh⟩ := List.exists_mem_of_ne_nil _ hne
    have := List.mem_filter.mp hh
    exact List.mem_map.mpr ⟨h, this.1, by simpa using this.2⟩
  · rintro ⟨⟨d, hd, rfl⟩, hc⟩
    rw [mem_dedupInt] at hd
    rcases List.mem_map.mp hd with ⟨h, hh, hdiag⟩
    have hne : onDiag d (hits mc q pat text) ≠ [] := by
      intro h0
      have : h ∈ onDiag d (hits mc q pat text) := List.mem_filter.mpr ⟨hh, by simpa using hdiag⟩
      rw [h0] at this; cases this
    have h1 := summary_eq_diagRec q _ hs d hne
    rw [← hl d] at h1
    exact ⟨⟨(d, diagRec q (hits mc q pat text) d), (mem_iff_lookupD hk d _).mpr h1, rfl⟩, hc⟩

end RbV.QGram
