import RbV.Model.Hmm
/-! Helper lemmas for C14 (core Lean only). -/
namespace RbV.Hmm

/-! ### columns and sums over states -/

theorem ix_tab {S : Nat} (f : Nat → Nat) {k : Nat} (h : k < S) : ix (tab S f) k = f k := by
  simp [ix, tab, List.getD, h]

theorem tab_length (S : Nat) (f : Nat → Nat) : (tab S f).length = S := by simp [tab]

theorem sum_map_congr {α} (l : List α) (f g : α → Nat) (h : ∀ a ∈ l, f a = g a) :
    (l.map f).sum = (l.map g).sum := by
  induction l with
  | nil => rfl
  | cons a t ih =>
    simp only [List.map_cons, List.sum_cons]
    rw [h a (by simp), ih (fun b hb => h b (by simp [hb]))]

theorem sumS_congr {S : Nat} {f g : Nat → Nat} (h : ∀ k, k < S → f k = g k) : sumS S f = sumS S g := by
  unfold sumS
  apply sum_map_congr
  intro a ha
  exact h a (List.mem_range.mp ha)

theorem sum_map_add {α} (l : List α) (f g : α → Nat) :
    (l.map fun a => f a + g a).sum = (l.map f).sum + (l.map g).sum := by
  induction l with
  | nil => rfl
  | cons a t ih => simp only [List.map_cons, List.sum_cons, ih]; omega

theorem sum_map_mul_left {α} (l : List α) (c : Nat) (f : α → Nat) :
    (l.map fun a => c * f a).sum = c * (l.map f).sum := by
  induction l with
  | nil => simp
  | cons a t ih => simp only [List.map_cons, List.sum_cons, ih, Nat.mul_add]

theorem sum_map_mul_right {α} (l : List α) (c : Nat) (f : α → Nat) :
    (l.map fun a => f a * c).sum = (l.map f).sum * c := by
  induction l with
  | nil => simp
  | cons a t ih => simp only [List.map_cons, List.sum_cons, ih, Nat.add_mul]

theorem sum_map_zero {α} (l : List α) : (l.map fun _ => (0 : Nat)).sum = 0 := by
  induction l with
  | nil => rfl
  | cons a t ih => simp only [List.map_cons, List.sum_cons, ih]

theorem sum_comm {α β} (l₁ : List α) (l₂ : List β) (f : α → β → Nat) :
    (l₁.map fun a => (l₂.map fun b => f a b).sum).sum = (l₂.map fun b => (l₁.map fun a => f a b).sum).sum := by
  induction l₁ with
  | nil => simp [sum_map_zero]
  | cons a t ih => simp only [List.map_cons, List.sum_cons, ih, sum_map_add]

theorem sum_flatMap {α β} (l : List α) (g : α → List β) (f : β → Nat) :
    ((l.flatMap g).map f).sum = (l.map fun a => ((g a).map f).sum).sum := by
  induction l with
  | nil => rfl
  | cons a t ih => simp only [List.flatMap_cons, List.map_append, List.sum_append, List.map_cons, List.sum_cons, ih]

theorem sumS_comm (S : Nat) (f : Nat → Nat → Nat) :
    (sumS S fun a => sumS S fun b => f a b) = sumS S fun b => sumS S fun a => f a b := by
  unfold sumS; exact sum_comm _ _ f

theorem sumS_mul_left (S c : Nat) (f : Nat → Nat) : (sumS S fun a => c * f a) = c * sumS S f := by
  unfold sumS; exact sum_map_mul_left _ c f

theorem sumS_mul_right (S c : Nat) (f : Nat → Nat) : (sumS S fun a => f a * c) = sumS S f * c := by
  unfold sumS; exact sum_map_mul_right _ c f

theorem le_sum_of_mem {l : List Nat} {a : Nat} (h : a ∈ l) : a ≤ l.sum := by
  induction l with
  | nil => cases h
  | cons b t ih =>
    simp only [List.sum_cons]
    rcases List.mem_cons.mp h with rfl | h
    · omega
    · have := ih h; omega

theorem le_maxL_of_mem {l : List Nat} {a : Nat} (h : a ∈ l) : a ≤ maxL l := by
  induction l with
  | nil => cases h
  | cons b t ih =>
    simp only [maxL, List.foldr_cons]
    rcases List.mem_cons.mp h with rfl | h
    · omega
    · have := ih h; simp only [maxL] at this; omega

theorem maxL_le {l : List Nat} {v : Nat} (h : ∀ a ∈ l, a ≤ v) : maxL l ≤ v := by
  induction l with
  | nil => simp [maxL]
  | cons b t ih =>
    simp only [maxL, List.foldr_cons]
    have h1 := h b (by simp)
    have h2 := ih (fun a ha => h a (by simp [ha]))
    simp only [maxL] at h2; omega

/-! ### paths -/

theorem mem_paths {S : Nat} : ∀ {T : Nat} {π : List Nat}, π ∈ paths S T ↔ π.length = T ∧ ∀ s ∈ π, s < S := by
  intro T
  induction T with
  | zero =>
    intro π
    simp only [paths, List.mem_singleton]
    constructor
    · rintro rfl; simp
    · rintro ⟨h, _⟩; exact List.length_eq_zero_iff.mp h
  | succ T ih =>
    intro π
    simp only [paths, List.mem_flatMap, List.mem_map, List.mem_range]
    constructor
    · rintro ⟨s, hs, π', hπ', rfl⟩
      have := ih.mp hπ'
      refine ⟨by simp [this.1], ?_⟩
      intro x hx
      rcases List.mem_cons.mp hx with rfl | hx
      · exact hs
      · exact this.2 x hx
    · rintro ⟨hl, hall⟩
      cases π with
      | nil => simp at hl
      | cons s π' =>
        refine ⟨s, hall s (by simp), π', ih.mpr ⟨by simpa using hl, fun x hx => hall x (by simp [hx])⟩, rfl⟩

theorem cons_mem_paths {S T s : Nat} {π : List Nat} (hs : s < S) (h : π ∈ paths S T) : s :: π ∈ paths S (T + 1) := by
  simp only [paths, List.mem_flatMap, List.mem_map, List.mem_range]
  exact ⟨s, hs, π, h, rfl⟩

theorem mem_paths_succ {S T : Nat} {π : List Nat} (h : π ∈ paths S (T + 1)) :
    ∃ s π', π = s :: π' ∧ s < S ∧ π' ∈ paths S T := by
  simp only [paths, List.mem_flatMap, List.mem_map, List.mem_range] at h
  obtain ⟨s, hs, π', hπ', rfl⟩ := h
  exact ⟨s, π', rfl, hs, hπ'⟩

/-- sum over the paths of length `T+1` = sum over the first state of the sum over the rest -/
theorem sum_paths_succ (S T : Nat) (f : List Nat → Nat) :
    ((paths S (T + 1)).map f).sum = sumS S fun s => ((paths S T).map fun π => f (s :: π)).sum := by
  simp only [paths, sumS, sum_flatMap, List.map_map]
  rfl

/-! ### arg-max -/

theorem argmaxLast_lt (f : Nat → Nat) {n : Nat} (h : 0 < n) : argmaxLast f n < n := by
  induction n with
  | zero => cases h
  | succ n ih =>
    simp only [argmaxLast]
    split
    · omega
    · cases n with
      | zero => simp [argmaxLast]
      | succ n => have := ih (by omega); omega

theorem le_argmaxLast (f : Nat → Nat) {n k : Nat} (h : k < n) : f k ≤ f (argmaxLast f n) := by
  induction n with
  | zero => cases h
  | succ n ih =>
    simp only [argmaxLast]
    by_cases hk : k = n
    · subst hk; split <;> omega
    · have := ih (by omega)
      split <;> omega

end RbV.Hmm

namespace RbV.Hmm

/-! ### backward -/

/-- Σ over all continuations of the weight of continuing from state `k` -/
def tailSum (m : Hmm) (k : Nat) (os : List Nat) : Nat := ((paths m.S os.length).map (chain m k os)).sum

theorem tailSum_nil (m : Hmm) (k : Nat) : tailSum m k [] = m.fin k := by
  simp [tailSum, paths, chain]

theorem tailSum_cons (m : Hmm) (j o : Nat) (os : List Nat) :
    tailSum m j (o :: os) = sumS m.S fun k => m.trans j k * m.emit k o * tailSum m k os := by
  simp only [tailSum, List.length_cons, sum_paths_succ, chain, sum_map_mul_left]

theorem ix_bcol (m : Hmm) (os : List Nat) : ∀ {k : Nat}, k < m.S → ix (bcol m os) k = tailSum m k os := by
  induction os with
  | nil => intro k hk; simp only [bcol, ix_tab _ hk, tailSum_nil]
  | cons o os ih =>
    intro j hj
    simp only [bcol, stepB, ix_tab _ hj, tailSum_cons]
    apply sumS_congr
    intro k hk
    rw [ih hk]; ac_rfl

theorem likelihood_cons (m : Hmm) (o : Nat) (os : List Nat) :
    likelihood m (o :: os) = sumS m.S fun k => m.init k * m.emit k o * tailSum m k os := by
  simp only [likelihood, List.length_cons, sum_paths_succ, joint, sum_map_mul_left, tailSum]

theorem backward_eq_likelihood (m : Hmm) (obs : List Nat) (h : obs ≠ []) : backward m obs = likelihood m obs := by
  cases obs with
  | nil => exact absurd rfl h
  | cons o os =>
    simp only [backward, finalB, likelihood_cons]
    apply sumS_congr
    intro k hk
    rw [ix_bcol m os hk]; ac_rfl

/-! ### forward -/

theorem fwdFrom_eq (m : Hmm) (os : List Nat) : ∀ col : List Nat,
    fwdFrom m col os = sumS m.S fun k => ix col k * tailSum m k os := by
  induction os with
  | nil =>
    intro col
    simp only [fwdFrom, tailSum_nil]
  | cons o os ih =>
    intro col
    simp only [fwdFrom, ih, tailSum_cons]
    -- Σ_j (Σ_k col k · t k j · e j o) · B j  =  Σ_k col k · Σ_j t k j · e j o · B j
    have h1 : (sumS m.S fun j => ix (stepF m col o) j * tailSum m j os)
        = sumS m.S fun j => sumS m.S fun k => ix col k * (m.trans k j * m.emit j o * tailSum m j os) := by
      apply sumS_congr
      intro j hj
      simp only [stepF, ix_tab _ hj]
      rw [← sumS_mul_right]
      apply sumS_congr
      intro k _
      ac_rfl
    rw [h1, sumS_comm]
    apply sumS_congr
    intro k _
    rw [sumS_mul_left]

theorem forward_eq_likelihood (m : Hmm) (obs : List Nat) (h : obs ≠ []) : forward m obs = likelihood m obs := by
  cases obs with
  | nil => exact absurd rfl h
  | cons o os =>
    simp only [forward, fwdFrom_eq, likelihood_cons]
    apply sumS_congr
    intro k hk
    simp only [col0, ix_tab _ hk]

/-! ### Viterbi -/

/-- what the Viterbi proof needs of a predecessor selector -/
def IsArgmax (sel : Sel) : Prop :=
  ∀ (c t : Nat → Nat) (n : Nat), 0 < n → sel c t n < n ∧ ∀ k, k < n → c k * t k ≤ c (sel c t n) * t (sel c t n)

/-- what the Viterbi proof needs of the arg-max over the last column -/
def IsPick (pick : Pick) : Prop :=
  ∀ (f : Nat → Nat) (n : Nat), 0 < n → pick f n < n ∧ ∀ k, k < n → f k ≤ f (pick f n)

theorem isPick_argmaxLast : IsPick argmaxLast :=
  fun f _ hn => ⟨argmaxLast_lt f hn, fun _ hk => le_argmaxLast f hk⟩

theorem isPick_argmaxFirst : IsPick argmaxFirst := by
  intro f n hn
  induction n with
  | zero => cases hn
  | succ n ih =>
    simp only [argmaxFirst]
    cases n with
    | zero =>
      refine ⟨by split <;> simp [argmaxFirst], ?_⟩
      intro k hk
      have : k = 0 := by omega
      subst this
      split <;> simp_all [argmaxFirst]
    | succ n =>
      obtain ⟨hb, hub⟩ := ih (by omega)
      split
      · refine ⟨by omega, ?_⟩
        intro k hk
        by_cases hkn : k = n + 1
        · subst hkn; exact Nat.le_refl _
        · have := hub k (by omega); omega
      · refine ⟨by omega, ?_⟩
        intro k hk
        by_cases hkn : k = n + 1
        · subst hkn; omega
        · exact hub k (by omega)

theorem argmaxLast_congr {f g : Nat → Nat} {n : Nat} (h : ∀ k, k < n → f k = g k) :
    argmaxLast f n = argmaxLast g n := by
  induction n with
  | zero => rfl
  | succ n ih =>
    have ih' := ih (fun k hk => h k (by omega))
    simp only [argmaxLast, ih', h n (by omega)]
    cases n with
    | zero => simp [argmaxLast, h 0 (by omega)]
    | succ n =>
      have hlt : argmaxLast g (n + 1) < n + 1 := argmaxLast_lt g (by omega)
      rw [h _ (by omega)]

theorem isArgmax_selLast : IsArgmax selLast := by
  intro c t n hn
  exact ⟨argmaxLast_lt _ hn, fun k hk => le_argmaxLast (fun k => c k * t k) hk⟩

/-- the zero-aware comparator of the Rust code selects a maximum of the products as well -/
theorem isArgmax_selZ : IsArgmax selZ := by
  intro c t n hn
  simp only [selZ]
  induction n with
  | zero => cases hn
  | succ n ih =>
    simp only [argmaxBy]
    by_cases h0 : n = 0
    · subst h0
      simp only [if_true]
      refine ⟨by omega, ?_⟩
      intro k hk
      have hk0 : k = 0 := by omega
      subst hk0
      exact Nat.le_refl _
    · obtain ⟨hb, hub⟩ := ih (by omega)
      simp only [h0, if_false]
      -- b = best of 0 … n-1
      generalize argmaxBy (cmpZ c t) n = b at hb hub ⊢
      have key : (cmpZ c t b n = .gt → c n * t n ≤ c b * t b) ∧ (cmpZ c t b n ≠ .gt → c b * t b ≤ c n * t n) := by
        unfold cmpZ
        by_cases hcb : c b = 0
        · by_cases hcn : c n = 0
          · simp [hcb, hcn]
          · simp [hcb, hcn]
        · by_cases hcn : c n = 0
          · simp [hcb, hcn]
          · simp only [hcb, hcn, false_and, if_false]
            constructor
            · intro hgt
              exact Nat.le_of_lt (Nat.compare_eq_gt.mp hgt)
            · intro hngt
              rcases hc : compare (c b * t b) (c n * t n) with _ | _ | _
              · exact Nat.le_of_lt (Nat.compare_eq_lt.mp hc)
              · exact Nat.le_of_eq (Nat.compare_eq_eq.mp hc)
              · exact absurd hc hngt
      by_cases hg : cmpZ c t b n = .gt
      · simp only [hg, if_true]
        refine ⟨by omega, ?_⟩
        intro k hk
        by_cases hkn : k = n
        · subst hkn; exact key.1 hg
        · exact hub k (by omega)
      · simp only [hg, if_false]
        refine ⟨by omega, ?_⟩
        intro k hk
        by_cases hkn : k = n
        · subst hkn; exact Nat.le_refl _
        · exact Nat.le_trans (hub k (by omega)) (key.2 hg)

theorem ix_stepV_val (sel : Sel) (m : Hmm) (col : List Nat) (o : Nat) {j : Nat} (hj : j < m.S) :
    ix (stepV sel m col o).1 j =
      ix col (ix (stepV sel m col o).2 j) * m.trans (ix (stepV sel m col o).2 j) j * m.emit j o := by
  simp only [stepV, ix_tab _ hj]

theorem ix_stepV_ptr_lt {sel : Sel} (hsel : IsArgmax sel) (m : Hmm) (col : List Nat) (o : Nat) {j : Nat}
    (hj : j < m.S) : ix (stepV sel m col o).2 j < m.S := by
  simp only [stepV, ix_tab _ hj]
  exact (hsel _ _ _ (by omega)).1

theorem ix_stepV_ub {sel : Sel} (hsel : IsArgmax sel) (m : Hmm) (col : List Nat) (o : Nat) {j k : Nat}
    (hj : j < m.S) (hk : k < m.S) :
    ix col k * m.trans k j * m.emit j o ≤ ix (stepV sel m col o).1 j := by
  simp only [stepV, ix_tab _ hj]
  apply Nat.mul_le_mul_right
  exact (hsel (ix col) (fun k => m.trans k j) m.S (by omega)).2 k hk

/-- main invariant of the traceback: the traced path starts in a state `k0`, continues with a path `π` of the
right length, its weight from `col` on equals the reported value, and no other start state / continuation
has a larger weight. -/
theorem traceback_spec {sel : Sel} (hsel : IsArgmax sel) {pick : Pick} (hpick : IsPick pick) (m : Hmm) (hS : 0 < m.S)
    (os : List Nat) : ∀ col : List Nat,
    ∃ k0 π, (tracebackW pick m.S m.fin col (matFrom sel m col os)).1 = k0 :: π ∧ k0 < m.S ∧ π ∈ paths m.S os.length ∧
      ix col k0 * chain m k0 os π = (tracebackW pick m.S m.fin col (matFrom sel m col os)).2 ∧
      ∀ k, k < m.S → ∀ ρ ∈ paths m.S os.length,
        ix col k * chain m k os ρ ≤ (tracebackW pick m.S m.fin col (matFrom sel m col os)).2 := by
  induction os with
  | nil =>
    intro col
    refine ⟨pick (fun k => ix col k * m.fin k) m.S, [], rfl, (hpick _ _ hS).1, by simp [paths], ?_, ?_⟩
    · simp [tracebackW, matFrom, chain]
    · intro k hk ρ hρ
      simp only [paths, List.length_nil, List.mem_singleton] at hρ
      subst hρ
      simp only [tracebackW, matFrom, chain]
      exact (hpick (fun k => ix col k * m.fin k) m.S hS).2 k hk
  | cons o os ih =>
    intro col
    obtain ⟨j0, π, hp, hj0, hπ, hval, hub⟩ := ih (stepV sel m col o).1
    simp only [matFrom, tracebackW, hp, List.headD_cons]
    refine ⟨ix (stepV sel m col o).2 j0, j0 :: π, rfl, ix_stepV_ptr_lt hsel m col o hj0, cons_mem_paths hj0 hπ, ?_, ?_⟩
    · rw [← hval, ix_stepV_val sel m col o hj0]
      simp only [chain]; ac_rfl
    · intro k hk ρ hρ
      obtain ⟨j, ρ', rfl, hj, hρ'⟩ := mem_paths_succ hρ
      simp only [chain]
      calc ix col k * (m.trans k j * m.emit j o * chain m j os ρ')
          = (ix col k * m.trans k j * m.emit j o) * chain m j os ρ' := by ac_rfl
        _ ≤ ix (stepV sel m col o).1 j * chain m j os ρ' := Nat.mul_le_mul_right _ (ix_stepV_ub hsel m col o hj hk)
        _ ≤ _ := hub j hj ρ' hρ'

theorem traceback_eq_W (S : Nat) (col : List Nat) (mats : List (List Nat × List Nat)) :
    traceback S col mats = tracebackW argmaxLast S (fun _ => 1) col mats := by
  induction mats generalizing col with
  | nil => simp [traceback, tracebackW]
  | cons cf rest ih => simp only [traceback, tracebackW, ih]

/-- **the end term is added after the matrix is complete**: the literal traceback on the matrices whose last
value column was multiplied by the end weights is the traceback that weights the last column by `fin` before
its arg-max — the back-pointer columns are the ones `viterbi_matrices` computed without the end term -/
theorem traceback_addEnd (m : Hmm) (hS : 0 < m.S) (mats : List (List Nat × List Nat)) : ∀ col : List Nat,
    traceback m.S (addEnd m col mats).1 (addEnd m col mats).2 = tracebackW argmaxLast m.S m.fin col mats := by
  induction mats with
  | nil =>
    intro col
    have hc : argmaxLast (ix (endCol m col)) m.S = argmaxLast (fun k => ix col k * m.fin k) m.S :=
      argmaxLast_congr (fun k hk => by simp only [endCol, ix_tab _ hk])
    have hlt : argmaxLast (fun k => ix col k * m.fin k) m.S < m.S := argmaxLast_lt _ hS
    simp only [addEnd, traceback, tracebackW, hc]
    simp only [endCol, ix_tab _ hlt]
  | cons cf rest ih =>
    intro col
    simp only [addEnd, traceback, tracebackW, ih]

/-- `addEnd` leaves every back-pointer column as it was -/
theorem addEnd_ptrs (m : Hmm) (mats : List (List Nat × List Nat)) : ∀ col : List Nat,
    (addEnd m col mats).2.map (·.2) = mats.map (·.2) := by
  induction mats with
  | nil => intro col; rfl
  | cons cf rest ih => intro col; simp only [addEnd, List.map_cons, ih]

theorem matFrom_noEnd (sel : Sel) (m : Hmm) (col : List Nat) (os : List Nat) :
    matFrom sel m.noEnd col os = matFrom sel m col os := by
  induction os generalizing col with
  | nil => rfl
  | cons o os ih => simp only [matFrom, ih]; rfl

/-- with `has_end_state()` the code mirror is the general algorithm (zero-aware selector, last maximum) -/
theorem viterbi_eq_viterbiWith_of_hasEnd (m : Hmm) (hS : 0 < m.S) (he : m.hasEnd = true) (obs : List Nat) :
    viterbi m obs = viterbiWith selZ argmaxLast m obs := by
  cases obs with
  | nil => rfl
  | cons o os => simp only [viterbi, viterbiWith, he, if_true, traceback_addEnd m hS]

/-- without `has_end_state()` it is the general algorithm on the model without end term -/
theorem viterbi_eq_viterbiWith_noEnd (m : Hmm) (he : m.hasEnd = false) (obs : List Nat) :
    viterbi m obs = viterbiWith selZ argmaxLast m.noEnd obs := by
  cases obs with
  | nil => rfl
  | cons o os =>
    simp only [viterbi, viterbiWith, he, traceback_eq_W, matFrom_noEnd]
    rfl

/-- the end weights enter `chain` only through the last state of the path -/
theorem chain_noEnd_of_WF (m : Hmm) (hwf : m.WF) (he : m.hasEnd = false) : ∀ (os π : List Nat) (s : Nat),
    s < m.S → (∀ q ∈ π, q < m.S) → chain m.noEnd s os π = chain m s os π := by
  intro os
  induction os with
  | nil =>
    intro π s hs _
    cases π with
    | nil => simp only [chain, Hmm.noEnd, hwf he s hs]
    | cons q qs => simp only [chain]
  | cons o os ih =>
    intro π s hs hπ
    cases π with
    | nil => simp only [chain]
    | cons q qs =>
      simp only [chain]
      rw [ih qs q (hπ q (by simp)) (fun x hx => hπ x (by simp [hx]))]
      rfl

theorem joint_noEnd_of_WF (m : Hmm) (hwf : m.WF) (he : m.hasEnd = false) (obs π : List Nat)
    (hπ : ∀ q ∈ π, q < m.S) : joint m.noEnd obs π = joint m obs π := by
  cases obs with
  | nil => cases π <;> simp only [joint]
  | cons o os =>
    cases π with
    | nil => simp only [joint]
    | cons q qs =>
      simp only [joint]
      rw [chain_noEnd_of_WF m hwf he os qs q (hπ q (by simp)) (fun x hx => hπ x (by simp [hx]))]
      rfl

theorem viterbiWith_spec {sel : Sel} (hsel : IsArgmax sel) {pick : Pick} (hpick : IsPick pick) (m : Hmm) (hS : 0 < m.S)
    (obs : List Nat) (h : obs ≠ []) :
    (viterbiWith sel pick m obs).1 ∈ paths m.S obs.length ∧
    joint m obs (viterbiWith sel pick m obs).1 = (viterbiWith sel pick m obs).2 ∧
    ∀ ρ ∈ paths m.S obs.length, joint m obs ρ ≤ (viterbiWith sel pick m obs).2 := by
  cases obs with
  | nil => exact absurd rfl h
  | cons o os =>
    obtain ⟨k0, π, hp, hk0, hπ, hval, hub⟩ := traceback_spec hsel hpick m hS os (col0 m o)
    simp only [viterbiWith, hp, List.length_cons]
    refine ⟨cons_mem_paths hk0 hπ, ?_, ?_⟩
    · rw [← hval]; simp only [joint, col0, ix_tab _ hk0]
    · intro ρ hρ
      obtain ⟨k, ρ', rfl, hk, hρ'⟩ := mem_paths_succ hρ
      have := hub k hk ρ' hρ'
      simpa only [joint, col0, ix_tab _ hk] using this

theorem viterbiE_spec (m : Hmm) (hS : 0 < m.S) (obs : List Nat) (h : obs ≠ []) :
    (viterbiE m obs).1 ∈ paths m.S obs.length ∧
    joint m obs (viterbiE m obs).1 = (viterbiE m obs).2 ∧
    ∀ ρ ∈ paths m.S obs.length, joint m obs ρ ≤ (viterbiE m obs).2 :=
  viterbiWith_spec isArgmax_selLast isPick_argmaxLast m hS obs h

/-- the code mirror of `hmm::viterbi` is optimal for every well-formed model, with or without end vector -/
theorem viterbi_spec (m : Hmm) (hS : 0 < m.S) (hwf : m.WF) (obs : List Nat) (h : obs ≠ []) :
    (viterbi m obs).1 ∈ paths m.S obs.length ∧
    joint m obs (viterbi m obs).1 = (viterbi m obs).2 ∧
    ∀ ρ ∈ paths m.S obs.length, joint m obs ρ ≤ (viterbi m obs).2 := by
  cases he : m.hasEnd with
  | true =>
    rw [viterbi_eq_viterbiWith_of_hasEnd m hS he]
    exact viterbiWith_spec isArgmax_selZ isPick_argmaxLast m hS obs h
  | false =>
    rw [viterbi_eq_viterbiWith_noEnd m he]
    obtain ⟨hp, hj, hub⟩ := viterbiWith_spec isArgmax_selZ isPick_argmaxLast m.noEnd hS obs h
    have hp' : (viterbiWith selZ argmaxLast m.noEnd obs).1 ∈ paths m.S obs.length := hp
    refine ⟨hp', ?_, ?_⟩
    · rw [← hj, joint_noEnd_of_WF m hwf he obs _ (mem_paths.mp hp').2]
    · intro ρ hρ
      rw [← joint_noEnd_of_WF m hwf he obs ρ (mem_paths.mp hρ).2]
      exact hub ρ hρ

end RbV.Hmm

namespace RbV.Hmm

/-! ### the literal backward loop -/

theorem bcol_eq_foldr (m : Hmm) (os : List Nat) :
    bcol m os = os.foldr (fun o acc => stepB m acc o) (tab m.S m.fin) := by
  induction os with
  | nil => rfl
  | cons o os ih => simp only [bcol, List.foldr_cons, ih]

/-- iterations `i ≥ 1` of the loop: `mid` are the observations still to be folded into the table (in reverse
order), the last iteration (`i = n-1`) produces the final sum with the first observation `o0` -/
theorem backwardLoop_mid (m : Hmm) (n o0 : Nat) (mid : List Nat) : ∀ (i : Nat) (cur : List Nat) (pvf : Nat),
    1 ≤ i → i + mid.length = n - 1 →
    backwardLoop m n i (mid ++ [o0]) cur pvf = finalB m (mid.foldl (fun acc o => stepB m acc o) cur) o0 := by
  induction mid with
  | nil =>
    intro i cur pvf hi hn
    have h0 : i ≠ 0 := by omega
    have h1 : i = n - 1 := by simpa using hn
    simp only [List.nil_append, backwardLoop, h0, if_false, ← h1, if_true, List.foldl_nil]
  | cons o mid ih =>
    intro i cur pvf hi hn
    have h0 : i ≠ 0 := by omega
    have h1 : i ≠ n - 1 := by simp only [List.length_cons] at hn; omega
    simp only [List.cons_append, backwardLoop, h0, h1, if_false, List.foldl_cons]
    exact ih (i + 1) _ pvf (by omega) (by simp only [List.length_cons] at hn; omega)

theorem backwardLit_eq_backward (m : Hmm) (obs : List Nat) : backwardLit m obs = backward m obs := by
  cases obs with
  | nil => rfl
  | cons o0 os =>
    simp only [backwardLit, backward, List.reverse_cons, List.length_cons, bcol_eq_foldr]
    rw [← List.foldl_reverse]
    cases hr : os.reverse with
    | nil =>
      have : os.length = 0 := by simpa using congrArg List.length hr
      simp [backwardLoop, this]
    | cons oL mid =>
      have hl : os.length = mid.length + 1 := by simpa using congrArg List.length hr
      have hgt : os.length + 1 > 1 := by omega
      simp only [List.cons_append, backwardLoop, if_true, hgt, List.foldl_cons]
      exact backwardLoop_mid m (os.length + 1) o0 mid 1 _ 0 (by omega) (by omega)

end RbV.Hmm
