import RbV.Lemmas.TracebackLongLoop
import RbV.Lemmas.MyersLongBand
import RbV.Lemmas.TracebackRing
/-!
The states vector of the block-based Myers traceback (`long.rs: LongStatesHandler::{set_max_state, add_state}`,
`traceback.rs: Traceback::{new, add_state}`) (C10, block-based handler, stage 3).  Core Lean only.

* `addColumn_getD`, `setMaxColumn_getD`: what the two writers do to the flat vector (computed blocks, sentinel block
  below them, everything else — in particular the slots further down in the same column — untouched).
* `scanStoreL_eq`: the driver's single pass reports `tracebackStoreL … t c` at every wanted end.
-/
namespace RbV.Model.MyersTracebackLong
open RbV.EditDist
open RbV.Model.MyersSimple (St)
open RbV.Model.MyersTraceback

/-! ### reads and writes of the flat vector -/

theorem getD_set {α : Type} (a : Array α) (i : Nat) (v d : α) (x : Nat) :
    (a.setIfInBounds i v).getD x d = if x = i ∧ i < a.size then v else a.getD x d := by
  simp only [Array.getD_eq_getD_getElem?, Array.getElem?_setIfInBounds]
  by_cases h : i = x
  · subst h
    by_cases h2 : i < a.size
    · simp [h2]
    · simp [h2]
  · have : ¬ (x = i ∧ i < a.size) := by omega
    simp [h, this]

theorem getD_oob {α : Type} (a : Array α) (d : α) (x : Nat) (h : a.size ≤ x) : a.getD x d = d := by
  simp [Array.getD, Nat.not_lt.mpr h]

theorem copy_size {w : Nat} (base : Nat) : ∀ (src : List (St w)) (store : Array (St w)) (i : Nat),
    (addColumn.copy base store i src).size = store.size := by
  intro src
  induction src with
  | nil => intro store i; rfl
  | cons s r ih => intro store i; simp only [addColumn.copy, ih, Array.size_setIfInBounds]

theorem copy_getD {w : Nat} (base : Nat) : ∀ (src : List (St w)) (store : Array (St w)) (i x : Nat),
    (addColumn.copy base store i src).getD x dflt =
      if base + i ≤ x ∧ x < base + i + src.length ∧ x < store.size then src.getD (x - (base + i)) dflt
      else store.getD x dflt := by
  intro src
  induction src with
  | nil =>
    intro store i x
    simp only [addColumn.copy, List.length_nil, Nat.add_zero]
    rw [if_neg (by omega)]
  | cons s r ih =>
    intro store i x
    simp only [addColumn.copy, ih, Array.size_setIfInBounds, getD_set, List.length_cons]
    by_cases hx : x = base + i
    · subst hx
      rw [if_neg (by omega)]
      by_cases hs : base + i < store.size
      · rw [if_pos ⟨rfl, hs⟩, if_pos (by omega)]
        simp
      · rw [if_neg (by omega), if_neg (by omega)]
    · by_cases hin : base + i ≤ x ∧ x < base + i + (r.length + 1) ∧ x < store.size
      · rw [if_pos (by omega), if_pos hin]
        obtain ⟨d, hd⟩ : ∃ d, x - (base + i) = d + 1 := ⟨x - (base + i) - 1, by omega⟩
        have e : x - (base + (i + 1)) = d := by omega
        rw [hd, e]
        simp
      · rw [if_neg (by omega), if_neg (by omega), if_neg hin]

theorem addColumn_size {w : Nat} (nb : Nat) (store : Array (St w)) (slot : Nat) (src : List (St w)) :
    (addColumn nb store slot src).size = store.size := by
  unfold addColumn
  split <;> simp only [Array.size_setIfInBounds, copy_size]

/-- `add_state`: the computed blocks, the sentinel block below them (if there is room), nothing else -/
theorem addColumn_getD {w : Nat} (nb : Nat) (store : Array (St w)) (slot : Nat) (src : List (St w)) (x : Nat) :
    (addColumn nb store slot src).getD x dflt =
      if slot * nb ≤ x ∧ x < slot * nb + src.length ∧ x < store.size then src.getD (x - slot * nb) dflt
      else if x = slot * nb + src.length ∧ src.length < nb ∧ x < store.size then ⟨0#w, 0#w, umax⟩
      else store.getD x dflt := by
  unfold addColumn
  simp only
  by_cases hl : src.length < nb
  · rw [if_pos hl, getD_set, copy_size, copy_getD]
    simp only [Nat.add_zero]
    by_cases h1 : slot * nb ≤ x ∧ x < slot * nb + src.length ∧ x < store.size
    · have h3 : ¬ (x = slot * nb + src.length ∧ slot * nb + src.length < store.size) := by omega
      simp only [if_pos h1, if_neg h3]
    · by_cases h2 : x = slot * nb + src.length ∧ src.length < nb ∧ x < store.size
      · have h3 : x = slot * nb + src.length ∧ slot * nb + src.length < store.size := by omega
        simp only [if_neg h1, if_pos h2, if_pos h3]
      · have h3 : ¬ (x = slot * nb + src.length ∧ slot * nb + src.length < store.size) := by omega
        simp only [if_neg h1, if_neg h2, if_neg h3]
  · rw [if_neg hl, copy_getD]
    simp only [Nat.add_zero]
    by_cases h1 : slot * nb ≤ x ∧ x < slot * nb + src.length ∧ x < store.size
    · simp only [if_pos h1]
    · have h2 : ¬ (x = slot * nb + src.length ∧ src.length < nb ∧ x < store.size) := by omega
      simp only [if_neg h1, if_neg h2]

theorem setMax_go {w : Nat} (base : Nat) : ∀ (n : Nat) (store : Array (St w)),
    ((List.range n).foldl (fun st i => st.setIfInBounds (base + i) (maxSt w umax)) store).size = store.size ∧
    ∀ x, ((List.range n).foldl (fun st i => st.setIfInBounds (base + i) (maxSt w umax)) store).getD x dflt =
      if base ≤ x ∧ x < base + n ∧ x < store.size then maxSt w umax else store.getD x dflt := by
  intro n
  induction n with
  | zero =>
    intro store
    refine ⟨rfl, fun x => ?_⟩
    simp only [List.range_zero, List.foldl_nil]
    rw [if_neg (by omega)]
  | succ n ih =>
    intro store
    obtain ⟨i1, i2⟩ := ih store
    rw [List.range_succ, List.foldl_append]
    simp only [List.foldl_cons, List.foldl_nil, Array.size_setIfInBounds, getD_set]
    refine ⟨i1, fun x => ?_⟩
    rw [i1, i2]
    by_cases hx : x = base + n ∧ base + n < store.size
    · rw [if_pos hx, if_pos (by omega)]
    · rw [if_neg hx]
      by_cases h1 : base ≤ x ∧ x < base + n ∧ x < store.size
      · rw [if_pos h1, if_pos (by omega)]
      · rw [if_neg h1, if_neg (by omega)]

theorem setMaxColumn_size {w : Nat} (nb : Nat) (store : Array (St w)) (slot : Nat) :
    (setMaxColumn nb store slot).size = store.size := (setMax_go (slot * nb) nb store).1

/-- `set_max_state`: all `nb` blocks of the column -/
theorem setMaxColumn_getD {w : Nat} (nb : Nat) (store : Array (St w)) (slot x : Nat) :
    (setMaxColumn nb store slot).getD x dflt =
      if slot * nb ≤ x ∧ x < slot * nb + nb ∧ x < store.size then maxSt w umax else store.getD x dflt :=
  (setMax_go (slot * nb) nb store).2 x

/-- the `nb` slots of column `σ` -/
def colAt {w : Nat} (nb : Nat) (store : Array (St w)) (σ : Nat) : Array (St w) :=
  store.extract (σ * nb) (σ * nb + nb)

theorem readColumn_eq {w : Nat} (nb N : Nat) (store : Array (St w)) (pos n : Nat) :
    readColumn nb N store pos n = colAt nb store (readSlot N pos n) := rfl

theorem colAt_size {w : Nat} (nb : Nat) (store : Array (St w)) (σ : Nat) (h : σ * nb + nb ≤ store.size) :
    (colAt nb store σ).size = nb := by
  unfold colAt
  rw [Array.size_extract]
  omega

theorem colAt_getD {w : Nat} (nb : Nat) (store : Array (St w)) (σ B : Nat) (h : σ * nb + nb ≤ store.size) (hB : B < nb) :
    (colAt nb store σ).getD B dflt = store.getD (σ * nb + B) dflt := by
  unfold colAt
  simp only [Array.getD_eq_getD_getElem?, Array.getElem?_extract]
  rw [if_pos (by omega)]

/-- two vectors that agree on the slots of a column have the same column -/
theorem colAt_congr {w : Nat} (nb : Nat) (x y : Array (St w)) (σ : Nat) (hx : σ * nb + nb ≤ x.size)
    (hy : σ * nb + nb ≤ y.size) (h : ∀ B, B < nb → x.getD (σ * nb + B) dflt = y.getD (σ * nb + B) dflt) :
    colAt nb x σ = colAt nb y σ := by
  apply Array.ext
  · rw [colAt_size nb x σ hx, colAt_size nb y σ hy]
  · intro i h1 h2
    rw [colAt_size nb x σ hx] at h1
    have e1 := colAt_getD nb x σ i hx h1
    have e2 := colAt_getD nb y σ i hy h1
    have := h i h1
    rw [← e1, ← e2] at this
    simpa [Array.getD, h1, h2, colAt_size nb x σ hx, colAt_size nb y σ hy] using this

/-- slots of different columns do not overlap -/
theorem slot_disjoint (nb σ τ B : Nat) (hne : σ ≠ τ) (hB : B < nb) :
    ¬ (τ * nb ≤ σ * nb + B ∧ σ * nb + B < τ * nb + nb) := by
  intro ⟨h1, h2⟩
  rcases Nat.lt_or_gt_of_ne hne with hlt | hgt
  · have := mul_lt_of_lt σ τ nb hlt
    omega
  · have := mul_lt_of_lt τ σ nb hgt
    omega

theorem slot_le (nb N σ : Nat) (h : σ < N) : σ * nb + nb ≤ N * nb := mul_lt_of_lt σ N nb h

/-- right after `add_state` the column holds the computed blocks and, below them, the sentinel block -/
theorem addColumn_written {w : Nat} (nb : Nat) (store : Array (St w)) (slot : Nat) (src : List (St w))
    (hsz : slot * nb + nb ≤ store.size) (hl : src.length ≤ nb) :
    (∀ B, B < src.length → (addColumn nb store slot src).getD (slot * nb + B) dflt = src.getD B dflt) ∧
    (src.length < nb → (addColumn nb store slot src).getD (slot * nb + src.length) dflt = ⟨0#w, 0#w, umax⟩) := by
  constructor
  · intro B hB
    rw [addColumn_getD, if_pos (by omega)]
    congr 1; omega
  · intro hlt
    rw [addColumn_getD, if_neg (by omega), if_pos (by omega)]

/-- … and the slots of every other column are as before -/
theorem addColumn_other {w : Nat} (nb : Nat) (store : Array (St w)) (slot : Nat) (src : List (St w))
    (hl : src.length ≤ nb) (σ B : Nat) (hne : σ ≠ slot) (hB : B < nb) :
    (addColumn nb store slot src).getD (σ * nb + B) dflt = store.getD (σ * nb + B) dflt := by
  have hd := slot_disjoint nb σ slot B hne hB
  rw [addColumn_getD, if_neg (by omega), if_neg (by omega)]

/-! ### the blocks of the pattern and the geometry of the handler -/

open RbV.Model.MyersLong in
theorem geo_blocks (w : Nat) (hw : 2 ≤ w) (p : List Nat) (hp : 1 ≤ p.length) :
    Geo w (blocksOf w p).length p.length ∧
    (∀ B, B < (blocksOf w p).length → ∃ blk, (blocksOf w p)[B]? = some blk ∧
      blk.length = lenB w (blocksOf w p).length p.length B ∧ rows B (blocksOf w p) = B * w) ∧
    (∀ L, L ≤ (blocksOf w p).length → rows L (blocksOf w p) = rowsL w (blocksOf w p).length p.length L) := by
  obtain ⟨c1, c2, _, c4⟩ := chunks_spec w (by omega) p.length p hp (Nat.le_refl _)
  have hrows := chunks_rows w (by omega) p.length p hp (Nat.le_refl _)
  have hall : rows (blocksOf w p).length (blocksOf w p) = p.length := by
    rw [rows_all]; unfold blocksOf; rw [c1]
  unfold blocksOf at *
  generalize chunks w p.length p = blks at *
  -- the last block
  obtain ⟨n, hn⟩ : ∃ n, blks.length = n + 1 := ⟨blks.length - 1, by omega⟩
  obtain ⟨lastb, hlast⟩ : ∃ blk, blks[n]? = some blk := by
    cases h : blks[n]? with
    | none => rw [List.getElem?_eq_none_iff] at h; omega
    | some blk => exact ⟨blk, rfl⟩
  have hlm := c2 lastb (List.mem_of_getElem? hlast)
  have hrs := rows_succ blks n lastb hlast
  have hrn := hrows n (by omega)
  rw [← hn, hall, hrn] at hrs
  have hgeo : Geo w blks.length p.length := by
    refine ⟨hw, by omega, ?_, ?_⟩ <;> (rw [hn]; simp only [Nat.add_sub_cancel]; omega)
  refine ⟨hgeo, ?_, ?_⟩
  · intro B hB
    obtain ⟨blk, hblk⟩ : ∃ blk, blks[B]? = some blk := by
      cases h : blks[B]? with
      | none => rw [List.getElem?_eq_none_iff] at h; omega
      | some blk => exact ⟨blk, rfl⟩
    refine ⟨blk, hblk, ?_, hrows B hB⟩
    have hrs' := rows_succ blks B blk hblk
    rw [hrows B hB] at hrs'
    unfold lenB
    by_cases hlastB : B + 1 = blks.length
    · rw [if_pos hlastB]
      rw [hlastB, hall] at hrs'
      have : blks.length - 1 = B := by omega
      rw [this]; omega
    · rw [if_neg hlastB]
      rw [hrows (B + 1) (by omega), Nat.succ_mul] at hrs'
      omega
  · intro L hL
    unfold rowsL
    by_cases h : L = blks.length
    · rw [if_pos h, h, hall]
    · rw [if_neg h]; exact hrows L (by omega)

open RbV.Model.MyersLong in
/-- the number of blocks is `⌈m / w⌉` (`LongStatesHandler::init`: `ceil_div(m, w)`; the driver sizes the old contents of
the states vector with this expression) -/
theorem blocksOf_length (w : Nat) (hw : 2 ≤ w) (p : List Nat) (hp : 1 ≤ p.length) :
    (blocksOf w p).length = (p.length + w - 1) / w := by
  obtain ⟨g, _, _⟩ := geo_blocks w hw p hp
  have h1 := g.lo
  have h2 := g.hi
  have h3 := g.hnb
  obtain ⟨n, hn⟩ : ∃ n, (blocksOf w p).length = n + 1 := ⟨(blocksOf w p).length - 1, by omega⟩
  rw [hn] at h1 h2 ⊢
  simp only [Nat.add_sub_cancel] at h1 h2
  symm
  apply Nat.div_eq_of_lt_le
  · rw [Nat.succ_mul]; omega
  · rw [Nat.succ_mul, Nat.succ_mul]; omega

open RbV.Model.MyersLong in
/-- block `B` of an encoded column -/
theorem ColEnc_get {w : Nat} {C : Nat → Int} : ∀ (blks : List (List Nat)) (sts : List (St w)) (r0 : Nat),
    ColEnc C r0 blks sts → ∀ B, B < sts.length → ∃ blk, blks[B]? = some blk ∧
      EncB blk.length (fun i => C (r0 + rows B blks + i)) (sts.getD B dflt).pv (sts.getD B dflt).mv ∧
      ((sts.getD B dflt).dist : Int) = C (r0 + rows B blks + blk.length) := by
  intro blks
  induction blks with
  | nil => intro sts r0 h B hB; cases sts <;> simp_all [ColEnc]
  | cons blk blks ih =>
    intro sts r0 h B hB
    cases sts with
    | nil => simp at hB
    | cons s ss =>
      obtain ⟨_, _, h3, h4, h5⟩ := h
      cases B with
      | zero =>
        refine ⟨blk, rfl, ?_, ?_⟩
        · simpa [rows] using h3
        · simpa [rows] using h4
      | succ B =>
        obtain ⟨b2, e1, e2, e3⟩ := ih ss (r0 + blk.length) h5 B (by simpa using hB)
        refine ⟨b2, by simpa using e1, ?_, ?_⟩
        · simp only [rows, List.getD_cons_succ]
          have : ∀ i, r0 + (blk.length + rows B blks) + i = r0 + blk.length + rows B blks + i := by intro i; omega
          simp only [this]
          exact e2
        · simp only [rows, List.getD_cons_succ]
          have : r0 + (blk.length + rows B blks) + b2.length = r0 + blk.length + rows B blks + b2.length := by omega
          rw [this]
          exact e3

end RbV.Model.MyersTracebackLong
