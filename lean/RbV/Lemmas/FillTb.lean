import RbV.Lemmas.FillRun
import RbV.Lemmas.FillLower
/-!
Traceback proof, fill side, part 1: the loop bodies of `Model/PairwiseFill.lean` write *good* move codes.

For every code written into a traceback cell together with the value written into the score cell, `Good T i j code value`
(`FillRun.lean`) is derived from the goodness of the codes of the cells the value came from — `T` is the final table;
what the lemmas need to know about it (`T.tI (i+1) j = …`, …) is a hypothesis here and is discharged in `FillTbCols.lean`
(columns `j < n`: the cell is never written again) and `FillTbLast.lean` (column `n`: the post-loops rewrite it).

The S field is chosen by a chain of `if cand > best` steps starting from a default (`TB_XCLIP_SUFFIX` with the tracker's
value, or `TB_START`/`MIN_SCORE`); `chain_step`: after each step the pair (code, value) is either still the default or
good.
-/
namespace RbV.Model.PairwiseFill
open RbV.Align

theorem upd_of_le {a b : Int} (h : a ≤ b) : upd a b = b := by
  unfold upd; split <;> omega

/-- `S[curr][i] = best; if S[curr][i] + xclip_suffix > S[curr][m] {…}` leaves `best` in the cell (for `i = m` the
comparison is `best + xclip_suffix > best`) -/
theorem s_final {b5 xs xm : Int} {m i : Nat} (hxs : xs ≤ 0) :
    (if i = m then upd (b5 + xs) (if i = m then b5 else xm) else b5) = b5 := by
  split
  · exact upd_of_le (by omega)
  · rfl

/-- one `if cand > best { best = cand; tb.set_s_bits(code) }`: the pair (code, value) is still the default, or it is
good and one of the candidates' codes (`Q`) -/
theorem chain_step {P : Tb → Int → Prop} {Q : Tb → Prop} {c0 c k : Tb} {b0 b v : Int}
    (h : (c = c0 ∧ b = b0) ∨ (P c b ∧ Q c)) (hk : P k v) (hq : Q k) :
    ((if v > b then k else c) = c0 ∧ upd v b = b0) ∨ (P (if v > b then k else c) (upd v b) ∧ Q (if v > b then k else c)) := by
  unfold upd
  split
  · right; exact ⟨hk, hq⟩
  · exact h

theorem trk_shape (b xm : Int) (k lx : Nat) :
    (upd b xm = xm ∧ (if b > xm then k else lx) = lx) ∨ ((if b > xm then k else lx) = k ∧ upd b xm = b) := by
  unfold upd
  split
  · right; exact ⟨rfl, rfl⟩
  · left; exact ⟨rfl, rfl⟩

section
variable {sc : Sc} {cl : Clip} {x y : List Nat} {T : Table}

/-! ### `I` and `D` fields (main loop) -/

/-- `best_i_score` with the I field `if i_score > s_score { TB_INS } else { S field of the cell above }` -/
theorem ins_good_main (hgo : sc.go ≤ 0) {i j : Nat} (r : Row) (hi : i + 1 ≤ x.length)
    (hT : T.tI (i + 1) j = if r.i + sc.ge > r.s + sc.go + sc.ge then .ins else r.t.ts)
    (hS : Good sc cl x y T i j r.t.ts r.s) (hI : 1 ≤ i → Good sc cl x y T i j .ins r.i)
    (hjunk : i = 0 → ¬ (r.i + sc.ge > r.s + sc.go + sc.ge)) :
    Good sc cl x y T (i + 1) j .ins (if r.i + sc.ge > r.s + sc.go + sc.ge then r.i + sc.ge else r.s + sc.go + sc.ge) := by
  by_cases hc : r.i + sc.ge > r.s + sc.go + sc.ge
  · rw [if_pos hc] at hT ⊢
    have h1 : 1 ≤ i := by
      rcases Nat.eq_zero_or_pos i with h0 | h0
      · exact absurd hc (hjunk h0)
      · exact h0
    exact good_ins_ext (by omega) hT (hI h1) (Int.le_refl _)
  · rw [if_neg hc] at hT ⊢
    exact good_ins_open hgo (by omega) hT hS (Int.le_refl _)

theorem del_good_main (hgo : sc.go ≤ 0) {i j : Nat} (pr : Row) (hj : j + 1 ≤ y.length)
    (hT : T.tD i (j + 1) = if pr.d + sc.ge > pr.s + sc.go + sc.ge then .del else pr.t.ts)
    (hS : Good sc cl x y T i j pr.t.ts pr.s) (hD : 1 ≤ j → Good sc cl x y T i j .del pr.d)
    (hjunk : j = 0 → ¬ (pr.d + sc.ge > pr.s + sc.go + sc.ge)) :
    Good sc cl x y T i (j + 1) .del (if pr.d + sc.ge > pr.s + sc.go + sc.ge then pr.d + sc.ge else pr.s + sc.go + sc.ge) := by
  by_cases hc : pr.d + sc.ge > pr.s + sc.go + sc.ge
  · rw [if_pos hc] at hT ⊢
    have h1 : 1 ≤ j := by
      rcases Nat.eq_zero_or_pos j with h0 | h0
      · exact absurd hc (hjunk h0)
      · exact h0
    exact good_del_ext (by omega) hT (hD h1) (Int.le_refl _)
  · rw [if_neg hc] at hT ⊢
    exact good_del_open hgo (by omega) hT hS (Int.le_refl _)

theorem sn0_shape (b : Int) (k : Nat) :
    upd b minScore = minScore ∨ ((if b > minScore then k else 0) = k ∧ upd b minScore = b) :=
  (trk_shape b minScore k 0).imp (·.1) id

/-! ### the S field of the inner loop -/

/-- the cell written by `stepJ`: its S code is still the default `TB_XCLIP_SUFFIX` with the value the cell had on
entry, or it is good for the value written -/
theorem stepJ_good_S (hxs : cl.xs ≤ 0) {i j : Nat} (prev : List Row) (r : Row)
    (hi : i + 1 ≤ x.length) (hj : j + 1 ≤ y.length)
    (hM : Good sc cl x y T i j (T.tS i j) (prev.getD i default).s)
    (hI : Good sc cl x y T (i + 1) (j + 1) .ins (stepJ sc cl x y (j + 1) prev (i + 1) r).i)
    (hD : Good sc cl x y T (i + 1) (j + 1) .del (stepJ sc cl x y (j + 1) prev (i + 1) r).d)
    (hX : ∃ v0, Good sc cl x y T 0 (j + 1) (T.tS 0 (j + 1)) v0 ∧
      max cl.yp (sc.go + sc.ge * ((j + 1 : Nat) : Int)) ≤ v0)
    (hY : ∃ v0, Good sc cl x y T (i + 1) 0 (T.tS (i + 1) 0) v0 ∧ sc.go + sc.ge * ((i + 1 : Nat) : Int) ≤ v0) :
    ((stepJ sc cl x y (j + 1) prev (i + 1) r).t.ts = .xsuf ∧
      (stepJ sc cl x y (j + 1) prev (i + 1) r).s = (if i + 1 = x.length then r.xm else minScore)) ∨
    (Good sc cl x y T (i + 1) (j + 1) (stepJ sc cl x y (j + 1) prev (i + 1) r).t.ts
      (stepJ sc cl x y (j + 1) prev (i + 1) r).s ∧ (stepJ sc cl x y (j + 1) prev (i + 1) r).t.ts ≠ .xsuf) := by
  obtain ⟨vx, hgx, hvx⟩ := hX
  obtain ⟨vy, hgy, hvy⟩ := hY
  -- the five candidates
  have k1 : Good sc cl x y T (i + 1) (j + 1) (if x.getD i 0 = y.getD j 0 then Tb.mat else Tb.subst)
      ((prev.getD i default).s + sc.w (x.getD i 0) (y.getD j 0)) := by
    split
    · rename_i hab; exact good_mat (by omega) (by omega) hab hM (Int.le_refl _)
    · rename_i hab; exact good_sub (by omega) (by omega) hab hM (Int.le_refl _)
  have k4 : Good sc cl x y T (i + 1) (j + 1) .xpre (cl.xp + max cl.yp (sc.go + sc.ge * ((j + 1 : Nat) : Int))) :=
    good_xpre (by omega) hi hgx (by omega)
  have k5 : Good sc cl x y T (i + 1) (j + 1) .ypre (cl.yp + sc.go + sc.ge * ((i + 1 : Nat) : Int)) :=
    good_ypre (by omega) hj hgy (by omega)
  have h0 : ((Tb.xsuf = Tb.xsuf ∧ (if i + 1 = x.length then r.xm else minScore) =
      (if i + 1 = x.length then r.xm else minScore)) ∨
      (Good sc cl x y T (i + 1) (j + 1) .xsuf (if i + 1 = x.length then r.xm else minScore) ∧ Tb.xsuf ≠ Tb.xsuf)) :=
    Or.inl ⟨rfl, rfl⟩
  have q1 : (if x.getD i 0 = y.getD j 0 then Tb.mat else Tb.subst) ≠ Tb.xsuf := by split <;> simp
  have c5 := chain_step (Q := (· ≠ Tb.xsuf)) (chain_step (Q := (· ≠ Tb.xsuf)) (chain_step (Q := (· ≠ Tb.xsuf))
    (chain_step (Q := (· ≠ Tb.xsuf)) (chain_step (Q := (· ≠ Tb.xsuf)) h0 k1 q1) hI (by simp)) hD (by simp)) k4 (by simp))
    k5 (by simp)
  -- the value stored: `S[curr][i] + xclip_suffix > S[curr][m]` cannot fire for `i = m`
  simp only [stepJ, Nat.add_sub_cancel]
  rw [s_final hxs]
  exact c5

/-! ### the registers in the inner loop -/


/-- x-suffix tracker after `stepJ`, rows below `m`: unchanged, or set from the cell just written -/
theorem stepJ_trk (j : Nat) (prev : List Row) (i : Nat) (r : Row) (hm : i ≠ x.length) :
    let r' := stepJ sc cl x y j prev i r
    (r'.xm = r.xm ∧ r'.t.lx = r.t.lx) ∨ (r'.t.lx = x.length - i ∧ r'.xm = r'.s + cl.xs) := by
  simp only [stepJ, if_neg hm]
  exact trk_shape _ _ _ _

/-- … and in row `m` (the cell is the register): `Lx[j]` keeps what the rows above left -/
theorem stepJ_lx_last (hxs : cl.xs ≤ 0) (j : Nat) (prev : List Row) (i : Nat) (r : Row) (hm : i = x.length) :
    (stepJ sc cl x y j prev i r).t.lx = r.t.lx := by
  simp only [stepJ, if_pos hm]
  rw [if_neg (by omega)]

/-- `Sn[i]`, `Ly[i]` after `stepJ`: unchanged, or set from the cell just written -/
theorem stepJ_sn (j : Nat) (prev : List Row) (i : Nat) (r : Row) :
    let r' := stepJ sc cl x y j prev i r
    (r'.sn = (prev.getD i default).sn ∧ r'.t.ly = (prev.getD i default).t.ly) ∨
      (r'.t.ly = y.length - j ∧ r'.sn = r'.s + cl.ys) := by
  simp only [stepJ]
  exact trk_shape _ _ _ _

/-! ### column 0 -/

theorem step0_good_I (hgo : sc.go ≤ 0) {i : Nat} (r : Row) (hi : i + 1 ≤ x.length)
    (hT : T.tI (i + 1) 0 = (step0 sc cl x y (i + 1) r).t.ti)
    (hO : ∃ v0, Good sc cl x y T 0 0 (T.tS 0 0) v0 ∧ 0 ≤ v0)
    (hI : 1 ≤ i → Good sc cl x y T i 0 .ins r.i ∧ sc.go + sc.ge * (i : Int) ≤ r.i) :
    Good sc cl x y T (i + 1) 0 .ins (step0 sc cl x y (i + 1) r).i := by
  obtain ⟨v0, hg0, hv0⟩ := hO
  simp only [step0] at hT ⊢
  by_cases h1 : i + 1 = 1
  · rw [if_pos h1] at hT ⊢
    have e : i = 0 := by omega
    subst e
    exact good_ins_open hgo (by omega) hT (good_start (Int.le_refl 0)) (by omega)
  · rw [if_neg h1] at hT ⊢
    obtain ⟨hgI, hvI⟩ := hI (by omega)
    by_cases hc : sc.go + sc.ge * ((i + 1 : Nat) : Int) > cl.xp + sc.go + sc.ge
    · rw [if_pos hc] at hT ⊢
      refine good_ins_ext (by omega) hT hgI ?_
      have e : sc.ge * ((i + 1 : Nat) : Int) = sc.ge * (i : Int) + sc.ge := by
        push_cast; rw [Int.mul_add, Int.mul_one]
      omega
    · rw [if_neg hc] at hT ⊢
      exact good_ins_open hgo (by omega) hT (good_xpre (v := cl.xp) (by omega) (by omega) hg0 (by omega)) (by omega)

/-- the S code of column 0: the default (`TB_XCLIP_SUFFIX` with the tracker's value in row `m`, `TB_START` with
`MIN_SCORE` above), or good -/
theorem step0_good_S {i : Nat} (r : Row) (hi : i + 1 ≤ x.length)
    (hI : Good sc cl x y T (i + 1) 0 .ins (step0 sc cl x y (i + 1) r).i)
    (hO : ∃ v0, Good sc cl x y T 0 0 (T.tS 0 0) v0 ∧ 0 ≤ v0) :
    ((step0 sc cl x y (i + 1) r).t.ts = (if i + 1 = x.length then Tb.xsuf else Tb.start) ∧
      (step0 sc cl x y (i + 1) r).s = (if i + 1 = x.length then r.xm else minScore)) ∨
    (Good sc cl x y T (i + 1) 0 (step0 sc cl x y (i + 1) r).t.ts (step0 sc cl x y (i + 1) r).s ∧
      (step0 sc cl x y (i + 1) r).t.ts ≠ .xsuf) := by
  obtain ⟨v0, hg0, hv0⟩ := hO
  have k2 : Good sc cl x y T (i + 1) 0 .xpre cl.xp := good_xpre (by omega) hi hg0 (by omega)
  have h0 : (((if i + 1 = x.length then Tb.xsuf else Tb.start) = (if i + 1 = x.length then Tb.xsuf else Tb.start) ∧
      (if i + 1 = x.length then r.xm else minScore) = (if i + 1 = x.length then r.xm else minScore)) ∨
      (Good sc cl x y T (i + 1) 0 (if i + 1 = x.length then Tb.xsuf else Tb.start)
        (if i + 1 = x.length then r.xm else minScore) ∧
        (if i + 1 = x.length then Tb.xsuf else Tb.start) ≠ Tb.xsuf)) := Or.inl ⟨rfl, rfl⟩
  have c2 := chain_step (Q := (· ≠ Tb.xsuf)) (chain_step (Q := (· ≠ Tb.xsuf)) h0 hI (by simp)) k2 (by simp)
  simp only [step0] at c2 ⊢
  exact c2

theorem step0_trk (i : Nat) (r : Row) (hm : i ≠ x.length) :
    let r' := step0 sc cl x y i r
    (r'.xm = r.xm ∧ r'.t.lx = r.t.lx) ∨ (r'.t.lx = x.length - i ∧ r'.xm = r'.s + cl.xs) := by
  simp only [step0, if_neg hm, ne_eq, hm, not_false_eq_true, true_and]
  exact trk_shape _ _ _ _

theorem step0_last (i : Nat) (r : Row) (hm : i = x.length) :
    (step0 sc cl x y i r).t.lx = r.t.lx ∧ (step0 sc cl x y i r).xm = (step0 sc cl x y i r).s := by
  simp [step0, hm]

theorem step0_sn (i : Nat) (r : Row) :
    let r' := step0 sc cl x y i r
    r'.sn = minScore ∨ (r'.t.ly = y.length ∧ r'.sn = r'.s + cl.ys) := by
  simp only [step0]
  exact sn0_shape _ _

/-! ### row 0 -/

theorem rowJ0_good_D (hgo : sc.go ≤ 0) {j : Nat} (p0 : Row) (hj : j + 1 ≤ y.length)
    (hT : T.tD 0 (j + 1) = (rowJ0 sc cl x y (j + 1) p0).t.td)
    (hO : ∃ v0, Good sc cl x y T 0 0 (T.tS 0 0) v0 ∧ 0 ≤ v0)
    (hD : 1 ≤ j → Good sc cl x y T 0 j .del p0.d ∧ sc.go + sc.ge * (j : Int) ≤ p0.d) :
    Good sc cl x y T 0 (j + 1) .del (rowJ0 sc cl x y (j + 1) p0).d := by
  obtain ⟨v0, hg0, hv0⟩ := hO
  simp only [rowJ0] at hT ⊢
  by_cases h1 : j + 1 = 1
  · rw [if_pos h1] at hT ⊢
    have e : j = 0 := by omega
    subst e
    exact good_del_open hgo (by omega) hT (good_start (Int.le_refl 0)) (by omega)
  · rw [if_neg h1] at hT ⊢
    obtain ⟨hgD, hvD⟩ := hD (by omega)
    by_cases hc : sc.go + sc.ge * ((j + 1 : Nat) : Int) > cl.yp + sc.go + sc.ge
    · rw [if_pos hc] at hT ⊢
      refine good_del_ext (by omega) hT hgD ?_
      have e : sc.ge * ((j + 1 : Nat) : Int) = sc.ge * (j : Int) + sc.ge := by
        push_cast; rw [Int.mul_add, Int.mul_one]
      omega
    · rw [if_neg hc] at hT ⊢
      exact good_del_open hgo (by omega) hT (good_ypre (v := cl.yp) (by omega) (by omega) hg0 (by omega)) (by omega)

/-- the S cell of row 0 in terms of its D cell -/
theorem rowJ0_s_ts (j : Nat) (p0 : Row) :
    (rowJ0 sc cl x y j p0).s =
      (if j = y.length ∧ p0.sn > (if (rowJ0 sc cl x y j p0).d > cl.yp then (rowJ0 sc cl x y j p0).d else cl.yp)
        then p0.sn else (if (rowJ0 sc cl x y j p0).d > cl.yp then (rowJ0 sc cl x y j p0).d else cl.yp)) ∧
    (rowJ0 sc cl x y j p0).t.ts =
      (if j = y.length ∧ p0.sn > (if (rowJ0 sc cl x y j p0).d > cl.yp then (rowJ0 sc cl x y j p0).d else cl.yp)
        then Tb.ysuf else (if (rowJ0 sc cl x y j p0).d > cl.yp then Tb.del else Tb.ypre)) := ⟨rfl, rfl⟩

theorem rowJ0_good_S {j : Nat} (p0 : Row) (hj : j + 1 ≤ y.length)
    (hD : Good sc cl x y T 0 (j + 1) .del (rowJ0 sc cl x y (j + 1) p0).d)
    (hO : ∃ v0, Good sc cl x y T 0 0 (T.tS 0 0) v0 ∧ 0 ≤ v0)
    (hY : j + 1 = y.length →
      p0.sn > (if (rowJ0 sc cl x y (j + 1) p0).d > cl.yp then (rowJ0 sc cl x y (j + 1) p0).d else cl.yp) →
      Good sc cl x y T 0 (j + 1) .ysuf p0.sn) :
    Good sc cl x y T 0 (j + 1) (rowJ0 sc cl x y (j + 1) p0).t.ts (rowJ0 sc cl x y (j + 1) p0).s := by
  obtain ⟨v0, hg0, hv0⟩ := hO
  have k2 : Good sc cl x y T 0 (j + 1) .ypre cl.yp := good_ypre (by omega) hj hg0 (by omega)
  obtain ⟨e1, e2⟩ := rowJ0_s_ts (sc := sc) (cl := cl) (x := x) (y := y) (j + 1) p0
  rw [e1, e2]
  generalize (rowJ0 sc cl x y (j + 1) p0).d = d0 at hD hY ⊢
  by_cases hc : j + 1 = y.length ∧ p0.sn > (if d0 > cl.yp then d0 else cl.yp)
  · rw [if_pos hc, if_pos hc]; exact hY hc.1 hc.2
  · rw [if_neg hc, if_neg hc]
    by_cases hd : d0 > cl.yp
    · rw [if_pos hd, if_pos hd]; exact hD
    · rw [if_neg hd, if_neg hd]; exact k2

theorem rowJ0_sn_ly (j : Nat) (p0 : Row) :
    let s0 := (if (rowJ0 sc cl x y j p0).d > cl.yp then (rowJ0 sc cl x y j p0).d else cl.yp)
    (rowJ0 sc cl x y j p0).sn = (if j = y.length ∧ p0.sn > s0 then p0.sn else upd (s0 + cl.ys) p0.sn) ∧
    (rowJ0 sc cl x y j p0).t.ly =
      (if j = y.length ∧ p0.sn > s0 then p0.t.ly else if s0 + cl.ys > p0.sn then y.length - j else p0.t.ly) :=
  ⟨rfl, rfl⟩

/-- `Sn[0]`, `Ly[0]` after the `i = 0` block: unchanged, or set from the cell just written -/
theorem rowJ0_sn (j : Nat) (p0 : Row) :
    let r' := rowJ0 sc cl x y j p0
    (r'.sn = p0.sn ∧ r'.t.ly = p0.t.ly) ∨ (r'.t.ly = y.length - j ∧ r'.sn = r'.s + cl.ys) := by
  obtain ⟨e1, e2⟩ := rowJ0_s_ts (sc := sc) (cl := cl) (x := x) (y := y) j p0
  obtain ⟨e3, e4⟩ := rowJ0_sn_ly (sc := sc) (cl := cl) (x := x) (y := y) j p0
  dsimp only at e3 e4 ⊢
  rw [e1, e3, e4]
  generalize (rowJ0 sc cl x y j p0).d = d0
  by_cases hc : j = y.length ∧ p0.sn > (if d0 > cl.yp then d0 else cl.yp)
  · rw [if_pos hc, if_pos hc, if_pos hc]; left; exact ⟨rfl, rfl⟩
  · rw [if_neg hc, if_neg hc, if_neg hc]
    exact trk_shape _ _ _ _

end

end RbV.Model.PairwiseFill
