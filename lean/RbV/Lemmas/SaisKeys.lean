import RbV.Lemmas.SaisInduceSpec
/-
The two orders in which `calc_pos` sorts:

* `sufR t`   — the suffix order of `t` (second call: sorted LMS suffixes ⇒ sorted suffixes);
* `leKey t`  — the order of the *typed LMS substrings* `key t x` = symbols (with their L/S type) from `x` up to and
               including the next LMS position after `x` (first call: unsorted LMS positions ⇒ positions sorted by
               their LMS substring).  In the L pass of the first call an LMS position only counts with its first
               symbol (`keyL`).
-/
namespace RbV.Sais
open RbV

/-- symbol with its type: `(c, L) < (c, S) < (c+1, L)` -/
def enc (t : List Nat) (p : Nat) : Nat := 2 * sym t p + (if isS (tyOf t) p then 1 else 0)

/-- typed symbol and LMS flag of every position -/
def zs (t : List Nat) : List (Nat × Bool) := (List.range t.length).map (fun q => (enc t q, isLms (tyOf t) q))

/-- typed symbols up to and including the first flagged one -/
def takeLms : List (Nat × Bool) → List Nat
  | [] => []
  | (e, f) :: r => e :: (if f then [] else takeLms r)

/-- typed LMS substring starting at `x` (for any position `x`): `x`, …, next LMS position after `x` -/
def key (t : List Nat) (x : Nat) : List Nat := enc t x :: takeLms ((zs t).drop (x + 1))

/-- in the L pass of the first call an LMS position counts with its first symbol only -/
def keyL (t : List Nat) (x : Nat) : List Nat := if isLms (tyOf t) x then [enc t x] else key t x

/-- `key x ≤ key y` -/
def leKey (t : List Nat) (x y : Nat) : Prop := ¬ lexLt (key t y) (key t x)

/-- `keyL x ≤ keyL y` -/
def leKeyL (t : List Nat) (x y : Nat) : Prop := ¬ lexLt (keyL t y) (keyL t x)

/-- suffix `x` is smaller than suffix `y` -/
def sufR (t : List Nat) (x y : Nat) : Prop := lexLt (t.drop x) (t.drop y)

end RbV.Sais
