import RbV.Lemmas.LcskppStep
/-! C19 — `lcskpp` mirror model: the whole sweep, the traceback, optimality.  Core Lean only. -/
namespace RbV.Lemmas.Lcskpp
open RbV.KChain RbV.Model.Lcskpp RbV.QGram RbV.Model.Fenwick RbV.Lemmas.Fenwick

theorem inv_fold {ms : List M} {k : Nat} (hk : 0 < k) (hs : ms.Pairwise lexLt) :
    ∀ (rest done : List Ev) (s : St), done ++ rest = sortedEvents ms k → Inv ms k done s →
      Inv ms k (sortedEvents ms k) (rest.foldl (stepEv ms k) s) := by
  intro rest
  induction rest with
  | nil => intro done s h hI; simp only [List.append_nil] at h; subst h; exact hI
  | cons e rest ih =>
    intro done s h hI
    have hE : sortedEvents ms k = done ++ e :: rest := h.symm
    obtain ⟨hnot, hbefore, hcomplete⟩ := split_facts (sortedEvents_pairwise ms k) (sortedEvents_nodup ms k) hE
    have hmem : e ∈ sortedEvents ms k := by rw [hE]; simp
    simp only [List.foldl_cons]
    obtain ⟨p, hp, rfl | rfl⟩ := (mem_sortedEvents ms k e).mp hmem
    · exact ih (done ++ [startEv ms p]) _ (by simpa using h) (inv_step_start hk hs hI hp hnot hbefore hcomplete)
    · exact ih (done ++ [endEv ms k p]) _ (by simpa using h) (inv_step_end hk hs hI hp hnot hcomplete)

/-- the invariant holds after the whole sweep -/
theorem sweep_inv {ms : List M} {k : Nat} (hk : 0 < k) (hs : ms.Pairwise lexLt) :
    Inv ms k (sortedEvents ms k) (sweep ms k) :=
  inv_fold hk hs _ [] _ rfl (inv_init ms k)

/-- the invariant holds at every point of the sweep -/
theorem sweep_inv_take {ms : List M} {k : Nat} (hk : 0 < k) (hs : ms.Pairwise lexLt) :
    ∀ n, n ≤ (sortedEvents ms k).length →
      Inv ms k ((sortedEvents ms k).take n) (((sortedEvents ms k).take n).foldl (stepEv ms k) (initSt ms k)) := by
  intro n
  induction n with
  | zero => intro _; simpa using inv_init ms k
  | succ n ih =>
    intro hn
    have hlt : n < (sortedEvents ms k).length := by omega
    have hI := ih (by omega)
    have hE : sortedEvents ms k = (sortedEvents ms k).take n ++ (sortedEvents ms k)[n] :: (sortedEvents ms k).drop (n + 1) := by
      rw [← List.drop_eq_getElem_cons hlt, List.take_append_drop]
    obtain ⟨hnot, hbefore, hcomplete⟩ := split_facts (sortedEvents_pairwise ms k) (sortedEvents_nodup ms k) hE
    rw [List.take_succ_eq_append_getElem hlt, List.foldl_append]
    simp only [List.foldl_cons, List.foldl_nil]
    obtain ⟨p, hp, he | he⟩ := (mem_sortedEvents ms k _).mp (List.getElem_mem hlt)
    · rw [he] at hnot hbefore hcomplete ⊢
      exact inv_step_start hk hs hI hp hnot hbefore hcomplete
    · rw [he] at hnot hcomplete ⊢
      exact inv_step_end hk hs hI hp hnot hcomplete

theorem sweep_inv_prefix {ms : List M} {k : Nat} (hk : 0 < k) (hs : ms.Pairwise lexLt) {done rest : List Ev}
    (h : sortedEvents ms k = done ++ rest) : Inv ms k done (done.foldl (stepEv ms k) (initSt ms k)) := by
  have := sweep_inv_take hk hs done.length (by rw [h]; simp)
  rw [h, List.take_left' rfl] at this
  exact this

theorem final_cell {ms : List M} {k : Nat} (hk : 0 < k) (hs : ms.Pairwise lexLt) {q : Nat} (hq : q < ms.length) :
    (cellAt (sweep ms k) q).1 = F ms k q :=
  (sweep_inv hk hs).ended q hq ((mem_sortedEvents ms k _).mpr ⟨q, hq, Or.inr rfl⟩)

theorem final_ptr {ms : List M} {k : Nat} (hk : 0 < k) (hs : ms.Pairwise lexLt) {q : Nat} (hq : q < ms.length) :
    PtrOk ms k (sortedEvents ms k) (cellAt (sweep ms k) q) q :=
  (sweep_inv hk hs).ptr q hq ((mem_sortedEvents ms k _).mpr ⟨q, hq, Or.inl rfl⟩)

/-- `best_dp` after the sweep: it names a match whose final cell carries the best score of all cells -/
theorem final_best {ms : List M} {k : Nat} (hk : 0 < k) (hs : ms.Pairwise lexLt) (hne : 0 < ms.length) :
    (∃ p, p < ms.length ∧ (sweep ms k).best.2 = (p : Int) ∧ (sweep ms k).best.1 = F ms k p) ∧
    ∀ q, q < ms.length → F ms k q ≤ (sweep ms k).best.1 := by
  have hI := sweep_inv hk hs
  have hub : ∀ q, q < ms.length → F ms k q ≤ (sweep ms k).best.1 := by
    intro q hq
    rw [← final_cell hk hs hq]
    exact hI.best_ub q hq ((mem_sortedEvents ms k _).mpr ⟨q, hq, Or.inl rfl⟩)
  refine ⟨?_, hub⟩
  rcases hI.best_at with h | ⟨p, hp, h2, _, h1⟩
  · refine ⟨0, hne, by rw [h]; rfl, ?_⟩
    have h1 := hub 0 hne
    have h2 := k_le_F hk hs hne
    rw [h] at h1 ⊢; simp only at h1 ⊢; omega
  · exact ⟨p, hp, h2, by rw [h1, final_cell hk hs hp]⟩

theorem best_eq_max0 {ms : List M} {k : Nat} (hk : 0 < k) (hs : ms.Pairwise lexLt) (hne : 0 < ms.length) :
    (sweep ms k).best.1 = max0 (dpScores ms k) := by
  obtain ⟨⟨p, hp, _, h1⟩, hub⟩ := final_best hk hs hne
  symm
  apply max0_eq_of
  · intro a ha
    obtain ⟨i, hi, rfl⟩ := List.getElem_of_mem ha
    have hi' : i < ms.length := by rw [dpScores_length] at hi; exact hi
    have := hub i hi'
    unfold F at this
    rw [List.getD_eq_getElem?_getD, List.getElem?_eq_getElem hi] at this
    exact this
  · right
    rw [h1]; unfold F
    have hi : p < (dpScores ms k).length := by rw [dpScores_length]; exact hp
    rw [List.getD_eq_getElem?_getD, List.getElem?_eq_getElem hi]
    exact List.getElem_mem hi

/-! ### traceback -/

theorem traceLoop_neg (dp : List (Nat × Int)) (fuel : Nat) : traceLoop dp (fuel + 1) (-1) = some [] := by
  simp [traceLoop]

theorem traceLoop_nat (dp : List (Nat × Int)) (fuel p : Nat) :
    traceLoop dp (fuel + 1) (p : Int) = (traceLoop dp fuel (dp.getD p (0, 0)).2).map (p :: ·) := by
  simp [traceLoop]

/-- following the predecessor pointers from `p` terminates within `p + 2` rounds of the loop and yields (latest match
first) a valid chain ending at `p` whose score is the cell of `p` -/
theorem trace_spec {ms : List M} {k : Nat} (hk : 0 < k) (hs : ms.Pairwise lexLt) :
    ∀ p, p < ms.length → ∀ fuel, p + 2 ≤ fuel →
      ∃ tb, traceLoop (sweep ms k).dp fuel (p : Int) = some (p :: tb) ∧ (∀ i ∈ p :: tb, i < ms.length) ∧
        RChain k ((p :: tb).map (mAt ms)) ∧ rscore k ((p :: tb).map (mAt ms)) = F ms k p ∧
        (p :: tb).Pairwise (· > ·) := by
  intro p
  induction p using Nat.strongRecOn with
  | _ p ih =>
    intro hp fuel hfuel
    obtain ⟨fuel, rfl⟩ : ∃ f, fuel = f + 1 := ⟨fuel - 1, by omega⟩
    rw [traceLoop_nat]
    have hcell := final_cell hk hs hp
    have hptr := final_ptr hk hs hp
    unfold cellAt at hcell hptr
    rcases hptr with ⟨h2, h1⟩ | ⟨r, hr, h2, _, hlink, h1⟩
    · rw [h2]
      obtain ⟨fuel, rfl⟩ : ∃ f, fuel = f + 1 := ⟨fuel - 1, by omega⟩
      rw [traceLoop_neg]
      refine ⟨[], rfl, by simpa using hp, by simp [RChain], ?_, by simp⟩
      simp only [List.map_cons, List.map_nil, rscore]; omega
    · rw [h2]
      have hrp : r < p := idx_lt_of_x_lt hs hr hp (link_x_lt hk hlink)
      obtain ⟨tb, ht, hall, hch, hsc, hpw⟩ := ih r hrp hr fuel (by omega)
      rw [ht]
      refine ⟨r :: tb, rfl, ?_, ?_, ?_, ?_⟩
      · intro i hi
        rcases List.mem_cons.mp hi with rfl | hi
        · exact hp
        · exact hall i hi
      · simp only [List.map_cons, RChain] at hch ⊢
        exact ⟨hlink, hch⟩
      · simp only [List.map_cons, rscore] at hsc ⊢
        rw [hsc]; omega
      · refine List.pairwise_cons.mpr ⟨?_, hpw⟩
        intro i hi
        rcases List.mem_cons.mp hi with rfl | hi
        · exact hrp
        · have := (List.pairwise_cons.mp hpw).1 i hi; omega

/-! ### the model is optimal -/

theorem lcskpp_model_ok {ms : List M} {k : Nat} (hk : 0 < k) (hs : ms.Pairwise lexLt) :
    ∃ r, lcskpp ms k = .ok r ∧ r.score = max0 (dpScores ms k) ∧ validChain ms k r.path = true ∧
      score k (pathMatches ms r.path) = max0 (dpScores ms k) ∧
      (∀ q, q < ms.length → (r.dp.getD q (0, 0)).1 = (dpScores ms k).getD q 0) ∧ r.path.Pairwise (· < ·) := by
  cases hms : ms with
  | nil =>
    refine ⟨{ path := [], score := 0, dp := [] }, by simp [lcskpp], by simp [dpScores, tableR, max0], by simp [validChain, pathMatches, chainB],
      by simp [pathMatches, score, dpScores, tableR, max0], by intro q hq; simp at hq, by simp⟩
  | cons m0 rest =>
    rw [← hms]
    have hne : 0 < ms.length := by rw [hms]; simp
    have hsorted : sortedStrict ms = true := (sortedStrict_iff ms).mpr hs
    obtain ⟨⟨p, hp, hb2, hb1⟩, _⟩ := final_best hk hs hne
    obtain ⟨tb, ht, hall, hch, hsc, hpw⟩ := trace_spec hk hs p hp (ms.length + 1) (by omega)
    have hopt : (sweep ms k).best.1 = max0 (dpScores ms k) := best_eq_max0 hk hs hne
    refine ⟨{ path := (p :: tb).reverse, score := (sweep ms k).best.1, dp := (sweep ms k).dp }, ?_, hopt, ?_, ?_, ?_, ?_⟩
    · unfold lcskpp
      have hemp : ms.isEmpty = false := by rw [hms]; rfl
      simp only [hemp, hsorted, Bool.false_eq_true, if_false, Bool.not_true, hb2, ht]
    · have hpm : pathMatches ms (p :: tb).reverse = ((p :: tb).map (mAt ms)).reverse := by
        unfold pathMatches; rw [List.map_reverse]; rfl
      unfold validChain
      rw [Bool.and_eq_true, chainB_iff, hpm, ← rchain_iff]
      refine ⟨?_, hch⟩
      rw [List.all_eq_true]
      intro i hi
      have hi' : i ∈ p :: tb := by
        simp only [List.mem_reverse] at hi; exact hi
      simpa using hall i hi'
    · have hpm : pathMatches ms (p :: tb).reverse = ((p :: tb).map (mAt ms)).reverse := by
        unfold pathMatches; rw [List.map_reverse]; rfl
      show score k (pathMatches ms (p :: tb).reverse) = _
      rw [hpm, ← rscore_eq, hsc, ← hb1, hopt]
    · intro q hq
      exact final_cell hk hs hq
    · show ((p :: tb).reverse).Pairwise (· < ·)
      rw [List.pairwise_reverse]; exact hpw

end RbV.Lemmas.Lcskpp
