import RbV.Lemmas.PoaTablesOK
import RbV.Lemmas.PoaHistory
/-!
# Every alignment mode of the model keeps the graph a DAG

`stepOps` = the operation list `Aligner::{global, semiglobal, local, custom, global_banded}(q).alignment()`
reports in the faithful models (`customAlign`, `bandedTable`), `stepAdd` = `add_to_graph()` after it.
-/
namespace RbV.Poa.Model
open RbV.NW RbV.Poa

theorem getLastD_concat (l : List Nat) (a d : Nat) : (l ++ [a]).getLastD d = a := by
  induction l generalizing d with
  | nil => rfl
  | cons b l ih => simp only [List.cons_append, List.getLastD_cons]; exact ih b

/-- the last node of `topo` has the largest rank -/
theorem topoRk_max (n : Nat) (es : WEdges) (K : Nat) (wf : ∀ e ∈ es, e.1 < n ∧ e.2.1 < n) (hac : Acyclic (plain es)) :
    ∀ v, topoRk n es K v ≤ topoRk n es K ((topo n es).getLastD 0) := by
  obtain ⟨vis, h1, _, _, _⟩ := topo_spec n es wf hac
  have hrev : (topo n es).reverse = vis := by rw [h1]; simp
  intro v
  unfold topoRk
  rw [hrev, h1]
  apply Nat.mul_le_mul_left
  cases vis with
  | nil => simp [posIn]
  | cons a r =>
    have : (a :: r).reverse.getLastD 0 = a := by
      simp only [List.reverse_cons]; exact getLastD_concat _ a 0
    rw [this]
    have h2 := posIn_le (a :: r) v
    simp only [posIn, if_true, List.length_cons] at h2 ⊢
    omega

/-- adding along the traceback of any local table (`OpsOK` with `L` = last node of `topo`) keeps a DAG -/
theorem traceF_add_dag (g : G) (q : List Nat) (hg : Dag g) (opAt : Nat → Nat → POp)
    (hops : OpsOK g.es ((topo g.labels.length g.es).getLastD 0) opAt) (f i j : Nat) :
    Dag (addAlignment g (traceF opAt f i j []) q) := by
  have hn : 0 < g.labels.length := by
    cases h : g.labels with
    | nil => exact absurd h hg.ne
    | cons a r => simp
  obtain ⟨ops, hops'⟩ : ∃ ops, ops = traceF opAt f i j [] := ⟨_, rfl⟩
  rw [← hops']
  obtain ⟨hhead, hK, hmin, hedge⟩ := topoRk_spec g.labels.length g.es (ops.length + 1) hn hg.wf hg.acyclic
  have hmax := topoRk_max g.labels.length g.es (ops.length + 1) hg.wf hg.acyclic
  have hbody := traceF_bodyB g.es opAt (topoRk g.labels.length g.es (ops.length + 1))
    g.labels.length ((topo g.labels.length g.es).headD 0) (ops.length + 1) _ hops
    hK hmin hmax hedge f i j [] (tinvX_free (by intros; simp [bodyB])) (by rw [← hops']; omega)
  have hrk : ∀ e ∈ g.es, e.1 < g.labels.length ∧ e.2.1 < g.labels.length ∧
      topoRk g.labels.length g.es (ops.length + 1) e.1 < topoRk g.labels.length g.es (ops.length + 1) e.2.1 := by
    intro e he
    obtain ⟨h1, h2⟩ := hg.wf e he
    have := (hedge e.2.1 e.1 ((mem_inN g.es e.2.1 e.1).mpr ⟨e.2.2, he⟩)).1
    exact ⟨h1, h2, by omega⟩
  rw [← hops'] at hbody
  obtain ⟨R, hR⟩ := addAlignment_rankOK g _ ops q hrk hhead hbody
  exact dag_of_rankOK hR hn

/-- the configured clip penalties of the `Scoring` -/
structure Clips where
  xp : Int
  xs : Int
  yp : Int
  ys : Int

inductive Mode
  | global
  | semiglobal
  | local
  | custom
  | banded (bw : Nat)

/-- the operation list `Aligner::<mode>(q).alignment()` reports (faithful models) -/
def stepOps (sc : Sc) (cl : Clips) (g : G) (mode : Mode) (q : List Nat) : List POp :=
  match mode with
  | .global => (customAlign sc minScore minScore minScore minScore g.labels g.es q).2
  | .semiglobal => (customAlign sc minScore minScore 0 0 g.labels g.es q).2
  | .local => (customAlign sc 0 0 0 0 g.labels g.es q).2
  | .custom => (customAlign sc cl.xp cl.xs cl.yp cl.ys g.labels g.es q).2
  | .banded bw => (bandedTable sc cl.xp cl.yp g.labels g.es q bw).ops g.labels.length

/-- `Aligner::<mode>(q).add_to_graph()` -/
def stepAdd (sc : Sc) (cl : Clips) (g : G) (mode : Mode) (q : List Nat) : G :=
  addAlignment g (stepOps sc cl g mode q) q

theorem customAlign_add_dag (sc : Sc) (xp xs yp ys : Int) (g : G) (q : List Nat) (hg : Dag g) :
    Dag (addAlignment g (customAlign sc xp xs yp ys g.labels g.es q).2 q) := by
  simp only [customAlign, BTable.ops]
  apply traceF_add_dag g q hg
  have := customTable_opsOK sc xp xs yp ys g.labels g.es q
  simpa [customTable] using this

theorem stepAdd_dag (sc : Sc) (cl : Clips) (g : G) (mode : Mode) (q : List Nat) (hg : Dag g) :
    Dag (stepAdd sc cl g mode q) := by
  cases mode with
  | global => exact customAlign_add_dag sc _ _ _ _ g q hg
  | semiglobal => exact customAlign_add_dag sc _ _ _ _ g q hg
  | «local» => exact customAlign_add_dag sc _ _ _ _ g q hg
  | custom => exact customAlign_add_dag sc _ _ _ _ g q hg
  | banded bw =>
    simp only [stepAdd, stepOps, BTable.ops]
    apply traceF_add_dag g q hg
    exact bandedTable_opsOK sc cl.xp cl.yp g.labels g.es q bw _

theorem stepAdd_grows (sc : Sc) (cl : Clips) (g : G) (mode : Mode) (q : List Nat) : Grows g (stepAdd sc cl g mode q) := by
  unfold stepAdd addAlignment
  exact (foldl_addStep_grows _ q _ { g := g, prev := (topo g.labels.length g.es).headD 0 }).1

/-- one step of a history: scoring, configured clip penalties, mode, query -/
abbrev HStep := Sc × Clips × Mode × List Nat

/-- the graph after a series of align-and-add steps in arbitrary modes, from the chain of `x` -/
def historyM (x : List Nat) (steps : List HStep) : G :=
  steps.foldl (fun g s => stepAdd s.1 s.2.1 g s.2.2.1 s.2.2.2) (chainG x)

theorem historyM_dag (x : List Nat) (hx : x ≠ []) (steps : List HStep) : Dag (historyM x steps) := by
  unfold historyM
  have key : ∀ (steps : List HStep) (g : G), Dag g →
      Dag (steps.foldl (fun g s => stepAdd s.1 s.2.1 g s.2.2.1 s.2.2.2) g) := by
    intro steps
    induction steps with
    | nil => intro g h; exact h
    | cons s r ih => intro g h; exact ih _ (stepAdd_dag s.1 s.2.1 g s.2.2.1 s.2.2.2 h)
  exact key steps _ (chainG_dag x hx)

theorem historyM_grows (x : List Nat) (steps more : List HStep) :
    Grows (historyM x steps) (historyM x (steps ++ more)) := by
  unfold historyM
  rw [List.foldl_append]
  have key : ∀ (steps : List HStep) (g : G), Grows g (steps.foldl (fun g s => stepAdd s.1 s.2.1 g s.2.2.1 s.2.2.2) g) := by
    intro steps
    induction steps with
    | nil => intro g; exact Grows.refl g
    | cons s r ih => intro g; exact (stepAdd_grows s.1 s.2.1 g s.2.2.1 s.2.2.2).trans (ih _)
  exact key more _

end RbV.Poa.Model
