import RbV.Model.SmallInts
import RbV.Spec.Containers
/-
C18 [A] — `SmallInts<S,B>` behaves like a plain `Vec<B>`: refinement of the mirror model
(`RbV.Model.SmallInts`) against the list specification (`RbV.Spec.SmallInts`).  Core Lean only.

`Abs` alone is an inductive invariant, also for an out-of-range `set` (which panics in Rust; in the
model it leaves `small` unchanged and at most adds a binding for an index `≥ length` to `big`, which no
in-range read consults, and which a later `push` of a big value shadows, of a small value never reads).
-/
namespace RbV.Lemmas.SmallInts
open RbV.Model.SmallInts RbV.Spec.SmallInts

/-- the model state `s` represents the plain vector `l`: same length and `get` agrees with indexing at
EVERY index (so reads beyond the end are `none`) -/
def Abs (hi : Int) (s : St) (l : List Int) : Prop :=
  s.small.length = l.length ∧ ∀ i, get hi s i = l[i]?

theorem lookup_cons_ne (k i : Nat) (v : Int) (m : List (Nat × Int)) (h : k ≠ i) :
    lookup ((k, v) :: m) i = lookup m i := by
  simp only [lookup, if_neg h]

theorem lookup_cons_eq (i : Nat) (v : Int) (m : List (Nat × Int)) :
    lookup ((i, v) :: m) i = some v := by
  simp only [lookup, if_true]

/-- in-range reading of `Abs` -/
theorem abs_get_lt {hi : Int} {s : St} {l : List Int} (h : Abs hi s l) (i : Nat)
    (hs : i < s.small.length) (hl : i < l.length) :
    realValue hi s i s.small[i] = some l[i] := by
  have := h.2 i
  simp only [Model.SmallInts.get, dif_pos hs, List.getElem?_eq_getElem hl] at this
  exact this

theorem abs_new (hi : Int) : Abs hi new [] := by
  refine ⟨rfl, fun i => ?_⟩
  simp [Model.SmallInts.get, new]

theorem abs_fromElem (hi v : Int) (n : Nat) (hv : v < hi) :
    Abs hi (fromElem v n) (specFromElem v n) := by
  refine ⟨by simp [fromElem, specFromElem], fun i => ?_⟩
  have hlen : (fromElem v n).small.length = n := by simp [fromElem]
  simp only [Model.SmallInts.get, specFromElem]
  by_cases h : i < n
  · have h' : i < (fromElem v n).small.length := by omega
    rw [dif_pos h']
    have : (fromElem v n).small[i] = v := by simp [fromElem]
    simp only [this, realValue, if_pos hv, List.getElem?_replicate, if_pos h]
  · have h' : ¬ i < (fromElem v n).small.length := by omega
    rw [dif_neg h']
    simp only [List.getElem?_replicate, if_neg h]

/-- push of a value stored directly -/
theorem abs_push_small (hi : Int) (s : St) (l : List Int) (x : Int) (hx : x < hi) (h : Abs hi s l) :
    Abs hi { s with small := s.small ++ [x] } (l ++ [x]) := by
  refine ⟨by simp [h.1], fun i => ?_⟩
  have hlen := h.1
  simp only [Model.SmallInts.get, List.length_append, List.length_singleton]
  split
  · rename_i hi'
    by_cases hlt : i < s.small.length
    · have := abs_get_lt h i hlt (by omega)
      simp only [List.getElem_append_left hlt]
      rw [List.getElem?_append_left (by omega), List.getElem?_eq_getElem (by omega)]
      simpa only [realValue] using this
    · have hi_eq : i = s.small.length := by omega
      subst hi_eq
      rw [List.getElem_append_right (by omega)]
      rw [List.getElem?_append_right (by omega)]
      simp [realValue, hx, hlen]
  · rename_i hi'
    rw [List.getElem?_eq_none (by simp; omega)]

/-- push of a value stored in `bigints` -/
theorem abs_push_big (hi : Int) (s : St) (l : List Int) (v : Int) (h : Abs hi s l) :
    Abs hi { small := s.small ++ [hi], big := (s.small.length, v) :: s.big } (l ++ [v]) := by
  refine ⟨by simp [h.1], fun i => ?_⟩
  have hlen := h.1
  simp only [Model.SmallInts.get, List.length_append, List.length_singleton]
  split
  · rename_i hi'
    by_cases hlt : i < s.small.length
    · have := abs_get_lt h i hlt (by omega)
      simp only [List.getElem_append_left hlt]
      rw [List.getElem?_append_left (by omega), List.getElem?_eq_getElem (by omega)]
      simp only [realValue] at this ⊢
      rw [lookup_cons_ne _ _ _ _ (by omega)]
      exact this
    · have hi_eq : i = s.small.length := by omega
      subst hi_eq
      rw [List.getElem_append_right (by omega)]
      rw [List.getElem?_append_right (by omega)]
      simp [realValue, lookup_cons_eq, hlen]
  · rename_i hi'
    rw [List.getElem?_eq_none (by simp; omega)]

theorem abs_push (lo hi : Int) (s : St) (l : List Int) (v : Int) (h : Abs hi s l) :
    Abs hi (push lo hi s v) (l ++ [v]) := by
  simp only [push, Model.SmallInts.cast]
  split
  · rename_i x hc
    split at hc
    · injection hc with hc
      subst hc
      split
      · rename_i hx
        exact abs_push_small hi s l v hx h
      · exact abs_push_big hi s l v h
    · exact absurd hc (by simp)
  · exact abs_push_big hi s l v h

/-- set of a value stored directly (any index) -/
theorem abs_set_small (hi : Int) (s : St) (l : List Int) (i : Nat) (x : Int) (hx : x < hi)
    (h : Abs hi s l) : Abs hi { s with small := s.small.set i x } (l.set i x) := by
  refine ⟨by simp [h.1], fun j => ?_⟩
  have hlen := h.1
  simp only [Model.SmallInts.get, List.length_set]
  split
  · rename_i hj
    have := abs_get_lt h j hj (by omega)
    rw [List.getElem?_eq_getElem (by simp; omega)]
    simp only [List.getElem_set]
    by_cases hij : i = j
    · simp only [if_pos hij, realValue, if_pos hx]
    · simp only [if_neg hij]
      simpa only [realValue] using this
  · rename_i hj
    rw [List.getElem?_eq_none (by simp; omega)]

/-- set of a value stored in `bigints` (any index) -/
theorem abs_set_big (hi : Int) (s : St) (l : List Int) (i : Nat) (v : Int)
    (h : Abs hi s l) : Abs hi { small := s.small.set i hi, big := (i, v) :: s.big } (l.set i v) := by
  refine ⟨by simp [h.1], fun j => ?_⟩
  have hlen := h.1
  simp only [Model.SmallInts.get, List.length_set]
  split
  · rename_i hj
    have := abs_get_lt h j hj (by omega)
    rw [List.getElem?_eq_getElem (by simp; omega)]
    simp only [List.getElem_set]
    by_cases hij : i = j
    · subst hij
      simp [realValue, lookup_cons_eq]
    · simp only [if_neg hij]
      simp only [realValue] at this ⊢
      rw [lookup_cons_ne _ _ _ _ hij]
      exact this
  · rename_i hj
    rw [List.getElem?_eq_none (by simp; omega)]

theorem abs_set (lo hi : Int) (s : St) (l : List Int) (i : Nat) (v : Int) (h : Abs hi s l) :
    Abs hi (set lo hi s i v) (l.set i v) := by
  simp only [Model.SmallInts.set, Model.SmallInts.cast]
  split
  · rename_i x hc
    split at hc
    · injection hc with hc
      subst hc
      split
      · rename_i hx
        exact abs_set_small hi s l i v hx h
      · exact abs_set_big hi s l i v h
    · exact absurd hc (by simp)
  · exact abs_set_big hi s l i v h

/-- one operation; NO in-range hypothesis for `set` is needed -/
theorem abs_step (lo hi : Int) (s : St) (l : List Int) (op : Op) (h : Abs hi s l) :
    Abs hi (step lo hi s op) (specStep l op) := by
  cases op with
  | push v => exact abs_push lo hi s l v h
  | set i v => exact abs_set lo hi s l i v h
  | get i => exact h
  | iter => exact h
  | decompress => exact h

/-- every operation history -/
theorem abs_run (lo hi : Int) (ops : List Op) (s : St) (l : List Int) (h : Abs hi s l) :
    Abs hi (ops.foldl (step lo hi) s) (ops.foldl specStep l) := by
  induction ops generalizing s l with
  | nil => exact h
  | cons op r ih => exact ih _ _ (abs_step lo hi s l op h)

theorem iterFrom_eq (hi : Int) (s : St) (r : List Int) :
    ∀ (k : Nat) (m : List Int), r.length = m.length →
      (∀ j (h1 : j < r.length) (h2 : j < m.length), realValue hi s (k + j) r[j] = some m[j]) →
      iterFrom hi s r k = m := by
  induction r with
  | nil =>
    intro k m hl _
    cases m with
    | nil => rfl
    | cons a m => simp at hl
  | cons v r ih =>
    intro k m hl hr
    cases m with
    | nil => simp at hl
    | cons a m =>
      have h0 := hr 0 (by simp) (by simp)
      simp only [Nat.add_zero, List.getElem_cons_zero] at h0
      simp only [iterFrom, h0]
      congr 1
      apply ih (k + 1) m (by simpa using hl)
      intro j h1 h2
      have := hr (j + 1) (by simp; omega) (by simp; omega)
      simp only [List.getElem_cons_succ] at this
      rw [show k + 1 + j = k + (j + 1) by omega]
      exact this

/-- iteration / decompress yields exactly the vector -/
theorem toList_of_abs (hi : Int) (s : St) (l : List Int) (h : Abs hi s l) : toList hi s = l := by
  unfold toList
  apply iterFrom_eq hi s s.small 0 l h.1
  intro j h1 h2
  rw [Nat.zero_add]
  exact abs_get_lt h j h1 h2

/-- the read after any history equals indexing into the specification vector -/
theorem get_of_abs (hi : Int) (s : St) (l : List Int) (h : Abs hi s l) (i : Nat) :
    get hi s i = l[i]? := h.2 i

theorem run_from_new (lo hi : Int) (ops : List Op) :
    Abs hi (ops.foldl (step lo hi) new) (ops.foldl specStep []) :=
  abs_run lo hi ops new [] (abs_new hi)

theorem run_from_elem (lo hi v : Int) (n : Nat) (hv : v < hi) (ops : List Op) :
    Abs hi (ops.foldl (step lo hi) (fromElem v n)) (ops.foldl specStep (specFromElem v n)) :=
  abs_run lo hi ops (fromElem v n) (specFromElem v n) (abs_fromElem hi v n hv)

/-- iteration after any history from `new` yields the specification vector -/
theorem toList_run_from_new (lo hi : Int) (ops : List Op) :
    toList hi (ops.foldl (step lo hi) new) = ops.foldl specStep [] :=
  toList_of_abs hi _ _ (run_from_new lo hi ops)

theorem toList_run_from_elem (lo hi v : Int) (n : Nat) (hv : v < hi) (ops : List Op) :
    toList hi (ops.foldl (step lo hi) (fromElem v n)) = ops.foldl specStep (specFromElem v n) :=
  toList_of_abs hi _ _ (run_from_elem lo hi v n hv ops)

end RbV.Lemmas.SmallInts
