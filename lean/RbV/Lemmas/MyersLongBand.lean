import RbV.Lemmas.MyersLongAll
/-!
The band logic of the block-based Myers matcher (`States::step`: activation of the next block, `add_state`,
deactivation of trailing blocks) keeps the invariant that makes the reported pairs exact (C09 [C]).  Core Lean only.

The active blocks hold a *pseudo-column* `P` (rows `0..R`): `P ≥ C` (the true Sellers column) and `P r = C r` wherever
`C r ≤ k`; every row below the active blocks has `C r > k`.
-/
namespace RbV.Model.MyersLong
open RbV.EditDist RbV.Model.MyersSimple
open RbV.Model.Ukkonen (cell cell_zero cell_nil cell_succ cell_diag expFrom expFrom_eq_hitsFrom
  fe_cons_pat_le fe_le_cons_text)

/-! ### the column recursion: locality, monotonicity, exactness below the threshold -/

theorem nextC_congr (P Q : Nat → Int) (e : Nat → Bool) (R : Nat) (h : ∀ r, r ≤ R → P r = Q r) :
    ∀ r, r ≤ R → nextC P e r = nextC Q e r := by
  intro r
  induction r with
  | zero => intro _; rfl
  | succ r ih =>
    intro hr
    simp only [nextC]
    rw [ih (by omega), h (r + 1) hr, h r (by omega)]

theorem nextC_mono (C P : Nat → Int) (e : Nat → Bool) (R : Nat) (h : ∀ r, r ≤ R → C r ≤ P r) :
    ∀ r, r ≤ R → nextC C e r ≤ nextC P e r := by
  intro r
  induction r with
  | zero => intro _; simp [nextC]
  | succ r ih =>
    intro hr
    have h1 := ih (by omega)
    have h2 := h (r + 1) hr
    have h3 := h r (by omega)
    simp only [nextC]
    split <;> omega

theorem nextC_exact (C P : Nat → Int) (e : Nat → Bool) (R : Nat) (k : Int) (h : ∀ r, r ≤ R → C r ≤ P r)
    (hx : ∀ r, r ≤ R → C r ≤ k → P r = C r) :
    ∀ r, r ≤ R → nextC C e r ≤ k → nextC P e r = nextC C e r := by
  intro r
  induction r with
  | zero => intro _ _; simp [nextC]
  | succ r ih =>
    intro hr hk
    have m1 := nextC_mono C P e R h (r + 1) hr
    have m0 := nextC_mono C P e R h r (by omega)
    have i0 := ih (by omega)
    have x1 := hx (r + 1) hr
    have x0 := hx r (by omega)
    have g1 := h (r + 1) hr
    have g0 := h r (by omega)
    simp only [nextC] at hk m1 ⊢
    split at hk <;> rename_i he <;> simp only [he, if_true, if_false] at m1 ⊢ <;> omega

/-! ### Lipschitz properties of the true column -/

theorem cell_vert (w : Nat → Nat → Nat) (p u : List Nat) (j : Nat) (hj : j < p.length) :
    cell w p u (j + 1) ≤ cell w p u j + 1 := by
  unfold cell
  rw [List.take_succ_eq_append_getElem hj]
  simp only [List.reverse_append, List.reverse_cons, List.reverse_nil, List.nil_append, List.singleton_append]
  have := fe_cons_pat_le w (List.take j p).reverse u.reverse p[j]
  omega

theorem cell_horiz_lower (w : Nat → Nat → Nat) (p u : List Nat) (c j : Nat) :
    cell w p u j ≤ cell w p (u ++ [c]) j + 1 := by
  unfold cell
  simp only [List.reverse_append, List.reverse_cons, List.reverse_nil, List.nil_append, List.singleton_append]
  have := fe_le_cons_text w (List.take j p).reverse u.reverse c
  omega

/-- inside a block the column falls by at most one per row going up -/
theorem EncB.span {w : Nat} {n : Nat} {D : Nat → Int} {pv mv : BitVec w} (enc : EncB n D pv mv) :
    ∀ i, i ≤ n → D n - D (n - i) ≤ i := by
  intro i
  induction i with
  | zero => intro _; simp
  | succ i ih =>
    intro hi
    have h1 := ih (by omega)
    have h2 := enc.diff (n - (i + 1)) (by omega)
    have e : n - (i + 1) + 1 = n - i := by omega
    rw [e] at h2
    omega

/-! ### rows and encodings of a prefix of the blocks -/

theorem rows_succ : ∀ (blks : List (List Nat)) (n : Nat) (blk : List Nat), blks[n]? = some blk →
    rows (n + 1) blks = rows n blks + blk.length := by
  intro blks
  induction blks with
  | nil => intro n blk h; simp at h
  | cons b blks ih =>
    intro n blk h
    cases n with
    | zero => simp at h; subst h; simp [rows]
    | succ n =>
      simp only [List.getElem?_cons_succ] at h
      simp only [rows, ih n blk h]
      omega

theorem rows_le_all : ∀ (blks : List (List Nat)) (n : Nat), rows n blks ≤ blks.flatten.length := by
  intro blks
  induction blks with
  | nil => intro n; cases n <;> simp [rows]
  | cons b blks ih =>
    intro n
    cases n with
    | zero => simp [rows]
    | succ n => have := ih n; simp only [rows, List.flatten_cons, List.length_append]; omega

theorem rows_ge_length : ∀ (blks : List (List Nat)) (n : Nat), blks.length ≤ n → rows n blks = blks.flatten.length := by
  intro blks
  induction blks with
  | nil => intro n _; cases n <;> simp [rows]
  | cons b blks ih =>
    intro n hn
    cases n with
    | zero => simp at hn
    | succ n => simp [rows, ih n (by simpa using hn)]

theorem ColEnc_snoc_iff {w : Nat} {C : Nat → Int} : ∀ (blks : List (List Nat)) (sts : List (St w)) (s : St w) (r0 : Nat),
    ColEnc C r0 blks (sts ++ [s]) ↔
      ColEnc C r0 blks sts ∧ ∃ blk, blks[sts.length]? = some blk ∧ 1 ≤ blk.length ∧ blk.length ≤ w ∧
        EncB blk.length (fun i => C (r0 + rows sts.length blks + i)) s.pv s.mv ∧
        (s.dist : Int) = C (r0 + rows sts.length blks + blk.length) := by
  intro blks
  induction blks with
  | nil => intro sts s r0; cases sts <;> simp [ColEnc]
  | cons b blks ih =>
    intro sts s r0
    cases sts with
    | nil =>
      simp only [List.nil_append, ColEnc, List.length_nil, List.getElem?_cons_zero, rows, Nat.add_zero, true_and]
      constructor
      · rintro ⟨h1, h2, h3, h4, _⟩; exact ⟨b, rfl, h1, h2, h3, h4⟩
      · rintro ⟨blk, hb, h1, h2, h3, h4⟩
        injection hb with hb; subst hb
        exact ⟨h1, h2, h3, h4, by cases blks <;> simp [ColEnc]⟩
    | cons s0 ss =>
      simp only [List.cons_append, ColEnc, List.length_cons, List.getElem?_cons_succ, rows]
      rw [ih ss s (r0 + b.length)]
      simp only [Nat.add_assoc]
      constructor
      · rintro ⟨h1, h2, h3, h4, h5, h6⟩; exact ⟨⟨h1, h2, h3, h4, h5⟩, h6⟩
      · rintro ⟨⟨h1, h2, h3, h4, h5⟩, h6⟩; exact ⟨h1, h2, h3, h4, h5, h6⟩

theorem ColEnc_length_le {w : Nat} {C : Nat → Int} : ∀ (blks : List (List Nat)) (sts : List (St w)) (r0 : Nat),
    ColEnc C r0 blks sts → sts.length ≤ blks.length := by
  intro blks
  induction blks with
  | nil => intro sts r0 h; cases sts <;> simp_all [ColEnc]
  | cons b blks ih =>
    intro sts r0 h
    cases sts with
    | nil => simp
    | cons s ss => have := ih ss _ h.2.2.2.2; simp; omega

/-- all blocks but the last are full -/
theorem chunks_rows (w : Nat) (hw : 1 ≤ w) : ∀ (fuel : Nat) (p : List Nat), 1 ≤ p.length → p.length ≤ fuel →
    ∀ n, n < (chunks w fuel p).length → rows n (chunks w fuel p) = n * w := by
  intro fuel
  induction fuel with
  | zero => intro p h1 h2; omega
  | succ fuel ih =>
    intro p h1 h2 n hn
    simp only [chunks] at hn ⊢
    by_cases hle : p.length ≤ w
    · simp only [hle, if_true, List.length_cons, List.length_nil] at hn ⊢
      have : n = 0 := by omega
      subst this; simp [rows]
    · simp only [hle, if_false, List.length_cons] at hn ⊢
      cases n with
      | zero => simp [rows]
      | succ n =>
        have hd : (p.drop w).length = p.length - w := by simp
        have := ih (p.drop w) (by omega) (by omega) n (by omega)
        simp only [rows, this, List.length_take]
        have e1 : min w p.length = w := by omega
        have e2 : (n + 1) * w = n * w + w := Nat.succ_mul n w
        omega

theorem initGo_prefix (w : Nat) : ∀ (blks : List (List Nat)) (n acc : Nat),
    (∀ blk, blk ∈ blks → 1 ≤ blk.length ∧ blk.length ≤ w) →
    ColEnc (fun r => (r : Int)) acc blks (initStates.go w n blks acc) ∧
    (initStates.go w n blks acc).length = min n blks.length := by
  intro blks
  induction blks with
  | nil => intro n acc _; cases n <;> simp [initStates.go, ColEnc]
  | cons blk blks ih =>
    intro n acc hb
    cases n with
    | zero => simp [initStates.go, ColEnc]
    | succ n =>
      simp only [initStates.go]
      obtain ⟨i1, i2⟩ := ih n (acc + blk.length) (fun b hb' => hb b (by simp [hb']))
      have hbl := hb blk (by simp)
      refine ⟨⟨hbl.1, hbl.2, ⟨?_, ?_, ?_⟩, by simp, i1⟩, by simp only [List.length_cons, i2]; omega⟩
      · intro i _; constructor <;> (simp only []; omega)
      · intro i hi
        have : i < w := by omega
        simp [this]; omega
      · intro i hi
        simp; omega

theorem bitsOK_get (eqv : Nat → Nat → Bool) (a : Nat) (e : Nat → Bool) : ∀ (blks : List (List Nat)) (r0 n : Nat)
    (blk : List Nat), BitsOK eqv a e r0 blks → blks[n]? = some blk →
    ∀ i, (hi : i < blk.length) → e (r0 + rows n blks + i) = eqv blk[i] a := by
  intro blks
  induction blks with
  | nil => intro r0 n blk _ h; simp at h
  | cons b blks ih =>
    intro r0 n blk hb h i hi
    cases n with
    | zero =>
      simp at h; subst h
      simp only [rows, Nat.add_zero]
      exact hb.1 i hi
    | succ n =>
      simp only [List.getElem?_cons_succ] at h
      have := ih (r0 + b.length) n blk hb.2 h i hi
      simp only [rows]
      rw [← this]
      congr 1
      omega

theorem rows_lt : ∀ (blks : List (List Nat)) (n : Nat), (∀ blk, blk ∈ blks → 1 ≤ blk.length) → n < blks.length →
    rows n blks < blks.flatten.length := by
  intro blks
  induction blks with
  | nil => intro n _ h; simp at h
  | cons b blks ih =>
    intro n hb hn
    have h1 := hb b (by simp)
    cases n with
    | zero => simp [rows]; omega
    | succ n =>
      have := ih n (fun blk h => hb blk (by simp [h])) (by simpa using hn)
      simp only [rows, List.flatten_cons, List.length_append]; omega

theorem cell_vert_iter (w : Nat → Nat → Nat) (p u : List Nat) (j : Nat) : ∀ i, j + i ≤ p.length →
    cell w p u (j + i) ≤ cell w p u j + i := by
  intro i
  induction i with
  | zero => intro _; simp
  | succ i ih =>
    intro h
    have h1 := ih (by omega)
    have h2 := cell_vert w p u (j + i) (by omega)
    have e : j + (i + 1) = j + i + 1 := by omega
    rw [e]; omega

/-! ### the band invariant -/

/-- the active blocks `sts` hold the pseudo-column `P` after the text prefix `u` -/
structure Band {w : Nat} (eqv : Nat → Nat → Bool) (p : List Nat) (k : Nat) (blks : List (List Nat))
    (P : Nat → Int) (u : List Nat) (sts : List (St w)) : Prop where
  col : ColEnc P 0 blks sts
  ne : 1 ≤ sts.length
  nn : ∀ r, 0 ≤ P r
  ge : ∀ r, r ≤ rows sts.length blks → (cell (unitW eqv) p u r : Int) ≤ P r
  ex : ∀ r, r ≤ rows sts.length blks → (cell (unitW eqv) p u r : Int) ≤ k → P r = cell (unitW eqv) p u r
  out : ∀ r, rows sts.length blks < r → r ≤ p.length → (k : Int) < cell (unitW eqv) p u r

/-- dropping a trailing block whose last row is ≥ k + w keeps the invariant -/
theorem band_cut {w : Nat} (eqv : Nat → Nat → Bool) (p : List Nat) (k : Nat) (blks : List (List Nat))
    (P : Nat → Int) (u : List Nat) (sts : List (St w)) (s : St w) (hne : sts ≠ [])
    (hd : k + w ≤ s.dist) (b : Band eqv p k blks P u (sts ++ [s])) : Band eqv p k blks P u sts := by
  obtain ⟨hc, ⟨blk, hblk, hl1, hlw, henc, hdist⟩⟩ := (ColEnc_snoc_iff blks sts s 0).mp b.col
  have hrows : rows (sts ++ [s]).length blks = rows sts.length blks + blk.length := by
    simp only [List.length_append, List.length_cons, List.length_nil]
    exact rows_succ blks sts.length blk hblk
  simp only [Nat.zero_add] at henc hdist
  refine ⟨hc, by cases sts <;> simp_all, b.nn, ?_, ?_, ?_⟩
  · intro r hr; exact b.ge r (by rw [hrows]; omega)
  · intro r hr; exact b.ex r (by rw [hrows]; omega)
  · intro r hr hm
    by_cases hin : r ≤ rows sts.length blks + blk.length
    · -- a row of the dropped block
      have hsp := henc.span (rows sts.length blks + blk.length - r) (by omega)
      have e : rows sts.length blks + (blk.length - (rows sts.length blks + blk.length - r)) = r := by omega
      rw [e] at hsp
      have hP : (k : Int) < P r := by
        have : ((k + w : Nat) : Int) ≤ (s.dist : Int) := by exact_mod_cast hd
        rw [hdist] at this
        push_cast at this
        omega
      apply Int.lt_of_not_ge
      intro hcon
      have := b.ex r (by rw [hrows]; omega) hcon
      omega
    · exact b.out r (by rw [hrows]; omega) hm

theorem band_cutRev {w : Nat} (eqv : Nat → Nat → Bool) (p : List Nat) (k : Nat) (blks : List (List Nat))
    (P : Nat → Int) (u : List Nat) : ∀ (l : List (St w)), Band eqv p k blks P u l.reverse →
    Band eqv p k blks P u (cutRev k w l).reverse := by
  intro l
  induction l with
  | nil => intro h; simpa [cutRev] using h
  | cons s t ih =>
    intro h
    cases t with
    | nil => simpa [cutRev] using h
    | cons s2 t2 =>
      simp only [cutRev]
      by_cases hd : s.dist ≥ k + w
      · rw [if_pos hd]
        apply ih
        have h' : Band eqv p k blks P u ((s2 :: t2).reverse ++ [s]) := by simpa using h
        exact band_cut eqv p k blks P u _ s (by simp) hd h'
      · rw [if_neg hd]; exact h

/-- what `known_dist()` says in a state that satisfies the invariant -/
theorem band_known {w : Nat} (eqv : Nat → Nat → Bool) (p : List Nat) (k : Nat) (blks : List (List Nat))
    (hflat : blks.flatten = p) (hsz : ∀ blk, blk ∈ blks → 1 ≤ blk.length)
    (P : Nat → Int) (u : List Nat) (sts : List (St w)) (b : Band eqv p k blks P u sts) :
    match knownDist blks.length sts with
    | some d => (d ≤ k ↔ cell (unitW eqv) p u p.length ≤ k) ∧ (d ≤ k → d = cell (unitW eqv) p u p.length)
    | none => k < cell (unitW eqv) p u p.length := by
  unfold knownDist
  by_cases hl : sts.length = blks.length
  · rw [if_pos hl]
    have hne : sts ≠ [] := by intro h; have := b.ne; simp [h] at this
    have hlast := ColEnc_last blks sts 0 b.col hne
    have hR : rows sts.length blks = p.length := by rw [hl, rows_all, hflat]
    rw [Nat.zero_add, hR] at hlast
    have hge := b.ge p.length (by omega)
    have hex := b.ex p.length (by omega)
    cases hg : sts.getLast? with
    | none => rw [List.getLast?_eq_none_iff] at hg; exact absurd hg hne
    | some s =>
      rw [hg] at hlast
      simp only [Option.map_some, Option.getD_some] at hlast ⊢
      constructor
      · constructor
        · intro h; omega
        · intro h
          have := hex (by exact_mod_cast h)
          omega
      · intro h
        have h1 : (cell (unitW eqv) p u p.length : Int) ≤ k := by omega
        have := hex h1
        omega
  · rw [if_neg hl]
    have hle := ColEnc_length_le blks sts 0 b.col
    have hlt := rows_lt blks sts.length hsz (by omega)
    rw [hflat] at hlt
    have := b.out p.length hlt (Nat.le_refl _)
    exact_mod_cast this

/-! ### one text symbol -/

section step
variable {w : Nat} (eqv : Nat → Nat → Bool) (p : List Nat) (k : Nat) (blks : List (List Nat))
  (hflat : blks.flatten = p) (hsz : ∀ blk, blk ∈ blks → 1 ≤ blk.length ∧ blk.length ≤ w)

include hflat in
/-- advancing the active blocks: they now hold `nextC P e`, which again dominates the true column and is exact
where the true column is ≤ k; the rows two or more below the active region stay above k -/
theorem band_advance (P : Nat → Int) (u : List Nat) (sts : List (St w)) (a : Nat)
    (b : Band eqv p k blks P u sts) :
    ColEnc (nextC P (matchBits eqv p a)) 0 blks (advanceAll eqv a blks sts 0).1 ∧
    (advanceAll eqv a blks sts 0).1.length = sts.length ∧
    (advanceAll eqv a blks sts 0).2 =
      nextC P (matchBits eqv p a) (rows sts.length blks) - P (rows sts.length blks) ∧
    (-1 ≤ (advanceAll eqv a blks sts 0).2 ∧ (advanceAll eqv a blks sts 0).2 ≤ 1) ∧
    (∀ r, r ≤ rows sts.length blks →
      (cell (unitW eqv) p (u ++ [a]) r : Int) ≤ nextC P (matchBits eqv p a) r) ∧
    (∀ r, r ≤ rows sts.length blks → (cell (unitW eqv) p (u ++ [a]) r : Int) ≤ k →
      nextC P (matchBits eqv p a) r = cell (unitW eqv) p (u ++ [a]) r) ∧
    (∀ r, rows sts.length blks + 1 < r → r ≤ p.length → (k : Int) < cell (unitW eqv) p (u ++ [a]) r) := by
  have hbits : BitsOK eqv a (matchBits eqv p a) 0 blks := by
    have := bitsOK_flatten eqv a blks []
    simpa [hflat] using this
  have hP0 : P 0 = 0 := by
    have := b.ex 0 (by omega) (by simp [cell_zero])
    simpa [cell_zero] using this
  obtain ⟨k1, k2, k3, k4⟩ := advanceAll_enc eqv a P (matchBits eqv p a) (nextC_nonneg _ _ b.nn) blks sts 0 0
    b.col hbits (by omega) (by simp [nextC, hP0])
  rw [Nat.zero_add] at k3
  have hRm : rows sts.length blks ≤ p.length := by rw [← hflat]; exact rows_le_all blks _
  have he : ∀ i, (hi : i < p.length) → matchBits eqv p a i = eqv p[i] a := by
    intro i hi; simp [matchBits, hi]
  have hcell := nextC_cell eqv p u a (matchBits eqv p a) he
  refine ⟨k1, k2, k3, k4, ?_, ?_, ?_⟩
  · intro r hr
    rw [← hcell r (by omega)]
    exact nextC_mono _ P _ (rows sts.length blks) b.ge r hr
  · intro r hr hk
    rw [← hcell r (by omega)] at hk ⊢
    exact nextC_exact _ P _ (rows sts.length blks) k b.ge b.ex r hr hk
  · intro r hr hm
    cases r with
    | zero => omega
    | succ r =>
      have h1 := cell_diag (unitW eqv) p u a r (by omega)
      have h2 := b.out r (by omega) (by omega)
      have : (cell (unitW eqv) p u r : Int) ≤ cell (unitW eqv) p (u ++ [a]) (r + 1) := by exact_mod_cast h1
      omega

include hflat hsz in
/-- switching the next block on (whatever the reason) keeps the invariant -/
theorem band_activate (P : Nat → Int) (u : List Nat) (sts : List (St w)) (a : Nat) (blk : List Nat)
    (hblk : blks[sts.length]? = some blk) (d : Nat)
    (hd : (d : Int) = P (rows sts.length blks) + blk.length)
    (b : Band eqv p k blks P u sts) :
    ∃ P', Band eqv p k blks P' (u ++ [a])
      ((advanceAll eqv a blks sts 0).1 ++
        [(advanceBlock (blk.length - 1) (peq w eqv blk a) (advanceAll eqv a blks sts 0).2
          ⟨BitVec.allOnes w, 0#w, d⟩).1]) := by
  obtain ⟨a1, a2, a3, a4, _, _, _⟩ := band_advance eqv p k blks hflat P u sts a b
  have hmem : blk ∈ blks := List.mem_of_getElem? hblk
  obtain ⟨hl1, hlw⟩ := hsz blk hmem
  have hrs := rows_succ blks sts.length blk hblk
  have hRm : rows sts.length blks + blk.length ≤ p.length := by
    rw [← hrs, ← hflat]; exact rows_le_all blks _
  -- the previous pseudo-column, extended by the steepest continuation
  let Pt : Nat → Int := fun r =>
    if r ≤ rows sts.length blks then P r else P (rows sts.length blks) + ((r - rows sts.length blks : Nat) : Int)
  have hPt_low : ∀ r, r ≤ rows sts.length blks → Pt r = P r := by
    intro r hr; simp only [Pt, hr, if_true]
  have hPt_high : ∀ i, Pt (rows sts.length blks + i) = P (rows sts.length blks) + i := by
    intro i
    by_cases hi : i = 0
    · subst hi; simp [Pt]
    · have : ¬ (rows sts.length blks + i ≤ rows sts.length blks) := by omega
      simp only [Pt, this, if_false]
      congr 2; omega
  have hPt_nn : ∀ r, 0 ≤ Pt r := by
    intro r
    by_cases hr : r ≤ rows sts.length blks
    · rw [hPt_low r hr]; exact b.nn r
    · have := b.nn (rows sts.length blks)
      simp only [Pt, hr, if_false]; omega
  have hcong : ∀ r, r ≤ rows sts.length blks →
      nextC P (matchBits eqv p a) r = nextC Pt (matchBits eqv p a) r :=
    fun r hr => nextC_congr P Pt _ (rows sts.length blks) (fun r' hr' => (hPt_low r' hr').symm) r hr
  have hbits : BitsOK eqv a (matchBits eqv p a) 0 blks := by
    have := bitsOK_flatten eqv a blks []
    simpa [hflat] using this
  have hpe : ∀ i, i < blk.length → (peq w eqv blk a).getLsbD i = matchBits eqv p a (rows sts.length blks + i) := by
    intro i hi
    rw [peq_bit w eqv blk a i hi hlw]
    have := bitsOK_get eqv a _ blks 0 sts.length blk hbits hblk i hi
    rw [Nat.zero_add] at this
    exact this.symm
  have hbnd : blk.length - 1 + 1 = blk.length := by omega
  have hloc := nextCB_eq Pt (matchBits eqv p a) (peq w eqv blk a).getLsbD (rows sts.length blks) blk.length hpe
  -- the fresh block encodes the extension
  have hfresh : EncB blk.length (fun i => Pt (rows sts.length blks + i)) (BitVec.allOnes w) (0#w) := by
    refine ⟨?_, ?_, ?_⟩
    · intro i _; simp only [hPt_high]; constructor <;> omega
    · intro i hi
      have : i < w := by omega
      simp only [hPt_high]; simp [this]; omega
    · intro i _
      simp only [hPt_high]; simp; omega
  have key := advanceBlock_enc (blk.length - 1) (by omega) (fun i => Pt (rows sts.length blks + i))
    (peq w eqv blk a) ⟨BitVec.allOnes w, 0#w, d⟩ (nextC Pt (matchBits eqv p a) (rows sts.length blks))
    (advanceAll eqv a blks sts 0).2 a4
    (by rw [a3, ← hcong _ (Nat.le_refl _)]; simp only [Nat.add_zero]; rw [hPt_low _ (Nat.le_refl _)])
    (by rw [hbnd]; exact hfresh)
    (by rw [hbnd]; simp only [hPt_high]; exact hd)
    (by rw [hbnd, hloc _ (Nat.le_refl _)]; exact nextC_nonneg _ _ hPt_nn _)
  rw [hbnd] at key
  obtain ⟨e1, e2, _⟩ := key
  rw [hloc _ (Nat.le_refl _)] at e2
  -- assemble
  refine ⟨nextC Pt (matchBits eqv p a), ?_⟩
  have hcol : ColEnc (nextC Pt (matchBits eqv p a)) 0 blks
      ((advanceAll eqv a blks sts 0).1 ++
        [(advanceBlock (blk.length - 1) (peq w eqv blk a) (advanceAll eqv a blks sts 0).2
          ⟨BitVec.allOnes w, 0#w, d⟩).1]) := by
    rw [ColEnc_snoc_iff]
    refine ⟨ColEnc.congr blks _ 0 (fun r hr => hcong r (by rw [a2] at hr; omega)) a1, blk, by rw [a2]; exact hblk,
      hl1, hlw, ?_, ?_⟩
    · rw [a2, Nat.zero_add]; exact EncB.congr hloc e1
    · rw [a2, Nat.zero_add]; exact e2
  have hlen : ((advanceAll eqv a blks sts 0).1 ++
        [(advanceBlock (blk.length - 1) (peq w eqv blk a) (advanceAll eqv a blks sts 0).2
          ⟨BitVec.allOnes w, 0#w, d⟩).1]).length = sts.length + 1 := by simp [a2]
  have he : ∀ i, (hi : i < p.length) → matchBits eqv p a i = eqv p[i] a := by
    intro i hi; simp [matchBits, hi]
  have hcell := nextC_cell eqv p u a (matchBits eqv p a) he
  -- the extended pseudo-column dominates the previous true column and is exact where that is ≤ k
  have hge : ∀ r, r ≤ rows sts.length blks + blk.length → (cell (unitW eqv) p u r : Int) ≤ Pt r := by
    intro r hr
    by_cases hlow : r ≤ rows sts.length blks
    · rw [hPt_low r hlow]; exact b.ge r hlow
    · obtain ⟨i, rfl⟩ : ∃ i, r = rows sts.length blks + i := ⟨r - rows sts.length blks, by omega⟩
      have h1 := cell_vert_iter (unitW eqv) p u (rows sts.length blks) i (by omega)
      have h2 := b.ge (rows sts.length blks) (Nat.le_refl _)
      rw [hPt_high]
      have : (cell (unitW eqv) p u (rows sts.length blks + i) : Int) ≤
          cell (unitW eqv) p u (rows sts.length blks) + (i : Int) := by exact_mod_cast h1
      omega
  have hex : ∀ r, r ≤ rows sts.length blks + blk.length → (cell (unitW eqv) p u r : Int) ≤ k →
      Pt r = cell (unitW eqv) p u r := by
    intro r hr hk
    by_cases hlow : r ≤ rows sts.length blks
    · rw [hPt_low r hlow]; exact b.ex r hlow hk
    · have := b.out r (by omega) (by omega); omega
  refine ⟨hcol, by rw [hlen]; omega, nextC_nonneg _ _ hPt_nn, ?_, ?_, ?_⟩
  · intro r hr
    rw [hlen, hrs] at hr
    rw [← hcell r (by omega)]
    exact nextC_mono _ Pt _ _ hge r hr
  · intro r hr hk
    rw [hlen, hrs] at hr
    rw [← hcell r (by omega)] at hk ⊢
    exact nextC_exact _ Pt _ _ k hge hex r hr hk
  · intro r hr hm
    rw [hlen, hrs] at hr
    cases r with
    | zero => omega
    | succ r =>
      have h1 := cell_diag (unitW eqv) p u a r (by omega)
      have h2 := b.out r (by omega) (by omega)
      have : (cell (unitW eqv) p u r : Int) ≤ cell (unitW eqv) p (u ++ [a]) (r + 1) := by exact_mod_cast h1
      omega

include hflat in
/-- not switching the next block on is safe when the activation test fails -/
theorem band_noact (P : Nat → Int) (u : List Nat) (sts : List (St w)) (a : Nat)
    (b : Band eqv p k blks P u sts)
    (hn : rows sts.length blks < p.length →
      ¬ (P (rows sts.length blks) ≤ k ∧
        (matchBits eqv p a (rows sts.length blks) = true ∨ (advanceAll eqv a blks sts 0).2 < 0))) :
    Band eqv p k blks (nextC P (matchBits eqv p a)) (u ++ [a]) (advanceAll eqv a blks sts 0).1 := by
  obtain ⟨a1, a2, a3, a4, a5, a6, a7⟩ := band_advance eqv p k blks hflat P u sts a b
  refine ⟨a1, by rw [a2]; exact b.ne, nextC_nonneg _ _ b.nn, by rw [a2]; exact a5, by rw [a2]; exact a6, ?_⟩
  rw [a2]
  intro r hr hm
  by_cases hr1 : rows sts.length blks + 1 < r
  · exact a7 r hr1 hm
  · have hrR : r = rows sts.length blks + 1 := by omega
    subst hrR
    have hlt : rows sts.length blks < p.length := by omega
    have hnc := hn hlt
    have hsucc := cell_succ (unitW eqv) p u a (rows sts.length blks) hlt
    have hout := b.out (rows sts.length blks + 1) (by omega) hm
    have hvert := cell_vert (unitW eqv) p u (rows sts.length blks) hlt
    have hhor := cell_horiz_lower (unitW eqv) p u a (rows sts.length blks)
    have hge := b.ge (rows sts.length blks) (Nat.le_refl _)
    have hex := b.ex (rows sts.length blks) (Nat.le_refl _)
    have hex' := a6 (rows sts.length blks) (Nat.le_refl _)
    have hmb : matchBits eqv p a (rows sts.length blks) = eqv p[rows sts.length blks] a := by
      simp [matchBits, hlt]
    rw [hmb] at hnc
    have houtN : k < cell (unitW eqv) p u (rows sts.length blks + 1) := by exact_mod_cast hout
    have hwv : unitW eqv p[rows sts.length blks] a = if eqv p[rows sts.length blks] a then 0 else 1 := rfl
    suffices hN : k < cell (unitW eqv) p (u ++ [a]) (rows sts.length blks + 1) by exact_mod_cast hN
    rw [hsucc, hwv]
    by_cases hPk : P (rows sts.length blks) ≤ k
    · have hnc' : ¬ (eqv p[rows sts.length blks] a = true ∨ (advanceAll eqv a blks sts 0).2 < 0) :=
        fun h => hnc ⟨hPk, h⟩
      have hne : eqv p[rows sts.length blks] a = false := by
        cases h : eqv p[rows sts.length blks] a
        · rfl
        · exact absurd (Or.inl h) hnc'
      have hcarry : ¬ (advanceAll eqv a blks sts 0).2 < 0 := fun h => hnc' (Or.inr h)
      rw [a3] at hcarry
      have hk' : (k : Int) ≤ cell (unitW eqv) p (u ++ [a]) (rows sts.length blks) := by omega
      have hk'N : k ≤ cell (unitW eqv) p (u ++ [a]) (rows sts.length blks) := by exact_mod_cast hk'
      simp only [hne, Bool.false_eq_true, if_false]
      omega
    · have hk' : (k : Int) < cell (unitW eqv) p u (rows sts.length blks) := by omega
      have hk'N : k < cell (unitW eqv) p u (rows sts.length blks) := by exact_mod_cast hk'
      split <;> omega

include hflat hsz in
/-- **`States::step` keeps the band invariant** -/
theorem band_step (P : Nat → Int) (u : List Nat) (sts : List (St w)) (a : Nat)
    (b : Band eqv p k blks P u sts) :
    ∃ P', Band eqv p k blks P' (u ++ [a]) (stepStates eqv blks k a sts) := by
  obtain ⟨a1, a2, a3, a4, _, _, _⟩ := band_advance eqv p k blks hflat P u sts a b
  have hne' : (advanceAll eqv a blks sts 0).1 ≠ [] := by
    intro h; have := b.ne; rw [h] at a2; simp at a2; omega
  have hlast := ColEnc_last blks _ 0 a1 hne'
  rw [Nat.zero_add, a2] at hlast
  have hidx : sts.length - 1 + 1 = sts.length := by have := b.ne; omega
  have hlenle := ColEnc_length_le blks sts 0 b.col
  unfold stepStates
  simp only [hidx]
  -- the else branch in general form
  have helse : ∀ (hn : rows sts.length blks < p.length →
      ¬ (P (rows sts.length blks) ≤ k ∧
        (matchBits eqv p a (rows sts.length blks) = true ∨ (advanceAll eqv a blks sts 0).2 < 0))),
      ∃ P', Band eqv p k blks P' (u ++ [a]) (cutRev k w (advanceAll eqv a blks sts 0).1.reverse).reverse := by
    intro hn
    have hb := band_noact eqv p k blks hflat P u sts a b hn
    refine ⟨nextC P (matchBits eqv p a),
      band_cutRev eqv p k blks (nextC P (matchBits eqv p a)) (u ++ [a]) (advanceAll eqv a blks sts 0).1.reverse ?_⟩
    simpa using hb
  by_cases hlt : sts.length < blks.length
  · obtain ⟨blk, hblk⟩ : ∃ blk, blks[sts.length]? = some blk := by
      cases h : blks[sts.length]? with
      | none => rw [List.getElem?_eq_none_iff] at h; omega
      | some blk => exact ⟨blk, rfl⟩
    have hmem : blk ∈ blks := List.mem_of_getElem? hblk
    obtain ⟨hl1, hlw⟩ := hsz blk hmem
    have hbits : BitsOK eqv a (matchBits eqv p a) 0 blks := by
      have := bitsOK_flatten eqv a blks []
      simpa [hflat] using this
    have hnext : (peq w eqv blk a).getLsbD 0 = matchBits eqv p a (rows sts.length blks) := by
      rw [peq_bit w eqv blk a 0 (by omega) hlw]
      have := bitsOK_get eqv a _ blks 0 sts.length blk hbits hblk 0 (by omega)
      simp only [Nat.zero_add, Nat.add_zero] at this
      exact this.symm
    simp only [hblk]
    split
    · -- activation
      apply band_activate eqv p k blks hflat hsz P u sts a blk hblk _ _ b
      rw [hlast, a3]
      have h0 := b.nn (rows sts.length blks)
      have : (0 : Int) ≤ nextC P (matchBits eqv p a) (rows sts.length blks) + ↑blk.length -
          (nextC P (matchBits eqv p a) (rows sts.length blks) - P (rows sts.length blks)) := by omega
      rw [Int.toNat_of_nonneg this]
      omega
    · rename_i hc
      apply helse
      intro _ hcon
      apply hc
      have hd : decide (sts.length - 1 < blks.length - 1) = true := by simp; omega
      rw [hlast, a3, hnext, hd]
      have h0 := b.nn (rows sts.length blks)
      have e : nextC P (matchBits eqv p a) (rows sts.length blks) -
          (nextC P (matchBits eqv p a) (rows sts.length blks) - P (rows sts.length blks)) = P (rows sts.length blks) := by omega
      rw [e]
      rw [a3] at hcon
      obtain ⟨c1, c2⟩ := hcon
      simp only [Bool.and_eq_true, Bool.or_eq_true, decide_eq_true_eq, Bool.and_true]
      exact ⟨⟨h0, c1⟩, c2⟩
  · have hd : decide (sts.length - 1 < blks.length - 1) = false := by simp; omega
    simp only [hd, Bool.and_false, Bool.false_and, Bool.false_eq_true, if_false]
    apply helse
    intro hR
    have : rows sts.length blks = p.length := by
      rw [← hflat]; exact rows_ge_length blks _ (by omega)
    omega

include hflat hsz in
theorem run_band : ∀ (t u : List Nat) (sts : List (St w)) (P : Nat → Int), Band eqv p k blks P u sts →
    run eqv blks k sts u.length t = expFrom (unitW eqv) p k u t := by
  intro t
  induction t with
  | nil => intro u sts P _; simp [run, expFrom]
  | cons c t ih =>
    intro u sts P b
    obtain ⟨P', b'⟩ := band_step eqv p k blks hflat hsz P u sts c b
    have hk := band_known eqv p k blks hflat (fun blk h => (hsz blk h).1) P' (u ++ [c]) _ b'
    have ih' := ih (u ++ [c]) _ P' b'
    simp only [List.length_append, List.length_cons, List.length_nil] at ih'
    simp only [run, expFrom]
    cases hkd : knownDist blks.length (stepStates eqv blks k c sts) with
    | none =>
      rw [hkd] at hk
      simp only at hk
      rw [if_neg (by omega)]
      exact ih'
    | some d =>
      rw [hkd] at hk
      simp only at hk ⊢
      by_cases hd : d ≤ k
      · have h1 := hk.1.mp hd
        have h2 := hk.2 hd
        rw [if_pos hd, if_pos h1, h2, ih']
      · have h1 : ¬ cell (unitW eqv) p (u ++ [c]) p.length ≤ k := fun h => hd (hk.1.mpr h)
        rw [if_neg hd, if_neg h1, ih']

end step

theorem div_mul_ge (x w : Nat) (hw : 1 ≤ w) : x ≤ (x + w - 1) / w * w := by
  have h1 := Nat.div_add_mod (x + w - 1) w
  have h2 := Nat.mod_lt (x + w - 1) (show w > 0 by omega)
  have h3 : w * ((x + w - 1) / w) = (x + w - 1) / w * w := Nat.mul_comm _ _
  omega

theorem band_init (w : Nat) (hw : 1 ≤ w) (eqv : Nat → Nat → Bool) (p : List Nat) (hp : 1 ≤ p.length) (k : Nat) :
    Band eqv p k (blocksOf w p) (fun r => (r : Int)) [] (initStates w (blocksOf w p) p.length k) := by
  obtain ⟨c1, c2, c3, c4⟩ := chunks_spec w hw p.length p hp (Nat.le_refl _)
  obtain ⟨g1, g2⟩ := initGo_prefix w (blocksOf w p) (max 1 ((min k p.length + w - 1) / w)) 0 c2
  have hlen : (initStates w (blocksOf w p) p.length k).length =
      min (max 1 ((min k p.length + w - 1) / w)) (blocksOf w p).length := g2
  have hRm : rows (initStates w (blocksOf w p) p.length k).length (blocksOf w p) ≤ p.length := by
    have := rows_le_all (blocksOf w p) (initStates w (blocksOf w p) p.length k).length
    unfold blocksOf at this ⊢
    rw [c1] at this
    exact this
  refine ⟨g1, ?_, by intro r; simp, ?_, ?_, ?_⟩
  · rw [hlen]; unfold blocksOf; omega
  · intro r hr; rw [cell_nil (unitW eqv) p r (by omega)]; simp
  · intro r hr _; rw [cell_nil (unitW eqv) p r (by omega)]
  · intro r hr hm
    rw [cell_nil (unitW eqv) p r hm]
    rw [hlen] at hr
    by_cases hall : (blocksOf w p).length ≤ max 1 ((min k p.length + w - 1) / w)
    · rw [Nat.min_eq_right hall, rows_all] at hr
      unfold blocksOf at hr
      rw [c1] at hr
      omega
    · have hlt : max 1 ((min k p.length + w - 1) / w) < (blocksOf w p).length := by omega
      rw [Nat.min_eq_left (by omega)] at hr
      have hrows := chunks_rows w hw p.length p hp (Nat.le_refl _) _ hlt
      unfold blocksOf at hr
      rw [hrows] at hr
      have h1 := div_mul_ge (min k p.length) w hw
      have h2 : (min k p.length + w - 1) / w * w ≤ max 1 ((min k p.length + w - 1) / w) * w :=
        Nat.mul_le_mul_right w (by omega)
      have : (k : Nat) < r := by omega
      exact_mod_cast this

/-- **block-based Myers**: the mirror model of `long::Myers<T>::find_all_end` — blocks of `w` bits, `advance_block`
with carries, band-limited activation (`States::new`, `add_state`, `States::step`), `known_dist` — returns exactly the
Sellers hits, for every word width, pattern, equivalence, text and `k` -/
theorem findAllEnd_eq_hits (w : Nat) (eqv : Nat → Nat → Bool) (p t : List Nat) (k : Nat)
    (hw : 1 ≤ w) (hp : 1 ≤ p.length) :
    findAllEnd w eqv p t k = hits (unitW eqv) p t k := by
  obtain ⟨c1, c2, _, _⟩ := chunks_spec w hw p.length p hp (Nat.le_refl _)
  unfold findAllEnd hits
  simp only
  have := run_band eqv p k (blocksOf w p) c1 c2 t [] _ _ (band_init w hw eqv p hp k)
  simp only [List.length_nil] at this
  rw [this, expFrom_eq_hitsFrom]
  simp

end RbV.Model.MyersLong
