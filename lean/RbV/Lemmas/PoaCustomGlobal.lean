import RbV.Lemmas.PoaChainLink
import RbV.Lemmas.PoaGrowAll
/-!
# `custom` with all clip penalties at `MIN_SCORE` (= `Aligner::global`) computes the table of the clip-free model

when no score comes near `MIN_SCORE`: `gap ≤ 0`, substitution scores `≤ W`, and
`MIN_SCORE < (m + n + 1)·gap − n·W`.  Then every clip candidate loses (prefix clips against the lower bound
`(v+1+j)·gap` of a cell, suffix clips because `column maximum + MIN_SCORE ≤ n·W + MIN_SCORE` is below it), so
the rows of `customTable` are the rows of `dpRows` and the reported scores agree.
-/
namespace RbV.Poa.Model
open RbV.NW RbV.Poa

/-! ## upper bound `j·W` on the cells of the clip-free rows -/

theorem mulW_mono (W : Int) (hW : 0 ≤ W) (a b : Nat) (h : a ≤ b) : (a : Int) * W ≤ (b : Int) * W :=
  Int.mul_le_mul_of_nonneg_right (by omega) hW

theorem pcG_up (sc : Sc) (query : List Nat) (v r : Nat) (Lp : Nat → List Cell) (j p : Nat) (W : Int)
    (hw : ∀ a b, sc.w a b ≤ W) (hg : sc.gap ≤ 0)
    (h1 : ((Lp p).getD j mcell).score ≤ (j : Int) * W) (h2 : ((Lp p).getD (j + 1) mcell).score ≤ ((j + 1 : Nat) : Int) * W) :
    (pcG sc query v r Lp j p).score ≤ ((j + 1 : Nat) : Int) * W := by
  simp only [pcG, cmax_score]
  have := hw r (query.getD j 0)
  have e : ((j + 1 : Nat) : Int) * W = (j : Int) * W + W := by
    have : ((j + 1 : Nat) : Int) = (j : Int) + 1 := by omega
    rw [this, Int.add_mul, Int.one_mul]
  omega

theorem foldl_cmax_up (B : Int) (f : Nat → Cell) : ∀ (l : List Nat) (a : Cell), a.score ≤ B → (∀ p ∈ l, (f p).score ≤ B) →
    (l.foldl (fun acc p => cmax acc (f p)) a).score ≤ B := by
  intro l
  induction l with
  | nil => intro a h _; exact h
  | cons x l ih =>
    intro a h1 h2
    simp only [List.foldl_cons]
    apply ih
    · rw [cmax_score]
      have := h2 x (by simp)
      omega
    · intro p hp; exact h2 p (List.mem_cons_of_mem _ hp)

theorem gCol_up (sc : Sc) (query : List Nat) (r0 : List Cell) (v r : Nat) (Lp : Nat → List Cell) (j : Nat) (ps : List Nat)
    (W : Int) (hW : 0 ≤ W) (hw : ∀ a b, sc.w a b ≤ W) (hg : sc.gap ≤ 0)
    (h0 : (r0.getD j mcell).score ≤ 0)
    (hp : ∀ p ∈ ps, ((Lp p).getD j mcell).score ≤ (j : Int) * W ∧ ((Lp p).getD (j + 1) mcell).score ≤ ((j + 1 : Nat) : Int) * W) :
    (gCol sc query r0 v r Lp j ps).score ≤ ((j + 1 : Nat) : Int) * W := by
  cases ps with
  | nil =>
    simp only [gCol]
    have := hw r (query.getD j 0)
    have h3 := mulW_mono W hW 1 (j + 1) (by omega)
    simp only [Int.natCast_one, Int.one_mul] at h3
    omega
  | cons p rest =>
    simp only [gCol]
    apply foldl_cmax_up
    · exact pcG_up sc query v r Lp j p W hw hg (hp p (by simp)).1 (hp p (by simp)).2
    · intro p' hp'
      have := hp p' (List.mem_cons_of_mem _ hp')
      exact pcG_up sc query v r Lp j p' W hw hg this.1 this.2

theorem insScan_up (gap W : Int) (hg : gap ≤ 0) (hW : 0 ≤ W) (iOp : POp) : ∀ (cs : List Cell) (left : Cell) (c : Nat),
    left.score ≤ (c : Int) * W → (∀ k, k < cs.length → (cs.getD k mcell).score ≤ ((c + 1 + k : Nat) : Int) * W) →
    ∀ k, k < cs.length → ((insScan gap iOp left cs).getD k mcell).score ≤ ((c + 1 + k : Nat) : Int) * W := by
  intro cs
  induction cs with
  | nil => intro left c _ _ k hk; simp at hk
  | cons x cs ih =>
    intro left c hl hc k hk
    have hx := hc 0 (by simp)
    simp only [List.getD_cons_zero, Nat.add_zero] at hx
    have hcell : (cmax x ⟨left.score + gap, iOp⟩).score ≤ ((c + 1 : Nat) : Int) * W := by
      rw [cmax_score]
      have := mulW_mono W hW c (c + 1) (by omega)
      simp only at *
      omega
    cases k with
    | zero => simpa [insScan] using hcell
    | succ k =>
      simp only [insScan, List.getD_cons_succ]
      simp only [List.length_cons] at hk
      have := ih (cmax x ⟨left.score + gap, iOp⟩) (c + 1) hcell
        (fun k' hk' => by
          have := hc (k' + 1) (by simp; omega)
          simp only [List.getD_cons_succ] at this
          have e : c + 1 + (k' + 1) = c + 1 + 1 + k' := by omega
          rw [e] at this; exact this)
        k (by omega)
      have e : c + 1 + (k + 1) = c + 1 + 1 + k := by omega
      rw [e]; exact this

theorem nodeRow_up (sc : Sc) (query : List Nat) (r0 : List Cell) (v r : Nat) (ps : List Nat) (Lp : Nat → List Cell)
    (W : Int) (hW : 0 ≤ W) (hw : ∀ a b, sc.w a b ≤ W) (hg : sc.gap ≤ 0)
    (h0 : r0.length = query.length + 1) (h0up : ∀ j, (r0.getD j mcell).score ≤ 0)
    (hp : ∀ p ∈ ps, (Lp p).length = query.length + 1 ∧ ∀ j, j ≤ query.length → ((Lp p).getD j mcell).score ≤ (j : Int) * W) :
    ∀ j, j ≤ query.length → ((nodeRow sc query r0 v r (ps.map fun p => (p, Lp p))).getD j mcell).score ≤ (j : Int) * W := by
  intro j hj
  rw [nodeRow_eq]
  have hc0 : (col0 sc.gap v).score ≤ ((0 : Nat) : Int) * W := by
    simp only [col0, Int.natCast_zero, Int.zero_mul]
    have : (0 : Int) ≤ (v : Int) + 1 := by omega
    exact Int.mul_nonpos_of_nonneg_of_nonpos this hg
  cases j with
  | zero => simpa using hc0
  | succ j =>
    simp only [List.getD_cons_succ]
    obtain ⟨g1, g2⟩ := nodeCands_spec sc query r0 v r ps Lp h0 (fun p h => (hp p h).1)
    have := insScan_up sc.gap W hg hW (.i (some v)) (nodeCands sc query r0 v r (ps.map fun p => (p, Lp p)))
      (col0 sc.gap v) 0 hc0
      (fun k hk => by
        rw [g1] at hk
        rw [g2 k hk]
        have := gCol_up sc query r0 v r Lp k ps W hW hw hg (h0up k)
          (fun p h => ⟨(hp p h).2 k (by omega), (hp p h).2 (k + 1) (by omega)⟩)
        simpa [Nat.add_comm] using this)
      j (by rw [g1]; omega)
    simpa [Nat.add_comm] using this

/-! ## one row of `custom` with `MIN_SCORE` clips -/

theorem cCand_eq (sc : Sc) (init : Cell) (hinit : init.score = minScore) (query : List Nat) (r0 : List Cell) (r0b : BRow)
    (v r : Nat) (ps : List Nat) (Lp : Nat → List Cell) (Bp : Nat → BRow) (j : Nat) (hj : j < query.length)
    (h0 : Rep query.length r0b r0) (hp : ∀ p ∈ ps, Rep query.length (Bp p) (Lp p))
    (hlow : ∀ p ∈ ps, minScore ≤ ((Lp p).getD (j + 1) mcell).score + sc.gap) :
    cCand sc init query r0b v r (ps.map fun p => (p, Bp p)) (j + 1) = gCol sc query r0 v r Lp j ps := by
  cases ps with
  | nil =>
    simp only [List.map_nil, cCand, Nat.add_sub_cancel, gCol]
    rw [h0.get j (by omega)]
  | cons p rest =>
    simp only [List.map_cons, cCand, List.foldl_cons, gCol]
    rw [bpc_eq sc query v r Lp Bp j p hj (hp p (by simp))]
    have hfirst : cmax init (pcG sc query v r Lp j p) = pcG sc query v r Lp j p := by
      apply cmax_left_low
      have h1 := cmax_score_ge_right
        (⟨((Lp p).getD j mcell).score + sc.w r (query.getD j 0), .m (some (p, v))⟩ : Cell)
        ⟨((Lp p).getD (j + 1) mcell).score + sc.gap, .d (some (p, v + 1))⟩
      have h2 := hlow p (by simp)
      simp only [pcG, mcell] at h1 h2 ⊢
      omega
    rw [hfirst, List.foldl_map]
    have key : ∀ (l : List Nat) (a : Cell), (∀ p' ∈ l, p' ∈ rest) →
        l.foldl (fun acc p' => cmax acc (cmax
          ⟨((Bp p').get (j + 1 - 1)).score + sc.w r (query.getD (j + 1 - 1) 0), .m (some (p', v))⟩
          ⟨((Bp p').get (j + 1)).score + sc.gap, .d (some (p', v + 1))⟩)) a =
        l.foldl (fun acc p' => cmax acc (pcG sc query v r Lp j p')) a := by
      intro l
      induction l with
      | nil => intro a _; rfl
      | cons x l ih =>
        intro a hm
        simp only [List.foldl_cons]
        rw [bpc_eq sc query v r Lp Bp j x hj (hp x (List.mem_cons_of_mem _ (hm x (by simp))))]
        exact ih _ (fun y hy => hm y (List.mem_cons_of_mem _ hy))
    exact key rest _ (fun _ h => h)

theorem cNodeRow_cells (sc : Sc) (query : List Nat) (r0 : List Cell) (r0b : BRow) (v r : Nat) (ps : List Nat)
    (Lp : Nat → List Cell) (Bp : Nat → BRow)
    (h0 : Rep query.length r0b r0) (hp : ∀ p ∈ ps, Rep query.length (Bp p) (Lp p))
    (hlow : ∀ p ∈ ps, ∀ j, j ≤ query.length → minScore ≤ ((Lp p).getD j mcell).score + sc.gap)
    (hc0 : minScore < ((v : Int) + 1) * sc.gap) :
    (cNodeRow sc minScore query r0b v r (ps.map fun p => (p, Bp p))).cells =
      nodeRow sc query r0 v r (ps.map fun p => (p, Lp p)) := by
  rw [nodeRow_eq]
  simp only [cNodeRow]
  have hc : cmax (⟨((v : Int) + 1) * sc.gap, .d none⟩ : Cell) ⟨minScore, .x 0⟩ = col0 sc.gap v := by
    rw [cmax_right_low _ _ (by simpa using hc0)]; rfl
  rw [hc]
  congr 2
  obtain ⟨g1, g2⟩ := nodeCands_spec sc query r0 v r ps Lp h0.len (fun p h => (hp p h).len)
  apply list_ext_getD mcell
  · rw [g1]; simp
  · intro j hj
    simp only [List.length_map, List.length_range'] at hj
    rw [g2 j hj]
    have : ((List.range' 1 query.length).map (cCand sc (cmax mcell ⟨minScore, .x 0⟩) query r0b v r
        (ps.map fun p => (p, Bp p)))).getD j mcell =
        cCand sc (cmax mcell ⟨minScore, .x 0⟩) query r0b v r (ps.map fun p => (p, Bp p)) (j + 1) := by
      simp [List.getD_eq_getElem?_getD, hj, Nat.add_comm]
    rw [this]
    exact cCand_eq sc _ (by rw [cmax_score]; simp [mcell]) query r0 r0b v r ps Lp Bp j hj h0 hp
      (fun p h => hlow p h (j + 1) (by omega))

/-! ## `max_in_column` stays within `[0, n·W]`; suffix clips that lose change nothing -/

theorem colUpdate_bound (U : Int) (i : Nat) : ∀ (mcs : List (Int × Nat)) (cs : List Cell),
    (∀ mc ∈ mcs, 0 ≤ mc.1 ∧ mc.1 ≤ U) → (∀ c ∈ cs, c.score ≤ U) →
    ∀ mc ∈ colUpdate i mcs cs, 0 ≤ mc.1 ∧ mc.1 ≤ U := by
  intro mcs
  induction mcs with
  | nil => intro cs h _ mc hm; simp [colUpdate] at hm
  | cons m0 mcs ih =>
    intro cs h1 h2 mc hm
    cases cs with
    | nil => simp only [colUpdate] at hm; exact h1 mc hm
    | cons c cs =>
      simp only [colUpdate, List.mem_cons] at hm
      rcases hm with hm | hm
      · subst hm
        have := h1 m0 (by simp)
        have := h2 c (by simp)
        split
        · simp only; omega
        · assumption
      · exact ih cs (fun x hx => h1 x (List.mem_cons_of_mem _ hx)) (fun x hx => h2 x (List.mem_cons_of_mem _ hx)) mc hm

theorem xSuffix_noop (xs U : Int) (lastI : Nat) : ∀ (mcs : List (Int × Nat)) (cs : List Cell) (col : Nat) (mir : Int × Nat),
    (∀ mc ∈ mcs, ∀ c ∈ cs, c.score > mc.1 + xs) → (∀ c ∈ cs, c.score ≤ U) → 0 ≤ mir.1 → mir.1 ≤ U →
    (xSuffix xs lastI col mcs cs mir).1 = cs ∧ 0 ≤ (xSuffix xs lastI col mcs cs mir).2.1 ∧
      (xSuffix xs lastI col mcs cs mir).2.1 ≤ U := by
  intro mcs
  induction mcs with
  | nil => intro cs col mir _ _ h1 h2; simp [xSuffix, h1, h2]
  | cons mc mcs ih =>
    intro cs col mir hlose hup h1 h2
    cases cs with
    | nil => simp [xSuffix, h1, h2]
    | cons c cs =>
      have hl' : ∀ mc' ∈ mcs, ∀ c' ∈ cs, c'.score > mc'.1 + xs :=
        fun a ha b hb => hlose a (List.mem_cons_of_mem _ ha) b (List.mem_cons_of_mem _ hb)
      have hu' : ∀ c' ∈ cs, c'.score ≤ U := fun b hb => hup b (List.mem_cons_of_mem _ hb)
      simp only [xSuffix]
      split
      · obtain ⟨r1, r2, r3⟩ := ih cs (col + 1) mir hl' hu' h1 h2
        exact ⟨by simp [r1], r2, r3⟩
      · have hc : cmax c ⟨mc.1 + xs, .x mc.2⟩ = c :=
          cmax_right_low _ _ (hlose mc (by simp) c (by simp))
        rw [hc]
        have hcu := hup c (by simp)
        obtain ⟨r1, r2, r3⟩ := ih cs (col + 1) (if mir.1 < c.score then (c.score, col) else mir) hl' hu'
          (by split <;> omega) (by split <;> omega)
        exact ⟨by simp [r1], r2, r3⟩

/-! ## the two folds side by side -/

theorem row0From_nonpos (gap : Int) (hg : gap ≤ 0) : ∀ (n k : Nat), ∀ c ∈ row0From gap k n, c.score ≤ 0 := by
  intro n
  induction n with
  | zero => intro k c h; simp [row0From] at h
  | succ n ih =>
    intro k c h
    simp only [row0From, List.mem_cons] at h
    rcases h with rfl | h
    · simp only
      have : (0 : Int) ≤ (k : Int) + 1 := by omega
      exact Int.mul_nonpos_of_nonneg_of_nonpos this hg
    · exact ih _ c h

theorem row0_up (gap : Int) (hg : gap ≤ 0) (n j : Nat) : ((row0 gap n).getD j mcell).score ≤ 0 := by
  rcases getD_eq_or_mem (row0 gap n) j mcell with h | h
  · rw [h]; decide
  · generalize (row0 gap n).getD j mcell = c at h
    simp only [row0, List.mem_cons] at h
    rcases h with h | h
    · rw [h]; simp
    · exact row0From_nonpos gap hg _ _ _ h

theorem mem_getD (l : List Cell) (c : Cell) (h : c ∈ l) : ∃ k, k < l.length ∧ l.getD k mcell = c := by
  obtain ⟨k, hk, e⟩ := List.getElem_of_mem h
  exact ⟨k, hk, by simp [List.getD_eq_getElem?_getD, List.getElem?_eq_getElem hk, e]⟩

structure CInv (sc : Sc) (W : Int) (m n : Nat) (done : List Nat) (rowsG : Array (List Cell)) (st : CState) : Prop where
  sizeG : rowsG.size = m
  sizeB : st.rows.size = m
  rep : ∀ u ∈ done, Rep n (st.rows.getD u (emptyRow n)) (rowsG.getD u [])
  low : ∀ u ∈ done, ∀ j, j ≤ n → ((u : Int) + 1 + j) * sc.gap ≤ ((rowsG.getD u []).getD j mcell).score
  up : ∀ u ∈ done, ∀ j, j ≤ n → ((rowsG.getD u []).getD j mcell).score ≤ (j : Int) * W
  mcb : ∀ mc ∈ st.maxcol, 0 ≤ mc.1 ∧ mc.1 ≤ (n : Int) * W

theorem custom_fold (sc : Sc) (labels : List Nat) (es : WEdges) (query : List Nat) (W : Int)
    (hg : sc.gap ≤ 0) (hW : 0 ≤ W) (hw : ∀ a b, sc.w a b ≤ W)
    (hmin : minScore < ((labels.length + query.length + 1 : Nat) : Int) * sc.gap) :
    ∀ (order done : List Nat) (rowsG : Array (List Cell)) (st : CState),
      FwdClosed es done order → (∀ v ∈ order, v < labels.length) → (∀ v ∈ done, v < labels.length) →
      CInv sc W labels.length query.length done rowsG st →
      CInv sc W labels.length query.length (order.reverse ++ done)
        (order.foldl (fun (rows : Array (List Cell)) v =>
          rows.setIfInBounds v (nodeRow sc query (row0 sc.gap query.length) v (labels.getD v 0)
            ((inN es v).map fun p => (p, rows.getD p [])))) rowsG)
        (order.foldl (cStep sc minScore labels es query (bRow0 sc.gap minScore query.length)) st) := by
  intro order
  induction order with
  | nil => intro done rowsG st _ _ _ h; simpa using h
  | cons v order ih =>
    intro done rowsG st hc hlt hdone inv
    simp only [List.foldl_cons, List.reverse_cons, List.append_assoc, List.singleton_append]
    have hv : v < labels.length := hlt v (by simp)
    apply ih (v :: done) _ _ hc.2 (fun x hx => hlt x (List.mem_cons_of_mem _ hx))
    · intro x hx
      rcases List.mem_cons.mp hx with h | h
      · subst h; exact hv
      · exact hdone x h
    have h0 : Rep query.length (bRow0 sc.gap minScore query.length) (row0 sc.gap query.length) :=
      bRow0_rep sc.gap query.length (fun j _ h2 => low_of sc.gap hg j _ (by omega) hmin)
    have hp : ∀ p ∈ inN es v, Rep query.length (st.rows.getD p (emptyRow query.length)) (rowsG.getD p []) :=
      fun p hp => inv.rep p (hc.1 p hp)
    have hcells := cNodeRow_cells sc query (row0 sc.gap query.length) (bRow0 sc.gap minScore query.length) v
      (labels.getD v 0) (inN es v) (fun p => rowsG.getD p []) (fun p => st.rows.getD p (emptyRow query.length))
      h0 hp
      (fun p hp j hj => by
        have h1 := inv.low p (hc.1 p hp) j hj
        have h2 : p < labels.length := hdone p (hc.1 p hp)
        have h3 := low_of sc.gap hg (p + 1 + j + 1) _ (by omega) hmin
        have e : (((p + 1 + j + 1 : Nat) : Int)) * sc.gap = ((p : Int) + 1 + j) * sc.gap + sc.gap := by
          have : ((p + 1 + j + 1 : Nat) : Int) = ((p : Int) + 1 + j) + 1 := by omega
          rw [this, Int.add_mul, Int.one_mul]
        omega)
      (by
        have := low_of sc.gap hg (v + 1) _ (by omega) hmin
        have e : ((v + 1 : Nat) : Int) = (v : Int) + 1 := by omega
        rw [e] at this; exact this)
    have hlen := nodeRow_length sc query (row0 sc.gap query.length) v (labels.getD v 0) (inN es v)
      (fun p => rowsG.getD p []) h0.len (fun p h => (hp p h).len)
    have hup := nodeRow_up sc query (row0 sc.gap query.length) v (labels.getD v 0) (inN es v)
      (fun p => rowsG.getD p []) W hW hw hg h0.len (row0_up sc.gap hg query.length)
      (fun p h => ⟨(hp p h).len, inv.up p (hc.1 p h)⟩)
    refine ⟨by simpa using inv.sizeG, by simpa [cStep] using inv.sizeB, ?_, ?_, ?_, ?_⟩
    · intro u hu
      simp only [cStep]
      rw [getD_setIfInBounds, getD_setIfInBounds]
      by_cases huv : u = v
      · subst huv
        simp only [true_and, inv.sizeG, inv.sizeB, hv, if_true]
        exact ⟨rfl, by simp [cNodeRow], hcells, hlen⟩
      · simp only [huv, false_and, if_false]
        rcases List.mem_cons.mp hu with h | h
        · exact absurd h huv
        · exact inv.rep u h
    · intro u hu j hj
      rw [getD_setIfInBounds]
      by_cases huv : u = v
      · subst huv
        simp only [true_and, inv.sizeG, hv, if_true]
        exact nodeRow_low sc query _ u _ _ j (by rw [hlen]; omega)
      · simp only [huv, false_and, if_false]
        rcases List.mem_cons.mp hu with h | h
        · exact absurd h huv
        · exact inv.low u h j hj
    · intro u hu j hj
      rw [getD_setIfInBounds]
      by_cases huv : u = v
      · subst huv
        simp only [true_and, inv.sizeG, hv, if_true]
        exact hup j hj
      · simp only [huv, false_and, if_false]
        rcases List.mem_cons.mp hu with h | h
        · exact absurd h huv
        · exact inv.up u h j hj
    · intro mc hmc
      simp only [cStep] at hmc
      cases hmcol : st.maxcol with
      | nil => rw [hmcol] at hmc; simp at hmc
      | cons m0 rest =>
        rw [hmcol] at hmc
        simp only [List.mem_cons] at hmc
        have hb := inv.mcb
        rw [hmcol] at hb
        rcases hmc with hmc | hmc
        · rw [hmc]; exact hb m0 (by simp)
        · refine colUpdate_bound ((query.length : Int) * W) (v + 1) rest _
            (fun x hx => hb x (List.mem_cons_of_mem _ hx)) ?_ mc hmc
          intro c hcm
          rw [hcells] at hcm
          have hcm' := List.mem_of_mem_tail hcm
          obtain ⟨k, hk, e⟩ := mem_getD _ c hcm'
          rw [hlen] at hk
          have h1 := hup k (by omega)
          rw [e] at h1
          have h2 := mulW_mono W hW k query.length (by omega)
          omega

/-- **`Aligner::global` in the faithful model reports the score of the clip-free model** -/
theorem customScore_minclips (sc : Sc) (labels : List Nat) (es : WEdges) (query : List Nat) (W : Int)
    (hd : Dag { labels := labels, es := es }) (hg : sc.gap ≤ 0) (hW : 0 ≤ W) (hw : ∀ a b, sc.w a b ≤ W)
    (hmin : minScore < ((labels.length + query.length + 1 : Nat) : Int) * sc.gap - (query.length : Int) * W) :
    (customAlign sc minScore minScore minScore minScore labels es query).1 = (globalAlign sc labels es query).1 := by
  have hn : 0 < labels.length := by
    cases h : labels with
    | nil => exact absurd h hd.ne
    | cons a r => simp
  have hnW : 0 ≤ (query.length : Int) * W := Int.mul_nonneg (by omega) hW
  have hmin' : minScore < ((labels.length + query.length + 1 : Nat) : Int) * sc.gap := by omega
  obtain ⟨vis, h1, _, hmem, hcl⟩ := topo_spec labels.length es hd.wf hd.acyclic
  have hlt : ∀ v ∈ vis.reverse, v < labels.length := fun v hv => (hmem v).mp (List.mem_reverse.mp hv)
  have inv := custom_fold sc labels es query W hg hW hw hmin' vis.reverse [] (Array.replicate labels.length [])
    { rows := Array.replicate labels.length (emptyRow query.length),
      maxcol := List.replicate (query.length + 1) ((0 : Int), 0) }
    (fwdClosed_of_predClosed es vis hcl) hlt (by simp)
    ⟨by simp, by simp, by simp, by simp, by simp, by
      intro mc hmc
      rw [List.mem_replicate] at hmc
      rw [hmc.2]
      exact ⟨Int.le_refl _, hnW⟩⟩
  have hlast : vis.reverse.getLastD 0 ∈ vis.reverse.reverse ++ [] := by
    cases h : vis.reverse with
    | nil =>
      have : (0 : Nat) ∈ vis.reverse := List.mem_reverse.mpr ((hmem 0).mpr hn)
      rw [h] at this; exact absurd this (by simp)
    | cons a r =>
      rw [List.getLastD_cons]
      have := getLastD_mem_cons r a
      simp only [List.append_nil]
      exact List.mem_reverse.mpr this
  have hLlt : vis.reverse.getLastD 0 < labels.length := by
    have : vis.reverse.getLastD 0 ∈ vis := by simpa using hlast
    exact (hmem _).mp this
  generalize hL : vis.reverse.getLastD 0 = L at hlast hLlt
  generalize hst : vis.reverse.foldl (cStep sc minScore labels es query (bRow0 sc.gap minScore query.length))
    { rows := Array.replicate labels.length (emptyRow query.length),
      maxcol := List.replicate (query.length + 1) ((0 : Int), 0) } = st at inv
  generalize hrg : vis.reverse.foldl (fun (rows : Array (List Cell)) v =>
      rows.setIfInBounds v (nodeRow sc query (row0 sc.gap query.length) v (labels.getD v 0)
        ((inN es v).map fun p => (p, rows.getD p [])))) (Array.replicate labels.length []) = rowsG at inv
  have hrep := inv.rep L hlast
  have hlow := inv.low L hlast
  have hup := inv.up L hlast
  have hmcb := inv.mcb
  have hsizeB := inv.sizeB
  generalize hLG : rowsG.getD L [] = LG at hrep hlow hup
  -- the cells read from the finished last row are the global row
  have hcells : (List.range (query.length + 1)).map (st.rows.getD L (emptyRow query.length)).get = LG := by
    apply list_ext_getD mcell
    · rw [List.length_map, List.length_range, hrep.len]
    · intro k hk
      simp only [List.length_map, List.length_range] at hk
      rw [← hrep.get k (by omega)]
      simp [List.getD_eq_getElem?_getD, hk]
  -- bounds on the members of that row
  have hmemb : ∀ c ∈ LG, ((labels.length + query.length : Nat) : Int) * sc.gap ≤ c.score ∧
      c.score ≤ (query.length : Int) * W := by
    intro c hc
    obtain ⟨k, hk, e⟩ := mem_getD _ c hc
    rw [hrep.len] at hk
    have h1 := hlow k (by omega)
    have h2 := hup k (by omega)
    rw [e] at h1 h2
    have h3 := mulW_mono W hW k query.length (by omega)
    have h4 : ((labels.length + query.length : Nat) : Int) * sc.gap ≤ ((L + 1 + k : Nat) : Int) * sc.gap :=
      Int.mul_le_mul_of_nonpos_right (by omega) hg
    have e2 : ((L + 1 + k : Nat) : Int) = (L : Int) + 1 + k := by omega
    rw [e2] at h4
    exact ⟨by omega, by omega⟩
  have hA : ((labels.length + query.length + 1 : Nat) : Int) * sc.gap ≤ ((labels.length + query.length : Nat) : Int) * sc.gap :=
    Int.mul_le_mul_of_nonpos_right (by omega) hg
  obtain ⟨x1, x2, x3⟩ := xSuffix_noop minScore ((query.length : Int) * W) (L + 1) st.maxcol LG 0 (0, 0)
    (fun mc hmc c hc => by
      have := hmcb mc hmc
      have := hmemb c hc
      omega)
    (fun c hc => (hmemb c hc).2) (Int.le_refl _) hnW
  -- unfold the faithful table
  have hscore : (customAlign sc minScore minScore minScore minScore labels es query).1 =
      (LG.getD query.length mcell).score := by
    simp only [customAlign, BTable.score, BTable.cell, customTable, h1, hL, hst, hcells, Nat.succ_ne_zero, if_false,
      Nat.add_sub_cancel]
    generalize hx : xSuffix minScore (L + 1) 0 st.maxcol LG (0, 0) = X at x1 x2 x3
    obtain ⟨cells1, mir⟩ := X
    simp only at x1 x2 x3 ⊢
    rw [x1]
    rw [getD_setIfInBounds]
    simp only [true_and, hsizeB, hLlt, if_true]
    have hnl : query.length < LG.length := by rw [hrep.len]; omega
    have hlastcell := hmemb (LG.getD query.length mcell) (by
      have e : LG.getD query.length mcell = LG[query.length] := by
        simp [List.getD_eq_getElem?_getD, List.getElem?_eq_getElem hnl]
      rw [e]; exact List.getElem_mem hnl)
    have hy : cmax (LG.getD query.length mcell)
        ⟨mir.1 + minScore, .y mir.2 query.length⟩ = LG.getD query.length mcell :=
      cmax_right_low _ _ (by simp only; omega)
    by_cases hm : mir.2 ≠ query.length
    · simp only [hm, ne_eq, not_false_eq_true, if_true, setAt]
      rw [get_inband _ _ _ (by omega) (by
        intro e
        have : (LG.set query.length (cmax (LG.getD query.length mcell)
          ⟨mir.1 + minScore, .y mir.2 query.length⟩)).length = query.length + 1 := by simp [hrep.len]
        rw [e] at this; simp at this)]
      rw [getD_set_cell]
      simp only [true_and, hnl, if_true, hy]
    · have hm' : mir.2 = query.length := by
        apply Classical.byContradiction; intro h; exact hm h
      simp only [hm', ne_eq, not_true_eq_false, if_false]
      rw [get_inband _ _ _ (by omega) (by
        intro e
        have := hrep.len
        rw [e] at this; simp at this)]
  rw [hscore]
  simp only [globalAlign, dpRows, h1, hL, hrg, Table.cell, Nat.succ_ne_zero, if_false, Nat.add_sub_cancel, hLG]
  congr 1
  apply getD_default_irrel
  rw [hrep.len]; omega

end RbV.Poa.Model
