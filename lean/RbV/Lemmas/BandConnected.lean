import RbV.Lemmas.Band
/-!
`Band.Connected` (`Model/Band.lean`): the full-matrix band is connected; consequences of connectedness (starts and ends
are non-decreasing over the whole run of non-empty columns).  Core Lean only.
-/
namespace RbV.Model.Band

theorem getD_replicate' (k j : Nat) (a d : Nat × Nat) :
    (List.replicate k a).getD j d = if j < k then a else d := by
  rw [List.getD_eq_getElem?_getD, List.getElem?_replicate]
  split <;> simp

/-- a band whose every column is `0..r` is connected -/
theorem connected_replicate (k r : Nat) : Connected (List.replicate k (0, r)) := by
  refine ⟨fun j hj h1 h2 => ?_, fun j hj h1 h2 j' hj' hlt => ?_⟩
  · simp only [List.mem_range, List.length_replicate] at hj
    simp only [NE, getD_replicate'] at h1 h2 ⊢
    by_cases h : j + 1 < k
    · simp only [h, hj, if_true]; omega
    · simp only [h, if_false] at h2; omega
  · simp only [List.mem_range, List.length_replicate] at hj hj'
    simp only [NE, getD_replicate'] at h1 h2
    by_cases h : j + 1 < k
    · simp only [h, hj, if_true] at h1 h2; omega
    · omega

theorem connected_fullMatrix (m n : Nat) : Connected (fullMatrix (new m n)).ranges := by
  rw [fullMatrix_new]; exact connected_replicate _ _

/-- in a connected band the columns between two non-empty columns are non-empty, and start and end are non-decreasing
from the first to the second -/
theorem connected_mono {rs : Ranges} (h : Connected rs) : ∀ d j, j + d < rs.length → NE rs j → NE rs (j + d) →
    (rs.getD j (0, 0)).1 ≤ (rs.getD (j + d) (0, 0)).1 ∧ (rs.getD j (0, 0)).2 ≤ (rs.getD (j + d) (0, 0)).2 := by
  intro d
  induction d with
  | zero => intro j _ _ _; exact ⟨Nat.le_refl _, Nat.le_refl _⟩
  | succ d ih =>
    intro j hl h1 h2
    have hj : j ∈ List.range rs.length := List.mem_range.mpr (by omega)
    have hne : NE rs (j + 1) := by
      by_cases hd : d = 0
      · subst hd; exact h2
      · by_cases hn : NE rs (j + 1)
        · exact hn
        · exact absurd h2 (h.2 j hj h1 hn (j + (d + 1)) (List.mem_range.mpr hl) (by omega))
    have hs := h.1 j hj h1 hne
    have e : j + (d + 1) = j + 1 + d := by omega
    rw [e] at h2 hl ⊢
    have := ih (j + 1) hl hne h2
    omega

end RbV.Model.Band
