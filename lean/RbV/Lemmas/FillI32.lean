import RbV.Lemmas.FillI32Step
/-!
`custom_i32_no_overflow` (`Thm/C01.lean`): from the envelope `I32Env` to the whole fill.  The ranges `RB B (i·B)` hold in
every cell of the unbounded mirror (`cell_RB`, induction over the columns and, inside a column, over the rows), hence
every loop body of the checked mirror succeeds with the unbounded result (`iterC_eq` + the step lemmas of
`FillI32Step.lean`), column by column, through both post-loops, up to `fillC = some fill` and `customC`.  Core Lean only.
-/
namespace RbV.Model.PairwiseFill
open RbV.Align RbV.I32

theorem iterC_eq {α : Type} (stepC : Nat → α → Option α) (step : Nat → α → α) : ∀ (k i0 : Nat) (r : α),
    (∀ t, t < k → stepC (i0 + t + 1) (iterAt step i0 r t) = some (step (i0 + t + 1) (iterAt step i0 r t))) →
    iterC stepC k i0 r = some (iter step k i0 r) := by
  intro k
  induction k with
  | zero => intro i0 r _; rfl
  | succ k ih =>
    intro i0 r h
    have h0 := h 0 (by omega)
    simp only [iterAt, Nat.add_zero] at h0
    have ih' := ih (i0 + 1) (step (i0 + 1) r) (by
      intro t ht
      have := h (t + 1) (by omega)
      rw [iterAt_shift] at this
      have e : i0 + (t + 1) + 1 = i0 + 1 + t + 1 := by omega
      rw [e] at this
      exact this)
    simp only [iterC, iter, h0, ih']

section
variable {sc : Sc} {cl : Clip} {x y : List Nat} {B : Int}

/-- `max(m, n)` as an integer -/
def mxLen (x y : List Nat) : Int := ((max x.length y.length : Nat) : Int)

theorem succ_mul_B (i : Nat) (B : Int) : ((i + 1 : Nat) : Int) * B = (i : Int) * B + B := by
  push_cast; rw [Int.add_mul, Int.one_mul]

theorem env_num (E : I32Env sc cl x y B) : Num sc cl B (mxLen x y * B) := by
  obtain ⟨hB1, _, _, hgo, hge, hxp, hxs, hyp, hys, hroom⟩ := E
  have hM0 : (0 : Int) ≤ mxLen x y := by unfold mxLen; omega
  have e3 : ((max x.length y.length : Nat) : Int) = mxLen x y := rfl
  rw [e3, Int.add_mul, Int.one_mul] at hroom
  exact ⟨hB1, hgo, hge, hxp, hxs, hyp, hys, Int.mul_nonneg hM0 (by omega), hroom⟩

theorem env_idx (E : I32Env sc cl x y B) {k : Nat} (h1 : 1 ≤ k) (hk : k ≤ max x.length y.length) :
    Idx sc B (mxLen x y * B) k := by
  obtain ⟨hB1, _, _, hgo, hge, hxp, hxs, hyp, hys, hroom⟩ := E
  have hms := minScore_i32
  have e3 : ((max x.length y.length : Nat) : Int) = mxLen x y := rfl
  rw [e3, Int.add_mul, Int.one_mul] at hroom
  have hM1 : (1 : Int) ≤ mxLen x y := by unfold mxLen; omega
  have hkM : (k : Int) ≤ mxLen x y := by unfold mxLen; omega
  have hBG : 1 * B ≤ mxLen x y * B := Int.mul_le_mul_of_nonneg_right hM1 (by omega)
  have hMB : mxLen x y * 1 ≤ mxLen x y * B := Int.mul_le_mul_of_nonneg_left hB1 (by omega)
  have h2 : -B * (k : Int) ≤ sc.ge * (k : Int) := Int.mul_le_mul_of_nonneg_right hge.1 (by omega)
  have h3 : (k : Int) * B ≤ mxLen x y * B := Int.mul_le_mul_of_nonneg_right hkM (by omega)
  have h4 : sc.ge * (k : Int) ≤ 0 * (k : Int) := Int.mul_le_mul_of_nonneg_right hge.2 (by omega)
  have e1 : -B * (k : Int) = -((k : Int) * B) := by rw [Int.neg_mul, Int.mul_comm]
  have e2 : mxLen x y * 1 = mxLen x y := Int.mul_one _
  refine ⟨by omega, by omega, by omega, ofUsize_ok (by omega)⟩

/-- `3·B` fits below the sentinel as soon as one of the sequences has two symbols -/
theorem env_three (E : I32Env sc cl x y B) (h2 : 2 ≤ max x.length y.length) : 3 * B ≤ 2147483648 + minScore := by
  have hroom := E.room
  have hB1 := E.B1
  have : ((2 : Int) + 1) * B ≤ (((max x.length y.length : Nat) : Int) + 1) * B :=
    Int.mul_le_mul_of_nonneg_right (by omega) (by omega)
  omega

theorem mem_getD {l : List Nat} {i : Nat} (hi : i < l.length) : l.getD i 0 ∈ l := by
  rw [List.getD_eq_getElem?_getD, List.getElem?_eq_getElem hi]; exact List.getElem_mem hi

/-- every cell of the unbounded mirror lies in the ranges -/
theorem cell_RB (E : I32Env sc cl x y B) : ∀ j, j ≤ y.length → ∀ i, i ≤ x.length →
    RB B ((i : Int) * B) (cell sc cl x y j i) := by
  have N := env_num E
  have hB1 := E.B1
  intro j
  induction j with
  | zero =>
    intro _ i
    induction i with
    | zero => intro _; rw [cell_zero_zero]; simpa using row00_RB (x := x) (y := y) N
    | succ i ih =>
      intro hi
      have I := env_idx E (k := i + 1) (by omega) (by omega)
      rw [cell_zero_succ _ _ _ _ _ hi, succ_mul_B]
      have hu0 : 0 ≤ (i : Int) * B := Int.mul_nonneg (by omega) (by omega)
      exact (step0_RB N I _ hu0 (ih (by omega))).mono (by omega)
  | succ j ihj =>
    intro hj i
    have J := env_idx E (k := j + 1) (by omega) (by omega)
    induction i with
    | zero =>
      intro _
      rw [cell_succ_zero]
      have := ihj (by omega) 0 (by omega)
      simp only [Int.natCast_zero, Int.zero_mul] at this ⊢
      exact rowJ0_RB N J _ this
    | succ i ih =>
      intro hi
      have I := env_idx E (k := i + 1) (by omega) (by omega)
      rw [cell_succ_succ _ _ _ _ _ _ hi, succ_mul_B]
      have hu0 : 0 ≤ (i : Int) * B := Int.mul_nonneg (by omega) (by omega)
      have hp1 := ihj (by omega) i (by omega)
      have hp := ihj (by omega) (i + 1) (by omega)
      rw [succ_mul_B] at hp
      refine stepJ_RB N I J (colAt sc cl x y j) _ hu0 (ih (by omega)) ?_ hp ?_
      · simpa [cell] using hp1
      · exact E.whi _ (mem_getD (by simp; omega)) _ (mem_getD (by simp; omega))

theorem col0_iterAt (t : Nat) (ht : t ≤ x.length) :
    iterAt (step0 sc cl x y) 0 (row00 cl x y) t = cell sc cl x y 0 t := by
  simp only [cell, colAt, col0]
  rw [iter_getD _ _ _ _ _ _ ht]

theorem colJ_iterAt (j t : Nat) (ht : t ≤ x.length) :
    iterAt (stepJ sc cl x y (j + 1) (colAt sc cl x y j)) 0
      (rowJ0 sc cl x y (j + 1) ((colAt sc cl x y j).getD 0 default)) t = cell sc cl x y (j + 1) t := by
  simp only [cell, colAt, colStep]
  rw [iter_getD _ _ _ _ _ _ ht]

theorem mul_B_le (E : I32Env sc cl x y B) {i : Nat} (hi : i ≤ max x.length y.length) :
    (i : Int) * B ≤ mxLen x y * B :=
  Int.mul_le_mul_of_nonneg_right (by unfold mxLen; omega) (by have := E.B1; omega)

theorem col0C_eq (E : I32Env sc cl x y B) : col0C sc cl x y = some (col0 sc cl x y) := by
  have N := env_num E
  have hB1 := E.B1
  unfold col0C col0
  refine iterC_eq _ _ _ _ _ fun t ht => ?_
  rw [col0_iterAt t (by omega), Nat.zero_add]
  have I := env_idx E (k := t + 1) (by omega) (by omega)
  exact step0C_eq N I _ (Int.mul_nonneg (by omega) (by omega)) (mul_B_le E (by omega))
    (cell_RB E 0 (by omega) t (by omega))

theorem colStepC_eq (E : I32Env sc cl x y B) (j : Nat) (hj : j + 1 ≤ y.length) :
    colStepC sc cl x y (j + 1) (colAt sc cl x y j) = some (colAt sc cl x y (j + 1)) := by
  have N := env_num E
  have hB1 := E.B1
  have J := env_idx E (k := j + 1) (by omega) (by omega)
  have h0 := cell_RB E j (by omega) 0 (by omega)
  have e0 : ((0 : Nat) : Int) * B = 0 := by simp
  rw [e0] at h0
  unfold colStepC
  rw [rowJ0C_eq N J _ (by simpa [cell] using h0), xclipC_eq N J]
  simp only [colAt, colStep]
  refine iterC_eq _ _ _ _ _ fun t ht => ?_
  have e := colJ_iterAt (sc := sc) (cl := cl) (x := x) (y := y) j t (by omega)
  rw [e, Nat.zero_add]
  have I := env_idx E (k := t + 1) (by omega) (by omega)
  have hp1 := cell_RB E j (by omega) t (by omega)
  have hp := cell_RB E j (by omega) (t + 1) (by omega)
  have hle := mul_B_le E (i := t + 1) (by omega)
  rw [succ_mul_B] at hp hle
  have hmx : x.getD t 0 ∈ x := mem_getD (by omega)
  have hmy : y.getD j 0 ∈ y := mem_getD (by omega)
  refine stepJC_eq N I J _ _ (Int.mul_nonneg (by omega) (by omega)) hle
    (cell_RB E (j + 1) (by omega) t (by omega)) (by simpa [cell] using hp1) (by simpa [cell] using hp)
    ⟨by simpa using E.wlo _ hmx _ hmy, by simpa using E.whi _ hmx _ hmy⟩ ?_
  -- `I[curr][i-1] + gap_extend` and `D[prev][i] + gap_extend` reach `MIN_SCORE − 3B` only from a row / column `≥ 1`
  by_cases hM : 2 ≤ max x.length y.length
  · exact Or.inl (env_three E hM)
  · right
    have ht : t = 0 := by omega
    have hj0 : j = 0 := by omega
    subst ht; subst hj0
    constructor
    · rw [cell_succ_zero]; rfl
    · show (cell sc cl x y 0 1).d = minScore
      rw [cell_zero_succ _ _ _ _ _ (by omega)]; rfl

theorem colsC_eq (E : I32Env sc cl x y B) : ∀ k j, j + k ≤ y.length →
    colsC sc cl x y k j (colAt sc cl x y j) = some (iter (colStep sc cl x y) k j (colAt sc cl x y j)) := by
  intro k
  induction k with
  | zero => intro j _; rfl
  | succ k ih =>
    intro j hj
    have h1 := colStepC_eq E j (by omega)
    have h2 := ih (j + 1) (by omega)
    have e : colStep sc cl x y (j + 1) (colAt sc cl x y j) = colAt sc cl x y (j + 1) := rfl
    simp only [colsC, iter, h1, h2, e]

theorem allColsC_eq (E : I32Env sc cl x y B) : allColsC sc cl x y = some (allCols sc cl x y) := by
  unfold allColsC allCols
  rw [col0C_eq E]
  exact colsC_eq E y.length 0 (by omega)

/-! ### the post-loops -/

theorem post1_iterAt (col : List Row) (t : Nat) (ht : t ≤ x.length) :
    iterAt (post1Step cl x col) 0 (post1Step cl x col 0 (p1init x col)) t = (post1 cl x col).getD t default := by
  simp only [post1]
  rw [iter_getD _ _ _ _ _ _ ht]

theorem post2_iterAt (s1 : List PSt) (t : Nat) (ht : t ≤ x.length) :
    iterAt (post2Step sc cl x s1) 0 (p2init x s1) t = (post2 sc cl x s1).getD t default := by
  simp only [post2]
  rw [iter_getD _ _ _ _ _ _ ht]

theorem lastCol_RB (E : I32Env sc cl x y B) (i : Nat) (hi : i ≤ x.length) :
    RB B ((x.length : Int) * B) ((colAt sc cl x y y.length).getD i default) :=
  (cell_RB E y.length (by omega) i hi).mono
    (Int.mul_le_mul_of_nonneg_right (by omega) (by have := E.B1; omega))

theorem post1_PB (E : I32Env sc cl x y B) : ∀ t, t ≤ x.length →
    PB ((x.length : Int) * B) ((post1 cl x (colAt sc cl x y y.length)).getD t default) := by
  have N := env_num E
  have hU := mul_B_le E (i := x.length) (by omega)
  intro t
  induction t with
  | zero =>
    intro _
    rw [post1_getD_zero]
    have hm := lastCol_RB E x.length (by omega)
    exact (post1StepC_eq N _ 0 _ hU (by simpa [p1init] using hm.xm) (lastCol_RB E 0 (by omega))).2
  | succ t ih =>
    intro ht
    rw [post1_getD_succ _ _ _ _ ht]
    exact (post1StepC_eq N _ (t + 1) _ hU (ih (by omega)).xm (lastCol_RB E (t + 1) ht)).2

theorem post1C_eq (E : I32Env sc cl x y B) :
    post1C cl x (colAt sc cl x y y.length) = some (post1 cl x (colAt sc cl x y y.length)) := by
  have N := env_num E
  have hU := mul_B_le E (i := x.length) (by omega)
  have hm := lastCol_RB E x.length (by omega)
  unfold post1C
  rw [(post1StepC_eq N _ 0 _ hU (by simpa [p1init] using hm.xm) (lastCol_RB E 0 (by omega))).1]
  simp only [post1]
  refine iterC_eq _ _ _ _ _ fun t ht => ?_
  rw [post1_iterAt _ t (by omega), Nat.zero_add]
  exact (post1StepC_eq N _ (t + 1) _ hU (post1_PB E t (by omega)).xm (lastCol_RB E (t + 1) (by omega))).1

theorem post2_PB (E : I32Env sc cl x y B) : ∀ t, t ≤ x.length →
    PB ((x.length : Int) * B) ((post2 sc cl x (post1 cl x (colAt sc cl x y y.length))).getD t default) := by
  have N := env_num E
  have hU := mul_B_le E (i := x.length) (by omega)
  intro t
  induction t with
  | zero =>
    intro _
    rw [post2_getD_zero]
    exact ⟨(post1_PB E 0 (by omega)).s, (post1_PB E x.length (by omega)).xm⟩
  | succ t ih =>
    intro ht
    have I := env_idx E (k := t + 1) (by omega) (by omega)
    rw [post2_getD_succ _ _ _ _ _ ht]
    exact (post2StepC_eq N I.BG _ (t + 1) _ hU (ih (by omega)) (post1_PB E (t + 1) ht).s).2

theorem post2C_eq (E : I32Env sc cl x y B) :
    post2C sc cl x (post1 cl x (colAt sc cl x y y.length)) =
      some (post2 sc cl x (post1 cl x (colAt sc cl x y y.length))) := by
  have N := env_num E
  have hU := mul_B_le E (i := x.length) (by omega)
  unfold post2C
  simp only [post2]
  refine iterC_eq _ _ _ _ _ fun t ht => ?_
  rw [post2_iterAt _ t (by omega), Nat.zero_add]
  have I := env_idx E (k := t + 1) (by omega) (by omega)
  exact (post2StepC_eq N I.BG _ (t + 1) _ hU (post2_PB E t (by omega)) (post1_PB E (t + 1) (by omega)).s).1

/-- **no checked operation of the fill fails, and the checked fill is the unbounded fill** -/
theorem fillC_eq (E : I32Env sc cl x y B) : fillC sc cl x y = some (fill sc cl x y) := by
  unfold fillC
  rw [allColsC_eq E]
  simp only [allCols_getD sc cl x y y.length (Nat.le_refl _), post1C_eq E, post2C_eq E, fill]

theorem customC_eq (E : I32Env sc cl x y B) : customC sc cl x y =
    match custom sc cl x y with
    | none => .noTermination
    | some o => .done o := by
  unfold customC
  rw [fillC_eq E, custom_eq_customOf]
  rfl

end

end RbV.Model.PairwiseFill
