import RbV.Model.PairwiseFill
import RbV.Lemmas.AlignRev
/-!
Basic lemmas for the refinement proof of `Model/PairwiseFill.lean` (core Lean only):
`iter` (a `for` loop that keeps all intermediate states) read by index, `upd` as `max`, sub-ranges growing by one
symbol, and the forward (snoc) reading of `score`: appending one operation, and splitting off the last operation.
-/
namespace RbV.Model.PairwiseFill
open RbV.Align

/-! ### `iter` -/

/-- state after `t` iterations, started at index `i0` in state `r` -/
def iterAt {α : Type} (step : Nat → α → α) (i0 : Nat) (r : α) : Nat → α
  | 0 => r
  | t + 1 => step (i0 + t + 1) (iterAt step i0 r t)

theorem iterAt_shift {α : Type} (step : Nat → α → α) (i0 : Nat) (r : α) (t : Nat) :
    iterAt step i0 r (t + 1) = iterAt step (i0 + 1) (step (i0 + 1) r) t := by
  induction t with
  | zero => simp [iterAt]
  | succ t ih =>
    rw [iterAt, ih]
    simp only [iterAt]
    have : i0 + (t + 1) + 1 = i0 + 1 + t + 1 := by omega
    rw [this]

theorem iter_length {α : Type} (step : Nat → α → α) (k i0 : Nat) (r : α) : (iter step k i0 r).length = k + 1 := by
  induction k generalizing i0 r with
  | zero => simp [iter]
  | succ k ih => simp [iter, ih]

theorem iter_getD {α : Type} (step : Nat → α → α) (d : α) (k : Nat) : ∀ (i0 : Nat) (r : α) (t : Nat), t ≤ k →
    (iter step k i0 r).getD t d = iterAt step i0 r t := by
  induction k with
  | zero =>
    intro i0 r t ht
    have : t = 0 := by omega
    subst this; simp [iter, iterAt]
  | succ k ih =>
    intro i0 r t ht
    cases t with
    | zero => simp [iter, iterAt]
    | succ t =>
      rw [iter, List.getD_cons_succ, ih (i0 + 1) (step (i0 + 1) r) t (by omega), iterAt_shift]

/-- the form used everywhere: a loop `for i in 1..=k` started from `r` -/
theorem iter_getD_zero {α : Type} (step : Nat → α → α) (d : α) (k : Nat) (r : α) :
    (iter step k 0 r).getD 0 d = r := by
  rw [iter_getD step d k 0 r 0 (by omega)]; rfl

theorem iter_getD_succ {α : Type} (step : Nat → α → α) (d : α) (k : Nat) (r : α) (t : Nat) (ht : t + 1 ≤ k) :
    (iter step k 0 r).getD (t + 1) d = step (t + 1) ((iter step k 0 r).getD t d) := by
  rw [iter_getD step d k 0 r (t + 1) ht, iter_getD step d k 0 r t (by omega)]
  simp [iterAt]

/-! ### `upd` -/

theorem upd_eq_max (a b : Int) : upd a b = max a b := by
  unfold upd; split <;> omega

theorem ite_gt_eq_max (a b : Int) : (if a > b then a else b) = max a b := by
  split <;> omega

/-! ### sub-ranges -/

theorem slice_self (x : List Nat) (i : Nat) : slice x i i = [] := by
  simp [slice]

theorem slice_length (x : List Nat) (s e : Nat) (he : e ≤ x.length) : (slice x s e).length = e - s := by
  simp [slice, List.length_drop, List.length_take]; omega

theorem slice_succ (x : List Nat) (s i : Nat) (hs : s ≤ i) (hi : i < x.length) :
    slice x s (i + 1) = slice x s i ++ [x.getD i 0] := by
  unfold slice
  rw [← List.take_append_getElem hi, List.drop_append_of_le_length (by simp [List.length_take]; omega)]
  simp [List.getD_eq_getElem?_getD, List.getElem?_eq_getElem hi]

theorem slice_eq_nil_iff (x : List Nat) (s e : Nat) (he : e ≤ x.length) : slice x s e = [] ↔ e ≤ s := by
  rw [← List.length_eq_zero_iff, slice_length x s e he]; omega

/-- splitting the last symbol off a sub-range -/
theorem slice_eq_snoc (x : List Nat) (s e : Nat) (he : e ≤ x.length) (X : List Nat) (a : Nat)
    (h : slice x s e = X ++ [a]) : ∃ i, e = i + 1 ∧ s ≤ i ∧ X = slice x s i ∧ a = x.getD i 0 := by
  have hl := slice_length x s e he
  rw [h] at hl
  simp at hl
  obtain ⟨i, rfl⟩ : ∃ i, e = i + 1 := ⟨e - 1, by omega⟩
  refine ⟨i, rfl, by omega, ?_⟩
  rw [slice_succ x s i (by omega) (by omega)] at h
  have := List.append_inj' h (by simp)
  exact ⟨this.1.symm, by simpa using this.2.symm⟩

/-! ### `score`, read forwards -/

theorem score_snoc_ins (sc : Sc) (X Y : List Nat) (ops : List Op) (c : Int) (a : Nat)
    (h : score sc .none X Y ops = some c) :
    score sc .none (X ++ [a]) Y (ops ++ [.ins]) = some (c + gapI sc (lastSt .none ops)) := by
  have := score_append sc ops .none X Y c h [a] [] [.ins]
  rw [List.append_nil] at this
  rw [this]; simp [score]; omega

theorem score_snoc_del (sc : Sc) (X Y : List Nat) (ops : List Op) (c : Int) (b : Nat)
    (h : score sc .none X Y ops = some c) :
    score sc .none X (Y ++ [b]) (ops ++ [.del]) = some (c + gapD sc (lastSt .none ops)) := by
  have := score_append sc ops .none X Y c h [] [b] [.del]
  rw [List.append_nil] at this
  rw [this]; simp [score]; omega

theorem score_snoc_mat (sc : Sc) (X Y : List Nat) (ops : List Op) (c : Int) (a b : Nat) (hab : a = b)
    (h : score sc .none X Y ops = some c) :
    score sc .none (X ++ [a]) (Y ++ [b]) (ops ++ [.mat]) = some (c + sc.w a b) := by
  have := score_append sc ops .none X Y c h [a] [b] [.mat]
  rw [this]; simp [score, hab]; omega

theorem score_snoc_sub (sc : Sc) (X Y : List Nat) (ops : List Op) (c : Int) (a b : Nat) (hab : a ≠ b)
    (h : score sc .none X Y ops = some c) :
    score sc .none (X ++ [a]) (Y ++ [b]) (ops ++ [.sub]) = some (c + sc.w a b) := by
  have := score_append sc ops .none X Y c h [a] [b] [.sub]
  rw [this]; simp [score, hab]; omega

/-- validity is symmetric under reversal (from `score_reverse`) -/
theorem valid_reverse (X Y : List Nat) (ops : List Op) (h : valid X Y ops = true) :
    valid X.reverse Y.reverse ops.reverse = true := by
  let sc0 : Sc := ⟨fun _ _ => 0, 0, 0⟩
  obtain ⟨v, hv⟩ := (valid_iff_score sc0 .none X Y ops).mp h
  exact (valid_iff_score sc0 .none _ _ _).mpr ⟨v, score_reverse sc0 ops X Y v hv⟩

theorem valid_snoc_ins (X Y : List Nat) (ops : List Op) (h : valid X Y (ops ++ [.ins]) = true) :
    ∃ X' a, X = X' ++ [a] ∧ valid X' Y ops = true := by
  have hr := valid_reverse _ _ _ h
  rw [List.reverse_append, List.reverse_singleton, List.singleton_append] at hr
  cases hX : X.reverse with
  | nil => rw [hX] at hr; cases Y.reverse <;> simp [valid] at hr
  | cons a X'' =>
    rw [hX] at hr
    simp only [valid] at hr
    have h2 := valid_reverse _ _ _ hr
    simp only [List.reverse_reverse] at h2
    refine ⟨X''.reverse, a, ?_, h2⟩
    have := congrArg List.reverse hX
    simpa using this

theorem valid_snoc_del (X Y : List Nat) (ops : List Op) (h : valid X Y (ops ++ [.del]) = true) :
    ∃ Y' b, Y = Y' ++ [b] ∧ valid X Y' ops = true := by
  have hr := valid_reverse _ _ _ h
  rw [List.reverse_append, List.reverse_singleton, List.singleton_append] at hr
  cases hY : Y.reverse with
  | nil => rw [hY] at hr; cases X.reverse <;> simp [valid] at hr
  | cons b Y'' =>
    rw [hY] at hr
    have hr' : valid X.reverse Y'' ops.reverse = true := by
      cases hX : X.reverse <;> (rw [hX] at hr; simpa [valid] using hr)
    have h2 := valid_reverse _ _ _ hr'
    simp only [List.reverse_reverse] at h2
    refine ⟨Y''.reverse, b, ?_, h2⟩
    have := congrArg List.reverse hY
    simpa using this

theorem valid_snoc_mat (X Y : List Nat) (ops : List Op) (h : valid X Y (ops ++ [.mat]) = true) :
    ∃ X' a Y' b, X = X' ++ [a] ∧ Y = Y' ++ [b] ∧ a = b ∧ valid X' Y' ops = true := by
  have hr := valid_reverse _ _ _ h
  rw [List.reverse_append, List.reverse_singleton, List.singleton_append] at hr
  cases hX : X.reverse with
  | nil => rw [hX] at hr; cases Y.reverse <;> simp [valid] at hr
  | cons a X'' =>
    cases hY : Y.reverse with
    | nil => rw [hX, hY] at hr; simp [valid] at hr
    | cons b Y'' =>
      rw [hX, hY] at hr
      simp only [valid, Bool.and_eq_true, decide_eq_true_eq] at hr
      have h2 := valid_reverse _ _ _ hr.2
      simp only [List.reverse_reverse] at h2
      refine ⟨X''.reverse, a, Y''.reverse, b, ?_, ?_, hr.1, h2⟩
      · have := congrArg List.reverse hX; simpa using this
      · have := congrArg List.reverse hY; simpa using this

theorem valid_snoc_sub (X Y : List Nat) (ops : List Op) (h : valid X Y (ops ++ [.sub]) = true) :
    ∃ X' a Y' b, X = X' ++ [a] ∧ Y = Y' ++ [b] ∧ a ≠ b ∧ valid X' Y' ops = true := by
  have hr := valid_reverse _ _ _ h
  rw [List.reverse_append, List.reverse_singleton, List.singleton_append] at hr
  cases hX : X.reverse with
  | nil => rw [hX] at hr; cases Y.reverse <;> simp [valid] at hr
  | cons a X'' =>
    cases hY : Y.reverse with
    | nil => rw [hX, hY] at hr; simp [valid] at hr
    | cons b Y'' =>
      rw [hX, hY] at hr
      simp only [valid, Bool.and_eq_true, decide_eq_true_eq] at hr
      have h2 := valid_reverse _ _ _ hr.2
      simp only [List.reverse_reverse] at h2
      refine ⟨X''.reverse, a, Y''.reverse, b, ?_, ?_, hr.1, h2⟩
      · have := congrArg List.reverse hX; simpa using this
      · have := congrArg List.reverse hY; simpa using this

/-- splitting off a final insertion -/
theorem score_snoc_ins_inv (sc : Sc) (X Y : List Nat) (ops : List Op) (c : Int)
    (h : score sc .none X Y (ops ++ [.ins]) = some c) :
    ∃ X' a c', X = X' ++ [a] ∧ score sc .none X' Y ops = some c' ∧ c = c' + gapI sc (lastSt .none ops) := by
  obtain ⟨X', a, rfl, hv⟩ := valid_snoc_ins X Y ops ((valid_iff_score sc .none _ _ _).mpr ⟨c, h⟩)
  obtain ⟨c', hc'⟩ := (valid_iff_score sc .none _ _ _).mp hv
  refine ⟨X', a, c', rfl, hc', ?_⟩
  rw [score_snoc_ins sc X' Y ops c' a hc'] at h
  simpa using h.symm

theorem score_snoc_del_inv (sc : Sc) (X Y : List Nat) (ops : List Op) (c : Int)
    (h : score sc .none X Y (ops ++ [.del]) = some c) :
    ∃ Y' b c', Y = Y' ++ [b] ∧ score sc .none X Y' ops = some c' ∧ c = c' + gapD sc (lastSt .none ops) := by
  obtain ⟨Y', b, rfl, hv⟩ := valid_snoc_del X Y ops ((valid_iff_score sc .none _ _ _).mpr ⟨c, h⟩)
  obtain ⟨c', hc'⟩ := (valid_iff_score sc .none _ _ _).mp hv
  refine ⟨Y', b, c', rfl, hc', ?_⟩
  rw [score_snoc_del sc X Y' ops c' b hc'] at h
  simpa using h.symm

theorem score_snoc_mat_inv (sc : Sc) (X Y : List Nat) (ops : List Op) (c : Int)
    (h : score sc .none X Y (ops ++ [.mat]) = some c) :
    ∃ X' a Y' b c', X = X' ++ [a] ∧ Y = Y' ++ [b] ∧ score sc .none X' Y' ops = some c' ∧ c = c' + sc.w a b := by
  obtain ⟨X', a, Y', b, rfl, rfl, hab, hv⟩ := valid_snoc_mat X Y ops ((valid_iff_score sc .none _ _ _).mpr ⟨c, h⟩)
  obtain ⟨c', hc'⟩ := (valid_iff_score sc .none _ _ _).mp hv
  refine ⟨X', a, Y', b, c', rfl, rfl, hc', ?_⟩
  rw [score_snoc_mat sc X' Y' ops c' a b hab hc'] at h
  simpa using h.symm

theorem score_snoc_sub_inv (sc : Sc) (X Y : List Nat) (ops : List Op) (c : Int)
    (h : score sc .none X Y (ops ++ [.sub]) = some c) :
    ∃ X' a Y' b c', X = X' ++ [a] ∧ Y = Y' ++ [b] ∧ score sc .none X' Y' ops = some c' ∧ c = c' + sc.w a b := by
  obtain ⟨X', a, Y', b, rfl, rfl, hab, hv⟩ := valid_snoc_sub X Y ops ((valid_iff_score sc .none _ _ _).mpr ⟨c, h⟩)
  obtain ⟨c', hc'⟩ := (valid_iff_score sc .none _ _ _).mp hv
  refine ⟨X', a, Y', b, c', rfl, rfl, hc', ?_⟩
  rw [score_snoc_sub sc X' Y' ops c' a b hab hc'] at h
  simpa using h.symm

theorem score_nil_inv (sc : Sc) (X Y : List Nat) (c : Int) (h : score sc .none X Y [] = some c) :
    X = [] ∧ Y = [] ∧ c = 0 := by
  cases X <;> cases Y <;> simp [score] at h
  exact ⟨rfl, rfl, h.symm⟩

end RbV.Model.PairwiseFill
