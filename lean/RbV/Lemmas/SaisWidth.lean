import RbV.Lemmas.SaisFirst
import RbV.Lemmas.SaisTransform
/-!
C03, integer widths of SA-IS (`src/data_structures/suffix_array.rs`).

The reduced text of `sort_lms_suffixes::<T, S>` is a `Vec<S>` with `S` chosen by `calc_lms_pos` from
`lms_substring_count` (`u8` if `≤ u8::MAX`, `u16` if `≤ u16::MAX`, `u32` if `≤ u32::MAX`, else `u64`); every value
stored is `cast(label).unwrap()` (a panic, not a truncation, if it does not fit).  The mirror stores `Nat`s.  Here:
every value the naming loop stores — the initial `cast(0)`, every `label` — is `< lms_substring_count`
(`naming_lt_count`), every value of `transform_text::<T>` is `< alphabet.len() + sentinel_count` (`transformText_lt`),
and a value below the dispatching count fits the type the `if`/`match` chain selects provided every guard's bound fits
its arm's type (`pick_fits`; the guards and types are extracted from the source text: `RbV/Gen/SaisWidth.lean`).
-/
namespace RbV.Sais
open RbV

/-- the type an `if count <= K₁ {…u_{b₁}…} else if count <= K₂ {…} … else {…u_e…}` chain selects: `arms` = the pairs
`(Kᵢ, bᵢ)` in source order, `els` = `e` -/
def pick (arms : List (Nat × Nat)) (els : Nat) (count : Nat) : Nat :=
  match arms.find? (fun a => decide (count ≤ a.1)) with
  | some a => a.2
  | none => els

/-- if every guard's bound fits the type its arm instantiates (and `count` is a `usize`), a value below the dispatching
count fits the selected type: `cast(v).unwrap()` does not panic -/
theorem pick_fits (arms : List (Nat × Nat)) (els count v : Nat) (harms : ∀ a ∈ arms, a.1 < 2 ^ a.2)
    (hels : count < 2 ^ els) (hv : v < count) : v < 2 ^ pick arms els count := by
  unfold pick
  cases h : arms.find? (fun a => decide (count ≤ a.1)) with
  | none => simp only []; omega
  | some a =>
    simp only []
    have h1 := List.find?_some h
    have h2 := harms a (List.mem_of_find?_eq_some h)
    simp only [decide_eq_true_eq] at h1
    omega

theorem mem_redOf (redPos : List Nat) : ∀ (qs labs red : List Nat) (v : Nat),
    v ∈ redOf redPos red qs labs → v ∈ red ∨ v ∈ labs := by
  intro qs
  induction qs with
  | nil => intro labs red v h; simp only [redOf] at h; exact Or.inl h
  | cons q qs ih =>
    intro labs red v h
    cases labs with
    | nil => simp only [redOf] at h; exact Or.inl h
    | cons lab labs =>
      simp only [redOf] at h
      rcases ih labs _ v h with h1 | h1
      · rcases List.mem_or_eq_of_mem_set h1 with h2 | h2
        · exact Or.inl h2
        · exact Or.inr (by rw [h2]; exact List.mem_cons_self)
      · exact Or.inr (List.mem_cons_of_mem _ h1)

/-- every label is below the number of positions labelled -/
theorem labels_lt_length (eq : Nat → Nat → Bool) (qs : List Nat) (v : Nat) (hv : v ∈ labels eq qs) : v < qs.length := by
  obtain ⟨a, ha, rfl⟩ := List.getElem_of_mem hv
  rw [length_labels] at ha
  have h1 := (labels_mono eq qs 0 a (Nat.zero_le _) ha).2
  rw [labels_zero] at h1
  have e : (labels eq qs)[a] = (labels eq qs).getD a 0 := by
    rw [List.getD_eq_getElem?_getD, List.getElem?_eq_getElem (by rw [length_labels]; exact ha)]; rfl
  rw [e]; omega

/-- **every entry of the reduced text is below `lms_substring_count`** (for the text the naming loop of the mirror
builds on the `pos` left by the first `calc_pos`) -/
theorem red1_lt_count (t : List Nat) (hv : Valid t) (h2 : 2 ≤ t.length) (redPos : List Nat) (v : Nat)
    (hmem : v ∈ red1 t redPos) : v < (lmsBelow (tyOf t) t.length).length := by
  unfold red1 at hmem
  rcases mem_redOf redPos _ _ _ v hmem with h | h
  · have hpos : 0 < (lmsBelow (tyOf t) t.length).length := by
      rcases Nat.eq_zero_or_pos (lmsBelow (tyOf t) t.length).length with h0 | h0
      · rw [h0] at h; simp at h
      · exact h0
    rw [List.mem_replicate] at h
    omega
  · have := labels_lt_length _ _ v h
    rw [length_qs1 t hv h2] at this
    exact this


/-- the naming loop of the mirror, run on the state the first `calc_pos` leaves (`s.pos = pos1 t`), with
`cnt = lms_substring_count`: the final `label` and every entry of `reduced_text` are below `cnt` -/
theorem naming_lt_count (t : List Nat) (hv : Valid t) (h2 : 2 ≤ t.length) (s : St) (hs : s.pos = pos1 t)
    (hm : 0 < (lmsBelow (tyOf t) t.length).length) :
    (naming t (tyOf t) (lmsBelow (tyOf t) t.length).length s).label < (lmsBelow (tyOf t) t.length).length ∧
      ∀ v ∈ (naming t (tyOf t) (lmsBelow (tyOf t) t.length).length s).red, v < (lmsBelow (tyOf t) t.length).length := by
  obtain ⟨hlab, hred⟩ := naming_eq t (tyOf t) (lmsBelow (tyOf t) t.length).length s
  rw [hs] at hlab hred
  have hlab' : (naming t (tyOf t) (lmsBelow (tyOf t) t.length).length s).label =
      (labels (lmsSubEq t (tyOf t)) (qs1 t)).getLastD 0 := hlab
  have hred' : (naming t (tyOf t) (lmsBelow (tyOf t) t.length).length s).red = red1 t s.redPos := hred
  constructor
  · rw [hlab']
    have hq := length_qs1 t hv h2
    have hne : qs1 t ≠ [] := by
      intro h; rw [h] at hq; simp at hq; omega
    have hne' : labels (lmsSubEq t (tyOf t)) (qs1 t) ≠ [] := by
      intro h
      have := length_labels (lmsSubEq t (tyOf t)) (qs1 t)
      rw [h] at this
      exact hne (List.eq_nil_of_length_eq_zero this.symm)
    have hmem : (labels (lmsSubEq t (tyOf t)) (qs1 t)).getLastD 0 ∈ labels (lmsSubEq t (tyOf t)) (qs1 t) := by
      rw [List.getLastD_eq_getLast?, List.getLast?_eq_some_getLast hne']
      exact List.getLast_mem hne'
    have := labels_lt_length _ _ _ hmem
    omega
  · intro v hv'
    rw [hred'] at hv'
    exact red1_lt_count t hv h2 s.redPos v hv'

/-! ### `transform_text::<T>`, `T` chosen from `alphabet.len() + sentinel_count` -/

theorem count_drop_lt (l : List Nat) (s p : Nat) (hp : p < l.length) (hs : l.getD p 0 = s) :
    (l.drop (p + 1)).count s < l.count s := by
  have h := List.take_append_drop (p + 1) l
  have hc : l.count s = (l.take (p + 1)).count s + (l.drop (p + 1)).count s := by
    rw [← List.count_append, h]
  have hmem : s ∈ l.take (p + 1) := by
    rw [List.mem_take_iff_getElem]
    refine ⟨p, by omega, ?_⟩
    rw [List.getD_eq_getElem?_getD, List.getElem?_eq_getElem hp] at hs
    simpa using hs
  have := List.count_pos_iff.mpr hmem
  omega

theorem mem_alphabet (t : List Nat) (a : Nat) (ha : a ∈ t) : a ∈ alphabet t := by
  unfold alphabet
  rw [List.mem_filter, List.mem_range]
  exact ⟨by have := mem_le_foldl_max t 0 a ha; omega, by simpa using ha⟩

/-- **every value of the transformed text is below `alphabet.len() + sentinel_count`** -/
theorem transformText_lt (t : List Nat) (v : Nat) (hv : v ∈ Sais.transformText t) :
    v < (alphabet t).length + t.count (sentinelOf t) := by
  rw [transformText_eq] at hv
  obtain ⟨p, hp, rfl⟩ := List.getElem_of_mem hv
  rw [Transform.length_transformText] at hp
  have e : (Transform.transformText t)[p] = (Transform.transformText t).getD p 0 := by
    rw [List.getD_eq_getElem?_getD, List.getElem?_eq_getElem (by rw [Transform.length_transformText]; exact hp)]; rfl
  rw [e, Transform.transformText_getD t p hp]
  have hmem : t.getD p 0 ∈ t := Transform.getD_mem t p hp
  split
  · rename_i hsp
    have := count_drop_lt t (sentinelOf t) p hp ((isSentPos_iff_getD t p hp).mp hsp)
    unfold Transform.rkAfter
    omega
  · have h1 := alphabet_idxOf t _ hmem
    have h2 := List.idxOf_lt_length_iff.mpr (mem_alphabet t _ hmem)
    have hc : 0 < t.count (sentinelOf t) := List.count_pos_iff.mpr (sentinelOf_mem t (by
      intro h; rw [h] at hp; simp at hp))
    omega

end RbV.Sais
