import RbV.Model.Fasta
import RbV.Model.Fastq
/-! Lemmas behind the C11 theorems: line splitting, end trimming, header parsing. Core only. -/
namespace RbV.Fastx

/-! ### `splitLines` -/

theorem splitLines_line (l r : Bytes) (h : 10 ∉ l) : splitLines (l ++ 10 :: r) = (l ++ [10]) :: splitLines r := by
  induction l with
  | nil => simp [splitLines]
  | cons b l ih =>
    have hb : b ≠ 10 := fun e => h (by simp [e])
    have hl : 10 ∉ l := fun e => h (by simp [e])
    simp only [List.cons_append, splitLines, if_neg hb, ih hl]

theorem IsEol.cases {e : Bytes} (h : IsEol e) : e = [10] ∨ e = [13, 10] := h

/-- a line body without LF, followed by LF or CRLF, is one `read_line` piece -/
theorem splitLines_eol (l e r : Bytes) (h : 10 ∉ l) (he : IsEol e) :
    splitLines (l ++ e ++ r) = (l ++ e) :: splitLines r := by
  rcases he with rfl | rfl
  · simpa using splitLines_line l r h
  · have h' : 10 ∉ l ++ [13] := by simp [h]
    have := splitLines_line (l ++ [13]) r h'
    simpa using this

theorem splitLines_head (b : Nat) (r : Bytes) :
    ∃ l ls, splitLines (b :: r) = l :: ls ∧ l.head? = some b := by
  unfold splitLines
  split
  · rename_i hb; exact ⟨[10], _, rfl, by simp [hb]⟩
  · split
    · exact ⟨[b], [], rfl, rfl⟩
    · exact ⟨_, _, rfl, rfl⟩

/-! ### `trimEnd` -/

/-- no trailing white space (vacuous for the empty string) -/
def NoTrailWs (a : Bytes) : Prop := ∀ x, a.getLast? = some x → isWs x = false

theorem trimEnd_ws (w : Bytes) (h : ∀ b ∈ w, isWs b = true) : trimEnd w = [] := by
  induction w with
  | nil => rfl
  | cons b w ih =>
    have := ih (fun x hx => h x (by simp [hx]))
    simp [trimEnd, this, h b (by simp)]

theorem trimEnd_append_ws (a w : Bytes) (ha : NoTrailWs a) (hw : ∀ b ∈ w, isWs b = true) :
    trimEnd (a ++ w) = a := by
  induction a with
  | nil => simpa using trimEnd_ws w hw
  | cons b a ih =>
    have ha' : NoTrailWs a := by
      intro x hx
      cases a with
      | nil => simp at hx
      | cons c a => exact ha x (by simpa [List.getLast?_cons_cons] using hx)
    have := ih ha'
    simp only [List.cons_append, trimEnd, this]
    cases a with
    | nil =>
      have hb : isWs b = false := ha b (by simp)
      simp [hb]
    | cons c a => simp

theorem noTrailWs_of_all (a : Bytes) (h : ∀ b ∈ a, isWs b = false) : NoTrailWs a := by
  intro x hx
  exact h x (List.mem_of_getLast? hx)

theorem eol_ws {e : Bytes} (he : IsEol e) : ∀ b ∈ e, isWs b = true := by
  rcases he with rfl | rfl <;> simp [isWs]

theorem eol_no_lf_prefix {e : Bytes} (he : IsEol e) : e.head? ≠ some 62 ∧ e.head? ≠ some 43 ∧ e ≠ [] := by
  rcases he with rfl | rfl <;> simp

/-- a line `p ++ eol` whose body has no white space trims to `p` -/
theorem trimEnd_piece (p e : Bytes) (hp : ∀ b ∈ p, isWs b = false) (he : IsEol e) : trimEnd (p ++ e) = p :=
  trimEnd_append_ws p e (noTrailWs_of_all p hp) (eol_ws he)

/-! ### header fields -/

theorem splitn2_nosep (sep : Nat → Bool) (a : Bytes) (ha : ∀ b ∈ a, sep b = false) :
    splitn2 sep a = (a, none) := by
  induction a with
  | nil => rfl
  | cons b a ih =>
    have hb := ha b (by simp)
    have := ih (fun x hx => ha x (by simp [hx]))
    simp only [splitn2, Prod.mk.injEq] at this ⊢
    simp [List.takeWhile, List.dropWhile, hb, this.1]
    have h2 := this.2
    split at h2 <;> simp_all

theorem splitn2_sep (sep : Nat → Bool) (a d : Bytes) (s : Nat) (ha : ∀ b ∈ a, sep b = false) (hs : sep s = true) :
    splitn2 sep (a ++ s :: d) = (a, some d) := by
  induction a with
  | nil => simp [splitn2, List.takeWhile, List.dropWhile, hs]
  | cons b a ih =>
    have hb := ha b (by simp)
    have := ih (fun x hx => ha x (by simp [hx]))
    simp only [splitn2, Prod.mk.injEq] at this ⊢
    simp only [List.cons_append, List.takeWhile, List.dropWhile, hb, Bool.not_false]
    exact ⟨by simp [this.1], this.2⟩

/-- the text after the start character of a header line -/
def hdrText (id : Bytes) (desc : Option Bytes) : Bytes :=
  id ++ (match desc with | some d => 32 :: d | none => [])

theorem hdrText_noTrail (id : Bytes) (desc : Option Bytes) (hid : ∀ b ∈ id, isWs b = false)
    (hd : ∀ d, desc = some d → d ≠ [] ∧ 10 ∉ d ∧ NoTrailWs d) : NoTrailWs (hdrText id desc) := by
  cases desc with
  | none => simpa [hdrText] using noTrailWs_of_all id hid
  | some d =>
    obtain ⟨hne, _, hl⟩ := hd d rfl
    intro x hx
    apply hl x
    simp only [hdrText] at hx
    rw [List.getLast?_append] at hx
    cases d with
    | nil => exact absurd rfl hne
    | cons c d =>
      simp only [List.getLast?_cons_cons] at hx
      cases h : (c :: d).getLast? with
      | none => simp at h
      | some y => simp [h] at hx; simp [hx]

theorem hdrText_nolf (id : Bytes) (desc : Option Bytes) (hid : ∀ b ∈ id, isWs b = false)
    (hd : ∀ d, desc = some d → d ≠ [] ∧ 10 ∉ d ∧ NoTrailWs d) : 10 ∉ hdrText id desc := by
  intro h
  have h10 : isWs 10 = true := rfl
  cases desc with
  | none =>
    simp only [hdrText, List.append_nil] at h
    have := hid 10 h; simp [h10] at this
  | some d =>
    simp only [hdrText, List.mem_append, List.mem_cons] at h
    rcases h with h | h | h
    · have := hid 10 h; simp [h10] at this
    · cases h
    · exact (hd d rfl).2.1 h

/-- FASTA: the header line gives back id and description -/
theorem faHeader_line (id : Bytes) (desc : Option Bytes) (e : Bytes) (he : IsEol e)
    (hid : ∀ b ∈ id, isWs b = false) (hd : ∀ d, desc = some d → d ≠ [] ∧ 10 ∉ d ∧ NoTrailWs d) :
    faHeader (62 :: hdrText id desc ++ e) = (id, desc) := by
  unfold faHeader
  simp only [List.cons_append, List.tail_cons]
  rw [trimEnd_append_ws _ _ (hdrText_noTrail id desc hid hd) (eol_ws he)]
  cases desc with
  | none => simpa [hdrText] using splitn2_nosep isWs id hid
  | some d => simpa [hdrText] using splitn2_sep isWs id d 32 hid rfl

/-- FASTQ: the same with `splitn(2, ' ')` -/
theorem fqHeader_line (id : Bytes) (desc : Option Bytes) (e : Bytes) (he : IsEol e)
    (hid : ∀ b ∈ id, isWs b = false) (hd : ∀ d, desc = some d → d ≠ [] ∧ 10 ∉ d ∧ NoTrailWs d) :
    fqHeader (64 :: hdrText id desc ++ e) = (id, desc) := by
  unfold fqHeader
  simp only [List.cons_append, List.tail_cons]
  rw [trimEnd_append_ws _ _ (hdrText_noTrail id desc hid hd) (eol_ws he)]
  have hid' : ∀ b ∈ id, (b == 32) = false := by
    intro b hb
    have := hid b hb
    cases h : (b == 32) with
    | false => rfl
    | true => simp at h; subst h; simp [isWs] at this
  cases desc with
  | none => simpa [hdrText] using splitn2_nosep (· == 32) id hid'
  | some d => simpa [hdrText] using splitn2_sep (· == 32) id d 32 hid' rfl

/-! ### lines of a laid-out record -/

theorem splitLines_pieces (ps : List Bytes) (e r : Bytes) (hps : ∀ p ∈ ps, 10 ∉ p) (he : IsEol e) :
    splitLines (ps.flatMap (· ++ e) ++ r) = ps.map (· ++ e) ++ splitLines r := by
  induction ps with
  | nil => simp
  | cons p ps ih =>
    have h1 := hps p (by simp)
    have h2 := ih (fun q hq => hps q (by simp [hq]))
    simp only [List.flatMap_cons, List.map_cons, List.cons_append, List.append_assoc]
    have := splitLines_eol p e (ps.flatMap (· ++ e) ++ r) h1 he
    simp only [List.append_assoc] at this
    rw [this, h2]

theorem nolf_of_nows (p : Bytes) (h : ∀ b ∈ p, isWs b = false) : 10 ∉ p := by
  intro h10
  have := h 10 h10
  simp [isWs] at this

/-- what may follow a record: end of stream, or a line starting with the given character -/
def NextIs (c : Nat) (rest : List Bytes) : Prop := rest = [] ∨ ∃ l ls, rest = l :: ls ∧ startsWith l c = true

theorem nextIs_splitLines (c : Nat) (f : Bytes) (h : f = [] ∨ ∃ r, f = c :: r) : NextIs c (splitLines f) := by
  rcases h with rfl | ⟨r, rfl⟩
  · left; rfl
  · right
    obtain ⟨l, ls, h1, h2⟩ := splitLines_head c r
    exact ⟨l, ls, h1, by simp [startsWith, h2]⟩

theorem startsWith_piece (p e : Bytes) (c : Nat) (hp : p.head? ≠ some c) (he : e.head? ≠ some c) :
    startsWith (p ++ e) c = false := by
  cases p with
  | nil => simpa [startsWith] using he
  | cons b p => simpa [startsWith] using hp

theorem faSeq_pieces (ps : List Bytes) (e : Bytes) (rest : List Bytes) (he : IsEol e)
    (hps : ∀ p ∈ ps, (∀ b ∈ p, isWs b = false) ∧ p.head? ≠ some 62) (hrest : NextIs 62 rest) :
    faSeq (ps.map (· ++ e) ++ rest) = (ps.flatten, rest) := by
  induction ps with
  | nil =>
    rcases hrest with rfl | ⟨l, ls, rfl, hl⟩
    · rfl
    · simp [faSeq, hl]
  | cons p ps ih =>
    obtain ⟨h1, h2⟩ := hps p (by simp)
    have := ih (fun q hq => hps q (by simp [hq]))
    have hs := startsWith_piece p e 62 h2 (eol_no_lf_prefix he).1
    simp only [List.map_cons, List.cons_append, faSeq, hs, this, trimEnd_piece p e h1 he, List.flatten_cons]
    simp

theorem validFa_desc (r : FaRec) (v : ValidFa r) : ∀ d, r.desc = some d → d ≠ [] ∧ 10 ∉ d ∧ NoTrailWs d := v.desc_ok

theorem layoutFastaRec_eq (r : FaRec) (ps : List Bytes) (e : Bytes) :
    layoutFastaRec r ps e = (62 :: hdrText r.id r.desc) ++ e ++ ps.flatMap (· ++ e) := by
  cases h : r.desc <;> simp [layoutFastaRec, hdrText, h]

/-- the lines of one laid-out FASTA record followed by anything -/
theorem splitLines_faRec (r : FaRec) (ps : List Bytes) (e R : Bytes) (v : ValidFa r) (he : IsEol e)
    (hps : ps.flatten = r.seq) :
    splitLines (layoutFastaRec r ps e ++ R) =
      (62 :: hdrText r.id r.desc ++ e) :: (ps.map (· ++ e) ++ splitLines R) := by
  rw [layoutFastaRec_eq]
  have hn : 10 ∉ 62 :: hdrText r.id r.desc := by
    intro h
    rcases List.mem_cons.mp h with h | h
    · cases h
    · exact hdrText_nolf r.id r.desc v.id_nows v.desc_ok h
  have hp : ∀ p ∈ ps, 10 ∉ p := by
    intro p hp
    apply nolf_of_nows
    intro b hb
    exact (v.seq_ok b (by rw [← hps]; exact List.mem_flatten.mpr ⟨p, hp, hb⟩)).1
  have := splitLines_eol (62 :: hdrText r.id r.desc) e (ps.flatMap (· ++ e) ++ R) hn he
  simp only [List.append_assoc] at this ⊢
  rw [this, splitLines_pieces ps e R hp he]

/-- one `read` on the lines of a laid-out record -/
theorem faRecords_rec (r : FaRec) (ps : List Bytes) (e : Bytes) (rest : List Bytes) (v : ValidFa r) (he : IsEol e)
    (hps : ps.flatten = r.seq) (hrest : NextIs 62 rest) :
    faRecords ((62 :: hdrText r.id r.desc ++ e) :: (ps.map (· ++ e) ++ rest)) = .ok r :: faRecords rest := by
  have hpp : ∀ p ∈ ps, (∀ b ∈ p, isWs b = false) ∧ p.head? ≠ some 62 := by
    intro p hp
    have hmem : ∀ b ∈ p, b ∈ r.seq := fun b hb => by rw [← hps]; exact List.mem_flatten.mpr ⟨p, hp, hb⟩
    refine ⟨fun b hb => (v.seq_ok b (hmem b hb)).1, ?_⟩
    cases p with
    | nil => simp
    | cons b p => simpa using (v.seq_ok b (hmem b (by simp))).2
  rw [faRecords]
  have hsw : startsWith (62 :: hdrText r.id r.desc ++ e) 62 = true := by simp [startsWith]
  simp only [hsw, Bool.not_true, Bool.false_eq_true, if_false]
  rw [faHeader_line r.id r.desc e he v.id_nows v.desc_ok, faSeq_pieces ps e rest he hpp hrest, hps]
  have hne : ({ id := r.id, desc := r.desc, seq := r.seq } : FaRec).isEmpty = false := by
    have := v.seq_ne
    simp only [FaRec.isEmpty, Bool.and_eq_false_imp]
    intro _
    simpa using this
  simp [hne]

theorem layoutFasta_start (L : List (FaRec × List Bytes × Bytes)) :
    layoutFasta L = [] ∨ ∃ r, layoutFasta L = 62 :: r := by
  cases L with
  | nil => left; rfl
  | cons x L => right; simp [layoutFasta, layoutFastaRec]

theorem parseFasta_layout (L : List (FaRec × List Bytes × Bytes))
    (h : ∀ x ∈ L, ValidFa x.1 ∧ x.2.1.flatten = x.1.seq ∧ IsEol x.2.2) :
    parseFasta (layoutFasta L) = L.map (fun x => FaItem.ok x.1) := by
  induction L with
  | nil => simp [parseFasta, layoutFasta, splitLines, faRecords]
  | cons x L ih =>
    obtain ⟨v, hp, he⟩ := h x (by simp)
    have ih' := ih (fun y hy => h y (by simp [hy]))
    have hcons : layoutFasta (x :: L) = layoutFastaRec x.1 x.2.1 x.2.2 ++ layoutFasta L := by
      simp [layoutFasta]
    unfold parseFasta at ih' ⊢
    rw [hcons, splitLines_faRec x.1 x.2.1 x.2.2 _ v he hp,
      faRecords_rec x.1 x.2.1 x.2.2 _ v he hp (nextIs_splitLines 62 _ (layoutFasta_start L)), ih']
    simp

/-! ### the writer is a layout -/

theorem chunks_flatten (w : Nat) (hw : 1 ≤ w) (l : Bytes) : (chunks w l).flatten = l := by
  induction l using chunks.induct w with
  | case1 l h =>
    rw [chunks, dif_pos h]
    rcases h with h | h
    · omega
    · simp [h]
  | case2 l h ih =>
    rw [chunks, dif_neg h]
    simp [ih, List.take_append_drop]

/-- the pieces the writer cuts a sequence into -/
def writerPieces (wrap : Option Nat) (s : Bytes) : List Bytes :=
  match wrap with
  | none => [s]
  | some w => chunks w s

theorem writeFasta_eq_layout (wrap : Option Nat) (recs : List FaRec) :
    writeFasta wrap recs = layoutFasta (recs.map fun r => (r, writerPieces wrap r.seq, [10])) := by
  induction recs with
  | nil => rfl
  | cons r recs ih =>
    simp only [writeFasta, layoutFasta, List.flatMap_cons, List.map_cons] at ih ⊢
    rw [ih]
    congr 1
    cases wrap <;> simp [writeFastaRec, layoutFastaRec, faHeaderBytes, writerPieces]

/-! ### FASTQ -/

theorem fqSeq_pieces (ps : List Bytes) (e : Bytes) (rest : List Bytes) (he : IsEol e)
    (hps : ∀ p ∈ ps, (∀ b ∈ p, isWs b = false) ∧ p.head? ≠ some 43) (hrest : NextIs 43 rest) :
    fqSeq (ps.map (· ++ e) ++ rest) = (ps.flatten, ps.length, rest) := by
  induction ps with
  | nil =>
    rcases hrest with rfl | ⟨l, ls, rfl, hl⟩
    · rfl
    · simp [fqSeq, hl]
  | cons p ps ih =>
    obtain ⟨h1, h2⟩ := hps p (by simp)
    have := ih (fun q hq => hps q (by simp [hq]))
    have hs := startsWith_piece p e 43 h2 (eol_no_lf_prefix he).2.1
    simp only [List.map_cons, List.cons_append, fqSeq, hs, this, trimEnd_piece p e h1 he, List.flatten_cons,
      List.length_cons]
    simp

theorem fqQual_pieces (qs : List Bytes) (e : Bytes) (X : List Bytes) (he : IsEol e)
    (hq : ∀ p ∈ qs, ∀ b ∈ p, isWs b = false) :
    fqQual qs.length (qs.map (· ++ e) ++ X) = (qs.flatten, X) := by
  induction qs with
  | nil => simp [fqQual]
  | cons p qs ih =>
    have := ih (fun q hq' => hq q (by simp [hq']))
    simp only [List.length_cons, List.map_cons, List.cons_append, fqQual, this,
      trimEnd_piece p e (hq p (by simp)) he, List.flatten_cons]

theorem layoutFastqRec_eq (r : FqRec) (y : FqLayout) :
    layoutFastqRec r y = (64 :: hdrText r.id r.desc) ++ y.eol ++
      (y.seqPieces.flatMap (· ++ y.eol) ++ ((43 :: y.plus) ++ y.eol ++ y.qualPieces.flatMap (· ++ y.eol))) := by
  cases h : r.desc <;> simp [layoutFastqRec, hdrText, h]

theorem mem_pieces {ps : List Bytes} {s : Bytes} (h : ps.flatten = s) {p : Bytes} (hp : p ∈ ps) {b : Nat}
    (hb : b ∈ p) : b ∈ s := by
  rw [← h]; exact List.mem_flatten.mpr ⟨p, hp, hb⟩

theorem splitLines_fqRec (r : FqRec) (y : FqLayout) (R : Bytes) (v : ValidFq r) (ok : y.Ok r) :
    splitLines (layoutFastqRec r y ++ R) =
      (64 :: hdrText r.id r.desc ++ y.eol) ::
        (y.seqPieces.map (· ++ y.eol) ++ ((43 :: y.plus ++ y.eol) :: (y.qualPieces.map (· ++ y.eol) ++ splitLines R))) := by
  rw [layoutFastqRec_eq]
  have he := ok.eol
  have hn : 10 ∉ 64 :: hdrText r.id r.desc := by
    intro h
    rcases List.mem_cons.mp h with h | h
    · cases h
    · exact hdrText_nolf r.id r.desc v.id_nows v.desc_ok h
  have hsp : ∀ p ∈ y.seqPieces, 10 ∉ p := fun p hp =>
    nolf_of_nows p (fun b hb => v.seq_ok b (mem_pieces ok.seq_eq hp hb))
  have hqp : ∀ p ∈ y.qualPieces, 10 ∉ p := fun p hp =>
    nolf_of_nows p (fun b hb => v.qual_ok b (mem_pieces ok.qual_eq hp hb))
  have hplus : 10 ∉ 43 :: y.plus := by
    intro h
    rcases List.mem_cons.mp h with h | h
    · cases h
    · exact ok.plus_nolf h
  have h1 := splitLines_eol (64 :: hdrText r.id r.desc) y.eol
    (y.seqPieces.flatMap (· ++ y.eol) ++ ((43 :: y.plus) ++ y.eol ++ y.qualPieces.flatMap (· ++ y.eol)) ++ R) hn he
  have h2 := splitLines_pieces y.seqPieces y.eol
    ((43 :: y.plus) ++ y.eol ++ y.qualPieces.flatMap (· ++ y.eol) ++ R) hsp he
  have h3 := splitLines_eol (43 :: y.plus) y.eol (y.qualPieces.flatMap (· ++ y.eol) ++ R) hplus he
  have h4 := splitLines_pieces y.qualPieces y.eol R hqp he
  simp only [List.append_assoc] at h1 h2 h3 h4 ⊢
  rw [h1, h2, h3, h4]

theorem fqRead_rec (r : FqRec) (y : FqLayout) (rest : List Bytes) (v : ValidFq r) (ok : y.Ok r) :
    fqRead (64 :: hdrText r.id r.desc ++ y.eol)
      (y.seqPieces.map (· ++ y.eol) ++ ((43 :: y.plus ++ y.eol) :: (y.qualPieces.map (· ++ y.eol) ++ rest)))
      = (.ok r, rest) := by
  have he := ok.eol
  have hsp : ∀ p ∈ y.seqPieces, (∀ b ∈ p, isWs b = false) ∧ p.head? ≠ some 43 := fun p hp =>
    ⟨fun b hb => v.seq_ok b (mem_pieces ok.seq_eq hp hb), ok.no_plus p hp⟩
  have hqp : ∀ p ∈ y.qualPieces, ∀ b ∈ p, isWs b = false := fun p hp b hb =>
    v.qual_ok b (mem_pieces ok.qual_eq hp hb)
  have hnext : NextIs 43 ((43 :: y.plus ++ y.eol) :: (y.qualPieces.map (· ++ y.eol) ++ rest)) :=
    Or.inr ⟨_, _, rfl, by simp [startsWith]⟩
  unfold fqRead
  have hsw : startsWith (64 :: hdrText r.id r.desc ++ y.eol) 64 = true := by simp [startsWith]
  simp only [hsw, Bool.not_true, Bool.false_eq_true, if_false]
  rw [fqHeader_line r.id r.desc y.eol he v.id_nows v.desc_ok, fqSeq_pieces _ _ _ he hsp hnext]
  have hQ := fqQual_pieces y.qualPieces y.eol rest he hqp
  simp only [List.tail_cons, ok.same, hQ, ok.seq_eq, ok.qual_eq]
  have hq : r.qual.isEmpty = false := by
    have h1 := v.qual_len
    have h2 := v.seq_ne
    cases hq : r.qual with
    | nil => rw [hq] at h1; exact absurd (List.eq_nil_of_length_eq_zero h1.symm) h2
    | cons b q => rfl
  simp [hq]

theorem layoutFastq_start (L : List (FqRec × FqLayout)) :
    layoutFastq L = [] ∨ ∃ r, layoutFastq L = 64 :: r := by
  cases L with
  | nil => left; rfl
  | cons x L => right; simp [layoutFastq, layoutFastqRec]

theorem parseFastq_layout (L : List (FqRec × FqLayout)) (h : ∀ x ∈ L, ValidFq x.1 ∧ x.2.Ok x.1) :
    parseFastq (layoutFastq L) = L.map (fun x => FqItem.ok x.1) := by
  induction L with
  | nil => simp [parseFastq, layoutFastq, splitLines, fqRecords]
  | cons x L ih =>
    obtain ⟨v, ok⟩ := h x (by simp)
    have ih' := ih (fun y hy => h y (by simp [hy]))
    have hcons : layoutFastq (x :: L) = layoutFastqRec x.1 x.2 ++ layoutFastq L := by simp [layoutFastq]
    unfold parseFastq at ih' ⊢
    rw [hcons, splitLines_fqRec x.1 x.2 _ v ok, fqRecords, fqRead_rec x.1 x.2 _ v ok, ih']
    simp

/-- the layout the writer produces -/
def writerLayout (r : FqRec) : FqLayout := { seqPieces := [r.seq], qualPieces := [r.qual], eol := [10], plus := [] }

theorem writeFastq_eq_layout (recs : List FqRec) :
    writeFastq recs = layoutFastq (recs.map fun r => (r, writerLayout r)) := by
  induction recs with
  | nil => rfl
  | cons r recs ih =>
    simp only [writeFastq, layoutFastq, List.flatMap_cons, List.map_cons] at ih ⊢
    rw [ih]
    congr 1
    simp [writeFastqRec, layoutFastqRec, writerLayout]

theorem writerLayout_ok (r : FqRec) (v : ValidFq r) : (writerLayout r).Ok r :=
  { seq_eq := by simp [writerLayout]
    qual_eq := by simp [writerLayout]
    same := rfl
    no_plus := by intro p hp; simp [writerLayout] at hp; subst hp; exact v.seq_plus
    eol := Or.inl rfl
    plus_nolf := by simp [writerLayout] }

end RbV.Fastx
