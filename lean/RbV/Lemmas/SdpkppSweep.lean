import RbV.Lemmas.SdpkppMax
import RbV.Lemmas.LcskppFinal
/-! C19 — `sdpkpp` mirror model: every predecessor pointer written by the sweep is a valid link, hence the traceback is a
valid chain — for every strictly sorted match list, `k ≥ 1`, and all scoring parameters.  Core Lean only. -/
namespace RbV.Lemmas.Sdpkpp
open RbV.KChain RbV.Model.Lcskpp RbV.Model.Sdpkpp RbV.QGram RbV.Lemmas.Fenwick RbV.Lemmas.Lcskpp

def cellAtS (s : Model.Sdpkpp.St) (q : Nat) : Nat × Int := s.dp.getD q (0, 0)

theorem stepS_start_props (ms : List M) (k msc go ge : Nat) (s : Model.Sdpkpp.St) (p : Nat) (hp : p < ms.length)
    (hl : s.dp.length = 2 * ms.length) :
    (Model.Sdpkpp.stepEv ms k msc go ge s (startEv ms p)).dp.length = 2 * ms.length ∧
    (∀ q, q ≠ p → cellAtS (Model.Sdpkpp.stepEv ms k msc go ge s (startEv ms p)) q = cellAtS s q) ∧
    (Model.Sdpkpp.stepEv ms k msc go ge s (startEv ms p)).tree = s.tree ∧
    ((cellAtS (Model.Sdpkpp.stepEv ms k msc go ge s (startEv ms p)) p).2 = -1 ∨
      (0 < (Model.Fenwick.get maxPP dfltPP s.tree (mAt ms p).2).score ∧
        (cellAtS (Model.Sdpkpp.stepEv ms k msc go ge s (startEv ms p)) p).2 =
          ((Model.Fenwick.get maxPP dfltPP s.tree (mAt ms p).2).id : Int))) ∧
    ((Model.Sdpkpp.stepEv ms k msc go ge s (startEv ms p)).best = s.best ∨
      (Model.Sdpkpp.stepEv ms k msc go ge s (startEv ms p)).best.2 = (p : Int)) := by
  have hmod : (p + ms.length) % ms.length = p := by rw [Nat.add_mod_right, Nat.mod_eq_of_lt hp]
  have hge : p + ms.length ≥ ms.length := by omega
  have hlt : p < s.dp.length := by omega
  unfold Model.Sdpkpp.stepEv
  dsimp only [startEv]
  simp only [hmod, hge, if_true]
  generalize Model.Fenwick.get maxPP dfltPP s.tree (mAt ms p).2 = bp
  split
  · next hpos =>
    refine ⟨by simp [List.length_set, hl], ?_, rfl, ?_, ?_⟩
    · intro q hq
      simp only [cellAtS, List.set_set, getD_set _ _ _ _ _ hlt, if_neg hq]
    · simp only [cellAtS, List.set_set, getD_set _ _ _ _ _ hlt, if_true]
      rcases maxNI_cases (k * msc, -1) (bp.score + k * msc - (if max ((mAt ms p).1 - bp.x) ((mAt ms p).2 - bp.y) > 0 then
          go + max ((mAt ms p).1 - bp.x) ((mAt ms p).2 - bp.y) * ge else 0), (bp.id : Int)) with h | h
      · left; rw [h]
      · right; rw [h]; exact ⟨hpos, rfl⟩
    · rcases maxNI_cases s.best ((((s.dp.set p (k * msc, -1)).set p
          (maxNI ((s.dp.set p (k * msc, -1)).getD p (0, 0))
            (bp.score + k * msc - (if max ((mAt ms p).1 - bp.x) ((mAt ms p).2 - bp.y) > 0 then
              go + max ((mAt ms p).1 - bp.x) ((mAt ms p).2 - bp.y) * ge else 0), (bp.id : Int)))).getD p (0, 0)).1, (p : Int)) with h | h
      · left; exact h
      · right; rw [h]
  · refine ⟨by simp [List.length_set, hl], ?_, rfl, ?_, Or.inl rfl⟩
    · intro q hq
      simp only [cellAtS, getD_set _ _ _ _ _ hlt, if_neg hq]
    · left; simp only [cellAtS, getD_set _ _ _ _ _ hlt, if_true]

theorem stepS_end_props (ms : List M) (k msc go ge : Nat) (s : Model.Sdpkpp.St) (p : Nat) (hp : p < ms.length)
    (hl : s.dp.length = 2 * ms.length) :
    (Model.Sdpkpp.stepEv ms k msc go ge s (endEv ms k p)).dp.length = 2 * ms.length ∧
    (∀ q, q ≠ p → cellAtS (Model.Sdpkpp.stepEv ms k msc go ge s (endEv ms k p)) q = cellAtS s q) ∧
    (∃ frag : PrevPtr, frag.id = p ∧ (Model.Sdpkpp.stepEv ms k msc go ge s (endEv ms k p)).tree =
      Model.Fenwick.set maxPP dfltPP s.tree ((mAt ms p).2 + k) frag) ∧
    (cellAtS (Model.Sdpkpp.stepEv ms k msc go ge s (endEv ms k p)) p = cellAtS s p ∨
      ∃ c, contLookup ms k p = some c ∧ (cellAtS (Model.Sdpkpp.stepEv ms k msc go ge s (endEv ms k p)) p).2 = (c : Int)) ∧
    ((Model.Sdpkpp.stepEv ms k msc go ge s (endEv ms k p)).best = s.best ∨
      (Model.Sdpkpp.stepEv ms k msc go ge s (endEv ms k p)).best.2 = (p : Int)) := by
  have hmod : p % ms.length = p := Nat.mod_eq_of_lt hp
  have hge : ¬ (p ≥ ms.length) := by omega
  have hlt : p < s.dp.length := by omega
  cases hlook : contLookup ms k p with
  | none =>
    unfold contLookup at hlook
    unfold Model.Sdpkpp.stepEv
    dsimp only [endEv]
    simp only [hmod, hge, if_false]
    split at hlook
    · split
      · simp only [hlook]; (refine ⟨hl, fun _ _ => rfl, ⟨_, rfl, rfl⟩, Or.inl rfl, ?_⟩; first | exact Or.inl rfl | exact Or.inl trivial)
      · (refine ⟨hl, fun _ _ => rfl, ⟨_, rfl, rfl⟩, Or.inl rfl, ?_⟩; first | exact Or.inl rfl | exact Or.inl trivial)
    · split
      · next hc hg => exact absurd hg hc
      · (refine ⟨hl, fun _ _ => rfl, ⟨_, rfl, rfl⟩, Or.inl rfl, ?_⟩; first | exact Or.inl rfl | exact Or.inl trivial)
  | some c =>
    have hlook' := hlook
    unfold contLookup at hlook
    unfold Model.Sdpkpp.stepEv
    dsimp only [endEv]
    simp only [hmod, hge, if_false]
    split at hlook
    · split
      · simp only [hlook]
        refine ⟨by simp [List.length_set, hl], ?_, ⟨_, rfl, rfl⟩, ?_, ?_⟩
        · intro q hq
          simp only [cellAtS, getD_set _ _ _ _ _ hlt, if_neg hq]
        · simp only [cellAtS, getD_set _ _ _ _ _ hlt, if_true]
          rcases maxNI_cases (s.dp.getD p (0, 0)) ((s.dp.getD c (0, 0)).1 + msc, (c : Int)) with h | h
          · left; rw [h]
          · right; exact ⟨c, rfl, by rw [h]⟩
        · rcases maxNI_cases s.best (((s.dp.set p (maxNI (s.dp.getD p (0, 0)) ((s.dp.getD c (0, 0)).1 + msc, (c : Int)))).getD p (0, 0)).1,
            (p : Int)) with h | h
          · left; exact h
          · right; rw [h]
      · next hc hg => exact absurd hc hg
    · cases hlook

/-! ### the invariant: every written pointer is a link -/

def PtrOkS (ms : List M) (k : Nat) (c : Nat × Int) (q : Nat) : Prop :=
  c.2 = -1 ∨ ∃ r, r < ms.length ∧ c.2 = (r : Int) ∧ Link k (mAt ms r) (mAt ms q)

structure InvS (ms : List M) (k : Nat) (done : List Ev) (s : Model.Sdpkpp.St) : Prop where
  len_dp : s.dp.length = 2 * ms.length
  tree : ∃ ups, s.tree = run maxPP dfltPP (nFrom k 0 ms) ups ∧
    ∀ u ∈ ups, ∃ q, q < ms.length ∧ endEv ms k q ∈ done ∧ u.1 = (mAt ms q).2 + k ∧ u.2.id = q
  ptr : ∀ q, q < ms.length → startEv ms q ∈ done → PtrOkS ms k (cellAtS s q) q
  best : ∃ p, p < ms.length ∧ s.best.2 = (p : Int)

theorem invS_init (ms : List M) (k : Nat) (hne : 0 < ms.length) : InvS ms k [] (Model.Sdpkpp.initSt ms k) := by
  refine ⟨by simp [Model.Sdpkpp.initSt], ⟨[], by simp [Model.Sdpkpp.initSt, run, Model.Fenwick.new], by simp⟩, ?_, ⟨0, hne, rfl⟩⟩
  intro q _ h; cases h

theorem invS_step_start {ms : List M} {k msc go ge : Nat} {done : List Ev} {s : Model.Sdpkpp.St} {p : Nat} (hk : 0 < k)
    (hI : InvS ms k done s) (hp : p < ms.length)
    (hbefore : ∀ d ∈ done, evLe d (startEv ms p) = true) :
    InvS ms k (done ++ [startEv ms p]) (Model.Sdpkpp.stepEv ms k msc go ge s (startEv ms p)) := by
  obtain ⟨h1, h2, h3, h4, h5⟩ := stepS_start_props ms k msc go ge s p hp hI.len_dp
  have hsub : ∀ e, e ∈ done → e ∈ done ++ [startEv ms p] := fun e he => List.mem_append_left _ he
  obtain ⟨ups, ht, hm⟩ := hI.tree
  refine ⟨h1, ⟨ups, by rw [h3, ht], ?_⟩, ?_, ?_⟩
  · intro u hu
    obtain ⟨q, hq, he, hu1, hu2⟩ := hm u hu
    exact ⟨q, hq, hsub _ he, hu1, hu2⟩
  · intro q hq hst
    by_cases hqp : q = p
    · subst hqp
      rcases h4 with h | ⟨hpos, hid⟩
      · left; exact h
      · right
        have hy : (mAt ms q).2 < nFrom k 0 ms := by
          have := (nFrom_ge k ms 0 (mAt ms q) (mAt_mem hq)).2; omega
        rw [ht, get_run_maxPP _ ups _ hy] at hpos hid
        rcases agg_maxPP_mem (fun i => decide (i ≤ (mAt ms q).2)) ups with hd | ⟨u, hu, hP, hv⟩
        · rw [hd] at hpos; simp [dfltPP] at hpos
        · obtain ⟨r, hr, he, hu1, hu2⟩ := hm u hu
          refine ⟨r, hr, by rw [hid, ← hv, hu2], ?_⟩
          right
          have := hbefore _ he
          rw [evLe_iff] at this
          simp only [startEv, endEv] at this
          simp only [decide_eq_true_eq] at hP
          omega
    · rw [h2 q hqp]
      apply hI.ptr q hq
      rcases List.mem_append.mp hst with h | h
      · exact h
      · exact absurd (startEv_inj (List.mem_singleton.mp h)) hqp
  · rcases h5 with h | h
    · rw [h]; exact hI.best
    · exact ⟨p, hp, h⟩

theorem invS_step_end {ms : List M} {k msc go ge : Nat} {done : List Ev} {s : Model.Sdpkpp.St} {p : Nat}
    (hI : InvS ms k done s) (hp : p < ms.length)
    (hcomplete : ∀ e' ∈ sortedEvents ms k, evLe (endEv ms k p) e' = false → e' ∈ done) (hk : 0 < k) :
    InvS ms k (done ++ [endEv ms k p]) (Model.Sdpkpp.stepEv ms k msc go ge s (endEv ms k p)) := by
  obtain ⟨h1, h2, ⟨frag, hfid, h3⟩, h4, h5⟩ := stepS_end_props ms k msc go ge s p hp hI.len_dp
  have hsub : ∀ e, e ∈ done → e ∈ done ++ [endEv ms k p] := fun e he => List.mem_append_left _ he
  have hst : startEv ms p ∈ done := by
    apply hcomplete _ ((mem_sortedEvents ms k _).mpr ⟨p, hp, Or.inl rfl⟩)
    rw [Bool.eq_false_iff]; intro h
    rw [evLe_iff] at h
    simp only [startEv, endEv] at h; omega
  obtain ⟨ups, ht, hm⟩ := hI.tree
  refine ⟨h1, ⟨ups ++ [((mAt ms p).2 + k, frag)], by rw [run_snocPP, h3, ht], ?_⟩, ?_, ?_⟩
  · intro u hu
    rcases List.mem_append.mp hu with hu | hu
    · obtain ⟨q, hq, he, hu1, hu2⟩ := hm u hu
      exact ⟨q, hq, hsub _ he, hu1, hu2⟩
    · rw [List.mem_singleton.mp hu]
      exact ⟨p, hp, by simp, rfl, hfid⟩
  · intro q hq hs
    have hs' : startEv ms q ∈ done := by
      rcases List.mem_append.mp hs with h | h
      · exact h
      · exact absurd (List.mem_singleton.mp h).symm (endEv_ne_startEv hp)
    by_cases hqp : q = p
    · subst hqp
      rcases h4 with h | ⟨c, hlook, hc2⟩
      · rw [h]; exact hI.ptr q hq hs'
      · right
        obtain ⟨hc, hcont⟩ := contLookup_some hlook
        refine ⟨c, hc, hc2, ?_⟩
        left
        simp only [cont, Bool.and_eq_true, beq_iff_eq] at hcont
        omega
    · rw [h2 q hqp]; exact hI.ptr q hq hs'
  · rcases h5 with h | h
    · rw [h]; exact hI.best
    · exact ⟨p, hp, h⟩

theorem invS_fold {ms : List M} {k msc go ge : Nat} (hk : 0 < k) :
    ∀ (rest done : List Ev) (s : Model.Sdpkpp.St), done ++ rest = sortedEvents ms k → InvS ms k done s →
      InvS ms k (sortedEvents ms k) (rest.foldl (Model.Sdpkpp.stepEv ms k msc go ge) s) := by
  intro rest
  induction rest with
  | nil => intro done s h hI; simp only [List.append_nil] at h; subst h; exact hI
  | cons e rest ih =>
    intro done s h hI
    have hE : sortedEvents ms k = done ++ e :: rest := h.symm
    obtain ⟨_, hbefore, hcomplete⟩ := split_facts (sortedEvents_pairwise ms k) (sortedEvents_nodup ms k) hE
    have hmem : e ∈ sortedEvents ms k := by rw [hE]; simp
    simp only [List.foldl_cons]
    obtain ⟨p, hp, rfl | rfl⟩ := (mem_sortedEvents ms k e).mp hmem
    · exact ih (done ++ [startEv ms p]) _ (by simpa using h) (invS_step_start hk hI hp hbefore)
    · exact ih (done ++ [endEv ms k p]) _ (by simpa using h) (invS_step_end hI hp hcomplete hk)

theorem sweepS_inv {ms : List M} {k msc go ge : Nat} (hk : 0 < k) (hne : 0 < ms.length) :
    InvS ms k (sortedEvents ms k) (Model.Sdpkpp.sweep ms k msc go ge) :=
  invS_fold hk _ [] _ rfl (invS_init ms k hne)

/-- following the pointers written by the `sdpkpp` sweep gives a valid chain and ends within `p + 2` rounds -/
theorem traceS_spec {ms : List M} {k msc go ge : Nat} (hk : 0 < k) (hs : ms.Pairwise lexLt) (hne : 0 < ms.length) :
    ∀ p, p < ms.length → ∀ fuel, p + 2 ≤ fuel →
      ∃ tb, traceLoop (Model.Sdpkpp.sweep ms k msc go ge).dp fuel (p : Int) = some (p :: tb) ∧
        (∀ i ∈ p :: tb, i < ms.length) ∧ RChain k ((p :: tb).map (mAt ms)) ∧ (p :: tb).Pairwise (· > ·) := by
  intro p
  induction p using Nat.strongRecOn with
  | _ p ih =>
    intro hp fuel hfuel
    obtain ⟨fuel, rfl⟩ : ∃ f, fuel = f + 1 := ⟨fuel - 1, by omega⟩
    rw [traceLoop_nat]
    have hptr := (sweepS_inv (msc := msc) (go := go) (ge := ge) hk hne).ptr p hp
      ((mem_sortedEvents ms k _).mpr ⟨p, hp, Or.inl rfl⟩)
    unfold cellAtS at hptr
    rcases hptr with h2 | ⟨r, hr, h2, hlink⟩
    · rw [h2]
      obtain ⟨fuel, rfl⟩ : ∃ f, fuel = f + 1 := ⟨fuel - 1, by omega⟩
      rw [traceLoop_neg]
      exact ⟨[], rfl, by simpa using hp, by simp [RChain], by simp⟩
    · rw [h2]
      have hrp : r < p := idx_lt_of_x_lt hs hr hp (link_x_lt hk hlink)
      obtain ⟨tb, ht, hall, hch, hpw⟩ := ih r hrp hr fuel (by omega)
      rw [ht]
      refine ⟨r :: tb, rfl, ?_, ?_, ?_⟩
      · intro i hi
        rcases List.mem_cons.mp hi with rfl | hi
        · exact hp
        · exact hall i hi
      · simp only [List.map_cons, RChain] at hch ⊢
        exact ⟨hlink, hch⟩
      · refine List.pairwise_cons.mpr ⟨?_, hpw⟩
        intro i hi
        rcases List.mem_cons.mp hi with rfl | hi
        · exact hrp
        · have := (List.pairwise_cons.mp hpw).1 i hi; omega

theorem sdpkpp_model_ok {ms : List M} {k : Nat} (msc go ge : Nat) (hk : 0 < k) (hs : ms.Pairwise lexLt) :
    ∃ r, Model.Sdpkpp.sdpkpp ms k msc go ge = .ok r ∧ validChain ms k r.path = true ∧ (ms ≠ [] → r.path ≠ []) ∧
      r.path.Pairwise (· < ·) := by
  cases hms : ms with
  | nil =>
    exact ⟨{ path := [], score := 0, dp := [] }, by simp [Model.Sdpkpp.sdpkpp], by simp [validChain, pathMatches, chainB],
      by simp, by simp⟩
  | cons m0 rest =>
    rw [← hms]
    have hne : 0 < ms.length := by rw [hms]; simp
    have hsorted : sortedStrict ms = true := (sortedStrict_iff ms).mpr hs
    obtain ⟨p, hp, hb2⟩ := (sweepS_inv (msc := msc) (go := go) (ge := ge) hk hne).best
    obtain ⟨tb, ht, hall, hch, hpw⟩ := traceS_spec (msc := msc) (go := go) (ge := ge) hk hs hne p hp (ms.length + 1) (by omega)
    refine ⟨{ path := (p :: tb).reverse, score := (Model.Sdpkpp.sweep ms k msc go ge).best.1,
              dp := (Model.Sdpkpp.sweep ms k msc go ge).dp }, ?_, ?_, ?_, ?_⟩
    · unfold Model.Sdpkpp.sdpkpp
      have hemp : ms.isEmpty = false := by rw [hms]; rfl
      simp only [hemp, hsorted, Bool.false_eq_true, if_false, Bool.not_true, hb2, ht]
    · have hpm : pathMatches ms (p :: tb).reverse = ((p :: tb).map (mAt ms)).reverse := by
        unfold pathMatches; rw [List.map_reverse]; rfl
      unfold validChain
      rw [Bool.and_eq_true, chainB_iff, hpm, ← rchain_iff]
      refine ⟨?_, hch⟩
      rw [List.all_eq_true]
      intro i hi
      have hi' : i ∈ p :: tb := by
        simp only [List.mem_reverse] at hi; exact hi
      simpa using hall i hi'
    · intro _; simp
    · show ((p :: tb).reverse).Pairwise (· < ·)
      rw [List.pairwise_reverse]; exact hpw

end RbV.Lemmas.Sdpkpp

