import RbV.Lemmas.FillWit
/-!
`WitAt`: the witnesses of `FillWit.lean` with the alignment named (`Wit L i j v ↔ ∃ xs xe ys ye ops, WitAt …`), and the
DP transitions on named witnesses.  Used by the traceback proof (`FillRun.lean`), where the alignment is the one the
traceback emits.
-/
namespace RbV.Model.PairwiseFill
open RbV.Align

section
variable (sc : Sc) (cl : Clip) (x y : List Nat)

def WitAt (L : St) (i j : Nat) (v : Int) (xs xe ys ye : Nat) (ops : List Op) : Prop :=
  ∃ c, xs ≤ xe ∧ xe ≤ i ∧ i ≤ x.length ∧ ys ≤ ye ∧ ye ≤ j ∧ j ≤ y.length ∧
    (xe < i → i = x.length) ∧ (ye < j → j = y.length) ∧
    score sc .none (slice x xs xe) (slice y ys ye) ops = some c ∧
    v ≤ c + pre cl xs ys + (if xe < i then cl.xs else 0) + (if ye < j then cl.ys else 0) ∧
    (L = .ins → lastSt .none ops = .ins ∧ xe = i) ∧ (L = .del → lastSt .none ops = .del ∧ ye = j)

variable {sc cl x y}

theorem WitAt.wit {L : St} {i j : Nat} {v : Int} {xs xe ys ye : Nat} {ops : List Op}
    (h : WitAt sc cl x y L i j v xs xe ys ye ops) : Wit sc cl x y L i j v := by
  obtain ⟨c, h⟩ := h
  exact ⟨xs, xe, ys, ye, ops, c, h⟩

theorem witAt_mono {L : St} {i j : Nat} {v v' : Int} {xs xe ys ye : Nat} {ops : List Op}
    (h : WitAt sc cl x y L i j v xs xe ys ye ops) (hv : v' ≤ v) : WitAt sc cl x y L i j v' xs xe ys ye ops := by
  obtain ⟨c, h1, h2, h3, h4, h5, h6, h7, h8, hsc, hle, hI, hD⟩ := h
  exact ⟨c, h1, h2, h3, h4, h5, h6, h7, h8, hsc, by omega, hI, hD⟩

theorem witAt_none {L : St} {i j : Nat} {v : Int} {xs xe ys ye : Nat} {ops : List Op}
    (h : WitAt sc cl x y L i j v xs xe ys ye ops) : WitAt sc cl x y .none i j v xs xe ys ye ops := by
  obtain ⟨c, h1, h2, h3, h4, h5, h6, h7, h8, hsc, hle, _, _⟩ := h
  exact ⟨c, h1, h2, h3, h4, h5, h6, h7, h8, hsc, hle, nofun, nofun⟩

theorem witAt_xe_eq {L : St} {i j : Nat} {v : Int} {xs xe ys ye : Nat} {ops : List Op}
    (h : WitAt sc cl x y L i j v xs xe ys ye ops) (hi : i < x.length) : xe = i := by
  obtain ⟨c, h1, h2, h3, h4, h5, h6, h7, h8, _⟩ := h
  rcases Nat.lt_or_ge xe i with hlt | hge
  · have := h7 hlt; omega
  · omega

theorem witAt_ye_eq {L : St} {i j : Nat} {v : Int} {xs xe ys ye : Nat} {ops : List Op}
    (h : WitAt sc cl x y L i j v xs xe ys ye ops) (hj : j < y.length) : ye = j := by
  obtain ⟨c, h1, h2, h3, h4, h5, h6, h7, h8, _⟩ := h
  rcases Nat.lt_or_ge ye j with hlt | hge
  · have := h8 hlt; omega
  · omega

theorem witAt_bounds {L : St} {i j : Nat} {v : Int} {xs xe ys ye : Nat} {ops : List Op}
    (h : WitAt sc cl x y L i j v xs xe ys ye ops) :
    xs ≤ xe ∧ xe ≤ i ∧ i ≤ x.length ∧ ys ≤ ye ∧ ye ≤ j ∧ j ≤ y.length := by
  obtain ⟨c, h1, h2, h3, h4, h5, h6, _⟩ := h
  exact ⟨h1, h2, h3, h4, h5, h6⟩

theorem witAt_start {v : Int} (hv : v ≤ 0) : WitAt sc cl x y .none 0 0 v 0 0 0 0 [] := by
  refine ⟨0, Nat.le_refl _, Nat.le_refl _, Nat.zero_le _, Nat.le_refl _, Nat.le_refl _, Nat.zero_le _, ?_, ?_, ?_, ?_,
    nofun, nofun⟩
  · intro h; omega
  · intro h; omega
  · simp [slice_self, score]
  · simp [pre]; omega

theorem witAt_ins_open (hgo : sc.go ≤ 0) {L : St} {i j : Nat} {v : Int} {xs xe ys ye : Nat} {ops : List Op}
    (h : WitAt sc cl x y L i j v xs xe ys ye ops) (hi : i < x.length) :
    WitAt sc cl x y .ins (i + 1) j (v + sc.go + sc.ge) xs (i + 1) ys ye (ops ++ [.ins]) := by
  have hxe := witAt_xe_eq h hi
  obtain ⟨c, h1, h2, h3, h4, h5, h6, h7, h8, hsc, hle, _, _⟩ := h
  subst hxe
  refine ⟨c + gapI sc (lastSt .none ops), by omega, by omega, by omega, h4, h5, h6, by omega, h8, ?_, ?_, ?_, ?_⟩
  · rw [slice_succ x xs xe h1 hi]; exact score_snoc_ins sc _ _ ops c _ hsc
  · have := gapI_ge sc hgo (lastSt .none ops)
    simp only [Nat.lt_irrefl, if_false] at hle ⊢
    generalize (if ye < j then cl.ys else 0) = t at hle ⊢
    omega
  · intro _; exact ⟨lastSt_append_singleton _ _ _, rfl⟩
  · intro h; cases h

theorem witAt_ins_ext {i j : Nat} {v : Int} {xs xe ys ye : Nat} {ops : List Op}
    (h : WitAt sc cl x y .ins i j v xs xe ys ye ops) (hi : i < x.length) :
    WitAt sc cl x y .ins (i + 1) j (v + sc.ge) xs (i + 1) ys ye (ops ++ [.ins]) := by
  obtain ⟨c, h1, h2, h3, h4, h5, h6, h7, h8, hsc, hle, hI, _⟩ := h
  obtain ⟨hl, hxe⟩ := hI rfl
  subst hxe
  refine ⟨c + gapI sc (lastSt .none ops), by omega, by omega, by omega, h4, h5, h6, by omega, h8, ?_, ?_, ?_, ?_⟩
  · rw [slice_succ x xs xe h1 hi]; exact score_snoc_ins sc _ _ ops c _ hsc
  · rw [hl]
    simp only [Nat.lt_irrefl, if_false, gapI] at hle ⊢
    generalize (if ye < j then cl.ys else 0) = t at hle ⊢
    omega
  · intro _; exact ⟨lastSt_append_singleton _ _ _, rfl⟩
  · intro h; cases h

theorem witAt_del_open (hgo : sc.go ≤ 0) {L : St} {i j : Nat} {v : Int} {xs xe ys ye : Nat} {ops : List Op}
    (h : WitAt sc cl x y L i j v xs xe ys ye ops) (hj : j < y.length) :
    WitAt sc cl x y .del i (j + 1) (v + sc.go + sc.ge) xs xe ys (j + 1) (ops ++ [.del]) := by
  have hye := witAt_ye_eq h hj
  obtain ⟨c, h1, h2, h3, h4, h5, h6, h7, h8, hsc, hle, _, _⟩ := h
  subst hye
  refine ⟨c + gapD sc (lastSt .none ops), h1, h2, h3, by omega, by omega, by omega, h7, by omega, ?_, ?_, ?_, ?_⟩
  · rw [slice_succ y ys ye h4 hj]; exact score_snoc_del sc _ _ ops c _ hsc
  · have := gapD_ge sc hgo (lastSt .none ops)
    simp only [Nat.lt_irrefl, if_false] at hle ⊢
    generalize (if xe < i then cl.xs else 0) = t at hle ⊢
    omega
  · intro h; cases h
  · intro _; exact ⟨lastSt_append_singleton _ _ _, rfl⟩

theorem witAt_del_ext {i j : Nat} {v : Int} {xs xe ys ye : Nat} {ops : List Op}
    (h : WitAt sc cl x y .del i j v xs xe ys ye ops) (hj : j < y.length) :
    WitAt sc cl x y .del i (j + 1) (v + sc.ge) xs xe ys (j + 1) (ops ++ [.del]) := by
  obtain ⟨c, h1, h2, h3, h4, h5, h6, h7, h8, hsc, hle, _, hD⟩ := h
  obtain ⟨hl, hye⟩ := hD rfl
  subst hye
  refine ⟨c + gapD sc (lastSt .none ops), h1, h2, h3, by omega, by omega, by omega, h7, by omega, ?_, ?_, ?_, ?_⟩
  · rw [slice_succ y ys ye h4 hj]; exact score_snoc_del sc _ _ ops c _ hsc
  · rw [hl]
    simp only [Nat.lt_irrefl, if_false, gapD] at hle ⊢
    generalize (if xe < i then cl.xs else 0) = t at hle ⊢
    omega
  · intro h; cases h
  · intro _; exact ⟨lastSt_append_singleton _ _ _, rfl⟩

theorem witAt_mat {L : St} {i j : Nat} {v : Int} {xs xe ys ye : Nat} {ops : List Op}
    (h : WitAt sc cl x y L i j v xs xe ys ye ops) (hi : i < x.length) (hj : j < y.length)
    (hab : x.getD i 0 = y.getD j 0) :
    WitAt sc cl x y .none (i + 1) (j + 1) (v + sc.w (x.getD i 0) (y.getD j 0)) xs (i + 1) ys (j + 1) (ops ++ [.mat]) := by
  have hxe := witAt_xe_eq h hi
  have hye := witAt_ye_eq h hj
  obtain ⟨c, h1, h2, h3, h4, h5, h6, h7, h8, hsc, hle, _, _⟩ := h
  subst hxe; subst hye
  simp only [Nat.lt_irrefl, if_false] at hle
  refine ⟨c + sc.w (x.getD xe 0) (y.getD ye 0), by omega, by omega, by omega,
    by omega, by omega, by omega, by omega, by omega, ?_, ?_, nofun, nofun⟩
  · rw [slice_succ x xs xe h1 hi, slice_succ y ys ye h4 hj]; exact score_snoc_mat sc _ _ ops c _ _ hab hsc
  · simp only [Nat.lt_irrefl, if_false]; omega

theorem witAt_sub {L : St} {i j : Nat} {v : Int} {xs xe ys ye : Nat} {ops : List Op}
    (h : WitAt sc cl x y L i j v xs xe ys ye ops) (hi : i < x.length) (hj : j < y.length)
    (hab : x.getD i 0 ≠ y.getD j 0) :
    WitAt sc cl x y .none (i + 1) (j + 1) (v + sc.w (x.getD i 0) (y.getD j 0)) xs (i + 1) ys (j + 1) (ops ++ [.sub]) := by
  have hxe := witAt_xe_eq h hi
  have hye := witAt_ye_eq h hj
  obtain ⟨c, h1, h2, h3, h4, h5, h6, h7, h8, hsc, hle, _, _⟩ := h
  subst hxe; subst hye
  simp only [Nat.lt_irrefl, if_false] at hle
  refine ⟨c + sc.w (x.getD xe 0) (y.getD ye 0), by omega, by omega, by omega,
    by omega, by omega, by omega, by omega, by omega, ?_, ?_, nofun, nofun⟩
  · rw [slice_succ x xs xe h1 hi, slice_succ y ys ye h4 hj]; exact score_snoc_sub sc _ _ ops c _ _ hab hsc
  · simp only [Nat.lt_irrefl, if_false]; omega

theorem witAt_xsuf {L : St} {i j : Nat} {v : Int} {xs xe ys ye : Nat} {ops : List Op}
    (h : WitAt sc cl x y L i j v xs xe ys ye ops) (hi : i < x.length) :
    WitAt sc cl x y .none x.length j (v + cl.xs) xs i ys ye ops := by
  have hxe := witAt_xe_eq h hi
  obtain ⟨c, h1, h2, h3, h4, h5, h6, h7, h8, hsc, hle, _, _⟩ := h
  subst hxe
  refine ⟨c, h1, by omega, Nat.le_refl _, h4, h5, h6, fun _ => rfl, h8, hsc, ?_, nofun, nofun⟩
  simp only [Nat.lt_irrefl, if_false, hi, if_true] at hle ⊢
  generalize (if ye < j then cl.ys else 0) = t at hle ⊢
  omega

theorem witAt_ysuf {L : St} {i j : Nat} {v : Int} {xs xe ys ye : Nat} {ops : List Op}
    (h : WitAt sc cl x y L i j v xs xe ys ye ops) (hj : j < y.length) :
    WitAt sc cl x y .none i y.length (v + cl.ys) xs xe ys j ops := by
  have hye := witAt_ye_eq h hj
  obtain ⟨c, h1, h2, h3, h4, h5, h6, h7, h8, hsc, hle, _, _⟩ := h
  subst hye
  refine ⟨c, h1, h2, h3, h4, by omega, Nat.le_refl _, h7, fun _ => rfl, hsc, ?_, nofun, nofun⟩
  simp only [Nat.lt_irrefl, if_false, hj, if_true] at hle ⊢
  generalize (if xe < i then cl.xs else 0) = t at hle ⊢
  omega

/-- clip `x[0..i]` in front of an alignment that starts in row 0 and stays there -/
theorem witAt_xpre {L : St} {i j : Nat} {v : Int} {xs xe ys ye : Nat} {ops : List Op}
    (h : WitAt sc cl x y L 0 j v xs xe ys ye ops) (hi1 : 1 ≤ i) (hi : i ≤ x.length) :
    xs = 0 ∧ xe = 0 ∧ WitAt sc cl x y .none i j (v + cl.xp) i i ys ye ops := by
  obtain ⟨c, h1, h2, h3, h4, h5, h6, h7, h8, hsc, hle, _, _⟩ := h
  have e1 : xe = 0 := by omega
  have e2 : xs = 0 := by omega
  subst e1; subst e2
  refine ⟨rfl, rfl, c, Nat.le_refl _, Nat.le_refl _, hi, h4, h5, h6, fun h => by omega, h8, ?_, ?_, nofun, nofun⟩
  · rw [slice_self] at hsc ⊢; exact hsc
  · simp only [Nat.lt_irrefl, if_false, pre] at hle ⊢
    simp only [show 0 < i by omega, if_true]
    generalize (if ye < j then cl.ys else 0) = t at hle ⊢
    omega

theorem witAt_ypre {L : St} {i j : Nat} {v : Int} {xs xe ys ye : Nat} {ops : List Op}
    (h : WitAt sc cl x y L i 0 v xs xe ys ye ops) (hj1 : 1 ≤ j) (hj : j ≤ y.length) :
    ys = 0 ∧ ye = 0 ∧ WitAt sc cl x y .none i j (v + cl.yp) xs xe j j ops := by
  obtain ⟨c, h1, h2, h3, h4, h5, h6, h7, h8, hsc, hle, _, _⟩ := h
  have e1 : ye = 0 := by omega
  have e2 : ys = 0 := by omega
  subst e1; subst e2
  refine ⟨rfl, rfl, c, h1, h2, h3, Nat.le_refl _, Nat.le_refl _, hj, h7, fun h => by omega, ?_, ?_, nofun, nofun⟩
  · rw [slice_self] at hsc ⊢; exact hsc
  · simp only [Nat.lt_irrefl, if_false, pre] at hle ⊢
    simp only [show 0 < j by omega, if_true]
    generalize (if xe < i then cl.xs else 0) = t at hle ⊢
    omega

end

end RbV.Model.PairwiseFill
