import RbV.Model.Tsv
import RbV.Lemmas.Csv
import RbV.Lemmas.Tsv
/-! On bytes without `"` and CR the csv automaton reads plain lines: `rows = rowsPlain` (C13). Core Lean only. -/
namespace RbV.Tsv

/-! ## more on `splitOn` / `join` -/

theorem join_consFirst (sep c : Nat) (ps : List (List Nat)) (h : ps ≠ []) :
    join sep (consFirst c ps) = c :: join sep ps := by
  cases ps with
  | nil => exact absurd rfl h
  | cons q qs =>
    cases qs with
    | nil => simp [consFirst, join]
    | cons q2 qs2 => simp [consFirst, join]

theorem join_splitOn (sep : Nat) (s : List Nat) : join sep (splitOn sep s) = s := by
  induction s with
  | nil => simp [splitOn, join]
  | cons c r ih =>
    by_cases hc : c = sep
    · subst hc
      have : splitOn c (c :: r) = [] :: splitOn c r := by rw [splitOn]; simp
      rw [this]
      cases hs : splitOn c r with
      | nil => exact absurd hs (splitOn_ne_nil c r)
      | cons q qs =>
        rw [hs] at ih
        simp only [join, List.nil_append]
        rw [ih]
    · rw [splitOn_cons_ne sep c r hc, join_consFirst sep c _ (splitOn_ne_nil sep r), ih]

theorem mem_consFirst {c : Nat} {p : List Nat} {ps : List (List Nat)} (h : p ∈ consFirst c ps) :
    (∃ q, p = c :: q ∧ (q ∈ ps ∨ (ps = [] ∧ q = []))) ∨ p ∈ ps := by
  cases ps with
  | nil =>
    simp only [consFirst, List.mem_singleton] at h
    exact Or.inl ⟨[], h, Or.inr ⟨rfl, rfl⟩⟩
  | cons q qs =>
    simp only [consFirst, List.mem_cons] at h
    rcases h with h | h
    · exact Or.inl ⟨q, h, Or.inl (by simp)⟩
    · exact Or.inr (by simp [h])

/-- the pieces are free of the separator and consist of symbols of the input -/
theorem splitOn_pieces (sep : Nat) (s : List Nat) : ∀ p ∈ splitOn sep s, sep ∉ p ∧ ∀ c ∈ p, c ∈ s := by
  induction s with
  | nil =>
    intro p hp
    simp only [splitOn, List.mem_singleton] at hp
    subst hp
    simp
  | cons c r ih =>
    intro p hp
    by_cases hc : c = sep
    · subst hc
      have : splitOn c (c :: r) = [] :: splitOn c r := by rw [splitOn]; simp
      rw [this, List.mem_cons] at hp
      rcases hp with hp | hp
      · subst hp; simp
      · obtain ⟨h1, h2⟩ := ih p hp
        exact ⟨h1, fun x hx => by simp [h2 x hx]⟩
    · rw [splitOn_cons_ne sep c r hc] at hp
      rcases mem_consFirst hp with ⟨q, rfl, hq⟩ | hp'
      · rcases hq with hq | ⟨hnil, _⟩
        · obtain ⟨h1, h2⟩ := ih q hq
          refine ⟨?_, ?_⟩
          · intro hmem
            simp only [List.mem_cons] at hmem
            rcases hmem with h | h
            · exact hc h.symm
            · exact h1 h
          · intro x hx
            simp only [List.mem_cons] at hx ⊢
            rcases hx with h | h
            · exact Or.inl h
            · exact Or.inr (h2 x h)
        · exact absurd hnil (splitOn_ne_nil sep r)
      · obtain ⟨h1, h2⟩ := ih p hp'
        exact ⟨h1, fun x hx => by simp [h2 x hx]⟩

/-! ## one plain line -/

theorem splitOn_tab_cons (t : List Nat) : splitOn TAB (TAB :: t) = [] :: splitOn TAB t := by
  rw [splitOn]; simp

/-- a line without `"`, CR, LF, read from inside an unquoted field / from the start of a field -/
theorem run_plain_line : ∀ (l : List Nat), QUOTE ∉ l → CR ∉ l → LF ∉ l → ∀ (rest : List Nat),
    (∀ (acc : List Nat) (flds : List (List Nat)), TAB ∉ acc →
      run ⟨.inField, acc, flds⟩ (l ++ LF :: rest) = (flds ++ splitOn TAB (acc ++ l)) :: run Csv.start rest) ∧
    (∀ (flds : List (List Nat)),
      run ⟨.startField, [], flds⟩ (l ++ LF :: rest) = (flds ++ splitOn TAB l) :: run Csv.start rest) := by
  intro l
  induction l with
  | nil =>
    intro _ _ _ rest
    constructor
    · intro acc flds hacc
      simp only [List.nil_append, List.append_nil]
      rw [run_end .inField (by simp) acc (by simp) flds LF rest (Or.inr isTerm_LF), splitOn_no_sep TAB acc hacc]
      simp [LF, TAB]
    · intro flds
      simp only [List.nil_append]
      rw [run_end .startField (by simp) [] (by simp) flds LF rest (Or.inr isTerm_LF)]
      simp [LF, TAB, splitOn]
  | cons c t ih =>
    intro hq hcr hlf rest
    have hcq : c ≠ QUOTE := fun e => hq (by simp [e])
    have hccr : c ≠ CR := fun e => hcr (by simp [e])
    have hclf : c ≠ LF := fun e => hlf (by simp [e])
    have hterm : isTerm c = false := by simp [isTerm, hccr, hclf]
    obtain ⟨ih1, ih2⟩ := ih (fun e => hq (by simp [e])) (fun e => hcr (by simp [e])) (fun e => hlf (by simp [e])) rest
    constructor
    · intro acc flds hacc
      rw [List.cons_append, run_cons]
      by_cases ht : c = TAB
      · subst ht
        simp only [step, if_true, Option.toList_none, List.nil_append]
        rw [ih2, splitOn_append_sep TAB acc t hacc]
        simp
      · simp only [step, ht, hterm, if_false, Bool.false_eq_true, Option.toList_none, List.nil_append]
        rw [ih1 (acc ++ [c]) flds (by
          intro h
          simp only [List.mem_append, List.mem_singleton] at h
          rcases h with h | h
          · exact hacc h
          · exact ht h.symm)]
        simp
    · intro flds
      rw [List.cons_append, run_cons]
      by_cases ht : c = TAB
      · subst ht
        have htq : TAB ≠ QUOTE := by decide
        simp only [step, stepField, htq, if_false, if_true, Option.toList_none, List.nil_append]
        rw [ih2, splitOn_tab_cons]
        simp
      · simp only [step, stepField, hcq, ht, hterm, if_false, Bool.false_eq_true, Option.toList_none,
          List.nil_append]
        rw [ih1 [c] flds (by
          intro h
          simp only [List.mem_singleton] at h
          exact ht h.symm)]
        simp

/-- a data line: not empty, not a comment -/
def goodLine (l : List Nat) : Bool := !(l.isEmpty || l.head? == some HASH)

/-- … from the start of a record: empty lines and `#` lines give nothing -/
theorem run_start_plain_line (l : List Nat) (hq : QUOTE ∉ l) (hcr : CR ∉ l) (hlf : LF ∉ l) (rest : List Nat) :
    run Csv.start (l ++ LF :: rest)
      = (if goodLine l then [splitOn TAB l] else []) ++ run Csv.start rest := by
  unfold goodLine
  cases l with
  | nil => simp [run_blank]
  | cons c t =>
    by_cases hh : c = HASH
    · subst hh
      have : LF ∉ t := fun e => hlf (by simp [e])
      rw [run_comment t this rest]
      simp
    · have hccr : c ≠ CR := fun e => hcr (by simp [e])
      have hclf : c ≠ LF := fun e => hlf (by simp [e])
      have hterm : isTerm c = false := by simp [isTerm, hccr, hclf]
      rw [List.cons_append, run_start_eq c _ hterm hh, ← List.cons_append,
        (run_plain_line (c :: t) hq hcr hlf rest).2 []]
      simp [hh]

/-! ## whole files -/

theorem run_plain_lines : ∀ (ls : List (List Nat)), ls ≠ [] →
    (∀ l ∈ ls, QUOTE ∉ l ∧ CR ∉ l ∧ LF ∉ l) →
    run Csv.start (join LF ls ++ [LF]) = (ls.filter goodLine).map (splitOn TAB) := by
  intro ls
  induction ls with
  | nil => intro h; exact absurd rfl h
  | cons l rest ih =>
    intro _ hl
    obtain ⟨h1, h2, h3⟩ := hl l (by simp)
    cases rest with
    | nil =>
      simp only [join]
      rw [run_start_plain_line l h1 h2 h3 []]
      have hfin : run Csv.start [] = [] := rfl
      rw [hfin, List.append_nil]
      by_cases hg : goodLine l = true
      · simp only [hg, if_true, List.filter_cons, List.filter_nil, List.map_cons, List.map_nil]
      · simp only [hg, if_false, List.filter_cons, List.filter_nil, List.map_nil, Bool.false_eq_true]
    | cons m r =>
      have := ih (by simp) (fun x hx => hl x (by simp [hx]))
      simp only [join, List.append_assoc, List.cons_append]
      rw [run_start_plain_line l h1 h2 h3, this]
      by_cases hg : goodLine l = true
      · rw [List.filter_cons (x := l)]
        simp only [hg, if_true, List.map_cons, List.singleton_append]
      · rw [List.filter_cons (x := l)]
        simp only [hg, if_false, List.nil_append, Bool.false_eq_true]

/-- on bytes without `"` and CR the csv reader gives the non-empty, non-comment lines split at TAB -/
theorem rows_plain (bytes : List Nat) (hq : QUOTE ∉ bytes) (hcr : CR ∉ bytes) : rows bytes = rowsPlain bytes := by
  unfold rows rowsPlain dataLines
  show _ = ((splitOn LF bytes).filter goodLine).map (splitOn TAB)
  have hj := join_splitOn LF bytes
  have hp := splitOn_pieces LF bytes
  rw [← run_plain_lines (splitOn LF bytes) (splitOn_ne_nil LF bytes) (fun l hl =>
    ⟨fun e => hq ((hp l hl).2 _ e), fun e => hcr ((hp l hl).2 _ e), (hp l hl).1⟩), hj]

end RbV.Tsv
