import RbV.Model.Poa
import RbV.Spec.PoaGraph
/-!
# The mirror model of `add_alignment` keeps the graph acyclic for rank-respecting operation lists

Hypotheses: the old graph has a rank function `rk` increasing along every edge (i.e. it is acyclic), and the
operation list visits the nodes it names in increasing rank with enough room for the nodes created in
between (`bodyB`; this is what "the traceback walks the graph in topological order" gives when `rk` is a
topological numbering scaled by more than the number of operations).  Conclusion: the new graph again has a
rank function, hence no cycle.  `Ins(None)`/`Match(None)` (query symbols inserted before the head, which then
get an edge *into* the old head) are covered: the inserted chain is ranked from 0 and must stay below the head.
That `traceLoop` only emits such lists is proved in `RbV/Lemmas/PoaTrace.lean`; the driver additionally
evaluates `bodyB` on every observed operation list of the real code (tag `acyclic-cert`).
-/
namespace RbV.Poa.Model
open RbV.Poa

/-- `R` ranks every node of `g`, agrees with `rk` on the old nodes and increases along every edge -/
structure RankOK (g : G) (R : List Nat) (rk : Nat → Nat) (n0 : Nat) : Prop where
  len : R.length = g.labels.length
  n0le : n0 ≤ R.length
  old : ∀ v, v < n0 → R.getD v 0 = rk v
  edges : ∀ e ∈ g.es, e.1 < R.length ∧ e.2.1 < R.length ∧ R.getD e.1 0 < R.getD e.2.1 0

theorem getD_append_lt (R : List Nat) (x v : Nat) (h : v < R.length) : (R ++ [x]).getD v 0 = R.getD v 0 := by
  simp [List.getD_eq_getElem?_getD, List.getElem?_append_left h]

theorem getD_append_len (R : List Nat) (x : Nat) : (R ++ [x]).getD R.length 0 = x := by
  simp [List.getD_eq_getElem?_getD]

/-- a new node (ranked `x`) without any new edge -/
theorem rankOK_addNode {g : G} {R : List Nat} {rk : Nat → Nat} {n0 : Nat} (h : RankOK g R rk n0) (c x : Nat) :
    RankOK (g.addNode c).1 (R ++ [x]) rk n0 := by
  refine ⟨by simp [G.addNode, h.len], by simp; have := h.n0le; omega, ?_, ?_⟩
  · intro v hv
    rw [getD_append_lt R x v (by have := h.n0le; omega)]
    exact h.old v hv
  · intro e he
    obtain ⟨h1, h2, h3⟩ := h.edges e he
    refine ⟨by simp; omega, by simp; omega, ?_⟩
    rw [getD_append_lt R x _ h1, getD_append_lt R x _ h2]
    exact h3

theorem rankOK_addEdge {g : G} {R : List Nat} {rk : Nat → Nat} {n0 : Nat} (h : RankOK g R rk n0) (u v : Nat)
    (hu : u < R.length) (hv : v < R.length) (hr : R.getD u 0 < R.getD v 0) : RankOK (g.addEdge u v) R rk n0 := by
  refine ⟨by simp [G.addEdge, h.len], h.n0le, h.old, ?_⟩
  intro e he
  simp only [G.addEdge, List.mem_append, List.mem_singleton] at he
  rcases he with he | he
  · exact h.edges e he
  · subst he; exact ⟨hu, hv, hr⟩

theorem mem_bumpEdge : ∀ (es : WEdges) (k : Nat) (e : Nat × Nat × Int), e ∈ bumpEdge es k →
    ∃ e' ∈ es, e.1 = e'.1 ∧ e.2.1 = e'.2.1 := by
  intro es
  induction es with
  | nil => intro k e h; simp [bumpEdge] at h
  | cons a r ih =>
    intro k e h
    cases k with
    | zero =>
      simp only [bumpEdge, List.mem_cons] at h
      rcases h with h | h
      · subst h; exact ⟨a, by simp, rfl, rfl⟩
      · exact ⟨e, by simp [h], rfl, rfl⟩
    | succ k =>
      simp only [bumpEdge, List.mem_cons] at h
      rcases h with h | h
      · subst h; exact ⟨e, by simp, rfl, rfl⟩
      · obtain ⟨e', he', h1, h2⟩ := ih k e h
        exact ⟨e', by simp [he'], h1, h2⟩

theorem rankOK_bump {g : G} {R : List Nat} {rk : Nat → Nat} {n0 : Nat} (h : RankOK g R rk n0) (k : Nat) :
    RankOK { g with es := bumpEdge g.es k } R rk n0 := by
  refine ⟨h.len, h.n0le, h.old, ?_⟩
  intro e he
  obtain ⟨e', he', h1, h2⟩ := mem_bumpEdge g.es k e he
  rw [h1, h2]
  exact h.edges e' he'

/-- one operation keeps the invariant -/
theorem addStep_rank (head : Nat) (seq : List Nat) (rk : Nat → Nat) (n0 : Nat) (st : AddSt) (R : List Nat)
    (b : Nat) (nc : Bool) (op : POp) (r : List POp)
    (hR : RankOK st.g R rk n0) (hp : st.prev < R.length) (hb : R.getD st.prev 0 ≤ b)
    (hc : st.notConnected = nc) (hh : head < n0) (hbody : bodyB rk n0 head b nc (op :: r) = true) :
    ∃ R' b' nc', RankOK (addStep head seq st op).g R' rk n0 ∧ (addStep head seq st op).prev < R'.length ∧
      R'.getD (addStep head seq st op).prev 0 ≤ b' ∧ (addStep head seq st op).notConnected = nc' ∧
      bodyB rk n0 head b' nc' r = true := by
  have hhR : head < R.length := by have := hR.n0le; omega
  have hRh : R.getD head 0 = rk head := hR.old head hh
  cases op with
  | m pq =>
    cases pq with
    | none =>
      cases nc with
      | false =>
        simp only [bodyB] at hbody
        simp only [addStep, hc]
        split
        · refine ⟨R ++ [0], b, false, ?_, ?_, ?_, ?_, hbody⟩
          · simpa [G.addNode] using rankOK_addNode hR _ 0
          · simp [G.addNode, hR.len]
          · simp only [Bool.false_eq_true, if_false, G.addNode]
            rw [← hR.len, getD_append_len]; omega
          · simp
        · exact ⟨R, b, false, by simpa [hc] using hR, by simpa [hc] using hp, by simpa [hc] using hb, by simp [hc], hbody⟩
      | true =>
        simp only [bodyB, Bool.and_eq_true, decide_eq_true_eq] at hbody
        obtain ⟨hbh, hrest⟩ := hbody
        simp only [addStep, hc]
        split
        · -- mismatch with the head: new node linked from the inserted chain
          refine ⟨R ++ [R.getD st.prev 0 + 1], rk head, false, ?_, ?_, ?_, ?_, hrest⟩
          · have h1 := rankOK_addNode hR (seq.getD st.i 0) (R.getD st.prev 0 + 1)
            have := rankOK_addEdge h1 st.prev R.length (by simp; omega) (by simp)
              (by rw [getD_append_lt R _ _ hp, getD_append_len]; omega)
            simpa [G.addNode, hR.len] using this
          · simp [G.addNode, hR.len]
          · simp only [if_true, Bool.false_eq_true, if_false, G.addNode]
            rw [← hR.len, getD_append_len]; omega
          · simp
        · -- match with the head: edge from the inserted chain into the head
          refine ⟨R, rk head, false, ?_, ?_, ?_, ?_, hrest⟩
          · simpa [hc] using rankOK_addEdge hR _ _ hp hhR (by rw [hRh]; omega)
          · simpa [hc] using hhR
          · simp only [hc, if_true]; rw [hRh]; omega
          · simp [hc]
    | some pq =>
      obtain ⟨a, p⟩ := pq
      simp only [bodyB, Bool.and_eq_true, decide_eq_true_eq] at hbody
      obtain ⟨⟨hpn, hbp⟩, hrest⟩ := hbody
      have hpR : p < R.length := by have := hR.n0le; omega
      have hRp : R.getD p 0 = rk p := hR.old p hpn
      simp only [addStep]
      split
      · -- mismatch: new node ranked just above `prev`
        refine ⟨R ++ [R.getD st.prev 0 + 1], rk p, nc, ?_, ?_, ?_, hc, hrest⟩
        · have h1 := rankOK_addNode hR (seq.getD st.i 0) (R.getD st.prev 0 + 1)
          have := rankOK_addEdge h1 st.prev R.length (by simp; omega) (by simp)
            (by rw [getD_append_lt R _ _ hp, getD_append_len]; omega)
          simpa [G.addNode, hR.len] using this
        · simp [G.addNode, hR.len]
        · simp only [G.addNode]
          rw [← hR.len, getD_append_len]; omega
      · refine ⟨R, rk p, nc, ?_, hpR, by rw [hRp]; omega, hc, hrest⟩
        split
        · exact rankOK_bump hR _
        · split
          · exact rankOK_addEdge hR _ _ hp hpR (by rw [hRp]; omega)
          · exact hR
  | i p =>
    cases p with
    | none =>
      cases nc with
      | false =>
        simp only [bodyB] at hbody
        simp only [addStep, hc]
        refine ⟨R ++ [0], 0, true, ?_, ?_, ?_, rfl, hbody⟩
        · simpa [G.addNode] using rankOK_addNode hR _ 0
        · simp [G.addNode, hR.len]
        · simp only [Bool.false_eq_true, if_false, G.addNode]
          rw [← hR.len, getD_append_len]; omega
      | true =>
        simp only [bodyB] at hbody
        simp only [addStep, hc]
        refine ⟨R ++ [R.getD st.prev 0 + 1], b + 1, true, ?_, ?_, ?_, rfl, hbody⟩
        · have h1 := rankOK_addNode hR (seq.getD st.i 0) (R.getD st.prev 0 + 1)
          have := rankOK_addEdge h1 st.prev R.length (by simp; omega) (by simp)
            (by rw [getD_append_lt R _ _ hp, getD_append_len]; omega)
          simpa [G.addNode, hR.len] using this
        · simp [G.addNode, hR.len]
        · simp only [if_true, G.addNode]
          rw [← hR.len, getD_append_len]; omega
    | some p =>
      simp only [bodyB] at hbody
      simp only [addStep]
      refine ⟨R ++ [R.getD st.prev 0 + 1], b + 1, nc, ?_, ?_, ?_, hc, hbody⟩
      · have h1 := rankOK_addNode hR (seq.getD st.i 0) (R.getD st.prev 0 + 1)
        have := rankOK_addEdge h1 st.prev R.length (by simp; omega) (by simp)
          (by rw [getD_append_lt R _ _ hp, getD_append_len]; omega)
        simpa [G.addNode, hR.len] using this
      · simp [G.addNode, hR.len]
      · simp only [G.addNode]
        rw [← hR.len, getD_append_len]; omega
  | d pq => exact ⟨R, b, nc, by simpa [addStep] using hR, by simpa [addStep] using hp, by simpa [addStep] using hb,
      by simpa [addStep] using hc, by simpa [bodyB] using hbody⟩
  | x q => exact ⟨R, b, nc, by simpa [addStep] using hR, by simpa [addStep] using hp, by simpa [addStep] using hb,
      by simpa [addStep] using hc, by simpa [bodyB] using hbody⟩
  | y q1 q2 => exact ⟨R, b, nc, by simpa [addStep] using hR, by simpa [addStep] using hp, by simpa [addStep] using hb,
      by simpa [addStep] using hc, by simpa [bodyB] using hbody⟩

theorem foldl_addStep_rank (head : Nat) (seq : List Nat) (rk : Nat → Nat) (n0 : Nat) (hh : head < n0) :
    ∀ (ops : List POp) (st : AddSt) (R : List Nat) (b : Nat) (nc : Bool),
      RankOK st.g R rk n0 → st.prev < R.length → R.getD st.prev 0 ≤ b → st.notConnected = nc →
      bodyB rk n0 head b nc ops = true → ∃ R', RankOK (ops.foldl (addStep head seq) st).g R' rk n0 := by
  intro ops
  induction ops with
  | nil => intro st R b nc hR _ _ _ _; exact ⟨R, hR⟩
  | cons o r ih =>
    intro st R b nc hR hp hb hc hbody
    obtain ⟨R', b', nc', h1, h2, h3, h4, h5⟩ := addStep_rank head seq rk n0 st R b nc o r hR hp hb hc hh hbody
    exact ih _ R' b' nc' h1 h2 h3 h4 h5

theorem acyclic_of_rankOK {g : G} {R : List Nat} {rk : Nat → Nat} {n0 : Nat} (h : RankOK g R rk n0) :
    Acyclic (plain g.es) := by
  apply acyclic_of_rank (fun v => R.getD v 0)
  intro e he
  simp only [plain, List.mem_map] at he
  obtain ⟨e', he', rfl⟩ := he
  exact (h.edges e' he').2.2

/-- `addAlignment` along an operation list that names nodes in increasing rank (`bodyB`) yields a graph with a
rank function again (which ranks the old nodes as before) -/
theorem addAlignment_rankOK (g : G) (rk : Nat → Nat) (ops : List POp) (seq : List Nat)
    (hrk : ∀ e ∈ g.es, e.1 < g.labels.length ∧ e.2.1 < g.labels.length ∧ rk e.1 < rk e.2.1)
    (hhead : (topo g.labels.length g.es).headD 0 < g.labels.length)
    (hbody : bodyB rk g.labels.length ((topo g.labels.length g.es).headD 0) (rk ((topo g.labels.length g.es).headD 0)) false ops = true) :
    ∃ R, RankOK (addAlignment g ops seq) R rk g.labels.length := by
  unfold addAlignment
  generalize (topo g.labels.length g.es).headD 0 = h at *
  have hR : RankOK g ((List.range g.labels.length).map rk) rk g.labels.length := by
    refine ⟨by simp, by simp, ?_, ?_⟩
    · intro v hv; simp [List.getD_eq_getElem?_getD, hv]
    · intro e he
      obtain ⟨h1, h2, h3⟩ := hrk e he
      refine ⟨by simpa using h1, by simpa using h2, ?_⟩
      simp [List.getD_eq_getElem?_getD, h1, h2, h3]
  have hh : ((List.range g.labels.length).map rk).getD h 0 ≤ rk h := by
    simp [List.getD_eq_getElem?_getD, hhead]
  exact foldl_addStep_rank h seq rk g.labels.length hhead ops
    { g := g, prev := h } _ (rk h) false hR (by simpa using hhead) hh rfl hbody

/-- `addAlignment` keeps the graph acyclic for every operation list that names nodes in increasing rank
(`bodyB`), starting from the rank of the head.  (That the model's traceback only produces such lists is
`traceLoop_bodyB` in `RbV/Lemmas/PoaTrace.lean`; the two are combined in `RbV/Lemmas/PoaHistory.lean`.) -/
theorem addAlignment_acyclic_of_bodyB (g : G) (rk : Nat → Nat) (ops : List POp) (seq : List Nat)
    (hrk : ∀ e ∈ g.es, e.1 < g.labels.length ∧ e.2.1 < g.labels.length ∧ rk e.1 < rk e.2.1)
    (hhead : (topo g.labels.length g.es).headD 0 < g.labels.length)
    (hbody : bodyB rk g.labels.length ((topo g.labels.length g.es).headD 0) (rk ((topo g.labels.length g.es).headD 0)) false ops = true) :
    Acyclic (plain (addAlignment g ops seq).es) := by
  obtain ⟨R', hR'⟩ := addAlignment_rankOK g rk ops seq hrk hhead hbody
  exact acyclic_of_rankOK hR'

/-- the certificate the driver evaluates implies acyclicity of the model's result -/
theorem acyclic_of_cert (g : G) (ops : List POp) (seq : List Nat) (h : acyclicCert g ops = true) :
    Acyclic (plain (addAlignment g ops seq).es) := by
  simp only [acyclicCert, Bool.and_eq_true, decide_eq_true_eq, List.all_eq_true] at h
  obtain ⟨⟨hhead, hes⟩, hbody⟩ := h
  exact addAlignment_acyclic_of_bodyB g _ ops seq
    (fun e he => by have := hes e he; simpa [and_assoc] using this) hhead hbody

end RbV.Poa.Model
