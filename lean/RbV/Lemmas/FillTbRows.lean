import RbV.Lemmas.FillTb
/-!
Traceback proof, fill side, part 2: the final table read through `cell`, and the main-loop facts of one row
(`MR`: S code good — or, in row `m`, still `TB_XCLIP_SUFFIX` explained by the tracker —, D code good, tracker and `Sn`
registers explained by cells of the same column / row), derived row from row (`mr_row00`, `mr_step0`, `mr_rowJ0`,
`mr_stepJ`).  The goodness of the I code is an input here: in the columns `j < n` it follows from the cell above
(`FillTbCols.lean`), in column `n` the second post-loop may have rewritten the I field (`FillTbLast.lean`).
-/
namespace RbV.Model.PairwiseFill
open RbV.Align

section
variable (sc : Sc) (cl : Clip) (x y : List Nat)

/-- the table the traceback loop of `custom` runs on -/
def finalT : Table := (fill sc cl x y).table x.length y.length

/-- last column after the first / second post-loop -/
def p1L : List PSt := post1 cl x (colAt sc cl x y y.length)
def p2L : List PSt := post2 sc cl x (p1L sc cl x y)

theorem fill_cols_getD (j : Nat) (hj : j ≤ y.length) (i : Nat) :
    (((fill sc cl x y).cols.getD j []).getD i default) = cell sc cl x y j i := by
  simp only [fill, allCols_getD sc cl x y j hj, cell]

theorem fill_p2 : (fill sc cl x y).p2 = p2L sc cl x y := by
  simp only [fill, allCols_getD sc cl x y y.length (Nat.le_refl _), p2L, p1L]

theorem table_tS_lt (i j : Nat) (hj : j < y.length) : (finalT sc cl x y).tS i j = (cell sc cl x y j i).t.ts := by
  simp only [finalT, Filled.table, if_neg (Nat.ne_of_lt hj), fill_cols_getD sc cl x y j (Nat.le_of_lt hj)]

theorem table_tI_lt (i j : Nat) (hj : j < y.length) : (finalT sc cl x y).tI i j = (cell sc cl x y j i).t.ti := by
  simp only [finalT, Filled.table, if_neg (Nat.ne_of_lt hj), fill_cols_getD sc cl x y j (Nat.le_of_lt hj)]

theorem table_tD (i j : Nat) (hj : j ≤ y.length) : (finalT sc cl x y).tD i j = (cell sc cl x y j i).t.td := by
  simp only [finalT, Filled.table, fill_cols_getD sc cl x y j hj]

theorem table_lx_lt (j : Nat) (hj : j < y.length) :
    (finalT sc cl x y).lx j = (cell sc cl x y j x.length).t.lx := by
  simp only [finalT, Filled.table, if_neg (Nat.ne_of_lt hj), fill_cols_getD sc cl x y j (Nat.le_of_lt hj)]

theorem table_ly (i : Nat) : (finalT sc cl x y).ly i = (cell sc cl x y y.length i).t.ly := by
  simp only [finalT, Filled.table, fill_cols_getD sc cl x y y.length (Nat.le_refl _)]

theorem table_tS_n (i : Nat) : (finalT sc cl x y).tS i y.length = ((p2L sc cl x y).getD i default).ts := by
  simp only [finalT, Filled.table, if_true, fill_p2]

theorem table_tI_n (i : Nat) : (finalT sc cl x y).tI i y.length = ((p2L sc cl x y).getD i default).ti := by
  simp only [finalT, Filled.table, if_true, fill_p2]

theorem table_lx_n : (finalT sc cl x y).lx y.length = ((p2L sc cl x y).getD x.length default).lx := by
  simp only [finalT, Filled.table, if_true, fill_p2]

/-- `Good` on the final table -/
abbrev GoodF (i j : Nat) (c : Tb) (v : Int) : Prop := Good sc cl x y (finalT sc cl x y) i j c v

/-- S cell of `(i, j)` as the main loop left it: good, or (row `m` only) still the default `TB_XCLIP_SUFFIX`, the value
being what the x-suffix tracker of this column took from a row `k < m` -/
def SorX (j i : Nat) : Prop :=
  (GoodF sc cl x y i j (cell sc cl x y j i).t.ts (cell sc cl x y j i).s ∧
      (1 ≤ i → (cell sc cl x y j i).t.ts ≠ .xsuf)) ∨
    (i = x.length ∧ (cell sc cl x y j i).t.ts = .xsuf ∧ ∃ k, 1 ≤ k ∧ k < x.length ∧
      (cell sc cl x y j i).t.lx = x.length - k ∧ (cell sc cl x y j i).s ≤ (cell sc cl x y j k).s + cl.xs)

/-- the x-suffix tracker after row `i < m`: untouched, or taken from a row `k ≤ i` -/
def TrkOK (j i : Nat) : Prop :=
  (cell sc cl x y j i).xm = minScore ∨ ∃ k, 1 ≤ k ∧ k ≤ i ∧ (cell sc cl x y j i).t.lx = x.length - k ∧
    (cell sc cl x y j i).xm ≤ (cell sc cl x y j k).s + cl.xs

/-- `Sn[i]`, `Ly[i]` after column `j`: untouched, or taken from a column `jj ≤ j` -/
def SnOK (j i : Nat) : Prop :=
  (cell sc cl x y j i).sn = minScore ∨ ∃ jj, jj ≤ j ∧ (cell sc cl x y j i).t.ly = y.length - jj ∧
    (cell sc cl x y j i).sn ≤ (cell sc cl x y jj i).s + cl.ys

/-- main-loop facts of row `i` of column `j` -/
structure MR (j i : Nat) : Prop where
  S : SorX sc cl x y j i
  D : 1 ≤ j → GoodF sc cl x y i j .del (cell sc cl x y j i).d
  Trk : i < x.length → TrkOK sc cl x y j i
  Sn : SnOK sc cl x y j i

end

section
variable {sc : Sc} {cl : Clip} {x y : List Nat} {W : Int}

/-- goodness at the origin, whatever the final code of cell `(0, 0)` is -/
def OriginOK (sc : Sc) (cl : Clip) (x y : List Nat) : Prop :=
  ∃ v0, GoodF sc cl x y 0 0 ((finalT sc cl x y).tS 0 0) v0 ∧ 0 ≤ v0

theorem origin_of_pos (hn : 0 < y.length) : OriginOK sc cl x y := by
  refine ⟨0, ?_, Int.le_refl 0⟩
  rw [table_tS_lt sc cl x y 0 0 hn, cell_zero_zero]
  exact good_start (Int.le_refl 0)

theorem mr_row00 : MR sc cl x y 0 0 := by
  refine ⟨Or.inl ⟨?_, fun h => by omega⟩, fun h => by omega, fun _ => ?_, Or.inr ⟨0, Nat.le_refl _, ?_, ?_⟩⟩
  · rw [cell_zero_zero]; exact good_start (Int.le_refl 0)
  · left; rw [cell_zero_zero]; simp only [row00]; rw [if_neg (by omega)]
  · rw [cell_zero_zero]; simp [row00]
  · rw [cell_zero_zero]; simp [row00]

/-- a row of column 0 -/
theorem mr_step0 (H : Hyp sc cl x y W)
    (hs : minScore + ((x.length : Int) + y.length) * W < 2 * sc.go + sc.ge * ((x.length : Int) + y.length))
    (i : Nat) (hi : i + 1 ≤ x.length) (hO : OriginOK sc cl x y)
    (hI : GoodF sc cl x y (i + 1) 0 .ins (cell sc cl x y 0 (i + 1)).i)
    (hTrk : i < x.length → TrkOK sc cl x y 0 i) : MR sc cl x y 0 (i + 1) := by
  have hcell := cell_zero_succ sc cl x y i hi
  have hgt := cell_s_gt_min H hs (i + 1) 0 hi (Nat.zero_le _)
  refine ⟨?_, fun h => by omega, fun hlt => ?_, ?_⟩
  · -- S
    have hI' := hI; rw [hcell] at hI'
    have := step0_good_S (cell sc cl x y 0 i) hi hI' hO
    rw [← hcell] at this
    rcases this with ⟨hts, hsv⟩ | hg
    · by_cases hm : i + 1 = x.length
      · rw [if_pos hm] at hts hsv
        right
        refine ⟨hm, hts, ?_⟩
        rcases hTrk (by omega) with h0 | ⟨k, hk1, hk2, hk3, hk4⟩
        · omega
        · refine ⟨k, hk1, by omega, ?_, by omega⟩
          have := (step0_last (sc := sc) (cl := cl) (x := x) (y := y) (i + 1) (cell sc cl x y 0 i) hm).1
          rw [← hcell] at this
          omega
      · rw [if_neg hm] at hsv; omega
    · exact Or.inl ⟨hg.1, fun _ => hg.2⟩
  · -- Trk
    have := step0_trk (sc := sc) (cl := cl) (x := x) (y := y) (i + 1) (cell sc cl x y 0 i) (by omega)
    rw [← hcell] at this
    dsimp only at this
    rcases this with ⟨h1, h2⟩ | ⟨h1, h2⟩
    · rcases hTrk (by omega) with h0 | ⟨k, hk1, hk2, hk3, hk4⟩
      · left; omega
      · right; exact ⟨k, hk1, by omega, by omega, by omega⟩
    · right; exact ⟨i + 1, by omega, Nat.le_refl _, h1, by omega⟩
  · -- Sn
    have := step0_sn (sc := sc) (cl := cl) (x := x) (y := y) (i + 1) (cell sc cl x y 0 i)
    rw [← hcell] at this
    dsimp only at this
    rcases this with h | ⟨h1, h2⟩
    · exact Or.inl h
    · exact Or.inr ⟨0, Nat.le_refl _, by omega, by omega⟩

theorem cell_d_row0 (j : Nat) : (cell sc cl x y (j + 1) 0).d = dv0 sc cl (j + 1) := by
  rw [cell_succ_zero, rowJ0_eq]

theorem cell_ly_row0_cond (j : Nat) (p0 : Row)
    (hc : j = y.length ∧ p0.sn > (if (rowJ0 sc cl x y j p0).d > cl.yp then (rowJ0 sc cl x y j p0).d else cl.yp)) :
    (rowJ0 sc cl x y j p0).t.ly = p0.t.ly := by
  obtain ⟨_, e4⟩ := rowJ0_sn_ly (sc := sc) (cl := cl) (x := x) (y := y) j p0
  rw [e4, if_pos hc]

/-- row 0 of column `j + 1` -/
theorem mr_rowJ0 (H : Hyp sc cl x y W)
    (hs : minScore + ((x.length : Int) + y.length) * W < 2 * sc.go + sc.ge * ((x.length : Int) + y.length))
    (j : Nat) (hj : j + 1 ≤ y.length) (hp : MR sc cl x y j 0)
    (hprev : ∀ jj, jj ≤ j → GoodF sc cl x y 0 jj (cell sc cl x y jj 0).t.ts (cell sc cl x y jj 0).s) :
    MR sc cl x y (j + 1) 0 ∧
      GoodF sc cl x y 0 (j + 1) (cell sc cl x y (j + 1) 0).t.ts (cell sc cl x y (j + 1) 0).s := by
  have hO : OriginOK sc cl x y := origin_of_pos (by omega)
  have hcell := cell_succ_zero sc cl x y j
  have hgt := cell_s_gt_min H hs 0 (j + 1) (Nat.zero_le _) hj
  -- D
  have hD : GoodF sc cl x y 0 (j + 1) .del (cell sc cl x y (j + 1) 0).d := by
    rw [hcell]
    refine rowJ0_good_D H.go _ hj ?_ hO (fun h1 => ⟨hp.D h1, ?_⟩)
    · rw [table_tD sc cl x y 0 (j + 1) hj, hcell]
    · obtain ⟨k, rfl⟩ : ∃ k, j = k + 1 := ⟨j - 1, by omega⟩
      rw [cell_d_row0]
      exact dv0_ge (k + 1) (by omega)
  -- S
  have hS : GoodF sc cl x y 0 (j + 1) (cell sc cl x y (j + 1) 0).t.ts (cell sc cl x y (j + 1) 0).s := by
    have hD' := hD; rw [hcell] at hD'
    rw [hcell]
    refine rowJ0_good_S _ hj hD' hO (fun hjn hc => ?_)
    -- `TB_YCLIP_SUFFIX` in row 0 of the last column
    have hd0 : sc.go + sc.ge * ((j + 1 : Nat) : Int) ≤ (rowJ0 sc cl x y (j + 1) (cell sc cl x y j 0)).d := by
      rw [← hcell, cell_d_row0]; exact dv0_ge (j + 1) (by omega)
    have hlw := Lw_gt_min H hs 0 (j + 1) (Nat.zero_le _) hj
    have hLw : Lw sc 0 (j + 1) = sc.go + sc.ge * ((j + 1 : Nat) : Int) := by simp [Lw]
    have hgo := H.go
    rcases hp.Sn with h0 | ⟨jj, hjj, hly, hsn⟩
    · exfalso
      rw [h0] at hc
      split at hc <;> rcases hlw with h | h <;> omega
    · have hly' : (finalT sc cl x y).ly 0 = y.length - jj := by
        rw [table_ly, ← hjn, hcell, cell_ly_row0_cond (j + 1) _ ⟨hjn, hc⟩, hly, hjn]
      have hG := hprev jj hjj
      rw [← table_tS_lt sc cl x y 0 jj (by omega)] at hG
      have := good_ysuf (sc := sc) (cl := cl) (x := x) (y := y) (T := finalT sc cl x y) (i := 0)
        (v := (cell sc cl x y j 0).sn) (v' := (cell sc cl x y jj 0).s) (by rw [hly']; omega) (by rw [hly']; omega)
        (by rw [hly', show y.length - (y.length - jj) = jj by omega]; exact hG) hsn
      rw [hjn]; exact this
  refine ⟨⟨Or.inl ⟨hS, fun h => by omega⟩, fun _ => hD, fun hm => ?_, ?_⟩, hS⟩
  · left; rw [hcell]; simp only [rowJ0]; rw [if_neg (by omega)]
  · have := rowJ0_sn (sc := sc) (cl := cl) (x := x) (y := y) (j + 1) (cell sc cl x y j 0)
    rw [← hcell] at this
    dsimp only at this
    rcases this with ⟨h1, h2⟩ | ⟨h1, h2⟩
    · rcases hp.Sn with h0 | ⟨jj, hjj, hly, hsn⟩
      · left; omega
      · right; exact ⟨jj, by omega, by omega, by omega⟩
    · right; exact ⟨j + 1, Nat.le_refl _, h1, by omega⟩

/-- row `i + 1` of column `j + 1` -/
theorem mr_stepJ (H : Hyp sc cl x y W)
    (hs : minScore + ((x.length : Int) + y.length) * W < 2 * sc.go + sc.ge * ((x.length : Int) + y.length))
    (j i : Nat) (hj : j + 1 ≤ y.length) (hi : i + 1 ≤ x.length)
    (hM : GoodF sc cl x y i j (cell sc cl x y j i).t.ts (cell sc cl x y j i).s)
    (hP : GoodF sc cl x y (i + 1) j (cell sc cl x y j (i + 1)).t.ts (cell sc cl x y j (i + 1)).s)
    (hPD : 1 ≤ j → GoodF sc cl x y (i + 1) j .del (cell sc cl x y j (i + 1)).d)
    (hPSn : SnOK sc cl x y j (i + 1))
    (hI : GoodF sc cl x y (i + 1) (j + 1) .ins (cell sc cl x y (j + 1) (i + 1)).i)
    (hX : ∃ v0, GoodF sc cl x y 0 (j + 1) ((finalT sc cl x y).tS 0 (j + 1)) v0 ∧
      max cl.yp (sc.go + sc.ge * ((j + 1 : Nat) : Int)) ≤ v0)
    (hY : ∃ v0, GoodF sc cl x y (i + 1) 0 ((finalT sc cl x y).tS (i + 1) 0) v0 ∧
      sc.go + sc.ge * ((i + 1 : Nat) : Int) ≤ v0)
    (hTrk : TrkOK sc cl x y (j + 1) i) : MR sc cl x y (j + 1) (i + 1) := by
  have hcell := cell_succ_succ sc cl x y j i hi
  have hgt := cell_s_gt_min H hs (i + 1) (j + 1) hi hj
  -- D
  have hD : GoodF sc cl x y (i + 1) (j + 1) .del (cell sc cl x y (j + 1) (i + 1)).d := by
    rw [hcell]
    refine del_good_main H.go (cell sc cl x y j (i + 1)) hj ?_ hP hPD (fun hj0 => ?_)
    · rw [table_tD sc cl x y (i + 1) (j + 1) hj, hcell]; rfl
    · subst hj0
      have h1 := cell_s_go_col0 H hs (i + 1) hi
      have h2 : (cell sc cl x y 0 (i + 1)).d = minScore := by rw [cell_zero_succ _ _ _ _ _ hi]; rfl
      omega
  refine ⟨?_, fun _ => hD, fun hlt => ?_, ?_⟩
  · -- S
    have hM' := hM
    rw [← table_tS_lt sc cl x y i j (by omega)] at hM'
    have hI' := hI; rw [hcell] at hI'
    have hD' := hD; rw [hcell] at hD'
    have := stepJ_good_S H.xs (colAt sc cl x y j) (cell sc cl x y (j + 1) i) hi hj hM' hI' hD' hX hY
    rw [← hcell] at this
    rcases this with ⟨hts, hsv⟩ | hg
    · by_cases hm : i + 1 = x.length
      · rw [if_pos hm] at hsv
        right
        refine ⟨hm, hts, ?_⟩
        rcases hTrk with h0 | ⟨k, hk1, hk2, hk3, hk4⟩
        · omega
        · refine ⟨k, hk1, by omega, ?_, by omega⟩
          have := stepJ_lx_last (sc := sc) (cl := cl) (x := x) (y := y) H.xs (j + 1) (colAt sc cl x y j) (i + 1)
            (cell sc cl x y (j + 1) i) hm
          rw [← hcell] at this
          omega
      · rw [if_neg hm] at hsv; omega
    · exact Or.inl ⟨hg.1, fun _ => hg.2⟩
  · -- Trk
    have := stepJ_trk (sc := sc) (cl := cl) (x := x) (y := y) (j + 1) (colAt sc cl x y j) (i + 1)
      (cell sc cl x y (j + 1) i) (by omega)
    rw [← hcell] at this
    dsimp only at this
    rcases this with ⟨h1, h2⟩ | ⟨h1, h2⟩
    · rcases hTrk with h0 | ⟨k, hk1, hk2, hk3, hk4⟩
      · left; omega
      · right; exact ⟨k, hk1, by omega, by omega, by omega⟩
    · right; exact ⟨i + 1, by omega, Nat.le_refl _, h1, by omega⟩
  · -- Sn
    have := stepJ_sn (sc := sc) (cl := cl) (x := x) (y := y) (j + 1) (colAt sc cl x y j) (i + 1)
      (cell sc cl x y (j + 1) i)
    rw [← hcell] at this
    dsimp only at this
    rcases this with ⟨h1, h2⟩ | ⟨h1, h2⟩
    · have e : (colAt sc cl x y j).getD (i + 1) default = cell sc cl x y j (i + 1) := rfl
      rw [e] at h1 h2
      rcases hPSn with h0 | ⟨jj, hjj, hly, hsn⟩
      · left; omega
      · right; exact ⟨jj, by omega, by omega, by omega⟩
    · right; exact ⟨j + 1, Nat.le_refl _, h1, by omega⟩

end

end RbV.Model.PairwiseFill
