import RbV.Lemmas.SmemsAll
/-!
# The sweep over any interval operations that *implement* the string-level ones returns the same matches (C06)

`SimHyp ops c m pat G E`: `G x b e` — "the interval `x` stands for `pattern[b..e)`" — implies `size x = c b e`, is
established by `init_interval_with`, and is kept by `forward_ext` / `backward_ext` with the next / previous pattern
symbol as long as the interval is non-empty; `E x` — "`x` is empty and extending it gives an empty interval again".
Then `smems ops` and `smems (strOps c)` run in lock-step (`sim_smems`, `sim_allSmems`): same positions, same
lengths, same order, and every reported interval stands for its match.
-/
namespace RbV.SmemModel
open RbV

/-- element-wise relation of two lists -/
inductive LR {α β : Type} (R : α → β → Prop) : List α → List β → Prop
  | nil : LR R [] []
  | cons {a : α} {b : β} {as : List α} {bs : List β} : R a b → LR R as bs → LR R (a :: as) (b :: bs)

namespace LR
variable {α β : Type} {R : α → β → Prop}

theorem append {l1 l1' : List α} {l2 l2' : List β} (h : LR R l1 l2) (h' : LR R l1' l2') :
    LR R (l1 ++ l1') (l2 ++ l2') := by
  induction h with
  | nil => exact h'
  | cons hr _ ih => exact LR.cons hr ih

theorem single {a : α} {b : β} (h : R a b) : LR R [a] [b] := LR.cons h LR.nil

theorem reverse {l1 : List α} {l2 : List β} (h : LR R l1 l2) : LR R l1.reverse l2.reverse := by
  induction h with
  | nil => exact LR.nil
  | cons hr _ ih => simp only [List.reverse_cons]; exact ih.append (single hr)

theorem isEmpty_eq {l1 : List α} {l2 : List β} (h : LR R l1 l2) : l1.isEmpty = l2.isEmpty := by
  cases h <;> rfl

theorem map_eq {γ : Type} {l1 : List α} {l2 : List β} (f : α → γ) (g : β → γ) (hfg : ∀ a b, R a b → f a = g b)
    (h : LR R l1 l2) : l1.map f = l2.map g := by
  induction h with
  | nil => rfl
  | cons hr _ ih => simp only [List.map_cons, ih, hfg _ _ hr]

theorem mem_left {l1 : List α} {l2 : List β} (h : LR R l1 l2) : ∀ a ∈ l1, ∃ b ∈ l2, R a b := by
  induction h with
  | nil => intro a ha; simp at ha
  | cons hr _ ih =>
    intro a ha
    rw [List.mem_cons] at ha
    rcases ha with rfl | ha
    · exact ⟨_, by simp, hr⟩
    · obtain ⟨b, hb, hab⟩ := ih a ha
      exact ⟨b, List.mem_cons_of_mem _ hb, hab⟩

end LR

variable {ι : Type}

structure SimHyp (ops : Ops ι) (c : Nat → Nat → Nat) (m : Nat) (pat : List Nat) (G : ι → Nat → Nat → Prop)
    (E : ι → Prop) : Prop where
  size_eq : ∀ x b e, G x b e → ops.size x = c b e
  init : ∀ i, i < m → G (ops.initWith i (pat.getD i 0)) i (i + 1) ∧ (c i (i + 1) = 0 → E (ops.initWith i (pat.getD i 0)))
  fwd : ∀ x b e, G x b e → c b e ≠ 0 → b < e → e < m → G (ops.fwd x (pat.getD e 0)) b (e + 1)
  bwd : ∀ x b e, G x b e → c b e ≠ 0 → 1 ≤ b → b < e → e ≤ m → G (ops.bwd x (pat.getD (b - 1) 0)) (b - 1) e
  dead : ∀ x, E x → ∀ a, ops.size (ops.fwd x a) = 0 ∧ ops.size (ops.bwd x a) = 0

section sim
variable {ops : Ops ι} {c : Nat → Nat → Nat} {m : Nat} {pat : List Nat} {G : ι → Nat → Nat → Prop} {E : ι → Prop}
  (hc : CountLaws c m) (hS : SimHyp ops c m pat G E)

/-- candidates: same length, the interval stands for the substring, an empty one stays empty when extended -/
def Rel (c : Nat → Nat → Nat) (G : ι → Nat → Nat → Prop) (E : ι → Prop) (p : ι × Nat) (q : (Nat × Nat) × Nat) : Prop :=
  p.2 = q.2 ∧ G p.1 q.1.1 q.1.2 ∧ (c q.1.1 q.1.2 = 0 → E p.1)

/-- reported matches: same position and length, the interval stands for the substring the string-level model names -/
def HR (G : ι → Nat → Nat → Prop) (h : Hit ι) (k : Hit (Nat × Nat)) : Prop :=
  h.pos = k.pos ∧ h.len = k.len ∧ G h.iv k.iv.1 k.iv.2

include hc hS in
theorem size_fwd (x : ι) (b e : Nat) (hg : G x b e) (hd : c b e = 0 → E x) (hbe : b < e) (hem : e < m) :
    ops.size (ops.fwd x (pat.getD e 0)) = c b (e + 1) := by
  by_cases h0 : c b e = 0
  · have := hc.anti b b e (e + 1) (Nat.le_refl _) hbe (by omega) (by omega)
    rw [(hS.dead x (hd h0) _).1]; omega
  · exact hS.size_eq _ _ _ (hS.fwd x b e hg h0 hbe hem)

include hc hS in
theorem size_bwd (x : ι) (b e : Nat) (hg : G x b e) (hd : c b e = 0 → E x) (hb : 1 ≤ b) (hbe : b < e) (hem : e ≤ m) :
    ops.size (ops.bwd x (pat.getD (b - 1) 0)) = c (b - 1) e := by
  by_cases h0 : c b e = 0
  · have := hc.anti (b - 1) b e e (by omega) hbe (Nat.le_refl _) hem
    rw [(hS.dead x (hd h0) _).2]; omega
  · exact hS.size_eq _ _ _ (hS.bwd x b e hg h0 hb hbe hem)

include hc hS in
theorem sim_fwdLoop (i : Nat) : ∀ (rest : List Nat) (e ml : Nat) (x : ι) (curr1 : List (ι × Nat))
    (curr2 : List ((Nat × Nat) × Nat)), rest = pat.drop e → pat.length = m → i < e → e ≤ m →
    LR (Rel c G E) curr1 curr2 → G x i e → (c i e = 0 → E x) →
    LR (Rel c G E)
      ((fwdLoop ops rest x ml curr1).1 ++ [((fwdLoop ops rest x ml curr1).2.1, (fwdLoop ops rest x ml curr1).2.2)])
      ((fwdLoop (strOps c) rest (i, e) ml curr2).1 ++
        [((fwdLoop (strOps c) rest (i, e) ml curr2).2.1, (fwdLoop (strOps c) rest (i, e) ml curr2).2.2)])
  | [], e, ml, x, curr1, curr2, _, _, _, _, hcur, hg, hd => by
    simp only [fwdLoop]
    exact hcur.append (LR.single ⟨rfl, hg, hd⟩)
  | a :: rest, e, ml, x, curr1, curr2, hrest, hm, hie, hem, hcur, hg, hd => by
    have hlen : (a :: rest).length = m - e := by rw [hrest, List.length_drop, hm]
    simp only [List.length_cons] at hlen
    have he : e < pat.length := by omega
    have ha : a = pat.getD e 0 ∧ rest = pat.drop (e + 1) := by
      rw [List.drop_eq_getElem_cons he] at hrest
      simp only [List.cons.injEq] at hrest
      refine ⟨?_, hrest.2⟩
      rw [hrest.1]; simp [List.getD_eq_getElem?_getD, List.getElem?_eq_getElem he]
    have hs1 : ops.size x = c i e := hS.size_eq _ _ _ hg
    have hs2 : ops.size (ops.fwd x a) = c i (e + 1) := by
      rw [ha.1]; exact size_fwd hc hS x i e hg hd hie (by omega)
    rw [fwdLoop_str_cons]
    simp only [fwdLoop]
    rw [hs1, hs2]
    have hcur' : LR (Rel c G E) (if c i e ≠ c i (e + 1) then curr1 ++ [(x, ml)] else curr1)
        (if c i e ≠ c i (e + 1) then curr2 ++ [((i, e), ml)] else curr2) := by
      split
      · exact hcur.append (LR.single ⟨rfl, hg, hd⟩)
      · exact hcur
    by_cases h0 : c i (e + 1) = 0
    · rw [if_pos h0, if_pos h0]
      exact hcur'.append (LR.single ⟨rfl, hg, hd⟩)
    · rw [if_neg h0, if_neg h0]
      have hne : c i e ≠ 0 := by
        have := hc.anti i i e (e + 1) (Nat.le_refl _) hie (by omega) (by omega)
        omega
      have hg' : G (ops.fwd x a) i (e + 1) := by rw [ha.1]; exact hS.fwd x i e hg hne hie (by omega)
      exact sim_fwdLoop i rest (e + 1) (ml + 1) (ops.fwd x a) _ _ ha.2 hm (by omega) (by omega) hcur' hg'
        (fun h => absurd h h0)

include hc hS in
theorem sim_forwardPhase (hm : pat.length = m) (i : Nat) (hi : i < m) :
    LR (Rel c G E) (forwardPhase ops pat i) (forwardPhase (strOps c) pat i) := by
  obtain ⟨hg, hd⟩ := hS.init i hi
  rw [forwardPhase_str]
  unfold forwardPhase
  simp only []
  rw [hS.size_eq _ _ _ hg]
  exact (sim_fwdLoop hc hS i (pat.drop (i + 1)) (i + 1) _ _ [] [] rfl hm (by omega) (by omega) LR.nil hg hd).reverse

theorem ext_cons (ops : Ops ι) (a : Nat) (x : ι) (ml : Nat) (ps : List (ι × Nat)) :
    ext ops a ((x, ml) :: ps) = (ops.bwd x a, ml + 1) :: ext ops a ps := rfl

theorem dedup_cons (ops : Ops ι) (last : Int) (f : ι) (ml : Nat) (rest : List (ι × Nat)) :
    dedup ops last ((f, ml) :: rest) =
      if (ops.size f != 0 && (ops.size f : Int) != last) = true then (f, ml) :: dedup ops (ops.size f) rest
      else dedup ops last rest := rfl

theorem ext_str_cons (c : Nat → Nat → Nat) (a b e ml : Nat) (qs : List ((Nat × Nat) × Nat)) :
    ext (strOps c) a (((b, e), ml) :: qs) = ((b - 1, e), ml + 1) :: ext (strOps c) a qs := rfl

theorem dedup_str_cons (c : Nat → Nat → Nat) (last : Int) (b e ml : Nat) (rest : List ((Nat × Nat) × Nat)) :
    dedup (strOps c) last (((b, e), ml) :: rest) =
      if (c b e != 0 && (c b e : Int) != last) = true then ((b, e), ml) :: dedup (strOps c) (c b e) rest
      else dedup (strOps c) last rest := rfl

theorem report_cons (ops : Ops ι) (a kk l : Nat) (x : ι) (ml : Nat) (ps : List (ι × Nat)) :
    report ops a kk l ((x, ml) :: ps) =
      if (ops.size (ops.bwd x a) = 0 ∨ kk = 0) ∧ l ≤ ml then [⟨x, kk, ml⟩] else [] := rfl

theorem report_str_cons (c : Nat → Nat → Nat) (a kk l b e ml : Nat) (qs : List ((Nat × Nat) × Nat)) :
    report (strOps c) a kk l (((b, e), ml) :: qs) =
      if (c (b - 1) e = 0 ∨ kk = 0) ∧ l ≤ ml then [⟨(b, e), kk, ml⟩] else [] := rfl

/-- positions of the candidates of round `kk - 1` -/
def Shape (m kk : Nat) (prev : List ((Nat × Nat) × Nat)) : Prop :=
  ∀ q ∈ prev, q.1.1 = kk ∧ kk < q.1.2 ∧ q.1.2 ≤ m

theorem shape_step {kk : Nat} {prev : List ((Nat × Nat) × Nat)} (h : Shape m (kk + 1) prev) (a : Nat) (last : Int) :
    Shape m kk (dedup (strOps c) last (ext (strOps c) a prev)) := by
  intro q hq
  have := (dedup_sublist (strOps c) _ last).subset hq
  simp only [ext, List.mem_map] at this
  obtain ⟨p, hp, rfl⟩ := this
  have hs := h p hp
  simp only [strOps_bwd]
  omega

include hc hS in
theorem sim_dedup (kk : Nat) : ∀ {prev1 : List (ι × Nat)} {prev2 : List ((Nat × Nat) × Nat)},
    LR (Rel c G E) prev1 prev2 → Shape m (kk + 1) prev2 → ∀ (last : Int),
    LR (Rel c G E) (dedup ops last (ext ops (pat.getD kk 0) prev1))
      (dedup (strOps c) last (ext (strOps c) (pat.getD kk 0) prev2)) := by
  intro prev1 prev2 h
  induction h with
  | nil => intro _ last; simp only [ext, List.map_nil, dedup]; exact LR.nil
  | @cons p q ps qs hr _ ih =>
    intro hsh last
    obtain ⟨x, ml⟩ := p
    obtain ⟨⟨b, e⟩, ml'⟩ := q
    obtain ⟨h1, h2, h3⟩ := hr
    simp only at h1 h2 h3
    have hs := hsh ((b, e), ml') (by simp)
    simp only at hs
    obtain ⟨hb, hbe, hem⟩ := hs
    subst hb
    have hsh' : Shape m (kk + 1) qs := fun q hq => hsh q (List.mem_cons_of_mem _ hq)
    have hsz : ops.size (ops.bwd x (pat.getD kk 0)) = c kk e := by
      have := size_bwd hc hS x (kk + 1) e h2 h3 (by omega) hbe hem
      simpa using this
    rw [ext_cons, ext_str_cons, dedup_cons, dedup_str_cons, hsz, Nat.add_sub_cancel]
    by_cases hp : (c kk e != 0 && (c kk e : Int) != last) = true
    · rw [if_pos hp, if_pos hp]
      have hne : c kk e ≠ 0 := by
        simp only [Bool.and_eq_true, bne_iff_ne, ne_eq] at hp; exact hp.1
      have hne' : c (kk + 1) e ≠ 0 := by
        have := hc.anti kk (kk + 1) e e (by omega) hbe (Nat.le_refl _) hem
        omega
      have hg : G (ops.bwd x (pat.getD kk 0)) kk e := by
        have := hS.bwd x (kk + 1) e h2 hne' (by omega) hbe hem
        simpa using this
      refine LR.cons ⟨by simp only [h1], hg, fun h => absurd h hne⟩ ?_
      exact ih hsh' _
    · rw [if_neg hp, if_neg hp]
      exact ih hsh' _

include hc hS in
theorem sim_report (a kk l : Nat) {prev1 : List (ι × Nat)} {prev2 : List ((Nat × Nat) × Nat)}
    (h : LR (Rel c G E) prev1 prev2) (hsh : Shape m kk prev2) (ha : kk = 0 ∨ a = pat.getD (kk - 1) 0) :
    LR (HR G) (report ops a kk l prev1) (report (strOps c) a kk l prev2) := by
  cases h with
  | nil => simp only [report]; exact LR.nil
  | @cons p q ps qs hr _ =>
    obtain ⟨x, ml⟩ := p
    obtain ⟨⟨b, e⟩, ml'⟩ := q
    obtain ⟨h1, h2, h3⟩ := hr
    simp only at h1 h2 h3
    subst h1
    have hs := hsh ((b, e), ml) (by simp)
    simp only at hs
    obtain ⟨hb, hbe, hem⟩ := hs
    subst hb
    rw [report_cons, report_str_cons]
    have hcond : ((ops.size (ops.bwd x a) = 0 ∨ b = 0) ∧ l ≤ ml) ↔ ((c (b - 1) e = 0 ∨ b = 0) ∧ l ≤ ml) := by
      rcases ha with ha | ha
      · simp [ha]
      · by_cases hb0 : b = 0
        · simp [hb0]
        · rw [ha, size_bwd hc hS x b e h2 h3 (by omega) hbe hem]
    by_cases hcd : (c (b - 1) e = 0 ∨ b = 0) ∧ l ≤ ml
    · rw [if_pos hcd, if_pos (hcond.mpr hcd)]
      exact LR.single ⟨rfl, rfl, h2⟩
    · rw [if_neg hcd, if_neg (fun h => hcd (hcond.mp h))]
      exact LR.nil

include hc hS in
theorem sim_outerSpec (l : Nat) : ∀ (kk : Nat) {prev1 : List (ι × Nat)} {prev2 : List ((Nat × Nat) × Nat)}
    {ms1 : List (Hit ι)} {ms2 : List (Hit (Nat × Nat))},
    LR (Rel c G E) prev1 prev2 → Shape m kk prev2 → LR (HR G) ms1 ms2 →
    LR (HR G) (outerSpec ops pat l kk prev1 ms1) (outerSpec (strOps c) pat l kk prev2 ms2)
  | 0, _, _, _, _, h, hsh, hms => by
    simp only [outerSpec]
    exact hms.append (sim_report hc hS 36 0 l h hsh (Or.inl rfl))
  | kk + 1, _, _, _, _, h, hsh, hms => by
    simp only [outerSpec]
    have hd := sim_dedup hc hS kk h hsh (-1)
    have hr := sim_report hc hS (pat.getD kk 0) (kk + 1) l h hsh (Or.inr (by simp))
    rw [hd.isEmpty_eq]
    split
    · exact hms.append hr
    · exact sim_outerSpec l kk hd (shape_step hsh _ _) (hms.append hr)

include hc in
theorem forwardPhase_shape (hm : pat.length = m) (i : Nat) (hi : i < m) :
    Shape m i (forwardPhase (strOps c) pat i) := by
  by_cases h0 : c i (i + 1) = 0
  · rw [forwardPhase_dead hc pat hm hi h0]
    intro q hq
    simp only [List.mem_singleton] at hq
    subst hq
    dsimp only; omega
  · intro q hq
    have := (forwardPhase_inv hc pat hm hi h0).shape q hq
    omega

include hc hS in
/-- **lock-step**: the sweep over `ops` and the string-level sweep report the same matches in the same order, and
each reported interval stands for its match -/
theorem sim_smems (hm : pat.length = m) (i l : Nat) (hi : i < m) :
    LR (HR G) (smems ops pat i l) (smems (strOps c) pat i l) := by
  have hfp := sim_forwardPhase hc hS hm i hi
  have hs2 := forwardPhase_mls_sorted hc pat hm hi
  have hs1 : ((forwardPhase ops pat i).map (·.2)).Pairwise (· ≥ ·) := by
    rw [hfp.map_eq (·.2) (·.2) (fun a b h => h.1)]; exact hs2
  unfold smems
  rw [outer_eq_spec _ _ _ _ _ _ _ (by omega) hs1, outer_eq_spec _ _ _ _ _ _ _ (by omega) hs2]
  exact sim_outerSpec hc hS l i hfp (forwardPhase_shape hc hm i hi) LR.nil

include hc hS in
theorem sim_allLoop (hm : pat.length = m) (l : Nat) : ∀ (fuel i0 : Nat) {acc1 : List (Hit ι)}
    {acc2 : List (Hit (Nat × Nat))}, LR (HR G) acc1 acc2 →
    LR (HR G) (allLoop ops pat l fuel i0 acc1) (allLoop (strOps c) pat l fuel i0 acc2)
  | 0, _, _, _, h => by simp only [allLoop]; exact h
  | fuel + 1, i0, _, _, h => by
    simp only [allLoop]
    split
    · rename_i hi
      have hsm := sim_smems hc hS hm i0 l (by omega)
      have hn : nextI0 (smems ops pat i0 l) i0 = nextI0 (smems (strOps c) pat i0 l) i0 := by
        unfold nextI0
        rw [← List.foldl_map (f := fun h : Hit ι => (h.pos, h.len))
              (g := fun nx (p : Nat × Nat) => if p.1 + p.2 > nx then p.1 + p.2 else nx),
            ← List.foldl_map (f := fun h : Hit (Nat × Nat) => (h.pos, h.len))
              (g := fun nx (p : Nat × Nat) => if p.1 + p.2 > nx then p.1 + p.2 else nx),
            hsm.map_eq (fun h => (h.pos, h.len)) (fun h => (h.pos, h.len)) (fun a b h => by rw [h.1, h.2.1])]
      rw [hn]
      exact sim_allLoop hm l fuel _ (h.append hsm)
    · exact h

include hc hS in
theorem sim_allSmems (hm : pat.length = m) (l : Nat) :
    LR (HR G) (allSmems ops pat l) (allSmems (strOps c) pat l) :=
  sim_allLoop hc hS hm l _ _ LR.nil

end sim

end RbV.SmemModel
