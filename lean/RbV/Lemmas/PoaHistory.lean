import RbV.Lemmas.PoaAcyclic
import RbV.Lemmas.PoaTrace
import RbV.Lemmas.PoaTopo
import RbV.Lemmas.PoaGrow
/-!
# Histories of the model: align-and-add keeps the graph a growing DAG

`Dag g` = at least one node, edge end points in range, no directed cycle.  One step of a history is
`alignAdd sc g q` = `add_alignment` along the operation list of the model's global alignment of `q`;
`history x steps` starts from the chain built from the reference `x` (`Poa::from_string`).
-/
namespace RbV.Poa.Model
open RbV.NW RbV.Poa

structure Dag (g : G) : Prop where
  ne : g.labels ≠ []
  wf : ∀ e ∈ g.es, e.1 < g.labels.length ∧ e.2.1 < g.labels.length
  acyclic : Acyclic (plain g.es)

theorem dag_of_rankOK {g : G} {R : List Nat} {rk : Nat → Nat} {n0 : Nat} (h : RankOK g R rk n0) (hn : 0 < n0) :
    Dag g := by
  refine ⟨?_, ?_, acyclic_of_rankOK h⟩
  · intro he
    have h1 := h.len
    have h2 := h.n0le
    have h3 : g.labels.length = 0 := by rw [he]; rfl
    omega
  · intro e he
    obtain ⟨h1, h2, _⟩ := h.edges e he
    rw [← h.len]
    exact ⟨h1, h2⟩

/-- **the link**: on a DAG, whatever the query, the scoring, the fuel and the start cell, adding along the
operation list of the model's traceback gives a DAG again -/
theorem traceback_add_dag (sc : Sc) (g : G) (q : List Nat) (hg : Dag g) (f i j : Nat) :
    Dag (addAlignment g (traceLoop (dpRows sc g.labels g.es q) f i j []) q) := by
  have hn : 0 < g.labels.length := by
    cases h : g.labels with
    | nil => exact absurd h hg.ne
    | cons a r => simp
  obtain ⟨ops, hops⟩ : ∃ ops, ops = traceLoop (dpRows sc g.labels g.es q) f i j [] := ⟨_, rfl⟩
  rw [← hops]
  obtain ⟨hhead, hK, hmin, hedge⟩ := topoRk_spec g.labels.length g.es (ops.length + 1) hn hg.wf hg.acyclic
  have hbody := traceLoop_bodyB g.es (dpRows sc g.labels g.es q) (topoRk g.labels.length g.es (ops.length + 1))
    g.labels.length ((topo g.labels.length g.es).headD 0) (ops.length + 1) (dpRows_tableOK sc g.labels g.es q)
    hK hmin hedge f i j [] ⟨by simp [bodyB], by intros; simp [bodyB], by intros; simp [bodyB]⟩ (by rw [← hops]; omega)
  have hrk : ∀ e ∈ g.es, e.1 < g.labels.length ∧ e.2.1 < g.labels.length ∧
      topoRk g.labels.length g.es (ops.length + 1) e.1 < topoRk g.labels.length g.es (ops.length + 1) e.2.1 := by
    intro e he
    obtain ⟨h1, h2⟩ := hg.wf e he
    have := (hedge e.2.1 e.1 ((mem_inN g.es e.2.1 e.1).mpr ⟨e.2.2, he⟩)).1
    exact ⟨h1, h2, by omega⟩
  rw [← hops] at hbody
  obtain ⟨R, hR⟩ := addAlignment_rankOK g _ ops q hrk hhead hbody
  exact dag_of_rankOK hR hn

/-- `Aligner::global(q).add_to_graph()` in the model -/
def alignAdd (sc : Sc) (g : G) (q : List Nat) : G := addAlignment g (globalAlign sc g.labels g.es q).2 q

theorem alignAdd_dag (sc : Sc) (g : G) (q : List Nat) (hg : Dag g) : Dag (alignAdd sc g q) :=
  traceback_add_dag sc g q hg _ _ _

/-- `Poa::from_string`: the chain `0 → 1 → …` with weight 1 -/
def chainG (x : List Nat) : G := { labels := x, es := (List.range (x.length - 1)).map fun i => (i, i + 1, 1) }

theorem chainG_dag (x : List Nat) (hx : x ≠ []) : Dag (chainG x) := by
  refine ⟨hx, ?_, ?_⟩
  · intro e he
    simp only [chainG, List.mem_map, List.mem_range] at he
    obtain ⟨i, hi, rfl⟩ := he
    simp only [chainG]
    omega
  · apply acyclic_of_rank (fun v => v)
    intro e he
    simp only [chainG, plain, List.map_map, List.mem_map, List.mem_range] at he
    obtain ⟨i, _, rfl⟩ := he
    simp

/-- the graph after a series of align-and-add steps (each with its own scoring and query) -/
def history (x : List Nat) (steps : List (Sc × List Nat)) : G :=
  steps.foldl (fun g s => alignAdd s.1 g s.2) (chainG x)

theorem foldl_alignAdd_dag : ∀ (steps : List (Sc × List Nat)) (g : G), Dag g →
    Dag (steps.foldl (fun g s => alignAdd s.1 g s.2) g) := by
  intro steps
  induction steps with
  | nil => intro g h; exact h
  | cons s r ih => intro g h; exact ih _ (alignAdd_dag s.1 g s.2 h)

theorem history_dag (x : List Nat) (hx : x ≠ []) (steps : List (Sc × List Nat)) : Dag (history x steps) :=
  foldl_alignAdd_dag steps _ (chainG_dag x hx)

end RbV.Poa.Model
