import RbV.Ref.EditDist
import RbV.Lemmas.UkkonenEq
/-!
A threshold above the pattern length is as good as the pattern length: no entry of the Sellers column exceeds `|p|`
(the pattern can always be aligned against the empty substring), so `hits w p t (min k |p|) = hits w p t k`.
Used by `ukkonen_source_exact` (C09): a text of `find_all_end` that clamps `k` to `m` first reports the same pairs.
Core Lean only.
-/
namespace RbV.EditDist

theorem hitsFrom_clamp (k m : Nat) : ∀ (l : List Nat) (off : Nat), (∀ d ∈ l, d ≤ m) →
    hitsFrom (min k m) off l = hitsFrom k off l := by
  intro l
  induction l with
  | nil => intro off _; simp [hitsFrom]
  | cons d r ih =>
    intro off h
    have hd : d ≤ m := h d (by simp)
    have hr := ih (off + 1) (fun x hx => h x (by simp [hx]))
    simp only [hitsFrom, hr]
    by_cases hk : d ≤ k
    · have : d ≤ min k m := by omega
      simp [hk, this]
    · have : ¬ d ≤ min k m := by omega
      simp [hk, this]

theorem lastRow_le (w : Nat → Nat → Nat) (p t : List Nat) : ∀ d ∈ lastRow w p t, d ≤ p.length := by
  intro d hd
  obtain ⟨i, hi, rfl⟩ := List.getElem_of_mem hd
  have hlen := lastRow_length w p t
  have hc := RbV.Model.Ukkonen.lastRow_cell w p t i (by omega)
  rw [List.getElem?_eq_getElem hi] at hc
  injection hc with hc
  rw [hc, RbV.Model.Ukkonen.cell]
  have := fe_le w (p.take p.length).reverse (t.take (i + 1)).reverse 0
  simp only [List.take_zero, ed_nil_right, List.length_reverse, List.length_take, Nat.min_self] at this
  exact this

/-- clamping the threshold to the pattern length does not change the expected hits -/
theorem hits_clamp (w : Nat → Nat → Nat) (p t : List Nat) (k : Nat) : hits w p t (min k p.length) = hits w p t k := by
  unfold hits
  exact hitsFrom_clamp k p.length _ 0 (lastRow_le w p t)

end RbV.EditDist
