import RbV.Lemmas.Fastx
/-! Truncated FASTQ streams (C11 [B]): what the reader makes of a prefix of the writer's output. Core only. -/
namespace RbV.Fastx

theorem splitLines_nolf (p : Bytes) (h : 10 ∉ p) (hne : p ≠ []) : splitLines p = [p] := by
  induction p with
  | nil => exact absurd rfl hne
  | cons b p ih =>
    have hb : b ≠ 10 := fun e => h (by simp [e])
    have hp : 10 ∉ p := fun e => h (by simp [e])
    cases p with
    | nil => simp [splitLines, hb]
    | cons c p =>
      have := ih hp (by simp)
      rw [splitLines, if_neg hb, this]

/-- lines of a complete line followed by anything -/
theorem splitLines_cons_line (b rest : Bytes) (h : 10 ∉ b) :
    splitLines (b ++ 10 :: rest) = (b ++ [10]) :: splitLines rest := splitLines_line b rest h

/-- cutting `body ++ LF ++ rest`: inside the body, or after the line feed -/
theorem take_line_cases (b rest : Bytes) (c : Nat) :
    (c ≤ b.length ∧ (b ++ 10 :: rest).take c = b.take c) ∨
    (b.length < c ∧ (b ++ 10 :: rest).take c = b ++ 10 :: rest.take (c - b.length - 1)) := by
  rcases Nat.lt_or_ge b.length c with h | h
  · right
    refine ⟨h, ?_⟩
    rw [List.take_append, List.take_of_length_le (Nat.le_of_lt h), List.take_cons (by omega)]
  · left
    exact ⟨h, List.take_append_of_le_length h⟩

theorem nolf_take {b : Bytes} (h : 10 ∉ b) (c : Nat) : 10 ∉ b.take c := fun e => h (List.mem_of_mem_take e)

/-- a header-only / sequence-only start of a record is reported as incomplete, and the stream is exhausted -/
theorem fqRecords_incomplete (l : Bytes) (ls : List Bytes) (h64 : startsWith l 64 = true)
    (hq : fqQual (fqSeq ls).2.1 (fqSeq ls).2.2.tail = ([], [])) : fqRecords (l :: ls) = [.incomplete] := by
  rw [fqRecords]
  have : fqRead l ls = (.incomplete, []) := by
    unfold fqRead
    simp [h64, hq]
  rw [this, fqRecords]

/-- the three complete lines in front of the qualities, then a (partial) quality line -/
theorem fqRecords_partial_qual (r : FqRec) (v : ValidFq r) (p : Bytes) (hp : ∀ b ∈ p, isWs b = false) (hne : p ≠ []) :
    fqRecords [64 :: hdrText r.id r.desc ++ [10], r.seq ++ [10], [43, 10], p]
      = [.ok { id := r.id, desc := r.desc, seq := r.seq, qual := p }] := by
  rw [fqRecords]
  have hs : startsWith (r.seq ++ [10]) 43 = false :=
    startsWith_piece r.seq [10] 43 v.seq_plus (by simp)
  have ht : trimEnd (r.seq ++ [10]) = r.seq := trimEnd_piece r.seq [10] v.seq_ok (Or.inl rfl)
  have htp : trimEnd p = p := by
    have := trimEnd_append_ws p [] (noTrailWs_of_all p hp) (by simp)
    simpa using this
  have hpe : p.isEmpty = false := by cases p with
    | nil => exact absurd rfl hne
    | cons b p => rfl
  have hsw : startsWith (64 :: hdrText r.id r.desc ++ [10]) 64 = true := by simp [startsWith]
  have : fqRead (64 :: hdrText r.id r.desc ++ [10]) [r.seq ++ [10], [43, 10], p]
      = (.ok { id := r.id, desc := r.desc, seq := r.seq, qual := p }, []) := by
    unfold fqRead
    simp only [hsw, Bool.not_true, Bool.false_eq_true, if_false]
    rw [fqHeader_line r.id r.desc [10] (Or.inl rfl) v.id_nows v.desc_ok]
    have h43 : startsWith [43, 10] 43 = true := rfl
    simp [fqSeq, hs, h43, ht, fqQual, htp, hpe]
  rw [this, fqRecords]

theorem writeFastqRec_eq (r : FqRec) :
    writeFastqRec r = (64 :: hdrText r.id r.desc) ++ 10 :: (r.seq ++ 10 :: ([43] ++ 10 :: (r.qual ++ 10 :: []))) := by
  cases h : r.desc <;> simp [writeFastqRec, hdrText, h]

/-- one record followed by anything: the record, then whatever the rest parses to -/
theorem parseFastq_rec_append (r : FqRec) (v : ValidFq r) (X : Bytes) :
    parseFastq (writeFastqRec r ++ X) = .ok r :: parseFastq X := by
  have hl : writeFastqRec r = layoutFastqRec r (writerLayout r) := by
    simp [writeFastqRec, layoutFastqRec, writerLayout]
  unfold parseFastq
  rw [hl, splitLines_fqRec r (writerLayout r) X v (writerLayout_ok r v), fqRecords,
    fqRead_rec r (writerLayout r) _ v (writerLayout_ok r v)]

/-- **a cut inside one record**: nothing, an `IncompleteRecord` error, the complete record (only the final line feed
is missing), or a record with too short a quality string (which fails `check`) -/
theorem parseFastq_cut_rec (r : FqRec) (v : ValidFq r) (c : Nat) :
    parseFastq ((writeFastqRec r).take c) = [] ∨
    parseFastq ((writeFastqRec r).take c) = [.incomplete] ∨
    parseFastq ((writeFastqRec r).take c) = [.ok r] ∨
    ∃ r', parseFastq ((writeFastqRec r).take c) = [.ok r'] ∧ r'.check = false := by
  have hH : 10 ∉ 64 :: hdrText r.id r.desc := by
    intro h
    rcases List.mem_cons.mp h with h | h
    · cases h
    · exact hdrText_nolf r.id r.desc v.id_nows v.desc_ok h
  have hS : 10 ∉ r.seq := nolf_of_nows r.seq v.seq_ok
  have hQ : 10 ∉ r.qual := nolf_of_nows r.qual v.qual_ok
  have hP : 10 ∉ ([43] : Bytes) := by simp
  have hsw : startsWith (64 :: hdrText r.id r.desc ++ [10]) 64 = true := by simp [startsWith]
  have hs43 : startsWith (r.seq ++ [10]) 43 = false := startsWith_piece r.seq [10] 43 v.seq_plus (by simp)
  have h43 : startsWith [43, 10] 43 = true := rfl
  unfold parseFastq
  rw [writeFastqRec_eq]
  -- 1. header line
  rcases take_line_cases (64 :: hdrText r.id r.desc) _ c with ⟨_, e1⟩ | ⟨h1, e1⟩
  · rw [e1]
    cases c with
    | zero => left; simp [splitLines, fqRecords]
    | succ c =>
      right; left
      have hne : (64 :: hdrText r.id r.desc).take (c + 1) ≠ [] := by simp
      rw [splitLines_nolf _ (nolf_take hH _) hne]
      exact fqRecords_incomplete _ _ (by simp [startsWith]) (by simp [fqSeq, fqQual])
  · rw [e1, splitLines_cons_line _ _ hH]
    -- 2. sequence line
    rcases take_line_cases r.seq _ (c - (64 :: hdrText r.id r.desc).length - 1) with ⟨_, e2⟩ | ⟨h2, e2⟩
    · rw [e2]
      right; left
      generalize c - (64 :: hdrText r.id r.desc).length - 1 = c2
      cases c2 with
      | zero => exact fqRecords_incomplete _ _ hsw (by simp [splitLines, fqSeq, fqQual])
      | succ c2 =>
        have hne : r.seq.take (c2 + 1) ≠ [] := by
          have := v.seq_ne
          cases hs : r.seq with
          | nil => exact absurd hs this
          | cons b s => simp
        rw [splitLines_nolf _ (nolf_take hS _) hne]
        have hp : startsWith (r.seq.take (c2 + 1)) 43 = false := by
          have := v.seq_plus
          simp only [startsWith, List.head?_take]
          simp; exact this
        exact fqRecords_incomplete _ _ hsw (by simp [fqSeq, hp, fqQual])
    · rw [e2, splitLines_cons_line _ _ hS]
      generalize c - (64 :: hdrText r.id r.desc).length - 1 - r.seq.length - 1 = c3
      -- 3. separator line
      rcases take_line_cases [43] (r.qual ++ [10]) c3 with ⟨_, e3⟩ | ⟨h3, e3⟩
      · rw [e3]
        right; left
        cases c3 with
        | zero => exact fqRecords_incomplete _ _ hsw (by simp [splitLines, fqSeq, hs43, fqQual])
        | succ c3 =>
          have : List.take (c3 + 1) ([43] : Bytes) = [43] := by simp
          rw [this, splitLines_nolf _ hP (by simp)]
          have h43' : startsWith [43] 43 = true := rfl
          exact fqRecords_incomplete _ _ hsw (by simp [fqSeq, hs43, h43', fqQual])
      · rw [e3, splitLines_cons_line _ _ hP]
        generalize c3 - ([43] : Bytes).length - 1 = c4
        -- 4. quality line
        rcases take_line_cases r.qual [] c4 with ⟨h4, e4⟩ | ⟨_, e4⟩
        · rw [e4]
          cases c4 with
          | zero =>
            right; left
            exact fqRecords_incomplete _ _ hsw (by simp [splitLines, fqSeq, hs43, h43, fqQual])
          | succ c4 =>
            have hne : r.qual.take (c4 + 1) ≠ [] := by
              cases hq : r.qual with
              | nil => rw [hq] at h4; simp at h4
              | cons b q => simp
            rw [splitLines_nolf _ (nolf_take hQ _) hne]
            have hp : ∀ b ∈ r.qual.take (c4 + 1), isWs b = false :=
              fun b hb => v.qual_ok b (List.mem_of_mem_take hb)
            have hrec := fqRecords_partial_qual r v _ hp hne
            simp only [List.singleton_append, List.cons_append, List.nil_append] at hrec ⊢
            rw [hrec]
            rcases Nat.lt_or_ge (c4 + 1) r.qual.length with hlt | hge
            · right; right; right
              refine ⟨_, rfl, ?_⟩
              have hl := v.qual_len
              simp only [FqRec.check, List.length_take, Bool.and_eq_false_imp]
              intro _
              simp; omega
            · right; right; left
              rw [List.take_of_length_le hge]
        · rw [e4]
          right; right; left
          have := parseFastq_rec_append r v []
          unfold parseFastq at this
          rw [writeFastqRec_eq] at this
          simp only [List.append_nil, List.take_nil, splitLines, fqRecords] at this ⊢
          have hl := splitLines_cons_line r.qual [] hQ
          simp only [splitLines] at hl
          rw [hl]
          rw [splitLines_cons_line _ _ hH, splitLines_cons_line _ _ hS, splitLines_cons_line _ _ hP, hl] at this
          simpa [fqRecords] using this

end RbV.Fastx
