import RbV.Model.BandL
import RbV.Lemmas.Band
/-! The shape / growth / coverage lemmas of `RbV/Lemmas/Band.lean` for the band mirror with `lazy_extend` a parameter
(`RbV/Model/BandL.lean`): they hold for **every** value of the tuning constant. -/
namespace RbV.Model.Band
open RbV.Align

theorem boundStartL_wf {m n : Nat} {b : Band} (h : WF m n b) (L : Nat) (st : Nat × Nat) (w : Nat) (cl : Clip) :
    WF m n (boundStartL L b st w cl) := by
  unfold boundStartL
  simp only
  repeat' first
    | assumption
    | apply addGap_wf
    | apply addKmer_wf
    | split

theorem boundEndL_wf {m n : Nat} {b : Band} (h : WF m n b) (L : Nat) (en : Nat × Nat) (k w : Nat) (cl : Clip) :
    WF m n (boundEndL L b en k w cl) := by
  unfold boundEndL
  simp only
  repeat' first
    | assumption
    | apply addGap_wf
    | apply addKmer_wf
    | split

theorem setBoundariesL_wf {m n : Nat} {b : Band} (h : WF m n b) (L : Nat) (st en : Nat × Nat) (k w : Nat) (cl : Clip) :
    WF m n (setBoundariesL L b st en k w cl) := boundEndL_wf (boundStartL_wf h ..) ..

theorem boundStartL_grow (L : Nat) (b : Band) (st : Nat × Nat) (w : Nat) (cl : Clip) : BGrow b (boundStartL L b st w cl) := by
  unfold boundStartL
  simp only
  repeat' first
    | exact BGrow.refl _
    | exact addGap_grow ..
    | exact addKmer_grow ..
    | exact BGrow.trans (addKmer_grow ..) (addGap_grow ..)
    | split

theorem boundEndL_grow (L : Nat) (b : Band) (en : Nat × Nat) (k w : Nat) (cl : Clip) : BGrow b (boundEndL L b en k w cl) := by
  unfold boundEndL
  simp only
  repeat' first
    | exact BGrow.refl _
    | exact addGap_grow ..
    | exact addKmer_grow ..
    | exact BGrow.trans (addKmer_grow ..) (addGap_grow ..)
    | split

theorem setBoundariesL_grow (L : Nat) (b : Band) (st en : Nat × Nat) (k w : Nat) (cl : Clip) :
    BGrow b (setBoundariesL L b st en k w cl) := (boundStartL_grow ..).trans (boundEndL_grow ..)

theorem createFromMatchPathL_wf (L m n k w : Nat) (cl : Clip) (path : List Nat) (ms : List (Nat × Nat)) :
    WF m n (createFromMatchPathL L m n k w cl path ms) := by
  unfold createFromMatchPathL
  simp only
  split
  · refine ⟨rfl, rfl, by simp [fullMatrix, new], ?_⟩
    intro j p hp
    simp only [fullMatrix, new, List.getElem?_replicate] at hp
    split at hp
    · simp only [Option.some.injEq] at hp; subst hp; simp
    · simp at hp
  · exact foldl_inv (fun st : Band × Option (Nat × Nat) => WF m n st.1) _ _ (_, none)
      (setBoundariesL_wf (new_wf m n) ..) (fun st idx h => pathStep_wf k w ms st idx h)

theorem createFromMatchPathL_covers (L m n k w : Nat) (cl : Clip) (path : List Nat) (ms : List (Nat × Nat))
    (hne : ms ≠ []) (hin : ∀ idx ∈ path, InSeq m n k ms idx) (idx : Nat) (hidx : idx ∈ path) :
    Covers (createFromMatchPathL L m n k w cl path ms) k ms idx := by
  unfold createFromMatchPathL
  have he : ms.isEmpty = false := by cases ms <;> simp_all
  simp only [he, Bool.false_eq_true, if_false]
  have h0 : PInv m n k ms (fun _ => False)
      (setBoundariesL L (new m n) (ms.getD (path.headD 0) (0, 0)) (ms.getD (path.getLastD 0) (0, 0)) k w cl, none) :=
    ⟨setBoundariesL_wf (new_wf m n) .., fun _ h => h.elim, fun p hp => by simp at hp⟩
  exact (foldl_pathStep_inv path _ _ h0 hin).cov idx (Or.inr hidx)

theorem createFromMatchPathL_nil (L m n k w : Nat) (cl : Clip) (path : List Nat) :
    createFromMatchPathL L m n k w cl path [] = fullMatrix (new m n) := rfl

end RbV.Model.Band
