import RbV.Lemmas.PoaTraceAll
/-!
# The tables of `global_banded` (any bandwidth) and of `custom` (any clip penalties) are local (`OpsOK`)

for every graph, query, scoring, bandwidth and clip penalties — no acyclicity needed here.
-/
namespace RbV.Poa.Model
open RbV.NW RbV.Poa

/-- every answer of `Traceback::get` on this row is an operation allowed in the row of `v` -/
def RowGood (es : WEdges) (L v : Nat) (row : BRow) : Prop := ∀ j, RowOpX es L v j (row.get j).op

theorem rowGood_of_cells (es : WEdges) (L v : Nat) (cells : List Cell) (start stop : Nat)
    (h : ∀ k, k < cells.length → RowOpX es L v (start + k) (cells.getD k mcell).op) :
    RowGood es L v { cells := cells, start := start, stop := stop } := by
  intro j
  simp only [BRow.get]
  split
  · rename_i hc
    simp only [Bool.and_eq_true, decide_eq_true_eq] at hc
    by_cases hk : j - start < cells.length
    · have := h (j - start) hk
      have e : start + (j - start) = j := by omega
      rw [e] at this
      exact this
    · left
      simp [List.getD_eq_getElem?_getD, Nat.le_of_not_lt hk, mcell]
  · split
    · rename_i hj
      right; right; left; exact ⟨hj, rfl⟩
    · split
      · right; right; right; left
        exact ⟨by omega, Or.inr (Or.inl rfl)⟩
      · left; rfl

theorem emptyRow_good (es : WEdges) (L v n : Nat) : RowGood es L v (emptyRow n) :=
  rowGood_of_cells es L v [] 0 (n + 1) (fun k hk => by simp at hk)

/-- the fold over the predecessors keeps the operation among: that of `init`, `Match/Del` through a listed
predecessor -/
theorem predFold_op (sc : Sc) (v r b j : Nat) (S : Nat → Prop) :
    ∀ (preds : List (Nat × BRow)) (init : Cell), (∀ pp ∈ preds, S pp.1) →
      let c := preds.foldl (fun acc (pp : Nat × BRow) =>
        cmax acc (cmax ⟨(pp.2.get (j - 1)).score + sc.w r b, .m (some (pp.1, v))⟩
                       ⟨(pp.2.get j).score + sc.gap, .d (some (pp.1, v + 1))⟩)) init
      c.op = init.op ∨ ∃ p, S p ∧ (c.op = .m (some (p, v)) ∨ c.op = .d (some (p, v + 1))) := by
  intro preds
  induction preds with
  | nil => intro init _; left; rfl
  | cons pp preds ih =>
    intro init hS
    simp only [List.foldl_cons]
    rcases ih (cmax init (cmax ⟨(pp.2.get (j - 1)).score + sc.w r b, .m (some (pp.1, v))⟩
        ⟨(pp.2.get j).score + sc.gap, .d (some (pp.1, v + 1))⟩)) (fun q hq => hS q (List.mem_cons_of_mem _ hq)) with h | h
    · rcases cmax_op init (cmax ⟨(pp.2.get (j - 1)).score + sc.w r b, .m (some (pp.1, v))⟩
        ⟨(pp.2.get j).score + sc.gap, .d (some (pp.1, v + 1))⟩) with h1 | h1
      · left; rw [h, h1]
      · right
        refine ⟨pp.1, hS pp (by simp), ?_⟩
        rcases cmax_op (⟨(pp.2.get (j - 1)).score + sc.w r b, .m (some (pp.1, v))⟩ : Cell)
          ⟨(pp.2.get j).score + sc.gap, .d (some (pp.1, v + 1))⟩ with h2 | h2
        · left; rw [h, h1, h2]
        · right; rw [h, h1, h2]
    · right; exact h

theorem cCand_op (sc : Sc) (init : Cell) (query : List Nat) (r0 : BRow) (es : WEdges) (v r : Nat)
    (preds : List (Nat × BRow)) (j : Nat) (hinit : init.op = .m none ∨ init.op = .x 0)
    (hp : ∀ pp ∈ preds, pp.1 ∈ inN es v) :
    (cCand sc init query r0 v r preds j).op = .m none ∨ (cCand sc init query r0 v r preds j).op = .x 0 ∨
    ∃ p ∈ inN es v, (cCand sc init query r0 v r preds j).op = .m (some (p, v)) ∨
      (cCand sc init query r0 v r preds j).op = .d (some (p, v + 1)) := by
  cases preds with
  | nil => left; rfl
  | cons pp rest =>
    have := predFold_op sc v r (query.getD (j - 1) 0) j (fun p => p ∈ inN es v) (pp :: rest) init hp
    simp only [cCand]
    rcases this with h | ⟨p, hp', h⟩
    · rcases hinit with h1 | h1
      · left; rw [h, h1]
      · right; left; rw [h, h1]
    · right; right; exact ⟨p, hp', h⟩

theorem bCand_eq_cCand (sc : Sc) (query : List Nat) (r0 : BRow) (v r : Nat) (preds : List (Nat × BRow)) (j : Nat) :
    bCand sc query r0 v r preds j = cCand sc mcell query r0 v r preds j := by
  cases preds <;> rfl

/-- cells `c0 :: insScan … (map cand [start+1 ..])` of a node's row are allowed at their columns -/
theorem scanRow_good (es : WEdges) (L v : Nat) (gap : Int) (c0 : Cell) (start len : Nat) (cand : Nat → Cell)
    (stop : Nat)
    (hc0 : c0.op = .m none ∨ c0.op = .x 0 ∨ (start = 0 ∧ c0.op = .d none))
    (hcand : ∀ j, (cand j).op = .m none ∨ (cand j).op = .x 0 ∨
      ∃ p ∈ inN es v, (cand j).op = .m (some (p, v)) ∨ (cand j).op = .d (some (p, v + 1))) :
    RowGood es L v { cells := c0 :: insScan gap (.i (some v)) c0 ((List.range' (start + 1) len).map cand),
                     start := start, stop := stop } := by
  apply rowGood_of_cells
  intro k hk
  cases k with
  | zero =>
    simp only [List.getD_cons_zero, Nat.add_zero]
    rcases hc0 with h | h | ⟨h1, h2⟩
    · left; exact h
    · right; left; exact h
    · right; right; left; exact ⟨h1, h2⟩
  | succ k =>
    simp only [List.getD_cons_succ]
    rcases getD_eq_or_mem (insScan gap (.i (some v)) c0 ((List.range' (start + 1) len).map cand)) k mcell with h | h
    · rw [h]; left; rfl
    · rcases insScan_op _ _ _ _ _ h with h1 | ⟨x, hx, h1⟩
      · right; right; right; left; exact ⟨by omega, Or.inl h1⟩
      · simp only [List.mem_map] at hx
        obtain ⟨j, _, rfl⟩ := hx
        rw [h1]
        rcases hcand j with h2 | h2 | h2
        · left; exact h2
        · right; left; exact h2
        · right; right; right; left; exact ⟨by omega, Or.inr (Or.inr h2)⟩

theorem cmax_c0_op (a b : Int) : (cmax (⟨a, .d none⟩ : Cell) ⟨b, .x 0⟩).op = .d none ∨
    (cmax (⟨a, .d none⟩ : Cell) ⟨b, .x 0⟩).op = .x 0 := cmax_op _ _

theorem cmax_init_op (b : Int) : (cmax mcell ⟨b, .x 0⟩).op = .m none ∨ (cmax mcell ⟨b, .x 0⟩).op = .x 0 := cmax_op _ _

theorem bNodeRow_good (sc : Sc) (xclip : Int) (query : List Nat) (r0 : BRow) (es : WEdges) (L v r : Nat)
    (preds : List (Nat × BRow)) (start end_ : Nat) (hp : ∀ pp ∈ preds, pp.1 ∈ inN es v) :
    RowGood es L v (bNodeRow sc xclip query r0 v r preds start end_) := by
  simp only [bNodeRow]
  apply scanRow_good
  · by_cases hs : start = 0
    · simp only [hs, if_true]
      rcases cmax_c0_op (((v : Int) + 1) * sc.gap) xclip with h | h
      · right; right; exact ⟨trivial, h⟩
      · right; left; exact h
    · simp only [hs, if_false]; left; rfl
  · intro j
    rw [bCand_eq_cCand]
    exact cCand_op sc mcell query r0 es v r preds j (Or.inl rfl) hp

theorem cNodeRow_good (sc : Sc) (xp : Int) (query : List Nat) (r0 : BRow) (es : WEdges) (L v r : Nat)
    (preds : List (Nat × BRow)) (hp : ∀ pp ∈ preds, pp.1 ∈ inN es v) :
    RowGood es L v (cNodeRow sc xp query r0 v r preds) := by
  simp only [cNodeRow]
  have := scanRow_good es L v sc.gap (cmax ⟨((v : Int) + 1) * sc.gap, .d none⟩ ⟨xp, .x 0⟩) 0 query.length
    (cCand sc (cmax mcell ⟨xp, .x 0⟩) query r0 v r preds) (query.length + 1)
    (by
      rcases cmax_c0_op (((v : Int) + 1) * sc.gap) xp with h | h
      · right; right; exact ⟨rfl, h⟩
      · right; left; exact h)
    (fun j => cCand_op sc _ query r0 es v r preds j (cmax_init_op xp) hp)
  simpa using this

theorem bRow0_get (gap yclip : Int) (n j : Nat) :
    (bRow0 gap yclip n).get j =
      if j < n + 1 then (bRow0 gap yclip n).cells.getD j mcell else ⟨minScore, .i none⟩ := by
  by_cases h : j < n + 1
  · simp [BRow.get, bRow0, h]
  · have h0 : j ≠ 0 := by omega
    have h1 : n + 1 ≤ j := by omega
    simp [BRow.get, bRow0, h, h0, h1]

/-- row 0: `Match(None)`, `Ins(None)` or `Yclip(0, _)` -/
theorem bRow0_op (gap yclip : Int) (n j : Nat) :
    ((bRow0 gap yclip n).get j).op = .m none ∨ ((bRow0 gap yclip n).get j).op = .i none ∨
      ∃ c, ((bRow0 gap yclip n).get j).op = .y 0 c := by
  rw [bRow0_get]
  by_cases h : j < n + 1
  · simp only [h, if_true, bRow0]
    cases j with
    | zero => left; rfl
    | succ k =>
      simp only [List.getD_cons_succ]
      rcases getD_eq_or_mem ((List.range' 1 n).map (fun (j : Nat) => cmax (⟨(j : Int) * gap, .i none⟩ : Cell) ⟨yclip, .y 0 j⟩))
        k mcell with h | h
      · rw [h]; left; rfl
      · simp only [List.mem_map] at h
        obtain ⟨c, _, hc⟩ := h
        rw [← hc]
        rcases cmax_op (⟨(c : Int) * gap, .i none⟩ : Cell) ⟨yclip, .y 0 c⟩ with h1 | h1
        · right; left; exact h1
        · right; right; exact ⟨c, h1⟩
  · simp only [h, if_false]
    right; left; trivial

/-! ## `global_banded` -/

theorem bandedRows_good (sc : Sc) (xclip yclip : Int) (labels : List Nat) (es : WEdges) (query : List Nat) (bw L : Nat) :
    ∀ u, RowGood es L u ((bandedRows sc xclip yclip labels es query bw).rows.getD u (emptyRow query.length)) := by
  simp only [bandedRows]
  generalize topo labels.length es = order
  have key : ∀ (order : List Nat) (st : BState),
      (∀ u, RowGood es L u (st.rows.getD u (emptyRow query.length))) →
      ∀ u, RowGood es L u ((order.foldl (bStep sc xclip labels es query bw (bRow0 sc.gap yclip query.length)) st).rows.getD u
        (emptyRow query.length)) := by
    intro order
    induction order with
    | nil => intro st h; exact h
    | cons v order ih =>
      intro st h
      simp only [List.foldl_cons]
      apply ih
      intro u
      simp only [bStep]
      rw [getD_setIfInBounds]
      split
      · rename_i hc
        rw [hc.1]
        apply bNodeRow_good
        intro pp hpp
        simp only [List.mem_map] at hpp
        obtain ⟨p, hp, rfl⟩ := hpp
        exact hp
      · exact h u
  apply key
  intro u
  have : (Array.replicate labels.length (emptyRow query.length)).getD u (emptyRow query.length) = emptyRow query.length := by
    simp only [Array.getD_eq_getD_getElem?, Array.getElem?_replicate]
    split <;> rfl
  rw [this]
  exact emptyRow_good es L u query.length

theorem bandedTable_opsOK (sc : Sc) (xclip yclip : Int) (labels : List Nat) (es : WEdges) (query : List Nat) (bw L : Nat) :
    OpsOK es L (fun i j => ((bandedTable sc xclip yclip labels es query bw).cell i j).op) := by
  constructor
  · intro j
    simp only [BTable.cell, bandedTable, if_true]
    exact bRow0_op sc.gap yclip query.length j
  · intro v j
    simp only [BTable.cell, bandedTable, Nat.succ_ne_zero, if_false, Nat.add_sub_cancel]
    exact bandedRows_good sc xclip yclip labels es query bw L v j

/-! ## `custom` -/

theorem customRows_good (sc : Sc) (xp : Int) (labels : List Nat) (es : WEdges) (query : List Nat) (r0 : BRow) (L : Nat) :
    ∀ (order : List Nat) (st : CState),
      (∀ u, RowGood es L u (st.rows.getD u (emptyRow query.length))) →
      ∀ u, RowGood es L u ((order.foldl (cStep sc xp labels es query r0) st).rows.getD u (emptyRow query.length)) := by
  intro order
  induction order with
  | nil => intro st h; exact h
  | cons v order ih =>
    intro st h
    simp only [List.foldl_cons]
    apply ih
    intro u
    simp only [cStep]
    rw [getD_setIfInBounds]
    split
    · rename_i hc
      rw [hc.1]
      apply cNodeRow_good
      intro pp hpp
      simp only [List.mem_map] at hpp
      obtain ⟨p, hp, rfl⟩ := hpp
      exact hp
    · exact h u

theorem xSuffix_spec (xs : Int) (lastI : Nat) : ∀ (mcs : List (Int × Nat)) (cs : List Cell) (col : Nat) (mir : Int × Nat),
    (xSuffix xs lastI col mcs cs mir).1.length = cs.length ∧
    (∀ k, ((xSuffix xs lastI col mcs cs mir).1.getD k mcell).op = (cs.getD k mcell).op ∨
      ∃ x, ((xSuffix xs lastI col mcs cs mir).1.getD k mcell).op = .x x) ∧
    ((xSuffix xs lastI col mcs cs mir).2.2 = mir.2 ∨
      (col ≤ (xSuffix xs lastI col mcs cs mir).2.2 ∧ (xSuffix xs lastI col mcs cs mir).2.2 < col + cs.length)) := by
  intro mcs
  induction mcs with
  | nil => intro cs col mir; simp [xSuffix]
  | cons mc mcs ih =>
    intro cs col mir
    cases cs with
    | nil => simp [xSuffix]
    | cons c cs =>
      simp only [xSuffix]
      split
      · obtain ⟨h1, h2, h3⟩ := ih cs (col + 1) mir
        refine ⟨by simp [h1], ?_, ?_⟩
        · intro k
          cases k with
          | zero => left; rfl
          | succ k => simpa using h2 k
        · rcases h3 with h3 | h3
          · left; exact h3
          · right; simp only [List.length_cons]; omega
      · obtain ⟨h1, h2, h3⟩ := ih cs (col + 1)
          (if mir.1 < (cmax c ⟨mc.1 + xs, .x mc.2⟩).score then ((cmax c ⟨mc.1 + xs, .x mc.2⟩).score, col) else mir)
        refine ⟨by simp [h1], ?_, ?_⟩
        · intro k
          cases k with
          | zero =>
            simp only [List.getD_cons_zero]
            rcases cmax_op c ⟨mc.1 + xs, .x mc.2⟩ with h | h
            · left; exact h
            · right; exact ⟨mc.2, h⟩
          | succ k => simpa using h2 k
        · rcases h3 with h3 | h3
          · rw [h3]
            split
            · right; simp only [List.length_cons]; omega
            · left; rfl
          · right; simp only [List.length_cons]; omega

theorem getD_set_cell (l : List Cell) (n k : Nat) (c : Cell) :
    (l.set n c).getD k mcell = if k = n ∧ n < l.length then c else l.getD k mcell := by
  simp only [List.getD_eq_getElem?_getD, List.getElem?_set]
  by_cases h : n = k
  · subst h
    by_cases h2 : n < l.length
    · simp [h2]
    · simp [h2]
  · have : ¬ k = n := fun e => h e.symm
    simp [h, this]

theorem customTable_opsOK (sc : Sc) (xp xs yp ys : Int) (labels : List Nat) (es : WEdges) (query : List Nat) :
    OpsOK es (customTable sc xp xs yp ys labels es query).last
      (fun i j => ((customTable sc xp xs yp ys labels es query).cell i j).op) := by
  constructor
  · intro j
    simp only [BTable.cell, customTable, if_true]
    exact bRow0_op sc.gap yp query.length j
  · intro v j
    simp only [BTable.cell, customTable, Nat.succ_ne_zero, if_false, Nat.add_sub_cancel]
    generalize hL : (topo labels.length es).getLastD 0 = L
    have hrows := customRows_good sc xp labels es query (bRow0 sc.gap yp query.length) L (topo labels.length es)
      { rows := Array.replicate labels.length (emptyRow query.length),
        maxcol := List.replicate (query.length + 1) ((0 : Int), 0) }
      (by
        intro u
        have : (Array.replicate labels.length (emptyRow query.length)).getD u (emptyRow query.length) =
            emptyRow query.length := by
          simp only [Array.getD_eq_getD_getElem?, Array.getElem?_replicate]
          split <;> rfl
        rw [this]
        exact emptyRow_good es L u query.length)
    rw [getD_setIfInBounds]
    split
    · rename_i hc
      rw [hc.1]
      -- the last row after suffix clipping
      generalize hst : (topo labels.length es).foldl (cStep sc xp labels es query (bRow0 sc.gap yp query.length))
        { rows := Array.replicate labels.length (emptyRow query.length),
          maxcol := List.replicate (query.length + 1) ((0 : Int), 0) } = st at hrows ⊢
      have hlast := hrows L
      obtain ⟨h1, h2, h3⟩ := xSuffix_spec xs (L + 1) st.maxcol
        ((List.range (query.length + 1)).map (st.rows.getD L (emptyRow query.length)).get) 0 (0, 0)
      generalize hx : xSuffix xs (L + 1) 0 st.maxcol
        ((List.range (query.length + 1)).map (st.rows.getD L (emptyRow query.length)).get) (0, 0) = X at h1 h2 h3 ⊢
      obtain ⟨cells1, mir⟩ := X
      simp only [List.length_map, List.length_range] at h1
      simp only at h1 h2 h3 ⊢
      have horig : ∀ k, k < query.length + 1 →
          (((List.range (query.length + 1)).map (st.rows.getD L (emptyRow query.length)).get).getD k mcell) =
            (st.rows.getD L (emptyRow query.length)).get k := by
        intro k hk
        simp [List.getD_eq_getElem?_getD, hk]
      have hcells1 : ∀ k, k < query.length + 1 → RowOpX es L L k (cells1.getD k mcell).op := by
        intro k hk
        rcases h2 k with h | ⟨x, h⟩
        · rw [h, horig k hk]; exact hlast k
        · right; right; right; right; exact ⟨rfl, Or.inl ⟨x, h⟩⟩
      apply rowGood_of_cells
      intro k hk
      simp only [Nat.zero_add]
      by_cases hm : mir.2 ≠ query.length
      · simp only [hm, ne_eq, not_false_eq_true, if_true, setAt] at hk ⊢
        simp only [List.length_set, h1] at hk
        rw [getD_set_cell]
        split
        · rename_i hkn
          rcases cmax_op (cells1.getD query.length mcell) ⟨mir.1 + ys, .y mir.2 query.length⟩ with h | h
          · rw [h, hkn.1]; exact hcells1 _ (by omega)
          · rw [h]
            right; right; right; right
            refine ⟨rfl, Or.inr ⟨?_, mir.2, query.length, rfl⟩⟩
            rw [hkn.1]
            -- the query is not empty: `max_in_row.1` is a column index and differs from `n`
            simp only [List.length_map, List.length_range] at h3
            rcases h3 with h3 | h3
            · omega
            · omega
        · exact hcells1 k hk
      · have hm' : mir.2 = query.length := by
          apply Classical.byContradiction; intro h; exact hm h
        simp only [hm', ne_eq, not_true_eq_false, if_false] at hk ⊢
        rw [h1] at hk
        exact hcells1 k hk
    · exact hrows v j

end RbV.Poa.Model
