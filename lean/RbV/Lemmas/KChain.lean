import RbV.Spec.KChain
/-! Lemmas about chains of k-mer matches and the LCSk++ reference DP (core Lean only). -/
namespace RbV.KChain

/-! ### max0 -/

theorem le_max0_of_mem {l : List Nat} {a : Nat} (h : a ∈ l) : a ≤ max0 l := by
  induction l with
  | nil => cases h
  | cons b l ih =>
    simp only [max0]
    rcases List.mem_cons.mp h with rfl | h
    · omega
    · have := ih h; omega

theorem max0_zero_or_mem (l : List Nat) : max0 l = 0 ∨ max0 l ∈ l := by
  induction l with
  | nil => left; rfl
  | cons b l ih =>
    simp only [max0]
    by_cases hb : max0 l ≤ b
    · right; rw [Nat.max_eq_left hb]; simp
    · rw [Nat.max_eq_right (by omega)]
      rcases ih with h | h
      · omega
      · right; exact List.mem_cons_of_mem _ h

theorem max0_le {l : List Nat} {n : Nat} (h : ∀ a ∈ l, a ≤ n) : max0 l ≤ n := by
  rcases max0_zero_or_mem l with h0 | hm
  · omega
  · exact h _ hm

/-! ### chains -/

/-- the link relation as a proposition: diagonal continuation by one, or a start at least `k` later in both -/
def Link (k : Nat) (a b : M) : Prop :=
  (b.1 = a.1 + 1 ∧ b.2 = a.2 + 1) ∨ (a.1 + k ≤ b.1 ∧ a.2 + k ≤ b.2)

theorem link_iff (k : Nat) (a b : M) : link k a b = true ↔ Link k a b := by
  simp only [link, nonov, cont, Link, Bool.or_eq_true, Bool.and_eq_true, decide_eq_true_eq, beq_iff_eq]
  constructor
  · rintro (h | h)
    · right; exact h
    · left; omega
  · rintro (h | h)
    · right; omega
    · left; exact h

/-- chain as a proposition -/
def Chain (k : Nat) : List M → Prop
  | [] => True
  | [_] => True
  | a :: b :: r => Link k a b ∧ Chain k (b :: r)

theorem chainB_iff (k : Nat) (c : List M) : chainB k c = true ↔ Chain k c := by
  induction c with
  | nil => simp [chainB, Chain]
  | cons a c ih =>
    cases c with
    | nil => simp [chainB, Chain]
    | cons b r => simp only [chainB, Chain, Bool.and_eq_true, link_iff, ih]

theorem Chain.tail {k : Nat} {a : M} {c : List M} (h : Chain k (a :: c)) : Chain k c := by
  cases c with
  | nil => trivial
  | cons b r => exact h.2

theorem link_x_lt {k : Nat} (hk : 0 < k) {a b : M} (h : Link k a b) : a.1 < b.1 := by
  rcases h with h | h <;> omega

/-- along a chain the first coordinate grows strictly (k ≥ 1) -/
theorem chain_x_lt {k : Nat} (hk : 0 < k) {a : M} {c : List M} (h : Chain k (a :: c)) :
    ∀ e ∈ c, a.1 < e.1 := by
  induction c generalizing a with
  | nil => intro e he; cases he
  | cons b r ih =>
    intro e he
    have hab := link_x_lt hk h.1
    rcases List.mem_cons.mp he with rfl | he
    · exact hab
    · have := ih h.2 e he; omega

/-- index-quantified form of chain validity -/
theorem chain_iff_adjacent (k : Nat) (c : List M) :
    Chain k c ↔ ∀ t, t + 1 < c.length → Link k (c.getD t (0, 0)) (c.getD (t + 1) (0, 0)) := by
  induction c with
  | nil => simp [Chain]
  | cons a c ih =>
    cases c with
    | nil => simp [Chain]
    | cons b r =>
      simp only [Chain, ih]
      constructor
      · rintro ⟨h1, h2⟩ t ht
        cases t with
        | zero => simpa using h1
        | succ t =>
          have := h2 t (by simp at ht ⊢; omega)
          simpa using this
      · intro h
        refine ⟨by simpa using h 0 (by simp), ?_⟩
        intro t ht
        have := h (t + 1) (by simp at ht ⊢; omega)
        simpa using this

/-! ### the table -/

theorem table_fst (k : Nat) (ms : List M) : (table k ms).map (·.1) = ms := by
  induction ms with
  | nil => rfl
  | cons m rest ih => simp [table, ih]

theorem exists_entry {k : Nat} {ms : List M} {b : M} (h : b ∈ ms) : ∃ v, (b, v) ∈ table k ms := by
  rw [← table_fst k ms] at h
  rcases List.mem_map.mp h with ⟨⟨b', v⟩, hm, rfl⟩
  exact ⟨v, hm⟩

theorem entry_mem {k : Nat} {ms : List M} {b : M} {v : Nat} (h : (b, v) ∈ table k ms) : b ∈ ms := by
  rw [← table_fst k ms]
  exact List.mem_map.mpr ⟨(b, v), h, rfl⟩

theorem k_le_cell (k : Nat) (T : List (M × Nat)) (m : M) : k ≤ cell k T m := by
  unfold cell; omega

theorem cell_ge_nonov {k : Nat} {T : List (M × Nat)} {m b : M} {v : Nat} (h : (b, v) ∈ T)
    (hn : nonov k m b = true) : k + v ≤ cell k T m := by
  unfold cell
  have : v ≤ max0 ((T.filter (fun e => nonov k m e.1)).map (·.2)) := by
    apply le_max0_of_mem
    exact List.mem_map.mpr ⟨(b, v), List.mem_filter.mpr ⟨h, hn⟩, rfl⟩
  omega

theorem cell_ge_cont {k : Nat} {T : List (M × Nat)} {m b : M} {v : Nat} (h : (b, v) ∈ T)
    (hn : cont m b = true) : v + 1 ≤ cell k T m := by
  unfold cell
  have : v + 1 ≤ max0 ((T.filter (fun e => cont m e.1)).map (fun e => e.2 + 1)) := by
    apply le_max0_of_mem
    exact List.mem_map.mpr ⟨(b, v), List.mem_filter.mpr ⟨h, hn⟩, rfl⟩
  omega

theorem step_add_le_cell {k : Nat} {T : List (M × Nat)} {m b : M} {v : Nat} (h : (b, v) ∈ T)
    (hl : Link k m b) : step k m b + v ≤ cell k T m := by
  unfold step
  by_cases hn : nonov k m b = true
  · simp only [hn, if_true]; exact cell_ge_nonov h hn
  · have hn' : nonov k m b = false := by simpa using hn
    simp only [hn', Bool.false_eq_true, if_false]
    have hc : cont m b = true := by
      have := (link_iff k m b).mpr hl
      simp only [link, Bool.or_eq_true] at this
      rcases this with h' | h'
      · exact absurd h' hn
      · exact h'
    have := cell_ge_cont (k := k) h hc
    omega

/-- upper bound: no chain that starts at `m` and stays inside `ms` scores more than the table entry of `m` -/
theorem table_upper {k : Nat} (hk : 0 < k) (ms : List M) (hs : ms.Pairwise (fun a b => a.1 ≤ b.1)) :
    ∀ m v, (m, v) ∈ table k ms → ∀ c, Chain k (m :: c) → (∀ e ∈ c, e ∈ ms) → score k (m :: c) ≤ v := by
  induction ms with
  | nil => intro m v h; cases h
  | cons m0 rest ih =>
    rw [List.pairwise_cons] at hs
    intro m v hmv c hc hsub
    simp only [table, List.mem_cons] at hmv
    have hx := chain_x_lt hk hc
    rcases hmv with heq | hT
    · -- the head entry
      have hm : m = m0 := congrArg Prod.fst heq
      have hv : v = cell k (table k rest) m0 := congrArg Prod.snd heq
      subst hm hv
      have hrest : ∀ e ∈ c, e ∈ rest := by
        intro e he
        rcases List.mem_cons.mp (hsub e he) with h | h
        · have := hx e he; rw [h] at this; omega
        · exact h
      cases c with
      | nil => simp only [score]; exact k_le_cell _ _ _
      | cons b r =>
        simp only [score]
        obtain ⟨vb, hvb⟩ := exists_entry (k := k) (hrest b (by simp))
        have h1 := ih hs.2 b vb hvb r hc.2 (fun e he => hrest e (by simp [he]))
        have h2 := step_add_le_cell hvb hc.1
        omega
    · -- an entry of the tail
      have hm : m ∈ rest := entry_mem hT
      have hrest : ∀ e ∈ c, e ∈ rest := by
        intro e he
        rcases List.mem_cons.mp (hsub e he) with h | h
        · have h1 := hx e he
          have h2 := hs.1 m hm
          rw [h] at h1; omega
        · exact h
      exact ih hs.2 m v hT c hc hrest

/-- attained: every table entry is the score of an actual chain inside `ms` starting at its match -/
theorem table_attained {k : Nat} (hk : 0 < k) (ms : List M) :
    ∀ m v, (m, v) ∈ table k ms →
      ∃ c, Chain k (m :: c) ∧ (∀ e ∈ m :: c, e ∈ ms) ∧ score k (m :: c) = v := by
  induction ms with
  | nil => intro m v h; cases h
  | cons m0 rest ih =>
    intro m v hmv
    simp only [table, List.mem_cons] at hmv
    rcases hmv with heq | hT
    · have hm : m = m0 := congrArg Prod.fst heq
      have hv : v = cell k (table k rest) m0 := congrArg Prod.snd heq
      subst hm
      -- which alternative realises the cell?
      let A := ((table k rest).filter (fun e => nonov k m e.1)).map (·.2)
      let B := ((table k rest).filter (fun e => cont m e.1)).map (fun e => e.2 + 1)
      have hcell : cell k (table k rest) m = max (k + max0 A) (max0 B) := rfl
      by_cases hAB : max0 B ≤ k + max0 A
      · rw [hcell, Nat.max_eq_left hAB] at hv
        rcases max0_zero_or_mem A with h0 | hmem
        · exact ⟨[], trivial, by simp, by simp [score, hv, h0]⟩
        · rcases List.mem_map.mp hmem with ⟨⟨b, vb⟩, hb, hbv⟩
          rcases List.mem_filter.mp hb with ⟨hbT, hbn⟩
          obtain ⟨c, hc, hsub, hsc⟩ := ih b vb hbT
          refine ⟨b :: c, ⟨(link_iff k m b).mp (by simp only [link, Bool.or_eq_true]; left; exact hbn), hc⟩, ?_, ?_⟩
          · intro e he
            rcases List.mem_cons.mp he with rfl | he
            · simp
            · exact List.mem_cons_of_mem _ (hsub e he)
          · simp only [score, step]
            have hbn' : nonov k m b = true := hbn
            simp only [hbn', if_true, hsc, hv]
            simp only at hbv
            omega
      · rw [hcell, Nat.max_eq_right (by omega)] at hv
        rcases max0_zero_or_mem B with h0 | hmem
        · omega
        · rcases List.mem_map.mp hmem with ⟨⟨b, vb⟩, hb, hbv⟩
          rcases List.mem_filter.mp hb with ⟨hbT, hbc⟩
          have hbc' : cont m b = true := hbc
          obtain ⟨c, hc, hsub, hsc⟩ := ih b vb hbT
          have hnot : nonov k m b = false := by
            apply Bool.eq_false_iff.mpr
            intro hn
            have hge : vb ≤ max0 A :=
              le_max0_of_mem (List.mem_map.mpr ⟨(b, vb), List.mem_filter.mpr ⟨hbT, hn⟩, rfl⟩)
            simp only at hbv
            omega
          refine ⟨b :: c, ⟨(link_iff k m b).mp (by simp only [link, Bool.or_eq_true]; right; exact hbc'), hc⟩, ?_, ?_⟩
          · intro e he
            rcases List.mem_cons.mp he with rfl | he
            · simp
            · exact List.mem_cons_of_mem _ (hsub e he)
          · simp only [score, step, hnot, Bool.false_eq_true, if_false, hsc, hv]
            simp only at hbv
            omega
    · obtain ⟨c, hc, hsub, hsc⟩ := ih m v hT
      exact ⟨c, hc, fun e he => List.mem_cons_of_mem _ (hsub e he), hsc⟩

end RbV.KChain
