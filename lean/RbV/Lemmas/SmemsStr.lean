import RbV.Lemmas.SmemsAbs
import RbV.Model.FMDSym
import RbV.Ref.Smem
/-!
# The occurrence counts of the substrings of a pattern satisfy the two laws the sweep needs (C06)

`cnt T pat b e` = number of occurrences of `pat[b..e)` in `T`.  `countLaws_cnt : CountLaws (cnt T pat) |pat|`, and
`AbsSmem (cnt T pat)` is the specification's `Smem T pat`; together with `smems_abs_correct` this gives
`smemsStr_correct`: the string-level model returns exactly `smemsRef T pat i l`.
-/
namespace RbV.SmemModel
open RbV RbV.FMDSym

theorem length_sub (pat : List Nat) (b len : Nat) (h : b + len ≤ pat.length) : (sub pat b len).length = len := by
  simp only [sub, List.length_take, List.length_drop]; omega

theorem getElem?_sub (pat : List Nat) (b len k : Nat) (hk : k < len) : (sub pat b len)[k]? = pat[b + k]? := by
  unfold sub
  rw [List.getElem?_take, if_pos hk, List.getElem?_drop]

/-- an occurrence of `pat[b..e)`, pointwise in pattern coordinates -/
theorem occ_sub_iff (T pat : List Nat) (b e p : Nat) (hbe : b ≤ e) (hem : e ≤ pat.length) :
    OccursAt (sub pat b (e - b)) T p ↔
      (p + (e - b) ≤ T.length ∧ ∀ k, b ≤ k → k < e → T[p + (k - b)]? = pat[k]?) := by
  rw [occursAt_iff_get, length_sub pat b (e - b) (by omega)]
  constructor
  · rintro ⟨h1, h2⟩
    refine ⟨h1, fun k hk1 hk2 => ?_⟩
    have := h2 (k - b) (by omega)
    rw [getElem?_sub pat b (e - b) (k - b) (by omega)] at this
    have e1 : b + (k - b) = k := by omega
    rw [e1] at this
    exact this
  · rintro ⟨h1, h2⟩
    refine ⟨h1, fun j hj => ?_⟩
    have := h2 (b + j) (by omega) (by omega)
    rw [getElem?_sub pat b (e - b) j hj]
    have e1 : b + j - b = j := by omega
    rw [e1] at this
    exact this

/-- an occurrence of a string gives an occurrence of each of its substrings -/
theorem occ_sub_mono (T pat : List Nat) (b' b e e' p : Nat) (h1 : b' ≤ b) (h2 : b ≤ e) (h3 : e ≤ e')
    (hem : e' ≤ pat.length) (h : OccursAt (sub pat b' (e' - b')) T p) :
    OccursAt (sub pat b (e - b)) T (p + (b - b')) := by
  rw [occ_sub_iff T pat b' e' p (by omega) hem] at h
  rw [occ_sub_iff T pat b e _ h2 (by omega)]
  refine ⟨by omega, fun k hk1 hk2 => ?_⟩
  have := h.2 k (by omega) (by omega)
  have e1 : p + (b - b') + (k - b) = p + (k - b') := by omega
  rw [e1]; exact this

/-- glue: `pat[b'..e)` at `p` and `pat[b..e')` at `p + (b - b')` give `pat[b'..e')` at `p` -/
theorem occ_sub_glue (T pat : List Nat) (b' b e e' p : Nat) (h1 : b' ≤ b) (h2 : b < e) (h3 : e ≤ e')
    (hem : e' ≤ pat.length) (hl : OccursAt (sub pat b' (e - b')) T p)
    (hr : OccursAt (sub pat b (e' - b)) T (p + (b - b'))) :
    OccursAt (sub pat b' (e' - b')) T p := by
  rw [occ_sub_iff T pat b' e p (by omega) (by omega)] at hl
  rw [occ_sub_iff T pat b e' _ (by omega) hem] at hr
  rw [occ_sub_iff T pat b' e' p (by omega) hem]
  refine ⟨by omega, fun k hk1 hk2 => ?_⟩
  by_cases hk : k < e
  · exact hl.2 k hk1 hk
  · have := hr.2 k (by omega) hk2
    have e1 : p + (b - b') + (k - b) = p + (k - b') := by omega
    rw [e1] at this; exact this

theorem occurrences_nodup' (W X : List Nat) : (occurrences W X).Nodup :=
  (occurrences_sorted W X).imp (fun h => Nat.ne_of_lt h)

/-- two duplicate-free lists, one inside the other and not shorter: the same members -/
theorem mem_of_subset_of_length {l1 l2 : List Nat} (h1 : l1.Nodup) (hsub : l1 ⊆ l2)
    (hlen : l2.length ≤ l1.length) : ∀ x ∈ l2, x ∈ l1 := by
  intro x hx
  apply Classical.byContradiction
  intro hnx
  have hsub' : l1 ⊆ l2.erase x := by
    intro y hy
    have hyx : y ≠ x := fun h => hnx (h ▸ hy)
    exact (List.mem_erase_of_ne hyx).2 (hsub hy)
  have := h1.length_le_of_subset hsub'
  rw [List.length_erase_of_mem hx] at this
  have : 0 < l2.length := List.length_pos_of_mem hx
  omega

theorem cnt_anti (T pat : List Nat) (b' b e e' : Nat) (h1 : b' ≤ b) (h2 : b < e) (h3 : e ≤ e')
    (hem : e' ≤ pat.length) : cnt T pat b' e' ≤ cnt T pat b e := by
  unfold cnt
  have hnd : ((occurrences (sub pat b' (e' - b')) T).map (· + (b - b'))).Nodup := by
    unfold List.Nodup
    rw [List.pairwise_map]
    exact (occurrences_sorted _ T).imp (fun h => by omega)
  have hsub : (occurrences (sub pat b' (e' - b')) T).map (· + (b - b')) ⊆ occurrences (sub pat b (e - b)) T := by
    intro q hq
    obtain ⟨p, hp, rfl⟩ := List.mem_map.mp hq
    rw [mem_occurrences] at hp ⊢
    exact occ_sub_mono T pat b' b e e' p h1 (by omega) h3 hem hp
  have := hnd.length_le_of_subset hsub
  rwa [List.length_map] at this

/-- equal counts of `pat[b..e)` and its extension `pat[b..e')`: every occurrence of the shorter continues -/
theorem cnt_eq_extends (T pat : List Nat) (b e e' : Nat) (h2 : b < e) (h3 : e ≤ e') (hem : e' ≤ pat.length)
    (heq : cnt T pat b e = cnt T pat b e') (p : Nat) (hp : OccursAt (sub pat b (e - b)) T p) :
    OccursAt (sub pat b (e' - b)) T p := by
  unfold cnt at heq
  have hsub : occurrences (sub pat b (e' - b)) T ⊆ occurrences (sub pat b (e - b)) T := by
    intro q hq
    rw [mem_occurrences] at hq ⊢
    have := occ_sub_mono T pat b b e e' q (Nat.le_refl _) (by omega) h3 hem hq
    simpa using this
  have := mem_of_subset_of_length (occurrences_nodup' _ T) hsub (by omega) p ((mem_occurrences _ _ _).mpr hp)
  exact (mem_occurrences _ _ _).mp this

theorem cnt_closed (T pat : List Nat) (b' b e e' : Nat) (h1 : b' ≤ b) (h2 : b < e) (h3 : e ≤ e')
    (hem : e' ≤ pat.length) (heq : cnt T pat b e = cnt T pat b e') : cnt T pat b' e = cnt T pat b' e' := by
  unfold cnt
  congr 1
  apply sorted_eq_of_mem_iff _ _ (occurrences_sorted _ T) (occurrences_sorted _ T)
  intro p
  rw [mem_occurrences, mem_occurrences]
  constructor
  · intro hp
    have hmid := occ_sub_mono T pat b' b e e p h1 (by omega) (Nat.le_refl _) (by omega) hp
    have hext := cnt_eq_extends T pat b e e' h2 h3 hem heq _ hmid
    exact occ_sub_glue T pat b' b e e' p h1 h2 h3 hem hp hext
  · intro hp
    have := occ_sub_mono T pat b' b' e e' p (Nat.le_refl _) (by omega) h3 hem hp
    simpa using this

theorem countLaws_cnt (T pat : List Nat) : CountLaws (cnt T pat) pat.length :=
  ⟨fun b' b e e' h1 h2 h3 h4 => cnt_anti T pat b' b e e' h1 h2 h3 h4,
   fun b' b e e' h1 h2 h3 h4 h5 => cnt_closed T pat b' b e e' h1 h2 h3 h4 h5⟩

/-- supermaximal in terms of the counts = the specification's `Smem` -/
theorem absSmem_iff_smem (T pat : List Nat) (b len : Nat) :
    AbsSmem (cnt T pat) pat.length b len ↔ Smem T pat b len := by
  unfold AbsSmem Smem cnt
  have e1 : b + len - b = len := by omega
  have e2 : b + len + 1 - b = len + 1 := by omega
  rw [e1, e2]
  constructor
  · rintro ⟨h1, h2, h3, h4, h5⟩
    refine ⟨h1, h2, (occurs_iff_length_pos _ _).mpr h3, ?_, ?_⟩
    · rcases h4 with h4 | h4
      · exact Or.inl h4
      · by_cases hb : b = 0
        · exact Or.inl hb
        · right
          have e3 : b + len - (b - 1) = len + 1 := by omega
          rw [e3] at h4
          rw [occurs_iff_length_pos]; simp [h4]
    · rcases h5 with h5 | h5
      · exact Or.inl h5
      · right; rw [occurs_iff_length_pos]; simp [h5]
  · rintro ⟨h1, h2, h3, h4, h5⟩
    refine ⟨h1, h2, (occurs_iff_length_pos _ _).mp h3, ?_, ?_⟩
    · rcases h4 with h4 | h4
      · exact Or.inl h4
      · by_cases hb : b = 0
        · exact Or.inl hb
        · right
          have e3 : b + len - (b - 1) = len + 1 := by omega
          rw [e3]
          rw [occurs_iff_length_pos] at h4
          omega
    · rcases h5 with h5 | h5
      · exact Or.inl h5
      · right; rw [occurs_iff_length_pos] at h5; omega

/-- **the string-level model of `smems(pattern, i, l)` returns exactly the supermaximal exact matches covering
`i` of length ≥ `l`** (`smemsRef`), as a set -/
theorem smemsStr_correct (T pat : List Nat) (i l : Nat) (hi : i < pat.length) (hl : 1 ≤ l) (b len : Nat) :
    (b, len) ∈ smemsStr T pat i l ↔ (b, len) ∈ smemsRef T pat i l := by
  rw [mem_smemsRef, ← absSmem_iff_smem]
  unfold smemsStr
  simp only [List.mem_map, Prod.mk.injEq]
  constructor
  · rintro ⟨x, hx, rfl, rfl⟩
    have := (smems_abs_correct (countLaws_cnt T pat) pat rfl hi l hl x).mp hx
    exact ⟨this.2.2.1, this.2.1, this.2.2.2.1, this.2.2.2.2⟩
  · rintro ⟨h1, h2, h3, h4⟩
    refine ⟨⟨(b, b + len), b, len⟩, ?_, rfl, rfl⟩
    exact (smems_abs_correct (countLaws_cnt T pat) pat rfl hi l hl _).mpr ⟨rfl, h2, h1, h3, h4⟩

end RbV.SmemModel
