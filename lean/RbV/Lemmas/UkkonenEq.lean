import RbV.Model.Ukkonen
/-!
`ukkonen_eq`: the mirror model of Ukkonen's cut-off algorithm reports exactly the Sellers hits (C09 [B]).
Core Lean only.
-/
namespace RbV.Model.Ukkonen
open RbV.EditDist

/-! ### Lipschitz properties of `fe` -/

theorem fe_cons_cons (w : Nat → Nat → Nat) (a b : Nat) (q u : List Nat) :
    fe w (a :: q) (b :: u) = min (w a b + fe w q u) (min (1 + fe w q (b :: u)) (1 + fe w (a :: q) u)) := by
  rw [fe]

theorem fe_cons_nil (w : Nat → Nat → Nat) (a : Nat) (q : List Nat) : fe w (a :: q) [] = 1 + fe w q [] := by
  rw [fe]

theorem fe_cons_text_le (w : Nat → Nat → Nat) (q u : List Nat) (b : Nat) : fe w q (b :: u) ≤ 1 + fe w q u := by
  cases q with
  | nil => simp [fe]
  | cons a q => rw [fe]; omega

theorem fe_cons_pat_le (w : Nat → Nat → Nat) (q u : List Nat) (a : Nat) : fe w (a :: q) u ≤ 1 + fe w q u := by
  cases u with
  | nil => rw [fe]; omega
  | cons b u => rw [fe]; omega

theorem fe_le_cons_text (w : Nat → Nat → Nat) : ∀ (q u : List Nat) (c : Nat), fe w q u ≤ 1 + fe w q (c :: u) := by
  intro q
  induction q with
  | nil => intro u c; simp [fe]
  | cons a q ih =>
    intro u c
    have h1 := fe_cons_pat_le w q u a
    have h2 := ih u c
    rw [fe_cons_cons]
    omega

theorem fe_le_cons_pat (w : Nat → Nat → Nat) (a : Nat) (q : List Nat) : ∀ (u : List Nat), fe w q u ≤ 1 + fe w (a :: q) u := by
  intro u
  induction u with
  | nil => rw [fe_cons_nil]; omega
  | cons b u ih =>
    have h1 := fe_cons_text_le w q u b
    rw [fe_cons_cons]
    omega

theorem fe_diag (w : Nat → Nat → Nat) (a c : Nat) (q u : List Nat) : fe w q u ≤ fe w (a :: q) (c :: u) := by
  have h1 := fe_le_cons_text w q u c
  have h2 := fe_le_cons_pat w a q u
  rw [fe_cons_cons]
  omega

/-! ### the true Sellers cell `D[j]` after the text prefix `u` -/

def cell (w : Nat → Nat → Nat) (p u : List Nat) (j : Nat) : Nat := fe w (p.take j).reverse u.reverse

theorem cell_zero (w : Nat → Nat → Nat) (p u : List Nat) : cell w p u 0 = 0 := by simp [cell, fe]

theorem cell_nil (w : Nat → Nat → Nat) (p : List Nat) (j : Nat) (h : j ≤ p.length) : cell w p [] j = j := by
  simp [cell, fe_nil_right]; omega

theorem cell_succ (w : Nat → Nat → Nat) (p u : List Nat) (c j : Nat) (hj : j < p.length) :
    cell w p (u ++ [c]) (j + 1) =
      min (w p[j] c + cell w p u j) (min (1 + cell w p (u ++ [c]) j) (1 + cell w p u (j + 1))) := by
  unfold cell
  rw [List.take_succ_eq_append_getElem hj]
  simp only [List.reverse_append, List.reverse_cons, List.reverse_nil, List.nil_append, List.singleton_append]
  rw [fe]

theorem cell_diag (w : Nat → Nat → Nat) (p u : List Nat) (c j : Nat) (hj : j < p.length) :
    cell w p u j ≤ cell w p (u ++ [c]) (j + 1) := by
  unfold cell
  rw [List.take_succ_eq_append_getElem hj]
  simp only [List.reverse_append, List.reverse_cons, List.reverse_nil, List.nil_append, List.singleton_append]
  exact fe_diag w _ _ _ _

theorem cell_horiz (w : Nat → Nat → Nat) (p u : List Nat) (c j : Nat) :
    cell w p (u ++ [c]) j ≤ 1 + cell w p u j := by
  unfold cell
  simp only [List.reverse_append, List.reverse_cons, List.reverse_nil, List.nil_append, List.singleton_append]
  exact fe_cons_text_le w _ _ _

theorem lastRow_cell (w : Nat → Nat → Nat) (p t : List Nat) (i : Nat) (h : i < t.length) :
    (lastRow w p t)[i]? = some (cell w p (t.take (i + 1)) p.length) := by
  rw [lastRow_fe w p t i h]; simp [cell]

/-! ### the inner loop, cell by cell -/

/-- cell `j` of a column (0 beyond its end) -/
def nth (l : List Nat) (j : Nat) : Nat := l[j]?.getD 0

@[simp] theorem nth_cons_zero (a : Nat) (l : List Nat) : nth (a :: l) 0 = a := by simp [nth]
@[simp] theorem nth_cons_succ (a : Nat) (l : List Nat) (j : Nat) : nth (a :: l) (j + 1) = nth l j := by simp [nth]

theorem fill_length (w : Nat → Nat → Nat) (c : Nat) : ∀ (n : Nat) (pat pt : List Nat) (diag left : Nat),
    n ≤ pat.length → n ≤ pt.length → (fill w c pat n pt diag left).length = n := by
  intro n
  induction n with
  | zero => intro pat pt diag left _ _; cases pat <;> cases pt <;> simp [fill]
  | succ n ih =>
    intro pat pt diag left h1 h2
    cases pat with
    | nil => simp at h1
    | cons a pat =>
      cases pt with
      | nil => simp at h2
      | cons x pt =>
        simp only [fill, List.length_cons]
        rw [ih pat pt _ _ (by simpa using h1) (by simpa using h2)]

theorem fill_nth (w : Nat → Nat → Nat) (c : Nat) : ∀ (n : Nat) (pat pt : List Nat) (diag left : Nat),
    n ≤ pat.length → n ≤ pt.length → ∀ i, i < n →
    nth (fill w c pat n pt diag left) i =
      min (min (nth pt i + 1) ((if i = 0 then left else nth (fill w c pat n pt diag left) (i - 1)) + 1))
        ((if i = 0 then diag else nth pt (i - 1)) + w (nth pat i) c) := by
  intro n
  induction n with
  | zero => intro pat pt diag left _ _ i hi; omega
  | succ n ih =>
    intro pat pt diag left h1 h2 i hi
    cases pat with
    | nil => simp at h1
    | cons a pat =>
      cases pt with
      | nil => simp at h2
      | cons x pt =>
        simp only [fill]
        cases i with
        | zero => simp
        | succ i =>
          have := ih pat pt x (min (min (x + 1) (left + 1)) (diag + w a c)) (by simpa using h1) (by simpa using h2) i (by omega)
          simp only [nth_cons_succ, this, Nat.add_sub_cancel, Nat.succ_ne_zero, if_false]
          cases i with
          | zero => simp
          | succ i => simp

/-! ### the new column -/

theorem nth_tail (l : List Nat) (j : Nat) : nth l.tail j = nth l (j + 1) := by
  cases l <;> simp [nth]

theorem newCol_length (w : Nat → Nat → Nat) (p : List Nat) (c : Nat) (s : St) (pre : Nat)
    (hp : s.prev.length = p.length + 1) (ho : s.old.length = p.length + 1) (hpre : pre ≤ p.length) :
    (newCol w p c s pre).length = p.length + 1 := by
  unfold newCol
  simp only [List.length_append, List.length_cons, List.length_drop]
  rw [fill_length w c pre p s.prev.tail _ _ hpre (by simp [hp]; omega)]
  omega

theorem newCol_zero (w : Nat → Nat → Nat) (p : List Nat) (c : Nat) (s : St) (pre : Nat) :
    nth (newCol w p c s pre) 0 = 0 := by
  simp [newCol, nth]

theorem newCol_low (w : Nat → Nat → Nat) (p : List Nat) (c : Nat) (s : St) (pre : Nat)
    (hp : s.prev.length = p.length + 1) (hpre : pre ≤ p.length) (j : Nat) (hj : j < pre) :
    nth (newCol w p c s pre) (j + 1) =
      min (min (nth s.prev (j + 1) + 1) (nth (newCol w p c s pre) j + 1)) (nth s.prev j + w (nth p j) c) := by
  have hlen := fill_length w c pre p s.prev.tail (s.prev.headD 0) 0 hpre (by simp [hp]; omega)
  have key : ∀ i, i < pre → nth (newCol w p c s pre) (i + 1) = nth (fill w c p pre s.prev.tail (s.prev.headD 0) 0) i := by
    intro i hi
    unfold newCol nth
    rw [List.getElem?_append_left (by rw [List.length_cons, hlen]; omega)]
    simp
  rw [key j hj, fill_nth w c pre p s.prev.tail _ _ hpre (by simp [hp]; omega) j hj]
  cases j with
  | zero =>
    have h0 : s.prev.headD 0 = nth s.prev 0 := by cases s.prev <;> simp [nth]
    rw [h0]
    simp [nth_tail, newCol_zero]
  | succ j =>
    simp only [Nat.succ_ne_zero, if_false, Nat.add_sub_cancel, nth_tail]
    rw [key j (by omega)]

theorem newCol_high (w : Nat → Nat → Nat) (p : List Nat) (c : Nat) (s : St) (pre : Nat)
    (hp : s.prev.length = p.length + 1) (hpre : pre ≤ p.length) (j : Nat) (hj : pre < j) :
    nth (newCol w p c s pre) j = nth s.old j := by
  have hlen := fill_length w c pre p s.prev.tail (s.prev.headD 0) 0 hpre (by simp [hp]; omega)
  unfold newCol nth
  rw [List.getElem?_append_right (by rw [List.length_cons, hlen]; omega)]
  simp only [List.length_cons, hlen, List.getElem?_drop]
  congr 2
  omega

/-! ### the cut-back loop -/

theorem cutBack_le (col : List Nat) (k : Nat) : ∀ l, cutBack col k l ≤ l := by
  intro l
  induction l with
  | zero => simp [cutBack]
  | succ l ih => simp only [cutBack]; split <;> omega

theorem cutBack_ok (col : List Nat) (k : Nat) : ∀ l, cutBack col k l = 0 ∨ nth col (cutBack col k l) ≤ k := by
  intro l
  induction l with
  | zero => simp [cutBack]
  | succ l ih =>
    simp only [cutBack]
    split
    · exact ih
    · rename_i h
      right
      simp only [nth, ← List.getD_eq_getElem?_getD]
      omega

theorem cutBack_above (col : List Nat) (k : Nat) : ∀ l j, cutBack col k l < j → j ≤ l → k < nth col j := by
  intro l
  induction l with
  | zero => intro j h1 h2; omega
  | succ l ih =>
    intro j h1 h2
    simp only [cutBack] at h1
    split at h1
    · rename_i h
      by_cases hj : j = l + 1
      · subst hj
        simp only [nth, ← List.getD_eq_getElem?_getD]
        exact h
      · exact ih j h1 (by omega)
    · omega

/-! ### the invariant -/

/-- state after the text prefix `u`: cells up to `lastk` are exact, the true values above `lastk` exceed `k`, and
whatever the buffers hold above `lastk` is at least `k` (so that `+ 1` exceeds `k`) -/
structure Inv (w : Nat → Nat → Nat) (p : List Nat) (k : Nat) (u : List Nat) (s : St) : Prop where
  lenP : s.prev.length = p.length + 1
  lenO : s.old.length = p.length + 1
  lk_le : s.lastk ≤ p.length
  exact : ∀ j, j ≤ s.lastk → nth s.prev j = cell w p u j
  lk_ok : cell w p u s.lastk ≤ k
  above : ∀ j, s.lastk < j → j ≤ p.length → k < cell w p u j
  stale : ∀ j, s.lastk < j → j ≤ p.length → k ≤ nth s.prev j
  stale2 : ∀ j, s.lastk + 1 < j → j ≤ p.length → k ≤ nth s.old j

theorem nth_range (n j : Nat) (h : j < n) : nth (List.range n) j = j := by
  simp [nth, h]

theorem nth_replicate (n v j : Nat) (h : j < n) : nth (List.replicate n v) j = v := by
  simp [nth, h]

theorem inv_init (w : Nat → Nat → Nat) (p : List Nat) (k : Nat) : Inv w p k [] (init p.length k) := by
  refine ⟨by simp [init], by simp [init], by simp [init]; omega, ?_, ?_, ?_, ?_, ?_⟩
  · intro j hj
    simp only [init] at hj ⊢
    rw [nth_range _ _ (by omega), cell_nil w p j (by omega)]
  · simp only [init]; rw [cell_nil w p _ (by omega)]; omega
  · intro j h1 h2
    simp only [init] at h1
    rw [cell_nil w p j h2]; omega
  · intro j h1 h2
    simp only [init] at h1 ⊢
    rw [nth_range _ _ (by omega)]; omega
  · intro j h1 h2
    simp only [init] at h1 ⊢
    rw [nth_replicate _ _ _ (by omega)]; omega

theorem nth_getElem (l : List Nat) (j : Nat) (h : j < l.length) : nth l j = l[j] := by
  simp [nth, h]

/-- exactness of the new cells up to the old `lastk`, and "exact or both beyond k" for the cell above -/
theorem newCol_exact (w : Nat → Nat → Nat) (p : List Nat) (k : Nat) (u : List Nat) (s : St) (c : Nat)
    (inv : Inv w p k u s) :
    (∀ j, j ≤ s.lastk → nth (newCol w p c s (min (s.lastk + 1) p.length)) j = cell w p (u ++ [c]) j) ∧
    (s.lastk + 1 ≤ p.length →
      ((nth (newCol w p c s (min (s.lastk + 1) p.length)) (s.lastk + 1) ≤ k ∨ cell w p (u ++ [c]) (s.lastk + 1) ≤ k) →
        nth (newCol w p c s (min (s.lastk + 1) p.length)) (s.lastk + 1) = cell w p (u ++ [c]) (s.lastk + 1))) := by
  have hA : ∀ j, j ≤ s.lastk → nth (newCol w p c s (min (s.lastk + 1) p.length)) j = cell w p (u ++ [c]) j := by
    intro j
    induction j with
    | zero => intro _; rw [newCol_zero, cell_zero]
    | succ j ih =>
      intro hj
      have hjm : j < p.length := by have := inv.lk_le; omega
      rw [newCol_low w p c s _ inv.lenP (by omega) j (by omega), ih (by omega),
        inv.exact (j + 1) hj, inv.exact j (by omega), cell_succ w p u c j hjm, nth_getElem p j hjm]
      omega
  refine ⟨hA, ?_⟩
  intro hlt hor
  have hjm : s.lastk < p.length := by omega
  have e1 := newCol_low w p c s (min (s.lastk + 1) p.length) inv.lenP (by omega) s.lastk (by omega)
  rw [hA s.lastk (Nat.le_refl _), inv.exact s.lastk (Nat.le_refl _), nth_getElem p _ hjm] at e1
  have e2 := cell_succ w p u c s.lastk hjm
  have h3 := inv.stale (s.lastk + 1) (by omega) (by omega)
  have h4 := inv.above (s.lastk + 1) (by omega) (by omega)
  rw [e1, e2] at hor ⊢
  omega

theorem inv_step (w : Nat → Nat → Nat) (p : List Nat) (k : Nat) (u : List Nat) (s : St) (c : Nat)
    (inv : Inv w p k u s) :
    Inv w p k (u ++ [c]) (step w p k s c).1 ∧
    (step w p k s c).2 =
      (if cell w p (u ++ [c]) p.length ≤ k then some (cell w p (u ++ [c]) p.length) else none) := by
  obtain ⟨hA, hB⟩ := newCol_exact w p k u s c inv
  have hpre : min (s.lastk + 1) p.length ≤ p.length := Nat.min_le_right _ _
  have hlk := inv.lk_le
  have hlen := newCol_length w p c s _ inv.lenP inv.lenO hpre
  have hle := cutBack_le (newCol w p c s (min (s.lastk + 1) p.length)) k (min (s.lastk + 1) p.length)
  have hok := cutBack_ok (newCol w p c s (min (s.lastk + 1) p.length)) k (min (s.lastk + 1) p.length)
  have hab := cutBack_above (newCol w p c s (min (s.lastk + 1) p.length)) k (min (s.lastk + 1) p.length)
  have hhigh := newCol_high w p c s (min (s.lastk + 1) p.length) inv.lenP hpre
  -- exactness up to the new lastk
  have hex : ∀ j, j ≤ cutBack (newCol w p c s (min (s.lastk + 1) p.length)) k (min (s.lastk + 1) p.length) →
      nth (newCol w p c s (min (s.lastk + 1) p.length)) j = cell w p (u ++ [c]) j := by
    intro j hj
    by_cases hjl : j ≤ s.lastk
    · exact hA j hjl
    · have hj1 : j = s.lastk + 1 := by omega
      have hjm : s.lastk + 1 ≤ p.length := by omega
      subst hj1
      apply hB hjm
      left
      rcases hok with h0 | h0
      · omega
      · have : cutBack (newCol w p c s (min (s.lastk + 1) p.length)) k (min (s.lastk + 1) p.length) = s.lastk + 1 := by omega
        rw [this] at h0; exact h0
  -- true values above the new lastk exceed k
  have habove : ∀ j, cutBack (newCol w p c s (min (s.lastk + 1) p.length)) k (min (s.lastk + 1) p.length) < j →
      j ≤ p.length → k < cell w p (u ++ [c]) j := by
    intro j h1 h2
    by_cases hjp : j ≤ min (s.lastk + 1) p.length
    · have hgt := hab j h1 hjp
      by_cases hjl : j ≤ s.lastk
      · rw [← hA j hjl]; exact hgt
      · have hj1 : j = s.lastk + 1 := by omega
        subst hj1
        apply Nat.lt_of_not_le
        intro hcon
        have := hB h2 (Or.inr hcon)
        omega
    · cases j with
      | zero => omega
      | succ j =>
        have := cell_diag w p u c j (by omega)
        have := inv.above j (by omega) (by omega)
        omega
  have hinv : Inv w p k (u ++ [c]) (step w p k s c).1 := by
    refine ⟨hlen, inv.lenP, by simp only [step]; omega, hex, ?_, habove, ?_, ?_⟩
    · simp only [step]
      rcases hok with h0 | h0
      · rw [h0, cell_zero]; omega
      · rw [← hex _ (Nat.le_refl _)]; exact h0
    · intro j h1 h2
      simp only [step] at h1 ⊢
      by_cases hjp : j ≤ min (s.lastk + 1) p.length
      · have := hab j h1 hjp; omega
      · rw [hhigh j (by omega)]
        exact inv.stale2 j (by omega) h2
    · intro j h1 h2
      simp only [step] at h1 ⊢
      by_cases hjl : j ≤ s.lastk
      · rw [inv.exact j hjl]
        have := habove j (by omega) h2
        have := cell_horiz w p u c j
        omega
      · exact inv.stale j (by omega) h2
  refine ⟨hinv, ?_⟩
  simp only [step]
  by_cases hrep : cell w p (u ++ [c]) p.length ≤ k
  · have hlkm : cutBack (newCol w p c s (min (s.lastk + 1) p.length)) k (min (s.lastk + 1) p.length) = p.length := by
      apply Nat.le_antisymm (by omega)
      apply Nat.le_of_not_lt
      intro hcon
      have := habove p.length hcon (Nat.le_refl _)
      omega
    have hv := hex p.length (by omega)
    unfold nth at hv
    simp [hlkm, hrep, hv]
  · have hlkm : cutBack (newCol w p c s (min (s.lastk + 1) p.length)) k (min (s.lastk + 1) p.length) ≠ p.length := by
      intro hcon
      have := hinv.lk_ok
      simp only [step, hcon] at this
      omega
    simp [hlkm, hrep]

/-! ### the whole run -/

/-- the hits still to come after the prefix `u`, by the true cell values -/
def expFrom (w : Nat → Nat → Nat) (p : List Nat) (k : Nat) : List Nat → List Nat → List (Nat × Nat)
  | _, [] => []
  | u, c :: t =>
    if cell w p (u ++ [c]) p.length ≤ k then
      (u.length, cell w p (u ++ [c]) p.length) :: expFrom w p k (u ++ [c]) t
    else expFrom w p k (u ++ [c]) t

theorem run_eq_expFrom (w : Nat → Nat → Nat) (p : List Nat) (k : Nat) :
    ∀ (t u : List Nat) (s : St), Inv w p k u s → run w p k s u.length t = expFrom w p k u t := by
  intro t
  induction t with
  | nil => intro u s _; simp [run, expFrom]
  | cons c t ih =>
    intro u s inv
    obtain ⟨inv', hrep⟩ := inv_step w p k u s c inv
    have ih' := ih (u ++ [c]) (step w p k s c).1 inv'
    simp only [List.length_append, List.length_cons, List.length_nil] at ih'
    simp only [run, expFrom]
    rcases hs : step w p k s c with ⟨s', r⟩
    rw [hs] at hrep ih'
    simp only at hrep ih'
    by_cases hk : cell w p (u ++ [c]) p.length ≤ k
    · simp only [hk, if_true] at hrep ⊢
      subst hrep
      simp only [ih']
    · simp only [hk, if_false] at hrep ⊢
      subst hrep
      simp only [ih']

theorem expFrom_eq_hitsFrom (w : Nat → Nat → Nat) (p : List Nat) (k : Nat) :
    ∀ (t u : List Nat), expFrom w p k u t = hitsFrom k u.length ((lastRow w p (u ++ t)).drop u.length) := by
  intro t
  induction t with
  | nil =>
    intro u
    have : (lastRow w p u).drop u.length = [] := by
      apply List.drop_eq_nil_of_le
      rw [lastRow_length]; simp
    simp [expFrom, this, hitsFrom]
  | cons c t ih =>
    intro u
    have hlt : u.length < (lastRow w p (u ++ c :: t)).length := by rw [lastRow_length]; simp
    have hget := lastRow_cell w p (u ++ c :: t) u.length (by simp)
    have htake : (u ++ c :: t).take (u.length + 1) = u ++ [c] := by
      have e : u ++ c :: t = (u ++ [c]) ++ t := by simp
      rw [e, List.take_left' (by simp)]
    rw [htake] at hget
    have hd : (lastRow w p (u ++ c :: t)).drop u.length =
        cell w p (u ++ [c]) p.length :: (lastRow w p (u ++ c :: t)).drop (u.length + 1) := by
      rw [List.drop_eq_getElem_cons hlt]
      congr 1
      have := List.getElem?_eq_getElem hlt
      rw [hget] at this
      injection this with this
      exact this.symm
    have ih' := ih (u ++ [c])
    simp only [List.length_append, List.length_cons, List.length_nil, List.append_assoc,
      List.singleton_append] at ih'
    simp only [expFrom, hd, hitsFrom, ih']

/-- **Ukkonen**: the mirror model of the cut-off algorithm reports exactly the pairs (end, d) with d ≤ k of the
Sellers column — for every cost function, non-empty pattern, text and k -/
theorem findAllEnd_eq_hits (w : Nat → Nat → Nat) (p t : List Nat) (k : Nat) :
    findAllEnd w p t k = hits w p t k := by
  unfold findAllEnd hits
  have := run_eq_expFrom w p k t [] (init p.length k) (inv_init w p k)
  simp only [List.length_nil] at this
  rw [this, expFrom_eq_hitsFrom]
  simp

end RbV.Model.Ukkonen
