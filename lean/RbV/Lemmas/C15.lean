import Mathlib.Analysis.SpecialFunctions.Log.Basic
/-!
# Real-number model of `src/stats/probs/mod.rs` (C15) — proof-side only, never imported by the driver

`LP = Option ℝ` : a log-space probability, `none` = `ln 0` (`f64::NEG_INFINITY`), `some x` = the finite value `x`.
`lin` is the linear-space image.  Every function takes the exponential `E` it uses as a parameter:
`E = Real.exp` gives the exact algorithm, `ApproxExp E δ` is the accuracy hypothesis on `fastexp`
(relative error `δ` on `(-∞, 0]`; measured, not proved — see meta/C15.json).
`ln_1p y` is `log (1 + y)`, `exp_m1 x` is `exp x - 1` (both exact in the Rust code: std library functions).
-/
namespace RbV.C15
open Real

abbrev LP := Option ℝ

/-- linear-space image of a log-space probability -/
noncomputable def lin : LP → ℝ
  | none => 0
  | some x => exp x

theorem lin_nonneg (a : LP) : 0 ≤ lin a := by
  cases a with
  | none => simp [lin]
  | some x => exact (exp_pos x).le

/-- accuracy hypothesis on the approximate exponential -/
def ApproxExp (E : ℝ → ℝ) (δ : ℝ) : Prop := ∀ x ≤ 0, |E x - exp x| ≤ δ * exp x

theorem approxExp_exp : ApproxExp exp 0 := by intro x _; simp

theorem ApproxExp.lower {E δ} (h : ApproxExp E δ) {x : ℝ} (hx : x ≤ 0) : (1 - δ) * exp x ≤ E x := by
  have := (abs_le.mp (h x hx)).1; nlinarith

theorem ApproxExp.upper {E δ} (h : ApproxExp E δ) {x : ℝ} (hx : x ≤ 0) : E x ≤ (1 + δ) * exp x := by
  have := (abs_le.mp (h x hx)).2; nlinarith

theorem ApproxExp.pos {E δ} (h : ApproxExp E δ) (hδ : δ < 1) {x : ℝ} (hx : x ≤ 0) : 0 < E x := by
  have := h.lower hx
  have : 0 < (1 - δ) * exp x := mul_pos (by linarith) (exp_pos x)
  linarith

theorem ApproxExp.delta_nonneg {E δ} (h : ApproxExp E δ) : 0 ≤ δ := by
  have := h 0 le_rfl
  simp only [exp_zero, mul_one] at this
  exact le_trans (abs_nonneg _) this

/-! ## `ln_add_exp` -/

/-- `LogProb::ln_add_exp`: `other == ln_zero → self`; otherwise order the operands, `p0 == ln_zero → ln_zero`,
else `p0 + ln_1p(E(p1 - p0))`  (`self = ln 0`, `other = b` finite: `p0 = b`, `p1 = -inf`, `E(-inf) = 0`, result `b`). -/
noncomputable def lnAddExp (E : ℝ → ℝ) : LP → LP → LP
  | a, none => a
  | none, some b => some b
  | some a, some b => some (max a b + log (1 + E (min a b - max a b)))

theorem exp_max_add_exp_min (a b : ℝ) : exp (max a b) + exp (min a b) = exp a + exp b := by
  rcases le_total a b with h | h
  · rw [max_eq_right h, min_eq_left h]; ring
  · rw [max_eq_left h, min_eq_right h]

theorem lin_lnAddExp_finite {E δ} (h : ApproxExp E δ) (hδ : δ < 1) (a b : ℝ) :
    lin (lnAddExp E (some a) (some b)) - (exp a + exp b)
      = exp (max a b) * (E (min a b - max a b) - exp (min a b - max a b)) := by
  have hd : min a b - max a b ≤ 0 := sub_nonpos.mpr (min_le_max)
  have hpos : 0 < 1 + E (min a b - max a b) := by have := h.pos hδ hd; linarith
  simp only [lnAddExp, lin]
  rw [exp_add, exp_log hpos, ← exp_max_add_exp_min a b]
  have : exp (min a b) = exp (max a b) * exp (min a b - max a b) := by rw [← exp_add]; ring_nf
  rw [this]; ring

theorem lnAddExp_error {E δ} (h : ApproxExp E δ) (hδ : δ < 1) (a b : LP) :
    |lin (lnAddExp E a b) - (lin a + lin b)| ≤ δ * min (lin a) (lin b) := by
  have hδ0 := h.delta_nonneg
  cases b with
  | none =>
    simp only [lnAddExp, lin, add_zero, sub_self, abs_zero]
    exact mul_nonneg hδ0 (le_min (lin_nonneg a) le_rfl)
  | some b =>
    cases a with
    | none =>
      simp only [lnAddExp, lin, zero_add, sub_self, abs_zero]
      exact mul_nonneg hδ0 (le_min le_rfl (exp_pos b).le)
    | some a =>
      have hd : min a b - max a b ≤ 0 := sub_nonpos.mpr (min_le_max)
      show |lin (lnAddExp E (some a) (some b)) - (exp a + exp b)| ≤ δ * min (exp a) (exp b)
      rw [lin_lnAddExp_finite h hδ, abs_mul, abs_of_pos (exp_pos _)]
      have h1 := h _ hd
      have hmin : min (exp a) (exp b) = exp (max a b) * exp (min a b - max a b) := by
        rw [← exp_add]
        rcases le_total a b with hab | hab
        · rw [min_eq_left (exp_le_exp.mpr hab), max_eq_right hab, min_eq_left hab]; ring_nf
        · rw [min_eq_right (exp_le_exp.mpr hab), max_eq_left hab, min_eq_right hab]; ring_nf
      rw [hmin]
      calc exp (max a b) * |E (min a b - max a b) - exp (min a b - max a b)|
          ≤ exp (max a b) * (δ * exp (min a b - max a b)) := mul_le_mul_of_nonneg_left h1 (exp_pos _).le
        _ = δ * (exp (max a b) * exp (min a b - max a b)) := by ring

theorem lnAddExp_exact (a b : LP) : lin (lnAddExp exp a b) = lin a + lin b := by
  have := lnAddExp_error approxExp_exp (by norm_num) a b
  simp only [zero_mul, abs_nonpos_iff, sub_eq_zero] at this
  exact this

end RbV.C15
