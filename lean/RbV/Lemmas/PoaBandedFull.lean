import RbV.Model.PoaBanded
import RbV.Lemmas.PoaHistory
import RbV.Lemmas.PoaBound
/-!
# `global_banded` with a band that covers the whole table computes the table of `global`

Model-level proof of the banded clause: for a DAG with `m` nodes, a query of length `n`, bandwidth
`≥ max(m, n)`, default (`MIN_SCORE`) clip penalties, `gap ≤ 0` and no score reaching down to `MIN_SCORE`
(`MIN_SCORE < (m + n + 1)·gap`), every row of `bandedRows` starts at column 0, covers all `n + 1` columns and
holds exactly the cells (scores *and* operations) of `dpRows`; hence the same reported score.
-/
namespace RbV.Poa.Model
open RbV.NW RbV.Poa

theorem list_ext_getD {l1 l2 : List Cell} (d : Cell) (hl : l1.length = l2.length)
    (h : ∀ j, j < l1.length → l1.getD j d = l2.getD j d) : l1 = l2 := by
  apply List.ext_getElem hl
  intro j h1 h2
  have := h j h1
  simpa [List.getD_eq_getElem?_getD, List.getElem?_eq_getElem h1, List.getElem?_eq_getElem h2] using this

theorem cmax_score_ge_right (a b : Cell) : b.score ≤ (cmax a b).score := by
  unfold cmax; split <;> omega

theorem cmax_left_low (a b : Cell) (h : ¬ a.score > b.score) : cmax a b = b := by
  unfold cmax; simp [h]

theorem cmax_right_low (a b : Cell) (h : a.score > b.score) : cmax a b = a := by
  unfold cmax; simp [h]

/-! ## lengths and entries of the row functions of the global model -/

theorem length_predCands (sc : Sc) (r : Nat) (mOp dOp : POp) : ∀ (ups : List Cell) (d : Cell) (q : List Nat),
    (predCands sc r mOp dOp d ups q).length = min ups.length q.length := by
  intro ups
  induction ups with
  | nil => intro d q; simp [predCands]
  | cons u ups ih =>
    intro d q
    cases q with
    | nil => simp [predCands]
    | cons b q => simp only [predCands, List.length_cons, ih]; omega

theorem getD_predCands (sc : Sc) (r : Nat) (mOp dOp : POp) (dflt : Cell) : ∀ (ups : List Cell) (d : Cell) (q : List Nat) (j : Nat),
    j < ups.length → j < q.length →
    (predCands sc r mOp dOp d ups q).getD j dflt =
      cmax ⟨((d :: ups).getD j dflt).score + sc.w r (q.getD j 0), mOp⟩ ⟨((d :: ups).getD (j + 1) dflt).score + sc.gap, dOp⟩ := by
  intro ups
  induction ups with
  | nil => intro d q j h; simp at h
  | cons u ups ih =>
    intro d q j h1 h2
    cases q with
    | nil => simp at h2
    | cons b q =>
      cases j with
      | zero => simp [predCands]
      | succ j =>
        simp only [predCands, List.getD_cons_succ]
        simp only [List.length_cons] at h1 h2
        rw [ih u q j (by omega) (by omega)]
        simp

theorem length_firstCands (sc : Sc) (r : Nat) : ∀ (r0 : List Cell) (q : List Nat),
    (firstCands sc r r0 q).length = min r0.length q.length := by
  intro r0
  induction r0 with
  | nil => intro q; simp [firstCands]
  | cons d r0 ih =>
    intro q
    cases q with
    | nil => simp [firstCands]
    | cons b q => simp only [firstCands, List.length_cons, ih]; omega

theorem getD_firstCands (sc : Sc) (r : Nat) (dflt : Cell) : ∀ (r0 : List Cell) (q : List Nat) (j : Nat),
    j < r0.length → j < q.length →
    (firstCands sc r r0 q).getD j dflt = ⟨(r0.getD j dflt).score + sc.w r (q.getD j 0), .m none⟩ := by
  intro r0
  induction r0 with
  | nil => intro q j h; simp at h
  | cons d r0 ih =>
    intro q j h1 h2
    cases q with
    | nil => simp at h2
    | cons b q =>
      cases j with
      | zero => simp [firstCands]
      | succ j =>
        simp only [firstCands, List.getD_cons_succ]
        simp only [List.length_cons] at h1 h2
        exact ih q j (by omega) (by omega)

theorem length_zipMax : ∀ (as bs : List Cell), (zipMax as bs).length = min as.length bs.length := by
  intro as
  induction as with
  | nil => intro bs; simp [zipMax]
  | cons a as ih =>
    intro bs
    cases bs with
    | nil => simp [zipMax]
    | cons b bs => simp only [zipMax, List.length_cons, ih]; omega

theorem getD_zipMax (dflt : Cell) : ∀ (as bs : List Cell) (j : Nat), j < as.length → j < bs.length →
    (zipMax as bs).getD j dflt = cmax (as.getD j dflt) (bs.getD j dflt) := by
  intro as
  induction as with
  | nil => intro bs j h; simp at h
  | cons a as ih =>
    intro bs j h1 h2
    cases bs with
    | nil => simp at h2
    | cons b bs =>
      cases j with
      | zero => simp [zipMax]
      | succ j =>
        simp only [zipMax, List.getD_cons_succ]
        simp only [List.length_cons] at h1 h2
        exact ih bs j (by omega) (by omega)

theorem length_insScan (gap : Int) (iOp : POp) : ∀ (cs : List Cell) (left : Cell), (insScan gap iOp left cs).length = cs.length := by
  intro cs
  induction cs with
  | nil => intro left; simp [insScan]
  | cons c cs ih => intro left; simp [insScan, ih]

theorem insScan_low (gap : Int) (iOp : POp) (dflt : Cell) : ∀ (cs : List Cell) (left : Cell) (j : Nat), j < cs.length →
    left.score + ((j : Int) + 1) * gap ≤ ((insScan gap iOp left cs).getD j dflt).score := by
  intro cs
  induction cs with
  | nil => intro left j h; simp at h
  | cons c cs ih =>
    intro left j h
    cases j with
    | zero =>
      simp only [insScan, List.getD_cons_zero]
      have := cmax_score_ge_right c ⟨left.score + gap, iOp⟩
      simp only at this ⊢
      omega
    | succ j =>
      simp only [insScan, List.getD_cons_succ]
      simp only [List.length_cons] at h
      have h1 := ih (cmax c ⟨left.score + gap, iOp⟩) j (by omega)
      have h2 := cmax_score_ge_right c ⟨left.score + gap, iOp⟩
      simp only at h2
      have e : ((j + 1 : Nat) : Int) + 1 = ((j : Int) + 1) + 1 := by omega
      rw [e, Int.add_mul]
      omega

theorem foldl_zipMax_spec (n : Nat) (dflt : Cell) (one : Nat × List Cell → List Cell) :
    ∀ (rest : List (Nat × List Cell)) (init : List Cell), init.length = n → (∀ pp ∈ rest, (one pp).length = n) →
      (rest.foldl (fun acc pp => zipMax acc (one pp)) init).length = n ∧
      ∀ j, j < n → (rest.foldl (fun acc pp => zipMax acc (one pp)) init).getD j dflt =
        rest.foldl (fun acc pp => cmax acc ((one pp).getD j dflt)) (init.getD j dflt) := by
  intro rest
  induction rest with
  | nil => intro init h _; exact ⟨h, fun j _ => rfl⟩
  | cons pp rest ih =>
    intro init h1 h2
    simp only [List.foldl_cons]
    have hl : (zipMax init (one pp)).length = n := by
      rw [length_zipMax, h1, h2 pp (by simp)]; omega
    obtain ⟨r1, r2⟩ := ih (zipMax init (one pp)) hl (fun q hq => h2 q (List.mem_cons_of_mem _ hq))
    refine ⟨r1, ?_⟩
    intro j hj
    rw [r2 j hj, getD_zipMax dflt init (one pp) j (by omega) (by rw [h2 pp (by simp)]; exact hj)]

theorem oneCand_spec (sc : Sc) (query : List Nat) (v r p : Nat) (pr : List Cell) (dflt : Cell)
    (hl : pr.length = query.length + 1) :
    (oneCand sc query v r p pr).length = query.length ∧
    ∀ j, j < query.length → (oneCand sc query v r p pr).getD j dflt =
      cmax ⟨(pr.getD j dflt).score + sc.w r (query.getD j 0), .m (some (p, v))⟩
           ⟨(pr.getD (j + 1) dflt).score + sc.gap, .d (some (p, v + 1))⟩ := by
  cases pr with
  | nil => simp at hl
  | cons d ups =>
    simp only [List.length_cons] at hl
    refine ⟨by simp only [oneCand, length_predCands]; omega, ?_⟩
    intro j hj
    simp only [oneCand]
    exact getD_predCands sc r _ _ dflt ups d query j (by omega) hj

/-- the rows of the banded table that coincide with a full row `L` of the global table -/
structure Rep (n : Nat) (b : BRow) (L : List Cell) : Prop where
  start : b.start = 0
  stop : n + 1 ≤ b.stop
  cells : b.cells = L
  len : L.length = n + 1

theorem Rep.get {n : Nat} {b : BRow} {L : List Cell} (h : Rep n b L) (j : Nat) (hj : j ≤ n) :
    b.get j = L.getD j mcell := by
  have hne : L ≠ [] := by
    intro e
    have := h.len
    rw [e] at this
    simp at this
  have h2 : j < b.stop := by have := h.stop; omega
  simp [BRow.get, h.start, h2, h.cells, hne]

/-- column `j + 1` of the global candidates -/
def pcG (sc : Sc) (query : List Nat) (v r : Nat) (Lp : Nat → List Cell) (j p : Nat) : Cell :=
  cmax ⟨((Lp p).getD j mcell).score + sc.w r (query.getD j 0), .m (some (p, v))⟩
       ⟨((Lp p).getD (j + 1) mcell).score + sc.gap, .d (some (p, v + 1))⟩

/-- column `j + 1` of the candidates of the row of `v`, predecessors `ps` with rows `Lp` -/
def gCol (sc : Sc) (query : List Nat) (r0 : List Cell) (v r : Nat) (Lp : Nat → List Cell) (j : Nat) (ps : List Nat) : Cell :=
  match ps with
  | [] => ⟨(r0.getD j mcell).score + sc.w r (query.getD j 0), .m none⟩
  | p :: rest => rest.foldl (fun acc p' => cmax acc (pcG sc query v r Lp j p')) (pcG sc query v r Lp j p)

theorem nodeCands_spec (sc : Sc) (query : List Nat) (r0 : List Cell) (v r : Nat) (ps : List Nat) (Lp : Nat → List Cell)
    (h0 : r0.length = query.length + 1) (hp : ∀ p ∈ ps, (Lp p).length = query.length + 1) :
    (nodeCands sc query r0 v r (ps.map fun p => (p, Lp p))).length = query.length ∧
    ∀ j, j < query.length → (nodeCands sc query r0 v r (ps.map fun p => (p, Lp p))).getD j mcell =
      gCol sc query r0 v r Lp j ps := by
  cases ps with
  | nil =>
    simp only [List.map_nil, nodeCands, gCol]
    refine ⟨by rw [length_firstCands]; omega, ?_⟩
    intro j hj
    exact getD_firstCands sc r mcell r0 query j (by omega) hj
  | cons p rest =>
    simp only [List.map_cons, nodeCands, gCol]
    have h1 := oneCand_spec sc query v r p (Lp p) mcell (hp p (by simp))
    obtain ⟨r1, r2⟩ := foldl_zipMax_spec query.length mcell (fun pp => oneCand sc query v r pp.1 pp.2)
      (rest.map fun p => (p, Lp p)) (oneCand sc query v r p (Lp p)) h1.1 (by
        intro pp hpp
        simp only [List.mem_map] at hpp
        obtain ⟨p', hp', rfl⟩ := hpp
        exact (oneCand_spec sc query v r p' (Lp p') mcell (hp p' (List.mem_cons_of_mem _ hp'))).1)
    refine ⟨r1, ?_⟩
    intro j hj
    rw [r2 j hj, h1.2 j hj, List.foldl_map]
    -- the two folds agree on the members of `rest`
    have key : ∀ (l : List Nat) (a : Cell), (∀ p' ∈ l, p' ∈ rest) →
        l.foldl (fun acc p' => cmax acc ((oneCand sc query v r p' (Lp p')).getD j mcell)) a =
        l.foldl (fun acc p' => cmax acc (pcG sc query v r Lp j p')) a := by
      intro l
      induction l with
      | nil => intro a _; rfl
      | cons x l ih =>
        intro a hm
        simp only [List.foldl_cons]
        rw [(oneCand_spec sc query v r x (Lp x) mcell (hp x (List.mem_cons_of_mem _ (hm x (by simp))))).2 j hj]
        exact ih _ (fun y hy => hm y (List.mem_cons_of_mem _ hy))
    exact key rest _ (fun _ h => h)

theorem bpc_eq (sc : Sc) (query : List Nat) (v r : Nat) (Lp : Nat → List Cell) (Bp : Nat → BRow) (j p : Nat)
    (hj : j < query.length) (hp : Rep query.length (Bp p) (Lp p)) :
    cmax ⟨((Bp p).get (j + 1 - 1)).score + sc.w r (query.getD (j + 1 - 1) 0), .m (some (p, v))⟩
         ⟨((Bp p).get (j + 1)).score + sc.gap, .d (some (p, v + 1))⟩ = pcG sc query v r Lp j p := by
  simp only [Nat.add_sub_cancel, pcG]
  rw [hp.get j (by omega), hp.get (j + 1) (by omega)]

theorem bCand_eq (sc : Sc) (query : List Nat) (r0 : List Cell) (r0b : BRow) (v r : Nat) (ps : List Nat)
    (Lp : Nat → List Cell) (Bp : Nat → BRow) (j : Nat) (hj : j < query.length)
    (h0 : Rep query.length r0b r0) (hp : ∀ p ∈ ps, Rep query.length (Bp p) (Lp p))
    (hlow : ∀ p ∈ ps, minScore ≤ ((Lp p).getD (j + 1) mcell).score + sc.gap) :
    bCand sc query r0b v r (ps.map fun p => (p, Bp p)) (j + 1) =
      gCol sc query r0 v r Lp j ps := by
  cases ps with
  | nil =>
    simp only [List.map_nil, bCand, Nat.add_sub_cancel, gCol]
    rw [h0.get j (by omega)]
  | cons p rest =>
    simp only [List.map_cons, bCand, List.foldl_cons, gCol]
    rw [bpc_eq sc query v r Lp Bp j p hj (hp p (by simp))]
    have hfirst : cmax mcell (pcG sc query v r Lp j p) = pcG sc query v r Lp j p := by
      apply cmax_left_low
      have h1 := cmax_score_ge_right
        (⟨((Lp p).getD j mcell).score + sc.w r (query.getD j 0), .m (some (p, v))⟩ : Cell)
        ⟨((Lp p).getD (j + 1) mcell).score + sc.gap, .d (some (p, v + 1))⟩
      have h2 := hlow p (by simp)
      simp only [pcG, mcell] at h1 h2 ⊢
      omega
    rw [hfirst, List.foldl_map]
    have key : ∀ (l : List Nat) (a : Cell), (∀ p' ∈ l, p' ∈ rest) →
        l.foldl (fun acc p' => cmax acc (cmax
          ⟨((Bp p').get (j + 1 - 1)).score + sc.w r (query.getD (j + 1 - 1) 0), .m (some (p', v))⟩
          ⟨((Bp p').get (j + 1)).score + sc.gap, .d (some (p', v + 1))⟩)) a =
        l.foldl (fun acc p' => cmax acc (pcG sc query v r Lp j p')) a := by
      intro l
      induction l with
      | nil => intro a _; rfl
      | cons x l ih =>
        intro a hm
        simp only [List.foldl_cons]
        rw [bpc_eq sc query v r Lp Bp j x hj (hp x (List.mem_cons_of_mem _ (hm x (by simp))))]
        exact ih _ (fun y hy => hm y (List.mem_cons_of_mem _ hy))
    exact key rest _ (fun _ h => h)

/-- a full-band row of the banded table equals the row of the global table -/
theorem bNodeRow_cells (sc : Sc) (query : List Nat) (r0 : List Cell) (r0b : BRow) (v r : Nat) (ps : List Nat)
    (Lp : Nat → List Cell) (Bp : Nat → BRow) (end_ : Nat) (hend : query.length ≤ end_)
    (h0 : Rep query.length r0b r0) (hp : ∀ p ∈ ps, Rep query.length (Bp p) (Lp p))
    (hlow : ∀ p ∈ ps, ∀ j, j ≤ query.length → minScore ≤ ((Lp p).getD j mcell).score + sc.gap)
    (hc0 : minScore < ((v : Int) + 1) * sc.gap) :
    (bNodeRow sc minScore query r0b v r (ps.map fun p => (p, Bp p)) 0 end_).cells =
      nodeRow sc query r0 v r (ps.map fun p => (p, Lp p)) := by
  rw [nodeRow_eq]
  simp only [bNodeRow, if_true, Nat.sub_zero, Nat.zero_add]
  have hc : cmax (⟨((v : Int) + 1) * sc.gap, .d none⟩ : Cell) ⟨minScore, .x 0⟩ = col0 sc.gap v := by
    rw [cmax_right_low _ _ (by simpa using hc0)]; rfl
  rw [hc, Nat.min_eq_left hend]
  congr 2
  obtain ⟨g1, g2⟩ := nodeCands_spec sc query r0 v r ps Lp h0.len (fun p h => (hp p h).len)
  apply list_ext_getD mcell
  · rw [g1]; simp
  · intro j hj
    simp only [List.length_map, List.length_range'] at hj
    rw [g2 j hj]
    have : ((List.range' 1 query.length).map (bCand sc query r0b v r (ps.map fun p => (p, Bp p)))).getD j mcell =
        bCand sc query r0b v r (ps.map fun p => (p, Bp p)) (j + 1) := by
      simp [List.getD_eq_getElem?_getD, hj, Nat.add_comm]
    rw [this]
    exact bCand_eq sc query r0 r0b v r ps Lp Bp j hj h0 hp (fun p h => hlow p h (j + 1) (by omega))

/-! ## magnitudes: nothing reaches down to `MIN_SCORE` -/

theorem low_of (gap : Int) (hg : gap ≤ 0) (k K : Nat) (hk : k ≤ K) (h : minScore < (K : Int) * gap) :
    minScore < (k : Int) * gap := by
  have : (K : Int) * gap ≤ (k : Int) * gap := Int.mul_le_mul_of_nonpos_right (by omega) hg
  omega

theorem row0From_eq (gap : Int) : ∀ (n k : Nat), (∀ j, k + 1 ≤ j → j ≤ k + n → minScore < (j : Int) * gap) →
    (List.range' (k + 1) n).map (fun (j : Nat) => cmax (⟨(j : Int) * gap, .i none⟩ : Cell) ⟨minScore, .y 0 j⟩) =
      row0From gap k n := by
  intro n
  induction n with
  | zero => intro k _; rfl
  | succ n ih =>
    intro k h
    simp only [List.range'_succ, List.map_cons, row0From]
    rw [cmax_right_low _ _ (by simpa using h (k + 1) (by omega) (by omega))]
    congr 1
    exact ih (k + 1) (fun j h1 h2 => h j (by omega) (by omega))

theorem length_row0From (gap : Int) : ∀ (n k : Nat), (row0From gap k n).length = n := by
  intro n
  induction n with
  | zero => intro k; rfl
  | succ n ih => intro k; simp [row0From, ih]

theorem bRow0_rep (gap : Int) (n : Nat) (h : ∀ j, 1 ≤ j → j ≤ n → minScore < (j : Int) * gap) :
    Rep n (bRow0 gap minScore n) (row0 gap n) := by
  refine ⟨rfl, Nat.le_refl _, ?_, by simp [row0, length_row0From]⟩
  simp only [bRow0, row0]
  congr 1
  exact row0From_eq gap n 0 (fun j h1 h2 => h j (by omega) (by omega))

theorem nodeRow_length (sc : Sc) (query : List Nat) (r0 : List Cell) (v r : Nat) (ps : List Nat) (Lp : Nat → List Cell)
    (h0 : r0.length = query.length + 1) (hp : ∀ p ∈ ps, (Lp p).length = query.length + 1) :
    (nodeRow sc query r0 v r (ps.map fun p => (p, Lp p))).length = query.length + 1 := by
  rw [nodeRow_eq]
  simp [length_insScan, (nodeCands_spec sc query r0 v r ps Lp h0 hp).1]

theorem nodeRow_low (sc : Sc) (query : List Nat) (r0 : List Cell) (v r : Nat) (preds : List (Nat × List Cell))
    (j : Nat) (hj : j < (nodeRow sc query r0 v r preds).length) :
    ((v : Int) + 1 + j) * sc.gap ≤ ((nodeRow sc query r0 v r preds).getD j mcell).score := by
  rw [nodeRow_eq] at hj ⊢
  cases j with
  | zero => simp [col0]
  | succ j =>
    simp only [List.length_cons, length_insScan] at hj
    simp only [List.getD_cons_succ]
    have := insScan_low sc.gap (.i (some v)) mcell (nodeCands sc query r0 v r preds) (col0 sc.gap v) j (by omega)
    simp only [col0] at this ⊢
    have e : ((v : Int) + 1 + ((j + 1 : Nat) : Int)) * sc.gap = ((v : Int) + 1) * sc.gap + ((j : Int) + 1) * sc.gap := by
      rw [← Int.add_mul]; congr 1
    rw [e]
    exact this

theorem bUpdate_le (B : Nat) : ∀ (cells : List Cell) (j0 : Nat) (st : Nat × Int), st.1 ≤ B → j0 + cells.length ≤ B + 1 →
    (bUpdate cells j0 st).1 ≤ B := by
  intro cells
  induction cells with
  | nil => intro j0 st h _; simpa [bUpdate] using h
  | cons c cells ih =>
    intro j0 st h1 h2
    simp only [bUpdate, List.zipIdx_cons, List.foldl_cons]
    simp only [List.length_cons] at h2
    apply ih (j0 + 1)
    · split
      · simp; omega
      · exact h1
    · omega

/-! ## the two folds side by side -/

/-- every node of `order` has its predecessors among `done` and the nodes listed before it -/
def FwdClosed (es : WEdges) : List Nat → List Nat → Prop
  | _, [] => True
  | done, v :: rest => (∀ p ∈ inN es v, p ∈ done) ∧ FwdClosed es (v :: done) rest

theorem fwdClosed_append (es : WEdges) : ∀ (l1 l2 done : List Nat),
    FwdClosed es done l1 → FwdClosed es (l1.reverse ++ done) l2 → FwdClosed es done (l1 ++ l2) := by
  intro l1
  induction l1 with
  | nil => intro l2 done _ h; simpa using h
  | cons x l1 ih =>
    intro l2 done h1 h2
    refine ⟨h1.1, ih l2 (x :: done) h1.2 ?_⟩
    simpa using h2

theorem fwdClosed_mono (es : WEdges) : ∀ (l d1 d2 : List Nat), (∀ x ∈ d1, x ∈ d2) → FwdClosed es d1 l → FwdClosed es d2 l := by
  intro l
  induction l with
  | nil => intro _ _ _ _; trivial
  | cons v l ih =>
    intro d1 d2 hs h
    refine ⟨fun p hp => hs p (h.1 p hp), ih (v :: d1) (v :: d2) ?_ h.2⟩
    intro x hx
    rcases List.mem_cons.mp hx with h | h
    · subst h; simp
    · exact List.mem_cons_of_mem _ (hs x h)

theorem fwdClosed_of_predClosed (es : WEdges) : ∀ (vis : List Nat), PredClosed es vis → FwdClosed es [] vis.reverse := by
  intro vis
  induction vis with
  | nil => intro _; trivial
  | cons a r ih =>
    intro h
    simp only [List.reverse_cons]
    apply fwdClosed_append es r.reverse [a] [] (ih h.2)
    refine ⟨?_, trivial⟩
    intro p hp
    simpa using h.1 p hp

structure BInv (sc : Sc) (m n : Nat) (done : List Nat) (rowsG : Array (List Cell)) (st : BState) : Prop where
  sizeG : rowsG.size = m
  sizeB : st.rows.size = m
  msj : st.msj ≤ n
  rep : ∀ u ∈ done, Rep n (st.rows.getD u (emptyRow n)) (rowsG.getD u [])
  low : ∀ u ∈ done, ∀ j, j ≤ n → ((u : Int) + 1 + j) * sc.gap ≤ ((rowsG.getD u []).getD j mcell).score

theorem banded_fold (sc : Sc) (labels : List Nat) (es : WEdges) (query : List Nat) (bw : Nat)
    (hbw : query.length ≤ bw) (hg : sc.gap ≤ 0)
    (hmin : minScore < ((labels.length + query.length + 1 : Nat) : Int) * sc.gap) :
    ∀ (order done : List Nat) (rowsG : Array (List Cell)) (st : BState),
      FwdClosed es done order → (∀ v ∈ order, v < labels.length) → (∀ v ∈ done, v < labels.length) →
      BInv sc labels.length query.length done rowsG st →
      BInv sc labels.length query.length (order.reverse ++ done)
        (order.foldl (fun (rows : Array (List Cell)) v =>
          rows.setIfInBounds v (nodeRow sc query (row0 sc.gap query.length) v (labels.getD v 0)
            ((inN es v).map fun p => (p, rows.getD p [])))) rowsG)
        (order.foldl (bStep sc minScore labels es query bw (bRow0 sc.gap minScore query.length)) st) := by
  intro order
  induction order with
  | nil => intro done rowsG st _ _ _ h; simpa using h
  | cons v order ih =>
    intro done rowsG st hc hlt hdone inv
    simp only [List.foldl_cons, List.reverse_cons, List.append_assoc, List.singleton_append]
    have hv : v < labels.length := hlt v (by simp)
    apply ih (v :: done) _ _ hc.2 (fun x hx => hlt x (List.mem_cons_of_mem _ hx))
    · intro x hx
      rcases List.mem_cons.mp hx with h | h
      · subst h; exact hv
      · exact hdone x h
    -- the new rows
    have h0 : Rep query.length (bRow0 sc.gap minScore query.length) (row0 sc.gap query.length) :=
      bRow0_rep sc.gap query.length (fun j _ h2 => low_of sc.gap hg j _ (by omega) hmin)
    have hp : ∀ p ∈ inN es v, Rep query.length (st.rows.getD p (emptyRow query.length)) (rowsG.getD p []) :=
      fun p hp => inv.rep p (hc.1 p hp)
    have hstart : (if bw > st.msj then 0 else st.msj - bw) = 0 := by
      have := inv.msj
      split <;> omega
    have hcells := bNodeRow_cells sc query (row0 sc.gap query.length) (bRow0 sc.gap minScore query.length) v
      (labels.getD v 0) (inN es v) (fun p => rowsG.getD p []) (fun p => st.rows.getD p (emptyRow query.length))
      (st.msj + bw) (by omega) h0 hp
      (fun p hp j hj => by
        have h1 := inv.low p (hc.1 p hp) j hj
        have h2 : p < labels.length := hdone p (hc.1 p hp)
        have h3 := low_of sc.gap hg (p + 1 + j + 1) _ (by omega) hmin
        have e : (((p + 1 + j + 1 : Nat) : Int)) * sc.gap = ((p : Int) + 1 + j) * sc.gap + sc.gap := by
          have : ((p + 1 + j + 1 : Nat) : Int) = ((p : Int) + 1 + j) + 1 := by omega
          rw [this, Int.add_mul, Int.one_mul]
        omega)
      (by
        have := low_of sc.gap hg (v + 1) _ (by omega) hmin
        have e : ((v + 1 : Nat) : Int) = (v : Int) + 1 := by omega
        rw [e] at this; exact this)
    have hlen := nodeRow_length sc query (row0 sc.gap query.length) v (labels.getD v 0) (inN es v)
      (fun p => rowsG.getD p []) h0.len (fun p h => (hp p h).len)
    refine ⟨by simpa using inv.sizeG, by simpa [bStep] using inv.sizeB, ?_, ?_, ?_⟩
    · simp only [bStep, hstart]
      apply bUpdate_le
      · exact inv.msj
      · rw [hcells, List.length_tail, hlen]; omega
    · intro u hu
      simp only [bStep, hstart]
      rw [getD_setIfInBounds, getD_setIfInBounds]
      by_cases huv : u = v
      · subst huv
        simp only [true_and, inv.sizeG, inv.sizeB, hv, if_true]
        exact ⟨rfl, by simp [bNodeRow]; omega, hcells, hlen⟩
      · simp only [huv, false_and, if_false]
        rcases List.mem_cons.mp hu with h | h
        · exact absurd h huv
        · exact inv.rep u h
    · intro u hu j hj
      rw [getD_setIfInBounds]
      by_cases huv : u = v
      · subst huv
        simp only [true_and, inv.sizeG, hv, if_true]
        exact nodeRow_low sc query _ u _ _ j (by rw [hlen]; omega)
      · simp only [huv, false_and, if_false]
        rcases List.mem_cons.mp hu with h | h
        · exact absurd h huv
        · exact inv.low u h j hj

theorem getD_default_irrel (l : List Cell) (j : Nat) (d1 d2 : Cell) (h : j < l.length) : l.getD j d1 = l.getD j d2 := by
  simp [List.getD_eq_getElem?_getD, List.getElem?_eq_getElem h]

/-- **full band ⇒ the score of `global`** (model level).  Only `|query| ≤ bandwidth` is needed: the band is
centred on a column `≤ |query|`. -/
theorem bandedScore_full (sc : Sc) (labels : List Nat) (es : WEdges) (query : List Nat) (bw : Nat)
    (hd : Dag { labels := labels, es := es }) (hbw : query.length ≤ bw) (hg : sc.gap ≤ 0)
    (hmin : minScore < ((labels.length + query.length + 1 : Nat) : Int) * sc.gap) :
    bandedScore sc minScore minScore labels es query bw = (globalAlign sc labels es query).1 := by
  have hn : 0 < labels.length := by
    cases h : labels with
    | nil => exact absurd h hd.ne
    | cons a r => simp
  obtain ⟨vis, h1, _, hmem, hcl⟩ := topo_spec labels.length es hd.wf hd.acyclic
  have hlt : ∀ v ∈ vis.reverse, v < labels.length := fun v hv => (hmem v).mp (List.mem_reverse.mp hv)
  have inv := banded_fold sc labels es query bw hbw hg hmin vis.reverse [] (Array.replicate labels.length [])
    { rows := Array.replicate labels.length (emptyRow query.length), msj := 0, msr := minScore }
    (fwdClosed_of_predClosed es vis hcl) hlt (by simp)
    ⟨by simp, by simp, by simp, by simp, by simp⟩
  have hlast : vis.reverse.getLastD 0 ∈ vis.reverse.reverse ++ [] := by
    cases h : vis.reverse with
    | nil =>
      have : (0 : Nat) ∈ vis.reverse := List.mem_reverse.mpr ((hmem 0).mpr hn)
      rw [h] at this; exact absurd this (by simp)
    | cons a r =>
      rw [List.getLastD_cons]
      have := getLastD_mem_cons r a
      simp only [List.append_nil]
      exact List.mem_reverse.mpr this
  have hrep := inv.rep _ hlast
  simp only [bandedScore, bandedRows, globalAlign, dpRows, h1, Table.cell]
  rw [hrep.get query.length (Nat.le_refl _)]
  simp only [Nat.add_sub_cancel, Nat.succ_ne_zero, if_false]
  congr 1
  apply getD_default_irrel
  rw [hrep.len]; omega

end RbV.Poa.Model
