import RbV.Lemmas.SaisSets
/-
Interfaces of the three phases of `calc_pos` (LMS placement, L pass, S pass): what each phase needs and delivers.
`R` is the relation in which the result is sorted (see `IndRel`, `StepL`, `StepS` in `SaisSets.lean`); with
`R := fun _ _ => True` the statements are the pure "every position is placed exactly once" part.
-/
namespace RbV.Sais
open RbV

/-- `self.lms_pos` on entry of `calc_pos`: every LMS position exactly once, in any order -/
structure LmsList (t : List Nat) (lms : List Nat) : Prop where
  nodup : lms.Nodup
  mem : ∀ p, p ∈ lms ↔ isLms (tyOf t) p = true

/-- the initial value of `bucket_end` -/
def bEnd0 (t : List Nat) : List Nat := initBucketEnd (initBucketStart t) t.length

/-- state of `pos` after "insert LMS positions to the end of their buckets" (undefined entries hold `n`) -/
structure Placed (t : List Nat) (R : Nat → Nat → Prop) (pos0 : List Nat) : Prop where
  len : pos0.length = t.length
  /-- a defined entry is an LMS position sitting in the S-area of its own bucket -/
  area : ∀ i, i < t.length → pos0.getD i 0 ≠ t.length →
    isLms (tyOf t) (pos0.getD i 0) = true ∧ inBkt t (sym t (pos0.getD i 0)) i ∧
      cntLt t (sym t (pos0.getD i 0)) + (Lset t (sym t (pos0.getD i 0))).length ≤ i
  inj : ∀ i j, i < j → j < t.length → pos0.getD i 0 ≠ t.length → pos0.getD j 0 ≠ t.length →
    pos0.getD i 0 ≠ pos0.getD j 0
  all : ∀ p, isLms (tyOf t) p = true → ∃ i, i < t.length ∧ pos0.getD i 0 = p
  sorted : ∀ i j, i < j → j < t.length → pos0.getD i 0 ≠ t.length → pos0.getD j 0 ≠ t.length →
    R (pos0.getD i 0) (pos0.getD j 0)

/-- state of `pos` after the L pass, relative to the state `pos0` before it -/
structure LDone (t : List Nat) (R : Nat → Nat → Prop) (pos0 pos : List Nat) : Prop where
  len : pos.length = t.length
  /-- the L-area of bucket `c` holds L-type positions with symbol `c` -/
  larea : ∀ c, c < maxSucc t → ∀ i, cntLt t c ≤ i → i < cntLt t c + (Lset t c).length → pos.getD i 0 ∈ Lset t c
  /-- the S-areas are untouched -/
  sarea : ∀ c, c < maxSucc t → ∀ i, cntLt t c + (Lset t c).length ≤ i → i < cntLt t (c + 1) →
    pos.getD i 0 = pos0.getD i 0
  inj : ∀ i j, i < j → j < t.length → pos.getD i 0 ≠ t.length → pos.getD j 0 ≠ t.length →
    pos.getD i 0 ≠ pos.getD j 0
  sorted : ∀ i j, i < j → j < t.length → pos.getD i 0 ≠ t.length → pos.getD j 0 ≠ t.length →
    R (pos.getD i 0) (pos.getD j 0)

/-- index `i` lies in the L-area of its bucket -/
def inLArea (t : List Nat) (i : Nat) : Prop :=
  ∃ c, c < maxSucc t ∧ cntLt t c ≤ i ∧ i < cntLt t c + (Lset t c).length

/-- what the S pass needs of the array it starts from -/
structure LInit (t : List Nat) (R : Nat → Nat → Prop) (pos : List Nat) : Prop where
  len : pos.length = t.length
  larea : ∀ c, c < maxSucc t → ∀ i, cntLt t c ≤ i → i < cntLt t c + (Lset t c).length → pos.getD i 0 ∈ Lset t c
  inj : ∀ i j, i < j → inLArea t i → inLArea t j → pos.getD i 0 ≠ pos.getD j 0
  sorted : ∀ i j, i < j → inLArea t i → inLArea t j → R (pos.getD i 0) (pos.getD j 0)
  /-- slot 0 (the bucket of the final sentinel) holds `n − 1` -/
  zero : pos.getD 0 0 = t.length - 1

/-- the result of the S pass: every position exactly once, `R`-sorted -/
structure SDone (t : List Nat) (R : Nat → Nat → Prop) (pos : List Nat) : Prop where
  len : pos.length = t.length
  lt : ∀ i, i < t.length → pos.getD i 0 < t.length
  inj : ∀ i j, i < j → j < t.length → pos.getD i 0 ≠ pos.getD j 0
  sorted : ∀ i j, i < j → j < t.length → R (pos.getD i 0) (pos.getD j 0)

end RbV.Sais
