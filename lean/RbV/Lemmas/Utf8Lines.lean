import RbV.Model.FastxStream
import RbV.Lemmas.BufLines
/-!
# UTF-8 validity and line splitting  (C11)

`read_line` validates each line separately; LF is never part of a multi-byte sequence, so the lines of a valid
UTF-8 file are valid, and ASCII is valid.
-/
namespace RbV.Fastx
open RbV.BufLines

theorem validUtf8_ascii (l : Bytes) (h : ∀ b ∈ l, b < 128) : validUtf8 l = true := by
  induction l with
  | nil => rfl
  | cons b r ih =>
    have hb := h b (by simp)
    unfold validUtf8
    simp only [hb, if_true]
    exact ih fun x hx => h x (List.mem_cons_of_mem _ hx)

theorem isCont_ne_lf {b : Nat} (h : isCont b = true) : b ≠ 10 := by
  simp only [isCont, Bool.and_eq_true, decide_eq_true_eq] at h; omega

theorem validUtf8_firstLine (f : Bytes) (h : validUtf8 f = true) :
    validUtf8 (firstLine f).1 = true ∧ validUtf8 (firstLine f).2 = true := by
  fun_induction validUtf8 f with
  | case1 => exact ⟨rfl, rfl⟩
  | case2 b0 r hb ih =>
    by_cases h10 : b0 = 10
    · subst h10; simp only [firstLine, if_true]; exact ⟨rfl, h⟩
    · obtain ⟨i1, i2⟩ := ih h
      simp only [firstLine, h10, if_false]
      refine ⟨?_, i2⟩
      unfold validUtf8; simp only [hb, if_true]; exact i1
  | case3 => cases h
  | case4 b0 hb0 b1 r hr ih =>
    simp only [Bool.and_eq_true] at h
    obtain ⟨h1, h2⟩ := h
    obtain ⟨i1, i2⟩ := ih h2
    have n0 : b0 ≠ 10 := by omega
    have n1 := isCont_ne_lf h1
    simp only [firstLine, n0, n1, if_false]
    refine ⟨?_, i2⟩
    unfold validUtf8; simp only [hb0, if_false, hr, if_true, h1, i1, Bool.and_self]
  | case5 => cases h
  | case6 b1 b2 r _ _ ih =>
    simp only [Bool.and_eq_true] at h
    obtain ⟨⟨h1, h2⟩, h3⟩ := h
    obtain ⟨i1, i2⟩ := ih h3
    have n1 : b1 ≠ 10 := by simp only [decide_eq_true_eq] at h1; omega
    have n2 := isCont_ne_lf h2
    simp only [firstLine, n1, n2, if_false, show (224 : Nat) ≠ 10 by decide]
    refine ⟨?_, i2⟩
    unfold validUtf8; simp [h1, h2, i1]
  | case7 b0 hb0 b1 hr b2 r hne hr2 ih =>
    simp only [Bool.and_eq_true] at h
    obtain ⟨⟨h1, h2⟩, h3⟩ := h
    obtain ⟨i1, i2⟩ := ih h3
    have n0 : b0 ≠ 10 := by omega
    have n1 := isCont_ne_lf h1
    have n2 := isCont_ne_lf h2
    simp only [firstLine, n0, n1, n2, if_false]
    refine ⟨?_, i2⟩
    unfold validUtf8; simp only [hb0, if_false, hr, hne, hr2, if_true, h1, h2, i1, Bool.and_self, Bool.false_eq_true]
  | case8 b1 b2 r _ _ _ _ ih =>
    simp only [Bool.and_eq_true] at h
    obtain ⟨⟨h1, h2⟩, h3⟩ := h
    obtain ⟨i1, i2⟩ := ih h3
    have n1 : b1 ≠ 10 := by simp only [decide_eq_true_eq] at h1; omega
    have n2 := isCont_ne_lf h2
    simp only [firstLine, n1, n2, if_false, show (237 : Nat) ≠ 10 by decide]
    refine ⟨?_, i2⟩
    unfold validUtf8; simp [h1, h2, i1]
  | case9 => cases h
  | case10 b1 b2 b3 r _ _ _ _ _ ih =>
    simp only [Bool.and_eq_true] at h
    obtain ⟨⟨⟨h1, h2⟩, h3⟩, h4⟩ := h
    obtain ⟨i1, i2⟩ := ih h4
    have n1 : b1 ≠ 10 := by simp only [decide_eq_true_eq] at h1; omega
    have n2 := isCont_ne_lf h2
    have n3 := isCont_ne_lf h3
    simp only [firstLine, n1, n2, n3, if_false, show (240 : Nat) ≠ 10 by decide]
    refine ⟨?_, i2⟩
    unfold validUtf8; simp [h1, h2, h3, i1]
  | case11 b0 hb0 b1 hr b2 hne hr2 hne2 b3 r hne3 hr3 ih =>
    simp only [Bool.and_eq_true] at h
    obtain ⟨⟨⟨h1, h2⟩, h3⟩, h4⟩ := h
    obtain ⟨i1, i2⟩ := ih h4
    have n0 : b0 ≠ 10 := by omega
    have n1 := isCont_ne_lf h1
    have n2 := isCont_ne_lf h2
    have n3 := isCont_ne_lf h3
    simp only [firstLine, n0, n1, n2, n3, if_false]
    refine ⟨?_, i2⟩
    unfold validUtf8
    simp only [hb0, if_false, hr, hne, hr2, hne2, hne3, hr3, if_true, h1, h2, h3, i1, Bool.and_self,
      Bool.false_eq_true]
  | case12 b1 b2 b3 r _ _ _ _ _ _ _ ih =>
    simp only [Bool.and_eq_true] at h
    obtain ⟨⟨⟨h1, h2⟩, h3⟩, h4⟩ := h
    obtain ⟨i1, i2⟩ := ih h4
    have n1 : b1 ≠ 10 := by simp only [decide_eq_true_eq] at h1; omega
    have n2 := isCont_ne_lf h2
    have n3 := isCont_ne_lf h3
    simp only [firstLine, n1, n2, n3, if_false, show (244 : Nat) ≠ 10 by decide]
    refine ⟨?_, i2⟩
    unfold validUtf8; simp [h1, h2, h3, i1]
  | case13 => cases h

theorem allValid_splitLines_aux (n : Nat) : ∀ f : Bytes, f.length ≤ n → validUtf8 f = true →
    ∀ l ∈ splitLines f, validUtf8 l = true := by
  induction n with
  | zero =>
    intro f hf _ l hl
    have : f = [] := List.length_eq_zero_iff.mp (by omega)
    subst this; cases hl
  | succ n ih =>
    intro f hf hv l hl
    by_cases hne : f = []
    · subst hne; cases hl
    · rw [splitLines_eq_firstLine f hne] at hl
      have hfl := validUtf8_firstLine f hv
      have hlen := congrArg List.length (firstLine_append f)
      have hpos : 0 < (firstLine f).1.length := by
        cases h1 : (firstLine f).1 with
        | nil => exact absurd ((firstLine_fst_eq_nil f).mp h1) hne
        | cons => simp
      simp only [List.length_append] at hlen
      rcases List.mem_cons.mp hl with rfl | hl'
      · exact hfl.1
      · exact ih _ (by omega) hfl.2 l hl'

/-- a valid UTF-8 file has only valid lines (LF is never part of a multi-byte sequence) -/
theorem allValid_splitLines (f : Bytes) (h : validUtf8 f = true) : ∀ l ∈ splitLines f, validUtf8 l = true :=
  allValid_splitLines_aux f.length f (Nat.le_refl _) h

end RbV.Fastx
