import RbV.Lemmas.PoaHistory
/-!
# The consensus of the model is a non-empty word spelled by a path of the graph

for every graph with at least one node, edge end points in range and no directed cycle (no assumption on the
edge weights).  The table built by `consTable` stores for every node either "no successor" (`none` =
`usize::MAX`) or one of its predecessors; `argmaxLast` lands on a node; `consWalk` follows the stored
predecessors, each step lowering the topological rank, so it ends within the fuel and never leaves the graph.
-/
namespace RbV.Poa.Model
open RbV.NW RbV.Poa

/-- the stored successor of `v` is absent or a predecessor of `v` -/
def NextOK (es : WEdges) (v : Nat) (e : CEntry) : Prop := e.2.2 = none ∨ ∃ u ∈ inN es v, e.2.2 = some u

theorem foldl_next (S : Nat → Prop) (f : CEntry → Nat → CEntry)
    (hf : ∀ best u, f best u = best ∨ (f best u).2.2 = some u) :
    ∀ (L : List Nat) (init : CEntry), (init.2.2 = none ∨ ∃ u, S u ∧ init.2.2 = some u) → (∀ u ∈ L, S u) →
      ((L.foldl f init).2.2 = none ∨ ∃ u, S u ∧ (L.foldl f init).2.2 = some u) := by
  intro L
  induction L with
  | nil => intro init h _; exact h
  | cons a L ih =>
    intro init h hS
    simp only [List.foldl_cons]
    apply ih
    · rcases hf init a with h1 | h1
      · rw [h1]; exact h
      · exact Or.inr ⟨a, hS a (by simp), h1⟩
    · intro u hu; exact hS u (List.mem_cons_of_mem _ hu)

theorem ite_or (c : Bool) (x y : CEntry) :
    (if c = true then y else x) = x ∨ (if c = true then y else x) = y := by
  cases c <;> simp

theorem consTable_spec (n : Nat) (es : WEdges) :
    (consTable n es).size = n ∧ ∀ v, NextOK es v ((consTable n es).getD v (0, 0, none)) := by
  unfold consTable
  generalize topo n es = order
  have key : ∀ (order : List Nat) (tab : Array CEntry),
      (tab.size = n ∧ ∀ v, NextOK es v (tab.getD v (0, 0, none))) →
      ((order.foldl (fun (tab : Array CEntry) v =>
        let best : Int × Int × Option Nat :=
          (inN es v).foldl (init := ((0, 0, none) : CEntry)) fun best u =>
            let w := wsum es u v
            let s := w + (tab.getD u (0, 0, none)).2.1
            let gt := match best.2.2 with
              | none => w > best.1 || (w == best.1 && s > best.2.1)
              | some bi => tgt (w, s, u) (best.1, best.2.1, bi)
            if gt then (w, s, some u) else best
        tab.setIfInBounds v best) tab).size = n ∧
       ∀ v, NextOK es v ((order.foldl (fun (tab : Array CEntry) v =>
        let best : Int × Int × Option Nat :=
          (inN es v).foldl (init := ((0, 0, none) : CEntry)) fun best u =>
            let w := wsum es u v
            let s := w + (tab.getD u (0, 0, none)).2.1
            let gt := match best.2.2 with
              | none => w > best.1 || (w == best.1 && s > best.2.1)
              | some bi => tgt (w, s, u) (best.1, best.2.1, bi)
            if gt then (w, s, some u) else best
        tab.setIfInBounds v best) tab).getD v (0, 0, none))) := by
    intro order
    induction order with
    | nil => intro tab h; exact h
    | cons a order ih =>
      intro tab h
      simp only [List.foldl_cons]
      apply ih
      refine ⟨by simpa using h.1, ?_⟩
      intro v
      rw [getD_setIfInBounds]
      split
      · rename_i hc
        rw [hc.1]
        apply foldl_next (fun u => u ∈ inN es a)
        · intro best u
          exact (ite_or _ best (_, _, some u)).imp (fun h => h) (fun h => congrArg (·.2.2) h)
        · left; rfl
        · intro u hu; exact hu
      · exact h.2 v
  apply key
  refine ⟨by simp, ?_⟩
  intro v
  left
  simp only [Array.getD_eq_getD_getElem?, Array.getElem?_replicate]
  split <;> rfl

/-! ## `argmaxLast` lands on an index of the table -/

def amStep : Nat × Option Int → CEntry × Nat → Nat × Option Int := fun (bi, bs) (e, i) =>
    match bs with
    | none => (i, some e.2.1)
    | some s => if e.2.1 ≥ s then (i, some e.2.1) else (bi, bs)

theorem argmaxLast_eq (tab : Array CEntry) : argmaxLast tab = (tab.toList.zipIdx.foldl amStep (0, none)).1 := rfl

theorem amFold_some : ∀ (l : List CEntry) (k bi : Nat) (s : Int),
    ((l.zipIdx k).foldl amStep (bi, some s)).1 = bi ∨
    (k ≤ ((l.zipIdx k).foldl amStep (bi, some s)).1 ∧ ((l.zipIdx k).foldl amStep (bi, some s)).1 < k + l.length) := by
  intro l
  induction l with
  | nil => intro k bi s; left; rfl
  | cons e l ih =>
    intro k bi s
    simp only [List.zipIdx_cons, List.foldl_cons, List.length_cons]
    by_cases h : e.2.1 ≥ s
    · have : amStep (bi, some s) (e, k) = (k, some e.2.1) := by simp [amStep, h]
      rw [this]
      rcases ih (k + 1) k e.2.1 with h1 | h1
      · right; omega
      · right; omega
    · have : amStep (bi, some s) (e, k) = (bi, some s) := by simp [amStep, h]
      rw [this]
      rcases ih (k + 1) bi s with h1 | h1
      · left; exact h1
      · right; omega

theorem argmaxLast_lt (tab : Array CEntry) (h : 0 < tab.size) : argmaxLast tab < tab.size := by
  rw [argmaxLast_eq]
  have hl : tab.toList.length = tab.size := by simp
  cases hc : tab.toList with
  | nil => rw [hc] at hl; simp at hl; omega
  | cons e l =>
    rw [hc] at hl
    simp only [List.length_cons] at hl
    simp only [List.zipIdx_cons, List.foldl_cons]
    have : amStep (0, none) (e, 0) = (0, some e.2.1) := rfl
    rw [this]
    rcases amFold_some l (0 + 1) 0 e.2.1 with h1 | h1
    · omega
    · omega

/-! ## the walk -/

theorem consWalk_path (labels : List Nat) (es : WEdges) (tab : Array CEntry) (rho : Nat → Nat)
    (hwf : ∀ e ∈ es, e.1 < labels.length ∧ e.2.1 < labels.length)
    (htab : ∀ v, NextOK es v (tab.getD v (0, 0, none)))
    (hrho : ∀ v, ∀ p ∈ inN es v, rho p < rho v) :
    ∀ (f v : Nat) (P : List Nat), v < labels.length → rho v + 1 < f → IsWalk (plain es) (v :: P) →
      (∀ u ∈ P, u < labels.length) →
      ∃ P', P' ≠ [] ∧ IsWalk (plain es) P' ∧ (∀ u ∈ P', u < labels.length) ∧
        consWalk labels tab f (some v) (P.map fun u => labels.getD u 0) = some (P'.map fun u => labels.getD u 0) := by
  intro f
  induction f with
  | zero => intro v P _ h; omega
  | succ f ih =>
    intro v P hv hf hw hP
    have hPv : ∀ u ∈ v :: P, u < labels.length := by
      intro u hu
      rcases List.mem_cons.mp hu with h | h
      · subst h; exact hv
      · exact hP u h
    simp only [consWalk, hv, if_true]
    rcases htab v with h | ⟨u, hu, h⟩
    · rw [h]
      refine ⟨v :: P, by simp, hw, hPv, ?_⟩
      cases f with
      | zero => omega
      | succ f => simp [consWalk]
    · rw [h]
      obtain ⟨w, hw'⟩ := (mem_inN es v u).mp hu
      have := ih u (v :: P) (hwf _ hw').1 (by have := hrho v u hu; omega)
        ⟨(mem_plain es u v).mpr ⟨w, hw'⟩, hw⟩ hPv
      simpa using this

theorem consensus_path (labels : List Nat) (es : WEdges) (hg : Dag { labels := labels, es := es }) :
    ∃ w, consensus labels es = some w ∧ w ≠ [] ∧ Spelled labels (plain es) w := by
  have hn : 0 < labels.length := by
    cases h : labels with
    | nil => exact absurd h hg.ne
    | cons a r => simp
  obtain ⟨vis, _, hnd, hmem, hcl⟩ := topo_spec labels.length es hg.wf hg.acyclic
  have hlen : vis.length ≤ labels.length := by
    have := List.Nodup.length_le_of_subset hnd (l₂ := List.range labels.length)
      (fun v hv => List.mem_range.mpr ((hmem v).mp hv))
    simpa using this
  obtain ⟨hsize, htab⟩ := consTable_spec labels.length es
  have hpos := argmaxLast_lt (consTable labels.length es) (by omega)
  rw [hsize] at hpos
  obtain ⟨P', hne, hwalk, hval, heq⟩ := consWalk_path labels es (consTable labels.length es) (posIn vis) hg.wf htab
    (fun v p hp => by
      obtain ⟨w, hw⟩ := (mem_inN es v p).mp hp
      exact posIn_lt es vis hcl hnd v ((hmem v).mpr (hg.wf _ hw).2) p hp)
    (labels.length + 2) (argmaxLast (consTable labels.length es)) [] hpos
    (by have := posIn_le vis (argmaxLast (consTable labels.length es)); omega) trivial (by simp)
  refine ⟨P'.map fun u => labels.getD u 0, ?_, ?_, P', hwalk, hval, rfl⟩
  · simpa [consensus] using heq
  · intro h
    exact hne (List.map_eq_nil_iff.mp h)

end RbV.Poa.Model
