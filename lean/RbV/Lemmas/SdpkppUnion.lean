import RbV.Lemmas.SdpkppSweep
/-! C19 — `sdpkpp_union_lcskpp_path`: splicing the `sdpkpp` chain into the `lcskpp` chain at common matches gives a valid
chain.  Core Lean only. -/
namespace RbV.Lemmas.Sdpkpp
open RbV.KChain RbV.Model.Lcskpp RbV.Model.Sdpkpp RbV.QGram RbV.Lemmas.Lcskpp

theorem chain_append (k : Nat) (a b : List M) :
    Chain k (a ++ b) ↔ Chain k a ∧ Chain k b ∧ ∀ x y, a.getLast? = some x → b.head? = some y → Link k x y := by
  induction a with
  | nil => simp [Chain]
  | cons x a ih =>
    cases a with
    | nil =>
      cases b with
      | nil => simp [Chain]
      | cons y r => simp [Chain]; exact And.comm
    | cons x' r =>
      have e : x :: x' :: r ++ b = x :: x' :: (r ++ b) := rfl
      rw [e]
      simp only [Chain]
      have ih' := ih
      simp only [List.cons_append] at ih'
      rw [ih']
      simp only [List.getLast?_cons_cons]
      constructor
      · rintro ⟨h1, h2, h3, h4⟩; exact ⟨⟨h1, h2⟩, h3, h4⟩
      · rintro ⟨⟨h1, h2⟩, h3, h4⟩; exact ⟨h1, h2, h3, h4⟩

/-- replace what follows a common element on the left chain -/
theorem chain_splice_left {k : Nat} {A B S : List M} {x : M} (h1 : Chain k (A ++ x :: B)) (h2 : Chain k (x :: S)) :
    Chain k (A ++ x :: S) := by
  rw [chain_append] at h1 ⊢
  exact ⟨h1.1, h2, by simpa using h1.2.2⟩

/-- replace what precedes a common element on the right chain -/
theorem chain_splice_right {k : Nat} {S A C : List M} {x : M} (h1 : Chain k (S ++ [x])) (h2 : Chain k (A ++ x :: C)) :
    Chain k (S ++ x :: C) := by
  rw [chain_append] at h1 h2 ⊢
  exact ⟨h1.1, h2.2.1, by simpa using h1.2.2⟩

theorem findIdx_split {key : Nat} {l : List Nat} {i0 c : Nat} (h : findIdx key i0 l = some c) :
    ∃ j, c = i0 + j ∧ l = l.take j ++ key :: l.drop (j + 1) := by
  induction l generalizing i0 with
  | nil => simp [findIdx] at h
  | cons a r ih =>
    simp only [findIdx] at h
    by_cases ha : a = key
    · rw [if_pos ha] at h
      exact ⟨0, by simpa using h.symm, by simp [ha]⟩
    · rw [if_neg ha] at h
      obtain ⟨j, hc, hl⟩ := ih h
      refine ⟨j + 1, by omega, ?_⟩
      simp only [List.take_succ_cons, List.drop_succ_cons, List.cons_append]
      rw [← hl]

theorem validChain_iff' (ms : List M) (k : Nat) (u : List Nat) :
    validChain ms k u = true ↔ (∀ i ∈ u, i < ms.length) ∧ Chain k (u.map (mAt ms)) := by
  unfold validChain
  rw [Bool.and_eq_true, chainB_iff, List.all_eq_true]
  simp only [decide_eq_true_eq]
  rfl

/-- the union path of two valid chains is a valid chain -/
theorem union_valid (ms : List M) (k : Nat) (lp sp : List Nat) (hl : validChain ms k lp = true)
    (hs : validChain ms k sp = true) (first last : Nat) (hf : sp.head? = some first) (hla : sp.getLast? = some last) :
    validChain ms k (lp.take ((findIdx first 0 lp).getD 0) ++ sp ++
      lp.drop (match findIdx last 0 lp with | some ind => ind + 1 | none => lp.length)) = true := by
  rw [validChain_iff'] at hl hs ⊢
  obtain ⟨sp', hsp'⟩ := List.head?_eq_some_iff.mp hf
  obtain ⟨sp0, hsp0⟩ := List.getLast?_eq_some_iff.mp hla
  constructor
  · intro i hi
    rcases List.mem_append.mp hi with hi | hi
    · rcases List.mem_append.mp hi with hi | hi
      · exact hl.1 i (List.mem_of_mem_take hi)
      · exact hs.1 i hi
    · exact hl.1 i (List.mem_of_mem_drop hi)
  · -- step 1: prefix of the lcskpp chain ++ sdpkpp chain
    have step1 : Chain k ((lp.take ((findIdx first 0 lp).getD 0) ++ sp).map (mAt ms)) := by
      cases hfi : findIdx first 0 lp with
      | none => simpa using hs.2
      | some i =>
        obtain ⟨j, hij, hsplit⟩ := findIdx_split hfi
        have hij' : i = j := by omega
        subst hij'
        simp only [Option.getD_some]
        have hL := hl.2
        rw [hsplit] at hL
        have hS := hs.2
        rw [hsp'] at hS ⊢
        simp only [List.map_append, List.map_cons] at hL hS ⊢
        exact chain_splice_left hL hS
    -- step 2: ++ suffix of the lcskpp chain
    cases hla' : findIdx last 0 lp with
    | none => simpa using step1
    | some i =>
      obtain ⟨j, hij, hsplit⟩ := findIdx_split hla'
      have hij' : i = j := by omega
      subst hij'
      simp only
      have hL := hl.2
      rw [hsplit] at hL
      rw [hsp0] at step1 ⊢
      simp only [List.map_append, List.map_cons, List.map_nil, ← List.append_assoc] at hL step1 ⊢
      have := chain_splice_right step1 hL
      simpa [List.append_assoc] using this

theorem unionPath_model_ok {ms : List M} {k : Nat} (msc go ge : Nat) (hk : 0 < k) (hs : ms.Pairwise lexLt) :
    ∃ u, unionPath ms k msc go ge = .ok u ∧ validChain ms k u = true := by
  cases hms : ms with
  | nil => exact ⟨[], by simp [unionPath], by simp [validChain, pathMatches, chainB]⟩
  | cons m0 rest =>
    rw [← hms]
    have hne : ms ≠ [] := by rw [hms]; simp
    have hemp : ms.isEmpty = false := by rw [hms]; rfl
    obtain ⟨l, hl, _, hlv, _⟩ := lcskpp_model_ok hk hs
    obtain ⟨r, hr, hrv, hrne, _⟩ := sdpkpp_model_ok msc go ge hk hs
    have hpne := hrne hne
    obtain ⟨first, hf⟩ : ∃ a, r.path.head? = some a := by
      cases hp : r.path with
      | nil => exact absurd hp hpne
      | cons a t => exact ⟨a, rfl⟩
    obtain ⟨last, hla⟩ : ∃ a, r.path.getLast? = some a := by
      cases hp : r.path.getLast? with
      | none => rw [List.getLast?_eq_none_iff] at hp; exact absurd hp hpne
      | some a => exact ⟨a, rfl⟩
    refine ⟨_, ?_, union_valid ms k l.path r.path hlv hrv first last hf hla⟩
    unfold unionPath
    simp only [hemp, Bool.false_eq_true, if_false, hl, hr, hf, hla]
    rfl

end RbV.Lemmas.Sdpkpp
