import RbV.Lemmas.TracebackLongStore
/-!
The stored-state pipeline of the block-based Myers traceback returns the alignment of the matrix rule for every hit
(C10, block-based handler, stage 3): the band invariant of C09 (`Model.MyersLong.Band`) holds for every column the search
stores, so the columns in the states vector satisfy `ColFacts`, the ring buffer returns them (`StoredL`), and the handler
theorem `tracebackRdL_eq` applies.  Core Lean only.
-/
namespace RbV.Model.MyersTracebackLong
open RbV.EditDist
open RbV.Model.MyersSimple (St)
open RbV.Model.MyersTraceback
open RbV.Model.MyersLong (blocksOf initStates stepStates Band band_init band_step ColEnc_length_le chunks_spec rows)
open RbV.Model.Ukkonen (cell)

section run
variable (w : Nat) (eqv : Nat → Nat → Bool) (p : List Nat) (k N : Nat) (old : List (St w))

theorem stateAfter_snoc (u : List Nat) (a : Nat) :
    stateAfter w eqv p k N old (u ++ [a]) =
      stepStore w eqv (blocksOf w p) k N (stateAfter w eqv p k N old u) a := by
  simp only [stateAfter, List.foldl_append, List.foldl_cons, List.foldl_nil]

theorem stateAfter_nil :
    stateAfter w eqv p k N old [] =
      (addColumn (blocksOf w p).length (setMaxColumn (blocksOf w p).length old.toArray (0 % N)) (1 % N)
        (initStates w (blocksOf w p) p.length k), initStates w (blocksOf w p) p.length k, 0) := rfl

theorem take_succ_snoc (t : List Nat) (c : Nat) (hc : c < t.length) : t.take (c + 1) = t.take c ++ [t[c]] :=
  List.take_succ_eq_append_getElem hc

/-- size of the vector, number of symbols consumed, and C09's band invariant after every prefix of the text -/
theorem run_inv (hw : 1 ≤ w) (hp : 1 ≤ p.length) (hold : old.length = N * (blocksOf w p).length) (t : List Nat) :
    ∀ c, c ≤ t.length →
      (stateAfter w eqv p k N old (t.take c)).1.size = N * (blocksOf w p).length ∧
      (stateAfter w eqv p k N old (t.take c)).2.2 = c ∧
      ∃ P, Band eqv p k (blocksOf w p) P (t.take c) (stateAfter w eqv p k N old (t.take c)).2.1 := by
  obtain ⟨c1, c2, _, _⟩ := chunks_spec w hw p.length p hp (Nat.le_refl _)
  intro c
  induction c with
  | zero =>
    intro _
    rw [List.take_zero, stateAfter_nil]
    refine ⟨?_, rfl, _, band_init w hw eqv p hp k⟩
    simp only [addColumn_size, setMaxColumn_size, List.size_toArray, hold]
  | succ c ih =>
    intro hc
    obtain ⟨i1, i2, P, i3⟩ := ih (by omega)
    rw [take_succ_snoc t c (by omega), stateAfter_snoc]
    refine ⟨?_, ?_, ?_⟩
    · simp only [stepStore, addColumn_size, i1]
    · simp only [stepStore, i2]
    · exact band_step eqv p k (blocksOf w p) c1 c2 P (t.take c) _ t[c] i3

/-- a column is not touched while fewer than `N` columns are written after it -/
theorem keep (hw : 1 ≤ w) (hp : 1 ≤ p.length) (hold : old.length = N * (blocksOf w p).length) (t : List Nat)
    (c s : Nat) (hs : s ≤ c + 1) :
    ∀ c', c ≤ c' → c' ≤ t.length → c' + 1 - s < N → ∀ B, B < (blocksOf w p).length →
      (stateAfter w eqv p k N old (t.take c')).1.getD ((s % N) * (blocksOf w p).length + B) dflt =
      (stateAfter w eqv p k N old (t.take c)).1.getD ((s % N) * (blocksOf w p).length + B) dflt := by
  intro c'
  induction c' with
  | zero =>
    intro h1 _ _ B _
    have : c = 0 := by omega
    subst this; rfl
  | succ c' ih =>
    intro h1 h2 h3 B hB
    by_cases heq : c = c' + 1
    · subst heq; rfl
    · have ih' := ih (by omega) (by omega) (by omega) B hB
      rw [← ih']
      obtain ⟨_, i2, P, i3⟩ := run_inv w eqv p k N old hw hp hold t (c' + 1) h2
      rw [take_succ_snoc t c' (by omega), stateAfter_snoc] at i3 ⊢
      obtain ⟨_, j2, _, _⟩ := run_inv w eqv p k N old hw hp hold t c' (by omega)
      have hlen := ColEnc_length_le _ _ 0 i3.col
      simp only [stepStore] at hlen ⊢
      rw [j2]
      apply addColumn_other _ _ _ _ hlen _ _ _ hB
      have hmod := mod_add_ne N s (c' + 2 - s) (by omega) (by omega)
      have e : s + (c' + 2 - s) = c' + 2 := by omega
      rw [e] at hmod
      exact fun h => hmod h.symm

/-- the column written for the prefix of length `c` (sequence number `c + 1`) -/
theorem written (hw : 1 ≤ w) (hp : 1 ≤ p.length) (hN : 2 ≤ N) (hold : old.length = N * (blocksOf w p).length)
    (t : List Nat) (c : Nat) (hc : c ≤ t.length) :
    (∀ B, B < (stateAfter w eqv p k N old (t.take c)).2.1.length →
      (stateAfter w eqv p k N old (t.take c)).1.getD (((c + 1) % N) * (blocksOf w p).length + B) dflt =
        (stateAfter w eqv p k N old (t.take c)).2.1.getD B dflt) ∧
    ((stateAfter w eqv p k N old (t.take c)).2.1.length < (blocksOf w p).length →
      (stateAfter w eqv p k N old (t.take c)).1.getD
        (((c + 1) % N) * (blocksOf w p).length + (stateAfter w eqv p k N old (t.take c)).2.1.length) dflt =
        ⟨0#w, 0#w, umax⟩) := by
  obtain ⟨i1, i2, P, i3⟩ := run_inv w eqv p k N old hw hp hold t c hc
  have hlen := ColEnc_length_le _ _ 0 i3.col
  have hslot : ((c + 1) % N) * (blocksOf w p).length + (blocksOf w p).length ≤ N * (blocksOf w p).length :=
    slot_le _ N _ (Nat.mod_lt _ (by omega))
  cases c with
  | zero =>
    rw [List.take_zero, stateAfter_nil] at hlen ⊢
    apply addColumn_written _ _ _ _ _ hlen
    simp only [setMaxColumn_size, List.size_toArray, hold]
    exact hslot
  | succ c =>
    obtain ⟨j1, j2, _, _⟩ := run_inv w eqv p k N old hw hp hold t c (by omega)
    rw [take_succ_snoc t c (by omega), stateAfter_snoc] at hlen ⊢
    simp only [stepStore] at hlen ⊢
    rw [j2]
    apply addColumn_written _ _ _ _ _ hlen
    rw [j1]
    exact hslot

/-- the guard column, written by `set_max_state` before the search: `State::max()` in every block -/
theorem guard_col (hN : 2 ≤ N) (hold : old.length = N * (blocksOf w p).length) (hlen0 : (initStates w (blocksOf w p) p.length k).length ≤ (blocksOf w p).length) :
    ∀ B, B < (blocksOf w p).length →
      (stateAfter w eqv p k N old []).1.getD (0 * (blocksOf w p).length + B) dflt = maxSt w umax := by
  intro B hB
  rw [stateAfter_nil]
  have h1 : 1 % N = 1 := Nat.mod_eq_of_lt (by omega)
  have h0 : 0 % N = 0 := Nat.zero_mod N
  rw [h1, h0]
  simp only
  rw [addColumn_other _ _ _ _ hlen0 0 B (by omega) hB, setMaxColumn_getD, if_pos]
  simp only [List.size_toArray, hold, Nat.zero_mul, Nat.zero_add]
  have := slot_le (blocksOf w p).length N 0 (by omega)
  omega

end run

section concrete
variable (w : Nat) (eqv : Nat → Nat → Bool) (p : List Nat) (k N : Nat) (old : List (St w)) (t : List Nat)

/-- the column with sequence number `s` as it was written (guard column 0, initial column 1, column after `c` symbols
`c + 1`) -/
def colSeq (s : Nat) : Array (St w) :=
  colAt (blocksOf w p).length (stateAfter w eqv p k N old (t.take (s - 1))).1 (s % N)

open RbV.Model.MyersLong in
/-- C09's band invariant, seen through the slots of the stored column -/
theorem colfacts_concrete (hw : 2 ≤ w) (hp : 1 ≤ p.length) (hN : 2 ≤ N)
    (hold : old.length = N * (blocksOf w p).length) (j : Nat) (hj : j ≤ t.length) :
    ∃ L P, ColFacts (blocksOf w p).length p.length k (fun r => Dm (matrix (unitW eqv) p t) r j)
      (colSeq w eqv p k N old t (j + 1)) L P := by
  obtain ⟨g, hblk, hrowsL⟩ := geo_blocks w hw p hp
  obtain ⟨i1, i2, P, band⟩ := run_inv w eqv p k N old (by omega) hp hold t j hj
  have hlen := ColEnc_length_le _ _ 0 band.col
  have hslot : ((j + 1) % N) * (blocksOf w p).length + (blocksOf w p).length ≤
      (stateAfter w eqv p k N old (t.take j)).1.size := by
    rw [i1]; exact slot_le _ N _ (Nat.mod_lt _ (by omega))
  obtain ⟨wr1, wr2⟩ := written w eqv p k N old (by omega) hp hN hold t j hj
  have hD : ∀ r, r ≤ p.length → Dm (matrix (unitW eqv) p t) r j = cell (unitW eqv) p (t.take j) r :=
    fun r hr => Dm_matrix _ p t r j hr hj
  unfold colSeq
  simp only [Nat.add_sub_cancel]
  generalize hst : stateAfter w eqv p k N old (t.take j) = st at *
  have hrl := hrowsL st.2.1.length hlen
  have hrm := g.rows_le st.2.1.length hlen
  refine ⟨st.2.1.length, P, ⟨band.ne, hlen, ?_, ?_, ?_, ?_, ?_⟩⟩
  · intro B hB
    rw [colAt_getD _ _ _ B hslot (by omega), wr1 B hB]
    obtain ⟨blk, e1, e2, e3⟩ := ColEnc_get _ _ 0 band.col B hB
    obtain ⟨blk', f1, f2, f3⟩ := hblk B (by omega)
    rw [f1] at e1
    injection e1 with e1
    subst e1
    rw [Nat.zero_add, f3, f2] at e3
    simp only [Nat.zero_add, f3, f2] at e2
    exact ⟨⟨e2.diff, e2.pvb, e2.mvb⟩, e3⟩
  · intro hL
    rw [colAt_getD _ _ _ _ hslot hL, wr2 hL]
  · intro r hr
    rw [hD r (by omega)]
    exact band.ge r (by rw [hrl]; exact hr)
  · intro r hr hk
    rw [hD r (by omega)] at hk ⊢
    exact band.ex r (by rw [hrl]; exact hr) (by exact_mod_cast hk)
  · intro r hr hm
    rw [hD r hm]
    have := band.out r (by rw [hrl]; exact hr) hm
    exact_mod_cast this

open RbV.Model.MyersLong in
/-- the columns the search stores satisfy the assumptions of the handler theorem for every iterator `rd` that yields
them down to sequence number `lo` -/
theorem storedL_of_rd (hw : 2 ≤ w) (hp : 1 ≤ p.length) (hsmall : p.length + 2 * w + 2 ≤ umax) (hN : 2 ≤ N)
    (hold : old.length = N * (blocksOf w p).length) (stop lo : Nat) (hs : stop ≤ t.length)
    (rd : Nat → Array (St w)) (hrd : ∀ n, n + lo ≤ stop + 1 → rd n = colSeq w eqv p k N old t (stop + 1 - n)) :
    StoredL (blocksOf w p).length p.length k (stop + 1) lo (Dm (matrix (unitW eqv) p t))
      (colSeq w eqv p k N old t) rd := by
  obtain ⟨g, hblk, hrowsL⟩ := geo_blocks w hw p hp
  have hS := isSellers_matrix eqv p t
  have hD : ∀ i j, i ≤ p.length → j ≤ t.length → Dm (matrix (unitW eqv) p t) i j = cell (unitW eqv) p (t.take j) i :=
    fun i j hi hj => Dm_matrix _ p t i j hi hj
  have hsize : ∀ c', c' ≤ t.length → (stateAfter w eqv p k N old (t.take c')).1.size = N * (blocksOf w p).length :=
    fun c' hc' => (run_inv w eqv p k N old (by omega) hp hold t c' hc').1
  have hslot : ∀ s, (s % N) * (blocksOf w p).length + (blocksOf w p).length ≤ N * (blocksOf w p).length :=
    fun s => slot_le _ N _ (Nat.mod_lt _ (by omega))
  refine ⟨g, hsmall, hS.col0, ?_, ?_, ?_, ?_, ?_, ?_, hrd⟩
  · intro i j hi hj
    rw [hD i j hi (by omega)]
    exact cell_le_len _ p _ i
  · intro i j hi hj
    exact hS.diag i j hi (by omega)
  · intro i j hi hj
    refine ⟨?_, hS.vlow i j hi (by omega)⟩
    rw [hD (i + 1) j (by omega) (by omega), hD i j (by omega) (by omega)]
    exact cell_vert _ p _ i hi
  · intro s hs'
    unfold colSeq
    apply colAt_size
    rw [hsize _ (by omega)]
    exact hslot s
  · intro B hB
    unfold colSeq
    have hlen0 : (initStates w (blocksOf w p) p.length k).length ≤ (blocksOf w p).length := by
      obtain ⟨_, _, P, band⟩ := run_inv w eqv p k N old (by omega) hp hold t 0 (by omega)
      have := ColEnc_length_le _ _ 0 band.col
      rw [List.take_zero, stateAfter_nil] at this
      exact this
    have h0 : 0 % N = 0 := Nat.zero_mod N
    rw [Nat.zero_sub, List.take_zero, h0, colAt_getD _ _ _ B ?_ hB]
    · exact guard_col w eqv p k N old hN hold hlen0 B hB
    · have := hsize 0 (by omega)
      rw [List.take_zero] at this
      rw [this]
      have := hslot 0
      rw [h0] at this
      exact this
  · intro j hj
    exact colfacts_concrete w eqv p k N old t hw hp hN hold j (by omega)

/-- **the states vector of the block-based search satisfies the assumptions of the handler theorem**: `c` symbols
consumed, traceback at the column of the end `stop ≤ c`, reads possible down to sequence number `c + 2 − N` -/
theorem storedL_concrete (hw : 2 ≤ w) (hp : 1 ≤ p.length) (hsmall : p.length + 2 * w + 2 ≤ umax) (hN : 2 ≤ N)
    (hold : old.length = N * (blocksOf w p).length) (c stop : Nat) (hc : c ≤ t.length) (hs : stop ≤ c) :
    StoredL (blocksOf w p).length p.length k (stop + 1) (c + 2 - N) (Dm (matrix (unitW eqv) p t))
      (colSeq w eqv p k N old t)
      (readColumn (blocksOf w p).length N (stateAfter w eqv p k N old (t.take c)).1 ((stop + 1) % N)) := by
  apply storedL_of_rd w eqv p k N old t hw hp hsmall hN hold stop _ (by omega)
  have hsize : ∀ c', c' ≤ t.length → (stateAfter w eqv p k N old (t.take c')).1.size = N * (blocksOf w p).length :=
    fun c' hc' => (run_inv w eqv p k N old (by omega) hp hold t c' hc').1
  have hslot : ∀ s, (s % N) * (blocksOf w p).length + (blocksOf w p).length ≤ N * (blocksOf w p).length :=
    fun s => slot_le _ N _ (Nat.mod_lt _ (by omega))
  intro n hn
  rw [readColumn_eq, readSlot_mod N (stop + 1) n (by omega) (by omega)]
  unfold colSeq
  apply colAt_congr
  · rw [hsize c hc]; exact hslot _
  · rw [hsize _ (by omega)]; exact hslot _
  · intro B hB
    exact keep w eqv p k N old (by omega) hp hold t (stop + 1 - n - 1) (stop + 1 - n) (by omega) c (by omega) hc
      (by omega) B hB

/-- what "the block-based handler `h` carries the true values at cell `(i + 1, j)`" means, in terms of the Sellers cells -/
def HandlerCellsL (w : Nat) (eqv : Nat → Nat → Bool) (p t : List Nat) (k i j : Nat) (h : LHandler w) : Prop :=
  h.blockPos * w ≤ i ∧ i < h.blockPos * w + w ∧ h.pos = BitVec.twoPow w (i - h.blockPos * w) ∧
  cell (unitW eqv) p (t.take j) (i + 1) ≤ k ∧
  h.block.dist = cell (unitW eqv) p (t.take j) (i + 1) ∧
  (1 ≤ j → h.leftBlock.dist = cell (unitW eqv) p (t.take (j - 1)) i) ∧
  (((h.leftBlock.dist + 1) % (umax + 1) = h.block.dist) ↔
    (1 ≤ j ∧ cell (unitW eqv) p (t.take (j - 1)) i + 1 = cell (unitW eqv) p (t.take j) (i + 1))) ∧
  (((h.block.pv &&& h.pos) != 0#w) =
    decide (cell (unitW eqv) p (t.take j) i + 1 = cell (unitW eqv) p (t.take j) (i + 1))) ∧
  (h.moveLeftDownIfBetter.1 =
    decide (1 ≤ j ∧ cell (unitW eqv) p (t.take (j - 1)) (i + 1) + 1 = cell (unitW eqv) p (t.take (j - 1)) i))

/-- after `n` passes through the loop body of `_traceback_at` at a hit, on the columns stored by the block-based search,
the handler is finished or its cursor is at some cell `(i + 1, j)` of value `≤ k` and carries the true values -/
theorem after_cellsL (hw : 2 ≤ w) (hp : 1 ≤ p.length) (hsmall : p.length + 2 * w + 2 ≤ umax) (hN : 2 ≤ N)
    (hold : old.length = N * (blocksOf w p).length) (stop n : Nat) (hs : stop ≤ t.length)
    (hhit : cell (unitW eqv) p (t.take stop) p.length ≤ k) :
    ((LHandler.after (blocksOf w p).length p.length (fun i => colSeq w eqv p k N old t (stop + 1 - i)) n).pos = 0#w ∧
      (LHandler.after (blocksOf w p).length p.length (fun i => colSeq w eqv p k N old t (stop + 1 - i)) n).blockPos = 0) ∨
    ∃ i j, i < p.length ∧ j ≤ stop ∧
      (LHandler.after (blocksOf w p).length p.length (fun i => colSeq w eqv p k N old t (stop + 1 - i)) n).taken =
        stop - j + 2 ∧
      HandlerCellsL w eqv p t k i j
        (LHandler.after (blocksOf w p).length p.length (fun i => colSeq w eqv p k N old t (stop + 1 - i)) n) := by
  have st := storedL_of_rd w eqv p k N old t hw hp hsmall hN hold stop 0 hs
    (fun i => colSeq w eqv p k N old t (stop + 1 - i)) (fun _ _ => rfl)
  have hD : ∀ i j, i ≤ p.length → j ≤ t.length → Dm (matrix (unitW eqv) p t) i j = cell (unitW eqv) p (t.take j) i :=
    fun i j hi hj => Dm_matrix _ p t i j hi hj
  have hinv := afterL_inv st (by omega) (by simp only [Nat.add_sub_cancel]; rw [hD _ _ (Nat.le_refl _) hs]; exact hhit) n
  simp only [Nat.add_sub_cancel] at hinv
  generalize LHandler.after (blocksOf w p).length p.length (fun i => colSeq w eqv p k N old t (stop + 1 - i)) n = h
    at hinv ⊢
  generalize curAfter (Dm (matrix (unitW eqv) p t)) p.length stop n = cur at hinv
  obtain ⟨ci, j⟩ := cur
  cases ci with
  | zero => left; exact hinv
  | succ i =>
    right
    simp only [LInvAny] at hinv
    obtain ⟨B, b, BL, a, inv⟩ := hinv
    have hi := inv.hi
    have hj := inv.hj
    have t1 := testL_subst st inv
    have t2 := testL_ins st inv
    have t3 := (mldib_spec st inv).1
    have sd := inv.bdist
    have hk := inv.hk
    have hlw := st.geo.len_le B
    have hb := inv.rg.hb
    have hrow := inv.rg.hrow
    rw [hD _ _ (by omega) (by omega)] at sd hk
    rw [hD _ _ (by omega) (by omega), hD _ _ (by omega) (by omega)] at t1 t2 t3
    refine ⟨i, j, hi, by omega, by have := inv.taken; omega, ?_, ?_, ?_, hk, sd, ?_, ?_, t2, ?_⟩
    · rw [inv.rg.blockPos]; omega
    · rw [inv.rg.blockPos]; omega
    · rw [inv.rg.blockPos, inv.rg.pos]; congr 1; omega
    · intro hj1
      have := inv.ldist hj1
      rw [hD _ _ (by omega) (by omega)] at this
      exact this
    · rw [t1]
    · rw [t3]

/-- **the stored-state traceback of the block-based version returns what the matrix rule returns** for a hit, whenever the
walk ends at a column whose left neighbour has not been overwritten in the ring (`c + 2 − N ≤ start`) -/
theorem tracebackStoreLAt_eq (hw : 2 ≤ w) (hp : 1 ≤ p.length) (hsmall : p.length + 2 * w + 2 ≤ umax) (hN : 2 ≤ N)
    (hold : old.length = N * (blocksOf w p).length) (c stop : Nat) (hc : c ≤ t.length) (hs : stop ≤ c)
    (hhit : cell (unitW eqv) p (t.take stop) p.length ≤ k)
    (hwin : c + 2 - N ≤ (traceback (unitW eqv) p t stop).1) :
    tracebackStoreLAt w eqv p k N old t c stop =
      ((traceback (unitW eqv) p t stop).1, cell (unitW eqv) p (t.take stop) p.length,
        (traceback (unitW eqv) p t stop).2) := by
  have st := storedL_concrete w eqv p k N old t hw hp hsmall hN hold c stop hc hs
  have hDm : Dm (matrix (unitW eqv) p t) p.length stop = cell (unitW eqv) p (t.take stop) p.length :=
    Dm_matrix _ p t p.length stop (Nat.le_refl _) (by omega)
  have hfuel := walkF_fuel (Dm (matrix (unitW eqv) p t)) (p.length + stop + 2 * (blocksOf w p).length) (p.length + stop)
    p.length stop (by omega) (by omega)
  unfold traceback at hwin ⊢
  simp only at hwin ⊢
  have h := tracebackRdL_eq st (by omega) (by simp only [Nat.add_sub_cancel]; rw [hDm]; exact hhit)
    (p.length + stop + 2 * (blocksOf w p).length) (by simp only [Nat.add_sub_cancel]; rw [hfuel]; exact hwin)
  simp only [Nat.add_sub_cancel] at h
  have hle := walkF_start_le (Dm (matrix (unitW eqv) p t)) (p.length + stop) p.length stop
  unfold tracebackStoreLAt tracebackNowL
  simp only [h, hfuel, hDm]
  congr 1
  omega

theorem mem_hitsFrom (k : Nat) : ∀ (row : List Nat) (j0 e d : Nat), (e, d) ∈ hitsFrom k j0 row →
    j0 ≤ e ∧ row[e - j0]? = some d ∧ d ≤ k := by
  intro row
  induction row with
  | nil => intro j0 e d h; simp [hitsFrom] at h
  | cons x r ih =>
    intro j0 e d h
    simp only [hitsFrom] at h
    have tail : (e, d) ∈ hitsFrom k (j0 + 1) r → j0 ≤ e ∧ (x :: r)[e - j0]? = some d ∧ d ≤ k := by
      intro h'
      obtain ⟨a, b, c⟩ := ih (j0 + 1) e d h'
      have e1 : e - j0 = (e - (j0 + 1)) + 1 := by omega
      exact ⟨by omega, by rw [e1]; simpa using b, c⟩
    split at h
    · rename_i hx
      rcases List.mem_cons.mp h with h1 | h1
      · injection h1 with a b
        subst a b
        exact ⟨Nat.le_refl _, by simp, hx⟩
      · exact tail h1
    · exact tail h

end concrete

/-! ### the driver's single pass -/

theorem scanGoL_eq (w : Nat) (eqv : Nat → Nat → Bool) (p : List Nat) (k N : Nat) (old : List (St w))
    (want : Nat → Bool) : ∀ (rest u : List Nat) (store : Array (St w)) (sts : List (St w)),
    stateAfter w eqv p k N old u = (store, sts, u.length) →
    scanGoL w eqv (blocksOf w p) p.length k N want store sts u.length rest =
      ((List.range' u.length (rest.length + 1)).filter want).map
        (fun c => (c, tracebackStoreL w eqv p k N old (u ++ rest) c)) := by
  intro rest
  induction rest with
  | nil =>
    intro u store sts h
    have hnow : tracebackStoreL w eqv p k N old u u.length =
        tracebackNowL (blocksOf w p).length p.length N store u.length := by
      unfold tracebackStoreL tracebackStoreLAt
      rw [List.take_length, h]
    simp only [scanGoL, List.length_nil, Nat.zero_add, List.range'_one, List.append_nil]
    cases hw : want u.length <;> simp [List.filter, hw, hnow]
  | cons a rest ih =>
    intro u store sts h
    have hnow : tracebackStoreL w eqv p k N old (u ++ a :: rest) u.length =
        tracebackNowL (blocksOf w p).length p.length N store u.length := by
      unfold tracebackStoreL tracebackStoreLAt
      rw [List.take_left' rfl, h]
    have h' : stateAfter w eqv p k N old (u ++ [a]) =
        (addColumn (blocksOf w p).length store ((u.length + 2) % N) (stepStates eqv (blocksOf w p) k a sts),
          stepStates eqv (blocksOf w p) k a sts, (u ++ [a]).length) := by
      rw [stateAfter_snoc, h]
      simp [stepStore]
    have ih' := ih (u ++ [a]) _ _ h'
    simp only [List.length_append, List.length_cons, List.length_nil, Nat.zero_add, List.append_assoc,
      List.cons_append, List.nil_append] at ih'
    simp only [scanGoL, ih', List.length_cons]
    rw [List.range'_succ (s := u.length) (n := rest.length + 1)]
    cases hw : want u.length <;> simp [List.filter, hw, hnow]

/-- **the driver's single pass is the proved function**: for every wanted end `c` (number of symbols consumed, `0 … |t|`)
`scanStoreL` reports `tracebackStoreL … t c` -/
theorem scanStoreL_eq (w : Nat) (eqv : Nat → Nat → Bool) (p : List Nat) (k N : Nat) (old : List (St w)) (t : List Nat)
    (want : Nat → Bool) :
    scanStoreL w eqv p k N old t want =
      ((List.range (t.length + 1)).filter want).map (fun c => (c, tracebackStoreL w eqv p k N old t c)) := by
  unfold scanStoreL
  have := scanGoL_eq w eqv p k N old want t [] _ _ (stateAfter_nil w eqv p k N old)
  simp only [List.length_nil, List.nil_append] at this
  simp only
  rw [this, List.range_eq_range']

end RbV.Model.MyersTracebackLong
