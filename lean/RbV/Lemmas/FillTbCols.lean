import RbV.Lemmas.FillTbRows
/-!
Traceback proof, fill side, part 3: the columns `j < n`.  Their traceback cells are never written again, so the final
table holds exactly what the main loop wrote: `gca_all` — every S, I and D code of every cell of these columns is good
for the value of its score cell (induction over `j`, inside a column over `i`).
-/
namespace RbV.Model.PairwiseFill
open RbV.Align

section
variable {sc : Sc} {cl : Clip} {x y : List Nat} {W : Int}

/-- all codes of cell `(i, j)` are good, and the registers are explained -/
structure GCA (sc : Sc) (cl : Clip) (x y : List Nat) (j i : Nat) : Prop where
  S : GoodF sc cl x y i j (cell sc cl x y j i).t.ts (cell sc cl x y j i).s
  I : 1 ≤ i → GoodF sc cl x y i j .ins (cell sc cl x y j i).i
  mr : MR sc cl x y j i

/-- in a column `j < n` the default code of row `m` is good as well: `Lx[j]` is final -/
theorem sorx_good {j i : Nat} (hj : j < y.length) (h : SorX sc cl x y j i)
    (hrows : ∀ k, k < x.length → k < i →
      GoodF sc cl x y k j (cell sc cl x y j k).t.ts (cell sc cl x y j k).s) :
    GoodF sc cl x y i j (cell sc cl x y j i).t.ts (cell sc cl x y j i).s := by
  rcases h with h | ⟨hm, hts, k, hk1, hk2, hlx, hv⟩
  · exact h.1
  · subst hm
    rw [hts]
    have hl : (finalT sc cl x y).lx j = x.length - k := by rw [table_lx_lt sc cl x y j hj, hlx]
    have hG := hrows k hk2 hk2
    rw [← table_tS_lt sc cl x y k j hj] at hG
    refine good_xsuf (sc := sc) (cl := cl) (x := x) (y := y) (T := finalT sc cl x y)
      (v' := (cell sc cl x y j k).s) (by rw [hl]; omega) (by rw [hl]; omega) ?_ hv
    rw [hl, show x.length - (x.length - k) = k by omega]
    exact hG

theorem cell_row0_ge (j : Nat) :
    max cl.yp (sc.go + sc.ge * ((j + 1 : Nat) : Int)) ≤ (cell sc cl x y (j + 1) 0).s := by
  rw [cell_succ_zero, rowJ0_eq]
  dsimp only
  have := dv0_ge (sc := sc) (cl := cl) (j + 1) (by omega)
  split <;> omega

theorem cell_col0_ge (hxs : cl.xs ≤ 0) (i : Nat) (hi : i + 1 ≤ x.length) :
    sc.go + sc.ge * ((i + 1 : Nat) : Int) ≤ (cell sc cl x y 0 (i + 1)).s := by
  have := (cell_lower (sc := sc) (cl := cl) (x := x) (y := y) hxs 0 (Nat.zero_le _) (i + 1) hi).1
  have e : Lw sc (i + 1) 0 = sc.go + sc.ge * ((i + 1 : Nat) : Int) := by simp [Lw]
  omega

theorem cell_col0_i_ge (hxs : cl.xs ≤ 0) (i : Nat) (hi : i ≤ x.length) (h1 : 1 ≤ i) :
    sc.go + sc.ge * (i : Int) ≤ (cell sc cl x y 0 i).i := by
  have := (cell_lower (sc := sc) (cl := cl) (x := x) (y := y) hxs 0 (Nat.zero_le _) i hi).2 h1
  have e : Lw sc i 0 = sc.go + sc.ge * (i : Int) := by simp [Lw]; omega
  omega

/-- column 0, when it is not the last one -/
theorem gca_col0 (H : Hyp sc cl x y W)
    (hs : minScore + ((x.length : Int) + y.length) * W < 2 * sc.go + sc.ge * ((x.length : Int) + y.length))
    (hn : 0 < y.length) : ∀ i, i ≤ x.length → ∀ k, k ≤ i → GCA sc cl x y 0 k := by
  have hO : OriginOK sc cl x y := origin_of_pos hn
  intro i
  induction i with
  | zero =>
    intro _ k hk
    have : k = 0 := by omega
    subst this
    refine ⟨?_, fun h => by omega, mr_row00⟩
    rw [cell_zero_zero]; exact good_start (Int.le_refl 0)
  | succ i ih =>
    intro hi k hk
    by_cases hki : k ≤ i
    · exact ih (by omega) k hki
    · have : k = i + 1 := by omega
      subst this
      have hprev := ih (by omega)
      have hI : GoodF sc cl x y (i + 1) 0 .ins (cell sc cl x y 0 (i + 1)).i := by
        rw [cell_zero_succ _ _ _ _ _ hi]
        refine step0_good_I H.go _ hi ?_ hO (fun h1 => ⟨(hprev i (Nat.le_refl _)).I h1, cell_col0_i_ge H.xs i (by omega) h1⟩)
        rw [table_tI_lt sc cl x y (i + 1) 0 hn, cell_zero_succ _ _ _ _ _ hi]
      have hmr := mr_step0 H hs i hi hO hI (fun hlt => (hprev i (Nat.le_refl _)).mr.Trk hlt)
      exact ⟨sorx_good hn hmr.S (fun k _ hk => (hprev k (by omega)).S), fun _ => hI, hmr⟩

/-- **all columns before the last**: every code is good for the value next to it -/
theorem gca_all (H : Hyp sc cl x y W)
    (hs : minScore + ((x.length : Int) + y.length) * W < 2 * sc.go + sc.ge * ((x.length : Int) + y.length)) :
    ∀ j, j < y.length → ∀ jj, jj ≤ j → ∀ i, i ≤ x.length → GCA sc cl x y jj i := by
  intro j
  induction j with
  | zero =>
    intro hn jj hjj i hi
    have : jj = 0 := by omega
    subst this
    exact gca_col0 H hs hn i hi i (Nat.le_refl _)
  | succ j ihj =>
    intro hj jj hjj
    by_cases hle : jj ≤ j
    · exact ihj (by omega) jj hle
    · have : jj = j + 1 := by omega
      subst this
      have hprev := ihj (by omega)
      -- rows of column `j + 1`, keeping all rows above
      have hrows : ∀ i, i ≤ x.length → ∀ k, k ≤ i → GCA sc cl x y (j + 1) k := by
        intro i
        induction i with
        | zero =>
          intro _ k hk
          have : k = 0 := by omega
          subst this
          obtain ⟨hmr, hS⟩ := mr_rowJ0 H hs j (by omega) (hprev j (Nat.le_refl _) 0 (Nat.zero_le _)).mr
            (fun jj hjj => (hprev jj hjj 0 (Nat.zero_le _)).S)
          exact ⟨hS, fun h => by omega, hmr⟩
        | succ i ih =>
          intro hi k hk
          by_cases hki : k ≤ i
          · exact ih (by omega) k hki
          · have : k = i + 1 := by omega
            subst this
            have hup := ih (by omega)
            have hr := hup i (Nat.le_refl _)
            have hcell := cell_succ_succ sc cl x y j i hi
            have hI : GoodF sc cl x y (i + 1) (j + 1) .ins (cell sc cl x y (j + 1) (i + 1)).i := by
              rw [hcell]
              refine ins_good_main H.go (cell sc cl x y (j + 1) i) hi ?_ hr.S hr.I (fun h0 => ?_)
              · rw [table_tI_lt sc cl x y (i + 1) (j + 1) hj, hcell]; rfl
              · subst h0
                have h1 := cell_s_go_row0 H hs (j + 1) (by omega)
                have h2 : (cell sc cl x y (j + 1) 0).i = minScore := by rw [cell_succ_zero]; rfl
                omega
            have hX : ∃ v0, GoodF sc cl x y 0 (j + 1) ((finalT sc cl x y).tS 0 (j + 1)) v0 ∧
                max cl.yp (sc.go + sc.ge * ((j + 1 : Nat) : Int)) ≤ v0 := by
              refine ⟨(cell sc cl x y (j + 1) 0).s, ?_, cell_row0_ge j⟩
              rw [table_tS_lt sc cl x y 0 (j + 1) hj]
              exact (hup 0 (Nat.zero_le _)).S
            have hY : ∃ v0, GoodF sc cl x y (i + 1) 0 ((finalT sc cl x y).tS (i + 1) 0) v0 ∧
                sc.go + sc.ge * ((i + 1 : Nat) : Int) ≤ v0 := by
              refine ⟨(cell sc cl x y 0 (i + 1)).s, ?_, cell_col0_ge H.xs i hi⟩
              rw [table_tS_lt sc cl x y (i + 1) 0 (by omega)]
              exact (hprev 0 (Nat.zero_le _) (i + 1) hi).S
            have hTrk : TrkOK sc cl x y (j + 1) i := hr.mr.Trk (by omega)
            have hmr := mr_stepJ H hs j i (by omega) hi (hprev j (Nat.le_refl _) i (by omega)).S
              (hprev j (Nat.le_refl _) (i + 1) hi).S (hprev j (Nat.le_refl _) (i + 1) hi).mr.D
              (hprev j (Nat.le_refl _) (i + 1) hi).mr.Sn hI hX hY hTrk
            exact ⟨sorx_good hj hmr.S (fun k _ hk => (hup k (by omega)).S), fun _ => hI, hmr⟩
      intro i hi
      exact hrows i hi i (Nat.le_refl _)

end

end RbV.Model.PairwiseFill
