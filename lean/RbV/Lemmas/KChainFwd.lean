import RbV.Model.LcskFwd
import RbV.Lemmas.KChain
/-! The forward recurrence computes, for every match, the best score of a valid chain *ending* there. Core only. -/
namespace RbV.KChain

/-- chain written latest match first -/
def RChain (k : Nat) : List M → Prop
  | [] => True
  | [_] => True
  | b :: a :: r => Link k a b ∧ RChain k (a :: r)

def rscore (k : Nat) : List M → Nat
  | [] => 0
  | [_] => k
  | b :: a :: r => step k a b + rscore k (a :: r)

theorem rchain_x_lt {k : Nat} (hk : 0 < k) {a : M} {c : List M} (h : RChain k (a :: c)) : ∀ e ∈ c, e.1 < a.1 := by
  induction c generalizing a with
  | nil => intro e he; cases he
  | cons b r ih =>
    intro e he
    have hab := link_x_lt hk h.1
    rcases List.mem_cons.mp he with rfl | he
    · exact hab
    · have := ih h.2 e he; omega

theorem tableR_fst (k : Nat) (rs : List M) : (tableR k rs).map (·.1) = rs := by
  induction rs with
  | nil => rfl
  | cons m rest ih => simp [tableR, ih]

theorem exists_entryR {k : Nat} {rs : List M} {b : M} (h : b ∈ rs) : ∃ v, (b, v) ∈ tableR k rs := by
  rw [← tableR_fst k rs] at h
  rcases List.mem_map.mp h with ⟨⟨b', v⟩, hm, rfl⟩
  exact ⟨v, hm⟩

theorem entry_memR {k : Nat} {rs : List M} {b : M} {v : Nat} (h : (b, v) ∈ tableR k rs) : b ∈ rs := by
  rw [← tableR_fst k rs]
  exact List.mem_map.mpr ⟨(b, v), h, rfl⟩

theorem k_le_cellF (k : Nat) (T : List (M × Nat)) (m : M) : k ≤ cellF k T m := by
  unfold cellF; omega

theorem step_add_le_cellF {k : Nat} {T : List (M × Nat)} {m a : M} {v : Nat} (h : (a, v) ∈ T)
    (hl : Link k a m) : step k a m + v ≤ cellF k T m := by
  unfold step cellF
  by_cases hn : nonov k a m = true
  · simp only [hn, if_true]
    have : v ≤ max0 ((T.filter (fun e => nonov k e.1 m)).map (·.2)) :=
      le_max0_of_mem (List.mem_map.mpr ⟨(a, v), List.mem_filter.mpr ⟨h, hn⟩, rfl⟩)
    omega
  · have hn' : nonov k a m = false := by simpa using hn
    simp only [hn', Bool.false_eq_true, if_false]
    have hc : cont a m = true := by
      have := (link_iff k a m).mpr hl
      simp only [link, Bool.or_eq_true] at this
      rcases this with h' | h'
      · exact absurd h' hn
      · exact h'
    have : v + 1 ≤ max0 ((T.filter (fun e => cont e.1 m)).map (fun e => e.2 + 1)) :=
      le_max0_of_mem (List.mem_map.mpr ⟨(a, v), List.mem_filter.mpr ⟨h, hc⟩, rfl⟩)
    omega

theorem tableR_upper {k : Nat} (hk : 0 < k) (rs : List M) (hs : rs.Pairwise (fun a b => b.1 ≤ a.1)) :
    ∀ m v, (m, v) ∈ tableR k rs → ∀ c, RChain k (m :: c) → (∀ e ∈ c, e ∈ rs) → rscore k (m :: c) ≤ v := by
  induction rs with
  | nil => intro m v h; cases h
  | cons m0 rest ih =>
    rw [List.pairwise_cons] at hs
    intro m v hmv c hc hsub
    simp only [tableR, List.mem_cons] at hmv
    have hx := rchain_x_lt hk hc
    rcases hmv with heq | hT
    · have hm : m = m0 := congrArg Prod.fst heq
      have hv : v = cellF k (tableR k rest) m0 := congrArg Prod.snd heq
      subst hm hv
      have hrest : ∀ e ∈ c, e ∈ rest := by
        intro e he
        rcases List.mem_cons.mp (hsub e he) with h | h
        · have := hx e he; rw [h] at this; omega
        · exact h
      cases c with
      | nil => simp only [rscore]; exact k_le_cellF _ _ _
      | cons b r =>
        simp only [rscore]
        obtain ⟨vb, hvb⟩ := exists_entryR (k := k) (hrest b (by simp))
        have h1 := ih hs.2 b vb hvb r hc.2 (fun e he => hrest e (by simp [he]))
        have h2 := step_add_le_cellF hvb hc.1
        omega
    · have hm : m ∈ rest := entry_memR hT
      have hrest : ∀ e ∈ c, e ∈ rest := by
        intro e he
        rcases List.mem_cons.mp (hsub e he) with h | h
        · have h1 := hx e he
          have h2 := hs.1 m hm
          rw [h] at h1; omega
        · exact h
      exact ih hs.2 m v hT c hc hrest

theorem tableR_attained {k : Nat} (hk : 0 < k) (rs : List M) :
    ∀ m v, (m, v) ∈ tableR k rs →
      ∃ c, RChain k (m :: c) ∧ (∀ e ∈ m :: c, e ∈ rs) ∧ rscore k (m :: c) = v := by
  induction rs with
  | nil => intro m v h; cases h
  | cons m0 rest ih =>
    intro m v hmv
    simp only [tableR, List.mem_cons] at hmv
    rcases hmv with heq | hT
    · have hm : m = m0 := congrArg Prod.fst heq
      have hv : v = cellF k (tableR k rest) m0 := congrArg Prod.snd heq
      subst hm
      let A := ((tableR k rest).filter (fun e => nonov k e.1 m)).map (·.2)
      let B := ((tableR k rest).filter (fun e => cont e.1 m)).map (fun e => e.2 + 1)
      have hcell : cellF k (tableR k rest) m = max (k + max0 A) (max0 B) := rfl
      by_cases hAB : max0 B ≤ k + max0 A
      · rw [hcell, Nat.max_eq_left hAB] at hv
        rcases max0_zero_or_mem A with h0 | hmem
        · exact ⟨[], trivial, by simp, by simp [rscore, hv, h0]⟩
        · rcases List.mem_map.mp hmem with ⟨⟨b, vb⟩, hb, hbv⟩
          rcases List.mem_filter.mp hb with ⟨hbT, hbn⟩
          obtain ⟨c, hc, hsub, hsc⟩ := ih b vb hbT
          refine ⟨b :: c, ⟨(link_iff k b m).mp (by simp only [link, Bool.or_eq_true]; left; exact hbn), hc⟩, ?_, ?_⟩
          · intro e he
            rcases List.mem_cons.mp he with rfl | he
            · simp
            · exact List.mem_cons_of_mem _ (hsub e he)
          · simp only [rscore, step]
            have hbn' : nonov k b m = true := hbn
            simp only [hbn', if_true, hsc, hv]
            simp only at hbv
            omega
      · rw [hcell, Nat.max_eq_right (by omega)] at hv
        rcases max0_zero_or_mem B with h0 | hmem
        · omega
        · rcases List.mem_map.mp hmem with ⟨⟨b, vb⟩, hb, hbv⟩
          rcases List.mem_filter.mp hb with ⟨hbT, hbc⟩
          have hbc' : cont b m = true := hbc
          obtain ⟨c, hc, hsub, hsc⟩ := ih b vb hbT
          have hnot : nonov k b m = false := by
            apply Bool.eq_false_iff.mpr
            intro hn
            have hge : vb ≤ max0 A :=
              le_max0_of_mem (List.mem_map.mpr ⟨(b, vb), List.mem_filter.mpr ⟨hbT, hn⟩, rfl⟩)
            simp only at hbv
            omega
          refine ⟨b :: c, ⟨(link_iff k b m).mp (by simp only [link, Bool.or_eq_true]; right; exact hbc'), hc⟩, ?_, ?_⟩
          · intro e he
            rcases List.mem_cons.mp he with rfl | he
            · simp
            · exact List.mem_cons_of_mem _ (hsub e he)
          · simp only [rscore, step, hnot, Bool.false_eq_true, if_false, hsc, hv]
            simp only at hbv
            omega
    · obtain ⟨c, hc, hsub, hsc⟩ := ih m v hT
      exact ⟨c, hc, fun e he => List.mem_cons_of_mem _ (hsub e he), hsc⟩

/-! ### reversed chains are chains -/

theorem chain_snoc (k : Nat) (l : List M) (b : M) :
    Chain k (l ++ [b]) ↔ Chain k l ∧ ∀ a, l.getLast? = some a → Link k a b := by
  induction l with
  | nil => simp [Chain]
  | cons x l ih =>
    cases l with
    | nil => simp [Chain]
    | cons y r =>
      have e : x :: y :: r ++ [b] = x :: y :: (r ++ [b]) := rfl
      rw [e]
      simp only [Chain]
      have ih' := ih
      simp only [List.cons_append] at ih'
      rw [ih']
      simp only [List.getLast?_cons_cons]
      constructor
      · rintro ⟨h1, h2, h3⟩; exact ⟨⟨h1, h2⟩, h3⟩
      · rintro ⟨⟨h1, h2⟩, h3⟩; exact ⟨h1, h2, h3⟩

theorem score_snoc (k : Nat) (l : List M) (b : M) :
    score k (l ++ [b]) = match l.getLast? with
      | none => k
      | some a => score k l + step k a b := by
  induction l with
  | nil => simp [score]
  | cons x l ih =>
    cases l with
    | nil => simp [score]; omega
    | cons y r =>
      have e : x :: y :: r ++ [b] = x :: y :: (r ++ [b]) := rfl
      rw [e]
      simp only [score]
      have ih' := ih
      simp only [List.cons_append, List.getLast?_cons_cons] at ih' ⊢
      rw [ih']
      cases hr : (y :: r).getLast? with
      | none => simp at hr
      | some a => simp only; omega

theorem rchain_iff (k : Nat) (c : List M) : RChain k c ↔ Chain k c.reverse := by
  induction c with
  | nil => simp [RChain, Chain]
  | cons b c ih =>
    cases c with
    | nil => simp [RChain, Chain]
    | cons a r =>
      simp only [RChain, List.reverse_cons] at ih ⊢
      rw [chain_snoc, ih]
      constructor
      · rintro ⟨h1, h2⟩
        refine ⟨h2, fun x hx => ?_⟩
        simp at hx; rw [← hx]; exact h1
      · rintro ⟨h1, h2⟩
        exact ⟨h2 a (by simp), h1⟩

theorem rscore_eq (k : Nat) (c : List M) : rscore k c = score k c.reverse := by
  induction c with
  | nil => simp [rscore, score]
  | cons b c ih =>
    cases c with
    | nil => simp [rscore, score]
    | cons a r =>
      simp only [rscore, List.reverse_cons] at ih ⊢
      rw [score_snoc, ih]
      have : ((r.reverse ++ [a]).getLast?) = some a := by simp
      rw [this]; simp only; omega

end RbV.KChain
