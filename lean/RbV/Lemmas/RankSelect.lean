import RbV.Spec.RankSelect
/-! Lemmas behind `RbV/Thm/C17.lean`: the one-pass tables equal the declarative rank / select. Core only. -/
namespace RbV.Lemmas.RankSelect
open RbV.Spec.RankSelect

theorem rank_cons_succ (b x : Bool) (xs : List Bool) (i : Nat) :
    rank b (x :: xs) (i + 1) = (if x = b then 1 else 0) + rank b xs i := by
  unfold rank
  rw [List.take_succ_cons, List.count_cons]
  by_cases h : x = b <;> simp [h] <;> omega

theorem rank_cons_zero (b x : Bool) (xs : List Bool) :
    rank b (x :: xs) 0 = (if x = b then 1 else 0) := by
  unfold rank
  by_cases h : x = b <;> simp [h]

theorem prefixCounts_getElem? (b : Bool) (bits : List Bool) (acc i : Nat) :
    (prefixCounts b bits acc)[i]? = if i < bits.length then some (acc + rank b bits i) else none := by
  induction bits generalizing acc i with
  | nil => simp [prefixCounts]
  | cons x xs ih =>
    cases i with
    | zero =>
      simp only [prefixCounts, List.getElem?_cons_zero, List.length_cons, Nat.zero_lt_succ, if_true,
        rank_cons_zero]
      by_cases h : x = b <;> simp [h]
    | succ i =>
      simp only [prefixCounts, List.getElem?_cons_succ, ih, List.length_cons, Nat.succ_lt_succ_iff,
        rank_cons_succ]
      by_cases h : x = b <;> simp [h, Nat.add_assoc]

theorem rank_pos_of_getElem? (b : Bool) (bits : List Bool) (q : Nat) (h : bits[q]? = some b) :
    1 ≤ rank b bits q := by
  unfold rank
  have : b ∈ bits.take (q + 1) := by
    apply List.mem_of_getElem? (i := q)
    rw [List.getElem?_take]; simp [h]
  exact List.count_pos_iff.mpr this

theorem positions_getElem? (b : Bool) (bits : List Bool) (off k p : Nat) :
    (positions b bits off)[k]? = some p ↔
      ∃ q, p = off + q ∧ bits[q]? = some b ∧ rank b bits q = k + 1 := by
  induction bits generalizing off k with
  | nil => simp [positions]
  | cons x xs ih =>
    by_cases hx : x = b
    · simp only [positions, hx, if_true]
      cases k with
      | zero =>
        simp only [List.getElem?_cons_zero, Option.some.injEq]
        constructor
        · rintro rfl; exact ⟨0, rfl, by simp, by simp [rank_cons_zero]⟩
        · rintro ⟨q, rfl, h1, h2⟩
          cases q with
          | zero => rfl
          | succ q =>
            rw [rank_cons_succ] at h2
            simp only [List.getElem?_cons_succ] at h1
            have := rank_pos_of_getElem? b xs q h1
            simp at h2; omega
      | succ k =>
        simp only [List.getElem?_cons_succ, ih]
        constructor
        · rintro ⟨q, rfl, h1, h2⟩
          exact ⟨q + 1, by omega, by simpa using h1, by rw [rank_cons_succ]; simp; omega⟩
        · rintro ⟨q, rfl, h1, h2⟩
          cases q with
          | zero => rw [rank_cons_zero] at h2; simp at h2
          | succ q =>
            rw [rank_cons_succ] at h2
            exact ⟨q, by omega, by simpa using h1, by simp at h2; omega⟩
    · simp only [positions, hx, if_false, ih]
      constructor
      · rintro ⟨q, rfl, h1, h2⟩
        exact ⟨q + 1, by omega, by simpa using h1, by rw [rank_cons_succ]; simp [hx]; exact h2⟩
      · rintro ⟨q, rfl, h1, h2⟩
        cases q with
        | zero => simp at h1; exact absurd h1 hx
        | succ q =>
          rw [rank_cons_succ] at h2
          exact ⟨q, by omega, by simpa using h1, by simpa [hx] using h2⟩

theorem positions_length (b : Bool) (bits : List Bool) (off : Nat) :
    (positions b bits off).length = bits.count b := by
  induction bits generalizing off with
  | nil => simp [positions]
  | cons x xs ih =>
    by_cases hx : x = b <;> simp [positions, hx, ih]

end RbV.Lemmas.RankSelect
