import RbV.Model.KmerHash
import RbV.Lemmas.QGram
/-! C19 — the hash-map based k-mer matcher equals the reference `kmerMatches`.  Core Lean only. -/
namespace RbV.Lemmas.KmerHash
open RbV.QGram RbV.Model.KmerHash

theorem getD_entryPush (key key' : List Nat) (i : Nat) (m : HMap) :
    (hmGet key' (entryPush key i m)).getD [] = (hmGet key' m).getD [] ++ (if key = key' then [i] else []) := by
  induction m with
  | nil =>
    by_cases h : key = key' <;> simp [entryPush, hmGet, h]
  | cons e r ih =>
    obtain ⟨k', v⟩ := e
    by_cases h1 : k' = key
    · subst h1
      by_cases h2 : k' = key' <;> simp [entryPush, hmGet, h2]
    · by_cases h2 : k' = key'
      · subst h2
        have h3 : ¬ key = k' := fun e => h1 e.symm
        simp [entryPush, hmGet, h1, h3]
      · simp only [entryPush, hmGet, h1, h2, if_false]
        exact ih

theorem getD_foldl (f : Nat → List Nat) (key : List Nat) (is : List Nat) (m : HMap) :
    (hmGet key (is.foldl (fun set i => entryPush (f i) i set) m)).getD [] =
      (hmGet key m).getD [] ++ is.filter (fun i => f i = key) := by
  induction is generalizing m with
  | nil => simp
  | cons a r ih =>
    simp only [List.foldl_cons]
    rw [ih, getD_entryPush]
    by_cases h : f a = key <;> simp [h]

/-- **`hash_kmers`**: the vector stored under a k-mer lists exactly its occurrence positions, ascending -/
theorem hashKmers_get (seq : List Nat) (k : Nat) (key : List Nat) :
    (hmGet key (hashKmers seq k)).getD [] =
      (List.range (seq.length + 1 - k)).filter (fun i => window k seq i = key) := by
  unfold hashKmers
  rw [getD_foldl]; simp [hmGet]

theorem foldl_push_eq_flatMap {β : Type} (g : Nat → Option (List Nat)) (h : Nat → Nat → β) (is : List Nat) (acc : List β) :
    is.foldl (fun ms i => match g i with
        | some m1 => ms ++ m1.map (h i)
        | none => ms) acc = acc ++ is.flatMap (fun i => ((g i).getD []).map (h i)) := by
  induction is generalizing acc with
  | nil => simp
  | cons a r ih =>
    simp only [List.foldl_cons, List.flatMap_cons]
    rw [ih]
    cases g a <;> simp

theorem pairLe_trans (a b c : Nat × Nat) : pairLe a b = true → pairLe b c = true → pairLe a c = true := by
  simp only [pairLe, Bool.or_eq_true, Bool.and_eq_true, decide_eq_true_eq, beq_iff_eq]; omega

theorem pairLe_total (a b : Nat × Nat) : (pairLe a b || pairLe b a) = true := by
  simp only [pairLe, Bool.or_eq_true, Bool.and_eq_true, decide_eq_true_eq, beq_iff_eq]; omega

/-- sorting a duplicate-free list of pairs gives a strictly sorted list -/
theorem mergeSort_strict (l : List (Nat × Nat)) (hn : l.Nodup) : (l.mergeSort pairLe).Pairwise lexLt := by
  have h1 : (l.mergeSort pairLe).Pairwise (fun a b => pairLe a b = true) := List.pairwise_mergeSort pairLe_trans pairLe_total l
  have h2 : (l.mergeSort pairLe).Nodup := (List.mergeSort_perm l pairLe).nodup_iff.mpr hn
  apply (h1.and h2).imp
  rintro a b ⟨hle, hne⟩
  simp only [pairLe, Bool.or_eq_true, Bool.and_eq_true, decide_eq_true_eq, beq_iff_eq] at hle
  unfold lexLt
  have : ¬ (a.1 = b.1 ∧ a.2 = b.2) := fun h => hne (Prod.ext h.1 h.2)
  omega

/-- the pushed pairs, one block per position of the scanned sequence -/
def pushed {β : Type} (n1 n2 k : Nat) (hashed scanned : List Nat) (h : Nat → Nat → β) : List β :=
  (List.range n2).flatMap (fun i =>
    ((List.range n1).filter (fun p => window k hashed p = window k scanned i)).map (h i))

theorem mem_pushed {β : Type} (n1 n2 k : Nat) (hashed scanned : List Nat) (h : Nat → Nat → β) (b : β) :
    b ∈ pushed n1 n2 k hashed scanned h ↔
      ∃ i p, i < n2 ∧ p < n1 ∧ window k hashed p = window k scanned i ∧ b = h i p := by
  unfold pushed
  simp only [List.mem_flatMap, List.mem_range, List.mem_map, List.mem_filter, decide_eq_true_eq]
  constructor
  · rintro ⟨i, hi, p, ⟨hp, hw⟩, rfl⟩; exact ⟨i, p, hi, hp, hw, rfl⟩
  · rintro ⟨i, p, hi, hp, hw, rfl⟩; exact ⟨i, hi, p, ⟨hp, hw⟩, rfl⟩

theorem pushed_nodup {β : Type} (n1 n2 k : Nat) (hashed scanned : List Nat) (h : Nat → Nat → β)
    (hinj : ∀ i p i' p', h i p = h i' p' → i = i' ∧ p = p') : (pushed n1 n2 k hashed scanned h).Nodup := by
  unfold pushed List.Nodup
  rw [List.pairwise_flatMap]
  constructor
  · intro i _
    rw [List.pairwise_map]
    have : (List.range n1).Pairwise (· < ·) := List.pairwise_lt_range
    apply (this.filter _).imp
    intro a b hab e
    have := (hinj _ _ _ _ e).2; omega
  · have : (List.range n2).Pairwise (· < ·) := List.pairwise_lt_range
    apply this.imp
    intro a b hab x hx y hy e
    rcases List.mem_map.mp hx with ⟨p, _, rfl⟩
    rcases List.mem_map.mp hy with ⟨q, _, rfl⟩
    have := (hinj _ _ _ _ e).1; omega

theorem seq1Hashed_eq (seq1 seq2 : List Nat) (k : Nat) :
    seq1Hashed (hashKmers seq1 k) seq2 k =
      (pushed (seq1.length + 1 - k) (seq2.length + 1 - k) k seq1 seq2 (fun i p => (p, i))).mergeSort pairLe := by
  unfold seq1Hashed
  refine Eq.trans (congrArg (fun l => l.mergeSort pairLe)
    (foldl_push_eq_flatMap (fun i => hmGet (window k seq2 i) (hashKmers seq1 k)) (fun i p => (p, i)) _ [])) ?_
  simp only [List.nil_append, hashKmers_get]
  rfl

theorem seq2Hashed_eq (seq1 seq2 : List Nat) (k : Nat) :
    seq2Hashed seq1 (hashKmers seq2 k) k =
      (pushed (seq2.length + 1 - k) (seq1.length + 1 - k) k seq2 seq1 (fun i p => (i, p))).mergeSort pairLe := by
  unfold seq2Hashed
  refine Eq.trans (congrArg (fun l => l.mergeSort pairLe)
    (foldl_push_eq_flatMap (fun i => hmGet (window k seq1 i) (hashKmers seq2 k)) (fun i p => (i, p)) _ [])) ?_
  simp only [List.nil_append, hashKmers_get]
  rfl

theorem seq1Hashed_correct (x y : List Nat) (k : Nat) : seq1Hashed (hashKmers x k) y k = kmerMatches x y k := by
  rw [seq1Hashed_eq]
  apply pairwise_eq_of_mem_iff lexLt lexLt_irrefl lexLt_asymm _ _ _ (kmerMatches_sorted x y k)
  · rintro ⟨i, j⟩
    rw [(List.mergeSort_perm _ _).mem_iff, mem_pushed, mem_kmerMatches]
    constructor
    · rintro ⟨i', p, hi, hp, hw, he⟩
      obtain ⟨rfl, rfl⟩ := Prod.mk.inj he
      exact ⟨by omega, by omega, hw⟩
    · rintro ⟨h1, h2, hw⟩
      exact ⟨j, i, by omega, by omega, hw, rfl⟩
  · apply mergeSort_strict
    apply pushed_nodup
    intro i p i' p' e
    obtain ⟨h1, h2⟩ := Prod.mk.inj e
    exact ⟨h2, h1⟩

theorem seq2Hashed_correct (x y : List Nat) (k : Nat) : seq2Hashed x (hashKmers y k) k = kmerMatches x y k := by
  rw [seq2Hashed_eq]
  apply pairwise_eq_of_mem_iff lexLt lexLt_irrefl lexLt_asymm _ _ _ (kmerMatches_sorted x y k)
  · rintro ⟨i, j⟩
    rw [(List.mergeSort_perm _ _).mem_iff, mem_pushed, mem_kmerMatches]
    constructor
    · rintro ⟨i', p, hi, hp, hw, he⟩
      obtain ⟨rfl, rfl⟩ := Prod.mk.inj he
      exact ⟨by omega, by omega, hw.symm⟩
    · rintro ⟨h1, h2, hw⟩
      exact ⟨i, j, by omega, by omega, hw.symm, rfl⟩
  · apply mergeSort_strict
    apply pushed_nodup
    intro i p i' p' e
    exact Prod.mk.inj e

theorem findKmerMatches_correct (x y : List Nat) (k : Nat) : findKmerMatches x y k = kmerMatches x y k := by
  unfold findKmerMatches
  split
  · exact seq1Hashed_correct x y k
  · exact seq2Hashed_correct x y k

end RbV.Lemmas.KmerHash
