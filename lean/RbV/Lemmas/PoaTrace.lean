import RbV.Model.Poa
import RbV.Spec.PoaGraph
/-!
# The model's traceback names reference nodes in increasing rank

`traceLoop` walks the table from the last row back to `(0,0)`.  Every cell of a row of node `v` carries one of
`Del(None)` (column 0 only), `Match(None)`, `Ins(Some v)`, `Match(Some((p, v)))`, `Del(Some((p, v+1)))` with
`p` a predecessor of `v` (`TableOK`, proved for `dpRows` below, for every graph, query and scoring); row 0
carries `Ins(None)` / `Match(None)`.  Hence a step of the traceback stays in the row, moves to the row of a
predecessor, drops to row 0 for good, or (column 0) walks down the first column.  For a rank function `rk`
that increases by at least `K` along every edge, with `K` larger than the number of emitted operations, the
emitted list therefore satisfies `bodyB` — the hypothesis of `addAlignment_acyclic_partial`.  No assumption
on the fuel or on the start cell is needed.
-/
namespace RbV.Poa.Model
open RbV.NW RbV.Poa

/-- what the operation stored in cell `(v+1, j)` may be -/
def RowOp (es : WEdges) (v j : Nat) (op : POp) : Prop :=
  op = .m none ∨ (j = 0 ∧ op = .d none) ∨
  (0 < j ∧ (op = .i (some v) ∨ ∃ p ∈ inN es v, op = .m (some (p, v)) ∨ op = .d (some (p, v + 1))))

/-- all stored operations are local: row 0 has `Match(None)`/`Ins(None)`, the row of `v` has `RowOp` -/
structure TableOK (es : WEdges) (t : Table) : Prop where
  r0 : ∀ j, (t.r0.getD j ⟨0, .m none⟩).op = .m none ∨ (t.r0.getD j ⟨0, .m none⟩).op = .i none
  rows : ∀ v j, RowOp es v j (((t.rows.getD v []).getD j ⟨0, .m none⟩).op)

/-- one step of `traceLoop`, by the operation found in the cell -/
def traceNext (t : Table) (f i j : Nat) (acc : List POp) (op : POp) : List POp :=
    match op with
    | .m (some (p, _)) => traceLoop t f (p + 1) (j - 1) (op :: acc)
    | .d (some (p, _)) => traceLoop t f (p + 1) j (op :: acc)
    | .i (some p) => traceLoop t f (p + 1) (j - 1) (op :: acc)
    | .m none => traceLoop t f 0 (j - 1) (op :: acc)
    | .d none => traceLoop t f (i - 1) j (op :: acc)
    | .i none => traceLoop t f i (j - 1) (op :: acc)
    | .x r => traceLoop t f r j (op :: acc)
    | .y r _ => traceLoop t f i r (op :: acc)

theorem traceLoop_succ (t : Table) (f i j : Nat) (acc : List POp) (hij : ¬(i = 0 ∧ j = 0)) :
    traceLoop t (f + 1) i j acc = traceNext t f i j acc (t.cell i j).op := by
  rw [traceLoop]
  simp only [Bool.and_eq_true, decide_eq_true_eq, hij, if_false]
  rfl

/-! ## `bodyB` along the traceback -/

theorem traceLoop_length_ge (t : Table) : ∀ (f i j : Nat) (acc : List POp),
    acc.length ≤ (traceLoop t f i j acc).length := by
  intro f
  induction f with
  | zero => intro i j acc; simp [traceLoop]
  | succ f ih =>
    intro i j acc
    simp only [traceLoop]
    split
    · exact Nat.le_refl _
    · split <;> (refine Nat.le_trans ?_ (ih _ _ _); simp)

/-- the invariant carried backwards: `acc` = operations of the cells after `(i, j)` -/
structure TInv (rk : Nat → Nat) (n0 head K i j : Nat) (acc : List POp) : Prop where
  base : bodyB rk n0 head (rk head) false acc = true
  row0 : i = 0 → 0 < j → ∀ b, b + acc.length < K → bodyB rk n0 head b true acc = true
  row : ∀ v, i = v + 1 → 0 < j → ∀ b, b + acc.length < rk v + K → bodyB rk n0 head b false acc = true

theorem tinv_to_row0 {rk : Nat → Nat} {n0 head K i j j' : Nat} {acc : List POp} (hK : K ≤ rk head)
    (h : TInv rk n0 head K i j acc) : TInv rk n0 head K 0 j' (.m none :: acc) := by
  refine ⟨by simpa [bodyB] using h.base, ?_, ?_⟩
  · intro _ _ b hb
    simp only [bodyB, Bool.and_eq_true, decide_eq_true_eq]
    simp only [List.length_cons] at hb
    exact ⟨by omega, h.base⟩
  · intro v hv; omega

theorem traceLoop_bodyB (es : WEdges) (t : Table) (rk : Nat → Nat) (n0 head K : Nat) (ht : TableOK es t)
    (hK : K ≤ rk head) (hmin : ∀ v, rk head ≤ rk v)
    (hedge : ∀ v, ∀ p ∈ inN es v, rk p + K ≤ rk v ∧ v < n0) :
    ∀ (f i j : Nat) (acc : List POp), TInv rk n0 head K i j acc → (traceLoop t f i j acc).length < K →
      bodyB rk n0 head (rk head) false (traceLoop t f i j acc) = true := by
  intro f
  induction f with
  | zero => intro i j acc h _; simpa [traceLoop] using h.base
  | succ f ih =>
    intro i j acc h hlen
    cases i with
    | zero =>
      by_cases hj : j = 0
      · subst hj; simpa [traceLoop] using h.base
      · have hcell : t.cell 0 j = t.r0.getD j ⟨0, .m none⟩ := by simp [Table.cell]
        rcases ht.r0 j with hop | hop
        · have hs : traceLoop t (f + 1) 0 j acc = traceLoop t f 0 (j - 1) (.m none :: acc) := by
            rw [traceLoop_succ t f 0 j acc (by omega), hcell, hop]; rfl
          rw [hs] at hlen ⊢
          exact ih _ _ _ (tinv_to_row0 hK h) hlen
        · have hs : traceLoop t (f + 1) 0 j acc = traceLoop t f 0 (j - 1) (.i none :: acc) := by
            rw [traceLoop_succ t f 0 j acc (by omega), hcell, hop]; rfl
          rw [hs] at hlen ⊢
          have hl := traceLoop_length_ge t f 0 (j - 1) (.i none :: acc)
          simp only [List.length_cons] at hl
          refine ih _ _ _ ⟨?_, ?_, ?_⟩ hlen
          · simp only [bodyB]
            exact h.row0 rfl (by omega) 0 (by omega)
          · intro _ _ b hb
            simp only [bodyB]
            simp only [List.length_cons] at hb
            exact h.row0 rfl (by omega) (b + 1) (by omega)
          · intro v hv; omega
    | succ v =>
      have hcell : t.cell (v + 1) j = (t.rows.getD v []).getD j ⟨0, .m none⟩ := by simp [Table.cell]
      have hrow := ht.rows v j
      rw [← hcell] at hrow
      rcases hrow with hop | ⟨hj, hop⟩ | ⟨hj, hop | ⟨p, hp, hop | hop⟩⟩
      · -- `Match(None)`: drop to row 0
        have hs : traceLoop t (f + 1) (v + 1) j acc = traceLoop t f 0 (j - 1) (.m none :: acc) := by
          rw [traceLoop_succ t f (v + 1) _ acc (by omega), hop]; rfl
        rw [hs] at hlen ⊢
        exact ih _ _ _ (tinv_to_row0 hK h) hlen
      · -- column 0: `Del(None)`
        subst hj
        have hs : traceLoop t (f + 1) (v + 1) 0 acc = traceLoop t f v 0 (.d none :: acc) := by
          rw [traceLoop_succ t f (v + 1) _ acc (by omega), hop]; rfl
        rw [hs] at hlen ⊢
        refine ih _ _ _ ⟨by simpa [bodyB] using h.base, ?_, ?_⟩ hlen
        · intro _ h0; omega
        · intro w _ h0; omega
      · -- `Ins(Some v)`: same row
        have hs : traceLoop t (f + 1) (v + 1) j acc = traceLoop t f (v + 1) (j - 1) (.i (some v) :: acc) := by
          rw [traceLoop_succ t f (v + 1) _ acc (by omega), hop]; rfl
        rw [hs] at hlen ⊢
        have hl := traceLoop_length_ge t f (v + 1) (j - 1) (.i (some v) :: acc)
        simp only [List.length_cons] at hl
        have := hmin v
        refine ih _ _ _ ⟨?_, ?_, ?_⟩ hlen
        · simp only [bodyB]
          exact h.row v rfl hj _ (by omega)
        · intro h0; omega
        · intro w hw _ b hb
          have : w = v := by omega
          subst this
          simp only [bodyB]
          simp only [List.length_cons] at hb
          exact h.row w rfl hj _ (by omega)
      · -- `Match(Some((p, v)))`: to the row of the predecessor `p`; names `v`
        have hs : traceLoop t (f + 1) (v + 1) j acc = traceLoop t f (p + 1) (j - 1) (.m (some (p, v)) :: acc) := by
          rw [traceLoop_succ t f (v + 1) _ acc (by omega), hop]; rfl
        rw [hs] at hlen ⊢
        have hl := traceLoop_length_ge t f (p + 1) (j - 1) (.m (some (p, v)) :: acc)
        simp only [List.length_cons] at hl
        have := hmin p
        obtain ⟨he1, he2⟩ := hedge v p hp
        refine ih _ _ _ ⟨?_, ?_, ?_⟩ hlen
        · simp only [bodyB, Bool.and_eq_true, decide_eq_true_eq]
          exact ⟨⟨he2, by omega⟩, h.row v rfl hj _ (by omega)⟩
        · intro h0; omega
        · intro w hw _ b hb
          have : w = p := by omega
          subst this
          simp only [List.length_cons] at hb
          simp only [bodyB, Bool.and_eq_true, decide_eq_true_eq]
          exact ⟨⟨he2, by omega⟩, h.row v rfl hj _ (by omega)⟩
      · -- `Del(Some((p, v+1)))`: to the row of the predecessor `p`
        have hs : traceLoop t (f + 1) (v + 1) j acc = traceLoop t f (p + 1) j (.d (some (p, v + 1)) :: acc) := by
          rw [traceLoop_succ t f (v + 1) _ acc (by omega), hop]; rfl
        rw [hs] at hlen ⊢
        obtain ⟨he1, he2⟩ := hedge v p hp
        refine ih _ _ _ ⟨by simpa [bodyB] using h.base, ?_, ?_⟩ hlen
        · intro h0; omega
        · intro w hw _ b hb
          have : w = p := by omega
          subst this
          simp only [List.length_cons] at hb
          simp only [bodyB]
          exact h.row v rfl hj _ (by omega)

/-! ## The table of `dpRows` is local (`TableOK`) — for every graph, query and scoring -/

theorem getD_eq_or_mem {α : Type} (l : List α) (j : Nat) (d : α) : l.getD j d = d ∨ l.getD j d ∈ l := by
  by_cases h : j < l.length
  · right; simp [List.getD_eq_getElem?_getD, h]
  · left; simp [List.getD_eq_getElem?_getD, Nat.le_of_not_lt h]

theorem cmax_op (a b : Cell) : (cmax a b).op = a.op ∨ (cmax a b).op = b.op := by
  unfold cmax; split <;> simp

theorem row0From_op (gap : Int) : ∀ (n k : Nat), ∀ c ∈ row0From gap k n, c.op = .i none := by
  intro n
  induction n with
  | zero => intro k c h; simp [row0From] at h
  | succ n ih =>
    intro k c h
    simp only [row0From, List.mem_cons] at h
    rcases h with rfl | h
    · rfl
    · exact ih _ c h

theorem firstCands_op (sc : Sc) (r : Nat) : ∀ (r0 : List Cell) (q : List Nat), ∀ c ∈ firstCands sc r r0 q, c.op = .m none := by
  intro r0
  induction r0 with
  | nil => intro q c h; simp [firstCands] at h
  | cons d rest ih =>
    intro q c h
    cases q with
    | nil => simp [firstCands] at h
    | cons b q =>
      simp only [firstCands, List.mem_cons] at h
      rcases h with rfl | h
      · rfl
      · exact ih q c h

theorem predCands_op (sc : Sc) (r : Nat) (mOp dOp : POp) : ∀ (ups : List Cell) (diag : Cell) (q : List Nat),
    ∀ c ∈ predCands sc r mOp dOp diag ups q, c.op = mOp ∨ c.op = dOp := by
  intro ups
  induction ups with
  | nil => intro diag q c h; simp [predCands] at h
  | cons up ups ih =>
    intro diag q c h
    cases q with
    | nil => simp [predCands] at h
    | cons b q =>
      simp only [predCands, List.mem_cons] at h
      rcases h with rfl | h
      · exact cmax_op _ _
      · exact ih up q c h

theorem zipMax_op : ∀ (as bs : List Cell), ∀ c ∈ zipMax as bs, (∃ a ∈ as, c.op = a.op) ∨ ∃ b ∈ bs, c.op = b.op := by
  intro as
  induction as with
  | nil => intro bs c h; simp [zipMax] at h
  | cons a as ih =>
    intro bs c h
    cases bs with
    | nil => simp [zipMax] at h
    | cons b bs =>
      simp only [zipMax, List.mem_cons] at h
      rcases h with rfl | h
      · rcases cmax_op a b with h1 | h1
        · exact Or.inl ⟨a, by simp, h1⟩
        · exact Or.inr ⟨b, by simp, h1⟩
      · rcases ih bs c h with ⟨x, hx, h1⟩ | ⟨x, hx, h1⟩
        · exact Or.inl ⟨x, by simp [hx], h1⟩
        · exact Or.inr ⟨x, by simp [hx], h1⟩

theorem insScan_op (gap : Int) (iOp : POp) : ∀ (cs : List Cell) (left : Cell),
    ∀ c ∈ insScan gap iOp left cs, c.op = iOp ∨ ∃ x ∈ cs, c.op = x.op := by
  intro cs
  induction cs with
  | nil => intro left c h; simp [insScan] at h
  | cons x cs ih =>
    intro left c h
    simp only [insScan, List.mem_cons] at h
    rcases h with rfl | h
    · rcases cmax_op x ⟨left.score + gap, iOp⟩ with h1 | h1
      · exact Or.inr ⟨x, by simp, h1⟩
      · exact Or.inl h1
    · rcases ih _ c h with h1 | ⟨y, hy, h1⟩
      · exact Or.inl h1
      · exact Or.inr ⟨y, by simp [hy], h1⟩

/-- the candidate built from one predecessor -/
def oneCand (sc : Sc) (query : List Nat) (v r p : Nat) (pr : List Cell) : List Cell :=
  match pr with
  | [] => []
  | d :: ups => predCands sc r (.m (some (p, v))) (.d (some (p, v + 1))) d ups query

theorem oneCand_op (sc : Sc) (query : List Nat) (v r p : Nat) (pr : List Cell) :
    ∀ c ∈ oneCand sc query v r p pr, c.op = .m (some (p, v)) ∨ c.op = .d (some (p, v + 1)) := by
  intro c h
  cases pr with
  | nil => simp [oneCand] at h
  | cons d ups => exact predCands_op sc r _ _ ups d query c h

theorem foldl_zipMax_op (sc : Sc) (query : List Nat) (v r : Nat) (Q : POp → Prop) :
    ∀ (rest : List (Nat × List Cell)) (init : List Cell), (∀ c ∈ init, Q c.op) →
      (∀ pp ∈ rest, ∀ c ∈ oneCand sc query v r pp.1 pp.2, Q c.op) →
      ∀ c ∈ rest.foldl (fun acc (pp : Nat × List Cell) => zipMax acc (oneCand sc query v r pp.1 pp.2)) init, Q c.op := by
  intro rest
  induction rest with
  | nil => intro init h _ c hc; exact h c hc
  | cons pp rest ih =>
    intro init h1 h2 c hc
    simp only [List.foldl_cons] at hc
    refine ih _ ?_ (fun q hq => h2 q (List.mem_cons_of_mem _ hq)) c hc
    intro x hx
    rcases zipMax_op _ _ x hx with ⟨a, ha, e⟩ | ⟨b, hb, e⟩
    · rw [e]; exact h1 a ha
    · rw [e]; exact h2 pp (by simp) b hb

/-- the candidates (before the insertion scan) of the row of `v` -/
def nodeCands (sc : Sc) (query : List Nat) (r0 : List Cell) (v r : Nat) (preds : List (Nat × List Cell)) : List Cell :=
  match preds with
  | [] => firstCands sc r r0 query
  | pp :: rest => rest.foldl (fun acc (pp : Nat × List Cell) => zipMax acc (oneCand sc query v r pp.1 pp.2))
      (oneCand sc query v r pp.1 pp.2)

theorem nodeRow_eq (sc : Sc) (query : List Nat) (r0 : List Cell) (v r : Nat) (preds : List (Nat × List Cell)) :
    nodeRow sc query r0 v r preds = col0 sc.gap v :: insScan sc.gap (.i (some v)) (col0 sc.gap v)
      (nodeCands sc query r0 v r preds) := by
  cases preds with
  | nil => rfl
  | cons pp rest => rfl

theorem nodeCands_op (sc : Sc) (query : List Nat) (r0 : List Cell) (es : WEdges) (v r : Nat)
    (preds : List (Nat × List Cell)) (hp : ∀ pp ∈ preds, pp.1 ∈ inN es v) :
    ∀ c ∈ nodeCands sc query r0 v r preds,
      c.op = .m none ∨ ∃ p ∈ inN es v, c.op = .m (some (p, v)) ∨ c.op = .d (some (p, v + 1)) := by
  intro x hx
  cases preds with
  | nil => left; exact firstCands_op sc r r0 query x hx
  | cons pp rest =>
    right
    refine foldl_zipMax_op sc query v r (fun op => ∃ p ∈ inN es v, op = .m (some (p, v)) ∨ op = .d (some (p, v + 1)))
      rest _ ?_ ?_ x hx
    · intro c hc
      exact ⟨pp.1, hp pp (by simp), oneCand_op sc query v r pp.1 pp.2 c hc⟩
    · intro q hq c hc
      exact ⟨q.1, hp q (List.mem_cons_of_mem _ hq), oneCand_op sc query v r q.1 q.2 c hc⟩

theorem nodeRow_rowOp (sc : Sc) (query : List Nat) (r0 : List Cell) (es : WEdges) (v r : Nat)
    (preds : List (Nat × List Cell)) (hp : ∀ pp ∈ preds, pp.1 ∈ inN es v) (j : Nat) :
    RowOp es v j ((nodeRow sc query r0 v r preds).getD j ⟨0, .m none⟩).op := by
  rw [nodeRow_eq]
  cases j with
  | zero => right; left; exact ⟨rfl, rfl⟩
  | succ j =>
    simp only [List.getD_cons_succ]
    rcases getD_eq_or_mem (insScan sc.gap (.i (some v)) (col0 sc.gap v) (nodeCands sc query r0 v r preds))
      j ⟨0, .m none⟩ with h | h
    · rw [h]; left; rfl
    · rcases insScan_op _ _ _ _ _ h with h1 | ⟨x, hx, h1⟩
      · right; right; exact ⟨by omega, Or.inl h1⟩
      · rw [h1]
        rcases nodeCands_op sc query r0 es v r preds hp x hx with h2 | h2
        · left; exact h2
        · right; right; exact ⟨by omega, Or.inr h2⟩

theorem getD_setIfInBounds {α : Type} (a : Array α) (v u : Nat) (x d : α) :
    (a.setIfInBounds v x).getD u d = if u = v ∧ v < a.size then x else a.getD u d := by
  simp only [Array.getD_eq_getD_getElem?, Array.getElem?_setIfInBounds]
  by_cases h : v = u
  · subst h
    by_cases h2 : v < a.size
    · simp [h2]
    · simp [h2]
  · have : ¬ u = v := fun e => h e.symm
    simp [h, this]

theorem dpRows_tableOK (sc : Sc) (labels : List Nat) (es : WEdges) (query : List Nat) :
    TableOK es (dpRows sc labels es query) := by
  constructor
  · intro j
    simp only [dpRows, row0]
    cases j with
    | zero => left; rfl
    | succ j =>
      simp only [List.getD_cons_succ]
      rcases getD_eq_or_mem (row0From sc.gap 0 query.length) j ⟨0, .m none⟩ with h | h
      · rw [h]; left; rfl
      · right; exact row0From_op _ _ _ _ h
  · simp only [dpRows]
    generalize topo labels.length es = order
    have key : ∀ (order : List Nat) (rows : Array (List Cell)),
        (∀ v j, RowOp es v j ((rows.getD v []).getD j ⟨0, .m none⟩).op) →
        ∀ v j, RowOp es v j (((order.foldl (fun (rows : Array (List Cell)) v =>
          rows.setIfInBounds v (nodeRow sc query (row0 sc.gap query.length) v (labels.getD v 0)
            ((inN es v).map fun p => (p, rows.getD p [])))) rows).getD v []).getD j ⟨0, .m none⟩).op := by
      intro order
      induction order with
      | nil => intro rows h; exact h
      | cons u order ih =>
        intro rows h
        simp only [List.foldl_cons]
        apply ih
        intro v j
        rw [getD_setIfInBounds]
        split
        · rename_i hc
          rw [hc.1]
          apply nodeRow_rowOp
          intro pp hpp
          simp only [List.mem_map] at hpp
          obtain ⟨p, hp, rfl⟩ := hpp
          exact hp
        · exact h v j
    apply key
    intro v j
    have : (Array.replicate labels.length ([] : List Cell)).getD v [] = [] := by
      simp only [Array.getD_eq_getD_getElem?, Array.getElem?_replicate]
      split <;> rfl
    rw [this]
    left; rfl

end RbV.Poa.Model
