import RbV.Ref.NW
/-!
# When is the identity alignment of a sequence with itself the *unique* optimum?

If every pair scores at most `M`, equal pairs score exactly `M`, and `2·gap < M` (in particular: `M > 0`,
`gap ≤ 0`, or `M ≥ 0`, `gap < 0`), then every global alignment of `x` with `x` other than `mat, …, mat`
scores strictly less than the identity alignment.  This is the side condition under which C16's clause
"re-adding the reference leaves nodes and consensus unchanged" is a consequence of optimality.
(With a match score of 0 and gap 0 every alignment ties and the clause does not follow.)
-/
namespace RbV.NW

/-- `M · |x|` without multiplication (keeps every goal linear for `omega`) -/
def tot (M : Int) : List Nat → Int
  | [] => 0
  | _ :: x => M + tot M x

/-- `D` for every gap operation -/
def pen (D : Int) : List Op → Int
  | [] => 0
  | .mat :: r => pen D r
  | _ :: r => D + pen D r

theorem score_bound (sc : Sc) (M : Int) (hle : ∀ a b, sc.w a b ≤ M) :
    ∀ (ops : List Op) (x y : List Nat) (v : Int), score sc x y ops = some v →
      2 * v + pen (M - 2 * sc.gap) ops ≤ tot M x + tot M y := by
  intro ops
  induction ops with
  | nil =>
    intro x y v h
    cases x <;> cases y <;> simp [score] at h
    subst h; simp [pen, tot]
  | cons o r ih =>
    intro x y v h
    cases o with
    | mat =>
      cases x with
      | nil => simp [score] at h
      | cons a x =>
        cases y with
        | nil => simp [score] at h
        | cons b y =>
          simp only [score] at h
          cases h' : score sc x y r with
          | none => simp [h'] at h
          | some u =>
            simp [h'] at h
            have := ih x y u h'
            have := hle a b
            simp only [pen, tot]; omega
    | ins =>
      cases y with
      | nil => cases x <;> simp [score] at h
      | cons b y =>
        cases x with
        | nil =>
          simp only [score] at h
          cases h' : score sc [] y r with
          | none => simp [h'] at h
          | some u =>
            simp [h'] at h
            have := ih [] y u h'
            simp only [pen, tot] at *; omega
        | cons a x =>
          simp only [score] at h
          cases h' : score sc (a :: x) y r with
          | none => simp [h'] at h
          | some u =>
            simp [h'] at h
            have := ih (a :: x) y u h'
            simp only [pen, tot] at *; omega
    | del =>
      cases x with
      | nil => cases y <;> simp [score] at h
      | cons a x =>
        simp only [score] at h
        cases h' : score sc x y r with
        | none => simp [h'] at h
        | some u =>
          simp [h'] at h
          have := ih x y u h'
          simp only [pen, tot] at *; omega

theorem pen_nonneg (D : Int) (hD : 0 < D) : ∀ ops : List Op, 0 ≤ pen D ops := by
  intro ops
  induction ops with
  | nil => simp [pen]
  | cons o r ih => cases o <;> simp only [pen] <;> omega

/-- a valid alignment without gap penalty is all-`mat`, of the length of the sequences -/
theorem all_mat_of_pen_zero (sc : Sc) (D : Int) (hD : 0 < D) :
    ∀ (ops : List Op) (x y : List Nat) (v : Int), score sc x y ops = some v → pen D ops = 0 →
      ops = List.replicate x.length Op.mat := by
  intro ops
  induction ops with
  | nil =>
    intro x y v h _
    cases x <;> cases y <;> simp [score] at h
    simp
  | cons o r ih =>
    intro x y v h hp
    cases o with
    | mat =>
      cases x with
      | nil => simp [score] at h
      | cons a x =>
        cases y with
        | nil => simp [score] at h
        | cons b y =>
          simp only [score] at h
          cases h' : score sc x y r with
          | none => simp [h'] at h
          | some u =>
            simp only [pen] at hp
            have := ih x y u h' hp
            simp [List.replicate_succ, ← this]
    | ins =>
      have := pen_nonneg D hD r
      simp only [pen] at hp; omega
    | del =>
      have := pen_nonneg D hD r
      simp only [pen] at hp; omega

theorem score_identity (sc : Sc) (M : Int) (hd : ∀ a, sc.w a a = M) :
    ∀ x : List Nat, score sc x x (List.replicate x.length Op.mat) = some (tot M x) := by
  intro x
  induction x with
  | nil => simp [score, tot]
  | cons a x ih => simp [List.replicate_succ, score, ih, tot, hd]; omega

theorem identity_unique (sc : Sc) (M : Int) (hle : ∀ a b, sc.w a b ≤ M)
    (hg : 2 * sc.gap < M) (x : List Nat) (ops : List Op) (v : Int)
    (h : score sc x x ops = some v) (hne : ops ≠ List.replicate x.length Op.mat) : v < tot M x := by
  have hb := score_bound sc M hle ops x x v h
  have hD : 0 < M - 2 * sc.gap := by omega
  have hp := pen_nonneg _ hD ops
  have : pen (M - 2 * sc.gap) ops ≠ 0 := fun h0 => hne (all_mat_of_pen_zero sc _ hD ops x x v h h0)
  omega

end RbV.NW
