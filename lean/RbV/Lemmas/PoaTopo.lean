import RbV.Model.Poa
import RbV.Ref.PoaCheck
/-!
# `topo` (the model of `petgraph::visit::Topo`) on a well-formed acyclic graph

visits every node exactly once, every node after all its predecessors; `posIn` turns the visiting order into
a rank function that increases along every edge.
-/
namespace RbV.Poa.Model
open RbV.Poa

theorem mem_inN (es : WEdges) (v p : Nat) : p ∈ inN es v ↔ ∃ w, (p, v, w) ∈ es := by
  simp only [inN, List.mem_reverse, List.mem_map, List.mem_filter, beq_iff_eq]
  constructor
  · rintro ⟨⟨a, b, w⟩, ⟨he, hb⟩, ha⟩
    simp only at hb ha
    subst hb; subst ha
    exact ⟨w, he⟩
  · rintro ⟨w, he⟩
    exact ⟨(p, v, w), ⟨he, rfl⟩, rfl⟩

theorem mem_outN (es : WEdges) (u x : Nat) : x ∈ outN es u ↔ ∃ w, (u, x, w) ∈ es := by
  simp only [outN, List.mem_reverse, List.mem_map, List.mem_filter, beq_iff_eq]
  constructor
  · rintro ⟨⟨a, b, w⟩, ⟨he, ha⟩, hb⟩
    simp only at hb ha
    subst hb; subst ha
    exact ⟨w, he⟩
  · rintro ⟨w, he⟩
    exact ⟨(u, x, w), ⟨he, rfl⟩, rfl⟩

theorem mem_plain (es : WEdges) (u v : Nat) : (u, v) ∈ plain es ↔ ∃ w, (u, v, w) ∈ es := by
  simp only [plain, List.mem_map]
  constructor
  · rintro ⟨⟨a, b, w⟩, he, h⟩
    simp only [Prod.mk.injEq] at h
    obtain ⟨rfl, rfl⟩ := h
    exact ⟨w, he⟩
  · rintro ⟨w, he⟩
    exact ⟨(u, v, w), he, rfl⟩

theorem outN_length (es : WEdges) (u : Nat) : (outN es u).length = (es.filter fun e => e.1 == u).length := by
  simp [outN]

/-! ## pushing the ready successors -/

theorem pushFold_mem (P : Nat → Bool) : ∀ (L st : List Nat) (s : Nat),
    s ∈ L.foldl (fun st nb => if P nb then nb :: st else st) st ↔ s ∈ st ∨ (s ∈ L ∧ P s = true) := by
  intro L
  induction L with
  | nil => intro st s; simp
  | cons a L ih =>
    intro st s
    simp only [List.foldl_cons]
    rw [ih]
    by_cases h : P a = true
    · simp only [h, if_true, List.mem_cons]
      constructor
      · rintro ((h1 | h1) | h1)
        · subst h1; exact Or.inr ⟨Or.inl rfl, h⟩
        · exact Or.inl h1
        · exact Or.inr ⟨Or.inr h1.1, h1.2⟩
      · rintro (h1 | ⟨h1 | h1, h2⟩)
        · exact Or.inl (Or.inr h1)
        · exact Or.inl (Or.inl h1)
        · exact Or.inr ⟨h1, h2⟩
    · simp only [h, List.mem_cons]
      constructor
      · rintro (h1 | h1)
        · exact Or.inl h1
        · exact Or.inr ⟨Or.inr h1.1, h1.2⟩
      · rintro (h1 | ⟨h1 | h1, h2⟩)
        · exact Or.inl h1
        · subst h1; exact absurd h2 h
        · exact Or.inr ⟨h1, h2⟩

theorem pushFold_length (P : Nat → Bool) : ∀ (L st : List Nat),
    (L.foldl (fun st nb => if P nb then nb :: st else st) st).length ≤ st.length + L.length := by
  intro L
  induction L with
  | nil => intro st; simp
  | cons a L ih =>
    intro st
    simp only [List.foldl_cons, List.length_cons]
    refine Nat.le_trans (ih _) ?_
    split <;> simp <;> omega

/-- edges whose source is not yet visited: the fuel measure -/
def pending (es : WEdges) (vis : List Nat) : Nat := (es.filter fun e => !vis.contains e.1).length

theorem pending_cons (es : WEdges) (vis : List Nat) (v : Nat) (hv : v ∉ vis) :
    pending es (v :: vis) + (es.filter fun e => e.1 == v).length = pending es vis := by
  unfold pending
  simp only [List.contains_cons]
  induction es with
  | nil => simp
  | cons e es ih =>
    simp only [List.filter_cons]
    cases h1 : (e.1 == v) with
    | true =>
      have h2 : vis.contains e.1 = false := by
        have : e.1 = v := by simpa using h1
        rw [this]; simpa using hv
      simp only [h2, Bool.true_or, Bool.not_true, Bool.false_eq_true, if_false, if_true, Bool.not_false,
        List.length_cons]
      omega
    | false =>
      cases h2 : vis.contains e.1 with
      | true => simpa [h2] using ih
      | false => simp only [Bool.or_self, Bool.not_false, if_true, Bool.false_eq_true, if_false, List.length_cons]; omega

/-! ## the loop invariant -/

def PredClosed (es : WEdges) : List Nat → Prop
  | [] => True
  | a :: r => (∀ p ∈ inN es a, p ∈ r) ∧ PredClosed es r

structure TopoInv (n : Nat) (es : WEdges) (stack vis : List Nat) : Prop where
  nodup : vis.Nodup
  visLt : ∀ v ∈ vis, v < n
  stLt : ∀ v ∈ stack, v < n
  ready : ∀ s ∈ stack, ∀ p ∈ inN es s, p ∈ vis
  closed : PredClosed es vis
  compl : ∀ v, v < n → (∀ p ∈ inN es v, p ∈ vis) → v ∈ vis ∨ v ∈ stack

theorem topoLoop_spec (n : Nat) (es : WEdges) (wf : ∀ e ∈ es, e.1 < n ∧ e.2.1 < n) :
    ∀ (f : Nat) (stack vis : List Nat), TopoInv n es stack vis → stack.length + pending es vis < f →
      ∃ vis', topoLoop es f stack vis vis = vis'.reverse ∧ TopoInv n es [] vis' := by
  intro f
  induction f with
  | zero => intro stack vis _ h; omega
  | succ f ih =>
    intro stack vis inv hf
    cases stack with
    | nil => exact ⟨vis, by simp [topoLoop], inv⟩
    | cons v stack =>
      by_cases hv : vis.contains v = true
      · have hvm : v ∈ vis := by simpa using hv
        have : topoLoop es (f + 1) (v :: stack) vis vis = topoLoop es f stack vis vis := by
          simp [topoLoop, hvm]
        rw [this]
        apply ih
        · refine ⟨inv.nodup, inv.visLt, fun x hx => inv.stLt x (List.mem_cons_of_mem _ hx),
            fun s hs => inv.ready s (List.mem_cons_of_mem _ hs), inv.closed, ?_⟩
          intro u hu hp
          rcases inv.compl u hu hp with h | h
          · exact Or.inl h
          · rcases List.mem_cons.mp h with h | h
            · subst h; exact Or.inl hvm
            · exact Or.inr h
        · simp only [List.length_cons] at hf; omega
      · have hvm : v ∉ vis := by simpa using hv
        have hstep : topoLoop es (f + 1) (v :: stack) vis vis = topoLoop es f
            ((outN es v).foldl (fun st nb => if (inN es nb).all (v :: vis).contains then nb :: st else st) stack)
            (v :: vis) (v :: vis) := by
          simp [topoLoop, hvm]
        rw [hstep]
        apply ih
        · refine ⟨List.nodup_cons.mpr ⟨hvm, inv.nodup⟩, ?_, ?_, ?_, ?_, ?_⟩
          · intro x hx
            rcases List.mem_cons.mp hx with h | h
            · subst h; exact inv.stLt _ (by simp)
            · exact inv.visLt x h
          · intro x hx
            rcases (pushFold_mem _ _ _ _).mp hx with h | ⟨h, _⟩
            · exact inv.stLt x (List.mem_cons_of_mem _ h)
            · obtain ⟨w, hw⟩ := (mem_outN es v x).mp h
              exact (wf _ hw).2
          · intro s hs p hp
            rcases (pushFold_mem _ _ _ _).mp hs with h | ⟨_, h⟩
            · exact List.mem_cons_of_mem _ (inv.ready s (List.mem_cons_of_mem _ h) p hp)
            · have := List.all_eq_true.mp h p hp
              simpa using this
          · exact ⟨fun p hp => inv.ready v (by simp) p hp, inv.closed⟩
          · intro u hu hp
            by_cases hall : ∀ p ∈ inN es u, p ∈ vis
            · rcases inv.compl u hu hall with h | h
              · exact Or.inl (List.mem_cons_of_mem _ h)
              · rcases List.mem_cons.mp h with h | h
                · subst h; exact Or.inl (by simp)
                · exact Or.inr ((pushFold_mem _ _ _ _).mpr (Or.inl h))
            · -- some predecessor became visited just now: it is `v`, so `u` is a successor of `v`
              have hvu : v ∈ inN es u := by
                apply Classical.byContradiction
                intro hn
                apply hall
                intro p hp'
                rcases List.mem_cons.mp (hp p hp') with h | h
                · subst h; exact absurd hp' hn
                · exact h
              obtain ⟨w, hw⟩ := (mem_inN es u v).mp hvu
              right
              apply (pushFold_mem _ _ _ _).mpr
              right
              refine ⟨(mem_outN es v u).mpr ⟨w, hw⟩, ?_⟩
              apply List.all_eq_true.mpr
              intro p hp'
              simpa using hp p hp'
        · have h1 := pushFold_length (fun nb => (inN es nb).all (v :: vis).contains) (outN es v) stack
          have h2 := pending_cons es vis v hvm
          rw [outN_length] at h1
          simp only [List.length_cons] at hf
          omega

/-- what `topo` returns on a well-formed acyclic graph: the reverse of a duplicate-free list of exactly the
nodes `< n` in which every node comes after (= is listed before, the list being newest-first) none of its
predecessors -/
theorem topo_spec (n : Nat) (es : WEdges) (wf : ∀ e ∈ es, e.1 < n ∧ e.2.1 < n) (hac : Acyclic (plain es)) :
    ∃ vis, topo n es = vis.reverse ∧ vis.Nodup ∧ (∀ v, v ∈ vis ↔ v < n) ∧ PredClosed es vis := by
  have hinit : TopoInv n es ((List.range n).filter fun v => (inN es v).isEmpty).reverse [] := by
    refine ⟨List.nodup_nil, by simp, ?_, ?_, trivial, ?_⟩
    · intro v hv
      simp only [List.mem_reverse, List.mem_filter, List.mem_range] at hv
      exact hv.1
    · intro s hs p hp
      simp only [List.mem_reverse, List.mem_filter, List.mem_range, List.isEmpty_iff] at hs
      rw [hs.2] at hp
      exact absurd hp (by simp)
    · intro v hv hp
      right
      simp only [List.mem_reverse, List.mem_filter, List.mem_range, List.isEmpty_iff]
      refine ⟨hv, ?_⟩
      cases h : inN es v with
      | nil => rfl
      | cons a r => exact absurd (hp a (by rw [h]; simp)) (by simp)
  obtain ⟨vis, h1, inv⟩ := topoLoop_spec n es wf (n + es.length + 1) _ [] hinit (by
    have h1 : ((List.range n).filter fun v => (inN es v).isEmpty).length ≤ n := by
      have := List.length_filter_le (fun v => (inN es v).isEmpty) (List.range n)
      simpa using this
    have h2 : pending es [] ≤ es.length := List.length_filter_le _ _
    simp only [List.length_reverse]
    omega)
  refine ⟨vis, h1, inv.nodup, ?_, inv.closed⟩
  intro v
  constructor
  · exact inv.visLt v
  · intro hv
    apply Classical.byContradiction
    intro hnv
    have hacIn : ∀ w, ¬ ReachIn (plain es) (List.range n) w w := fun w hw => hac w (reach_of_reachIn hw)
    have hL : (List.range n).filter (fun u => !vis.contains u) ≠ [] := by
      intro he
      have : v ∈ (List.range n).filter (fun u => !vis.contains u) := by
        simp only [List.mem_filter, List.mem_range]
        exact ⟨hv, by simpa using hnv⟩
      rw [he] at this
      exact absurd this (by simp)
    obtain ⟨m, hm, hmin⟩ := exists_minimal (plain es) (List.range n) hacIn _ hL
    simp only [List.mem_filter, List.mem_range] at hm
    obtain ⟨hmn, hmv⟩ := hm
    have hmv' : m ∉ vis := by simpa using hmv
    cases hall : (inN es m).all (fun p => vis.contains p) with
    | true =>
      have := inv.compl m hmn (fun p hp => by simpa using List.all_eq_true.mp hall p hp)
      rcases this with h | h
      · exact hmv' h
      · exact absurd h (by simp)
    | false =>
      obtain ⟨p, hp, hpv⟩ := List.all_eq_false.mp hall
      obtain ⟨w, hw⟩ := (mem_inN es m p).mp hp
      have hpn : p < n := (wf _ hw).1
      refine hmin p ?_ (ReachIn.step (List.mem_range.mpr hpn) (List.mem_range.mpr hmn) ((mem_plain es p m).mpr ⟨w, hw⟩))
      simp only [List.mem_filter, List.mem_range]
      exact ⟨hpn, by simpa using hpv⟩

/-! ## the rank function of the visiting order -/

/-- 1-based position of `v` counted from the end of `l` (0 if absent); `l` = visiting order, newest first -/
def posIn : List Nat → Nat → Nat
  | [], _ => 0
  | a :: r, v => if v = a then r.length + 1 else posIn r v

theorem posIn_le : ∀ (l : List Nat) (v : Nat), posIn l v ≤ l.length := by
  intro l
  induction l with
  | nil => intro v; simp [posIn]
  | cons a r ih => intro v; simp only [posIn, List.length_cons]; split; omega; have := ih v; omega

theorem posIn_pos : ∀ (l : List Nat) (v : Nat), v ∈ l → 0 < posIn l v := by
  intro l
  induction l with
  | nil => intro v h; simp at h
  | cons a r ih =>
    intro v h
    simp only [posIn]
    split
    · omega
    · rename_i hne
      rcases List.mem_cons.mp h with h | h
      · exact absurd h hne
      · exact ih v h

theorem predClosed_mem (es : WEdges) : ∀ (l : List Nat), PredClosed es l → ∀ v ∈ l, ∀ p ∈ inN es v, p ∈ l := by
  intro l
  induction l with
  | nil => intro _ v h; simp at h
  | cons a r ih =>
    intro hc v hv p hp
    rcases List.mem_cons.mp hv with h | h
    · subst h; exact List.mem_cons_of_mem _ (hc.1 p hp)
    · exact List.mem_cons_of_mem _ (ih hc.2 v h p hp)

theorem posIn_lt (es : WEdges) : ∀ (l : List Nat), PredClosed es l → l.Nodup → ∀ v ∈ l, ∀ p ∈ inN es v,
    posIn l p < posIn l v := by
  intro l
  induction l with
  | nil => intro _ _ v h; simp at h
  | cons a r ih =>
    intro hc hn v hv p hp
    obtain ⟨har, hnr⟩ := List.nodup_cons.mp hn
    rcases List.mem_cons.mp hv with h | h
    · subst h
      have hpr : p ∈ r := hc.1 p hp
      have hpa : p ≠ v := fun e => har (e ▸ hpr)
      simp only [posIn, hpa, if_false, if_true]
      have := posIn_le r p
      omega
    · have hpr : p ∈ r := predClosed_mem es r hc.2 v h p hp
      have hpa : p ≠ a := fun e => har (e ▸ hpr)
      have hva : v ≠ a := fun e => har (e ▸ h)
      simp only [posIn, hpa, hva, if_false]
      exact ih hc.2 hnr v h p hp

theorem posIn_head : ∀ (l : List Nat), l.Nodup → posIn l (l.reverse.headD 0) ≤ 1 := by
  intro l
  induction l with
  | nil => intro _; simp [posIn]
  | cons a r ih =>
    intro hn
    obtain ⟨har, hnr⟩ := List.nodup_cons.mp hn
    cases hr : r with
    | nil => simp [posIn]
    | cons b r' =>
      have hne : r.reverse ≠ [] := by rw [hr]; simp
      have hh : (a :: r).reverse.headD 0 = r.reverse.headD 0 := by
        simp only [List.reverse_cons]
        cases h : r.reverse with
        | nil => exact absurd h hne
        | cons x xs => simp
      have hmem : r.reverse.headD 0 ∈ r := by
        cases h : r.reverse with
        | nil => exact absurd h hne
        | cons x xs =>
          have : x ∈ r.reverse := by rw [h]; simp
          simpa using this
      rw [← hr, hh]
      have hna : r.reverse.headD 0 ≠ a := fun e => har (e ▸ hmem)
      simp only [posIn, hna, if_false]
      exact ih hnr

/-- rank of node `v`: `K ·` (0-based position in `topo`, +1) -/
def topoRk (n : Nat) (es : WEdges) (K : Nat) (v : Nat) : Nat := K * ((posIn (topo n es).reverse v - 1) + 1)

theorem topoRk_spec (n : Nat) (es : WEdges) (K : Nat) (hn : 0 < n) (wf : ∀ e ∈ es, e.1 < n ∧ e.2.1 < n)
    (hac : Acyclic (plain es)) :
    (topo n es).headD 0 < n ∧ K ≤ topoRk n es K ((topo n es).headD 0) ∧
    (∀ v, topoRk n es K ((topo n es).headD 0) ≤ topoRk n es K v) ∧
    (∀ v, ∀ p ∈ inN es v, topoRk n es K p + K ≤ topoRk n es K v ∧ v < n) := by
  obtain ⟨vis, h1, hnd, hmem, hcl⟩ := topo_spec n es wf hac
  have hrev : (topo n es).reverse = vis := by rw [h1]; simp
  have hhead : posIn vis ((topo n es).headD 0) ≤ 1 := by rw [h1]; exact posIn_head vis hnd
  refine ⟨?_, ?_, ?_, ?_⟩
  · have h0 : 0 ∈ vis := (hmem 0).mpr hn
    rw [h1]
    cases h : vis.reverse with
    | nil =>
      have : (0 : Nat) ∈ vis.reverse := by simpa using h0
      rw [h] at this; exact absurd this (by simp)
    | cons x xs =>
      have : x ∈ vis.reverse := by rw [h]; simp
      exact (hmem x).mp (by simpa using this)
  · unfold topoRk; exact Nat.le_mul_of_pos_right K (by omega)
  · intro v
    unfold topoRk
    rw [hrev]
    apply Nat.mul_le_mul_left
    omega
  · intro v p hp
    obtain ⟨w, hw⟩ := (mem_inN es v p).mp hp
    have hvn : v < n := (wf _ hw).2
    have hpn : p < n := (wf _ hw).1
    refine ⟨?_, hvn⟩
    have hlt := posIn_lt es vis hcl hnd v ((hmem v).mpr hvn) p hp
    have hpp := posIn_pos vis p ((hmem p).mpr hpn)
    unfold topoRk
    rw [hrev]
    have e1 : posIn vis p - 1 + 1 = posIn vis p := by omega
    have e2 : posIn vis v - 1 + 1 = posIn vis v := by omega
    rw [e1, e2]
    calc K * posIn vis p + K = K * (posIn vis p + 1) := by rw [Nat.mul_succ]
      _ ≤ K * posIn vis v := Nat.mul_le_mul_left K hlt

end RbV.Poa.Model
