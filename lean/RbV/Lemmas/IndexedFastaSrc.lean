import RbV.Model.IndexedFasta
import RbV.Lemmas.IndexedFasta
/-!
Shape-independent half of the tie between the *translated* `IndexedReader` (`RbV/Gen/SrcIdxFa.lean`) and the property C12:
what one `read_line` call must deliver for its callers (`StepOk`), stated on the numbers of bytes consumed / kept, and the
consequence for the loop invariant `Inv` of `Lemmas/IndexedFasta.lean`.  Core only.
-/
namespace RbV.IdxFa
open RbV.Fastx

/-- One successful `read_line` call, seen from its callers: from column `lo` it consumed `tr > 0` buffered bytes, of
which the first `n` were bases (appended to the output), left the column at `lo'`; the bases kept are exactly those between
the old and the new column (`hC`), never more than asked for. -/
structure StepOk (idx : Idx) (avail lo bl tr n lo' : Nat) : Prop where
  tr_pos : 0 < tr
  tr_le : tr ≤ avail
  in_line : lo + tr ≤ idx.lB
  bases : min lo idx.lb + n = min (lo + tr) idx.lb
  n_le : n ≤ bl
  col : lo' = if idx.lB ≤ lo + tr then 0 else lo + tr

theorem fillBuf_rest (sched : Nat → Nat) (s : St) : (fillBuf sched s).rest = s.rest := by
  unfold fillBuf; split <;> rfl

theorem fillBuf_avail_pos (sched : Nat → Nat) (s : St) (hs : ∀ k, 0 < sched k) (hne : s.rest ≠ []) :
    0 < (fillBuf sched s).avail := by
  have hlen : 0 < s.rest.length := List.length_pos_iff.mpr hne
  have := hs s.k
  unfold fillBuf; split
  · show 0 < min (sched s.k) s.rest.length; omega
  · omega

theorem fillBuf_avail_le (sched : Nat → Nat) (s : St) (hav : s.avail ≤ s.rest.length) :
    (fillBuf sched s).avail ≤ s.rest.length := by
  unfold fillBuf; split
  · show min (sched s.k) s.rest.length ≤ s.rest.length; omega
  · exact hav

theorem fillBuf_avail_nil (sched : Nat → Nat) (s : St) (hr : s.rest = []) (hav : s.avail ≤ s.rest.length) :
    (fillBuf sched s).avail = 0 := by
  have h0 : s.avail = 0 := by rw [hr] at hav; simpa using hav
  simp [fillBuf, h0, hr]

/-- a step that meets `StepOk` re-establishes the loop invariant `n` bases further, on a strictly shorter stream -/
theorem inv_step (f : Bytes) (sched : Nat → Nat) (idx : Idx) (s : St) (lo cur line bl tr n lo' : Nat)
    (hlb : 0 < idx.lb) (hlB : idx.lb < idx.lB) (inv : Inv f idx s lo cur line)
    (ok : StepOk idx (fillBuf sched s).avail lo bl tr n lo') :
    ∃ line', Inv f idx (consume (fillBuf sched s) tr) lo' (cur + n) line' ∧
      (consume (fillBuf sched s) tr).rest.length < s.rest.length ∧ n ≤ s.rest.length ∧ lo + n ≤ max lo idx.lb ∧ n ≤ bl := by
  obtain ⟨hrest, hlo, hcur, hav⟩ := inv
  obtain ⟨h1, h2, h3, hC, hn, hcol⟩ := ok
  have ha := fillBuf_avail_le sched s hav
  have hr := fillBuf_rest sched s
  have hsucc : (line + 1) * idx.lB = line * idx.lB + idx.lB := by rw [Nat.add_mul]; omega
  have hsuccb : (line + 1) * idx.lb = line * idx.lb + idx.lb := by rw [Nat.add_mul]; omega
  have hdrop : (s.rest.drop tr) = f.drop (idx.off + line * idx.lB + lo + tr) := by rw [hrest, List.drop_drop]
  by_cases hw : idx.lB ≤ lo + tr
  · rw [if_pos hw] at hcol
    refine ⟨line + 1, ⟨?_, ?_, ?_, ?_⟩, ?_, ?_, ?_, hn⟩
    · simp only [consume, hr]; rw [hdrop]; congr 1; omega
    · omega
    · omega
    · simp only [consume, hr, List.length_drop]; omega
    · simp only [consume, hr, List.length_drop]; omega
    · omega
    · omega
  · rw [if_neg hw] at hcol
    refine ⟨line, ⟨?_, ?_, ?_, ?_⟩, ?_, ?_, ?_, hn⟩
    · simp only [consume, hr]; rw [hdrop]; congr 1; omega
    · omega
    · omega
    · simp only [consume, hr, List.length_drop]; omega
    · simp only [consume, hr, List.length_drop]; omega
    · omega
    · omega

/-- `readLoop_spec` with the position of the first missing base: the error comes exactly at the first base that lies
outside the file (so the prefix delivered before the error is determined by the file alone) -/
theorem readLoop_spec' (f : Bytes) (sched : Nat → Nat) (idx : Idx) (cap stop : Nat)
    (hlb : 0 < idx.lb) (hlB : idx.lb < idx.lB) (hs : ∀ k, 0 < sched k) (hcap : 0 < cap) :
    ∀ fuel s lo cur line, Inv f idx s lo cur line → cur ≤ stop → s.rest.length < fuel →
      ((∀ i, cur ≤ i → i < stop → pos idx i < f.length) →
        readLoop sched idx cap fuel s lo (stop - cur) = (slice f idx cur stop, none)) ∧
      (cur < stop → f.length ≤ pos idx (stop - 1) →
        ∃ m, cur ≤ m ∧ m < stop ∧ (∀ i, cur ≤ i → i < m → pos idx i < f.length) ∧ f.length ≤ pos idx m ∧
          readLoop sched idx cap fuel s lo (stop - cur) = (slice f idx cur m, some .eof)) := by
  intro fuel
  induction fuel with
  | zero => intro s lo cur line _ _ h; omega
  | succ fuel ih =>
    intro s lo cur line inv hcs hfuel
    by_cases hdone : stop - cur = 0
    · have : cur = stop := by omega
      subst this
      refine ⟨fun _ => ?_, fun h => by omega⟩
      simp [readLoop, slice_self]
    · have hb : 0 < min cap (stop - cur) := by omega
      by_cases hne : s.rest = []
      · -- end of file
        have hrl := readLine_eof sched idx s lo (min cap (stop - cur)) hne inv.avail_le
        have hbase : f.length ≤ idx.off + line * idx.lB + lo := by
          have := inv.rest_eq; rw [hne] at this
          exact List.drop_eq_nil_iff.mp this.symm
        have hp := inv.base_le_pos hlb hlB
        refine ⟨fun hall => ?_, fun _ _ => ⟨cur, Nat.le_refl _, by omega, fun i h1 h2 => by omega, by omega, ?_⟩⟩
        · have := hall cur (Nat.le_refl _) (by omega); omega
        · simp [readLoop, hdone, hrl, slice_self]
      · obtain ⟨s', lo', n, line', hrl, hnb, hnr, hnl, inv', hshort⟩ :=
          readLine_step f sched idx s lo cur line (min cap (stop - cur)) hlb hlB hs inv hb hne
        have hkl : (s.rest.take n).length = n := by simp; omega
        have hunf : readLoop sched idx cap (fuel + 1) s lo (stop - cur) =
            (s.rest.take n ++ (readLoop sched idx cap fuel s' lo' (stop - (cur + n))).1,
             (readLoop sched idx cap fuel s' lo' (stop - (cur + n))).2) := by
          simp only [readLoop, hdone, if_false, hrl, hkl]
          have : stop - cur - n = stop - (cur + n) := by omega
          rw [this]
        have hpos : ∀ j, j < n → pos idx (cur + j) = idx.off + line * idx.lB + lo + j := by
          intro j hj
          have hlo : lo < idx.lb := by
            rcases Nat.lt_or_ge lo idx.lb with h | h
            · exact h
            · have : max lo idx.lb = lo := by omega
              omega
          have hc : cur + j = line * idx.lb + (lo + j) := by have := inv.cur_eq; omega
          rw [hc, pos_line idx hlb line (lo + j) (by omega)]; omega
        have hslice : s.rest.take n = slice f idx cur (cur + n) :=
          take_eq_slice f s.rest idx _ cur n inv.rest_eq hnr hpos
        have hcn : cur + n ≤ stop := by omega
        obtain ⟨ih1, ih2⟩ := ih s' lo' (cur + n) line' inv' hcn (by omega)
        refine ⟨fun hall => ?_, fun hlt htr => ?_⟩
        · rw [hunf, ih1 (fun i h1 h2 => hall i (by omega) h2), hslice]
          simp only [slice_append f idx (Nat.le_add_right cur n) hcn]
        · have hbase : idx.off + line * idx.lB + lo < f.length := by
            have h1 := inv.rest_eq
            have h2 : (f.drop (idx.off + line * idx.lB + lo)).length = f.length - (idx.off + line * idx.lB + lo) :=
              List.length_drop
            have h3 : 0 < s.rest.length := List.length_pos_iff.mpr hne
            rw [h1, h2] at h3; omega
          have hrl2 : s.rest.length = f.length - (idx.off + line * idx.lB + lo) := by
            rw [inv.rest_eq]; exact List.length_drop
          by_cases hreach : cur + n = stop
          · -- impossible: the last base would lie inside the file
            exfalso
            have hn : 0 < n := by omega
            have hp := hpos (n - 1) (by omega)
            have : cur + (n - 1) = stop - 1 := by omega
            rw [this] at hp
            omega
          · obtain ⟨m, hm1, hm2, hm3, hm4, hm⟩ := ih2 (by omega) htr
            refine ⟨m, by omega, hm2, ?_, hm4, ?_⟩
            · intro i hi1 hi2
              by_cases hi : i < cur + n
              · have := hpos (i - cur) (by omega)
                have e : cur + (i - cur) = i := by omega
                rw [e] at this; omega
              · exact hm3 i (by omega) hi2
            · rw [hunf, hm, hslice]
              simp only [slice_append f idx (Nat.le_add_right cur n) hm1]


end RbV.IdxFa
