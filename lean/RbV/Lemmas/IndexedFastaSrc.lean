import RbV.Model.IndexedFasta
import RbV.Lemmas.IndexedFasta
/-!
Shape-independent half of the tie between the *translated* `IndexedReader` (`RbV/Gen/SrcIdxFa.lean`) and the property C12:
what one `read_line` call must deliver for its callers (`StepOk`), stated on the numbers of bytes consumed / kept, and the
consequence for the loop invariant `Inv` of `Lemmas/IndexedFasta.lean`.  Core only.
-/
namespace RbV.IdxFa
open RbV.Fastx

/-- One successful `read_line` call, seen from its callers: from column `lo` it consumed `tr > 0` buffered bytes, of
which the first `n` were bases (appended to the output), left the column at `lo'`; the bases kept are exactly those between
the old and the new column (`hC`), never more than asked for. -/
structure StepOk (idx : Idx) (avail lo bl tr n lo' : Nat) : Prop where
  tr_pos : 0 < tr
  tr_le : tr ≤ avail
  in_line : lo + tr ≤ idx.lB
  bases : min lo idx.lb + n = min (lo + tr) idx.lb
  n_le : n ≤ bl
  col : lo' = if idx.lB ≤ lo + tr then 0 else lo + tr

theorem fillBuf_rest (sched : Nat → Nat) (s : St) : (fillBuf sched s).rest = s.rest := by
  unfold fillBuf; split <;> rfl

theorem fillBuf_avail_pos (sched : Nat → Nat) (s : St) (hs : ∀ k, 0 < sched k) (hne : s.rest ≠ []) :
    0 < (fillBuf sched s).avail := by
  have hlen : 0 < s.rest.length := List.length_pos_iff.mpr hne
  have := hs s.k
  unfold fillBuf; split
  · show 0 < min (sched s.k) s.rest.length; omega
  · omega

theorem fillBuf_avail_le (sched : Nat → Nat) (s : St) (hav : s.avail ≤ s.rest.length) :
    (fillBuf sched s).avail ≤ s.rest.length := by
  unfold fillBuf; split
  · show min (sched s.k) s.rest.length ≤ s.rest.length; omega
  · exact hav

theorem fillBuf_avail_nil (sched : Nat → Nat) (s : St) (hr : s.rest = []) (hav : s.avail ≤ s.rest.length) :
    (fillBuf sched s).avail = 0 := by
  have h0 : s.avail = 0 := by rw [hr] at hav; simpa using hav
  simp [fillBuf, h0, hr]

/-- a step that meets `StepOk` re-establishes the loop invariant `n` bases further, on a strictly shorter stream -/
theorem inv_step (f : Bytes) (sched : Nat → Nat) (idx : Idx) (s : St) (lo cur line bl tr n lo' : Nat)
    (hlb : 0 < idx.lb) (hlB : idx.lb < idx.lB) (inv : Inv f idx s lo cur line)
    (ok : StepOk idx (fillBuf sched s).avail lo bl tr n lo') :
    ∃ line', Inv f idx (consume (fillBuf sched s) tr) lo' (cur + n) line' ∧
      (consume (fillBuf sched s) tr).rest.length < s.rest.length ∧ n ≤ s.rest.length ∧ lo + n ≤ max lo idx.lb ∧ n ≤ bl := by
  obtain ⟨hrest, hlo, hcur, hav⟩ := inv
  obtain ⟨h1, h2, h3, hC, hn, hcol⟩ := ok
  have ha := fillBuf_avail_le sched s hav
  have hr := fillBuf_rest sched s
  have hsucc : (line + 1) * idx.lB = line * idx.lB + idx.lB := by rw [Nat.add_mul]; omega
  have hsuccb : (line + 1) * idx.lb = line * idx.lb + idx.lb := by rw [Nat.add_mul]; omega
  have hdrop : (s.rest.drop tr) = f.drop (idx.off + line * idx.lB + lo + tr) := by rw [hrest, List.drop_drop]
  by_cases hw : idx.lB ≤ lo + tr
  · rw [if_pos hw] at hcol
    refine ⟨line + 1, ⟨?_, ?_, ?_, ?_⟩, ?_, ?_, ?_, hn⟩
    · simp only [consume, hr]; rw [hdrop]; congr 1; omega
    · omega
    · omega
    · simp only [consume, hr, List.length_drop]; omega
    · simp only [consume, hr, List.length_drop]; omega
    · omega
    · omega
  · rw [if_neg hw] at hcol
    refine ⟨line, ⟨?_, ?_, ?_, ?_⟩, ?_, ?_, ?_, hn⟩
    · simp only [consume, hr]; rw [hdrop]; congr 1; omega
    · omega
    · omega
    · simp only [consume, hr, List.length_drop]; omega
    · simp only [consume, hr, List.length_drop]; omega
    · omega
    · omega

end RbV.IdxFa
