import RbV.Model.BitEnc
/-
Bit-level lemmas about the `BitEnc` model (`RbV.Model.BitEnc`): slots of a 32-bit block,
the masked read-modify-write `rmw`, and the replicated `valueBlock`.  Core Lean only.
-/
-- the statements are fixed (shared interface); some hypotheses turn out not to be needed
set_option linter.unusedVariables false

namespace RbV.Lemmas.BitEncBits
open RbV.Model.BitEnc

/-- value stored in slot `s` of block `x` -/
def slot (w x s : Nat) : Nat := (x >>> (s * w)) &&& mask w

theorem mask_eq (w : Nat) : mask w = 2 ^ w - 1 := by
  unfold mask; rw [Nat.one_shiftLeft]

theorem usable_eq (w : Nat) (hw : 1 ≤ w ∧ w ≤ 8) : usable w = 32 / w * w := by
  unfold usable
  have h := Nat.div_add_mod 32 w
  have h2 : w * (32 / w) = 32 / w * w := Nat.mul_comm _ _
  omega

/-! ### basic `testBit` characterisations -/

theorem testBit_mask (w i : Nat) : (mask w).testBit i = decide (i < w) := by
  rw [mask_eq, Nat.testBit_two_pow_sub_one]

theorem testBit_slot (w y s k : Nat) :
    (slot w y s).testBit k = (decide (k < w) && y.testBit (s * w + k)) := by
  unfold slot
  rw [Nat.testBit_and, Nat.testBit_shiftRight, testBit_mask, Bool.and_comm]

theorem slot_lt (w x s : Nat) : slot w x s < 2 ^ w := by
  unfold slot
  rw [mask_eq, Nat.and_two_pow_sub_one_eq_mod]
  exact Nat.mod_lt _ (Nat.two_pow_pos w)

/-- a slot below `32 / w` lies inside the 32 bits -/
theorem slot_bound (w s : Nat) (hs : s < 32 / w) : s * w + w ≤ 32 := by
  have h1 : (s + 1) * w ≤ 32 / w * w := Nat.mul_le_mul_right w hs
  have h2 : 32 / w * w ≤ 32 := Nat.div_mul_le_self 32 w
  rw [Nat.succ_mul] at h1
  omega

theorem slot_sep (w s s' : Nat) (h : s < s') : s * w + w ≤ s' * w := by
  have h1 : (s + 1) * w ≤ s' * w := Nat.mul_le_mul_right w h
  rw [Nat.succ_mul] at h1
  exact h1

theorem testBit_maskShift (w bit i : Nat) :
    ((mask w <<< bit) % U32).testBit i = decide (bit ≤ i ∧ i < bit + w ∧ i < 32) := by
  unfold U32
  rw [Nat.testBit_mod_two_pow, Nat.testBit_shiftLeft, testBit_mask]
  by_cases h1 : i < 32 <;> by_cases h2 : bit ≤ i <;> by_cases h3 : i < bit + w <;>
    simp [h1, h2, h3] <;> omega

theorem testBit_valShift (w bit v i : Nat) :
    (((v &&& mask w) <<< bit) % U32).testBit i
      = (decide (bit ≤ i ∧ i < bit + w ∧ i < 32) && v.testBit (i - bit)) := by
  unfold U32
  rw [Nat.testBit_mod_two_pow, Nat.testBit_shiftLeft, Nat.testBit_and, testBit_mask]
  by_cases h1 : i < 32 <;> by_cases h2 : bit ≤ i <;> by_cases h3 : i < bit + w <;>
    simp [h1, h2, h3] <;> omega

/-- bitwise characterisation of the read-modify-write -/
theorem testBit_rmw (w x bit v i : Nat) :
    (rmw w x bit v).testBit i
      = if bit ≤ i ∧ i < bit + w ∧ i < 32 then v.testBit (i - bit) else x.testBit i := by
  unfold rmw
  simp only [Nat.testBit_or, Nat.testBit_xor, testBit_maskShift, testBit_valShift]
  by_cases h : bit ≤ i ∧ i < bit + w ∧ i < 32
  · simp [h]
  · simp [h]

/-! ### `rmw` -/

/-- reading the slot just written gives the masked value -/
theorem slot_rmw_same (w x s v : Nat) (hw : 1 ≤ w ∧ w ≤ 8) (hs : s < 32 / w) :
    slot w (rmw w x (s * w) v) s = v % 2 ^ w := by
  have hb := slot_bound w s hs
  apply Nat.eq_of_testBit_eq
  intro k
  rw [testBit_slot, testBit_rmw, Nat.testBit_mod_two_pow]
  by_cases hk : k < w
  · have hc : s * w ≤ s * w + k ∧ s * w + k < s * w + w ∧ s * w + k < 32 := by omega
    rw [if_pos hc, Nat.add_sub_cancel_left]
  · simp [hk]

/-- the other slots of the block are untouched (no bound on `x` needed: bits ≥ 32 are neither
written nor read) -/
theorem slot_rmw_other (w x s s' v : Nat) (hw : 1 ≤ w ∧ w ≤ 8) (hs : s < 32 / w)
    (hs' : s' < 32 / w) (hne : s ≠ s') :
    slot w (rmw w x (s * w) v) s' = slot w x s' := by
  apply Nat.eq_of_testBit_eq
  intro k
  rw [testBit_slot, testBit_slot, testBit_rmw]
  by_cases hk : k < w
  · have hc : ¬ (s * w ≤ s' * w + k ∧ s' * w + k < s * w + w ∧ s' * w + k < 32) := by
      rcases Nat.lt_or_gt_of_ne hne with h | h
      · have := slot_sep w s s' h; omega
      · have := slot_sep w s' s h; omega
    rw [if_neg hc]
  · simp [hk]

/-- blocks stay 32-bit -/
theorem rmw_lt (w x bit v : Nat) (hx : x < U32) : rmw w x bit v < U32 := by
  unfold rmw
  have hpos : 0 < U32 := Nat.two_pow_pos 32
  have hm : (mask w <<< bit) % U32 < 2 ^ 32 := Nat.mod_lt _ hpos
  have hv : ((v &&& mask w) <<< bit) % U32 < 2 ^ 32 := Nat.mod_lt _ hpos
  have hx' : x < 2 ^ 32 := hx
  show _ < 2 ^ 32
  exact Nat.or_lt_two_pow (Nat.xor_lt_two_pow (Nat.or_lt_two_pow hx' hm) hm) hv

/-! ### `valueBlock` -/

theorem valueBlockLoop_lt (w : Nat) : ∀ (k v acc : Nat), v < U32 → acc < U32 →
    valueBlockLoop w k v acc < U32 := by
  intro k
  induction k with
  | zero => intro v acc _ ha; simpa [valueBlockLoop] using ha
  | succ k ih =>
    intro v acc hv ha
    rw [valueBlockLoop]
    apply ih
    · exact Nat.mod_lt _ (Nat.two_pow_pos 32)
    · have hv' : v < 2 ^ 32 := hv
      have ha' : acc < 2 ^ 32 := ha
      show _ < 2 ^ 32
      exact Nat.or_lt_two_pow ha' hv'

theorem valueBlock_lt (w v : Nat) (hw : 1 ≤ w ∧ w ≤ 8) : valueBlock w v < U32 := by
  unfold valueBlock
  apply valueBlockLoop_lt
  · have h1 : v &&& mask w < 2 ^ w := by
      rw [mask_eq, Nat.and_two_pow_sub_one_eq_mod]; exact Nat.mod_lt _ (Nat.two_pow_pos w)
    have h2 : 2 ^ w ≤ 2 ^ 32 := Nat.pow_le_pow_right (by omega) (by omega)
    exact Nat.lt_of_lt_of_le h1 h2
  · exact Nat.two_pow_pos 32

/-- the accumulator can be pulled out of the loop -/
theorem valueBlockLoop_acc (w : Nat) : ∀ (k v acc : Nat),
    valueBlockLoop w k v acc = acc ||| valueBlockLoop w k v 0 := by
  intro k
  induction k with
  | zero => intro v acc; simp [valueBlockLoop]
  | succ k ih =>
    intro v acc
    rw [valueBlockLoop, valueBlockLoop, ih _ (acc ||| v), ih _ (0 ||| v), Nat.zero_or, Nat.or_assoc]

theorem slot_or (w a b s : Nat) : slot w (a ||| b) s = slot w a s ||| slot w b s := by
  apply Nat.eq_of_testBit_eq
  intro k
  simp only [testBit_slot, Nat.testBit_or, Bool.and_or_distrib_left]

theorem slot_zero (w s : Nat) : slot w 0 s = 0 := by
  unfold slot; simp

/-- the `j`-th iterate of the loop variable `v` -/
def vshift (w v j : Nat) : Nat := ((v % 2 ^ w) <<< (j * w)) % U32

theorem testBit_vshift (w v j i : Nat) :
    (vshift w v j).testBit i
      = (decide (j * w ≤ i ∧ i < j * w + w ∧ i < 32) && v.testBit (i - j * w)) := by
  unfold vshift U32
  rw [Nat.testBit_mod_two_pow, Nat.testBit_shiftLeft, Nat.testBit_mod_two_pow]
  by_cases h1 : i < 32 <;> by_cases h2 : j * w ≤ i <;> by_cases h3 : i < j * w + w <;>
    simp [h1, h2, h3] <;> omega

theorem vshift_succ (w v j : Nat) : (vshift w v j <<< w) % U32 = vshift w v (j + 1) := by
  apply Nat.eq_of_testBit_eq
  intro i
  have hU : U32 = 2 ^ 32 := rfl
  rw [hU, Nat.testBit_mod_two_pow, Nat.testBit_shiftLeft, testBit_vshift, testBit_vshift,
    Nat.succ_mul]
  by_cases h1 : i < 32 <;> by_cases h2 : w ≤ i
  · have e : i - w - j * w = i - (j * w + w) := by omega
    rw [e]
    by_cases h3 : j * w + w ≤ i <;> by_cases h4 : i < j * w + w + w
    · have c1 : j * w ≤ i - w ∧ i - w < j * w + w ∧ i - w < 32 := by omega
      simp [h1, h2, h3, h4, c1]
    · have c1 : ¬ (j * w ≤ i - w ∧ i - w < j * w + w ∧ i - w < 32) := by omega
      simp [h1, h2, h4, c1]
    · have c1 : ¬ (j * w ≤ i - w ∧ i - w < j * w + w ∧ i - w < 32) := by omega
      simp [h1, h2, h3, c1]
    · have c1 : ¬ (j * w ≤ i - w ∧ i - w < j * w + w ∧ i - w < 32) := by omega
      simp [h1, h2, h3, c1]
  · have c2 : ¬ (j * w + w ≤ i) := by omega
    simp [h1, h2, c2]
  · simp [h1]
  · simp [h1]

theorem slot_vshift (w v j s : Nat) (hj : j < 32 / w) :
    slot w (vshift w v j) s = if s = j then v % 2 ^ w else 0 := by
  have hb := slot_bound w j hj
  apply Nat.eq_of_testBit_eq
  intro k
  rw [testBit_slot, testBit_vshift]
  by_cases hk : k < w
  · by_cases hsj : s = j
    · subst hsj
      have hc : s * w ≤ s * w + k ∧ s * w + k < s * w + w ∧ s * w + k < 32 := by omega
      simp [hk, hc, Nat.testBit_mod_two_pow]
    · have hc : ¬ (j * w ≤ s * w + k ∧ s * w + k < j * w + w ∧ s * w + k < 32) := by
        rcases Nat.lt_or_gt_of_ne hsj with h | h
        · have := slot_sep w s j h; omega
        · have := slot_sep w j s h; omega
      simp [hsj, hc]
  · by_cases hsj : s = j
    · simp [hk, hsj, Nat.testBit_mod_two_pow]
    · simp [hk, hsj]

/-- loop invariant: starting at round `j`, `k` rounds fill exactly the slots `j … j+k-1` -/
theorem slot_valueBlockLoop (w v : Nat) : ∀ (k j s : Nat), j + k ≤ 32 / w →
    slot w (valueBlockLoop w k (vshift w v j) 0) s
      = if j ≤ s ∧ s < j + k then v % 2 ^ w else 0 := by
  intro k
  induction k with
  | zero =>
    intro j s _
    have hc : ¬ (j ≤ s ∧ s < j + 0) := by omega
    rw [valueBlockLoop, slot_zero, if_neg hc]
  | succ k ih =>
    intro j s hjk
    rw [valueBlockLoop, vshift_succ, Nat.zero_or, valueBlockLoop_acc, slot_or,
      ih (j + 1) s (by omega), slot_vshift w v j s (by omega)]
    by_cases h1 : s = j
    · have c1 : ¬ (j + 1 ≤ s ∧ s < j + 1 + k) := by omega
      have c2 : j ≤ s ∧ s < j + (k + 1) := by omega
      rw [if_pos h1, if_neg c1, if_pos c2, Nat.or_zero]
    · by_cases h2 : j + 1 ≤ s ∧ s < j + 1 + k
      · have c2 : j ≤ s ∧ s < j + (k + 1) := by omega
        rw [if_neg h1, if_pos h2, if_pos c2, Nat.zero_or]
      · have c2 : ¬ (j ≤ s ∧ s < j + (k + 1)) := by omega
        rw [if_neg h1, if_neg h2, if_neg c2, Nat.zero_or]

theorem vshift_zero (w v : Nat) (hw : 1 ≤ w ∧ w ≤ 8) : vshift w v 0 = v &&& mask w := by
  unfold vshift
  rw [Nat.zero_mul, Nat.shiftLeft_zero, mask_eq, Nat.and_two_pow_sub_one_eq_mod]
  apply Nat.mod_eq_of_lt
  have h1 : v % 2 ^ w < 2 ^ w := Nat.mod_lt _ (Nat.two_pow_pos w)
  have h2 : 2 ^ w ≤ 2 ^ 32 := Nat.pow_le_pow_right (by omega) (by omega)
  exact Nat.lt_of_lt_of_le h1 h2

/-- every slot of the replicated block holds the masked value -/
theorem slot_valueBlock (w v s : Nat) (hw : 1 ≤ w ∧ w ≤ 8) (hs : s < 32 / w) :
    slot w (valueBlock w v) s = v % 2 ^ w := by
  unfold valueBlock
  rw [← vshift_zero w v hw, slot_valueBlockLoop w v (32 / w) 0 s (by omega)]
  have c : 0 ≤ s ∧ s < 0 + 32 / w := by omega
  rw [if_pos c]

theorem slot_shift (w y s t : Nat) : slot w (y >>> (t * w)) s = slot w y (s + t) := by
  unfold slot
  rw [← Nat.shiftRight_add, Nat.add_mul, Nat.add_comm (t * w)]

/-- … also after shifting it right by `t` whole slots (the partial last block of `push_values`) -/
theorem slot_valueBlock_shift (w v s t : Nat) (hw : 1 ≤ w ∧ w ≤ 8) (hst : s + t < 32 / w) :
    slot w (valueBlock w v >>> (t * w)) s = v % 2 ^ w := by
  rw [slot_shift, slot_valueBlock w v (s + t) hw hst]

end RbV.Lemmas.BitEncBits
