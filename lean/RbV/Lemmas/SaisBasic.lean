import RbV.Model.Sais
/-
Generic lemmas for the proofs about the SA-IS mirror model (`Model/Sais.lean`):
loop invariants for `forUp`/`forDown`, `getD`/`set`, pigeonhole principles on lists.
-/
namespace RbV.Sais
open RbV

/-! ### loops -/

theorem forUp_inv {σ : Type} (n : Nat) (f : Nat → σ → σ) (s : σ) (P : Nat → σ → Prop)
    (h0 : P 0 s) (hstep : ∀ k s, k < n → P k s → P (k + 1) (f k s)) : P n (forUp n f s) := by
  induction n with
  | zero => exact h0
  | succ m ih =>
    simp only [forUp]
    exact hstep m _ (by omega) (ih (fun k s hk => hstep k s (by omega)))

theorem forDown_inv {σ : Type} (n : Nat) (f : Nat → σ → σ) (s : σ) (P : Nat → σ → Prop)
    (h0 : P n s) (hstep : ∀ k s, k < n → P (k + 1) s → P k (f k s)) : P 0 (forDown n f s) := by
  induction n generalizing s with
  | zero => exact h0
  | succ m ih =>
    simp only [forDown]
    exact ih (f m s) (hstep m s (by omega) h0) (fun k s hk => hstep k s (by omega))

theorem foldl_inv {α σ : Type} (l : List α) (f : σ → α → σ) (s : σ) (P : List α → σ → Prop)
    (h0 : P l s) (hstep : ∀ a rest s, P (a :: rest) s → P rest (f s a)) : P [] (l.foldl f s) := by
  induction l generalizing s with
  | nil => exact h0
  | cons a rest ih => exact ih (f s a) (hstep a rest s h0)

/-! ### `getD` / `set` -/

theorem getD_set_eq {α : Type} (l : List α) (i : Nat) (a d : α) (h : i < l.length) : (l.set i a).getD i d = a := by
  simp [List.getD_eq_getElem?_getD, h]

theorem getD_set_ne {α : Type} (l : List α) (i j : Nat) (a d : α) (h : i ≠ j) : (l.set i a).getD j d = l.getD j d := by
  simp [List.getD_eq_getElem?_getD, h]

theorem getD_set_oob {α : Type} (l : List α) (i j : Nat) (a d : α) (h : l.length ≤ i) :
    (l.set i a).getD j d = l.getD j d := by
  rw [List.set_eq_of_length_le h]

theorem getD_replicate (n : Nat) (a d : Nat) (i : Nat) (h : i < n) : (List.replicate n a).getD i d = a := by
  simp [List.getD_eq_getElem?_getD, h]

theorem getD_mem_of_lt (l : List Nat) (i : Nat) (h : i < l.length) : l.getD i 0 ∈ l := by
  rw [List.getD_eq_getElem?_getD, List.getElem?_eq_getElem h]; exact List.getElem_mem h

theorem exists_getD_of_mem (l : List Nat) (x : Nat) (h : x ∈ l) : ∃ i, i < l.length ∧ l.getD i 0 = x := by
  obtain ⟨i, hi, he⟩ := List.getElem_of_mem h
  exact ⟨i, hi, by rw [List.getD_eq_getElem?_getD, List.getElem?_eq_getElem hi]; simpa using he⟩

/-! ### pigeonhole -/

theorem nodup_subset_length_le : ∀ (l m : List Nat), l.Nodup → (∀ x ∈ l, x ∈ m) → l.length ≤ m.length
  | [], _, _, _ => by simp
  | a :: l, m, hnd, hsub => by
    rw [List.nodup_cons] at hnd
    have ham : a ∈ m := hsub a (by simp)
    have hsub' : ∀ x ∈ l, x ∈ m.erase a := by
      intro x hx
      have hxa : x ≠ a := fun e => hnd.1 (e ▸ hx)
      exact (List.mem_erase_of_ne hxa).mpr (hsub x (by simp [hx]))
    have ih := nodup_subset_length_le l (m.erase a) hnd.2 hsub'
    have hl := List.length_erase_of_mem ham
    have hpos : 0 < m.length := List.length_pos_of_mem ham
    simp only [List.length_cons]; omega

theorem nodup_subset_surj (l m : List Nat) (hnd : l.Nodup) (hsub : ∀ x ∈ l, x ∈ m) (hlen : m.length ≤ l.length) :
    ∀ x ∈ m, x ∈ l := by
  intro x hx
  apply Classical.byContradiction
  intro hnx
  have hsub' : ∀ y ∈ l, y ∈ m.erase x := by
    intro y hy
    have hyx : y ≠ x := fun e => hnx (e ▸ hy)
    exact (List.mem_erase_of_ne hyx).mpr (hsub y hy)
  have h1 := nodup_subset_length_le l (m.erase x) hnd hsub'
  have hl := List.length_erase_of_mem hx
  have hpos : 0 < m.length := List.length_pos_of_mem hx
  omega

/-- the values `f a, …, f (a+k-1)` as a list -/
def slice (f : Nat → Nat) (a k : Nat) : List Nat := (List.range k).map (fun i => f (a + i))

theorem mem_slice (f : Nat → Nat) (a k x : Nat) : x ∈ slice f a k ↔ ∃ i, i < k ∧ f (a + i) = x := by
  simp [slice]

theorem nodup_slice (f : Nat → Nat) (a k : Nat) (hinj : ∀ i j, i < j → j < k → f (a + i) ≠ f (a + j)) :
    (slice f a k).Nodup := by
  unfold slice List.Nodup
  rw [List.pairwise_map]
  have : (List.range k).Pairwise (fun i j => i < j ∧ j < k) := by
    rw [List.pairwise_iff_getElem]
    intro i j hi hj hij
    simp only [List.getElem_range]
    simp only [List.length_range] at hj
    exact ⟨hij, hj⟩
  exact this.imp (fun h => hinj _ _ h.1 h.2)

/-- an injective family of `k` values inside a list `M` : `k ≤ |M|` -/
theorem inj_le (f : Nat → Nat) (a k : Nat) (M : List Nat) (hin : ∀ i, i < k → f (a + i) ∈ M)
    (hinj : ∀ i j, i < j → j < k → f (a + i) ≠ f (a + j)) : k ≤ M.length := by
  have h := nodup_subset_length_le (slice f a k) M (nodup_slice f a k hinj)
    (fun x hx => by obtain ⟨i, hi, he⟩ := (mem_slice f a k x).mp hx; exact he ▸ hin i hi)
  simpa [slice] using h

/-- … and if `|M| ≤ k` the family covers `M` -/
theorem inj_surj (f : Nat → Nat) (a k : Nat) (M : List Nat) (hin : ∀ i, i < k → f (a + i) ∈ M)
    (hinj : ∀ i j, i < j → j < k → f (a + i) ≠ f (a + j)) (hk : M.length ≤ k) :
    ∀ x ∈ M, ∃ i, i < k ∧ f (a + i) = x := by
  intro x hx
  have h := nodup_subset_surj (slice f a k) M (nodup_slice f a k hinj)
    (fun x hx => by obtain ⟨i, hi, he⟩ := (mem_slice f a k x).mp hx; exact he ▸ hin i hi)
    (by simpa [slice] using hk) x hx
  exact (mem_slice f a k x).mp h

/-- a list of length `n` with pairwise distinct entries `< n` is a permutation of `0..n` -/
theorem perm_range_of_inj (l : List Nat) (hlt : ∀ i, i < l.length → l.getD i 0 < l.length)
    (hinj : ∀ i j, i < j → j < l.length → l.getD i 0 ≠ l.getD j 0) : l.Perm (List.range l.length) := by
  have hnd : l.Nodup := by
    unfold List.Nodup
    rw [List.pairwise_iff_getElem]
    intro i j hi hj hij
    have := hinj i j hij hj
    rw [List.getD_eq_getElem?_getD, List.getD_eq_getElem?_getD, List.getElem?_eq_getElem hi,
      List.getElem?_eq_getElem hj] at this
    simpa using this
  rw [List.perm_ext_iff_of_nodup hnd List.nodup_range]
  intro a
  constructor
  · intro ha
    obtain ⟨i, hi, he⟩ := exists_getD_of_mem l a ha
    rw [List.mem_range, ← he]; exact hlt i hi
  · intro ha
    have := nodup_subset_surj l (List.range l.length) hnd
      (fun x hx => by
        obtain ⟨i, hi, he⟩ := exists_getD_of_mem l x hx
        rw [List.mem_range, ← he]; exact hlt i hi)
      (by simp) a ha
    exact this

end RbV.Sais
