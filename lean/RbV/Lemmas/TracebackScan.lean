import RbV.Model.MyersTraceback
/-!
The single-pass evaluation used by the C10 driver (`scanStore`: one walk over the text with the states vector kept in
an `Array`) reports, for every wanted end, exactly `tracebackStore … c c` — the function the soundness theorems are
about.  Core Lean only.
-/
namespace RbV.Model.MyersTraceback
open RbV.EditDist
open RbV.Model.MyersSimple (St)

/-- the search state after the text `u` -/
def runSt (w : Nat) (eqv : Nat → Nat → Bool) (p : List Nat) (s : St w) (u : List Nat) : St w :=
  u.foldl (fun s a => RbV.Model.MyersSimple.step p.length (RbV.Model.MyersSimple.peq w eqv p a) s) s

theorem seqStates_go_snoc (w : Nat) (eqv : Nat → Nat → Bool) (p : List Nat) : ∀ (u : List Nat) (s : St w) (a : Nat),
    seqStates.go w eqv p s (u ++ [a]) =
      seqStates.go w eqv p s u ++
        [RbV.Model.MyersSimple.step p.length (RbV.Model.MyersSimple.peq w eqv p a) (runSt w eqv p s u)] := by
  intro u
  induction u with
  | nil => intro s a; simp [seqStates.go, runSt]
  | cons b u ih =>
    intro s a
    simp only [List.cons_append, seqStates.go, ih, runSt, List.foldl_cons]

theorem seqStates_go_len (w : Nat) (eqv : Nat → Nat → Bool) (p : List Nat) : ∀ (u : List Nat) (s : St w),
    (seqStates.go w eqv p s u).length = u.length + 1 := by
  intro u
  induction u with
  | nil => intro s; simp [seqStates.go]
  | cons a u ih => intro s; simp [seqStates.go, ih]

theorem seqStates_snoc (w : Nat) (eqv : Nat → Nat → Bool) (p : List Nat) (dmax : Nat) (u : List Nat) (a : Nat) :
    seqStates w eqv p dmax (u ++ [a]) =
      seqStates w eqv p dmax u ++
        [RbV.Model.MyersSimple.step p.length (RbV.Model.MyersSimple.peq w eqv p a)
          (runSt w eqv p (RbV.Model.MyersSimple.init w p.length) u)] := by
  simp only [seqStates, seqStates_go_snoc, List.cons_append]

theorem storeAll_snoc {w : Nat} (N : Nat) : ∀ (items : List (St w)) (store : List (St w)) (s : Nat) (x : St w),
    storeAll N store s (items ++ [x]) = (storeAll N store s items).set ((s + items.length) % N) x := by
  intro items
  induction items with
  | nil => intro store s x; simp [storeAll]
  | cons y r ih =>
    intro store s x
    simp only [List.cons_append, storeAll, ih, List.length_cons]
    rw [show s + 1 + r.length = s + (r.length + 1) by omega]

theorem readArr_eq {w : Nat} (store : Array (St w)) (pos : Nat) : readArr store pos = readStore store.toList pos := by
  funext k
  simp [readArr, readStore, Array.getD_eq_getD_getElem?, List.getD_eq_getElem?_getD]

theorem tracebackNow_eq (w : Nat) (eqv : Nat → Nat → Bool) (p : List Nat) (dmax N : Nat) (old : List (St w)) (t : List Nat)
    (c : Nat) (store : Array (St w)) (h : store.toList = storeAll N old 0 (seqStates w eqv p dmax (t.take c))) :
    tracebackNow p.length dmax N store c = tracebackStore w eqv p dmax N old t c c := by
  unfold tracebackNow tracebackStore
  rw [readArr_eq, h]

theorem scanGo_eq (w : Nat) (eqv : Nat → Nat → Bool) (p : List Nat) (dmax N : Nat) (old : List (St w))
    (want : Nat → Bool) : ∀ (rest u : List Nat) (store : Array (St w)),
    store.toList = storeAll N old 0 (seqStates w eqv p dmax u) →
    scanGo w eqv p dmax N want store (runSt w eqv p (RbV.Model.MyersSimple.init w p.length) u) u.length rest =
      ((List.range' u.length (rest.length + 1)).filter want).map
        (fun c => (c, tracebackStore w eqv p dmax N old (u ++ rest) c c)) := by
  intro rest
  induction rest with
  | nil =>
    intro u store h
    have hnow := tracebackNow_eq w eqv p dmax N old u u.length store (by simpa using h)
    simp only [scanGo, List.length_nil, Nat.zero_add, List.range'_one, List.append_nil, hnow]
    cases hw : want u.length <;> simp [List.filter, hw]
  | cons a rest ih =>
    intro u store h
    have hnow := tracebackNow_eq w eqv p dmax N old (u ++ a :: rest) u.length store (by simpa using h)
    have hlen : (seqStates w eqv p dmax u).length = u.length + 2 := by simp [seqStates, seqStates_go_len]
    have h' : (store.setIfInBounds ((u.length + 2) % N)
        (RbV.Model.MyersSimple.step p.length (RbV.Model.MyersSimple.peq w eqv p a)
          (runSt w eqv p (RbV.Model.MyersSimple.init w p.length) u))).toList =
        storeAll N old 0 (seqStates w eqv p dmax (u ++ [a])) := by
      rw [Array.toList_setIfInBounds, h, seqStates_snoc, storeAll_snoc, hlen, Nat.zero_add]
    have ih' := ih (u ++ [a]) _ h'
    have hrun : runSt w eqv p (RbV.Model.MyersSimple.init w p.length) (u ++ [a]) =
        RbV.Model.MyersSimple.step p.length (RbV.Model.MyersSimple.peq w eqv p a)
          (runSt w eqv p (RbV.Model.MyersSimple.init w p.length) u) := by
      simp [runSt, List.foldl_append]
    rw [hrun] at ih'
    simp only [List.length_append, List.length_cons, List.length_nil, Nat.zero_add, List.append_assoc,
      List.cons_append, List.nil_append] at ih'
    simp only [scanGo, ih', hnow, List.length_cons]
    rw [List.range'_succ (s := u.length) (n := rest.length + 1)]
    cases hw : want u.length <;> simp [List.filter, hw]

/-- **the driver's single pass is the proved function**: for every wanted end `c` (number of symbols consumed, `0 … |t|`)
it reports `tracebackStore … t c c` -/
theorem scanStore_eq (w : Nat) (eqv : Nat → Nat → Bool) (p : List Nat) (dmax N : Nat) (old : List (St w)) (t : List Nat)
    (want : Nat → Bool) :
    scanStore w eqv p dmax N old t want =
      ((List.range (t.length + 1)).filter want).map (fun c => (c, tracebackStore w eqv p dmax N old t c c)) := by
  unfold scanStore
  have h0 : (((old.toArray).setIfInBounds (0 % N) (maxSt w dmax)).setIfInBounds (1 % N)
      (RbV.Model.MyersSimple.init w p.length)).toList = storeAll N old 0 (seqStates w eqv p dmax []) := by
    simp [seqStates, seqStates.go, storeAll]
  have := scanGo_eq w eqv p dmax N old want t [] _ h0
  simp only [runSt, List.foldl_nil, List.length_nil, List.nil_append] at this
  rw [this, List.range_eq_range']

end RbV.Model.MyersTraceback
